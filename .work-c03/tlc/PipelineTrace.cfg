\* trace validation against Pipeline, RuleModel = "config" (see PipelineTrace.tla)
SPECIFICATION TraceSpec
CONSTANTS
  Reqs = {1,2,3,4,5,6,7,8,9,10,11,12}
  RuleModel = "config"
  Fuse = FALSE
CONSTRAINT HighWater
INVARIANT TypeOK
POSTCONDITION TraceAccepted
CHECK_DEADLOCK FALSE
