------------------------------ MODULE GqlDebug ------------------------------
(* Debug aid: print the reference result of every Scenario line of trace.ndjson *)
EXTENDS GqlRef, Json
Schema == JsonDeserialize("schema.json")
Trace == ndJsonDeserialize("trace.ndjson")
ASSUME \A i \in 1..Len(Trace) :
   Trace[i].e = "Scenario" =>
      PrintT(ToJson([id |-> Trace[i].id, ref |-> Ref(Schema, Trace[i].op, Trace[i].plan, Trace[i].dirplan, "fwd")]))
VARIABLE x
Init == x = 0
Next == x' = x
=============================================================================
