\* C03 / Pipeline, CURRENT code: per-request rule swap (RuleModel = "words").
\* Same constants as MC_Pipeline.cfg but the small extension-list choice.
SPECIFICATION MCSpec
CONSTANTS
  Reqs = {1, 2}
  RuleModel = "words"
  Fuse = TRUE
  ExtChoice = "small"
  ReqChoice = "small"
VIEW MCView
INVARIANTS TypeOK I1 I2 I3 I4 I5
