\* C03 / Pipeline, REPAIRED design, UNFUSED local steps (every hook event is a
\* step of its own, as in trace validation): checks that fusing loses nothing.
SPECIFICATION MCSpec
CONSTANTS
  Reqs = {1, 2}
  RuleModel = "config"
  Fuse = FALSE
  ExtChoice = "one"
  ReqChoice = "small"
VIEW MCView
INVARIANTS TypeOK I1 I2 I3 I4 I5
