\* C16 view machine over harness-supplied schemas (c16_feed.ndjson in the working directory).
CONSTANTS
    Schemas <- FeedSchemas
    Ops <- FeedOps
INIT VInit
NEXT VNext
INVARIANTS WellFormed RebuildAll RebuildCur ViewClosed ViewRelInv ViewNullKind
ACTION_CONSTRAINT EmitView
CHECK_DEADLOCK FALSE
