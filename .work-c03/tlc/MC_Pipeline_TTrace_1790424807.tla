---- MODULE MC_Pipeline_TTrace_1790424807 ----
EXTENDS Sequences, TLCExt, Toolbox, Naturals, TLC, MC_Pipeline

_expression ==
    LET MC_Pipeline_TEExpression == INSTANCE MC_Pipeline_TEExpression
    IN MC_Pipeline_TEExpression!expression
----

_trace ==
    LET MC_Pipeline_TETrace == INSTANCE MC_Pipeline_TETrace
    IN MC_Pipeline_TETrace!trace
----

_inv ==
    ~(
        TLCGet("level") = Len(_TETrace)
        /\
        todo = (<<<<>>, <<>>>>)
        /\
        cache = (<<>>)
        /\
        pc = (<<"panicked", "rp">>)
        /\
        log = (<<<<[f |-> "", k |-> "pm", i |-> 2, d |-> "call"]>>, <<[f |-> "", k |-> "pm", i |-> 2, d |-> "call"]>>>>)
        /\
        cfg = ([ck |-> "none", cn |-> 0, exts |-> <<[pm |-> FALSE, cm |-> FALSE, oi |-> TRUE, ri |-> TRUE, rf |-> TRUE, fi |-> TRUE], [pm |-> TRUE, cm |-> TRUE, oi |-> FALSE, ri |-> FALSE, rf |-> FALSE, fi |-> FALSE]>>, sugg |-> TRUE])
        /\
        tmp = (<<[s |-> <<>>, h |-> [a |-> <<"rm", 1>>, n |-> 0]], [s |-> <<>>, h |-> [a |-> <<"init", 1>>, n |-> 0]]>>)
        /\
        hdr = ([a |-> <<"rm", 2>>, n |-> 1])
        /\
        glog = (<<[r |-> 1, d |-> "miss", op |-> "cget"], [r |-> 2, d |-> "miss", op |-> "cget"]>>)
        /\
        rq = (<<[q |-> "Q1", cls |-> "ok", opsel |-> "found", rej |-> [k |-> "none", i |-> 0], rounds |-> <<"data">>, roots |-> <<[f |-> "a", sub |-> <<"a.b">>]>>, vcls |-> "good"], [q |-> "Q1", cls |-> "ok", opsel |-> "found", rej |-> [k |-> "none", i |-> 0], rounds |-> <<"data">>, roots |-> <<[f |-> "a", sub |-> <<"a.b">>]>>, vcls |-> "bad"]>>)
        /\
        arrs = ((<<"init", 1>> :> <<"FOCT">> @@ <<"init", 2>> :> <<>> @@ <<"rm", 1>> :> <<"NS">> @@ <<"rm", 2>> :> <<>> @@ <<"rp", 1>> :> <<>> @@ <<"rp", 2>> :> <<>>))
    )
----

_init ==
    /\ tmp = _TETrace[1].tmp
    /\ log = _TETrace[1].log
    /\ pc = _TETrace[1].pc
    /\ hdr = _TETrace[1].hdr
    /\ rq = _TETrace[1].rq
    /\ arrs = _TETrace[1].arrs
    /\ todo = _TETrace[1].todo
    /\ glog = _TETrace[1].glog
    /\ cfg = _TETrace[1].cfg
    /\ cache = _TETrace[1].cache
----

_next ==
    /\ \E i,j \in DOMAIN _TETrace:
        /\ \/ /\ j = i + 1
              /\ i = TLCGet("level")
        /\ tmp  = _TETrace[i].tmp
        /\ tmp' = _TETrace[j].tmp
        /\ log  = _TETrace[i].log
        /\ log' = _TETrace[j].log
        /\ pc  = _TETrace[i].pc
        /\ pc' = _TETrace[j].pc
        /\ hdr  = _TETrace[i].hdr
        /\ hdr' = _TETrace[j].hdr
        /\ rq  = _TETrace[i].rq
        /\ rq' = _TETrace[j].rq
        /\ arrs  = _TETrace[i].arrs
        /\ arrs' = _TETrace[j].arrs
        /\ todo  = _TETrace[i].todo
        /\ todo' = _TETrace[j].todo
        /\ glog  = _TETrace[i].glog
        /\ glog' = _TETrace[j].glog
        /\ cfg  = _TETrace[i].cfg
        /\ cfg' = _TETrace[j].cfg
        /\ cache  = _TETrace[i].cache
        /\ cache' = _TETrace[j].cache

\* Uncomment the ASSUME below to write the states of the error trace
\* to the given file in Json format. Note that you can pass any tuple
\* to `JsonSerialize`. For example, a sub-sequence of _TETrace.
    \* ASSUME
    \*     LET J == INSTANCE Json
    \*         IN J!JsonSerialize("MC_Pipeline_TTrace_1790424807.json", _TETrace)

=============================================================================

 Note that you can extract this module `MC_Pipeline_TEExpression`
  to a dedicated file to reuse `expression` (the module in the 
  dedicated `MC_Pipeline_TEExpression.tla` file takes precedence 
  over the module `MC_Pipeline_TEExpression` below).

---- MODULE MC_Pipeline_TEExpression ----
EXTENDS Sequences, TLCExt, Toolbox, Naturals, TLC, MC_Pipeline

expression == 
    [
        \* To hide variables of the `MC_Pipeline` spec from the error trace,
        \* remove the variables below.  The trace will be written in the order
        \* of the fields of this record.
        tmp |-> tmp
        ,log |-> log
        ,pc |-> pc
        ,hdr |-> hdr
        ,rq |-> rq
        ,arrs |-> arrs
        ,todo |-> todo
        ,glog |-> glog
        ,cfg |-> cfg
        ,cache |-> cache
        
        \* Put additional constant-, state-, and action-level expressions here:
        \* ,_stateNumber |-> _TEPosition
        \* ,_tmpUnchanged |-> tmp = tmp'
        
        \* Format the `tmp` variable as Json value.
        \* ,_tmpJson |->
        \*     LET J == INSTANCE Json
        \*     IN J!ToJson(tmp)
        
        \* Lastly, you may build expressions over arbitrary sets of states by
        \* leveraging the _TETrace operator.  For example, this is how to
        \* count the number of times a spec variable changed up to the current
        \* state in the trace.
        \* ,_tmpModCount |->
        \*     LET F[s \in DOMAIN _TETrace] ==
        \*         IF s = 1 THEN 0
        \*         ELSE IF _TETrace[s].tmp # _TETrace[s-1].tmp
        \*             THEN 1 + F[s-1] ELSE F[s-1]
        \*     IN F[_TEPosition - 1]
    ]

=============================================================================



Parsing and semantic processing can take forever if the trace below is long.
 In this case, it is advised to uncomment the module below to deserialize the
 trace from a generated binary file.

\*
\*---- MODULE MC_Pipeline_TETrace ----
\*EXTENDS IOUtils, TLC, MC_Pipeline
\*
\*trace == IODeserialize("MC_Pipeline_TTrace_1790424807.bin", TRUE)
\*
\*=============================================================================
\*

---- MODULE MC_Pipeline_TETrace ----
EXTENDS TLC, MC_Pipeline

trace == 
    <<
    ([todo |-> <<<<>>, <<>>>>,cache |-> <<>>,pc |-> <<"idle", "idle">>,log |-> <<<<>>, <<>>>>,cfg |-> [ck |-> "none", cn |-> 0, exts |-> <<[pm |-> FALSE, cm |-> FALSE, oi |-> TRUE, ri |-> TRUE, rf |-> TRUE, fi |-> TRUE], [pm |-> TRUE, cm |-> TRUE, oi |-> FALSE, ri |-> FALSE, rf |-> FALSE, fi |-> FALSE]>>, sugg |-> TRUE],tmp |-> <<[s |-> <<>>, h |-> [a |-> <<"init", 1>>, n |-> 0]], [s |-> <<>>, h |-> [a |-> <<"init", 1>>, n |-> 0]]>>,hdr |-> [a |-> <<"init", 1>>, n |-> 1],glog |-> <<>>,rq |-> <<[q |-> "", cls |-> "ok", opsel |-> "found", rej |-> [k |-> "none", i |-> 0], rounds |-> <<>>, roots |-> <<>>, vcls |-> "good"], [q |-> "", cls |-> "ok", opsel |-> "found", rej |-> [k |-> "none", i |-> 0], rounds |-> <<>>, roots |-> <<>>, vcls |-> "good"]>>,arrs |-> (<<"init", 1>> :> <<"FOCT">> @@ <<"init", 2>> :> <<>> @@ <<"rm", 1>> :> <<>> @@ <<"rm", 2>> :> <<>> @@ <<"rp", 1>> :> <<>> @@ <<"rp", 2>> :> <<>>)]),
    ([todo |-> <<<<[f |-> "", k |-> "pm", i |-> 2, d |-> "call"]>>, <<>>>>,cache |-> <<>>,pc |-> <<"pm", "idle">>,log |-> <<<<>>, <<>>>>,cfg |-> [ck |-> "none", cn |-> 0, exts |-> <<[pm |-> FALSE, cm |-> FALSE, oi |-> TRUE, ri |-> TRUE, rf |-> TRUE, fi |-> TRUE], [pm |-> TRUE, cm |-> TRUE, oi |-> FALSE, ri |-> FALSE, rf |-> FALSE, fi |-> FALSE]>>, sugg |-> TRUE],tmp |-> <<[s |-> <<>>, h |-> [a |-> <<"init", 1>>, n |-> 0]], [s |-> <<>>, h |-> [a |-> <<"init", 1>>, n |-> 0]]>>,hdr |-> [a |-> <<"init", 1>>, n |-> 1],glog |-> <<>>,rq |-> <<[q |-> "Q1", cls |-> "ok", opsel |-> "found", rej |-> [k |-> "none", i |-> 0], rounds |-> <<"data">>, roots |-> <<[f |-> "a", sub |-> <<"a.b">>]>>, vcls |-> "good"], [q |-> "", cls |-> "ok", opsel |-> "found", rej |-> [k |-> "none", i |-> 0], rounds |-> <<>>, roots |-> <<>>, vcls |-> "good"]>>,arrs |-> (<<"init", 1>> :> <<"FOCT">> @@ <<"init", 2>> :> <<>> @@ <<"rm", 1>> :> <<>> @@ <<"rm", 2>> :> <<>> @@ <<"rp", 1>> :> <<>> @@ <<"rp", 2>> :> <<>>)]),
    ([todo |-> <<<<>>, <<>>>>,cache |-> <<>>,pc |-> <<"cget", "idle">>,log |-> <<<<[f |-> "", k |-> "pm", i |-> 2, d |-> "call"]>>, <<>>>>,cfg |-> [ck |-> "none", cn |-> 0, exts |-> <<[pm |-> FALSE, cm |-> FALSE, oi |-> TRUE, ri |-> TRUE, rf |-> TRUE, fi |-> TRUE], [pm |-> TRUE, cm |-> TRUE, oi |-> FALSE, ri |-> FALSE, rf |-> FALSE, fi |-> FALSE]>>, sugg |-> TRUE],tmp |-> <<[s |-> <<>>, h |-> [a |-> <<"init", 1>>, n |-> 0]], [s |-> <<>>, h |-> [a |-> <<"init", 1>>, n |-> 0]]>>,hdr |-> [a |-> <<"init", 1>>, n |-> 1],glog |-> <<>>,rq |-> <<[q |-> "Q1", cls |-> "ok", opsel |-> "found", rej |-> [k |-> "none", i |-> 0], rounds |-> <<"data">>, roots |-> <<[f |-> "a", sub |-> <<"a.b">>]>>, vcls |-> "good"], [q |-> "", cls |-> "ok", opsel |-> "found", rej |-> [k |-> "none", i |-> 0], rounds |-> <<>>, roots |-> <<>>, vcls |-> "good"]>>,arrs |-> (<<"init", 1>> :> <<"FOCT">> @@ <<"init", 2>> :> <<>> @@ <<"rm", 1>> :> <<>> @@ <<"rm", 2>> :> <<>> @@ <<"rp", 1>> :> <<>> @@ <<"rp", 2>> :> <<>>)]),
    ([todo |-> <<<<>>, <<>>>>,cache |-> <<>>,pc |-> <<"rm", "idle">>,log |-> <<<<[f |-> "", k |-> "pm", i |-> 2, d |-> "call"]>>, <<>>>>,cfg |-> [ck |-> "none", cn |-> 0, exts |-> <<[pm |-> FALSE, cm |-> FALSE, oi |-> TRUE, ri |-> TRUE, rf |-> TRUE, fi |-> TRUE], [pm |-> TRUE, cm |-> TRUE, oi |-> FALSE, ri |-> FALSE, rf |-> FALSE, fi |-> FALSE]>>, sugg |-> TRUE],tmp |-> <<[s |-> <<>>, h |-> [a |-> <<"init", 1>>, n |-> 0]], [s |-> <<>>, h |-> [a |-> <<"init", 1>>, n |-> 0]]>>,hdr |-> [a |-> <<"init", 1>>, n |-> 1],glog |-> <<[r |-> 1, d |-> "miss", op |-> "cget"]>>,rq |-> <<[q |-> "Q1", cls |-> "ok", opsel |-> "found", rej |-> [k |-> "none", i |-> 0], rounds |-> <<"data">>, roots |-> <<[f |-> "a", sub |-> <<"a.b">>]>>, vcls |-> "good"], [q |-> "", cls |-> "ok", opsel |-> "found", rej |-> [k |-> "none", i |-> 0], rounds |-> <<>>, roots |-> <<>>, vcls |-> "good"]>>,arrs |-> (<<"init", 1>> :> <<"FOCT">> @@ <<"init", 2>> :> <<>> @@ <<"rm", 1>> :> <<>> @@ <<"rm", 2>> :> <<>> @@ <<"rp", 1>> :> <<>> @@ <<"rp", 2>> :> <<>>)]),
    ([todo |-> <<<<>>, <<>>>>,cache |-> <<>>,pc |-> <<"rmW", "idle">>,log |-> <<<<[f |-> "", k |-> "pm", i |-> 2, d |-> "call"]>>, <<>>>>,cfg |-> [ck |-> "none", cn |-> 0, exts |-> <<[pm |-> FALSE, cm |-> FALSE, oi |-> TRUE, ri |-> TRUE, rf |-> TRUE, fi |-> TRUE], [pm |-> TRUE, cm |-> TRUE, oi |-> FALSE, ri |-> FALSE, rf |-> FALSE, fi |-> FALSE]>>, sugg |-> TRUE],tmp |-> <<[s |-> <<"FOCT">>, h |-> [a |-> <<"init", 1>>, n |-> 0]], [s |-> <<>>, h |-> [a |-> <<"init", 1>>, n |-> 0]]>>,hdr |-> [a |-> <<"init", 1>>, n |-> 1],glog |-> <<[r |-> 1, d |-> "miss", op |-> "cget"]>>,rq |-> <<[q |-> "Q1", cls |-> "ok", opsel |-> "found", rej |-> [k |-> "none", i |-> 0], rounds |-> <<"data">>, roots |-> <<[f |-> "a", sub |-> <<"a.b">>]>>, vcls |-> "good"], [q |-> "", cls |-> "ok", opsel |-> "found", rej |-> [k |-> "none", i |-> 0], rounds |-> <<>>, roots |-> <<>>, vcls |-> "good"]>>,arrs |-> (<<"init", 1>> :> <<"FOCT">> @@ <<"init", 2>> :> <<>> @@ <<"rm", 1>> :> <<>> @@ <<"rm", 2>> :> <<>> @@ <<"rp", 1>> :> <<>> @@ <<"rp", 2>> :> <<>>)]),
    ([todo |-> <<<<>>, <<>>>>,cache |-> <<>>,pc |-> <<"rp", "idle">>,log |-> <<<<[f |-> "", k |-> "pm", i |-> 2, d |-> "call"]>>, <<>>>>,cfg |-> [ck |-> "none", cn |-> 0, exts |-> <<[pm |-> FALSE, cm |-> FALSE, oi |-> TRUE, ri |-> TRUE, rf |-> TRUE, fi |-> TRUE], [pm |-> TRUE, cm |-> TRUE, oi |-> FALSE, ri |-> FALSE, rf |-> FALSE, fi |-> FALSE]>>, sugg |-> TRUE],tmp |-> <<[s |-> <<"FOCT">>, h |-> [a |-> <<"init", 1>>, n |-> 0]], [s |-> <<>>, h |-> [a |-> <<"init", 1>>, n |-> 0]]>>,hdr |-> [a |-> <<"rm", 1>>, n |-> 0],glog |-> <<[r |-> 1, d |-> "miss", op |-> "cget"]>>,rq |-> <<[q |-> "Q1", cls |-> "ok", opsel |-> "found", rej |-> [k |-> "none", i |-> 0], rounds |-> <<"data">>, roots |-> <<[f |-> "a", sub |-> <<"a.b">>]>>, vcls |-> "good"], [q |-> "", cls |-> "ok", opsel |-> "found", rej |-> [k |-> "none", i |-> 0], rounds |-> <<>>, roots |-> <<>>, vcls |-> "good"]>>,arrs |-> (<<"init", 1>> :> <<"FOCT">> @@ <<"init", 2>> :> <<>> @@ <<"rm", 1>> :> <<>> @@ <<"rm", 2>> :> <<>> @@ <<"rp", 1>> :> <<>> @@ <<"rp", 2>> :> <<>>)]),
    ([todo |-> <<<<>>, <<>>>>,cache |-> <<>>,pc |-> <<"ap", "idle">>,log |-> <<<<[f |-> "", k |-> "pm", i |-> 2, d |-> "call"]>>, <<>>>>,cfg |-> [ck |-> "none", cn |-> 0, exts |-> <<[pm |-> FALSE, cm |-> FALSE, oi |-> TRUE, ri |-> TRUE, rf |-> TRUE, fi |-> TRUE], [pm |-> TRUE, cm |-> TRUE, oi |-> FALSE, ri |-> FALSE, rf |-> FALSE, fi |-> FALSE]>>, sugg |-> TRUE],tmp |-> <<[s |-> <<>>, h |-> [a |-> <<"init", 1>>, n |-> 0]], [s |-> <<>>, h |-> [a |-> <<"init", 1>>, n |-> 0]]>>,hdr |-> [a |-> <<"rm", 1>>, n |-> 0],glog |-> <<[r |-> 1, d |-> "miss", op |-> "cget"]>>,rq |-> <<[q |-> "Q1", cls |-> "ok", opsel |-> "found", rej |-> [k |-> "none", i |-> 0], rounds |-> <<"data">>, roots |-> <<[f |-> "a", sub |-> <<"a.b">>]>>, vcls |-> "good"], [q |-> "", cls |-> "ok", opsel |-> "found", rej |-> [k |-> "none", i |-> 0], rounds |-> <<>>, roots |-> <<>>, vcls |-> "good"]>>,arrs |-> (<<"init", 1>> :> <<"FOCT">> @@ <<"init", 2>> :> <<>> @@ <<"rm", 1>> :> <<>> @@ <<"rm", 2>> :> <<>> @@ <<"rp", 1>> :> <<>> @@ <<"rp", 2>> :> <<>>)]),
    ([todo |-> <<<<>>, <<>>>>,cache |-> <<>>,pc |-> <<"apW", "idle">>,log |-> <<<<[f |-> "", k |-> "pm", i |-> 2, d |-> "call"]>>, <<>>>>,cfg |-> [ck |-> "none", cn |-> 0, exts |-> <<[pm |-> FALSE, cm |-> FALSE, oi |-> TRUE, ri |-> TRUE, rf |-> TRUE, fi |-> TRUE], [pm |-> TRUE, cm |-> TRUE, oi |-> FALSE, ri |-> FALSE, rf |-> FALSE, fi |-> FALSE]>>, sugg |-> TRUE],tmp |-> <<[s |-> <<>>, h |-> [a |-> <<"rm", 1>>, n |-> 0]], [s |-> <<>>, h |-> [a |-> <<"init", 1>>, n |-> 0]]>>,hdr |-> [a |-> <<"rm", 1>>, n |-> 0],glog |-> <<[r |-> 1, d |-> "miss", op |-> "cget"]>>,rq |-> <<[q |-> "Q1", cls |-> "ok", opsel |-> "found", rej |-> [k |-> "none", i |-> 0], rounds |-> <<"data">>, roots |-> <<[f |-> "a", sub |-> <<"a.b">>]>>, vcls |-> "good"], [q |-> "", cls |-> "ok", opsel |-> "found", rej |-> [k |-> "none", i |-> 0], rounds |-> <<>>, roots |-> <<>>, vcls |-> "good"]>>,arrs |-> (<<"init", 1>> :> <<"FOCT">> @@ <<"init", 2>> :> <<>> @@ <<"rm", 1>> :> <<>> @@ <<"rm", 2>> :> <<>> @@ <<"rp", 1>> :> <<>> @@ <<"rp", 2>> :> <<>>)]),
    ([todo |-> <<<<>>, <<[f |-> "", k |-> "pm", i |-> 2, d |-> "call"]>>>>,cache |-> <<>>,pc |-> <<"apW", "pm">>,log |-> <<<<[f |-> "", k |-> "pm", i |-> 2, d |-> "call"]>>, <<>>>>,cfg |-> [ck |-> "none", cn |-> 0, exts |-> <<[pm |-> FALSE, cm |-> FALSE, oi |-> TRUE, ri |-> TRUE, rf |-> TRUE, fi |-> TRUE], [pm |-> TRUE, cm |-> TRUE, oi |-> FALSE, ri |-> FALSE, rf |-> FALSE, fi |-> FALSE]>>, sugg |-> TRUE],tmp |-> <<[s |-> <<>>, h |-> [a |-> <<"rm", 1>>, n |-> 0]], [s |-> <<>>, h |-> [a |-> <<"init", 1>>, n |-> 0]]>>,hdr |-> [a |-> <<"rm", 1>>, n |-> 0],glog |-> <<[r |-> 1, d |-> "miss", op |-> "cget"]>>,rq |-> <<[q |-> "Q1", cls |-> "ok", opsel |-> "found", rej |-> [k |-> "none", i |-> 0], rounds |-> <<"data">>, roots |-> <<[f |-> "a", sub |-> <<"a.b">>]>>, vcls |-> "good"], [q |-> "Q1", cls |-> "ok", opsel |-> "found", rej |-> [k |-> "none", i |-> 0], rounds |-> <<"data">>, roots |-> <<[f |-> "a", sub |-> <<"a.b">>]>>, vcls |-> "bad"]>>,arrs |-> (<<"init", 1>> :> <<"FOCT">> @@ <<"init", 2>> :> <<>> @@ <<"rm", 1>> :> <<>> @@ <<"rm", 2>> :> <<>> @@ <<"rp", 1>> :> <<>> @@ <<"rp", 2>> :> <<>>)]),
    ([todo |-> <<<<>>, <<>>>>,cache |-> <<>>,pc |-> <<"apW", "cget">>,log |-> <<<<[f |-> "", k |-> "pm", i |-> 2, d |-> "call"]>>, <<[f |-> "", k |-> "pm", i |-> 2, d |-> "call"]>>>>,cfg |-> [ck |-> "none", cn |-> 0, exts |-> <<[pm |-> FALSE, cm |-> FALSE, oi |-> TRUE, ri |-> TRUE, rf |-> TRUE, fi |-> TRUE], [pm |-> TRUE, cm |-> TRUE, oi |-> FALSE, ri |-> FALSE, rf |-> FALSE, fi |-> FALSE]>>, sugg |-> TRUE],tmp |-> <<[s |-> <<>>, h |-> [a |-> <<"rm", 1>>, n |-> 0]], [s |-> <<>>, h |-> [a |-> <<"init", 1>>, n |-> 0]]>>,hdr |-> [a |-> <<"rm", 1>>, n |-> 0],glog |-> <<[r |-> 1, d |-> "miss", op |-> "cget"]>>,rq |-> <<[q |-> "Q1", cls |-> "ok", opsel |-> "found", rej |-> [k |-> "none", i |-> 0], rounds |-> <<"data">>, roots |-> <<[f |-> "a", sub |-> <<"a.b">>]>>, vcls |-> "good"], [q |-> "Q1", cls |-> "ok", opsel |-> "found", rej |-> [k |-> "none", i |-> 0], rounds |-> <<"data">>, roots |-> <<[f |-> "a", sub |-> <<"a.b">>]>>, vcls |-> "bad"]>>,arrs |-> (<<"init", 1>> :> <<"FOCT">> @@ <<"init", 2>> :> <<>> @@ <<"rm", 1>> :> <<>> @@ <<"rm", 2>> :> <<>> @@ <<"rp", 1>> :> <<>> @@ <<"rp", 2>> :> <<>>)]),
    ([todo |-> <<<<>>, <<>>>>,cache |-> <<>>,pc |-> <<"apW", "rm">>,log |-> <<<<[f |-> "", k |-> "pm", i |-> 2, d |-> "call"]>>, <<[f |-> "", k |-> "pm", i |-> 2, d |-> "call"]>>>>,cfg |-> [ck |-> "none", cn |-> 0, exts |-> <<[pm |-> FALSE, cm |-> FALSE, oi |-> TRUE, ri |-> TRUE, rf |-> TRUE, fi |-> TRUE], [pm |-> TRUE, cm |-> TRUE, oi |-> FALSE, ri |-> FALSE, rf |-> FALSE, fi |-> FALSE]>>, sugg |-> TRUE],tmp |-> <<[s |-> <<>>, h |-> [a |-> <<"rm", 1>>, n |-> 0]], [s |-> <<>>, h |-> [a |-> <<"init", 1>>, n |-> 0]]>>,hdr |-> [a |-> <<"rm", 1>>, n |-> 0],glog |-> <<[r |-> 1, d |-> "miss", op |-> "cget"], [r |-> 2, d |-> "miss", op |-> "cget"]>>,rq |-> <<[q |-> "Q1", cls |-> "ok", opsel |-> "found", rej |-> [k |-> "none", i |-> 0], rounds |-> <<"data">>, roots |-> <<[f |-> "a", sub |-> <<"a.b">>]>>, vcls |-> "good"], [q |-> "Q1", cls |-> "ok", opsel |-> "found", rej |-> [k |-> "none", i |-> 0], rounds |-> <<"data">>, roots |-> <<[f |-> "a", sub |-> <<"a.b">>]>>, vcls |-> "bad"]>>,arrs |-> (<<"init", 1>> :> <<"FOCT">> @@ <<"init", 2>> :> <<>> @@ <<"rm", 1>> :> <<>> @@ <<"rm", 2>> :> <<>> @@ <<"rp", 1>> :> <<>> @@ <<"rp", 2>> :> <<>>)]),
    ([todo |-> <<<<>>, <<>>>>,cache |-> <<>>,pc |-> <<"apW", "rmW">>,log |-> <<<<[f |-> "", k |-> "pm", i |-> 2, d |-> "call"]>>, <<[f |-> "", k |-> "pm", i |-> 2, d |-> "call"]>>>>,cfg |-> [ck |-> "none", cn |-> 0, exts |-> <<[pm |-> FALSE, cm |-> FALSE, oi |-> TRUE, ri |-> TRUE, rf |-> TRUE, fi |-> TRUE], [pm |-> TRUE, cm |-> TRUE, oi |-> FALSE, ri |-> FALSE, rf |-> FALSE, fi |-> FALSE]>>, sugg |-> TRUE],tmp |-> <<[s |-> <<>>, h |-> [a |-> <<"rm", 1>>, n |-> 0]], [s |-> <<>>, h |-> [a |-> <<"init", 1>>, n |-> 0]]>>,hdr |-> [a |-> <<"rm", 1>>, n |-> 0],glog |-> <<[r |-> 1, d |-> "miss", op |-> "cget"], [r |-> 2, d |-> "miss", op |-> "cget"]>>,rq |-> <<[q |-> "Q1", cls |-> "ok", opsel |-> "found", rej |-> [k |-> "none", i |-> 0], rounds |-> <<"data">>, roots |-> <<[f |-> "a", sub |-> <<"a.b">>]>>, vcls |-> "good"], [q |-> "Q1", cls |-> "ok", opsel |-> "found", rej |-> [k |-> "none", i |-> 0], rounds |-> <<"data">>, roots |-> <<[f |-> "a", sub |-> <<"a.b">>]>>, vcls |-> "bad"]>>,arrs |-> (<<"init", 1>> :> <<"FOCT">> @@ <<"init", 2>> :> <<>> @@ <<"rm", 1>> :> <<>> @@ <<"rm", 2>> :> <<>> @@ <<"rp", 1>> :> <<>> @@ <<"rp", 2>> :> <<>>)]),
    ([todo |-> <<<<>>, <<>>>>,cache |-> <<>>,pc |-> <<"apW", "rp">>,log |-> <<<<[f |-> "", k |-> "pm", i |-> 2, d |-> "call"]>>, <<[f |-> "", k |-> "pm", i |-> 2, d |-> "call"]>>>>,cfg |-> [ck |-> "none", cn |-> 0, exts |-> <<[pm |-> FALSE, cm |-> FALSE, oi |-> TRUE, ri |-> TRUE, rf |-> TRUE, fi |-> TRUE], [pm |-> TRUE, cm |-> TRUE, oi |-> FALSE, ri |-> FALSE, rf |-> FALSE, fi |-> FALSE]>>, sugg |-> TRUE],tmp |-> <<[s |-> <<>>, h |-> [a |-> <<"rm", 1>>, n |-> 0]], [s |-> <<>>, h |-> [a |-> <<"init", 1>>, n |-> 0]]>>,hdr |-> [a |-> <<"rm", 2>>, n |-> 0],glog |-> <<[r |-> 1, d |-> "miss", op |-> "cget"], [r |-> 2, d |-> "miss", op |-> "cget"]>>,rq |-> <<[q |-> "Q1", cls |-> "ok", opsel |-> "found", rej |-> [k |-> "none", i |-> 0], rounds |-> <<"data">>, roots |-> <<[f |-> "a", sub |-> <<"a.b">>]>>, vcls |-> "good"], [q |-> "Q1", cls |-> "ok", opsel |-> "found", rej |-> [k |-> "none", i |-> 0], rounds |-> <<"data">>, roots |-> <<[f |-> "a", sub |-> <<"a.b">>]>>, vcls |-> "bad"]>>,arrs |-> (<<"init", 1>> :> <<"FOCT">> @@ <<"init", 2>> :> <<>> @@ <<"rm", 1>> :> <<>> @@ <<"rm", 2>> :> <<>> @@ <<"rp", 1>> :> <<>> @@ <<"rp", 2>> :> <<>>)]),
    ([todo |-> <<<<>>, <<>>>>,cache |-> <<>>,pc |-> <<"validate", "rp">>,log |-> <<<<[f |-> "", k |-> "pm", i |-> 2, d |-> "call"]>>, <<[f |-> "", k |-> "pm", i |-> 2, d |-> "call"]>>>>,cfg |-> [ck |-> "none", cn |-> 0, exts |-> <<[pm |-> FALSE, cm |-> FALSE, oi |-> TRUE, ri |-> TRUE, rf |-> TRUE, fi |-> TRUE], [pm |-> TRUE, cm |-> TRUE, oi |-> FALSE, ri |-> FALSE, rf |-> FALSE, fi |-> FALSE]>>, sugg |-> TRUE],tmp |-> <<[s |-> <<>>, h |-> [a |-> <<"rm", 1>>, n |-> 0]], [s |-> <<>>, h |-> [a |-> <<"init", 1>>, n |-> 0]]>>,hdr |-> [a |-> <<"rm", 2>>, n |-> 1],glog |-> <<[r |-> 1, d |-> "miss", op |-> "cget"], [r |-> 2, d |-> "miss", op |-> "cget"]>>,rq |-> <<[q |-> "Q1", cls |-> "ok", opsel |-> "found", rej |-> [k |-> "none", i |-> 0], rounds |-> <<"data">>, roots |-> <<[f |-> "a", sub |-> <<"a.b">>]>>, vcls |-> "good"], [q |-> "Q1", cls |-> "ok", opsel |-> "found", rej |-> [k |-> "none", i |-> 0], rounds |-> <<"data">>, roots |-> <<[f |-> "a", sub |-> <<"a.b">>]>>, vcls |-> "bad"]>>,arrs |-> (<<"init", 1>> :> <<"FOCT">> @@ <<"init", 2>> :> <<>> @@ <<"rm", 1>> :> <<"NS">> @@ <<"rm", 2>> :> <<>> @@ <<"rp", 1>> :> <<>> @@ <<"rp", 2>> :> <<>>)]),
    ([todo |-> <<<<>>, <<>>>>,cache |-> <<>>,pc |-> <<"panicked", "rp">>,log |-> <<<<[f |-> "", k |-> "pm", i |-> 2, d |-> "call"]>>, <<[f |-> "", k |-> "pm", i |-> 2, d |-> "call"]>>>>,cfg |-> [ck |-> "none", cn |-> 0, exts |-> <<[pm |-> FALSE, cm |-> FALSE, oi |-> TRUE, ri |-> TRUE, rf |-> TRUE, fi |-> TRUE], [pm |-> TRUE, cm |-> TRUE, oi |-> FALSE, ri |-> FALSE, rf |-> FALSE, fi |-> FALSE]>>, sugg |-> TRUE],tmp |-> <<[s |-> <<>>, h |-> [a |-> <<"rm", 1>>, n |-> 0]], [s |-> <<>>, h |-> [a |-> <<"init", 1>>, n |-> 0]]>>,hdr |-> [a |-> <<"rm", 2>>, n |-> 1],glog |-> <<[r |-> 1, d |-> "miss", op |-> "cget"], [r |-> 2, d |-> "miss", op |-> "cget"]>>,rq |-> <<[q |-> "Q1", cls |-> "ok", opsel |-> "found", rej |-> [k |-> "none", i |-> 0], rounds |-> <<"data">>, roots |-> <<[f |-> "a", sub |-> <<"a.b">>]>>, vcls |-> "good"], [q |-> "Q1", cls |-> "ok", opsel |-> "found", rej |-> [k |-> "none", i |-> 0], rounds |-> <<"data">>, roots |-> <<[f |-> "a", sub |-> <<"a.b">>]>>, vcls |-> "bad"]>>,arrs |-> (<<"init", 1>> :> <<"FOCT">> @@ <<"init", 2>> :> <<>> @@ <<"rm", 1>> :> <<"NS">> @@ <<"rm", 2>> :> <<>> @@ <<"rp", 1>> :> <<>> @@ <<"rp", 2>> :> <<>>)])
    >>
----


=============================================================================

---- CONFIG MC_Pipeline_TTrace_1790424807 ----
CONSTANTS
    Reqs = { 1 , 2 }
    RuleModel = "words"
    Fuse = TRUE
    ExtChoice = "small"
    ReqChoice = "small"

INVARIANT
    _inv

CHECK_DEADLOCK
    \* CHECK_DEADLOCK off because of PROPERTY or INVARIANT above.
    FALSE

INIT
    _init

NEXT
    _next

CONSTANT
    _TETrace <- _trace

ALIAS
    _expression
=============================================================================
\* Generated on Sat Sep 26 12:13:31 UTC 2026