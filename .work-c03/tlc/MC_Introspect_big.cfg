\* C16 view machine, thorough tier: the bounded schema space of MC_Introspect with Big = TRUE
\* (4 related types, wraps up to depth 5). Measured: see notes/C16.md.
CONSTANTS
    Big = TRUE
    Schemas <- MCSchemas
    Ops <- MCOps
INIT VInit
NEXT VNext
INVARIANTS WellFormed RebuildAll RebuildCur ViewClosed ViewRelInv ViewNullKind
ACTION_CONSTRAINT EmitView
CHECK_DEADLOCK FALSE
