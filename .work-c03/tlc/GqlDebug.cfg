INIT Init
NEXT Next
