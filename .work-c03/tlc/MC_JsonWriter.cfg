\* JsonWriter, quick tier: every unit sequence of length <= 3 over the 35 units
\* (23 byte classes + 7 valid and 5 invalid multi-byte sequences) and every
\* scalar case.  Repaired behaviour (no deviation).
SPECIFICATION Spec
CONSTANTS
  MaxLen = 3
  FirstUnits <- MC_AllFirst
  CopyInvalidVerbatim = FALSE
  UintIDWraps = FALSE
  EmitLines = TRUE
INVARIANTS TypeOK ThmAccepted ThmValidUtf8 ThmDecodes ThmRuneAtIsRef ThmNoSilentWrap ThmRoundTripCloses ThmNonFinite ThmRanges
ACTION_CONSTRAINT Emit
CHECK_DEADLOCK FALSE
