---------------------------- MODULE Feed_Introspect ----------------------------
(***************************************************************************)
(* C16 view machine over schemas supplied by the harness (one JSON object  *)
(* per line in c16_feed.ndjson, drawn by a seeded generator from the       *)
(* grammar IsSchema of module Introspect, or abstracted from a probe's     *)
(* SDL).  TLC checks that each is a schema of the specification            *)
(* (WellFormed), evaluates the views, checks the theorems and exports the  *)
(* views: the oracle stays the specification.                              *)
(***************************************************************************)
EXTENDS Introspect

\* the file is read once: the argument of SetOf is evaluated before it is used
SetOf(q) == {q[i] : i \in 1..Len(q)}
FeedSchemas == SetOf(ndJsonDeserialize("c16_feed.ndjson"))
FeedOps == {}
=============================================================================
