\* as MC_PipelineSched.cfg with three concurrent requests (thorough tier)
SPECIFICATION MCSpec
CONSTANTS
  Reqs = {1, 2, 3}
  RuleModel = "config"
  Fuse = TRUE
  ExtChoice = "one"
  ReqChoice = "sched3"
CONSTRAINT Export
INVARIANTS TypeOK I1 I2
