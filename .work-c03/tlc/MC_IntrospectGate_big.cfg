\* C16 gate machine, thorough tier: every hiding operation with one root selection and every
\* mergeable pair of root selections (Big = TRUE). Measured: see notes/C16.md.
CONSTANTS
    Big = TRUE
    Schemas <- MCSchemas
    Ops <- MCOps
INIT GInit
NEXT GNext
INVARIANTS GateWellFormed OnlyExtEnables GateHolds NoLeak
ACTION_CONSTRAINT EmitGate
CHECK_DEADLOCK FALSE
