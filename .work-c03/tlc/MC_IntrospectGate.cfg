\* C16 gate machine, quick tier: every hiding operation with one root selection, and with
\* two where the second is a plain one (Big = FALSE). Measured: see notes/C16.md.
CONSTANTS
    Big = FALSE
    Schemas <- MCSchemas
    Ops <- MCOps
INIT GInit
NEXT GNext
INVARIANTS GateWellFormed OnlyExtEnables GateHolds NoLeak
ACTION_CONSTRAINT EmitGate
CHECK_DEADLOCK FALSE
