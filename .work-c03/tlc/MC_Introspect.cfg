\* C16 view machine, quick tier: the bounded schema space of MC_Introspect with Big = FALSE
\* (3 related types, wraps up to depth 3). Measured: see notes/C16.md.
CONSTANTS
    Big = FALSE
    Schemas <- MCSchemas
    Ops <- MCOps
INIT VInit
NEXT VNext
INVARIANTS WellFormed RebuildAll RebuildCur ViewClosed ViewRelInv ViewNullKind
ACTION_CONSTRAINT EmitView
CHECK_DEADLOCK FALSE
