\* C14, safeAdd boundary grid through operations: the seven two-cost operation shapes x
\* every pair of constants from the 12-point int grid {0,1,2,H-1,H,H+1,MAX-2,MAX-1,MAX,-1,-MAX,MIN}
\* (H = (MAX-1)/2) x {enclosing field undefined, identity}.
\* Measured: 7 trees, 1,885 inputs, 3,777 distinct states; ~5 s. -coverage 1: Init 7, ChooseCosts 1885, Compute 1885 (no action with count 0).
CONSTANTS
  MaxH = 2
  MaxD = 1
  MaxSize = 3
  MaxCustom = 2
  Corpus = "grid"
  Emit = TRUE
SPECIFICATION Spec
ACTION_CONSTRAINT EmitEdge
INVARIANTS TRange TDSmall TChildren TMonotone TPerm TFragment TDouble TGate TGateMono TBindState
CHECK_DEADLOCK FALSE
