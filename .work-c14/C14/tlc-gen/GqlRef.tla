------------------------------- MODULE GqlRef -------------------------------
(***************************************************************************)
(* Reference semantics of GraphQL execution (spec section 6) over abstract *)
(* schemas, operations and resolver plans.  This is the oracle every      *)
(* executor trace is checked against.  Nothing here mentions how gqlgen    *)
(* computes a response (FieldSets, Invalids counters, goroutines): those   *)
(* live in GqlExecImpl.                                                    *)
(*                                                                         *)
(* Values are tagged records so that TLC never compares values of          *)
(* different kinds:                                                        *)
(*   [t |-> "n"]                         null                              *)
(*   [t |-> "s"|"i"|"b", v |-> string]   scalar (string form)              *)
(*   [t |-> "o", f |-> <<[k, v], ...>>]  object, response-key ORDER kept   *)
(*   [t |-> "l", e |-> <<...>>]          list                              *)
(* Paths are strings "a.0.b".  Two paths are threaded: rp, the response    *)
(* path (aliases; what errors and resolver events carry), and vp, the      *)
(* value path under the nearest resolver (field NAMES; what the plan of a  *)
(* struct-bound field is keyed by, because the parent object is built      *)
(* before aliases are known).                                              *)
(***************************************************************************)
EXTENDS Naturals, Sequences, FiniteSets, TLC

Null == [t |-> "n"]

\* Named deviation (known finding "scalar-list-null-element-error-at-list-path"): the list
\* marshaller gives the elements of SCALAR / ENUM lists no field context of their own, so a
\* nil element in a non-null position is reported once, at the LIST's path, instead of once
\* per nil element at the element's path.  FALSE = the property (the path of the position
\* that failed); TRUE admits what the tree does, so that the rest of such a trace is checked.
CONSTANT LeafElemErrAtList

Join(p, seg) == IF p = "" THEN seg ELSE p \o "." \o seg

DfltOut == [k |-> "dflt", n |-> 2, ty |-> "", v |-> ""]
Out(plan, vp) == IF vp \in DOMAIN plan THEN plan[vp] ELSE DfltOut

RECURSIVE FlatErrs(_, _)
FlatErrs(rs, i) == IF i > Len(rs) THEN <<>> ELSE rs[i].errs \o FlatErrs(rs, i + 1)

RECURSIVE UnionDinfo(_, _)
UnionDinfo(rs, i) == IF i > Len(rs) THEN {} ELSE rs[i].dinfo \cup UnionDinfo(rs, i + 1)

RECURSIVE UnionPos(_, _)
UnionPos(rs, i) == IF i > Len(rs) THEN {} ELSE rs[i].pos \cup UnionPos(rs, i + 1)

(***************************************************************************)
(* CollectFields (spec 6.3.2).  S is the schema record, tn the concrete    *)
(* object type.  A collected field is [alias, name, sels, dfr, label, dl]: *)
(* dl is the set of labels of the deferred fragments the field was         *)
(* collected under (empty when it is not under any).                       *)
(***************************************************************************)
Matches(S, tn, cond) == cond = "" \/ \E i \in 1..Len(S.types[tn].impl) : S.types[tn].impl[i] = cond

RECURSIVE AddField(_, _, _)
AddField(fs, f, i) ==
  IF i > Len(fs) THEN Append(fs, f)
  ELSE IF fs[i].alias = f.alias
       THEN [fs EXCEPT ![i] = [@ EXCEPT !.sels = @ \o f.sels,
                                        !.dfr = (@ \/ f.dfr) ,
                                        !.dl = @ \cup f.dl,
                                        !.label = IF f.dfr THEN f.label ELSE @]]
       ELSE AddField(fs, f, i + 1)

RECURSIVE MergeAll(_, _, _)
MergeAll(fs, gs, i) == IF i > Len(gs) THEN fs ELSE MergeAll(AddField(fs, gs[i], 1), gs, i + 1)

RECURSIVE MarkAll(_, _, _)
MarkAll(gs, s, i) == IF i > Len(gs) THEN <<>> ELSE <<[gs[i] EXCEPT !.dfr = TRUE, !.label = s.label, !.dl = @ \cup {s.label}]>> \o MarkAll(gs, s, i + 1)
MarkDefer(gs, s) == IF s.dfr THEN MarkAll(gs, s, 1) ELSE gs

RECURSIVE Collect(_, _, _, _, _)
Collect(S, tn, sels, acc, frags) ==
  IF sels = <<>> THEN acc
  ELSE LET s    == Head(sels)
           rest == Tail(sels)
           inc  == (~s.skip) /\ s.incl
       IN  IF s.k = "field" THEN
             Collect(S, tn, rest,
                     (IF inc THEN [acc EXCEPT !.fs = AddField(@, [alias |-> s.alias, name |-> s.name,
                                                                   sels |-> s.sels, dfr |-> FALSE, label |-> "", dl |-> {}, qdirs |-> s.qdirs,
                                                                   afault |-> s.afault, aname |-> s.aname], 1)]
                      ELSE acc), frags)
           ELSE IF s.k = "inline" THEN
             (IF inc /\ Matches(S, tn, s.on)
              THEN LET sub == Collect(S, tn, s.sels, [fs |-> <<>>, vis |-> acc.vis], frags)
                   IN  Collect(S, tn, rest, [fs |-> MergeAll(acc.fs, MarkDefer(sub.fs, s), 1), vis |-> sub.vis], frags)
              ELSE Collect(S, tn, rest, acc, frags))
           ELSE \* fragment spread: visited only once it is actually applied (spec 6.3.2 step 3.d)
             (IF inc /\ s.name \notin acc.vis
              THEN (IF Matches(S, tn, frags[s.name].on)
                    THEN LET sub == Collect(S, tn, frags[s.name].sels,
                                            [fs |-> <<>>, vis |-> acc.vis \cup {s.name}], frags)
                         IN  Collect(S, tn, rest, [fs |-> MergeAll(acc.fs, MarkDefer(sub.fs, s), 1), vis |-> sub.vis], frags)
                    ELSE Collect(S, tn, rest, [acc EXCEPT !.vis = @ \cup {s.name}], frags))
              ELSE Collect(S, tn, rest, acc, frags))

CollectFields(S, tn, sels, frags) == Collect(S, tn, sels, [fs |-> <<>>, vis |-> {}], frags).fs

(***************************************************************************)
(* Execution.  C = [S, plan, dirplan, frags, dord] is the scenario         *)
(* context.  Every function returns                                        *)
(*   [d: value, isnull: BOOLEAN, errs: Seq([p, c]), pos: set of resolver   *)
(*    response paths that are invoked]                                     *)
(***************************************************************************)
ScalarTag(tname) == IF tname \in {"Int", "Float"} THEN "i" ELSE IF tname = "Boolean" THEN "b" ELSE "s"

IsNN(w) == w # <<>> /\ Head(w) = "N"
StripNN(w) == IF IsNN(w) THEN Tail(w) ELSE w

Fail(rp, c, started) == [d |-> Null, isnull |-> TRUE, errs |-> <<[p |-> rp, c |-> c]>>,
                         pos |-> IF started THEN {rp} ELSE {}, dinfo |-> {}]

RECURSIVE ExecSel(_, _, _, _, _), Complete(_, _, _, _, _, _, _), ExecField(_, _, _, _, _), Chain(_, _, _, _, _, _)
RECURSIVE ExecAll(_, _, _, _, _, _), ElemAll(_, _, _, _, _, _, _, _)

\* Eager sequences (tuples): TLC re-evaluates the body of a lazy function
\* constructor on every application, which makes nested results exponential.
ExecAll(C, tn, cf, i, rp, vp) ==
  IF i > Len(cf) THEN <<>> ELSE <<ExecField(C, tn, cf[i], rp, vp)>> \o ExecAll(C, tn, cf, i + 1, rp, vp)

ElemAll(C, ew, tname, sels, rp, vp, i, n) ==
  IF i > n THEN <<>>
  ELSE <<Complete(C, ew, tname, Out(C.plan, Join(vp, ToString(i - 1))), sels,
                  Join(rp, ToString(i - 1)), Join(vp, ToString(i - 1)))>>
       \o ElemAll(C, ew, tname, sels, rp, vp, i + 1, n)

RECURSIVE ObjFields(_, _, _)
ObjFields(cf, rs, i) == IF i > Len(cf) THEN <<>> ELSE <<[k |-> cf[i].alias, v |-> rs[i].d]>> \o ObjFields(cf, rs, i + 1)
RECURSIVE ListElems(_, _)
ListElems(es, i) == IF i > Len(es) THEN <<>> ELSE <<es[i].d>> \o ListElems(es, i + 1)

ExecSel(C, tn, sels, rp, vp) ==
  LET cf  == CollectFields(C.S, tn, sels, C.frags)
      rs  == ExecAll(C, tn, cf, 1, rp, vp)
      bad == \E i \in 1..Len(cf) : rs[i].isnull /\ rs[i].nn
  IN  [d      |-> IF bad THEN Null
                  ELSE [t |-> "o", f |-> ObjFields(cf, rs, 1)],
       isnull |-> bad,
       errs   |-> FlatErrs(rs, 1),
       pos    |-> UnionPos(rs, 1),
       \* which response keys of which object may be delivered under which @defer label
       dinfo  |-> UnionDinfo(rs, 1) \cup
                  UNION {{[p |-> rp, k |-> cf[i].alias, l |-> x] : x \in cf[i].dl} : i \in 1..Len(cf)}]

\* The value of a position whose outcome is o (never err/panic here).
Complete(C, w0, tname, o, sels, rp, vp) ==
  LET nn == IsNN(w0)
      w  == StripNN(w0)
  IN  IF o.k = "null" /\ ~(nn /\ w # <<>> /\ Head(w) = "L")
      \* (Go binding: a nil slice in a NON-NULL list position is the empty list,
      \*  there is no other way to spell an empty list result in Go; handled below)
      THEN [d |-> Null, isnull |-> TRUE,
            errs |-> IF nn THEN <<[p |-> rp, c |-> "nonnull"]>> ELSE <<>>, pos |-> {}, dinfo |-> {}]
      ELSE IF w # <<>> /\ Head(w) = "L"
      THEN LET n   == IF o.k = "list" THEN o.n ELSE IF o.k = "null" THEN 0 ELSE 2
               ew  == Tail(w)
               es  == ElemAll(C, ew, tname, sels, rp, vp, 1, n)
               bad == IsNN(ew) /\ \E i \in 1..n : es[i].isnull
               leaf == LeafElemErrAtList /\ C.S.types[tname].kind \in {"SCALAR", "ENUM"}
                       /\ (ew = <<>> \/ ew = <<"N">>)
           IN  [d |-> IF bad THEN Null ELSE [t |-> "l", e |-> ListElems(es, 1)],
                isnull |-> bad,
                errs |-> IF leaf THEN (IF bad THEN <<[p |-> rp, c |-> "nonnull"]>> ELSE <<>>) ELSE FlatErrs(es, 1),
                pos |-> UnionPos(es, 1), dinfo |-> UnionDinfo(es, 1)]
      ELSE LET kind == C.S.types[tname].kind
           IN  IF kind \in {"SCALAR", "ENUM"}
               THEN [d |-> [t |-> ScalarTag(tname),
                            v |-> IF o.k = "val" THEN o.v
                                  ELSE IF C.S.types[tname].dflt # "" THEN C.S.types[tname].dflt ELSE vp],
                     isnull |-> FALSE, errs |-> <<>>, pos |-> {}, dinfo |-> {}]
               ELSE IF kind # "OBJECT" /\ o.ty = "Rogue"
               \* the resolver handed back a value that is no type of the schema: type
               \* resolution fails at this position (a recovered panic in the generated code)
               THEN [d |-> Null, isnull |-> TRUE, errs |-> <<[p |-> rp, c |-> "panic"]>>, pos |-> {}, dinfo |-> {}]
               ELSE LET ct == IF kind = "OBJECT" THEN tname
                              ELSE IF o.ty # "" THEN o.ty ELSE C.S.types[tname].possible[1]
                    IN  ExecSel(C, ct, sels, rp, vp)

\* What graphql.CollectAllFields(ctx) answers inside the resolver of a field (the API
\* resolvers use to decide what to preload): "the unique set of all field names requested
\* regardless of fragment type conditions" - under @skip/@include and the
\* visited-fragment rule.  Carried in dinfo as records with the reserved label "#cf".
RECURSIVE AllNamesR(_, _, _)
AllNamesR(sels, acc, frags) ==
  IF sels = <<>> THEN acc
  ELSE LET s    == Head(sels)
           rest == Tail(sels)
           inc  == (~s.skip) /\ s.incl
       IN  IF s.k = "field"
           THEN AllNamesR(rest, (IF inc THEN [acc EXCEPT !.ns = @ \cup {s.name}] ELSE acc), frags)
           ELSE IF s.k = "inline"
           THEN AllNamesR(rest, (IF inc THEN AllNamesR(s.sels, acc, frags) ELSE acc), frags)
           ELSE IF inc /\ s.name \notin acc.vis
                THEN AllNamesR(rest, AllNamesR(frags[s.name].sels, [acc EXCEPT !.vis = @ \cup {s.name}], frags), frags)
                ELSE AllNamesR(rest, acc, frags)
AllNames(sels, frags) == AllNamesR(sels, [ns |-> {}, vis |-> {}], frags).ns
CfInfo(rp, sels, frags) == {[p |-> rp, k |-> n, l |-> "#cf"] : n \in AllNames(sels, frags)}

\* The directive chain of a resolver-backed field, outermost first, then the resolver.
Chain(C, fd, ds, f, rp, vp) ==
  IF ds = <<>>
  THEN LET o == Out(C.plan, rp)
           r == IF o.k \in {"err", "valerr"} THEN Fail(rp, "err", TRUE)
                ELSE IF o.k = "panic" THEN Fail(rp, "panic", TRUE)
                ELSE LET r0 == Complete(C, fd.wrap, fd.name, o, f.sels, rp, rp)
                     IN  [r0 EXCEPT !.pos = @ \cup {rp}]
       IN  [r EXCEPT !.dinfo = @ \cup CfInfo(rp, f.sels, C.frags)]
  ELSE LET key == rp \o "@" \o Head(ds).tag
           how == IF key \in DOMAIN C.dirplan THEN C.dirplan[key] ELSE "pass"
       IN  IF how = "err" THEN Fail(rp, "dir", FALSE)
           ELSE IF how = "panic" THEN Fail(rp, "panic", FALSE)
           ELSE IF how = "null"
                THEN [d |-> Null, isnull |-> TRUE,
                      errs |-> IF IsNN(fd.wrap) THEN <<[p |-> rp, c |-> "nonnull"]>> ELSE <<>>, pos |-> {}, dinfo |-> {}]
           ELSE Chain(C, fd, Tail(ds), f, rp, vp)

Reverse(s) == [i \in 1..Len(s) |-> s[Len(s) + 1 - i]]

\* Field interceptors (extension hooks around every field) and, for the root
\* fields of queries and mutations, root-field interceptors are user code too
\* (C04): an error or panic there fails the field like a resolver failure.
IntHow(C, rp, tag) == IF (rp \o "@" \o tag) \in DOMAIN C.dirplan THEN C.dirplan[rp \o "@" \o tag] ELSE "pass"

\* Executable directives applied to the field in the operation (location FIELD) are
\* user code around the field as well; the first one (in nesting order) that does not
\* pass decides: "err" fails the field, "null" yields null without running the rest.
RECURSIVE QHow(_, _, _)
QHow(C, rp, qs) ==
  IF qs = <<>> THEN "pass"
  ELSE LET h == IntHow(C, rp, Head(qs)) IN IF h = "pass" THEN QHow(C, rp, Tail(qs)) ELSE h

ExecField(C, tn, f, rp, vp) ==
  IF f.name = "__typename"
  THEN [d |-> [t |-> "s", v |-> tn], isnull |-> FALSE, nn |-> TRUE, errs |-> <<>>, pos |-> {}, dinfo |-> {}]
  ELSE LET fd  == C.S.types[tn].fields[f.name]
           rp2 == Join(rp, f.alias)
           rh  == IF rp = "" THEN IntHow(C, rp2, "#r") ELSE "pass"
           fh  == IntHow(C, rp2, "#f")
           qh  == QHow(C, rp2, IF C.dord = "rev" THEN Reverse(f.qdirs) ELSE f.qdirs)
           bad == IF rh = "panic" THEN "panic" ELSE IF fh = "err" THEN "int" ELSE IF fh = "panic" THEN "panic"
                  ELSE IF qh = "err" THEN "dir" ELSE IF qh = "panic" THEN "panic" ELSE ""
       IN  IF f.afault # ""
           \* an input unmarshaler of this field's arguments failed: an error is
           \* reported at the argument's path, a panic (recovered) at the field's path;
           \* neither interceptors, directives nor the resolver run
           THEN [d |-> Null, isnull |-> TRUE, nn |-> IsNN(fd.wrap),
                 errs |-> <<[p |-> IF f.afault = "err" THEN Join(rp2, f.aname) ELSE rp2, c |-> f.afault]>>,
                 pos |-> {}, dinfo |-> {}]
           ELSE IF bad # ""
           THEN [d |-> Null, isnull |-> TRUE, nn |-> IsNN(fd.wrap),
                 errs |-> <<[p |-> rp2, c |-> bad]>>, pos |-> {}, dinfo |-> {}]
           ELSE IF qh = "null"
           THEN [d |-> Null, isnull |-> TRUE, nn |-> IsNN(fd.wrap),
                 errs |-> IF IsNN(fd.wrap) THEN <<[p |-> rp2, c |-> "nonnull"]>> ELSE <<>>, pos |-> {}, dinfo |-> {}]
           ELSE IF fd.res
           THEN LET ds == IF C.dord = "rev" THEN Reverse(fd.dirs) ELSE fd.dirs
                    r  == Chain(C, fd, ds, f, rp2, rp2)
                IN  [d |-> r.d, isnull |-> r.isnull, nn |-> IsNN(fd.wrap), errs |-> r.errs, pos |-> r.pos, dinfo |-> r.dinfo]
           ELSE LET vp2 == Join(vp, f.name)
                    r   == Complete(C, fd.wrap, fd.name, Out(C.plan, vp2), f.sels, rp2, vp2)
                IN  [d |-> r.d, isnull |-> r.isnull, nn |-> IsNN(fd.wrap), errs |-> r.errs, pos |-> r.pos, dinfo |-> r.dinfo]

RootType(S, kind) == S.roots[kind]

\* The reference result of an operation: [d, isnull, errs, pos].
Ref(S, op, plan, dirplan, dord) ==
  ExecSel([S |-> S, plan |-> plan, dirplan |-> dirplan, frags |-> op.frags, dord |-> dord],
          RootType(S, op.kind), op.sels, "", "")

(***************************************************************************)
(* Bags of errors as sequences.                                            *)
(***************************************************************************)
Count(s, x) == Cardinality({i \in 1..Len(s) : s[i] = x})
BagEq(a, b) == Len(a) = Len(b) /\ \A i \in 1..Len(a) : Count(a, a[i]) = Count(b, a[i])
BagSub(a, b) == \A i \in 1..Len(a) : Count(a, a[i]) <= Count(b, a[i])
=============================================================================
