\* Trace validation against Apq: -workers 1, depth-first queue.
SPECIFICATION TraceSpec
CONSTANTS
  Texts <- CTexts
  Valid <- CValid
  HashOf <- CHashOf
  ImplHash <- CHashOf
  AltHashes <- CAlt
  CanonOf <- CCanon
  WrongHashes <- CWrong
  Kinds <- CKinds
  Caps <- CCaps
  MalKinds <- CMal
  MalWithHash <- CMalH
  BadVers <- CBadVers
  History = TRUE
  Check = TRUE
CONSTRAINT HighWater
INVARIANTS TypeOK Bound WasSent LruOK
PROPERTY ImplConforms
POSTCONDITION TraceAccepted
CHECK_DEADLOCK FALSE
