\* C09 quick tier - exhaustive instance of Http (module MC_Http).
\*   Servers  S1 S2 S3 S5 S7 (defined in MC_Http.tla: every transport in the default order; GET first with explicit
\*            content types; body transports before POST before GET; POST alone; POST first - the driver runs one
\*            TLC per server and adds VERIF_SEED-drawn random servers through a generated module MC_HttpRun)
\*   Methods  GET POST HEAD OPTIONS PUT          ReqCTs  absent json graphql form multipart other bad
\*   Accepts  10 lists (AcceptsQuick)            Upgrade header present / absent
\*   carry    where the document travels: POST body; other methods url | body | both (URL = document, body = a mutation)
\*   Docs     10 documents (DocsQuick) x operationName in {absent, each name, unknown}
\*            x validity {ok, invalid, varerr} + {parse, noop} x {absent, unknown} + {undecEnv, undecVars}
\*   src      inline | apq (persisted-query hash; GET via URL and POST application/json only)
\*   Requests with an Upgrade header, a method other than GET/POST, or GET with a body carry the probe documents only.
\* Measured: 162,200 requests (32,440 per server), 827,020 distinct states, depth 9, 25 s with -workers 1
\* (the Export action constraint prints one line per request and needs -workers 1); every action taken.
CONSTANTS
  Servers <- ServersQuick
  Methods <- MethodsAll
  ReqCTs <- ReqCTsAll
  Accepts <- AcceptsQuick
  Docs <- DocsQuick
  Slip = "none"
INIT Init
NEXT Next
CHECK_DEADLOCK FALSE
INVARIANTS
  TypeOK
  GetNeverMutates
  RefusedRunsNothing
  ExecutesNamedOperation
  GetNonQueryRefused
  Non2xxRanNothing
  ExecutedIs200
  ProtocolErrorStatus
  ContentTypeNegotiated
  NegotiationSound
  ImplConforms
  DeviationIsReal
ACTION_CONSTRAINT Export
