\* Exhaustive check of Apq + export of its labelled state graph (quick tier).
\* Texts {q1,q2,bad}, WrongHashes {x:rand,x:empty}, map + LRU capacity 1..2,
\* 7 malformed kinds, 3 bad versions; histories of any length (the state space
\* is finite); history variable off.  VIEW drops the edge label and outcome.
\* Measured: 22 distinct states, 3699 generated = 3 initial + 3696 edges, 1.5 s.
SPECIFICATION Spec
CONSTANTS
  Texts <- QTexts
  Valid <- QValid
  HashOf <- QHash
  ImplHash <- QHash
  AltHashes <- NoAlt
  CanonOf <- NoCanon
  WrongHashes <- Wrong2
  Kinds <- BothKinds
  Caps <- Caps12
  MalKinds <- MalAll
  MalWithHash <- MalAllH
  BadVers <- VerAll
  History = FALSE
VIEW EdgeView
INVARIANTS TypeOK Bound LruOK
PROPERTIES ImplConforms ImplExtraOK CacheIsLru
ACTION_CONSTRAINT EmitEdge
CHECK_DEADLOCK FALSE
