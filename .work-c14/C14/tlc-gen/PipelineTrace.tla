---------------------------- MODULE PipelineTrace ----------------------------
(* Trace validation of recorded sessions of the real executor / handler    *)
(* against Pipeline.  trace.ndjson holds many sessions; each is opened by  *)
(* a "Scenario" line (server configuration: a fresh executor), "Req" lines *)
(* describe a request when its goroutine starts it, "H" lines are the      *)
(* events logged by the instrumented extensions, the logging query cache,   *)
(* the hand-written ExecutableSchema and the driver (responses).  All       *)
(* events of a session pass through one mutex-protected tracer and an event *)
(* is the tracer call itself, so the file order is a linearization of the   *)
(* logged points; what is NOT logged (parse, rule swap, Validate) is left   *)
(* to TLC, which interleaves those steps of every request freely between    *)
(* the logged ones.                                                         *)
(*  RuleModel = "config": the repaired design - the outcome of validation   *)
(*     depends on the document only.  A session this rejects and            *)
(*  RuleModel = "words" accepts needed the rule-swap race to be explained.  *)
EXTENDS Pipeline, Json

Trace == ndJsonDeserialize("trace.ndjson")

VARIABLES l,     \* next trace line
          wire   \* [Reqs -> answers the server has produced and the client has not noted yet]
tvars == <<vars, l, wire>>

IsEvent(e) == l <= Len(Trace) /\ Trace[l].e = e /\ l' = l + 1
Quiet      == \A r \in Reqs : pc[r] \in {"idle", "done"} /\ wire[r] = <<>>

\* Over a real transport the answers ("resp") are noted by the CLIENT when
\* they arrive, i.e. some time after the server produced them, while the
\* server goes on (next response round of a stream, recover function ...):
\* the server-side production is a silent step into wire[r], the client's
\* line takes the head of wire[r].  In direct mode the driver is the
\* transport and notes the answer in place.
Remote == cfg.tr # "direct"

\* status class of an HTTP answer, as far as the property cares (the exact
\* code is implementation level: Server.ServeHTTP answers a recovered panic
\* with 422; the event-stream and multipart/mixed transports have deferred a
\* Flush, which commits 200 before that): a request/response transport must
\* not answer a request whose gate panicked with a success status
StatusOK(tr, fate, st) == (fate = "panicked" /\ tr \in {"post", "get", "form"}) => st \in {"4xx", "5xx"}

TraceInit ==
  /\ l = 1 /\ TLCSet(1, 1)
  /\ wire  = [r \in Reqs |-> <<>>]
  /\ cfg   = [exts |-> <<>>, ck |-> "none", cn |-> 0, sugg |-> FALSE, tr |-> "direct"]
  /\ arrs  = [NoArrs EXCEPT ![InitArr] = <<"FOCT">>]
  /\ hdr   = [a |-> InitArr, n |-> 1]
  /\ cache = <<>>
  /\ rq    = [r \in Reqs |-> NoReq]
  /\ pc    = [r \in Reqs |-> "idle"]
  /\ todo  = [r \in Reqs |-> <<>>]
  /\ log   = [r \in Reqs |-> <<>>]
  /\ tmp   = [r \in Reqs |-> [s |-> <<>>, h |-> [a |-> InitArr, n |-> 0]]]
  /\ glog  = <<>>

TScenario ==
  /\ IsEvent("Scenario") /\ Quiet
  /\ LET t == Trace[l]
     IN  Load([exts |-> t.exts, ck |-> t.ck, cn |-> t.cn, sugg |-> t.sugg, tr |-> t.tr], t.rules0)
  /\ UNCHANGED wire

TReq ==
  /\ IsEvent("Req")
  /\ LET t == Trace[l]
     IN  /\ t.r \in Reqs
         /\ wire[t.r] = <<>>
         /\ Start(t.r, [q |-> t.q, cls |-> t.cls, opsel |-> t.opsel, vcls |-> t.vars, opt |-> t.opt,
                        gates |-> t.gates, rounds |-> t.rounds, roots |-> t.roots])
  /\ UNCHANGED wire

THook ==
  /\ IsEvent("H")
  /\ LET t == Trace[l]
     IN  /\ t.k \notin {"cget", "cadd"}
         /\ ~(t.k = "resp" /\ Remote)
         /\ t.r \in Reqs
         /\ pc[t.r] \in LocalPC
         /\ todo[t.r] # <<>>
         /\ todo[t.r][1] = Ev(t.k, t.d, t.i, t.f)
         /\ Emit(t.r)
  /\ UNCHANGED wire

\* the server produces an answer (silent) ...
TProduce ==
  /\ l' = l /\ Remote
  /\ \E r \in Reqs :
       /\ pc[r] \in LocalPC /\ todo[r] # <<>> /\ todo[r][1].k = "resp"
       /\ wire' = [wire EXCEPT ![r] = Append(@, todo[r][1])]
       /\ Emit(r)
\* ... the client notes it (f: status class of the HTTP answer)
TObserve ==
  /\ IsEvent("H") /\ Remote
  /\ LET t == Trace[l]
     IN  /\ t.k = "resp" /\ t.r \in Reqs
         /\ wire[t.r] # <<>>
         /\ Head(wire[t.r]).d = t.d
         /\ StatusOK(cfg.tr, Fate(cfg.exts, cfg.tr, rq[t.r]), t.f)
         /\ wire' = [wire EXCEPT ![t.r] = Tail(@)]
  /\ UNCHANGED vars

TCGet ==
  /\ IsEvent("H")
  /\ LET t == Trace[l]
     IN  /\ t.k = "cget"
         /\ t.r \in Reqs
         /\ pc[t.r] = "cget"
         /\ rq[t.r].q = t.f
         /\ (t.d = "hit") = CacheHit(t.f)
         /\ CacheGet(t.r)
  /\ UNCHANGED wire

TCAdd ==
  /\ IsEvent("H")
  /\ LET t == Trace[l]
     IN  /\ t.k = "cadd"
         /\ t.r \in Reqs
         /\ pc[t.r] = "cadd"
         /\ rq[t.r].q = t.f
         /\ CacheAdd(t.r)
  /\ UNCHANGED wire

\* a request whose validation panicked (nil RuleFunc; only possible with the
\* per-request swap): the recover hook is observed, then the transport-level
\* answer (Server.ServeHTTP answers 422 with an error; in direct mode the
\* driver notes "panic")
TRecover ==
  /\ IsEvent("H")
  /\ LET t == Trace[l] IN t.k = "recover" /\ t.r \in Reqs /\ pc[t.r] = "panicked"
  /\ UNCHANGED <<vars, wire>>
TPanicResp ==
  /\ IsEvent("H")
  /\ LET t == Trace[l]
     IN  /\ t.k = "resp" /\ t.d \in {"panic", "errors"} /\ t.r \in Reqs /\ pc[t.r] = "panicked"
         /\ pc' = [pc EXCEPT ![t.r] = "done"]
  /\ UNCHANGED <<cfg, hdr, arrs, cache, rq, todo, log, tmp, glog, wire>>

\* steps of the code that are not logged
TSilent == l' = l /\ UNCHANGED wire /\ \E r \in Reqs : Validate(r) \/ RuleStep(r)

TEnd == IsEvent("End") /\ Quiet /\ UNCHANGED <<vars, wire>>

TraceNext == TScenario \/ TReq \/ THook \/ TProduce \/ TObserve \/ TCGet \/ TCAdd \/ TRecover \/ TPanicResp \/ TSilent \/ TEnd

TraceSpec == TraceInit /\ [][TraceNext]_tvars

\* high-water mark of consumed lines (silent steps exist; needs -workers 1)
HighWater == TLCSet(1, IF l > TLCGet(1) THEN l ELSE TLCGet(1))

TraceAccepted ==
  IF TLCGet(1) = Len(Trace) + 1 THEN TRUE
  ELSE /\ PrintT(<<"TRACE-REJECTED-AT", TLCGet(1)>>)
       /\ FALSE
=============================================================================
