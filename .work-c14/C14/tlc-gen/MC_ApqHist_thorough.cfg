\* Exhaustive check of Apq with the history variable `sent` (thorough tier).
\* Texts {q1,q2,bad}, WrongHashes {x:rand}, map + LRU capacity 1..2, one
\* malformed kind with and one without hash, one bad version; histories of any
\* length sending at most 6 distinct <<hash,text>> pairs.
\* Measured: 858832 distinct states, 54965251 generated, 3-5.5 min with 4 workers (loaded machine).
SPECIFICATION Spec
CONSTANTS
  Texts <- QTexts
  Valid <- QValid
  HashOf <- QHash
  ImplHash <- QHash
  AltHashes <- NoAlt
  CanonOf <- NoCanon
  WrongHashes <- Wrong1
  Kinds <- BothKinds
  Caps <- Caps12
  MalKinds <- MalOne
  MalWithHash <- MalOneH
  BadVers <- VerOne
  History = TRUE
CONSTRAINT SentT
INVARIANTS TypeOK Bound WasSent LruOK
PROPERTIES ImplConforms ImplExtraOK CacheIsLru
CHECK_DEADLOCK FALSE
