------------------------------- MODULE GqlExec -------------------------------
(***************************************************************************)
(* Property-level specification of one GraphQL operation being executed by *)
(* a generated gqlgen server (properties C01, C04, C06; C13 extends it in  *)
(* GqlDefer).  It constrains only what the property statements demand:     *)
(*   - which resolver positions may be invoked, each at most once, and for *)
(*     mutations that root fields run serially in document order;          *)
(*   - which errors may be reported (exactly one per originating failure,  *)
(*     at the failing position's response path);                           *)
(*   - one recover-hook call per panic;                                    *)
(*   - the response equals the reference semantics Ref (GqlRef).           *)
(* It says nothing about FieldSets, WaitGroups or which sibling runs on    *)
(* the calling goroutine: traces of the real code are validated against    *)
(* THIS module, so rescheduling refactorings are accepted.                 *)
(*                                                                         *)
(* The nesting order of several directives on one field is not defined by  *)
(* the GraphQL spec nor by the property: both orders are accepted          *)
(* (ref.fwd / ref.rev).                                                    *)
(***************************************************************************)
EXTENDS GqlRef

CONSTANT Schema

VARIABLES
  sc,        \* the scenario: [op, plan, dirplan]
  ref,       \* [fwd, rev] reference results for the two directive orders, plus roots
  started,   \* set of resolver response paths whose resolver has been entered
  ended,     \* subset of started: resolver returned (or panicked)
  errs,      \* bag (sequence) of presented errors [p, c]
  recovers,  \* number of recover-hook invocations
  phase      \* "idle" | "running" | "done"

gvars == <<sc, ref, started, ended, errs, recovers, phase>>

RECURSIVE RootPos(_, _, _, _)
RootPos(C, rt, cf, i) == IF i > Len(cf) THEN <<>> ELSE <<ExecField(C, rt, cf[i], "", "").pos>> \o RootPos(C, rt, cf, i + 1)

RefBoth(s) ==
  LET fwd == Ref(Schema, s.op, s.plan, s.dirplan, "fwd")
      rev == IF DOMAIN s.dirplan = {} THEN fwd ELSE Ref(Schema, s.op, s.plan, s.dirplan, "rev")
      C   == [S |-> Schema, plan |-> s.plan, dirplan |-> s.dirplan, frags |-> s.op.frags, dord |-> "fwd"]
      rt  == RootType(Schema, s.op.kind)
      cf  == CollectFields(Schema, rt, s.op.sels, s.op.frags)
  IN  [fwd |-> fwd, rev |-> rev,
       roots |-> IF s.op.kind = "mutation" THEN RootPos(C, rt, cf, 1) ELSE <<>>]

Orders == {"fwd", "rev"}
AllPos == ref.fwd.pos \cup ref.rev.pos
NPanics(es) == Cardinality({i \in 1..Len(es) : es[i].c = "panic"})

\* A value whose marshaler panics while the response is being serialized
\* (user code: the custom scalar Boom with value "panic") cannot be part of a
\* response: C04 demands that only that response fails, with a well-formed
\* error body, one more recover-hook call, and a live process.
RECURSIVE HasMarshalPanic(_)
HasMarshalPanic(d) ==
  IF d.t = "o" THEN \E i \in 1..Len(d.f) : HasMarshalPanic(d.f[i].v)
  ELSE IF d.t = "l" THEN \E i \in 1..Len(d.e) : HasMarshalPanic(d.e[i])
  ELSE d.t = "s" /\ d.v = "panic"

GInit ==
  /\ sc = [op |-> [kind |-> "query", sels |-> <<>>, frags |-> <<>>], plan |-> <<>>, dirplan |-> <<>>]
  /\ ref = [fwd |-> [d |-> Null, isnull |-> FALSE, errs |-> <<>>, pos |-> {}, dinfo |-> {}],
            rev |-> [d |-> Null, isnull |-> FALSE, errs |-> <<>>, pos |-> {}, dinfo |-> {}], roots |-> <<>>]
  /\ started = {} /\ ended = {} /\ errs = <<>> /\ recovers = 0 /\ phase = "idle"

Load(s) ==
  /\ sc' = s
  /\ ref' = RefBoth(s)
  /\ started' = {} /\ ended' = {} /\ errs' = <<>> /\ recovers' = 0 /\ phase' = "running"

\* C06: root fields of a mutation run one after another in document order,
\* each only after the previous one completed including its sub-selection.
SerialOK(p) ==
  sc.op.kind = "mutation" =>
    \A i \in 1..Len(ref.roots) :
      p \in ref.roots[i] => \A j \in 1..(i - 1) : ref.roots[j] \subseteq ended

Start(p) ==
  /\ phase = "running"
  /\ p \in AllPos
  /\ p \notin started
  /\ SerialOK(p)
  /\ started' = started \cup {p}
  /\ UNCHANGED <<sc, ref, ended, errs, recovers, phase>>

\* Start of a resolver that also reports what graphql.CollectAllFields answered in it
CfOf(p) == {x.k : x \in {y \in ref.fwd.dinfo : y.p = p /\ y.l = "#cf"}}
StartCf(p, ev) ==
  /\ Start(p)
  /\ ("cf" \in DOMAIN ev => CfOf(p) = {ev.cf[i] : i \in 1..Len(ev.cf)})

End(p) ==
  /\ phase = "running"
  /\ p \in started \ ended
  /\ ended' = ended \cup {p}
  /\ UNCHANGED <<sc, ref, started, errs, recovers, phase>>

\* An error may be presented only if the reference produces it (C01/C04:
\* exactly one entry per originating failure - a second one is rejected here,
\* at the step where it happens).
AddErr(p, c) ==
  /\ phase = "running"
  /\ \E o \in Orders : BagSub(Append(errs, [p |-> p, c |-> c]),
                               ref[o].errs \o (IF HasMarshalPanic(ref[o].d) THEN <<[p |-> "", c |-> "panic"]>> ELSE <<>>))
  /\ errs' = Append(errs, [p |-> p, c |-> c])
  /\ UNCHANGED <<sc, ref, started, ended, recovers, phase>>

Recover ==
  /\ phase = "running"
  /\ \E o \in Orders : recovers + 1 <= NPanics(ref[o].errs) + (IF HasMarshalPanic(ref[o].d) THEN 1 ELSE 0)
  /\ recovers' = recovers + 1
  /\ UNCHANGED <<sc, ref, started, ended, errs, phase>>

RespondSerializationFailure(data, rerrs) ==
  /\ phase = "running"
  /\ started = ended
  /\ data.t \in {"n", "absent"}
  /\ Len(rerrs) = 1 /\ rerrs[1].c = "panic"
  /\ \E o \in Orders :
       /\ started = ref[o].pos
       /\ HasMarshalPanic(ref[o].d)
       /\ recovers = NPanics(ref[o].errs) + 1
       /\ BagEq(errs, ref[o].errs \o rerrs)
  /\ phase' = "done"
  /\ UNCHANGED <<sc, ref, started, ended, errs, recovers>>

Respond(data, rerrs) ==
  /\ phase = "running"
  /\ started = ended
  /\ \E o \in Orders :
       /\ started = ref[o].pos
       /\ ~HasMarshalPanic(ref[o].d)
       /\ data = ref[o].d
       /\ BagEq(rerrs, ref[o].errs)
       /\ recovers = NPanics(ref[o].errs)
  /\ BagEq(errs, rerrs)
  /\ phase' = "done"
  /\ UNCHANGED <<sc, ref, started, ended, errs, recovers>>

TypeOK ==
  /\ ended \subseteq started
  /\ started \subseteq AllPos
  /\ recovers \in Nat
=============================================================================
