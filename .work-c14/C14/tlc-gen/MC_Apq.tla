------------------------------- MODULE MC_Apq -------------------------------
(* Bounded instances of Apq for TLC (constants are defined here because a   *)
(* .cfg cannot write functions or sets of strings).                          *)
(*   MC_Apq.cfg / MC_Apq_thorough.cfg                                        *)
(*       exhaustive check (invariants, PropStep) over ALL request forms the  *)
(*       harness can send, histories of any length, history variable off;    *)
(*       with -workers 1 the ACTION_CONSTRAINT also prints the complete      *)
(*       labelled state graph for the replay.                                *)
(*   MC_ApqHist.cfg / MC_ApqHist_thorough.cfg                                *)
(*       exhaustive check with the history variable `sent` on (the literal   *)
(*       "previously sent together with that hash"), one representative per  *)
(*       symmetric request family, histories of any length that send at most *)
(*       MaxSent distinct <<hash, text>> pairs.                              *)
(*   MC_ApqTwin.cfg       near-twin texts + an upper-case spelling of a       *)
(*       digest, map + LRU 1..2, ImplHash = HashOf; edge export.             *)
(*   MC_ApqTwin_neg.cfg   the same with a NON-INJECTIVE ImplHash (the twins  *)
(*       collide): TLC must REFUTE Bound / ImplConforms (negative config).   *)
(*   MC_ApqEvict.cfg / MC_ApqEvict_thorough.cfg                              *)
(*       the composition with Lru.tla where it matters: LRU only, capacity   *)
(*       1..3, MORE distinct valid texts than capacity (4 / 5), so every     *)
(*       full cache has evicting registrations; request forms reduced to     *)
(*       the ones that touch the cache or must not (register, hash-only,     *)
(*       mismatch, text only); edge export like MC_Apq.cfg.                  *)
EXTENDS Apq, TLC, Json

H(ts) == [t \in ts |-> "h:" \o t]

\* quick alphabet: two valid texts, one invalid
QTexts == {"q1", "q2", "bad"}
QValid == {"q1", "q2"}
QHash  == H(QTexts)
\* thorough alphabet: three valid texts, one invalid
TTexts == {"q1", "q2", "q3", "bad"}
TValid == {"q1", "q2", "q3"}
THash  == H(TTexts)

\* eviction alphabets: only valid texts, more of them than any capacity
ETexts == {"q1", "q2", "q3", "q4"}
EHash  == H(ETexts)
FTexts == {"q1", "q2", "q3", "q4", "q5"}
FHash  == H(FTexts)
LruOnly == {"lru"}
NoneOf == {}

\* no alternative spellings of a digest
NoAlt   == {}
NoCanon == [h \in {} |-> ""]

\* near-twin alphabet (MC_ApqTwin*.cfg): q1x is a NEAR-TWIN of q1 (concretely: q1 with a CR
\* inserted, CRLF for LF, a trailing newline, a BOM, an outer space, a tab for a space, a CR
\* that ends a comment, a literal for a unicode escape - chosen per replay), q2 is unrelated;
\* u:q1 is the upper-case hex spelling of the digest of q1
WTexts == {"q1", "q1x", "q2"}
WHash  == H(WTexts)
Alt1   == {"u:q1"}
Canon1 == [h \in Alt1 |-> "h:q1"]
Caps12W == {1, 2}
\* a lossy hash: the twins collide (what a normalising computeQueryHash amounts to)
LossyHash == [t \in WTexts |-> IF t = "q1x" THEN "h:q1" ELSE "h:" \o t]

\* "x:rand": a hash of nothing in the alphabet; "x:empty": sha256Hash absent or ""
Wrong2 == {"x:rand", "x:empty"}
Wrong1 == {"x:rand"}

BothKinds == {"map", "lru"}
Caps12 == {1, 2}
Caps123 == {1, 2, 3}

\* model check: one representative of each symmetric family
MalOne  == {"pq_string", "ver_string"}
MalOneH == {"ver_string"}
VerOne  == {"2"}
\* edge export: every concrete family the harness knows how to send
MalAll  == {"pq_string", "pq_list", "pq_number", "pq_bool", "ver_string", "ver_float", "hash_object"}
MalAllH == {"ver_string", "ver_float", "hash_object"}
VerAll  == {"2", "0", "absent"}

\* state projection shared with the harness
Proj == [kind |-> kind, cap |-> cap,
         ents |-> {<<h, cache[h]>> : h \in DOMAIN cache},
         order |-> order]
EmitEdge == PrintT(ToJson([s |-> Proj, a |-> act', o |-> out', t |-> Proj']))
EmitInit == PrintT(ToJson([init |-> Proj]))

EdgeView == <<kind, cap, cache, order>>

SentQ == Cardinality(sent) <= 3
SentT == Cardinality(sent) <= 6
=============================================================================
