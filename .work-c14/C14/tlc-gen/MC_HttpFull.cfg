\* C09 thorough tier - exhaustive instance of Http (module MC_Http).
\*   Servers  S1 .. S7            Accepts  20 lists (AcceptsFull)
\*   Docs     21 documents (DocsFull: every anonymous / named single operation, every pair of kinds,
\*            every order of query+mutation+subscription); everything else as in MC_Http.cfg
\* Measured: see notes/C09.md (one TLC run per server with -workers 1).
CONSTANTS
  Servers <- ServersFull
  Methods <- MethodsAll
  ReqCTs <- ReqCTsAll
  Accepts <- AcceptsFull
  Docs <- DocsFull
  Slip = "none"
INIT Init
NEXT Next
CHECK_DEADLOCK FALSE
INVARIANTS
  TypeOK
  GetNeverMutates
  RefusedRunsNothing
  ExecutesNamedOperation
  GetNonQueryRefused
  Non2xxRanNothing
  ExecutedIs200
  ProtocolErrorStatus
  ContentTypeNegotiated
  NegotiationSound
  ImplConforms
  DeviationIsReal
ACTION_CONSTRAINT Export
