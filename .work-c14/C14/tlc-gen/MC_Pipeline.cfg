\* C03 / Pipeline, REPAIRED design (rule swap once at configuration time).
\* 2 concurrent requests x 5 extension lists (0-3 extensions) x {none, map, lru1, lru2}
\* x suggestions on/off x 9 request classes + rejecting mutators; all
\* interleavings at shared-state steps (local event runs fused).
\* Measured: 172 264 distinct / 342 572 generated states, depth 15, 11-40 s (4 workers); I1-I5 hold.
SPECIFICATION MCSpec
CONSTANTS
  Reqs = {1, 2}
  RuleModel = "config"
  Fuse = TRUE
  ExtChoice = "full"
  ReqChoice = "full"
  TrChoice = "direct"
VIEW MCView
INVARIANTS TypeOK I0 I1 I2 I3 I4 I5 I6 I7
