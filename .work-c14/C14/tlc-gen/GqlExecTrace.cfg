SPECIFICATION TraceSpec
CONSTANT Schema <- SchemaFile
CONSTRAINT HighWater
INVARIANT TypeOK
POSTCONDITION TraceAccepted
CHECK_DEADLOCK FALSE
CONSTANT LeafElemErrAtList = FALSE
