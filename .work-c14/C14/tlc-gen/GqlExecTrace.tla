----------------------------- MODULE GqlExecTrace -----------------------------
(* Trace validation of recorded executions of generated probe servers       *)
(* against GqlExec.  trace.ndjson holds many scenarios, each opened by a    *)
(* "Scenario" line that re-initialises the specification state.            *)
EXTENDS GqlExec, Json

Trace == ndJsonDeserialize("trace.ndjson")
SchemaFile == JsonDeserialize("schema.json")

VARIABLE l
tvars == <<gvars, l>>

IsEvent(e) == l <= Len(Trace) /\ Trace[l].e = e /\ l' = l + 1

TraceInit == GInit /\ l = 1 /\ TLCSet(1, 1)

TScenario == IsEvent("Scenario") /\ phase \in {"idle", "done"} /\ Load(Trace[l])
TStart    == IsEvent("Start")    /\ StartCf(Trace[l].p, Trace[l])
TEnd      == IsEvent("End")      /\ End(Trace[l].p)
TErr      == IsEvent("Err")      /\ AddErr(Trace[l].p, Trace[l].c)
TRecover  == IsEvent("Recover")  /\ Recover
TRespond  == IsEvent("Respond")  /\ (\/ Respond(Trace[l].data, Trace[l].errs)
                                     \/ RespondSerializationFailure(Trace[l].data, Trace[l].errs))

TraceNext == TScenario \/ TStart \/ TEnd \/ TErr \/ TRecover \/ TRespond

TraceSpec == TraceInit /\ [][TraceNext]_tvars

\* high-water mark of consumed lines (silent-step safe; needs -workers 1)
HighWater == TLCSet(1, IF l > TLCGet(1) THEN l ELSE TLCGet(1))

TraceAccepted ==
  IF TLCGet(1) = Len(Trace) + 1 THEN TRUE
  ELSE /\ PrintT(<<"TRACE-REJECTED-AT", TLCGet(1)>>)
       /\ FALSE
=============================================================================
