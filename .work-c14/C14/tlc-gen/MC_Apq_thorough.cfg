\* Exhaustive check of Apq + export of its labelled state graph (thorough tier).
\* Texts {q1,q2,q3,bad}, WrongHashes {x:rand,x:empty}, map + LRU capacity 1..3,
\* 7 malformed kinds, 3 bad versions; histories of any length (the state space
\* is finite); history variable off.  VIEW drops the edge label and outcome.
\* Measured: 79 distinct states, 19359 generated = 4 initial + 19355 edges, 2.1 s.
SPECIFICATION Spec
CONSTANTS
  Texts <- TTexts
  Valid <- TValid
  HashOf <- THash
  ImplHash <- THash
  AltHashes <- NoAlt
  CanonOf <- NoCanon
  WrongHashes <- Wrong2
  Kinds <- BothKinds
  Caps <- Caps123
  MalKinds <- MalAll
  MalWithHash <- MalAllH
  BadVers <- VerAll
  History = FALSE
VIEW EdgeView
INVARIANTS TypeOK Bound LruOK
PROPERTIES ImplConforms ImplExtraOK CacheIsLru
ACTION_CONSTRAINT EmitEdge
CHECK_DEADLOCK FALSE
