------------------------------- MODULE Decode -------------------------------
(***************************************************************************)
(* C10, decode classes.  One behaviour = one client input travelling       *)
(* through the decode pipeline of one gqlgen transport:                    *)
(*                                                                         *)
(*   Read -> (Select sub-format) -> (Unescape) -> JsonDecode -> NilGuard   *)
(*        -> CreateOpCtx -> Exec                       (HTTP transports)   *)
(*   FrameDecode -> Dispatch -> (InitPayload | StartPayload -> NilGuard    *)
(*        -> CreateOpCtx -> Exec)                      (websocket)         *)
(*                                                                         *)
(* The input is (transport, slot, class).  A *slot* is the place of the    *)
(* request the class is put into; a slot has a decode *target*, which is   *)
(* what makes the JSON value `null` dangerous:                             *)
(*   ptr    jsonDecode(&params) with params a *RawParams: `null` is a      *)
(*          SUCCESSFUL decode that leaves a nil pointer (http_post.go,     *)
(*          sse.go, http_multipart_mixed.go, http_form_urlencoded.go       *)
(*          parseJson, websocket.go subscribe)                             *)
(*   map    decode into a Go map (GET variables / extensions, the          *)
(*          websocket connection_init payload): `null` is a nil map, fine  *)
(*   frame  decode into a message struct by value: `null` leaves the zero  *)
(*          message, whose type "" is not a client->server type            *)
(*   text   the slot is GraphQL text (no JSON): FORM plain / encoded,      *)
(*          application/graphql raw / encoded, GET ?query=                 *)
(*   url    the GET query string itself (url.ParseQuery)                   *)
(*                                                                         *)
(* Two levels (DESIGN 3 / App. A).  The ACTIONS are the implementation     *)
(* level: they follow the transports' code and compute `out` (outcome      *)
(* class), `impl` (the status / frame detail the pinned code answers).     *)
(* The PROPERTY is stated independently of them: Admissible(req) is the    *)
(* set of outcome classes the statement of C10 admits for the class of the *)
(* input, NoPanicPath says the recover hook / silent drop is never the     *)
(* answer.  Where the pinned tree is known to leave the property (DESIGN   *)
(* 7 #6, #11) the actions model the REPAIRED behaviour when the constant   *)
(* FixNull / FixInit is TRUE and the pinned behaviour as the named         *)
(* deviation actions NilDeref / InitSilentReturn when it is FALSE;         *)
(* Dev(req) names the finding key of the deviation, and DeviationIsReal    *)
(* proves that exactly those inputs leave the property in the pinned       *)
(* model.  MC_Decode.cfg checks the repaired model (TRUE, TRUE);           *)
(* MC_Decode_pinned.cfg (FALSE, FALSE) is EXPECTED to violate NoPanicPath  *)
(* - it is the counterexample generator for the findings.                  *)
(***************************************************************************)
EXTENDS Naturals, Sequences, FiniteSets, TLC, Json

CONSTANTS FixNull,   \* TRUE: a nil *RawParams after decoding is refused as a client error
          FixInit    \* TRUE: an undecodable connection_init payload closes the connection

VARIABLES req,    \* [tr, slot, cls] - the input, chosen in Init
          pc,     \* pipeline stage
          dec,    \* result of the JSON decode step: "none" | "err" | "nil" | "zero" | "ok"
          q,      \* what the query text will be: "none" (not yet known) | "valid" | "bad"
          out,    \* outcome class: "none" | "cerr" | "proceed" | "recovered" | "silent"
          impl,   \* implementation-level detail of the answer (status or frame kind), "" = not modelled
          steps   \* the actions taken, in order (observation only, not in the VIEW)

vars == <<req, pc, dec, q, out, impl, steps>>
view == <<req, pc, dec, q, out, impl>>

-----------------------------------------------------------------------------
(* The input space *)

HttpJson   == {"POST", "SSE", "MIXED"}
Ws         == {"WS1", "WS2"}          \* graphql-ws, graphql-transport-ws
Transports == HttpJson \cup {"FORM", "GRAPHQL", "GET"} \cup Ws

Slots(tr) ==
  CASE tr \in HttpJson -> {"body"}
    [] tr = "FORM"     -> {"json", "enc", "plain"}      \* the three sub-formats of parseBody
    [] tr = "GRAPHQL"  -> {"raw", "genc"}
    [] tr = "GET"      -> {"url", "query", "vars", "ext"}
    [] tr \in Ws       -> {"frame0", "frame", "initp", "startp"}

Target(slot) ==
  CASE slot \in {"body", "json", "startp"}          -> "ptr"
    [] slot \in {"vars", "ext", "initp"}            -> "map"
    [] slot \in {"frame0", "frame"}                 -> "frame"
    [] slot \in {"enc", "plain", "raw", "genc", "query"} -> "text"
    [] slot = "url"                                 -> "url"

(* JSON value classes for a *RawParams target.  x_y = object whose member x
   has the JSON type y (q query, v variables, e extensions, o operationName,
   h headers). *)
MemberWrong == {"q_num", "q_obj", "v_str", "v_arr", "v_num", "e_arr", "e_str",
                "o_obj", "o_num", "h_str"}
MemberNull  == {"v_null", "e_null", "o_null"}       \* legitimate: optional members may be null
NoQuery     == {"q_null", "q_absent"}               \* decodes, but there is no document
Scalars     == {"num", "str", "bool"}
Broken      == {"trunc", "empty"}
Lenient     == {"trail", "deep_over", "deep_under", "unknown", "binary_valid"}
ValidObj    == {"valid", "valid_full"}

PtrClasses  == {"null", "array"} \cup Scalars \cup MemberWrong \cup MemberNull \cup NoQuery
               \cup Broken \cup {"trail", "deep_over", "deep_under", "unknown"} \cup ValidObj
(* a websocket payload is a json.RawMessage inside an already decoded frame:
   it cannot be truncated or carry trailing bytes, but it can be absent *)
PayloadPtrClasses == (PtrClasses \ {"trunc", "empty", "trail"}) \cup {"absent"}
MapClasses  == {"null", "num", "str", "array", "trunc", "trail", "empty", "deep_over", "deep_under", "valid"}
InitClasses == {"absent", "null", "num", "str", "bool", "array", "deep_under", "valid"}
FrameClasses == {"null", "num", "str", "array", "t_num", "t_unknown", "t_s2c", "id_num",
                 "trunc", "trail", "empty", "deep_over", "binary_valid", "binary_junk", "valid"}
TextClasses(slot) ==
  CASE slot = "plain" -> {"valid", "valid_prefixed", "syntax", "empty"}
    [] slot = "enc"   -> {"valid", "syntax", "badesc"}
    [] slot = "raw"   -> {"valid", "valid_prefixed", "syntax", "empty", "json_as_text"}
    [] slot = "genc"  -> {"valid", "valid_prefixed", "syntax", "badesc"}
    [] slot = "query" -> {"valid", "syntax", "empty"}
UrlClasses == {"valid", "badesc", "semicolon"}

Classes(tr, slot) ==
  CASE slot = "body"               -> PtrClasses
    [] slot = "json"               -> PtrClasses \ {"empty"}   \* an empty body has no `"query":` marker: it is the plain sub-format
    [] slot = "startp"             -> PayloadPtrClasses
    [] slot \in {"vars", "ext"}    -> MapClasses
    [] slot = "initp"              -> InitClasses
    [] slot \in {"frame0", "frame"} -> FrameClasses
    [] Target(slot) = "text"       -> TextClasses(slot)
    [] slot = "url"                -> UrlClasses

Requests == UNION { UNION { { [tr |-> tr, slot |-> s, cls |-> c] : c \in Classes(tr, s) }
                            : s \in Slots(tr) } : tr \in Transports }

-----------------------------------------------------------------------------
(* PROPERTY LEVEL: what the statement of C10 admits, per class.            *)
(* "cerr" = the client receives a well-formed error: HTTP 4xx (or the      *)
(* transport's error event) with a JSON body holding `errors` and no data; *)
(* on a websocket an error frame for the operation, a connection_error     *)
(* frame or a close frame.  "proceed" = the request is executed (data /    *)
(* connection_ack).  Classes the statement leaves free admit both.         *)

WellFormed(r) ==
  \/ r.cls \in ValidObj \cup MemberNull \cup {"valid_prefixed"}
  \/ Target(r.slot) = "map" /\ r.cls \in {"null", "empty", "absent"}   \* no variables / extensions / init payload
Free(r) == r.cls \in Lenient

Admissible(r) ==
  IF Free(r) THEN {"cerr", "proceed"}
  ELSE IF WellFormed(r) THEN {"proceed"}
  ELSE {"cerr"}

-----------------------------------------------------------------------------
(* IMPLEMENTATION LEVEL *)

(* encoding/json Decoder.Decode of the first value of the class into the
   target.  Trailing bytes are never looked at; more than 10000 levels of
   nesting are a syntax error of the library. *)
JsonResult(target, cls) ==
  CASE cls = "empty" /\ target = "map" -> "ok"     \* GET decodes a parameter only when it is not ""
    [] cls = "empty" /\ target # "map" -> "err"
    [] cls \in {"trunc", "deep_over", "binary_junk"} -> "err"
    [] cls = "absent" -> (IF target = "ptr" THEN "err" ELSE "ok")   \* subscribe decodes the empty payload: EOF; init skips it
    [] cls = "null"   -> (CASE target = "ptr" -> "nil" [] target = "map" -> "ok" [] target = "frame" -> "zero")
    [] cls \in Scalars \cup {"array"} -> "err"
    [] cls \in MemberWrong \cup {"t_num", "t_unknown", "id_num"} -> "err"
    [] OTHER -> "ok"

QueryOf(cls) == IF cls \in NoQuery THEN "bad" ELSE "valid"

(* statuses of the pinned tree (Accept: application/json), used for drift only *)
DecodeErrStatus(tr) == IF tr \in HttpJson \cup {"GET"} THEN "400" ELSE "422"
OpErrStatus(tr)     == IF tr = "SSE" THEN "200-stream" ELSE "422"

Step(name) == steps' = Append(steps, name)

Init ==
  /\ req \in Requests
  /\ pc = "read" /\ dec = "none" /\ q = "none" /\ out = "none" /\ impl = "" /\ steps = <<>>

Finish(o, i) == /\ out' = o /\ impl' = i /\ pc' = "done"

(* --- HTTP ------------------------------------------------------------- *)

(* getRequestBody / io.ReadAll / url.ParseQuery *)
Read ==
  /\ pc = "read" /\ req.tr \notin Ws /\ Step("Read")
  /\ UNCHANGED <<req, dec>>
  /\ IF req.slot = "url" /\ req.cls # "valid"
       THEN /\ Finish("cerr", "400") /\ UNCHANGED q        \* GET: ParseQuery failed
       ELSE /\ pc' = (CASE req.tr = "FORM" -> "select"
                        [] req.slot \in {"genc"} -> "unescape"
                        [] req.slot \in {"raw", "query", "url"} -> "opctx"
                        [] OTHER -> "decode")
            /\ q' = (CASE req.slot = "url" -> "valid"
                       [] req.slot \in {"raw", "query"} -> (IF req.cls \in {"valid", "valid_prefixed"} THEN "valid" ELSE "bad")
                       [] OTHER -> q)
            /\ UNCHANGED <<out, impl>>

(* UrlEncodedForm.parseBody: `"query":` anywhere -> JSON; prefix query=%7B ->
   urlencoded; anything else is the query text itself *)
Select ==
  /\ pc = "select" /\ Step("Select")
  /\ UNCHANGED <<req, dec, out, impl>>
  /\ pc' = (CASE req.slot = "json" -> "decode" [] req.slot = "enc" -> "unescape" [] req.slot = "plain" -> "opctx")
  /\ q' = IF req.slot = "plain" THEN (IF req.cls \in {"valid", "valid_prefixed"} THEN "valid" ELSE "bad") ELSE q

(* url.QueryUnescape *)
Unescape ==
  /\ pc = "unescape" /\ Step("Unescape")
  /\ UNCHANGED <<req, dec>>
  /\ IF req.cls = "badesc"
       THEN Finish("cerr", "422") /\ UNCHANGED q
       ELSE /\ pc' = "opctx" /\ q' = (IF req.cls \in {"valid", "valid_prefixed"} THEN "valid" ELSE "bad")
            /\ UNCHANGED <<out, impl>>

JsonDecode ==
  /\ pc = "decode" /\ req.tr \notin Ws /\ Step("JsonDecode")
  /\ UNCHANGED req
  /\ LET r == JsonResult(Target(req.slot), req.cls) IN
     /\ dec' = r
     /\ IF r = "err"
          THEN Finish("cerr", DecodeErrStatus(req.tr)) /\ UNCHANGED q
          ELSE /\ pc' = (IF Target(req.slot) = "ptr" THEN "guard" ELSE "opctx")
               /\ q' = (IF Target(req.slot) = "ptr" THEN QueryOf(req.cls) ELSE "valid")
               /\ UNCHANGED <<out, impl>>

(* repaired: `if params == nil` -> client error *)
NilGuard ==
  /\ pc = "guard" /\ FixNull /\ Step("NilGuard")
  /\ UNCHANGED <<req, dec, q>>
  /\ IF dec = "nil"
       THEN Finish("cerr", IF req.tr \in Ws THEN "operr" ELSE DecodeErrStatus(req.tr))
       ELSE pc' = "opctx" /\ UNCHANGED <<out, impl>>

(* pinned: no guard.  CreateOperationContext reads params.ReadTime (POST also
   resets the nil pointer's fields in its deferred pool reset; subscribe
   assigns params.ReadTime): a nil dereference, recovered by
   Server.ServeHTTP's last-resort recover, which calls the recover hook. *)
NilDeref ==
  /\ pc = "guard" /\ ~FixNull /\ Step("NilDeref")
  /\ UNCHANGED <<req, dec, q>>
  /\ IF dec = "nil"
       THEN Finish("recovered", "422-internal")
       ELSE pc' = "opctx" /\ UNCHANGED <<out, impl>>

(* executor.CreateOperationContext: parse, operation, variables *)
CreateOpCtx ==
  /\ pc = "opctx" /\ Step("CreateOpCtx")
  /\ UNCHANGED <<req, dec, q>>
  /\ IF q = "bad"
       THEN Finish("cerr", IF req.tr \in Ws THEN "operr" ELSE OpErrStatus(req.tr))
       ELSE pc' = "exec" /\ UNCHANGED <<out, impl>>

Exec ==
  /\ pc = "exec" /\ Step("Exec")
  /\ UNCHANGED <<req, dec, q>>
  /\ Finish("proceed", IF req.tr \in Ws THEN "data" ELSE "200")

(* --- websocket ---------------------------------------------------------- *)

(* messageExchanger.NextMessage: decode the frame, map its type *)
FrameDecode ==
  /\ pc = "read" /\ req.tr \in Ws /\ Step("FrameDecode")
  /\ UNCHANGED <<req, q>>
  /\ LET cls == IF Target(req.slot) = "frame" THEN req.cls ELSE "valid"   \* payload slots ride in a valid frame
         r   == JsonResult("frame", cls)
         first == req.slot \in {"frame0", "initp"}
     IN
     /\ dec' = r
     /\ CASE r = "err" ->
               \* errInvalidMsg.  init(): connection_error "invalid json" + close 1002.
               \* run(): the reader loop returns, closeOnCancel closes with 1000.
               Finish("cerr", IF first THEN "connerr+close1002" ELSE "close1000")
          [] r = "zero" \/ (cls = "t_s2c" /\ req.tr = "WS2") ->
               \* toMessage: "invalid client->server message type": an error that is not errInvalidMsg
               Finish("cerr", IF first THEN "close1002" ELSE "close1000")
          [] cls = "t_s2c" ->
               \* graphql-ws maps server->client types too; init()/run() default branch
               Finish("cerr", "connerr+close1002")
          [] OTHER -> pc' = "dispatch" /\ UNCHANGED <<out, impl>>

Dispatch ==
  /\ pc = "dispatch" /\ Step("Dispatch")
  /\ UNCHANGED <<req, dec, q>>
  /\ CASE req.slot = "frame0" -> Finish("proceed", "ack")       \* a connection_init without payload
       [] req.slot = "initp"  -> pc' = "initp" /\ UNCHANGED <<out, impl>>
       [] OTHER               -> pc' = "startp" /\ UNCHANGED <<out, impl>>   \* start / subscribe

(* init(): json.Unmarshal(payload, &c.initPayload) when len(payload) > 0 *)
InitPayload ==
  /\ pc = "initp" /\ Step("InitPayload")
  /\ UNCHANGED <<req, q>>
  /\ LET r == JsonResult("map", req.cls) IN
     /\ dec' = r
     /\ IF r = "err"
          THEN IF FixInit THEN Finish("cerr", "close")
                          ELSE Finish("silent", "return-without-close")   \* InitSilentReturn: `return false`, no frame, connection left open
          ELSE Finish("proceed", "ack")

(* subscribe(): jsonDecode(payload, &params) with params a *RawParams *)
StartPayload ==
  /\ pc = "startp" /\ Step("StartPayload")
  /\ UNCHANGED req
  /\ LET cls == IF req.slot = "startp" THEN req.cls ELSE "valid"
         r   == JsonResult("ptr", cls) IN
     /\ dec' = r
     /\ IF r = "err"
          THEN Finish("cerr", "operr") /\ UNCHANGED q           \* error frame "invalid json" + complete
          ELSE pc' = "guard" /\ q' = QueryOf(cls) /\ UNCHANGED <<out, impl>>

Done == pc = "done" /\ UNCHANGED vars

Next == Read \/ Select \/ Unescape \/ JsonDecode \/ NilGuard \/ NilDeref \/ CreateOpCtx \/ Exec
        \/ FrameDecode \/ Dispatch \/ InitPayload \/ StartPayload \/ Done

Spec == Init /\ [][Next]_vars

-----------------------------------------------------------------------------
(* The finding key of the pinned tree's deviation on this input, "" if none *)
Dev(r) ==
  CASE Target(r.slot) = "ptr" /\ r.cls = "null" ->
         (CASE r.tr = "POST"  -> "post:null-body-nil-deref"
            [] r.tr = "SSE"   -> "sse:null-body-nil-deref"
            [] r.tr = "MIXED" -> "mixed:null-body-nil-deref"
            [] r.tr = "FORM"  -> "form:null-json-body-nil-deref"
            [] r.tr \in Ws    -> "ws:null-start-payload-nil-deref")
    [] r.slot = "initp" /\ JsonResult("map", r.cls) = "err" -> "ws:init-payload-not-object-no-close"
    [] OTHER -> ""

-----------------------------------------------------------------------------
(* Invariants *)

TypeOK ==
  /\ req \in Requests
  /\ out \in {"none", "cerr", "proceed", "recovered", "silent"}
  /\ dec \in {"none", "err", "nil", "zero", "ok"}
  /\ q \in {"none", "valid", "bad"}

(* the recover hook is invoked only when user code panicked (there is no
   panicking user code in this model), and the client is never left without
   an answer *)
NoPanicPath == out \notin {"recovered", "silent"}

(* implementation level within property level *)
ImplConforms == pc = "done" => out \in Admissible(req)

(* nothing is executed after a failed or nil decode *)
ExecutedOnlyDecoded == out = "proceed" => dec \in {"ok", "none"} /\ q \in {"valid", "none"}

(* In the pinned model (FixNull = FixInit = FALSE) the inputs that leave the
   property are exactly those Dev names; in the repaired model none does. *)
DeviationIsReal ==
  pc = "done" =>
     IF (~FixNull /\ Target(req.slot) = "ptr" /\ req.cls = "null") \/ (~FixInit /\ req.slot = "initp" /\ Dev(req) # "")
       THEN out \notin Admissible(req) /\ Dev(req) # ""
       ELSE out \in Admissible(req)

(* every request ends *)
Terminates == <>(pc = "done")

-----------------------------------------------------------------------------
(* Export: one line per input with the prescription *)
SetToSeq(S) == LET RECURSIVE F(_) F(T) == IF T = {} THEN <<>> ELSE LET x == CHOOSE y \in T : TRUE IN <<x>> \o F(T \ {x}) IN F(S)

Export ==
  (pc' = "done" /\ pc # "done") =>
    PrintT(ToJson([k |-> "decode", tr |-> req'.tr, slot |-> req'.slot, cls |-> req'.cls,
                   want |-> SetToSeq(Admissible(req')), out |-> out', impl |-> impl',
                   dev |-> Dev(req'), steps |-> steps']))
=============================================================================
