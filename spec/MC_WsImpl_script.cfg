\* WsImpl with Sync = TRUE (the environment moves only in quiescent states, the system reacts in one
\* canonical order) as the tree behaves (all repairs in): run with -workers 1; the invariant EmitHist prints,
\* for every quiescent state, the environment decisions leading to it with the observation predicted
\* before each and after the last.  The driver turns the maximal ones into replay scripts.
\* Template: the driver overrides protocol / alphabet / bounds per replay family (replayFamilies).
INIT Init
NEXT Next
CONSTANTS
  AllowDupStart = FALSE
  AllowSilentInit = FALSE
  AllowRestartRace = FALSE
  AllowLateStart = FALSE
  AllowDoubleError = FALSE
  SInsts = {}
  SIds = {}
  SK = 0
  MCProto = "gws"
  MCInitFn = TRUE
  MCInitTimeout = TRUE
  MCKA = FALSE
  MCPO = FALSE
  MCPP = FALSE
  MCMissingPongOk = FALSE
  MCCancel = TRUE
  MCDetached = FALSE
  AllInsts <- MCInsts1
  Ids <- MCIds1
  IdOfInst <- MCIdOf1
  InstOrder <- MCOrder1
  Alphabet <- AlphaGwsFull
  BadStarts = TRUE
  SrcKinds <- KindsAll
  MaxMsgs = 3
  K = 1
  MaxTicks = 0
  FixDup = TRUE
  FixDel = TRUE
  FixInit = TRUE
  FixLate = TRUE
  CloseCheckOutside = FALSE
  StopDeletes = FALSE
  Stalls = FALSE
  Linger = FALSE
  PreAcked = FALSE
  Bursts = TRUE
  Sync = TRUE
VIEW view
INVARIANTS TypeOK WriteExclusion EmitHist
CHECK_DEADLOCK FALSE
