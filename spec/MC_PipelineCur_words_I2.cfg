\* C03 / Pipeline, CURRENT code: per-request rule swap as compiled (RuleModel = "words").
\* TLC is expected to VIOLATE I2 here (DESIGN section 7 #3); the driver records the
\* counterexample as a design-level finding and reproduces it statistically.
\* Measured: I2 is violated after ~40-76 thousand distinct states, 4 s (full state space without invariants: 238 812 generated).
SPECIFICATION MCSpec
CONSTANTS
  Reqs = {1, 2}
  RuleModel = "words"
  Fuse = TRUE
  ExtChoice = "small"
  ReqChoice = "small"
  TrChoice = "direct"
VIEW MCView
INVARIANTS TypeOK I2
