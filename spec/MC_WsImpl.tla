----------------------------- MODULE MC_WsImpl -----------------------------
(* constant definitions for the WsImpl configurations *)
EXTENDS WsImpl

MCIds == {"a", "b"}
MCInsts == {"a1", "a2", "b1"}
MCIdOf == [i \in MCInsts |-> IF i = "b1" THEN "b" ELSE "a"]
MCOrder == <<"a1", "a2", "b1">>

MCIds1 == {"a"}
MCInsts1 == {"a1", "a2"}
MCIdOf1 == [i \in MCInsts1 |-> "a"]
MCOrder1 == <<"a1", "a2">>

AlphaGws == {"init", "start", "stop", "term", "abort"}
AlphaGwsFull == {"init", "initbad", "start", "stop", "term", "invalid", "s2c", "abort", "closef"}
AlphaTws == {"init", "start", "stop", "ping", "pong", "abort"}
AlphaTwsFull == {"init", "initbad", "start", "stop", "ping", "pong", "invalid", "s2c", "abort", "closef"}
KindsAll == {"end", "suberr", "panic"}
KindsEnd == {"end"}
=============================================================================
