----------------------------- MODULE MC_WsImpl -----------------------------
(* constant definitions for the WsImpl configurations *)
EXTENDS WsImpl

\* two ids, two instances of the first
MCIds == {"a", "b"}
MCInsts == {"a1", "a2", "b1"}
MCIdOf == [i \in MCInsts |-> IF i = "b1" THEN "b" ELSE "a"]
MCOrder == <<"a1", "a2", "b1">>

\* one id started twice
MCIds1 == {"a"}
MCInsts1 == {"a1", "a2"}
MCIdOf1 == [i \in MCInsts1 |-> "a"]
MCOrder1 == <<"a1", "a2">>

\* one operation
MCInsts0 == {"a1"}
MCIdOf0 == [i \in MCInsts0 |-> "a"]
MCOrder0 == <<"a1">>

\* client alphabets (message classes; Ws.tla EndsConn / WsImpl InitProg, RunProg)
AlphaGws == {"init", "start", "stop", "term", "abort"}
AlphaGwsFull == {"init", "initbad", "start", "stop", "term", "invalid", "s2c", "abort", "closef"}
AlphaTws == {"init", "start", "stop", "ping", "pong", "abort"}
AlphaTwsFull == {"init", "initbad", "start", "stop", "ping", "pong", "invalid", "s2c", "abort", "closef"}
AlphaOps == {"start", "stop", "term", "abort"}
AlphaOpsS == {"start", "stop"}
AlphaStart == {"start"}
AlphaStall == {"start", "stop", "term"}
AlphaStallT == {"start", "stop"}
AlphaTwsOps == {"start", "stop", "ping", "pong", "abort"}
KindsAll == {"end", "suberr", "panic"}
KindsEnd == {"end"}
=============================================================================
