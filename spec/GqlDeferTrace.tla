----------------------------- MODULE GqlDeferTrace -----------------------------
EXTENDS GqlDefer, Json

Trace == ndJsonDeserialize("trace.ndjson")
SchemaFile == JsonDeserialize("schema.json")

VARIABLE l
tvars == <<gvars, dvars, l>>

IsEvent(e) == l <= Len(Trace) /\ Trace[l].e = e /\ l' = l + 1

TraceInit == GInit /\ DInit /\ l = 1 /\ TLCSet(1, 1)

TScenario == IsEvent("Scenario") /\ phase \in {"idle", "done"} /\ Load(Trace[l])
             /\ merged' = None /\ seen' = {} /\ npay' = 0 /\ lastHN' = "-" /\ failed' = {} /\ perrs' = <<>> /\ undeliv' = 0
TStart    == IsEvent("Start")    /\ StartCf(Trace[l].p, Trace[l]) /\ UNCHANGED dvars
TEnd      == IsEvent("End")      /\ End(Trace[l].p) /\ UNCHANGED dvars
TErr      == IsEvent("Err")      /\ AddErr(Trace[l].p, Trace[l].c) /\ UNCHANGED dvars
TRecover  == IsEvent("Recover")  /\ Recover /\ UNCHANGED dvars
TInitial  == IsEvent("Respond")  /\ npay = 0 /\ PayloadInitial(Trace[l].data, Trace[l].errs, Trace[l].hasnext)
TIncr     == IsEvent("Respond")  /\ npay >= 1
             /\ PayloadIncr(Trace[l].data, Trace[l].errs, Trace[l].hasnext, Trace[l].path, Trace[l].pseq, Trace[l].label)
TDone     == IsEvent("Done")     /\ PayloadsEnd

TraceNext == TScenario \/ TStart \/ TEnd \/ TErr \/ TRecover \/ TInitial \/ TIncr \/ TDone
TraceSpec == TraceInit /\ [][TraceNext]_tvars

HighWater == TLCSet(1, IF l > TLCGet(1) THEN l ELSE TLCGet(1))
TraceAccepted ==
  IF TLCGet(1) = Len(Trace) + 1 THEN TRUE
  ELSE /\ PrintT(<<"TRACE-REJECTED-AT", TLCGet(1)>>)
       /\ FALSE
=============================================================================
