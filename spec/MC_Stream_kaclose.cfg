\* C12, DEVIATING DESIGN of round 4: sse.go as it is (every write + flush under mu, `complete` and closed in one
\* critical section), except that keepAlive's `<-ctx.Done()` branch calls close() - marks the connection closed -
\* instead of only stopping the ticker (KACloseOnDone = TRUE).  With a SERVER-SIDE cancellation of the request
\* context (Deadline; the client stays connected: Disc = FALSE here) every event the operation produces afterwards
\* is dropped by c.write and `complete` is suppressed.  TLC must REFUTE the invariant on the INVARIANT line: the
\* driver runs it with SseComplete (must fail) and with
\* TypeOK NoRace NoUseAfterFinish NoSplice PreFirst InOrder CompleteLast PingsOnlyIfConfigured NoGarbage (must hold),
\* and once more with KASet = {FALSE} and SseComplete (must hold: without keep-alive pings there is no such goroutine).
\* A run of this configuration WITHOUT error is a specification regression.
\* measured: see notes/C12.md, Round 4 (server-side cancellation).
INIT Init
NEXT Next
CONSTANTS
  Kinds = {"sse"}
  MinN = 0
  MaxN = 2
  KASet = {TRUE}
  MaxTicks = 2
  Disc = FALSE
  LockWrites = TRUE
  StopKA = TRUE
  CloseAtomic = TRUE
  KeepSink = TRUE
  FailSet = {0}
  MaxReq = 1
  SharedBuf = FALSE
  Deadl = TRUE
  KACloseOnDone = TRUE
  MmEncodeInAdd = TRUE
INVARIANT SseComplete
CHECK_DEADLOCK FALSE
