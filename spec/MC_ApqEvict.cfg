\* Apq over a FULL, evicting LRU + export of the labelled state graph (quick tier).
\* Texts {q1..q4} all valid, WrongHashes {x:rand}, LRU capacity 1..3 (always fewer
\* than texts), no malformed / wrong-version forms; histories of any length.
\* Measured: 63 distinct states, 2523 generated = 3 initial + 2520 edges, ~2 s.
SPECIFICATION Spec
CONSTANTS
  Texts <- ETexts
  Valid <- ETexts
  HashOf <- EHash
  ImplHash <- EHash
  AltHashes <- NoAlt
  CanonOf <- NoCanon
  WrongHashes <- Wrong1
  Kinds <- LruOnly
  Caps <- Caps123
  MalKinds <- NoneOf
  MalWithHash <- NoneOf
  BadVers <- NoneOf
  History = FALSE
VIEW EdgeView
INVARIANTS TypeOK Bound LruOK
PROPERTIES ImplConforms ImplExtraOK CacheIsLru
ACTION_CONSTRAINT EmitEdge
CHECK_DEADLOCK FALSE
