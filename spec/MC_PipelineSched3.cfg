\* as MC_PipelineSched.cfg with three concurrent requests (thorough tier)
\* Measured: 1 107 144 distinct / 2 542 088 generated states, 24 276 distinct behaviours printed, 93 s (1 worker).
SPECIFICATION MCSpec
CONSTANTS
  Reqs = {1, 2, 3}
  RuleModel = "config"
  Fuse = TRUE
  ExtChoice = "one"
  ReqChoice = "sched3"
  TrChoice = "direct"
CONSTRAINT Export
INVARIANTS TypeOK I1 I2
