\* C07 negative: reset moved before use (expected: violation)
CONSTANTS
  Requests <- RequestsNeg
  ResetFields <- AllSix
  ResetEarly = TRUE
  CacheKey = "full"
  PoolMax = 1
  Slots = 1
  Configs <- CfgNone
  MergeInPlace = FALSE
  BufPool = FALSE
  TrackNeg = FALSE
  Once = FALSE
  WsScript <- WsNone
  WsPings = 0
  WsSharedMsg = FALSE
INIT Init
NEXT Next
VIEW view
CHECK_DEADLOCK FALSE
INVARIANTS OwnParams Isolation CacheTransparent
