\* C17, thorough tier: pairwise cover + full factorial over CubeFactors + seeded rows + evolutions.
\* Seed is overwritten by the harness (VERIF_SEED).  -workers 1 (EmitGen prints every Generate step).
\* Measured: see notes/C17.md
CONSTANTS
  Seed = 1
  Extra = 120
  Cube = TRUE
  MaxEvolve = 3
  EvolveEvery = 4
SPECIFICATION Spec
INVARIANTS TypeOK Total Outcome
ACTION_CONSTRAINT EmitGen
CHECK_DEADLOCK FALSE
