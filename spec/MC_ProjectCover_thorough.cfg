\* C17, thorough tier: pairwise cover + full factorial over CubeFactors + seeded rows + evolutions.
\* Seed is overwritten by the harness (VERIF_SEED).  -workers 1 (EmitGen prints every Generate step).
\* Constants: Extra = 120 seeded rows, Cube = full factorial over the 5 CubeFactors (32 rows), chains of 3
\* Generate steps from every 4th cover row, Repeat = 3 Generate steps (unchanged input) in the directory of every
\* other cover row with autobindModel.  Measured before Again / the 8th probe: 166 cover rows + 7 probe rows,
\* 237 Generate steps, 474 distinct states, ~3 s.
CONSTANTS
  Seed = 1
  Extra = 120
  Cube = TRUE
  MaxEvolve = 3
  Repeat = 3
  EvolveEvery = 4
SPECIFICATION Spec
INVARIANTS TypeOK Total Outcome
ACTION_CONSTRAINT EmitGen
CHECK_DEADLOCK FALSE
