\* C07 negative: the query cache keyed on a lossy function of the text that maps document twins to one key
\* (expected: CacheTransparent violated - twin B is answered from twin A's cached document)
CONSTANTS
  Requests <- RequestsTwin
  ResetFields <- AllSix
  ResetEarly = FALSE
  CacheKey = "fold"
  PoolMax = 1
  Slots = 1
  Configs <- CfgNone
  MergeInPlace = FALSE
  BufPool = FALSE
  TrackNeg = FALSE
  Once = FALSE
  WsScript <- WsNone
  WsPings = 0
  WsSharedMsg = FALSE
INIT Init
NEXT Next
VIEW view
CHECK_DEADLOCK FALSE
INVARIANTS OwnParams Isolation CacheTransparent
