---------------------------- MODULE EntitiesTrace ----------------------------
(* Trace validation for C20: executions of `_entities` on federation probe  *)
(* servers generated at check time (gated entity resolvers released in a    *)
(* chosen order) against the algorithm of Entities.  Logged, through one    *)
(* mutex-protected tracer (file order = a linearization):                   *)
(*   Scenario  the representation kinds, planned outcomes                   *)
(*   Start/End   an individual entity resolver was entered / returned       *)
(*               (resolver name, index named by the key it received)        *)
(*   BStart/BEnd a batch resolver was entered (the key index of every input)*)
(*               / returned                                                 *)
(*   Err, Recover   the error presenter / the recover hook ran              *)
(*   Respond   the `_entities` list as (resolver, key index, requires index)*)
(*             per element, and the number of errors of the response        *)
(* gqlgen's own steps (grouping, spawning, resolver selection, the zip, the *)
(* WaitGroups) are silent and inferred by TLC.  A trace is accepted when    *)
(* every call the code made is a call the model makes at that moment with   *)
(* exactly those keys, and the response is the model's list / error count / *)
(* recover count.  The constants Fix* say which code is modelled: the driver*)
(* validates against the pinned tree and, on rejection, against the         *)
(* repaired design before it reports anything.                              *)
EXTENDS Entities

Trace == ndJsonDeserialize("trace.ndjson")

VARIABLES l, terr, trec
tvars == <<vars, l, terr, trec>>

IsEvent(e) == l <= Len(Trace) /\ Trace[l].e = e /\ l' = l + 1

TraceInit ==
  /\ reps = << >> /\ out = << >> /\ bout = [r \in BatchRes |-> "ok"]
  /\ pc = "done"
  /\ gst = [t \in AllT |-> "none"] /\ gq = [t \in AllT |-> << >>]
  /\ gres = [t \in AllT |-> << >>] /\ gz = [t \in AllT |-> 0]
  /\ est = << >> /\ list = << >>
  /\ errs = 0 /\ recs = 0 /\ order = << >>
  /\ l = 1 /\ terr = 0 /\ trec = 0
  /\ TLCSet(1, 1)

TScenario ==
  /\ IsEvent("Scenario")
  /\ reps' = Trace[l].reps /\ out' = Trace[l].out /\ bout' = Trace[l].bout
  /\ pc' = "build"
  /\ gst' = [t \in AllT |-> "none"] /\ gq' = [t \in AllT |-> << >>]
  /\ gres' = [t \in AllT |-> << >>] /\ gz' = [t \in AllT |-> 0]
  /\ est' = [i \in 1..Len(Trace[l].reps) |-> "none"]
  /\ list' = [i \in 1..Len(Trace[l].reps) |-> Null]
  /\ errs' = 0 /\ recs' = 0 /\ order' = << >>
  /\ terr' = 0 /\ trec' = 0

Silent ==
  /\ \/ Build \/ Finish
     \/ \E t \in AllT : GroupStart(t) \/ BatchNext(t) \/ BatchKeyFail(t) \/ ZipStep(t) \/ GroupDone(t)
     \/ \E i \in Idx : EntityFail(i)
  /\ UNCHANGED <<l, terr, trec>>

CallOf(j) == [r |-> TheRes(j).n, i |-> KeyIdx(TheRes(j), K(j), j)]

TStart ==
  /\ IsEvent("Start")
  /\ \E j \in Idx : /\ EntityCall(j)
                    /\ CallOf(j) = [r |-> Trace[l].r, i |-> Trace[l].i]
  /\ UNCHANGED <<terr, trec>>

TEnd ==
  /\ IsEvent("End")
  /\ \E j \in Idx : /\ est[j] = "called"
                    /\ CallOf(j) = [r |-> Trace[l].r, i |-> Trace[l].i]
                    /\ out[j] = Trace[l].o
                    /\ EntityReturn(j)
  /\ UNCHANGED <<terr, trec>>

TBStart ==
  /\ IsEvent("BStart")
  /\ \E t \in AllT : /\ BatchCall(t)
                     /\ Head(gq[t]).r = Trace[l].r
                     /\ Head(gq[t]).ky = Trace[l].ks
  /\ UNCHANGED <<terr, trec>>

TBEnd ==
  /\ IsEvent("BEnd")
  /\ \E t \in AllT : /\ gst[t] = "called"
                     /\ Head(gq[t]).r = Trace[l].r
                     /\ bout[Trace[l].r] = Trace[l].o
                     /\ BatchReturn(t)
  /\ UNCHANGED <<terr, trec>>

TErr     == IsEvent("Err") /\ terr' = terr + 1 /\ UNCHANGED <<vars, trec>>
TRecover == IsEvent("Recover") /\ trec' = trec + 1 /\ UNCHANGED <<vars, terr>>

\* the response: the model has finished, and answered exactly this
TRespond ==
  /\ IsEvent("Respond")
  /\ pc = "done"
  /\ list = Trace[l].list
  /\ errs = Trace[l].errs
  /\ terr = errs /\ trec = recs
  /\ UNCHANGED <<vars, terr, trec>>

TraceNext == TScenario \/ Silent \/ TStart \/ TEnd \/ TBStart \/ TBEnd \/ TErr \/ TRecover \/ TRespond
TraceSpec == TraceInit /\ [][TraceNext]_tvars

HighWater == TLCSet(1, IF l > TLCGet(1) THEN l ELSE TLCGet(1))
TraceAccepted ==
  IF TLCGet(1) = Len(Trace) + 1 THEN TRUE
  ELSE /\ PrintT(<<"TRACE-REJECTED-AT", TLCGet(1)>>)
       /\ FALSE
=============================================================================
