\* C12 trace validation, STRICT = the property (repaired design)
SPECIFICATION TraceSpec
CONSTANTS
  Kinds = {"sse", "mm"}
  MinN = 0
  MaxN = 1000
  KASet = {TRUE, FALSE}
  MaxTicks = 1
  Disc = TRUE
  LockWrites = TRUE
  StopKA = TRUE
  CloseAtomic = TRUE
  KeepSink = FALSE
  FailSet = {0}
  MaxReq = 1000000
  SharedBuf = FALSE
  Deadl = TRUE
  KACloseOnDone = FALSE
  MmEncodeInAdd = TRUE
  AllowSkip = TRUE
CONSTRAINT HighWater
INVARIANT TypeOK
POSTCONDITION TraceAccepted
CHECK_DEADLOCK FALSE
