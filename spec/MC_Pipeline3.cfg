\* C03 / Pipeline, REPAIRED design, thorough tier: THREE concurrent requests,
\* 2 extension lists x 4 caches x suggestions on/off x 6 request classes.
\* Measured: 793 368 distinct / 2 288 032 generated states, depth 22, 60-90 s (4 workers); I0-I7 hold.
SPECIFICATION MCSpec
CONSTANTS
  Reqs = {1, 2, 3}
  RuleModel = "config"
  Fuse = TRUE
  ExtChoice = "small"
  ReqChoice = "small"
  TrChoice = "direct"
VIEW MCView
INVARIANTS TypeOK I0 I1 I2 I3 I4 I5 I6 I7
