\* C14 gate histories, thorough tier: 4 query texts x cost assignments that read $n x 4 cache kinds x {$n: Int, $n: Int = 100} x
\* all sequences of 3 requests (optionally a request with another query text in the middle) from {n absent, 3, 100} x {limit = Cx-1, limit = Cx}.
\* Measured: 256 initial states, 77,056 distinct states, depth 4, 64,512 maximal histories printed; ~1.5-2 min.
CONSTANTS
  MaxH = 2
  MaxD = 1
  MaxSize = 3
  MaxCustom = 2
  Corpus = "hist"
  Emit = TRUE
  MaxReqs = 3
  CacheKinds = {"none", "map", "lru", "lru1"}
  Mode = "hist"
SPECIFICATION GSpec
ACTION_CONSTRAINT EmitHist
INVARIANTS GateIndependent CacheInv TArgMono TArgMatters TBindState CtxIndependent OverLimitRunsNothing CtxInv
CHECK_DEADLOCK FALSE
