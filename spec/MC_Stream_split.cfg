\* C12, the HALF-repaired sse.go: every write + flush under mu and the keep-alive writer stopped,
\* but `event: complete` and `closed = true` in TWO critical sections (complete through the ordinary
\* locked write helper, closed set later by the deferred close()).  TLC must REFUTE the invariant on
\* the INVARIANT line: the driver runs it with CompleteLast (must fail: a ping parked on mu gets in
\* between) and with NoRace / NoSplice / NoUseAfterFinish / InOrder / PreFirst (must hold).
\* measured: CompleteLast counterexample of 13 states (n = 0: Tick while `complete` is written, KPingBegin right after its MFlushEnd), < 2 s;
\* the other run (round 3: + SseFailed NoGarbage, a payload that cannot be serialized at positions 0..2): 16,621 distinct states, no error.
INIT Init
NEXT Next
CONSTANTS
  Kinds = {"sse"}
  MinN = 0
  MaxN = 2
  KASet = {TRUE}
  MaxTicks = 2
  Disc = TRUE
  LockWrites = TRUE
  StopKA = TRUE
  CloseAtomic = FALSE
  KeepSink = TRUE
  FailSet = {0, 1, 2}
  MaxReq = 1
  SharedBuf = FALSE
  Deadl = FALSE
  KACloseOnDone = FALSE
  MmEncodeInAdd = FALSE
INVARIANT CompleteLast
CHECK_DEADLOCK FALSE
