------------------------------- MODULE GqlDefer -------------------------------
(***************************************************************************)
(* Property-level specification of incremental delivery (@defer), C13.     *)
(* It extends GqlExec: resolver / error / recover events are constrained   *)
(* as before (against the reference execution of the operation WITHOUT     *)
(* @defer - GqlRef ignores deferral), and the single Respond step is       *)
(* replaced by a sequence of payloads:                                     *)
(*                                                                         *)
(*   P1 merging the initial payload with all incremental payloads at their *)
(*      paths gives the plain result Ref.d - except that bubbling from a   *)
(*      failure inside a deferred group stops at the group's object (then  *)
(*      the two results are compared outside the subtree the plain         *)
(*      execution nulls);                                                  *)
(*   P2 a group (path, label) is delivered at most once;                   *)
(*   P3 Deliverable: when a payload arrives, its path leads to an object   *)
(*      in the data merged so far;                                         *)
(*   P4 hasNext is true on every payload but the last;                     *)
(*   P5 no error is reported that the plain execution does not report.     *)
(*                                                                         *)
(* WHICH fields an implementation defers, and how it batches them, is left *)
(* free: the partition is read off the observed payloads.                  *)
(***************************************************************************)
EXTENDS GqlExec

\* Known deviation of the pinned tree (DESIGN section 7 #10, known_findings): a
\* deferred group can be delivered although its object is not (yet, or ever)
\* present in the merged data.  With AllowUndeliverable = TRUE that payload is
\* admitted as a named deviation so that the REST of such a trace is still
\* checked; the strict configuration (FALSE) is the property.
CONSTANT AllowUndeliverable

VARIABLES
  merged,    \* data merged so far (tagged tree), [t |-> "none"] before the initial payload
  seen,      \* set of <<path, label>> of incremental payloads delivered
  npay,      \* number of payloads so far
  lastHN,    \* hasNext of the last payload ("t" | "f" | "-")
  failed,    \* set of path sequences of groups whose data was null
  perrs,     \* bag of errors carried by the payloads
  undeliv    \* number of payloads admitted through the AllowUndeliverable deviation

dvars == <<merged, seen, npay, lastHN, failed, perrs, undeliv>>

None == [t |-> "none"]

DInit == merged = None /\ seen = {} /\ npay = 0 /\ lastHN = "-" /\ failed = {} /\ perrs = <<>> /\ undeliv = 0

\* --- tree navigation over tagged values, paths as sequences of strings ---
RECURSIVE FieldIdx(_, _, _)
FieldIdx(fs, k, i) == IF i > Len(fs) THEN 0 ELSE IF fs[i].k = k THEN i ELSE FieldIdx(fs, k, i + 1)

\* decimal string of a small list index
RECURSIVE IdxOf(_, _, _)
IdxOf(es, seg, i) == IF i > Len(es) THEN 0 ELSE IF ToString(i - 1) = seg THEN i ELSE IdxOf(es, seg, i + 1)

RECURSIVE Nav(_, _)
Nav(d, ps) ==
  IF ps = <<>> THEN d
  ELSE IF d.t = "o"
       THEN LET i == FieldIdx(d.f, Head(ps), 1) IN IF i = 0 THEN None ELSE Nav(d.f[i].v, Tail(ps))
       ELSE IF d.t = "l"
       THEN LET i == IdxOf(d.e, Head(ps), 1) IN IF i = 0 THEN None ELSE Nav(d.e[i], Tail(ps))
       ELSE None

RECURSIVE SetFields(_, _, _)
SetFields(fs, gs, j) ==
  IF j > Len(gs) THEN fs
  ELSE LET i == FieldIdx(fs, gs[j].k, 1)
       IN  SetFields((IF i = 0 THEN Append(fs, gs[j]) ELSE [fs EXCEPT ![i] = gs[j]]), gs, j + 1)

\* Replace(d, ps, f): d with the subtree at ps replaced by f(subtree); identity when ps does not exist
RECURSIVE MergeAt(_, _, _)
MergeAt(d, ps, gs) ==
  IF ps = <<>>
  THEN (IF d.t = "o" THEN [d EXCEPT !.f = SetFields(@, gs, 1)] ELSE d)
  ELSE IF d.t = "o"
       THEN LET i == FieldIdx(d.f, Head(ps), 1)
            IN  IF i = 0 THEN d ELSE [d EXCEPT !.f[i].v = MergeAt(@, Tail(ps), gs)]
       ELSE IF d.t = "l"
       THEN LET i == IdxOf(d.e, Head(ps), 1)
            IN  IF i = 0 THEN d ELSE [d EXCEPT !.e[i] = MergeAt(@, Tail(ps), gs)]
       ELSE d

Masked == [t |-> "masked"]
RECURSIVE MaskAt(_, _)
MaskAt(d, ps) ==
  IF ps = <<>> THEN Masked
  ELSE IF d.t = "o"
       THEN LET i == FieldIdx(d.f, Head(ps), 1)
            IN  IF i = 0 THEN d ELSE [d EXCEPT !.f[i].v = MaskAt(@, Tail(ps))]
       ELSE IF d.t = "l"
       THEN LET i == IdxOf(d.e, Head(ps), 1)
            IN  IF i = 0 THEN d ELSE [d EXCEPT !.e[i] = MaskAt(@, Tail(ps))]
       ELSE d

\* the shortest prefix of ps at which the plain result d is null (the position the plain
\* execution nulls when the failure is not confined to the group), or ps itself
RECURSIVE NulledPrefix(_, _, _)
NulledPrefix(d, ps, n) ==
  IF n > Len(ps) THEN ps
  ELSE IF Nav(d, SubSeq(ps, 1, n)).t \in {"n", "none"} THEN SubSeq(ps, 1, n) ELSE NulledPrefix(d, ps, n + 1)

RECURSIVE MaskAll(_, _, _)
MaskAll(d, plain, fs) ==
  IF fs = {} THEN d
  ELSE LET p == CHOOSE x \in fs : TRUE
       IN  MaskAll(MaskAt(d, NulledPrefix(plain, p, 0)), plain, fs \ {p})

\* --- payload actions ---------------------------------------------------
PayloadInitial(data, pes, hn) ==
  /\ phase = "running" /\ npay = 0
  /\ merged' = data
  /\ npay' = 1 /\ lastHN' = hn
  /\ perrs' = pes
  /\ UNCHANGED <<seen, failed, undeliv, gvars>>

PayloadIncr(data, pes, hn, path, pseq, label) ==
  /\ phase = "running" /\ npay >= 1
  /\ lastHN = "t"                                   \* P4: the previous payload announced more
  /\ <<path, label>> \notin seen                    \* P2
  /\ (Nav(merged, pseq).t = "o" \/ AllowUndeliverable)   \* P3 Deliverable
  \* P2b "with ... its label": every response key the payload carries was collected, for the
  \* object at that path, under a deferred fragment with exactly this label
  /\ (data.t = "o" =>
        \A i \in 1..Len(data.f) :
          \E o \in Orders : [p |-> path, k |-> data.f[i].k, l |-> label] \in ref[o].dinfo)
  /\ merged' = (IF data.t = "o" THEN MergeAt(merged, pseq, data.f) ELSE merged)
  /\ failed' = (IF data.t = "o" THEN failed ELSE failed \cup {pseq})
  /\ seen' = seen \cup {<<path, label>>}
  /\ npay' = npay + 1 /\ lastHN' = hn
  /\ perrs' = perrs \o pes
  /\ undeliv' = (IF Nav(merged, pseq).t = "o" THEN undeliv ELSE undeliv + 1)
  /\ UNCHANGED gvars

\* the payload sequence ended (the response function returned nil)
PayloadsEnd ==
  /\ phase = "running" /\ npay >= 1
  /\ lastHN \in {"f", "-"}                          \* P4
  /\ (lastHN = "-" => npay = 1)
  /\ started = ended
  /\ BagEq(errs, perrs)
  /\ \E o \in Orders :
       /\ started \subseteq ref[o].pos
       /\ BagSub(perrs, ref[o].errs)                \* P5
       /\ recovers = NPanics(perrs)
       /\ (failed = {} /\ started = ref[o].pos => BagEq(perrs, ref[o].errs))
       \* P1 (not demanded after the known deviation: a payload that could not be applied is lost)
       /\ (undeliv = 0 => MaskAll(merged, ref[o].d, failed) = MaskAll(ref[o].d, ref[o].d, failed))
  /\ phase' = "done"
  /\ UNCHANGED <<sc, ref, started, ended, errs, recovers, dvars>>
=============================================================================
