\* C10 quick tier - exhaustive instance of Upload, REPAIRED model (the prescription that is replayed).
\*   order    all part sequences of length <= 4 over {ops, map, f0, f1, junk} x 4 map variants x {memory, temp file}
\*   path     all (variables shape, path) walks of depth <= 3 x {memory, temp file} + 4 malformed prefixes
\*   content  9 operations classes x 11 map classes x {memory, temp file}
\*   cut      4 places where the body ends early x {memory, temp file}
\*   size     3 limit configurations x 8 total lengths around MaxMemory / MaxUploadSize x {known length, chunked}
\* Measured: 8,264 inputs (order 6,248, path 1,768, content 198, cut 8, size 42), 62,447 distinct states
\* (74,651 generated), depth 22, 5-15 s with -workers 1 (Export needs -workers 1); every action except
\* WalkPanic (disabled by FixWalk) is taken.
CONSTANTS
  MaxParts = 4
  Depth = 3
  Modes = {"order", "path", "content", "cut", "size"}
  FixWalk = TRUE
INIT Init
NEXT Next
VIEW view
CHECK_DEADLOCK FALSE
INVARIANTS
  TypeOK
  NoPanicPath
  TempFilesRemoved
  TempOnlyWhenSpilling
  ImplConforms
  DeliversMapped
  OverLimitRefused
  DeviationIsReal
ACTION_CONSTRAINT Export
