\* C07 negative (control): the lossy cache key on a server constructed WITHOUT a query cache - expected: no violation
CONSTANTS
  Requests <- RequestsTwin
  ResetFields <- AllSix
  ResetEarly = FALSE
  CacheKey = "fold"
  PoolMax = 1
  Slots = 1
  Configs <- CfgNoCache
  MergeInPlace = FALSE
  BufPool = FALSE
  TrackNeg = FALSE
  Once = FALSE
  WsScript <- WsNone
  WsPings = 0
  WsSharedMsg = FALSE
INIT Init
NEXT Next
VIEW view
CHECK_DEADLOCK FALSE
INVARIANTS OwnParams Isolation CacheTransparent
