\* Lru trace validation (property level = verdict, implementation level = drift):
\* -workers 1, depth-first queue.
SPECIFICATION TraceSpec
CONSTANTS
  Keys <- CKeys
  Vals <- CVals
  Caps <- CCaps
CONSTRAINT HighWater
INVARIANTS SizeOK Latest Own
POSTCONDITION TraceAccepted
CHECK_DEADLOCK FALSE
