\* WsImpl, repaired model (FixDup, FixDel, FixInit), graphql-ws, quick tier.
SPECIFICATION Spec
CONSTANTS
  AllowDupStart = FALSE
  AllowSilentInit = FALSE
  AllowDoubleError = FALSE
  SInsts = {}
  SIds = {}
  SK = 0
  MCProto = "gws"
  MCInitFn = TRUE
  MCInitTimeout = FALSE
  MCKA = TRUE
  MCPO = FALSE
  MCPP = FALSE
  MCMissingPongOk = FALSE
  MCCancel = TRUE
  AllInsts <- MCInsts1
  Ids <- MCIds1
  IdOfInst <- MCIdOf1
  InstOrder <- MCOrder1
  Alphabet <- AlphaGws
  BadStarts = FALSE
  SrcKinds <- KindsEnd
  MaxMsgs = 4
  K = 1
  MaxTicks = 1
  FixDup = TRUE
  FixDel = TRUE
  FixInit = TRUE
  Sync = FALSE
VIEW view
INVARIANTS TypeOK Refines WriteExclusion CloseOnceI NothingLeft StopCancelsI
PROPERTIES EndsAll StopCancels
CHECK_DEADLOCK FALSE
