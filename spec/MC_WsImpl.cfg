\* WsImpl, exhaustive.  This file is a TEMPLATE: harness/cmd/c11 (mcVariants) overrides the constants
\* per variant (one "Name = value" / "Name <- def" line each, definitions in MC_WsImpl.tla).
\* As written: the REPAIRED model (FixDup, FixDel, FixInit), on which every property holds:
\*   invariants  TypeOK, Refines (every observable step satisfies its Ws guard: NoExecBeforeAck, the
\*               per-instance frame grammar, one executing operation per id, cancel only with a cause,
\*               CloseFunc at most once), WriteExclusion, CloseOnceI (exactly once when all has ended),
\*               NothingLeft, StopCancelsI
\*   liveness    EndsAll (after close / cancel / reader exit every process of the connection ends),
\*               StopCancels - run with `-lncheck final`
\* VIEW view keeps `act` and `hist` out of the fingerprint; the Ws state `w` (per-instance automata,
\* no frame history) is part of it.
\*
\* Variants and measured sizes (distinct states / generated, TLC 4 workers; "+L" = with liveness):
\*   see notes/C11.md, table "Model checking"; e.g. ops-gws (PreAcked, one id started twice, 3 client
\*   messages after the handshake, K = 1, all Source endings): 62,252 / 117,238.
SPECIFICATION Spec
CONSTANTS
  AllowDupStart = FALSE
  AllowSilentInit = FALSE
  AllowRestartRace = FALSE
  AllowLateStart = FALSE
  AllowDoubleError = FALSE
  SInsts = {}
  SIds = {}
  SK = 0
  MCProto = "gws"
  MCInitFn = FALSE
  MCInitTimeout = FALSE
  MCKA = FALSE
  MCPO = FALSE
  MCPP = FALSE
  MCMissingPongOk = FALSE
  MCCancel = FALSE
  MCDetached = FALSE
  AllInsts <- MCInsts1
  Ids <- MCIds1
  IdOfInst <- MCIdOf1
  InstOrder <- MCOrder1
  Alphabet <- AlphaOps
  BadStarts = FALSE
  SrcKinds <- KindsAll
  MaxMsgs = 3
  K = 1
  MaxTicks = 0
  FixDup = TRUE
  FixDel = TRUE
  FixInit = TRUE
  FixLate = TRUE
  CloseCheckOutside = FALSE
  StopDeletes = FALSE
  Stalls = FALSE
  Linger = FALSE
  PreAcked = TRUE
  Bursts = FALSE
  Sync = FALSE
VIEW view
INVARIANTS TypeOK Refines WriteExclusion CloseOnceI NothingLeft StopCancelsI
PROPERTIES EndsAll StopCancels
CHECK_DEADLOCK FALSE
