----------------------------- MODULE GqlSubTrace -----------------------------
EXTENDS GqlSub, Json

Trace == ndJsonDeserialize("trace.ndjson")
SchemaFile == JsonDeserialize("schema.json")

VARIABLE l
tvars == <<svars, l>>

IsEvent(e) == l <= Len(Trace) /\ Trace[l].e = e /\ l' = l + 1

TraceInit == GInit /\ ev = 0 /\ l = 1 /\ TLCSet(1, 1)

TScenario == IsEvent("Scenario") /\ phase \in {"idle", "done"} /\ SubLoad(Trace[l])
TStart    == IsEvent("Start")    /\ Start(Trace[l].p) /\ UNCHANGED ev
TEnd      == IsEvent("End")      /\ End(Trace[l].p) /\ UNCHANGED ev
TErr      == IsEvent("Err")      /\ AddErr(Trace[l].p, Trace[l].c) /\ UNCHANGED ev
TRecover  == IsEvent("Recover")  /\ Recover /\ UNCHANGED ev
TRespond  == IsEvent("Respond")  /\ RespondEvent(Trace[l].data, Trace[l].errs)
TDone     == IsEvent("Done")     /\ StreamEnd(Trace[l].n)

TraceNext == TScenario \/ TStart \/ TEnd \/ TErr \/ TRecover \/ TRespond \/ TDone
TraceSpec == TraceInit /\ [][TraceNext]_tvars

HighWater == TLCSet(1, IF l > TLCGet(1) THEN l ELSE TLCGet(1))
TraceAccepted ==
  IF TLCGet(1) = Len(Trace) + 1 THEN TRUE
  ELSE /\ PrintT(<<"TRACE-REJECTED-AT", TLCGet(1)>>)
       /\ FALSE
=============================================================================
