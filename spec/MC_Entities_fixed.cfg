\* Entities (C20), the repaired design (Fix* = TRUE: resolver chosen per representation, one
\* batch call per (type, resolver), a short batch result is an error, a nil entity is not
\* dereferenced): TLC proves Correct - the property itself - for every list x outcomes x schedule.
SPECIFICATION Spec
CONSTANTS
  MaxLen = 3
  Alphabet = {"S", "Mid", "Malt", "T0"}
  Outcomes = {"ent", "nil", "err", "panic"}
  BatchOutcomes = {"ok", "short", "long", "err", "panic"}
  MaxFaults = 1
  ReqInline = TRUE
  FixFirstRep = TRUE
  FixShort = TRUE
  FixNilReq = TRUE
  FixBadReq = TRUE
  FixBadKey = TRUE
VIEW view
INVARIANTS TypeOK OwnIndexOnly Correct
CHECK_DEADLOCK FALSE
