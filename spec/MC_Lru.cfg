\* Lru: export of the complete labelled state graph (both tiers), -workers 1.
\* Keys {k1..k4}, Vals {v1,v2}, capacity 1..3 (so every capacity is exceeded by the
\* number of keys: every full state has an evicting Add).  VIEW drops the history
\* variables and the label; the invariants that do not need them are checked here,
\* the ones that do in MC_LruHist*.cfg.
\* Measured: 315 distinct states, 3783 generated = 3 initial + 3780 edges, ~2 s.
SPECIFICATION LruSpec
CONSTANTS
  Keys <- K4
  Vals <- V2
  Caps <- Caps123
VIEW LEdgeView
INVARIANTS LruTypeOK SizeOK
PROPERTIES EvictOK
ACTION_CONSTRAINT LEmitEdge
CHECK_DEADLOCK FALSE
