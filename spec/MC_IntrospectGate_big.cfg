\* C16 gate machine, thorough tier. Constants: Big = TRUE: every hiding operation with one root
\* selection and every mergeable pair of root selections x {nothing registered, extension alone};
\* every registration order of at most 4 writers of DisableIntrospection (1367 orders) x 21 shapes,
\* and every order of at most 2 x every single-selection shape.
\* Measured: 51789 operations, 606626 distinct states, depth 15, ~200 s (load 60 on 16 shared cores).
CONSTANTS
    Big = TRUE
    Schemas <- MCSchemas
    Ops <- MCOps
INIT GInit
NEXT GNext
INVARIANTS GateWellFormed LastWriterDecides OnlyWritersEnable GateHolds NoLeak GateOpen
ACTION_CONSTRAINT EmitGate
CHECK_DEADLOCK FALSE
