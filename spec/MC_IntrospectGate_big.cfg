\* C16 gate machine, thorough tier. Constants: Big = TRUE: every hiding operation with one root
\* selection and every mergeable pair of root selections; extension installed or not.
\* Measured: 19680 operations, 155040 states generated, 136160 distinct, depth 6, ~80-100 s.
CONSTANTS
    Big = TRUE
    Schemas <- MCSchemas
    Ops <- MCOps
INIT GInit
NEXT GNext
INVARIANTS GateWellFormed LastWriterDecides OnlyWritersEnable GateHolds NoLeak GateOpen
ACTION_CONSTRAINT EmitGate
CHECK_DEADLOCK FALSE
