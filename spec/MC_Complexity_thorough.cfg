\* C14, thorough tier, theorems.  Symbolic machine integers: MAX = 2*H+1 = [2,1]  (Go: H = 2^62-1, MAX = math.MaxInt).
\* All operations with <= 4 selection nodes x {no custom cost, one slot, two slots, all slots uniform}.
\* Measured: 1,819 trees, 335,451 inputs, 672,721 distinct states, depth 3; 2 workers ~4.5 min.
CONSTANTS
  MaxH = 2
  MaxD = 1
  MaxSize = 4
  MaxCustom = 2
  Corpus = "gen"
  Emit = FALSE
SPECIFICATION Spec
INVARIANTS TRange TDSmall TChildren TMonotone TPerm TFragment TDouble TGate TGateMono TBindState TOccIndep
CHECK_DEADLOCK FALSE
