\* C14 gate, the request context as state (Mode = "ctx"): 4 query texts that call >= 2 custom complexity functions x
\* cost assignments that read $n x query cache lru x all sequences of 2 requests ($n = 3) x {limit = Cx-1, limit = Cx} x
\* context {live, cancelled before pricing, deadline passed before pricing, becomes done in the k-th call of a custom
\* complexity function, k = 1..NCalls}; pricing is call by call (Arrive / PriceCall / DecideReq).
\* Measured: 22 initial states, 13,422 distinct states, depth 13, 3,096 maximal histories printed; 1 worker ~20-25 s.
\* -coverage 1: GInit 22, Arrive 1692, PriceCall 8352, DecideReq 3356; Request and Other 0 (they are the "hist" mode's
\* atomic steps, disabled in this mode - as Arrive/PriceCall/DecideReq are in MC_ComplexityGate*.cfg).
\* Teeth (by hand): Req pricing a request with a done context at 0 -> CtxIndependent and GateIndependent violated.
CONSTANTS
  MaxH = 2
  MaxD = 1
  MaxSize = 3
  MaxCustom = 2
  Corpus = "hist"
  Emit = TRUE
  MaxReqs = 2
  CacheKinds = {"lru"}
  Mode = "ctx"
SPECIFICATION GSpec
ACTION_CONSTRAINT EmitHist
INVARIANTS GateIndependent CacheInv TArgMatters TBindState CtxIndependent OverLimitRunsNothing CtxInv TCtxCalls
CHECK_DEADLOCK FALSE
