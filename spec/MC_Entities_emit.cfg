\* Entities (C20): export for the replay. `order` (completion order of the resolver calls) is part
\* of the state here, so every (scenario, completion order) is a distinct terminal state; EmitDone
\* prints it with the model's answer and the property's prescription (-workers 1).
SPECIFICATION Spec
CONSTANTS
  MaxLen = 3
  Alphabet = {"S", "Mid", "Malt", "T0"}
  Outcomes = {"ent", "nil", "err", "panic"}
  BatchOutcomes = {"ok", "short", "long", "err", "panic"}
  MaxFaults = 1
  ReqInline = TRUE
  FixFirstRep = FALSE
  FixShort = FALSE
  FixNilReq = FALSE
  FixBadReq = FALSE
  FixBadKey = FALSE

INVARIANTS TypeOK OwnIndexOnly CorrectModuloKnown EmitDone
CHECK_DEADLOCK FALSE
