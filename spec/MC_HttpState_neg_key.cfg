\* C07 negative: query cache keyed on a prefix (expected: violation)
CONSTANTS
  Requests <- RequestsNeg
  ResetFields <- AllSix
  ResetEarly = FALSE
  CacheKey = "prefix"
  PoolMax = 1
  Slots = 1
  Configs <- CfgNone
  MergeInPlace = FALSE
  BufPool = FALSE
  TrackNeg = FALSE
  Once = FALSE
  WsScript <- WsNone
  WsPings = 0
  WsSharedMsg = FALSE
INIT Init
NEXT Next
VIEW view
CHECK_DEADLOCK FALSE
INVARIANTS OwnParams Isolation CacheTransparent
