\* C07 negative (control): the pooled-buffer deviation with ONE request in flight - expected: no violation; the
\* defect is invisible to every sequential history, which is why the concurrent replay holds responses.
CONSTANTS
  Requests <- RequestsHeld
  ResetFields <- AllSix
  ResetEarly = FALSE
  CacheKey = "full"
  PoolMax = 1
  Slots = 1
  Configs <- CfgNone
  MergeInPlace = FALSE
  BufPool = TRUE
  TrackNeg = FALSE
  Once = FALSE
  WsScript <- WsNone
  WsPings = 0
  WsSharedMsg = FALSE
INIT Init
NEXT Next
VIEW view
CHECK_DEADLOCK FALSE
INVARIANTS OwnParams Isolation CacheTransparent
