\* C07 - the header instance: transport configuration as server state, Accept dimension.
\*   Requests  RequestsHdr (38): GET / POST x {Q1 executes, QX fails validation, no operation, undecodable variables}
\*             x Accept {absent, application/json, application/graphql-response+json, */*, text/html,
\*             "text/html, application/json;q=0.9"}; FORM / GRAPHQL (send the configured headers as they are)
\*   Configs   every server configuration: no ResponseHeaders ("none"), headers that do not name a Content-Type
\*             ("xsb"), headers with an explicit Content-Type ("ct") - three initial states
\*   TrackNeg  the (transport, media type) negotiated last is part of the exported state, so the edge cover serves
\*             every request after every negotiation result of either negotiating transport
\*   PoolMax = 1, Slots = 1; EmitEdge prints one request-level labelled edge per finished request (-workers 1).
\* Measured: 11,472 distinct states (3 initial), 1,768 edges, depth 22, 2 s.
CONSTANTS
  Requests <- RequestsHdr
  ResetFields <- AllSix
  ResetEarly = FALSE
  CacheKey = "full"
  PoolMax = 1
  Slots = 1
  Configs <- CfgAll
  MergeInPlace = FALSE
  BufPool = FALSE
  TrackNeg = TRUE
  Once = FALSE
  WsScript <- WsNone
  WsPings = 0
  WsSharedMsg = FALSE
INIT Init
NEXT Next
VIEW view
CHECK_DEADLOCK FALSE
INVARIANTS TypeOK OwnParams Isolation WriteOwn ConfigImmutable ApqOnlyHashOnly CacheTransparent PoolClean
ACTION_CONSTRAINT EmitEdge
