------------------------------ MODULE ApqTrace ------------------------------
(* IMPLEMENTATION-LEVEL trace comparison for C15 (a rejection here is only  *)
(* counted as implementation-level drift; the verdict is ApqPropTrace):     *)
(* histories of requests recorded against the                               *)
(* REAL gqlgen server (real AutomaticPersistedQuery extension, real LRU or  *)
(* map cache, POST and GET transports) are checked to be behaviours of Apq. *)
(*                                                                          *)
(* trace.ndjson: many histories, each opened by                             *)
(*   {"e":"Reset","kind":"lru"|"map","cap":n}                               *)
(* followed by one line per request                                         *)
(*   {"e":"Req","req":{text,ext,ver,hash,mal},                              *)
(*    "out":{submit,class,ops}, "ents":[[hash,text],...], "order":[...]}    *)
(* where req is the abstract request the harness sent (Apq's alphabet), out *)
(* is what the harness OBSERVED (text seen by a mutator placed after the    *)
(* extension, response class, operations seen by a Cache decorator WITH     *)
(* THEIR RESULTS: every Get with hit / miss and the value returned).  The   *)
(* real cache is observed only through its public Get / Add, so its         *)
(* contents and recency order are compared through those results (ents is   *)
(* the observed binding, used by ApqPropTrace only).  Apq is deterministic  *)
(* per request, so Step(req) fixes the successor and the remaining          *)
(* conjuncts compare its outcome with the record.                           *)
(* consts.json carries the (larger) alphabet of this run.                   *)
(* Check = FALSE (ApqTraceDiag.cfg): follow the requests only and print the *)
(* outcome and state the specification prescribes for each line.            *)
EXTENDS Apq, TLC, Json

CONSTANT Check

Trace == ndJsonDeserialize("trace.ndjson")
C     == JsonDeserialize("consts.json")
ToSet(s) == {s[i] : i \in 1..Len(s)}

CTexts   == ToSet(C.texts)
CValid   == ToSet(C.valid)
CHashOf  == C.hashOf
CWrong   == ToSet(C.wrong)
CAlt     == ToSet(C.alt)
CCanon   == C.canon
CMal     == ToSet(C.malKinds)
CMalH    == ToSet(C.malWithHash)
CBadVers == ToSet(C.badVers)
CKinds   == {"map", "lru"}
CCaps    == 1..8

VARIABLE l
tvars == <<vars, l>>

IsEvent(e) == l <= Len(Trace) /\ Trace[l].e = e /\ l' = l + 1

\* the response classes the harness can tell apart structurally
Coarse(c) ==
  CASE c = "data" -> "data"
    [] c \in {"parse", "noop"} -> "postreject"      \* submitted, then rejected by the executor
    [] c = "notfound" -> "notfound"
    [] c \in {"mismatch", "invalid", "version"} -> "apqreject"   \* rejected inside the mutator chain
    [] c = "decode" -> "decode"                       \* executor never reached
    [] OTHER -> c

EntText(es, h) == es[CHOOSE i \in 1..Len(es) : es[i][1] = h][2]
CacheOf(es) == [h \in {es[i][1] : i \in 1..Len(es)} |-> EntText(es, h)]

Proj == [kind |-> kind, cap |-> cap,
         ents |-> {<<h, cache[h]>> : h \in DOMAIN cache},
         order |-> order]

TraceInit == InitState("map", 0) /\ l = 1 /\ TLCSet(1, 1)

TReset ==
  /\ IsEvent("Reset")
  /\ kind' = Trace[l].kind /\ cap' = Trace[l].cap
  /\ cache' = [h \in {} |-> NoText] /\ order' = <<>> /\ sent' = {}
  /\ act' = Req(NoText, "init", None, None, None)
  /\ out' = Out(None, "init", NoOps)

TReq ==
  /\ IsEvent("Req")
  /\ Step(Trace[l].req)
  /\ (IF Check
      THEN /\ out'.submit = Trace[l].out.submit
           /\ out'.exec = Trace[l].out.exec
           /\ Coarse(out'.class) = Trace[l].out.class
           /\ out'.ops = Trace[l].out.ops
      ELSE PrintT(ToJson([l |-> l, o |-> out', t |-> Proj'])))

TraceNext == TReset \/ TReq
TraceSpec == TraceInit /\ [][TraceNext]_tvars

HighWater == TLCSet(1, IF l > TLCGet(1) THEN l ELSE TLCGet(1))

TraceAccepted ==
  IF TLCGet(1) = Len(Trace) + 1 THEN TRUE
  ELSE /\ PrintT(<<"TRACE-REJECTED-AT", TLCGet(1)>>)
       /\ FALSE
=============================================================================
