------------------------------- MODULE MC_Lru -------------------------------
(* Bounded instances of Lru for TLC.                                         *)
(*   MC_Lru.cfg         edge export: 4 keys, 2 values, capacity 1..3; VIEW   *)
(*                      <<cap, ord, val>> (the history variables and the     *)
(*                      label are left out), -workers 1: ACTION_CONSTRAINT   *)
(*                      prints the complete labelled state graph.            *)
(*   MC_LruHist.cfg /   exhaustive check WITH the history variables (last,   *)
(*   MC_LruHist_thorough.cfg   added): Latest, GetLatest, GetOwn, Own,       *)
(*                      NeverAddedMisses, SizeOK, EvictOK on every state.    *)
EXTENDS Lru, TLC, Json

K3 == {"k1", "k2", "k3"}
K4 == {"k1", "k2", "k3", "k4"}
V2 == {"v1", "v2"}
Caps123 == {1, 2, 3}

\* state projection shared with the harness (ord: most recently used first)
LProj == [cap |-> cap, order |-> ord, ents |-> {<<k, val[k]>> : k \in DOMAIN val}]
LEmitEdge == PrintT(ToJson([s |-> LProj, a |-> lbl', t |-> LProj']))
LEdgeView == <<cap, ord, val>>
=============================================================================
