\* C10 - Decode with the PINNED tree's behaviour (no nil guard, silent init return).
\* NoPanicPath is deliberately NOT listed: this configuration checks DeviationIsReal, i.e. that
\* the inputs leaving the property in the pinned model are exactly those Dev() names
\* (DESIGN 7 #6, #11).  Adding NoPanicPath here yields the counterexamples
\* (req = [tr |-> "POST", slot |-> "body", cls |-> "null"], Read, JsonDecode, NilDeref).
CONSTANTS
  FixNull = FALSE
  FixInit = FALSE
INIT Init
NEXT Next
VIEW view
CHECK_DEADLOCK FALSE
INVARIANTS
  TypeOK
  ExecutedOnlyDecoded
  DeviationIsReal
