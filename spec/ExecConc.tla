------------------------------ MODULE ExecConc ------------------------------
(***************************************************************************)
(* Implementation-level model of the concurrency skeleton of a generated   *)
(* executor for one operation (property C05):                              *)
(*                                                                         *)
(*   - the response function, first call: resolving a list of N object     *)
(*     elements as type.gotpl does it: wg.Add(N); per element, with a      *)
(*     worker limit WL > 0, sm.Acquire(ctx) - which FAILS once the context *)
(*     is done - then `go f(i)`; f(i) runs the element's resolver and      *)
(*     defers sm.Release / wg.Done; finally wg.Wait();                     *)
(*   - G deferred groups (processDeferredGroup): pendingDeferred++, a      *)
(*     goroutine that dispatches the group and hands the result over on    *)
(*     the UNBUFFERED channel deferredResults;                             *)
(*   - later calls of the response function: receive one group result      *)
(*     while pendingDeferred > 0, else return nil;                         *)
(*   - the transport: either drains every payload (SSE, multipart/mixed,   *)
(*     websocket) or takes the first payload and leaves (POST, GET, ...);  *)
(*     when the request has ended its context is cancelled;                *)
(*   - Cancel may happen at any instant.                                   *)
(*                                                                         *)
(* User code assumption (from the property): a resolver returns promptly   *)
(* once started (or once its context is cancelled): ResolverReturns is     *)
(* weakly fair.                                                            *)
(*                                                                         *)
(* FixAcquire / FixDefer = TRUE model the repaired templates (commits      *)
(* c4574cf, e7bc8ee in /repo); with FALSE the model is the pinned tree, on *)
(* which TLC shows the two C05 counterexamples (kept as a regression of    *)
(* the specification itself: MC_ExecConc_old*.cfg must FAIL).              *)
(***************************************************************************)
EXTENDS Naturals, FiniteSets, Sequences, TLC, Json

CONSTANTS N,          \* list length (elements 1..N), N >= 2 (a list of one element runs inline)
          WL,         \* worker_limit; 0 = unlimited
          G,          \* number of deferred groups
          Transport,  \* "drain" | "one"
          FixAcquire, FixDefer

VARIABLES
  pc,        \* response function (main goroutine of the operation):
             \* "loop" | "wait" | "first" | "idle" | "recv" | "nil"
  next,      \* next element index the list loop handles
  elem,      \* [1..N -> "todo" | "spawned" | "running" | "done" | "skipped"]
             \* spawned = `go f(i)` executed (permit held), resolver not yet entered
  sem,       \* free permits (only meaningful when WL > 0)
  wg,        \* WaitGroup counter
  grp,       \* [1..G -> "none" | "running" | "sending" | "sent" | "aborted"]
  pending,   \* pendingDeferred
  cancelled, \* the request context is done
  trans,     \* transport: "calling" (inside a call of the response function) | "between" | "left"
  payloads,  \* number of payloads the transport received
  act        \* last action (observation only; excluded from VIEW)

vars == <<pc, next, elem, sem, wg, grp, pending, cancelled, trans, payloads, act>>
view == <<pc, next, elem, sem, wg, grp, pending, cancelled, trans, payloads>>

Elems == 1..N
Groups == 1..G

Init ==
  /\ pc = "loop" /\ next = 1
  /\ elem = [i \in Elems |-> "todo"]
  /\ sem = WL /\ wg = N
  /\ grp = [g \in Groups |-> "none"]
  /\ pending = 0 /\ cancelled = FALSE
  /\ trans = "calling" /\ payloads = 0
  /\ act = [name |-> "Init", i |-> 0]

A(name, i) == act' = [name |-> name, i |-> i]

\* --- list fan-out (type.gotpl) ---------------------------------------
Spawn ==
  /\ pc = "loop" /\ next <= N
  /\ (WL = 0 \/ sem > 0)
  /\ sem' = (IF WL = 0 THEN sem ELSE sem - 1)
  /\ elem' = [elem EXCEPT ![next] = "spawned"]
  /\ next' = next + 1
  /\ A("Spawn", next)
  /\ UNCHANGED <<pc, wg, grp, pending, cancelled, trans, payloads>>

\* sm.Acquire(ctx) returns ctx.Err(): only with a worker limit, only once the
\* context is done (with a free permit Acquire may still succeed: Spawn stays enabled).
AcquireFails ==
  /\ pc = "loop" /\ next <= N
  /\ WL > 0 /\ cancelled
  /\ elem' = [elem EXCEPT ![next] = "skipped"]
  /\ wg' = (IF FixAcquire THEN wg - 1 ELSE wg)
  /\ next' = next + 1
  /\ A("AcquireFails", next)
  /\ UNCHANGED <<pc, sem, grp, pending, cancelled, trans, payloads>>

LoopEnd ==
  /\ pc = "loop" /\ next > N
  /\ pc' = "wait"
  /\ A("LoopEnd", 0)
  /\ UNCHANGED <<next, elem, sem, wg, grp, pending, cancelled, trans, payloads>>

\* the spawned goroutine reaches the element's resolver (user code is entered)
ResolverStarts(i) ==
  /\ elem[i] = "spawned"
  /\ elem' = [elem EXCEPT ![i] = "running"]
  /\ A("ResolverStarts", i)
  /\ UNCHANGED <<pc, next, sem, wg, grp, pending, cancelled, trans, payloads>>

\* user code: the element's resolver returns; deferred Release + Done
ResolverReturns(i) ==
  /\ elem[i] = "running"
  /\ elem' = [elem EXCEPT ![i] = "done"]
  /\ sem' = (IF WL = 0 THEN sem ELSE sem + 1)
  /\ wg' = wg - 1
  /\ A("ResolverReturns", i)
  /\ UNCHANGED <<pc, next, grp, pending, cancelled, trans, payloads>>

\* deferred groups are registered while the initial result is built
StartGroup(g) ==
  /\ pc \in {"loop", "wait"}
  /\ grp[g] = "none"
  /\ grp' = [grp EXCEPT ![g] = "running"]
  /\ pending' = pending + 1
  /\ A("StartGroup", g)
  /\ UNCHANGED <<pc, next, elem, sem, wg, cancelled, trans, payloads>>

WaitReturns ==
  /\ pc = "wait" /\ wg = 0
  /\ \A g \in Groups : grp[g] # "none"       \* (all groups of this model are registered by now)
  /\ pc' = "first"
  /\ A("WaitReturns", 0)
  /\ UNCHANGED <<next, elem, sem, wg, grp, pending, cancelled, trans, payloads>>

\* the first call returns the initial payload to the transport
RespFirst ==
  /\ pc = "first"
  /\ pc' = "idle" /\ trans' = "between" /\ payloads' = payloads + 1
  /\ A("RespFirst", 0)
  /\ UNCHANGED <<next, elem, sem, wg, grp, pending, cancelled>>

\* --- deferred group goroutines ---------------------------------------
GroupDone(g) ==
  /\ grp[g] = "running"
  /\ grp' = [grp EXCEPT ![g] = "sending"]
  /\ A("GroupDone", g)
  /\ UNCHANGED <<pc, next, elem, sem, wg, pending, cancelled, trans, payloads>>

\* repaired template: the sender also selects on the context
GroupAbort(g) ==
  /\ FixDefer /\ cancelled
  /\ grp[g] = "sending"
  /\ grp' = [grp EXCEPT ![g] = "aborted"]
  /\ A("GroupAbort", g)
  /\ UNCHANGED <<pc, next, elem, sem, wg, pending, cancelled, trans, payloads>>

\* --- transport and later calls of the response function ---------------
TransportCalls ==
  /\ trans = "between" /\ pc = "idle"
  /\ Transport = "drain"
  /\ trans' = "calling"
  /\ pc' = (IF pending > 0 THEN "recv" ELSE "nil")
  /\ A("TransportCalls", 0)
  /\ UNCHANGED <<next, elem, sem, wg, grp, pending, cancelled, payloads>>

\* rendezvous on the unbuffered channel
RespRecv(g) ==
  /\ pc = "recv" /\ grp[g] = "sending"
  /\ grp' = [grp EXCEPT ![g] = "sent"]
  /\ pending' = pending - 1
  /\ pc' = "idle" /\ trans' = "between" /\ payloads' = payloads + 1
  /\ A("RespRecv", g)
  /\ UNCHANGED <<next, elem, sem, wg, cancelled>>

\* repaired template: the receiver also selects on the context
RespRecvCancelled ==
  /\ FixDefer /\ cancelled
  /\ pc = "recv"
  /\ pc' = "nil"
  /\ A("RespRecvCancelled", 0)
  /\ UNCHANGED <<next, elem, sem, wg, grp, pending, cancelled, trans, payloads>>

\* the response function returned nil: the transport finishes; or a
\* single-response transport leaves after the first payload. Either way the
\* request has ended and net/http (or the transport) cancels its context.
TransportLeaves ==
  /\ \/ (trans = "calling" /\ pc = "nil")
     \/ (trans = "between" /\ Transport = "one")
  /\ trans' = "left"
  /\ cancelled' = TRUE
  /\ A("TransportLeaves", 0)
  /\ UNCHANGED <<pc, next, elem, sem, wg, grp, pending, payloads>>

Cancel ==
  /\ ~cancelled
  /\ cancelled' = TRUE
  /\ A("Cancel", 0)
  /\ UNCHANGED <<pc, next, elem, sem, wg, grp, pending, trans, payloads>>

Next ==
  \/ Spawn \/ AcquireFails \/ LoopEnd \/ WaitReturns \/ RespFirst
  \/ \E i \in Elems : ResolverStarts(i) \/ ResolverReturns(i)
  \/ \E g \in Groups : StartGroup(g) \/ GroupDone(g) \/ GroupAbort(g) \/ RespRecv(g)
  \/ TransportCalls \/ RespRecvCancelled \/ TransportLeaves
  \/ Cancel

\* gqlgen's own steps and (by the property's assumption) resolvers are fair; Cancel is not.
Fairness ==
  /\ WF_vars(Spawn) /\ WF_vars(AcquireFails) /\ WF_vars(LoopEnd) /\ WF_vars(WaitReturns) /\ WF_vars(RespFirst)
  /\ \A i \in Elems : WF_vars(ResolverStarts(i)) /\ WF_vars(ResolverReturns(i))
  /\ \A g \in Groups : WF_vars(StartGroup(g)) /\ WF_vars(GroupDone(g)) /\ WF_vars(GroupAbort(g)) /\ WF_vars(RespRecv(g))
  /\ WF_vars(TransportCalls) /\ WF_vars(RespRecvCancelled) /\ WF_vars(TransportLeaves)

Spec == Init /\ [][Next]_vars /\ Fairness

TypeOK ==
  /\ pc \in {"loop", "wait", "first", "idle", "recv", "nil"}
  /\ next \in 1..(N + 1)
  /\ elem \in [Elems -> {"todo", "spawned", "running", "done", "skipped"}]
  /\ sem \in 0..WL /\ wg \in 0..N
  /\ pending \in 0..G
  /\ trans \in {"calling", "between", "left"}

\* permits are never over-subscribed
SemOK == WL > 0 => Cardinality({i \in Elems : elem[i] \in {"spawned", "running"}}) + sem = WL

\* C05, first sentence: every call of the response function returns
\* (the transport is never stuck inside a call).
Termination == [](trans = "calling" => <>(trans # "calling"))

\* C05, second sentence: after the request has ended (and its context is
\* cancelled) no goroutine started on its behalf stays alive.
Live == (\E i \in Elems : elem[i] \in {"spawned", "running"}) \/ (\E g \in Groups : grp[g] \in {"running", "sending"})
NoLeak == [](trans = "left" => <>(~Live))

\* the request always ends
Ends == <>(trans = "left")

\* labelled edges of the state graph for replay into the real code
EmitEdge ==
  PrintT(ToJson([s |-> [pc |-> pc, next |-> next, elem |-> elem, sem |-> sem, wg |-> wg, grp |-> grp,
                        pending |-> pending, c |-> cancelled, trans |-> trans],
                 a |-> act',
                 t |-> [pc |-> pc', next |-> next', elem |-> elem', sem |-> sem', wg |-> wg', grp |-> grp',
                        pending |-> pending', c |-> cancelled', trans |-> trans']]))
=============================================================================
