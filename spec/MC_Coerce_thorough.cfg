\* C02, thorough tier. Object values deviate from the base object in <= 3 fields (Devs = 3).
\* One run checks the theorems on every case and prints shapes + grid + cases (-workers 1).
\* Measured: 90,749 cases (42 shapes), 181,498 distinct states, depth 2; 1 worker 330-400 s.
CONSTANTS
  Devs = 3
  Emit = TRUE
SPECIFICATION Spec
INVARIANTS Thm_Idem Thm_Wrap Thm_Default Thm_Numeric Thm_Shape Thm_Dfl
ACTION_CONSTRAINT EmitEdge
CHECK_DEADLOCK FALSE
