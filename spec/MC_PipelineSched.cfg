\* C03 / Pipeline: export of all interleavings of the cache operations of two
\* concurrent requests (repaired rule model; the cache steps are the same in
\* every rule model) for replay against the real executor: one extension,
\* caches {none, map, lru1, lru2}, 7 request classes (incl. "invalid by another rule").  No VIEW: the order of
\* cache operations (glog) distinguishes behaviours.  Needs -workers 1.
\* Measured: 1 488 distinct behaviours printed, about 5 s (1 worker).
SPECIFICATION MCSpec
CONSTANTS
  Reqs = {1, 2}
  RuleModel = "config"
  Fuse = TRUE
  ExtChoice = "one"
  ReqChoice = "sched"
  TrChoice = "direct"
CONSTRAINT Export
INVARIANTS TypeOK I1 I2
