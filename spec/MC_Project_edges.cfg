\* Project.tla as the PINNED TREE behaves (Dev = all named deviations): prints every labelled edge of the
\* projected state graph (-workers 1, ACTION_CONSTRAINT EmitEdge, CONSTRAINT EmitInit) for replay into the real
\* generator; quick tier of C19. 2 resolver fields (Query.f1, T.g) x 2 schema files x 2 edit records (b1 + directive
\* doc + named / b2c) x helpers {hc, hr = method on the root resolver struct} x imports {alias, asfx, arsv} used by f1 x
\* root struct customisation {rf} x both resolver layouts, start = generated project with both fields in a.graphqls,
\* histories <= 3.
\* Measured: 1 939 states, 4 878 edges, 4 035 covering histories -> prefix tree 5 217 edges, 311 Generate runs, 9 s
\* (before root struct / hr: 1 315 states, 3 341 edges, 243 Generate runs).
INIT Init
NEXT Next
CONSTANTS
  Files <- MCFiles
  FileOrder <- MCFileOrder
  Pairs <- MCPairs2
  TypeOf <- MCTypeOf2
  RootTypes <- MCRoot
  Edits <- MCEditsQ
  EncToks <- MCEncQ
  HelperToks <- MCHelpersQ
  ImportToks <- MCImportsQ3
  CmtToks <- MCCmt
  NeverPruned <- MCNever
  RootToks <- MCRootQ
  Cfgs <- MCCfgs
  ImpPairs <- MCImpQ
  InitSchemas <- MCInit2P
  MaxHist = 3
  Dev <- MCCurDevs
VIEW View
INVARIANTS TypeOK SchemaOK LayoutOK GenerateTotal
PROPERTIES MethodsKeptND FilesParseND Deterministic
ACTION_CONSTRAINT EmitEdge
CONSTRAINT EmitInit
CHECK_DEADLOCK FALSE
