\* C18: Project.tla as the pinned tree behaves, ALL FOUR (resolver layout x exec layout) combinations without autobind
\* + two configurations whose autobind list contains the model output package (follow/single/hand, single/follow/model);
\* labelled edges for the multi-process replay. 2 resolver fields, 2 edit records, helper {h}, import {alias}, root
\* struct customisation {rf}, histories <= 4 (so that the state after a Generate at depth 3 still has its own Generate
\* edge = the idempotence prediction).
\* Round 5: + (single, single, exec): autobind lists the exec package, schema types Config / ResolverRoot.
\* Measured: 10 164 states, 31 113 edges, 7 initial states, 21 s (6 configurations: 9 708 / 29 433; 4 configurations,
\* no root struct: 4 528 / 13 846, 7 s).
INIT Init
NEXT Next
CONSTANTS
  Files <- MCFiles
  FileOrder <- MCFileOrder
  Pairs <- MCPairs2
  TypeOf <- MCTypeOf2
  RootTypes <- MCRoot
  Edits <- MCEdits
  EncToks <- MCEncNone
  HelperToks <- MCHelpersH
  ImportToks <- MCImportsA
  CmtToks <- MCCmt
  NeverPruned <- MCNever
  RootToks <- MCRootQ
  Cfgs <- MCCfgsC18
  ImpPairs <- MCImpQ
  InitSchemas <- MCInit2P
  MaxHist = 4
  Dev <- MCCurDevs
VIEW View
INVARIANTS TypeOK SchemaOK LayoutOK GenerateTotal
PROPERTIES MethodsKeptND FilesParseND Deterministic
ACTION_CONSTRAINT EmitEdge
CONSTRAINT EmitInit
CHECK_DEADLOCK FALSE
