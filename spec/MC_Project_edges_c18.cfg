\* C18: Project.tla as the pinned tree behaves, ALL FOUR (resolver layout x exec layout) combinations; labelled
\* edges for the multi-process replay. 2 resolver fields, 2 edit records, helper {h}, import {alias}, histories <= 4
\* (so that the state after a Generate at depth 3 still has its own Generate edge = the idempotence prediction).
\* Measured: 4 528 states, 13 846 edges (1 328 Generate edges), 7 s.
INIT Init
NEXT Next
CONSTANTS
  Files <- MCFiles
  FileOrder <- MCFileOrder
  Pairs <- MCPairs2
  TypeOf <- MCTypeOf2
  RootTypes <- MCRoot
  Edits <- MCEdits
  EncToks <- MCEncNone
  HelperToks <- MCHelpersH
  ImportToks <- MCImportsA
  CmtToks <- MCCmt
  NeverPruned <- MCNever
  RootToks <- MCRootQ
  Cfgs <- MCCfgsC18
  ImpPairs <- MCImpQ
  InitSchemas <- MCInit2P
  MaxHist = 4
  Dev <- MCCurDevs
VIEW View
INVARIANTS TypeOK SchemaOK LayoutOK GenerateTotal
PROPERTIES MethodsKeptND FilesParseND Deterministic
ACTION_CONSTRAINT EmitEdge
CONSTRAINT EmitInit
CHECK_DEADLOCK FALSE
