\* Entities (C20), the pinned tree (Fix* = FALSE): TLC proves that the generated algorithm
\* violates the property in the four named situations only (CorrectModuloKnown), for every
\* list of length 0..MaxLen over Alphabet x outcomes (<= MaxFaults faults) x schedules.
\* The driver overrides Alphabet / MaxLen / MaxFaults / ReqInline per run (see cmd/c20/main.go);
\* measured with the constants below: 18,250 distinct states (30,634 generated), 4 s (before the @requires-value kinds; unchanged for this alphabet);
\* MC_Entities_fixed.cfg: 21,184; MC_Entities_emit.cfg (order in the state): 25,080 states, 1,414 behaviours.
\* Round 4 (several @requires paths, types P / Pm, per-slot values `ps`): quick-tier exports rp1 (26 kinds <= 1, both
\* ReqInline values) 1,003 states / 131 behaviours each, rp2 (7 kinds <= 2) 11,394 / 707, rp3 (3 Pm kinds <= 3).
SPECIFICATION Spec
CONSTANTS
  MaxLen = 3
  Alphabet = {"S", "Mid", "Malt", "T0"}
  Outcomes = {"ent", "nil", "err", "panic"}
  BatchOutcomes = {"ok", "short", "long", "err", "panic"}
  MaxFaults = 1
  ReqInline = TRUE
  FixFirstRep = FALSE
  FixShort = FALSE
  FixNilReq = FALSE
  FixBadReq = FALSE
  FixBadKey = FALSE
VIEW view
INVARIANTS TypeOK OwnIndexOnly CorrectModuloKnown
CHECK_DEADLOCK FALSE
