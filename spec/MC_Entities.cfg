\* Entities (C20), the pinned tree (Fix* = FALSE): TLC proves that the generated algorithm
\* violates the property in the four named situations only (CorrectModuloKnown), for every
\* list of length 0..MaxLen over Alphabet x outcomes (<= MaxFaults faults) x schedules.
\* The driver overrides Alphabet / MaxLen / MaxFaults / ReqInline per run (see cmd/c20/main.go);
\* measured with the constants below: 89,539 distinct states, 4 s.
SPECIFICATION Spec
CONSTANTS
  MaxLen = 3
  Alphabet = {"S", "Mid", "Malt", "T0"}
  Outcomes = {"ent", "nil", "err", "panic"}
  BatchOutcomes = {"ok", "short", "long", "err", "panic"}
  MaxFaults = 1
  ReqInline = TRUE
  FixFirstRep = FALSE
  FixShort = FALSE
  FixNilReq = FALSE
VIEW view
INVARIANTS TypeOK OwnIndexOnly CorrectModuloKnown
CHECK_DEADLOCK FALSE
