-------------------------------- MODULE Lru --------------------------------
(***************************************************************************)
(* graphql/handler/lru as a state machine (property C15).                  *)
(*                                                                         *)
(* C15 rests on the cache: "a hash-only request executes exactly the text  *)
(* previously sent together with that same hash" can only hold if          *)
(*     Get(k) returns exactly the value most recently Added under k,       *)
(*     or a miss - never a value that was Added under another key,         *)
(* at every point of every history, in particular when the cache is FULL   *)
(* and Add evicts.  That is the PROPERTY level of this module (GetLatest,  *)
(* GetOwn).  The IMPLEMENTATION level is the exact behaviour of the        *)
(* hashicorp LRU wrapped by lru.New (operators of LruOps): capacity,       *)
(* which entry leaves (the least recently used one), Get and Add refresh   *)
(* recency.  The real lru.New[string](n) is driven through every edge of   *)
(* this machine's state graph (and long random histories), observed only   *)
(* through Get / Add:  a difference in hit/miss or recency order is        *)
(* implementation-level drift; a Get returning a value that was never      *)
(* Added under that key is a violation of C15 (LruTrace.tla).              *)
(*                                                                         *)
(* State: cap (capacity of this instance), ord / val (see LruOps),         *)
(* history variables last (the value most recently Added under each key,   *)
(* Miss if none ever was; survives eviction) and added (every <<key,       *)
(* value>> pair ever Added), edge label lbl.                               *)
(***************************************************************************)
EXTENDS LruOps

CONSTANTS
  \* @type: Set(Str);
  Keys,
  \* @type: Set(Str);
  Vals,
  \* @type: Set(Int);
  Caps

Miss == "-"       \* Get found nothing / no victim / unused label field

ASSUME LruConstOK ==
  /\ Miss \notin Keys /\ Miss \notin Vals
  /\ Caps \subseteq Nat \ {0} /\ Caps # {}

VARIABLES
  \* @type: Int;
  cap,
  \* @type: Seq(Str);
  ord,
  \* @type: Str -> Str;
  val,
  \* @type: Str -> Str;
  last,
  \* @type: Set(<<Str, Str>>);
  added,
  \* @type: { op: Str, k: Str, v: Str, res: Str, ev: Str };
  lbl

lvars == <<cap, ord, val, last, added, lbl>>

Lbl(op, k, v, res, ev) == [op |-> op, k |-> k, v |-> v, res |-> res, ev |-> ev]

\* Add(k, v), split by the three paths of the code (same relation LruIsAdd)
AddCommon(k, v) ==
  /\ LruIsAdd(ord, val, cap, k, v, ord', val')
  /\ last' = [last EXCEPT ![k] = v]
  /\ added' = added \cup {<<k, v>>}
  /\ lbl' = Lbl("add", k, v, Miss, IF LruEvicts(ord, k, cap) THEN LruVictim(ord, k) ELSE Miss)
  /\ UNCHANGED cap
AddUpdate(k, v) == k \in DOMAIN val /\ AddCommon(k, v)                         \* overwrite + promote
AddInsert(k, v) == k \notin DOMAIN val /\ Len(ord) < cap /\ AddCommon(k, v)    \* room left
AddEvict(k, v)  == k \notin DOMAIN val /\ Len(ord) >= cap /\ AddCommon(k, v)   \* full: the LRU entry leaves

GetHit(k) ==
  /\ k \in DOMAIN val
  /\ LruIsGet(ord, val, k, ord', val')
  /\ lbl' = Lbl("get", k, Miss, val[k], Miss)
  /\ UNCHANGED <<cap, last, added>>
GetMiss(k) ==
  /\ k \notin DOMAIN val
  /\ LruIsGet(ord, val, k, ord', val')
  /\ lbl' = Lbl("get", k, Miss, Miss, Miss)
  /\ UNCHANGED <<cap, last, added>>

LruNext ==
  \/ \E k \in Keys, v \in Vals : AddUpdate(k, v) \/ AddInsert(k, v) \/ AddEvict(k, v)
  \/ \E k \in Keys : GetHit(k) \/ GetMiss(k)

\* the step a given operation takes (trace specification; total and deterministic)
LruDo(op, k, v) ==
  \/ op = "add" /\ (AddUpdate(k, v) \/ AddInsert(k, v) \/ AddEvict(k, v))
  \/ op = "get" /\ (GetHit(k) \/ GetMiss(k))

LruInitState(c) ==
  /\ cap = c
  /\ ord = <<>>
  /\ val = [k \in {} |-> Miss]
  /\ last = [k \in Keys |-> Miss]
  /\ added = {}
  /\ lbl = Lbl("init", Miss, Miss, Miss, Miss)
LruInit == \E c \in Caps : LruInitState(c)

LruSpec == LruInit /\ [][LruNext]_lvars

----------------------------------------------------------------------------
(* PROPERTY level: what C15 needs from any implementation of the cache *)

\* every binding is the value most recently Added under that key ...
Latest == \A k \in DOMAIN val : val[k] = last[k]
\* ... so a Get returns exactly that value, or a miss
GetLatest == lbl.op = "get" => lbl.res \in {Miss, last[lbl.k]}
\* ... and in particular never a value that was not Added under that very key
GetOwn == (lbl.op = "get" /\ lbl.res # Miss) => <<lbl.k, lbl.res>> \in added
Own    == \A k \in DOMAIN val : <<k, val[k]>> \in added
\* a key that was never Added misses
NeverAddedMisses == \A k \in Keys : last[k] = Miss => k \notin DOMAIN val

(* IMPLEMENTATION level: the hashicorp LRU *)
LruTypeOK ==
  /\ cap \in Caps
  /\ DOMAIN val \subseteq Keys
  /\ \A k \in DOMAIN val : val[k] \in Vals
  /\ last \in [Keys -> Vals \cup {Miss}]
  /\ added \subseteq Keys \X Vals
\* size <= N, index and recency list agree
SizeOK == LruWellFormed(ord, val, cap)
\* an evicted key misses; only a full cache evicts, and only its least recently used entry;
\* the key just added or found is the most recently used one
EvictStep ==
  /\ lbl'.ev # Miss =>
       /\ lbl'.op = "add"
       /\ lbl'.ev \notin DOMAIN val'
       /\ Len(ord) = cap /\ lbl'.ev = ord[Len(ord)]
       /\ lbl'.k \notin DOMAIN val
  /\ lbl'.ev = Miss => DOMAIN val \subseteq DOMAIN val'
  /\ (lbl'.op = "add" \/ lbl'.res # Miss) => ord'[1] = lbl'.k
  /\ \A k \in DOMAIN val \cap DOMAIN val' : k # lbl'.k => val'[k] = val[k]
EvictOK == [][EvictStep]_lvars
=============================================================================
