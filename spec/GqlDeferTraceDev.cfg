\* deviation-tolerant configuration: used only to keep checking the rest of a
\* trace that contains the known undeliverable-payload deviation
SPECIFICATION TraceSpec
CONSTANT Schema <- SchemaFile
CONSTANT AllowUndeliverable = TRUE
CONSTRAINT HighWater
INVARIANT TypeOK
POSTCONDITION TraceAccepted
CHECK_DEADLOCK FALSE
CONSTANT LeafElemErrAtList = TRUE
