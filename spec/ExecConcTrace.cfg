SPECIFICATION TraceSpec
CONSTANTS
  N = 3
  WL = 1
  G = 1
  Transport = "drain"
  FixAcquire = TRUE
  FixDefer = TRUE
CONSTRAINT HighWater
INVARIANTS TypeOK SemOK
POSTCONDITION TraceAccepted
CHECK_DEADLOCK FALSE
