---------------------------- MODULE ComplexityGate ----------------------------
(***************************************************************************)
(* C14, history dimension of the gate.  One server (with or without a      *)
(* query cache of parsed documents) receives a SEQUENCE of requests that   *)
(* carry the same query text but different variable values and limits.     *)
(* The text selects fields whose argument x is the request variable $n;    *)
(* the cost functions read it (child + x, x * (1 + child)), so the         *)
(* complexity of the same parsed operation differs from request to         *)
(* request.  The specification decides every request from                  *)
(* (operation, variables of THIS request, limit of THIS request) only:     *)
(* the cache of parsed documents is state of the server, but no decision   *)
(* reads it.  The driver replays every maximal history on one real         *)
(* handler.Server (SetQueryCache: none / graphql.MapCache / lru / lru of   *)
(* size 1) and judges each request against its own record.                 *)
(*                                                                         *)
(* THE REQUEST CONTEXT (Mode = "ctx").  A request carries a context that   *)
(* is live or done (cancelled, or its deadline has passed) - it may be     *)
(* done before the request is priced, and it may BECOME done while the     *)
(* operation is priced: custom complexity functions are user code, they    *)
(* run in the middle of pricing and anything can happen meanwhile (the     *)
(* harness lets the k-th call of a custom function cancel the context,     *)
(* which places the cancellation deterministically).  A request is then    *)
(* three kinds of step: Arrive (with a live or done context), PriceCall    *)
(* (one custom function runs; the context may become done), Decide.  The   *)
(* specification HAS the context as state (rctx) and records where it      *)
(* became done (cp, k) - and no decision reads it: complexity.Calculate    *)
(* has no error result, so the number it returns is the complexity of the  *)
(* operation whatever the context does, and an operation over the limit    *)
(* reaches no resolver whatever the context does.                          *)
(***************************************************************************)
EXTENDS Complexity

CONSTANTS MaxReqs, CacheKinds,
          Mode         \* "hist": requests are atomic, their context is live (the history dimension);
                       \* "ctx" : requests are priced call by call and their context may be / become done

VARIABLES cachekind,   \* "none" | "map" | "lru" | "lru1"
          cached,      \* the parsed document of the query text is in the server's query cache
          hist,        \* the requests so far, with the decision the specification prescribes
          vdef,        \* the declaration of $n: "none" = `$n: Int`, "big" = `$n: Int = 100` (then a request
                       \* WITHOUT variables is the expensive one)
          rctx,        \* the context of the request in flight: "idle" (no request) | "live" | "done"
          infl,        \* the request in flight [c, rel, cp, k] (cp/k: where its context became done) or NoReq
          ncalled      \* custom complexity functions called so far while the request in flight is priced
gvars == <<pc, tree, asg, out, bnd, cachekind, cached, hist, vdef, rctx, infl, ncalled>>
CtxMode == Mode = "ctx"

V(name) == Fld(name, "var", <<>>)
SpV == Frag("spread", "A", <<V("arg")>>)
HistTrees == {
  << V("withArgs") >>,
  << Fld("a", "none", <<V("arg"), L("id")>>) >>,
  << Fld("a", "none", <<SpV>>), Fld("node", "none", <<SpV>>) >>,      \* one fragment, spread twice, reading $n
  << Fld("a", "none", <<Fld("kid", "none", <<V("arg")>>)>>), V("withArgs") >>
}
\* Mode "ctx": operations that call several custom functions, so that "the context becomes done in the k-th
\* call" leaves selections unpriced behind it - below a nested field, between root fields, through two shared
\* ComplexityRoot entries, below one fragment spread under an object and under an interface field
CtxTrees == {
  << Fld("a", "none", <<V("arg"), L("id")>>), V("withArgs"), L("s") >>,
  << Fld("a", "none", <<Fld("kid", "none", <<V("arg")>>)>>), V("withArgs") >>,
  << Fld("sh", "none", <<Fld("items", "var", <<L("id")>>), Fld("new_bar", "var", <<L("id")>>)>>) >>,
  << Fld("a", "none", <<SpV>>), Fld("node", "none", <<SpV>>) >>
}
GTrees == IF CtxMode THEN CtxTrees ELSE HistTrees
OtherTree == << L("s") >>    \* a different query text (evicts the document from an lru of size 1)

RECURSIVE Bind(_, _)
\* the operation as request variables {n: class c} make it
Bind(sels, c) ==
  IF sels = <<>> THEN <<>>
  ELSE <<[Head(sels) EXCEPT !.ax = (IF @ = "var" THEN c ELSE @), !.sels = Bind(@, c)]>> \o Bind(Tail(sels), c)

HistAsgs(t) ==
  LET S  == Slots("Query", t, 1)
      AS == {sl \in S : sl.arg}
      OS == {sl \in S : ~sl.arg}
      base == {{[slot |-> sl.slot, fn |-> f] : sl \in AS} : f \in (IF CtxMode THEN {Fn("arg", Zero, 0)}
                                                                    ELSE {Fn("arg", Zero, 0), Fn("argmul", Zero, 0)})}
  IN  base \cup {b \cup {[slot |-> sl.slot, fn |-> g]} : b \in base, sl \in OS,
                                                        g \in {Fn("mul", Zero, 2), Fn("add", N(0, 2), 0)}}

Classes == IF CtxMode THEN {"set"} ELSE {"none", "set", "big"}     \* $n absent from the request, 3, 100
VDefs   == IF CtxMode THEN {"none"} ELSE {"none", "big"}
\* how a request's context is when the request arrives
PreStates == IF CtxMode THEN {"live", "cancelled", "deadline"} ELSE {"live"}

RECURSIVE NCalls(_, _, _)
\* how many times pricing the operation calls a configured custom complexity function (the points at which the
\* context can become done "during pricing"): once per field selection whose entry has a function, for a field
\* of an interface once per possible object type whose entry has one; every spread of a fragment counts again
NCalls(a, tn, sels) ==
  IF sels = <<>> THEN 0
  ELSE LET s == Head(sels)
           own == IF s.k = "field"
                  THEN (IF s.name \in Meta THEN 0
                        ELSE LET fd  == Schema[tn].fields[s.name]
                                 sub == IF IsComposite(fd.type) THEN NCalls(a, fd.type, s.sels) ELSE 0
                                 me  == IF Schema[tn].kind = "INTERFACE"
                                        THEN Cardinality({p \in Range(Schema[tn].possible) : CustomOf(a, p, s.name).k # "none"})
                                        ELSE (IF CustomOf(a, tn, s.name).k # "none" THEN 1 ELSE 0)
                             IN  sub + me)
                  ELSE NCalls(a, OnType(tn, s), s.sels)
       IN  own + NCalls(a, tn, Tail(sels))
Eff(c) == IF c = "none" THEN vdef ELSE c          \* an absent variable takes its default, if declared
CxOf(c) == Cx(asg, Bind(tree, Eff(c)))
\* limits at the boundary of THIS request's complexity: any stale complexity from another request flips one of them
\* THE decision.  cp / k (where the request's context became done: "live" = never, "cancelled" / "deadline" =
\* before pricing, "during" = in the k-th call of a custom complexity function) are recorded and NOT read.
Req(c, rel, cp, k) ==
  LET cx  == CxOf(c)
      lim == IF rel = "below" THEN NPlus(cx, N(0, -1)) ELSE cx
      d   == Decide(cx, lim, tree)
  IN  [other |-> FALSE, c |-> c, x |-> ArgOfClass(Eff(c)), lim |-> lim, cx |-> cx, rej |-> d.rej, runs |-> d.runs,
       cp |-> cp, k |-> k]
OtherReq ==
  LET cx == Cx(asg, OtherTree) IN [other |-> TRUE, c |-> "none", x |-> 0, lim |-> cx, cx |-> cx, rej |-> FALSE,
                                   runs |-> RootFields(OtherTree), cp |-> "live", k |-> 0]

NoReq == [c |-> "", rel |-> "", cp |-> "", k |-> 0]
GInit == /\ pc = "hist" /\ bnd = Binding /\ tree \in GTrees /\ asg \in HistAsgs(tree) /\ out = NoOut
         /\ cachekind \in CacheKinds /\ cached = FALSE /\ hist = <<>> /\ vdef \in VDefs
         /\ rctx = "idle" /\ infl = NoReq /\ ncalled = 0

\* Mode "hist": a request with a live context, priced and decided in one step
Request(c, rel) ==
  /\ ~CtxMode
  /\ Len(hist) < MaxReqs
  /\ hist' = Append(hist, Req(c, rel, "live", 0))
  /\ cached' = (cachekind # "none")          \* parseQuery adds the document on a miss
  /\ UNCHANGED <<pc, tree, asg, out, bnd, cachekind, vdef, rctx, infl, ncalled>>

\* Mode "ctx": the request arrives with a live or an already done context ...
Arrive(c, rel, pre) ==
  /\ CtxMode /\ infl = NoReq /\ Len(hist) < MaxReqs
  /\ infl' = [c |-> c, rel |-> rel, cp |-> pre, k |-> 0]
  /\ rctx' = (IF pre = "live" THEN "live" ELSE "done")
  /\ ncalled' = 0
  /\ UNCHANGED <<pc, tree, asg, out, bnd, cachekind, cached, hist, vdef>>
\* ... is priced: one custom complexity function (user code) runs; meanwhile the context may become done ...
PriceCall(cancel) ==
  /\ infl # NoReq /\ ncalled < NCalls(asg, "Query", tree)
  /\ (cancel => rctx = "live")
  /\ ncalled' = ncalled + 1
  /\ rctx' = (IF cancel THEN "done" ELSE rctx)
  /\ infl' = (IF cancel THEN [infl EXCEPT !.cp = "during", !.k = ncalled + 1] ELSE infl)
  /\ UNCHANGED <<pc, tree, asg, out, bnd, cachekind, cached, hist, vdef>>
\* ... and decided when everything is priced - by Req, which has no context parameter
DecideReq ==
  /\ infl # NoReq /\ ncalled = NCalls(asg, "Query", tree)
  /\ hist' = Append(hist, Req(infl.c, infl.rel, infl.cp, infl.k))
  /\ cached' = (cachekind # "none")
  /\ infl' = NoReq /\ rctx' = "idle" /\ ncalled' = 0
  /\ UNCHANGED <<pc, tree, asg, out, bnd, cachekind, vdef>>

\* a request with another query text between two requests of interest
Other ==
  /\ Len(hist) >= 1 /\ Len(hist) < MaxReqs - 1
  /\ ~hist[Len(hist)].other
  /\ ~CtxMode
  /\ hist' = Append(hist, OtherReq)
  /\ cached' = (IF cachekind = "lru1" THEN FALSE ELSE cached)
  /\ UNCHANGED <<pc, tree, asg, out, bnd, cachekind, vdef, rctx, infl, ncalled>>

GNext == \/ \E c \in Classes, rel \in {"below", "at"} : Request(c, rel) \/ (\E pre \in PreStates : Arrive(c, rel, pre))
         \/ Other \/ PriceCall(TRUE) \/ PriceCall(FALSE) \/ DecideReq
GSpec == GInit /\ [][GNext]_gvars

\* The gate decision of request i is Gate(Cx(op, vars_i), limit_i) - whatever was served before,
\* whether or not the parsed document came from the cache.
GateIndependent ==
  \A i \in 1..Len(hist) :
    LET r == hist[i] IN
      /\ ~r.other => /\ r.cx = Cx(asg, Bind(tree, Eff(r.c)))
                     /\ r.rej = NLt(r.lim, r.cx)
      /\ \A j \in 1..Len(hist) : (hist[j].other = r.other /\ hist[j].c = r.c /\ hist[j].lim = r.lim) => hist[j].rej = r.rej
CacheInv == cached => cachekind # "none"
\* THE CONTEXT THEOREMS.  (1) The complexity recorded for a request is the complexity of (operation, variables)
\* wherever and whenever its context became done; two requests that differ only in that get the same number
\* and the same decision.  (2) A request over the limit runs no resolver, whatever the context did.
CtxIndependent ==
  \A i \in 1..Len(hist), j \in 1..Len(hist) :
     (hist[i].other = hist[j].other /\ hist[i].c = hist[j].c) =>
        /\ hist[i].cx = hist[j].cx
        /\ (hist[i].lim = hist[j].lim => hist[i].rej = hist[j].rej /\ hist[i].runs = hist[j].runs)
OverLimitRunsNothing == \A i \in 1..Len(hist) : hist[i].rej => hist[i].runs = {}
CtxInv == /\ (rctx = "idle") = (infl = NoReq)
          /\ ncalled \in 0..NCalls(asg, "Query", tree)
          /\ infl # NoReq => /\ (rctx = "live") = (infl.cp = "live")
                             /\ (infl.cp = "during") => infl.k \in 1..ncalled
          /\ (~CtxMode) => rctx = "idle"
          /\ \A i \in 1..Len(hist) : hist[i].cp = "during" => hist[i].k \in 1..NCalls(asg, "Query", tree)
\* non-vacuity of the "ctx" corpus: every operation calls at least two custom functions
TCtxCalls == CtxMode => NCalls(asg, "Query", tree) >= 2
\* the cost functions that read the argument are monotone in it
TArgMono == /\ NLe(Cx(asg, Bind(tree, "none")), CxOf("set")) /\ NLe(CxOf("set"), CxOf("big"))
            /\ (vdef = "big" => CxOf("none") = CxOf("big"))
\* non-vacuity of the corpus: the variable really changes the complexity
TArgMatters == CxOf("set") # CxOf("big") /\ CxOf("none") # CxOf("set")

EmitHist == (Emit /\ Len(hist') = MaxReqs) =>
  PrintT(ToJson([sels |-> tree, costs |-> asg, cache |-> cachekind, ndefault |-> (IF vdef = "big" THEN BigArg ELSE -1),
                  hist |-> hist']))
=============================================================================
