---------------------------- MODULE ComplexityGate ----------------------------
(***************************************************************************)
(* C14, history dimension of the gate.  One server (with or without a      *)
(* query cache of parsed documents) receives a SEQUENCE of requests that   *)
(* carry the same query text but different variable values and limits.     *)
(* The text selects fields whose argument x is the request variable $n;    *)
(* the cost functions read it (child + x, x * (1 + child)), so the         *)
(* complexity of the same parsed operation differs from request to         *)
(* request.  The specification decides every request from                  *)
(* (operation, variables of THIS request, limit of THIS request) only:     *)
(* the cache of parsed documents is state of the server, but no decision   *)
(* reads it.  The driver replays every maximal history on one real         *)
(* handler.Server (SetQueryCache: none / graphql.MapCache / lru / lru of   *)
(* size 1) and judges each request against its own record.                 *)
(***************************************************************************)
EXTENDS Complexity

CONSTANTS MaxReqs, CacheKinds

VARIABLES cachekind,   \* "none" | "map" | "lru" | "lru1"
          cached,      \* the parsed document of the query text is in the server's query cache
          hist,        \* the requests so far, with the decision the specification prescribes
          vdef         \* the declaration of $n: "none" = `$n: Int`, "big" = `$n: Int = 100` (then a request
                       \* WITHOUT variables is the expensive one)
gvars == <<pc, tree, asg, out, bnd, cachekind, cached, hist, vdef>>

V(name) == Fld(name, "var", <<>>)
SpV == Frag("spread", "A", <<V("arg")>>)
HistTrees == {
  << V("withArgs") >>,
  << Fld("a", "none", <<V("arg"), L("id")>>) >>,
  << Fld("a", "none", <<SpV>>), Fld("node", "none", <<SpV>>) >>,      \* one fragment, spread twice, reading $n
  << Fld("a", "none", <<Fld("kid", "none", <<V("arg")>>)>>), V("withArgs") >>
}
OtherTree == << L("s") >>    \* a different query text (evicts the document from an lru of size 1)

RECURSIVE Bind(_, _)
\* the operation as request variables {n: class c} make it
Bind(sels, c) ==
  IF sels = <<>> THEN <<>>
  ELSE <<[Head(sels) EXCEPT !.ax = (IF @ = "var" THEN c ELSE @), !.sels = Bind(@, c)]>> \o Bind(Tail(sels), c)

HistAsgs(t) ==
  LET S  == Slots("Query", t, 1)
      AS == {sl \in S : sl.arg}
      OS == {sl \in S : ~sl.arg}
      base == {{[slot |-> sl.slot, fn |-> f] : sl \in AS} : f \in {Fn("arg", Zero, 0), Fn("argmul", Zero, 0)}}
  IN  base \cup {b \cup {[slot |-> sl.slot, fn |-> g]} : b \in base, sl \in OS,
                                                        g \in {Fn("mul", Zero, 2), Fn("add", N(0, 2), 0)}}

Classes == {"none", "set", "big"}     \* $n absent from the request, 3, 100
Eff(c) == IF c = "none" THEN vdef ELSE c          \* an absent variable takes its default, if declared
CxOf(c) == Cx(asg, Bind(tree, Eff(c)))
\* limits at the boundary of THIS request's complexity: any stale complexity from another request flips one of them
Req(c, rel) ==
  LET cx  == CxOf(c)
      lim == IF rel = "below" THEN NPlus(cx, N(0, -1)) ELSE cx
      d   == Decide(cx, lim, tree)
  IN  [other |-> FALSE, c |-> c, x |-> ArgOfClass(Eff(c)), lim |-> lim, cx |-> cx, rej |-> d.rej]
OtherReq ==
  LET cx == Cx(asg, OtherTree) IN [other |-> TRUE, c |-> "none", x |-> 0, lim |-> cx, cx |-> cx, rej |-> FALSE]

GInit == /\ pc = "hist" /\ bnd = Binding /\ tree \in HistTrees /\ asg \in HistAsgs(tree) /\ out = NoOut
         /\ cachekind \in CacheKinds /\ cached = FALSE /\ hist = <<>> /\ vdef \in {"none", "big"}

Request(c, rel) ==
  /\ Len(hist) < MaxReqs
  /\ hist' = Append(hist, Req(c, rel))
  /\ cached' = (cachekind # "none")          \* parseQuery adds the document on a miss
  /\ UNCHANGED <<pc, tree, asg, out, bnd, cachekind, vdef>>

\* a request with another query text between two requests of interest
Other ==
  /\ Len(hist) >= 1 /\ Len(hist) < MaxReqs - 1
  /\ ~hist[Len(hist)].other
  /\ hist' = Append(hist, OtherReq)
  /\ cached' = (IF cachekind = "lru1" THEN FALSE ELSE cached)
  /\ UNCHANGED <<pc, tree, asg, out, bnd, cachekind, vdef>>

GNext == (\E c \in Classes, rel \in {"below", "at"} : Request(c, rel)) \/ Other
GSpec == GInit /\ [][GNext]_gvars

\* The gate decision of request i is Gate(Cx(op, vars_i), limit_i) - whatever was served before,
\* whether or not the parsed document came from the cache.
GateIndependent ==
  \A i \in 1..Len(hist) :
    LET r == hist[i] IN
      /\ ~r.other => /\ r.cx = Cx(asg, Bind(tree, Eff(r.c)))
                     /\ r.rej = NLt(r.lim, r.cx)
      /\ \A j \in 1..Len(hist) : (hist[j].other = r.other /\ hist[j].c = r.c /\ hist[j].lim = r.lim) => hist[j].rej = r.rej
CacheInv == cached => cachekind # "none"
\* the cost functions that read the argument are monotone in it
TArgMono == /\ NLe(Cx(asg, Bind(tree, "none")), CxOf("set")) /\ NLe(CxOf("set"), CxOf("big"))
            /\ (vdef = "big" => CxOf("none") = CxOf("big"))
\* non-vacuity of the corpus: the variable really changes the complexity
TArgMatters == CxOf("set") # CxOf("big") /\ CxOf("none") # CxOf("set")

EmitHist == (Emit /\ Len(hist') = MaxReqs) =>
  PrintT(ToJson([sels |-> tree, costs |-> asg, cache |-> cachekind, ndefault |-> (IF vdef = "big" THEN BigArg ELSE -1),
                  hist |-> hist']))
=============================================================================
