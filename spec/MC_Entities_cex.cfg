\* Entities (C20), the pinned tree checked against the property itself: this run MUST FAIL
\* (regression of the specification: TLC exhibits the counterexamples of DESIGN 7 #13 etc.).
SPECIFICATION Spec
CONSTANTS
  MaxLen = 3
  Alphabet = {"S", "Mid", "Malt", "T0"}
  Outcomes = {"ent", "nil", "err", "panic"}
  BatchOutcomes = {"ok", "short", "long", "err", "panic"}
  MaxFaults = 1
  ReqInline = TRUE
  FixFirstRep = FALSE
  FixShort = FALSE
  FixNilReq = FALSE
  FixBadReq = FALSE
  FixBadKey = FALSE
VIEW view
INVARIANTS TypeOK OwnIndexOnly Correct
CHECK_DEADLOCK FALSE
