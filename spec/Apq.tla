-------------------------------- MODULE Apq --------------------------------
(***************************************************************************)
(* Automatic persisted queries of gqlgen (property C15).                   *)
(*                                                                         *)
(* Code modelled: graphql/handler/extension/apq.go                         *)
(* (AutomaticPersistedQuery.MutateOperationParameters), the two Cache      *)
(* implementations graphql/cache.go (MapCache) and graphql/handler/lru     *)
(* (hashicorp LRU: Get refreshes recency, Add refreshes or inserts and     *)
(* evicts the least recently used entry when over capacity), and the part  *)
(* of graphql/executor/executor.go that calls the mutator and then parses  *)
(* the resulting query text.                                               *)
(*                                                                         *)
(* The LRU is the machine of Lru.tla: its operators live in LruOps.tla and *)
(* are used here unchanged, and CacheIsLru (checked by TLC) states that    *)
(* every step of this machine with kind = "lru" performs exactly the cache *)
(* operations it logs: none, one Get or one Add of that machine with that  *)
(* machine's result - so what Lru.tla establishes for the cache            *)
(* (a Get returns the value most recently Added under that very key or a   *)
(* miss, also when the cache is full and evicts) carries over.             *)
(*                                                                         *)
(* One action per request form.  A request performs AT MOST ONE operation  *)
(* on the shared cache (a Get when the query string is empty, an Add after *)
(* the hash comparison succeeded), so the request's linearization point is *)
(* that single cache operation and an atomic action per request is exact   *)
(* also for concurrent requests (the LRU is mutex protected).  Inside an   *)
(* action the steps are written in the order of the code:                  *)
(*   decode extension -> version check -> (empty query ? lookup            *)
(*                                          : compare hash, then store)    *)
(*   -> hand the query text to the executor (parse / validate / execute).  *)
(*                                                                         *)
(* Every action yields the outcome `out`:                                  *)
(*   submit : the query text handed to the executor after the extension,   *)
(*            or None when the request was answered before that;           *)
(*   exec   : the text whose operation was executed, None if none was;     *)
(*   class  : "data" | "parse" | "noop" (after submission)                 *)
(*            "notfound" | "mismatch" | "invalid" | "version" (by apq.go)  *)
(*            "decode" (by the transport, executor never reached);         *)
(*   ops    : the cache operations performed, in order, with their result. *)
(*                                                                         *)
(* Two levels.  Next is the implementation-level machine (deterministic    *)
(* per request): it generates the tours replayed into the real code and is *)
(* compared exactly; a difference that stays inside the property is only   *)
(* counted as implementation-level drift.  PropRules / PropRel is the      *)
(* PROPERTY level: a permissive relation between a request, what was       *)
(* observed and the cache before / after, which says only what C15 states. *)
(* TLC checks ImplConforms (every step of Next satisfies PropRel); the     *)
(* verdict on the real code is PropRel evaluated by TLC on the recorded    *)
(* behaviour (ApqPropTrace).                                               *)
(***************************************************************************)
EXTENDS LruOps   \* (Integers, Sequences, FiniteSets + the LRU operators)

CONSTANTS
  \* @type: Set(Str);
  Texts,          \* non-empty query texts of the alphabet (valid or not)
  \* @type: Set(Str);
  Valid,          \* the texts that parse and validate against the schema
  \* @type: Str -> Str;
  HashOf,         \* Text -> HashValue: the TRUE SHA-256 on the alphabet (who is whose pre-image)
  \* @type: Str -> Str;
  ImplHash,       \* Text -> HashValue: what computeQueryHash computes; the property needs ImplHash = HashOf
  \* @type: Set(Str);
  AltHashes,      \* other spellings of text hashes a client may send (upper-case hex)
  \* @type: Str -> Str;
  CanonOf,        \* AltHashes -> the hash value they spell
  \* @type: Set(Str);
  WrongHashes,    \* hashes no text of the alphabet hashes to (random hex, empty, ...)
  \* @type: Set(Str);
  Kinds,          \* cache implementations explored, subset of {"map", "lru"}
  \* @type: Set(Int);
  Caps,           \* LRU capacities explored
  \* @type: Set(Str);
  MalKinds,       \* ways extensions.persistedQuery fails to decode into {sha256Hash, version}
  \* @type: Set(Str);
  MalWithHash,    \* the subset of MalKinds whose payload still carries a sha256Hash
  \* @type: Set(Str);
  BadVers,        \* version values other than 1 ("2", "0", "absent", ...)
  \* @type: Bool;
  History         \* TRUE: maintain the history variable `sent` (bigger state space)

NoText == ""      \* absent or empty query string
EmptyHash == "x:empty"  \* the hash seen when sha256Hash is absent or ""
None   == "-"     \* nothing handed to the executor / Get missed / unused request field

(***************************************************************************)
(* The hash abstraction, explicit.  A hash VALUE is an opaque string; the  *)
(* model never computes SHA-256, it is given                               *)
(*   HashOf   : Texts -> HashValue, the true digest.  It is INJECTIVE on   *)
(*              the alphabet (ConstOK): the alphabet contains NEAR-TWINS - *)
(*              texts a lossy normalisation would identify (CR inserted,   *)
(*              CRLF vs LF, trailing newline, BOM, outer spaces, tab vs    *)
(*              space, a CR that ends a comment, unicode escape vs literal)*)
(*              - and SHA-256 tells every twin from the other;             *)
(*   ImplHash : Texts -> HashValue, what the code compares the client's    *)
(*              hash with.  C15 holds iff ImplHash = HashOf; with a        *)
(*              non-injective ImplHash (twins collide) Bound and           *)
(*              ImplConforms are violated (MC_ApqTwin_neg.cfg must be      *)
(*              refuted by TLC);                                           *)
(*   AltHashes / CanonOf : other SPELLINGS of a digest (upper-case hex).   *)
(*              The code compares strings exactly, so at the               *)
(*              implementation level a spelling is just another wrong      *)
(*              hash; at the property level a server may treat it as the   *)
(*              digest it spells, as long as the text bound is that        *)
(*              digest's pre-image (Canon).                                *)
(***************************************************************************)
TextHashes == {HashOf[t] : t \in Texts}
Hashes     == TextHashes \cup WrongHashes \cup AltHashes
\* @type: (Str) => Str;
Canon(h)   == IF h \in AltHashes THEN CanonOf[h] ELSE h
AnyText    == Texts \cup {NoText}

ASSUME ConstOK ==
  /\ Valid \subseteq Texts
  /\ NoText \notin Texts /\ None \notin Texts /\ None \notin Hashes
  /\ DOMAIN HashOf = Texts
  /\ \A a, b \in Texts : HashOf[a] = HashOf[b] => a = b      \* injective on the alphabet
  /\ WrongHashes \cap TextHashes = {}
  /\ DOMAIN ImplHash = Texts
  /\ AltHashes \cap (TextHashes \cup WrongHashes) = {} /\ None \notin AltHashes
  /\ DOMAIN CanonOf = AltHashes /\ \A h \in AltHashes : CanonOf[h] \in TextHashes
  /\ Kinds \subseteq {"map", "lru"} /\ Kinds # {}
  /\ Caps \subseteq Nat \ {0} /\ Caps # {}
  /\ MalWithHash \subseteq MalKinds
  /\ "1" \notin BadVers
  /\ History \in BOOLEAN

VARIABLES
  \* @type: Str;
  kind,     \* "map" | "lru": which Cache implementation this server was built with
  \* @type: Int;
  cap,      \* LRU capacity (0 for the map)
  \* @type: Str -> Str;
  cache,    \* the APQ cache: partial function Hash -> Text
  \* @type: Seq(Str);
  order,    \* LRU recency order of DOMAIN cache, most recently used first (<<>> for the map)
  \* @type: Set(<<Str, Str>>);
  sent,     \* history: <<hash, text>> pairs sent together in a well-formed version-1 request
  \* @type: { text: Str, ext: Str, ver: Str, hash: Str, mal: Str };
  act,      \* the last request (edge label)
  \* @type: { submit: Str, exec: Str, class: Str, ops: Seq({ op: Str, h: Str, t: Str }) };
  out       \* its outcome

vars  == <<kind, cap, cache, order, sent, act, out>>
state == <<kind, cap, cache, order>>          \* what the real server holds

Req(text, ext, ver, hash, mal) ==
  [text |-> text, ext |-> ext, ver |-> ver, hash |-> hash, mal |-> mal]
\* exec: the text whose operation was really executed (None unless class = "data")
Out(submit, class, ops) ==
  [submit |-> submit, exec |-> IF class = "data" THEN submit ELSE "-", class |-> class, ops |-> ops]
OpGet(h, t) == [op |-> "get", h |-> h, t |-> t]
OpAdd(h, t) == [op |-> "add", h |-> h, t |-> t]
\* @type: Seq({ op: Str, h: Str, t: Str });
NoOps == <<>>

----------------------------------------------------------------------------
(* The cache implementations *)

Hit(k) == k \in DOMAIN cache

\* Cache.Get(k): the LRU moves a found key to the front; the map does nothing.
OrderAfterGet(k) == IF kind = "lru" THEN LruOrderAfterGet(cache, order, k) ELSE order

\* Cache.Add(k, v): insert or overwrite; the LRU moves k to the front and,
\* when over capacity, removes the entry at the back (LruOps).
Evicts(k)        == kind = "lru" /\ LruEvicts(order, k, cap)
Victim(k)        == LruVictim(order, k)
OrderAfterAdd(k) == IF kind = "lru" THEN LruOrderAfterAdd(order, k, cap) ELSE order
DomAfterAdd(k)   == IF kind = "lru" THEN LruDomAfterAdd(DOMAIN cache, order, k, cap) ELSE DOMAIN cache \cup {k}
CacheAfterAdd(k, v) == [h \in DomAfterAdd(k) |-> IF h = k THEN v ELSE cache[h]]

----------------------------------------------------------------------------
(* The executor after the extension: executor.go CreateOperationContext    *)
(* parses and validates params.Query, whatever put it there.               *)
ExecClass(t) == IF t = NoText THEN "noop" ELSE IF t \in Valid THEN "data" ELSE "parse"

\* history: every <<hash, text>> pair a client sent together in one request
\* (whatever the version spelling, whether or not the hash matches)
\* @type: (Set(<<Str, Str>>), { text: Str, ext: Str, ver: Str, hash: Str, mal: Str }) => Set(<<Str, Str>>);
SentAfter(s, r) == IF r.text # NoText /\ r.hash # None THEN s \cup {<<r.hash, r.text>>} ELSE s
Respond(r, submit, class, ops) ==
  /\ act' = r
  /\ out' = Out(submit, class, ops)
  /\ sent' = (IF History THEN SentAfter(sent, r) ELSE sent)
NoCacheOp == UNCHANGED <<cache, order>>
Frame     == UNCHANGED <<kind, cap>>

----------------------------------------------------------------------------
(* Request forms *)

\* No persistedQuery entry (no extensions, extensions null / {} / other keys,
\* "persistedQuery": null): apq.go returns nil at once, the text (possibly
\* empty) goes to the executor untouched.
TextOnly(t, e) ==
  /\ e \in {"none", "null"}
  /\ Respond(Req(t, e, None, None, None), t, ExecClass(t), NoOps)
  /\ NoCacheOp /\ Frame

\* The transport cannot decode the request (extensions is not an object,
\* body is not JSON): answered by the transport, the executor is not reached.
Undecodable(t) ==
  /\ Respond(Req(t, "undecodable", None, None, None), None, "decode", NoOps)
  /\ NoCacheOp /\ Frame

\* persistedQuery is present but does not decode (wrong type, version not an
\* integer, hash not a string): "invalid APQ extension data".
Malformed(t, m, h) ==
  /\ Respond(Req(t, "malformed", None, h, m), None, "invalid", NoOps)
  /\ NoCacheOp /\ Frame

\* version # 1: "unsupported APQ version", before any look at hash or cache.
WrongVersion(t, v, h) ==
  /\ Respond(Req(t, "pq", v, h, None), None, "version", NoOps)
  /\ NoCacheOp /\ Frame

\* Well-formed version 1, empty query: look the hash up.
HashOnlyHit(h) ==
  /\ Hit(h)
  /\ Respond(Req(NoText, "pq", "1", h, None), cache[h], ExecClass(cache[h]), <<OpGet(h, cache[h])>>)
  /\ order' = OrderAfterGet(h)
  /\ UNCHANGED cache /\ Frame

HashOnlyMiss(h) ==
  /\ ~Hit(h)
  /\ Respond(Req(NoText, "pq", "1", h, None), None, "notfound", <<OpGet(h, None)>>)
  /\ NoCacheOp /\ Frame

\* Well-formed version 1 with query text: compare first ...
TextHashMismatch(t, h) ==
  /\ ImplHash[t] # h
  /\ Respond(Req(t, "pq", "1", h, None), None, "mismatch", NoOps)
  /\ NoCacheOp /\ Frame

\* ... then store (also when the text will turn out not to parse: the store
\* happens before the executor sees the text), then execute the text sent.
\* (the key is the hash the client supplied, which the comparison found equal
\* to ImplHash[t])
TextHashOK(t) ==
  /\ Respond(Req(t, "pq", "1", ImplHash[t], None), t, ExecClass(t), <<OpAdd(ImplHash[t], t)>>)
  /\ cache' = CacheAfterAdd(ImplHash[t], t)
  /\ order' = OrderAfterAdd(ImplHash[t])
  /\ Frame

MalHashes(m) == IF m \in MalWithHash THEN Hashes ELSE {None}

Next ==
  \/ \E t \in AnyText, e \in {"none", "null"} : TextOnly(t, e)
  \/ \E t \in AnyText : Undecodable(t)
  \/ \E t \in AnyText, m \in MalKinds : \E h \in MalHashes(m) : Malformed(t, m, h)
  \/ \E t \in AnyText, v \in BadVers, h \in Hashes : WrongVersion(t, v, h)
  \/ \E h \in Hashes : HashOnlyHit(h)
  \/ \E h \in Hashes : HashOnlyMiss(h)
  \/ \E t \in Texts, h \in Hashes : TextHashMismatch(t, h)
  \/ \E t \in Texts : TextHashOK(t)

\* The action a given request record takes (used by the trace specification).
\* @type: ({ text: Str, ext: Str, ver: Str, hash: Str, mal: Str }) => Bool;
ReqOK(r) ==
  /\ r.text \in AnyText
  /\ r.ext \in {"none", "null", "undecodable", "malformed", "pq"}
  /\ r.hash \in Hashes \cup {None}
\* @type: ({ text: Str, ext: Str, ver: Str, hash: Str, mal: Str }) => Bool;
Step(r) ==
  /\ ReqOK(r)
  /\ \/ r.ext \in {"none", "null"} /\ TextOnly(r.text, r.ext)
     \/ r.ext = "undecodable" /\ Undecodable(r.text)
     \/ r.ext = "malformed" /\ r.mal \in MalKinds /\ Malformed(r.text, r.mal, r.hash)
     \/ r.ext = "pq" /\ r.ver # "1" /\ r.hash \in Hashes /\ WrongVersion(r.text, r.ver, r.hash)
     \/ r.ext = "pq" /\ r.ver = "1" /\ r.text = NoText /\ r.hash \in Hashes
          /\ (HashOnlyHit(r.hash) \/ HashOnlyMiss(r.hash))
     \/ r.ext = "pq" /\ r.ver = "1" /\ r.text # NoText /\ r.hash \in Hashes
          /\ ((r.hash = ImplHash[r.text] /\ TextHashOK(r.text)) \/ TextHashMismatch(r.text, r.hash))
  /\ act' = r

InitState(k, c) ==
  /\ kind = k /\ cap = c
  /\ cache = [h \in {} |-> NoText]
  /\ order = <<>>
  /\ sent = {}
  /\ act = Req(NoText, "init", None, None, None)
  /\ out = Out(None, "init", NoOps)

Init == \E k \in Kinds : \E c \in (IF k = "map" THEN {0} ELSE Caps) : InitState(k, c)

Spec == Init /\ [][Next]_vars

----------------------------------------------------------------------------
(* Property level: what C15 states *)

\* The cache binds a hash only to the text that hashes to it.
\* (HashOf, the true digest: the text bound is the PRE-IMAGE of the key)
Bound == \A h \in DOMAIN cache : cache[h] \in Texts /\ HashOf[cache[h]] = Canon(h)

\* Everything in the cache was sent by some client together with that hash.
WasSent == History => \A h \in DOMAIN cache : <<h, cache[h]>> \in sent

\* The LRU bookkeeping is consistent (implementation level).
LruOK ==
  /\ kind = "map" => order = <<>>
  /\ kind = "lru" => LruWellFormed(order, cache, cap)

\* The "lru" cache of this machine IS the machine of Lru.tla (composition): a
\* request that logs no cache operation leaves the cache alone, one that logs
\* a Get / an Add takes exactly that step of the Lru machine, and the logged
\* Get result is what that machine returns.
CacheStepIsLru ==
  kind = "lru" =>
     LET ops == out'.ops IN
     \/ Len(ops) = 0 /\ UNCHANGED <<order, cache>>
     \/ /\ Len(ops) = 1 /\ ops[1].op = "get"
        /\ LruIsGet(order, cache, ops[1].h, order', cache')
        /\ ops[1].t = (IF ops[1].h \in DOMAIN cache THEN cache[ops[1].h] ELSE None)
     \/ /\ Len(ops) = 1 /\ ops[1].op = "add"
        /\ LruIsAdd(order, cache, cap, ops[1].h, ops[1].t, order', cache')
CacheIsLru == [][CacheStepIsLru]_vars

TypeOK ==
  /\ kind \in Kinds
  /\ cap \in Caps \cup {0}
  /\ DOMAIN cache \subseteq Hashes
  /\ \A h \in DOMAIN cache : cache[h] \in Texts
  /\ sent \subseteq Hashes \X Texts

\* @type: ({ text: Str, ext: Str, ver: Str, hash: Str, mal: Str }) => Bool;
WellFormedV1(r) == r.ext = "pq" /\ r.ver = "1"

(* The property-level relation.  Arguments: cache c and history s before   *)
(* the request, the request r, the observed outcome o, whether the request *)
(* changed the cache contents, cache c2 and history s2 after it.  It is    *)
(* deliberately silent about: recency / eviction policy and capacity,      *)
(* which cache operations are performed, whether a correct request is      *)
(* served or registered at all (and when), the error class or wording of   *)
(* a rejection, which version spellings are accepted, how an absent        *)
(* sha256Hash is treated.                                                  *)
HashOK(h, t) == t \in Texts /\ HashOf[t] = Canon(h)
\* t was sent together with (some spelling of) the digest h spells
\* @type: (Set(<<Str, Str>>), Str, Str) => Bool;
SentWith(s, h, t) == \E p \in s : Canon(p[1]) = Canon(h) /\ p[2] = t
\* @type: (Set(<<Str, Str>>), Str, Str) => Bool;
SentOK(s, h, t) == HashOK(h, t) /\ (History => SentWith(s, h, t))
Rejecting == {"mismatch", "invalid", "version", "decode", "notfound", "apqreject"}

\* (1) Bound: every entry binds a hash to a text that hashes to it
\* @type: (Str -> Str) => Bool;
RBound(c2) == \A h \in DOMAIN c2 : HashOK(h, c2[h])

\* (2) a hash-only request executes a text previously sent together with
\* that same hash (and hashing to it), or is answered PersistedQueryNotFound
\* @type: (Set(<<Str, Str>>), { text: Str, ext: Str, ver: Str, hash: Str, mal: Str }, { submit: Str, exec: Str, class: Str, ops: Seq({ op: Str, h: Str, t: Str }) }) => Bool;
RHashOnly(s, r, o) ==
  (WellFormedV1(r) /\ r.text = NoText /\ r.hash # EmptyHash) =>
     \/ (o.submit # None /\ SentOK(s, r.hash, o.submit))
     \/ (o.submit = None /\ o.exec = None /\ o.class = "notfound")

\* whatever reaches the executor is the text this request carried, or a text
\* previously sent with the hash it carried, or the empty query of a request
\* that is not a well-formed hash-only request
\* @type: (Set(<<Str, Str>>), { text: Str, ext: Str, ver: Str, hash: Str, mal: Str }, { submit: Str, exec: Str, class: Str, ops: Seq({ op: Str, h: Str, t: Str }) }) => Bool;
RSubmit(s, r, o) ==
  o.submit # None =>
     \/ (r.text # NoText /\ o.submit = r.text)
     \/ (r.text = NoText /\ r.hash # None /\ SentOK(s, r.hash, o.submit))
     \/ (r.text = NoText /\ o.submit = NoText /\ ~(WellFormedV1(r) /\ r.hash # EmptyHash))

\* what is executed is what was handed to the executor
\* @type: ({ submit: Str, exec: Str, class: Str, ops: Seq({ op: Str, h: Str, t: Str }) }) => Bool;
RExec(o) == o.exec # None => o.exec = o.submit

\* (3) a request whose text does not match its hash is rejected, executes
\* nothing and does not change the cache contents
\* @type: ({ text: Str, ext: Str, ver: Str, hash: Str, mal: Str }, { submit: Str, exec: Str, class: Str, ops: Seq({ op: Str, h: Str, t: Str }) }, Bool) => Bool;
RMismatch(r, o, changed) ==
  (r.ext = "pq" /\ r.text # NoText /\ r.hash # EmptyHash /\ ~HashOK(r.hash, r.text)) =>
     /\ o.submit = None /\ o.exec = None
     /\ o.class \in Rejecting
     /\ ~changed

\* (4) no registration that no request asked for: every entry's pair was sent
\* together by some request (with (1): by a text + correct hash request)
\* @type: (Str -> Str, { text: Str, ext: Str, ver: Str, hash: Str, mal: Str }, Str -> Str, Set(<<Str, Str>>)) => Bool;
RRegister(c, r, c2, s2) ==
  \A h \in DOMAIN c2 :
     IF History THEN SentWith(s2, h, c2[h])
     ELSE (h \in DOMAIN c /\ c2[h] = c[h]) \/ (Canon(h) = Canon(r.hash) /\ c2[h] = r.text)

PropRules(c, s, r, o, changed, c2, s2) ==
  [bound    |-> RBound(c2),
   hashonly |-> RHashOnly(s, r, o),
   submit   |-> RSubmit(s, r, o),
   exec     |-> RExec(o),
   mismatch |-> RMismatch(r, o, changed),
   register |-> RRegister(c, r, c2, s2)]

PropRel(c, s, r, o, changed, c2, s2) ==
  /\ RBound(c2) /\ RHashOnly(s, r, o) /\ RSubmit(s, r, o) /\ RExec(o)
  /\ RMismatch(r, o, changed) /\ RRegister(c, r, c2, s2)

\* the implementation-level machine stays inside the property
PropStep == PropRel(cache, sent, act', out', cache' # cache, cache', sent')
ImplConforms == [][PropStep]_vars
StepOK == ImplConforms

\* implementation level only (not part of the verdict): the cache is read
\* only by hash-only requests, a mismatch does not even refresh recency
ImplExtra ==
  /\ (\E i \in DOMAIN out'.ops : out'.ops[i].op = "get") => (WellFormedV1(act') /\ act'.text = NoText)
  /\ (out'.class = "mismatch" => order' = order)
ImplExtraOK == [][ImplExtra]_vars

----------------------------------------------------------------------------
(* Inductive invariant (Apalache: --init=IndInit --inv=IndInv --length=1)  *)
(* Bound does not depend on history length: it is preserved by every       *)
(* action from ANY state satisfying it, for any cache implementation       *)
(* state that is well-formed.                                              *)
IndInv == TypeOK /\ Bound /\ WasSent /\ LruOK
=============================================================================
