\* (thorough tier: the same corpus with TMonotone and TGateMono)
\* C14, ONE operation selects the same INTERFACE field several times (theorems + emission, -workers 1):
\* interface Box {id, items(x): A, inner: Box} with the object implementors Shelf and Archive; occurrences of
\* Box.items / Box.inner that differ in the argument (3 / 100 / absent) and in the children's cost, as siblings
\* (aliases), below two selections of the parent, inside a named fragment (before / after, spread twice), inside an
\* inline fragment, nested below Box.inner, three times - every context in BOTH orders (sibling order is input here,
\* the concretiser keeps it) x {no custom cost, one entry, two entries} from {const 50, child*3, child+x, x*(1+child)}
\* on Shelf.items / Archive.items and {const 50, child*2, child+50} on Shelf.inner / Archive.inner, plus 5 designated
\* assignments on 3-4 entries (both implementor pairs at once, a multiplier above, a cost below).
\* Theorems: TOccMax (each occurrence = max over ITS implementors), TOccIndep (every selection set costs the sum of
\* its members priced alone), TPerm (order of siblings irrelevant) + the usual ones.
\* (TMonotone and TGateMono - the expensive ones, every deletion of every tree - are checked on this corpus by
\* MC_Complexity_iface_thorough.cfg in the thorough tier.)
\* Measured: 64 trees, 2,802 inputs, 5,668 distinct states, depth 3; 1 worker ~20-25 s (54 s with TMonotone/TGateMono).
CONSTANTS
  MaxH = 2
  MaxD = 1
  MaxSize = 3
  MaxCustom = 2
  Corpus = "iface"
  Emit = TRUE
SPECIFICATION Spec
ACTION_CONSTRAINT EmitEdge
INVARIANTS TRange TDBounded TChildren TMonotone TGateMono TPerm TFragment TDouble TGate TBindState TOccMax TOccIndep
CHECK_DEADLOCK FALSE
