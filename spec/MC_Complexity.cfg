\* C14, quick tier, theorems (no output; several workers).  Symbolic machine integers: MAX = 2*H+1 = [2,1]  (Go: H = 2^62-1, MAX = math.MaxInt).
\* All operations with <= 3 selection nodes x {no custom cost, one slot, two slots, all slots uniform}.
\* Measured: 253 trees, 27,097 (tree, costs) inputs, 54,447 distinct states, depth 3; 2 workers ~15 s (round 4: + TOccIndep).
\* Operations that select ONE interface field several times: MC_Complexity_iface.cfg.
CONSTANTS
  MaxH = 2
  MaxD = 1
  MaxSize = 3
  MaxCustom = 2
  Corpus = "gen"
  Emit = FALSE
SPECIFICATION Spec
INVARIANTS TRange TDSmall TChildren TMonotone TPerm TFragment TDouble TGate TGateMono TBindState TOccIndep
CHECK_DEADLOCK FALSE
