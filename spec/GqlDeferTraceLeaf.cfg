SPECIFICATION TraceSpec
CONSTANT Schema <- SchemaFile
CONSTANT AllowUndeliverable = FALSE
CONSTRAINT HighWater
INVARIANT TypeOK
POSTCONDITION TraceAccepted
CHECK_DEADLOCK FALSE
CONSTANT LeafElemErrAtList = TRUE
