\* NEGATIVE configuration (property-level relation only): MC_ApqTwin.cfg with a NON-INJECTIVE implementation hash
\* (ImplHash[q1x] = HashOf[q1]: the twins collide, as with a hash computed over a
\* normalised text).  TLC MUST report ImplConforms violated (PropRel, the relation the verdict on the real code uses: rules mismatch + bound;
\* q1x sent with h:q1 is accepted and registered); the driver treats "no error" as INFRA.
SPECIFICATION Spec
CONSTANTS
  Texts <- WTexts
  Valid <- WTexts
  HashOf <- WHash
  ImplHash <- LossyHash
  AltHashes <- Alt1
  CanonOf <- Canon1
  WrongHashes <- Wrong1
  Kinds <- BothKinds
  Caps <- Caps12W
  MalKinds <- NoneOf
  MalWithHash <- NoneOf
  BadVers <- NoneOf
  History = FALSE
INVARIANTS TypeOK LruOK
PROPERTIES ImplConforms
CHECK_DEADLOCK FALSE
