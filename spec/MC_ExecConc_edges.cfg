\* like MC_ExecConc but prints every labelled edge (-workers 1) and checks no liveness
INIT Init
NEXT Next
CONSTANTS
  N = 3
  WL = 1
  G = 1
  Transport = "drain"
  FixAcquire = TRUE
  FixDefer = TRUE
VIEW view
INVARIANTS TypeOK SemOK
ACTION_CONSTRAINT EmitEdge
CHECK_DEADLOCK FALSE
