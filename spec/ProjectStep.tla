----------------------------- MODULE ProjectStep -----------------------------
(***************************************************************************)
(* Property-level VERDICT for steps observed on the real generator (C19,   *)
(* C18).  The harness records every replayed step as one ndjson line       *)
(*   [id, pre, a, post]                                                    *)
(* pre  = the abstract project state before the step (resolver part =      *)
(*        go/parser projection of the real tree, schema / dirty = the      *)
(*        harness's own bookkeeping of the user edits it performed),       *)
(* a    = the action (a user edit or Generate),                            *)
(* post = the projection of the real tree after the step (+ compile        *)
(*        result where it was built).                                      *)
(* Init picks one line and loads `pre` into the variables of Project.      *)
(*   - user edit: the Project action itself is taken; the line reports     *)
(*     whether the real tree projects onto the successor (harness          *)
(*     self-check, never a verdict about gqlgen);                          *)
(*   - Generate: NOTHING is assumed about the successor.  The line reports *)
(*       viol      the statements' postconditions (Project!Holds) that the *)
(*                 observed post record violates - empty = accepted,       *)
(*                 whatever a model of the implementation predicted;       *)
(*       explained / D   the smallest set of named deviations D with       *)
(*                 GenResult(D) = observed (resolver part), if any;        *)
(*       blame     per violated property the members of D without which    *)
(*                 it would hold (the finding keys of the violation);      *)
(*       idealEq   observed = successor of the intended design (drift      *)
(*                 statistics only).                                       *)
(***************************************************************************)
EXTENDS Project

VARIABLES idx, out

Steps == ndJsonDeserialize("steps.ndjson")

SetOf(seq) == {seq[i] : i \in DOMAIN seq}
CvMeth(m)  == [body |-> m.body, doc |-> m.doc, named |-> m.named, uses |-> SetOf(m.uses)]
CvWarn(w)  == [k |-> w.k, id |-> w.id, body |-> w.body, named |-> w.named, uses |-> SetOf(w.uses)]
CvMethAll(j) == [f \in RFiles |-> [p \in Pairs |-> CvMeth(j[f][p])]]
CvSets(j)    == [f \in RFiles |-> SetOf(j[f])]
CvWarnAll(j) == [f \in RFiles |-> {CvWarn(j[f][i]) : i \in DOMAIN j[f]}]
CvPost(j)    == [meth |-> CvMethAll(j.meth), root |-> j.root, helpers |-> CvSets(j.helpers), imports |-> CvSets(j.imports),
                 warn |-> CvWarnAll(j.warn), ok |-> j.ok, comp |-> j.comp]
CvEdit(e)    == [body |-> e.body, doc |-> e.doc, named |-> e.named]

StepInit ==
  /\ idx \in 1..Len(Steps)
  /\ LET j == Steps[idx].pre IN
     /\ schema  = [p \in Pairs |-> j.schema[p]]
     /\ texists = [t \in NonRoot |-> j.texists[t]]
     /\ cfg     = [rl |-> j.cfg.rl, el |-> j.cfg.el, ab |-> j.cfg.ab]
     /\ meth    = CvMethAll(j.meth)
     /\ root    = j.root
     /\ helpers = CvSets(j.helpers)
     /\ imports = CvSets(j.imports)
     /\ warn    = CvWarnAll(j.warn)
     /\ ok = j.ok /\ comp = j.comp /\ dirty = j.dirty
     /\ enc = [f \in RFiles |-> j.enc[f]]
  /\ gen = [s |-> schema, t |-> texists, c |-> cfg]
  /\ n = 0
  /\ act = [name |-> "Init"]
  /\ out = [id |-> "none"]

Judge(r) ==
  LET v   == Viol(r)
      Ds  == Explaining(r)
      D   == IF Ds = {} THEN {} ELSE Smallest(Ds)
  IN [id |-> Steps[idx].id, kind |-> "gen", viol |-> v, explained |-> (Ds # {}), D |-> D,
      blame |-> [name \in v |-> IF Ds = {} THEN {} ELSE Blame(name, D)],
      idealEq |-> (ResPart(GenResult({})) = ResPart(r))]

JudgeGenerate ==
  /\ idx > 0 /\ Steps[idx].a.name = "Generate"
  /\ out' = Judge(CvPost(Steps[idx].post))
  /\ PrintT(ToJson(out'))
  /\ idx' = 0
  /\ UNCHANGED vars

EditAction(a) ==
  \/ a.name = "EditBody"    /\ EditBody(a.f, a.p, CvEdit(a.e))
  \/ a.name = "AddHelper"   /\ AddHelper(a.f, a.h)
  \/ a.name = "AddImport"   /\ AddImport(a.f, a.p, a.i)
  \/ a.name = "Resave"      /\ Resave(a.f, a.en)
  \/ a.name = "EditRoot"    /\ EditRoot(a.rt)
  \/ a.name = "AddField"    /\ AddField(a.p, a.sf)
  \/ a.name = "RemoveField" /\ RemoveField(a.p)
  \/ a.name = "RenameField" /\ RenameField(a.p, a.q)
  \/ a.name = "MoveField"   /\ MoveField(a.p, a.sf)
  \/ a.name = "RemoveType"  /\ RemoveType(a.t)

JudgeEdit ==
  /\ idx > 0 /\ Steps[idx].a.name # "Generate"
  /\ EditAction(Steps[idx].a)
  /\ LET j == Steps[idx].post IN
     out' = [id |-> Steps[idx].id, kind |-> "edit",
             same |-> /\ meth' = CvMethAll(j.meth) /\ root' = j.root /\ helpers' = CvSets(j.helpers)
                      /\ imports' = CvSets(j.imports) /\ warn' = CvWarnAll(j.warn)
                      /\ schema' = [p \in Pairs |-> j.schema[p]] /\ dirty' = j.dirty
                      /\ enc' = [f \in RFiles |-> j.enc[f]]]
  /\ PrintT(ToJson(out'))
  /\ idx' = 0

StepNext == JudgeGenerate \/ JudgeEdit
=============================================================================
