------------------------------ MODULE Complexity ------------------------------
(***************************************************************************)
(* C14 - the complexity limit is a sound gate.                             *)
(*                                                                         *)
(* A function-shaped module: Init chooses an operation (selection tree     *)
(* over the abstract schema below), ChooseCosts chooses an assignment of   *)
(* custom cost functions to Type.field slots, Compute evaluates the        *)
(* DOCUMENTED definition of complexity                                     *)
(*                                                                         *)
(*   field     = custom(child, args) if defined and not below child,        *)
(*               else 1 (+) child                                          *)
(*   interface = max over the possible types of the field rule             *)
(*   fragment  = the cost of its selections                                *)
(*   __schema  = free                                                      *)
(*   (+)       = saturating at MAX, negative operands ignored              *)
(*                                                                         *)
(* and the gate decision for limits around the result.  EmitEdge prints    *)
(* every (operation, costs, Cx, gate) as JSON; the Go harness replays them *)
(* against complexity.Calculate and a real handler.Server.                 *)
(*                                                                         *)
(* Machine integers.  TLC integers are 32 bit, Go's int is 64 bit, so a    *)
(* number is the pair [h, d] standing for  h*H + d  where H is a HUGE      *)
(* unknown with MAX = 2*H + 1  (Go: H = (math.MaxInt-1)/2 = 2^62-1, so     *)
(* MAX = [2,1], MAX-1 = [2,0] = H+H, MIN = [-2,-2]).  Arithmetic and       *)
(* comparison are lexicographic, which is exact as long as every |d| that  *)
(* occurs is < H/2 - in the bounded model |d| < 100 (checked: DSmall).     *)
(* The lemma PairAlgebra (an ASSUME TLC evaluates) checks the pair algebra *)
(* against plain integers for the instance H = 1000.                       *)
(* With MaxH = 0 the same definitions are plain small integers with        *)
(* MAX = MaxD ("small" configuration): there sums of small costs really    *)
(* reach MAX, which no bounded tree can do with a 64 bit MAX; that         *)
(* configuration only checks the theorems, it is not replayed.             *)
(***************************************************************************)
EXTENDS Integers, Sequences, FiniteSets, TLC, Json

CONSTANTS MaxH, MaxD,   \* MAX = MaxH*H + MaxD   ([2,1] symbolic, [0,19] small)
          MaxSize,      \* selection nodes per operation
          MaxCustom,    \* 0..2: how many slots get an individually chosen cost function
          Corpus,       \* "gen": all trees up to MaxSize; "grid": the safeAdd boundary-grid operations;
                        \* "frag": one named fragment spread several times; "hist": see ComplexityGate;
                        \* "bind": operations through GraphQL fields that SHARE one ComplexityRoot entry
                        \*         + the Complexity(type, field) table of the whole schema
                        \* "iface": ONE operation selects the same field of an INTERFACE several times (aliases,
                        \*         fragments, nested) with different arguments / sub-selections, in both orders,
                        \*         under cost functions that make the most expensive implementor differ per occurrence
          Emit          \* print (input, outcome) pairs

VARIABLES pc, tree, asg, out,
          bnd           \* the binding: bnd[T][f] = the ComplexityRoot entry that serves the GraphQL field T.f
vars == <<pc, tree, asg, out, bnd>>

(***************************************************************************)
(* Numbers                                                                 *)
(***************************************************************************)
N(h, d) == [h |-> h, d |-> d]
Zero == N(0, 0)
One  == N(0, 1)
MAXN == N(MaxH, MaxD)
Symbolic == MaxH > 0
\* H, H+1: two operands whose sum is exactly MAX; H+H = MAX-1; (H+1)+(H+1) overflows
Half   == IF Symbolic THEN N(1, 0) ELSE N(0, (MaxD - 1) \div 2)
MinN   == N(0 - MaxH, 0 - MaxD - 1)               \* MIN = -MAX-1

NLt(a, b)  == a.h < b.h \/ (a.h = b.h /\ a.d < b.d)
NLe(a, b)  == ~NLt(b, a)
NPlus(a, b) == N(a.h + b.h, a.d + b.d)            \* exact (mathematical) addition
NTimes(a, k) == N(a.h * k, a.d * k)
NNeg(a)    == NLt(a, Zero)
NClampHi(a) == IF NLt(MAXN, a) THEN MAXN ELSE a
NMax2(a, b) == IF NLt(a, b) THEN b ELSE a

\* The lemma binding pairs to integers (instance H = 1000, MAX = 2001).
Ev(a) == a.h * 1000 + a.d
PairGrid == {N(h, d) : h \in -2..4, d \in -6..6}
PairAlgebra ==
  \A a \in PairGrid, b \in PairGrid :
     /\ Ev(NPlus(a, b)) = Ev(a) + Ev(b)
     /\ (NLt(a, b) <=> Ev(a) < Ev(b))
     /\ \A k \in 0..3 : Ev(NTimes(a, k)) = k * Ev(a)
ASSUME PairAlgebra

(***************************************************************************)
(* (+): the saturating add of the statement.  "anyNN" = both operands      *)
(* negative: the statement only says negative operands are ignored, the    *)
(* result is any non-negative number (the code answers 1); the theorem     *)
(* NoNegOperand shows that case is unreachable from Cx.                    *)
(***************************************************************************)
SAddSpec(a, b) ==
  IF NNeg(a) /\ NNeg(b) THEN [any |-> TRUE, v |-> Zero]
  ELSE IF NNeg(a) THEN [any |-> FALSE, v |-> b]
  ELSE IF NNeg(b) THEN [any |-> FALSE, v |-> a]
  ELSE [any |-> FALSE, v |-> NClampHi(NPlus(a, b))]

SAdd(a, b) ==
  IF NNeg(a) \/ NNeg(b)
  THEN Assert(FALSE, <<"NoNegOperand violated: a negative operand reached (+)", a, b>>)
  ELSE SAddSpec(a, b).v

\* theorems about (+) itself on the boundary grid (evaluated once, ASSUME)
SGrid == {Zero, One, N(0, 2), NPlus(Half, N(0, -1)), Half, NPlus(Half, One),
          NPlus(MAXN, N(0, -2)), NPlus(MAXN, N(0, -1)), MAXN,
          N(0, -1), N(0 - MaxH, 0 - MaxD), MinN}
SAddTheorems ==
  \A a \in SGrid, b \in SGrid :
    LET r == SAddSpec(a, b) IN
      /\ NLe(Zero, r.v) /\ NLe(r.v, MAXN)                                  \* range
      /\ (~NNeg(a) /\ ~NNeg(b)) =>
            /\ r.v = SAddSpec(b, a).v                                     \* commutative
            /\ NLe(a, r.v) /\ NLe(b, r.v)                                  \* monotone
            /\ (Symbolic => Ev(r.v) = (IF Ev(a) + Ev(b) > 2001 THEN 2001 ELSE Ev(a) + Ev(b)))
            /\ \A c \in SGrid : ~NNeg(c) =>                                \* associative
                  SAddSpec(r.v, c).v = SAddSpec(a, SAddSpec(b, c).v).v
      /\ (NNeg(a) /\ ~NNeg(b)) => r.v = b
      /\ (NNeg(b) /\ ~NNeg(a)) => r.v = a
ASSUME SAddTheorems

(***************************************************************************)
(* The abstract schema: a slice of the exec probe's schema, so the same    *)
(* operations run against the hand-written ExecutableSchema (SDL rendered  *)
(* from this record) and against generated servers.                        *)
(* `possible` of an interface lists what GetPossibleTypes returns: objects *)
(* AND interfaces implementing it (Named); an interface implementor can    *)
(* carry no custom cost function, so it always contributes the default.    *)
(*                                                                         *)
(* BINDING.  A custom cost function is not configured per GraphQL field    *)
(* but per ENTRY of the generated ComplexityRoot, and gqlgen makes one      *)
(* entry per Go field / method an object's GraphQL fields are bound to.     *)
(* A field record says which entry serves the field:                        *)
(*   bind = ""  : its own entry (named after the field)                     *)
(*   bind = "X" : the entry X of its type, shared with every other field    *)
(*                of the type that says X                                   *)
(*   how        : why - "yml" (gqlgen.yml models.T.fields.f.fieldName),     *)
(*                "gofield" (@goField(name:)), "collapse" (new_foo/newFoo   *)
(*                are one Go name), "natural" (the field whose own name is  *)
(*                X), "resolver" (a resolver-backed field whose Go name is  *)
(*                X), "resolver-own" (resolver-backed WITH a name mapping:  *)
(*                gqlgen ignores the mapping, the field keeps its own entry)*)
(*   ord        : position among the fields of its entry in declaration     *)
(*                order (1 = declared first)                                *)
(* Type Sh is the object with shared entries (probe: c.graphqls, extra.yml, *)
(* shmodel.go.in): Products = {products, items, stock} (a Go method with an *)
(* argument), Foo = {oneFoo, twoFoo} (a struct field), NewFoo = {new_foo,   *)
(* newFoo}, NewBar = {legacyBar, newBar (resolver-backed), new_bar}.        *)
(***************************************************************************)
FB(t, a, b, h, o) == [type |-> t, arg |-> a, bind |-> b, how |-> h, ord |-> o]
F(t, a) == FB(t, a, "", "", 1)
NoFields == [x \in {} |-> F("", FALSE)]
\* interface Box (probe: c.graphqls): its fields take an ARGUMENT (items(x)) and have COMPOSITE result types
\* (items: A, inner: Box), and it has two OBJECT implementors - so which implementor is the most expensive
\* depends on the occurrence (its argument, its children's cost), not on the field alone
BoxFields == [id |-> F("ID", FALSE), items |-> F("A", TRUE), inner |-> F("Box", FALSE)]
Schema == [
  Query |-> [kind |-> "OBJECT", impl |-> <<>>, possible |-> <<>>,
             fields |-> [a |-> F("A", FALSE), node |-> F("Node", FALSE), u |-> F("U", FALSE),
                         s |-> F("String", FALSE), withArgs |-> F("String", TRUE), sh |-> F("Sh", FALSE),
                         box |-> F("Box", FALSE)]],
  Box     |-> [kind |-> "INTERFACE", impl |-> <<>>, possible |-> <<"Archive", "Shelf">>, fields |-> BoxFields],
  Shelf   |-> [kind |-> "OBJECT", impl |-> <<"Box">>, possible |-> <<>>, fields |-> BoxFields],
  Archive |-> [kind |-> "OBJECT", impl |-> <<"Box">>, possible |-> <<>>, fields |-> BoxFields],
  Node  |-> [kind |-> "INTERFACE", impl |-> <<>>, possible |-> <<"Named", "A", "B">>,
             fields |-> [id |-> F("ID", FALSE), name |-> F("String", FALSE)]],
  Named |-> [kind |-> "INTERFACE", impl |-> <<"Node">>, possible |-> <<"A">>,
             fields |-> [id |-> F("ID", FALSE), name |-> F("String", FALSE), tag |-> F("String", FALSE)]],
  A     |-> [kind |-> "OBJECT", impl |-> <<"Node", "Named">>, possible |-> <<>>,
             fields |-> [id |-> F("ID", FALSE), name |-> F("String", FALSE), tag |-> F("String", FALSE),
                         kid |-> F("A", FALSE), node |-> F("Node", FALSE), u |-> F("U", FALSE),
                         b |-> F("B", FALSE), arg |-> F("String", TRUE)]],
  B     |-> [kind |-> "OBJECT", impl |-> <<"Node">>, possible |-> <<>>,
             fields |-> [id |-> F("ID", FALSE), name |-> F("String", FALSE), a |-> F("A", FALSE)]],
  U     |-> [kind |-> "UNION", impl |-> <<>>, possible |-> <<"A", "B">>, fields |-> NoFields],
  Sh    |-> [kind |-> "OBJECT", impl |-> <<>>, possible |-> <<>>,
             fields |-> [id        |-> F("ID", FALSE),
                         products  |-> FB("It", TRUE, "Products", "natural", 1),
                         items     |-> FB("It", TRUE, "Products", "yml", 2),
                         stock     |-> FB("It", TRUE, "Products", "yml", 3),
                         oneFoo    |-> FB("String", FALSE, "Foo", "gofield", 1),
                         twoFoo    |-> FB("String", FALSE, "Foo", "gofield", 2),
                         oldFoo    |-> FB("String", FALSE, "", "resolver-own", 1),
                         new_foo   |-> FB("String", FALSE, "NewFoo", "collapse", 1),
                         newFoo    |-> FB("String", FALSE, "NewFoo", "natural", 2),
                         legacyBar |-> FB("It", TRUE, "NewBar", "yml", 1),
                         newBar    |-> FB("It", TRUE, "NewBar", "resolver", 2),
                         new_bar   |-> FB("It", TRUE, "NewBar", "collapse", 3)]],
  It    |-> [kind |-> "OBJECT", impl |-> <<>>, possible |-> <<>>,
             fields |-> [id |-> F("ID", FALSE), name |-> F("String", FALSE)]]
]
IsComposite(t) == t \in DOMAIN Schema
Range(s) == {s[i] : i \in 1..Len(s)}
SlotName(t, f) == t \o "." \o f
ObjTypes == {t \in DOMAIN Schema : Schema[t].kind = "OBJECT"}
\* the entry (key of a cost-function assignment) that serves T.f, as the schema + generator configuration say
EntryName(t, f) == LET b == Schema[t].fields[f].bind IN IF b = "" THEN SlotName(t, f) ELSE SlotName(t, b)
Binding == [t \in ObjTypes |-> [f \in DOMAIN Schema[t].fields |-> EntryName(t, f)]]
\* the GraphQL fields of T served by the same entry as T.f, and the one declared after f (cyclic)
GroupOf(t, f) == {g \in DOMAIN Schema[t].fields : Binding[t][g] = Binding[t][f]}
NextInGroup(t, f) ==
  LET G == GroupOf(t, f)
      o == Schema[t].fields[f].ord
  IN  CHOOSE g \in G : Schema[t].fields[g].ord = (o % Cardinality(G)) + 1
\* well-formedness of the binding (a generator configuration gqlgen accepts): the fields of one entry
\* have one result type and one argument signature (the ComplexityRoot function has ONE signature),
\* are numbered 1..n in declaration order, and an unshared field is its own group
BindingWF ==
  \A t \in ObjTypes : \A f \in DOMAIN Schema[t].fields :
     LET G == GroupOf(t, f) IN
       /\ \A g \in G : /\ Schema[t].fields[g].type = Schema[t].fields[f].type
                       /\ Schema[t].fields[g].arg = Schema[t].fields[f].arg
       /\ {Schema[t].fields[g].ord : g \in G} = 1..Cardinality(G)
       /\ (Schema[t].fields[f].bind = "" => G = {f})
ASSUME BindingWF
Meta == {"__typename", "__schema"}
ArgVal == 3      \* the value of argument x when it is set (how it is delivered - literal, variable,
                 \* variable default - is chosen by the concretiser; the cost function sees the value)
BigArg == 100    \* a large argument value (ax = "big"; only through request variables, ComplexityGate)

(***************************************************************************)
(* Selections.  [k, name, on, ax, sels]:                                   *)
(*   k = "field":  name, ax in {"none","set","big"} (argument x), or        *)
(*                 "var" = the request variable $n (ComplexityGate binds   *)
(*                 it per request), sels                                   *)
(*   k = "inline": on = type condition ("" = none), sels                   *)
(*   k = "spread": a spread of a named fragment `on on { sels }`; the      *)
(*                 definition is carried in place, the renderer hoists it  *)
(*                 (EQUAL definitions are ONE named fragment spread         *)
(*                 several times - corpus "frag"; every spread contributes *)
(*                 the fragment's selections again, also when the same     *)
(*                 fragment is spread twice in one selection set)          *)
(***************************************************************************)
Fld(name, ax, sels) == [k |-> "field", name |-> name, on |-> "", ax |-> ax, sels |-> sels]
Frag(k, on, sels)   == [k |-> k, name |-> "", on |-> on, ax |-> "none", sels |-> sels]
OnType(tn, s) == IF s.on = "" THEN tn ELSE s.on

Hd(k, name) == [k |-> k, name |-> name]
GenHeads == [
  Query |-> <<Hd("field", "a"), Hd("field", "node"), Hd("field", "u"), Hd("field", "s"), Hd("field", "withArgs"),
              Hd("field", "__typename"), Hd("field", "__schema"), Hd("inline", ""), Hd("spread", "Query")>>,
  A     |-> <<Hd("field", "id"), Hd("field", "kid"), Hd("field", "arg"), Hd("inline", "Node"), Hd("spread", "A")>>,
  B     |-> <<Hd("field", "id")>>,
  Node  |-> <<Hd("field", "id"), Hd("field", "__typename"), Hd("inline", "A"), Hd("inline", "B"), Hd("spread", "A")>>,
  Named |-> <<Hd("field", "id")>>,
  U     |-> <<Hd("field", "__typename"), Hd("inline", "A"), Hd("spread", "B")>>
]

RECURSIVE SelSeqs(_, _, _), SelsOf(_, _, _)
\* selection sequences on type tn of total size exactly n, heads in non-decreasing index order >= lo
\* (sibling order does not matter to Cx - theorem TPerm - the concretiser permutes siblings)
SelSeqs(tn, n, lo) ==
  IF n = 0 THEN {<<>>}
  ELSE UNION { UNION { { <<s>> \o rest : s \in SelsOf(tn, i, m), rest \in SelSeqs(tn, n - m, i) }
                       : m \in 1..n }
               : i \in lo..Len(GenHeads[tn]) }

SelsOf(tn, i, m) ==
  LET h == GenHeads[tn][i] IN
  IF h.k = "field" THEN
     IF h.name \in Meta THEN (IF m = 1 THEN {Fld(h.name, "none", <<>>)} ELSE {})
     ELSE LET fd == Schema[tn].fields[h.name] IN
          IF IsComposite(fd.type)
          THEN (IF m = 1 THEN {} ELSE {Fld(h.name, "none", ss) : ss \in SelSeqs(fd.type, m - 1, 1)})
          ELSE IF m # 1 THEN {}
          ELSE IF fd.arg THEN {Fld(h.name, "none", <<>>), Fld(h.name, "set", <<>>)}
          ELSE {Fld(h.name, "none", <<>>)}
  ELSE IF m = 1 THEN {}
       ELSE {Frag(h.k, h.name, ss) : ss \in SelSeqs(IF h.name = "" THEN tn ELSE h.name, m - 1, 1)}

GenTrees == UNION {SelSeqs("Query", n, 1) : n \in 1..MaxSize}

\* The safeAdd boundary-grid operations: every way two costs meet in (+) or in the field rule.
L(name) == Fld(name, "none", <<>>)
GridTrees == {
  << Fld("a", "none", <<L("id"), L("tag")>>) >>,                                \* sibling sum below a field
  << Fld("a", "none", <<L("id"), Frag("inline", "A", <<L("tag")>>)>>) >>,       \* field + inline fragment
  << Fld("a", "none", <<Frag("spread", "A", <<L("tag")>>), L("id")>>) >>,       \* spread + field
  << L("s"), L("withArgs") >>,                                                 \* sum at the root
  << Fld("a", "none", <<L("id")>>) >>,                                         \* 1 (+) child / custom vs child
  << Fld("node", "none", <<L("id")>>) >>,                                      \* interface max
  << Fld("node", "none", <<L("id"), Frag("inline", "B", <<L("id")>>)>>) >>     \* max, then sum
}
\* One named fragment (on A) spread several times: under sibling fields, under fields of different
\* parent types, nested, twice in the same selection set, directly and inside another fragment, below
\* an inline fragment and a nested field, three times; and a fragment on Query spread twice at the root.
SpA(body) == Frag("spread", "A", body)
FragBodies == { <<L("id")>>,
                <<L("id"), Fld("kid", "none", <<L("id")>>)>>,
                <<Fld("arg", "set", <<>>)>>,
                <<L("tag"), SpA(<<L("id")>>)>> }                  \* a fragment that spreads another fragment
FragCtx(b) ==
  LET H == SpA(b) IN
  { << Fld("a", "none", <<H>>), Fld("a", "none", <<H>>) >>,
    << Fld("a", "none", <<H>>), Fld("node", "none", <<H>>) >>,
    << Fld("a", "none", <<H, Fld("kid", "none", <<H>>)>>) >>,
    << Fld("a", "none", <<H, H>>) >>,
    << Fld("a", "none", <<H, SpA(<<L("name"), H>>)>>) >>,
    << Fld("u", "none", <<Frag("inline", "A", <<H>>)>>), Fld("a", "none", <<Fld("kid", "none", <<H>>)>>) >>,
    << Fld("a", "none", <<H>>), Fld("a", "none", <<H>>), Fld("node", "none", <<H>>) >> }
QFrag == Frag("spread", "Query", <<Fld("a", "none", <<L("id")>>)>>)
FragTrees == UNION {FragCtx(b) : b \in FragBodies} \cup { <<QFrag, QFrag>>, <<QFrag, L("s"), QFrag>> }

\* Operations through the fields of Sh that share a ComplexityRoot entry.  K(g, ax) selects the It-typed
\* field g with its argument x absent / set; every member of every group occurs alone (so also the one
\* declared second / last is the ONLY way the entry is reached), two members of one group side by side,
\* below one named fragment that is spread twice, and two groups side by side.
ShItFields  == {"products", "items", "stock", "legacyBar", "newBar", "new_bar"}
ShStrFields == {"oneFoo", "twoFoo", "oldFoo", "new_foo", "newFoo"}
K(g, ax) == Fld(g, ax, <<L("id")>>)
InSh(ss) == Fld("sh", "none", ss)
SpSh(ss) == Frag("spread", "Sh", ss)
BindTrees ==
       { <<InSh(<<K(g, ax)>>)>> : g \in ShItFields, ax \in {"none", "set"} }
  \cup { <<InSh(<<K(g, "none"), K(NextInGroup("Sh", g), "set")>>)>> : g \in ShItFields }
  \cup { <<InSh(<<SpSh(<<K(g, "set")>>)>>), InSh(<<SpSh(<<K(g, "set")>>)>>)>> : g \in ShItFields }
  \cup { <<InSh(<<K("items", "set"), K("new_bar", "none")>>)>> }
  \cup { <<InSh(<<L(h)>>)>> : h \in ShStrFields }
  \cup { <<InSh(<<L(h), L(NextInGroup("Sh", h))>>)>> : h \in {"oneFoo", "new_foo"} }
  \cup { <<InSh(<<L("twoFoo"), L("oldFoo")>>)>> }
  \cup { <<InSh(<<SpSh(<<L(h)>>), L("id"), SpSh(<<L(h)>>)>>)>> : h \in ShStrFields }
\* "no operation": the case that carries the Complexity(type, field) table of the whole schema
NoOp == <<>>

\* ONE operation selects the same interface field (Box.items / Box.inner) SEVERAL times.  Occurrences differ in
\* the argument (x = 3 / x = 100 / absent) and in the sub-selection (children's cost 1 / 2 / 4); every context
\* occurs in both orders (first occurrence, second occurrence) - sibling order is part of the INPUT here, the
\* concretiser keeps it (TPerm says it is irrelevant to Cx; an implementation that carries anything from one
\* occurrence to the next is order-sensitive).
OcC  == Fld("items", "set",  <<L("id")>>)                                          \* x = 3,   children 1
OcB  == Fld("items", "big",  <<L("id"), L("name")>>)                               \* x = 100, children 2
OcC2 == Fld("items", "set",  <<L("id"), L("name")>>)                               \* x = 3,   children 2
OcB1 == Fld("items", "big",  <<L("id")>>)                                          \* x = 100, children 1
OcN  == Fld("items", "none", <<L("id"), L("name"), Fld("kid", "none", <<L("id")>>)>>)  \* x absent, children 4
Bx(ss)    == Fld("box", "none", ss)
Inn(ss)   == Fld("inner", "none", ss)
SpBox(ss) == Frag("spread", "Box", ss)
IfacePairs == { <<OcC, OcB>>, <<OcC2, OcB1>>, <<OcN, OcB>> }
IfaceCtx(c, b) ==
  { <<Bx(<<c, b>>)>>,                                     \* siblings (aliases)
    <<Bx(<<c>>), Bx(<<b>>)>>,                              \* below two selections of the parent field
    <<Bx(<<c, SpBox(<<b>>)>>)>>,                           \* the later one inside a named fragment
    <<Bx(<<SpBox(<<c>>), b>>)>>,                           \* the earlier one inside a named fragment
    <<Bx(<<Frag("inline", "Box", <<c>>), b>>)>>,           \* inside an inline fragment on the interface
    <<Bx(<<c, Inn(<<b>>)>>)>>,                             \* nested below another interface field (priced before it)
    <<Bx(<<Inn(<<c>>), b>>)>>,
    <<Bx(<<c, b, c>>)>>,                                   \* three occurrences
    <<Bx(<<SpBox(<<c>>), b, SpBox(<<c>>)>>)>>,             \* one named fragment spread before and after
    <<Bx(<<Frag("inline", "Shelf", <<c>>), b>>)>> }        \* control: one of them on the OBJECT type (no maximum)
IfaceTrees == UNION {IfaceCtx(p[1], p[2]) \cup IfaceCtx(p[2], p[1]) : p \in IfacePairs}
              \cup { <<Bx(<<OcC>>)>>, <<Bx(<<OcB>>)>>,                           \* controls: a single occurrence
                     <<Bx(<<Inn(<<L("id")>>), Inn(<<OcB>>)>>)>>,                 \* Box.inner twice: children 1 / large
                     <<Bx(<<Inn(<<OcB>>), Inn(<<L("id")>>)>>)>> }
Trees == IF Corpus = "grid" THEN GridTrees ELSE IF Corpus = "frag" THEN FragTrees
         ELSE IF Corpus = "bind" THEN BindTrees \cup {NoOp}
         ELSE IF Corpus = "iface" THEN IfaceTrees ELSE GenTrees

(***************************************************************************)
(* Custom cost functions (user code: they compute on machine ints and      *)
(* saturate at both ends themselves).  fn = [k, c, m].                     *)
(***************************************************************************)
Fn(k, c, m) == [k |-> k, c |-> c, m |-> m]
NoneFn == Fn("none", Zero, 0)
ApplyCost(fn, child, x) ==
  CASE fn.k = "const" -> fn.c                               \* constant (also negative, MAX-1, MAX, MIN)
    [] fn.k = "add"   -> NClampHi(NPlus(child, fn.c))       \* child + c
    [] fn.k = "mul"   -> NClampHi(NTimes(child, fn.m))      \* child * k
    [] fn.k = "sub"   -> NPlus(child, N(0, 0 - fn.c.d))     \* child - c: a value BELOW the children's cost
    [] fn.k = "arg"   -> NClampHi(NPlus(child, N(0, x)))    \* child + (value of argument x, 0 if absent)
    [] fn.k = "argmul" -> NClampHi(NTimes(NPlus(child, One), x))  \* x * (1 + child): a list of x elements

MaxM1 == NPlus(MAXN, N(0, -1))
ConstSet == {Zero, N(0, 2), N(0, -1), Half, NPlus(Half, One), MaxM1, MAXN}
AddSet   == {Zero, N(0, 2), MaxM1}
BaseFamily == {Fn("const", c, 0) : c \in ConstSet} \cup {Fn("add", c, 0) : c \in AddSet}
              \cup {Fn("mul", Zero, 2), Fn("sub", One, 0)}
FragFamily == {Fn("const", Zero, 0), Fn("const", N(0, 2), 0), Fn("const", N(0, -1), 0), Fn("add", N(0, 2), 0),
               Fn("mul", Zero, 2), Fn("mul", Zero, 3)}
BindFamily == {Fn("const", Zero, 0), Fn("const", N(0, 2), 0), Fn("add", N(0, 2), 0), Fn("mul", Zero, 3)}
\* implementors of one interface field get DIFFERENT functions: one grows with the argument (x * (1 + child),
\* child + x), one is constant-high (50), one multiplies the children's cost, one adds to it
Flat == N(0, 50)
IfaceFamily == {Fn("const", Flat, 0), Fn("mul", Zero, 3)}
IfaceInnerFamily == {Fn("const", Flat, 0), Fn("mul", Zero, 2), Fn("add", Flat, 0)}
IfaceSlotNames == {"Shelf.items", "Archive.items", "Shelf.inner", "Archive.inner"}
GridConsts == SGrid
GridFamily == {Fn("const", c, 0) : c \in GridConsts}

ObjPossible(tn) == {q \in Range(Schema[tn].possible) : Schema[q].kind = "OBJECT"}

RECURSIVE Slots(_, _, _)
\* [slot, arg]: the ComplexityRoot entries a user could define a cost function for in this operation
\* (the entry bnd[T][f] that serves a selected field T.f - two selected fields may name the same entry)
Slots(tn, sels, i) ==
  IF i > Len(sels) THEN {}
  ELSE LET s == sels[i] IN
       (IF s.k = "field" THEN
          (IF s.name \in Meta THEN {}
           ELSE LET fd  == Schema[tn].fields[s.name]
                    own == IF Schema[tn].kind = "OBJECT" THEN {[slot |-> bnd[tn][s.name], arg |-> fd.arg]}
                           ELSE {[slot |-> bnd[p][s.name], arg |-> fd.arg] : p \in ObjPossible(tn)}
                IN  own \cup (IF IsComposite(fd.type) THEN Slots(fd.type, s.sels, 1) ELSE {}))
        ELSE Slots(OnType(tn, s), s.sels, 1))
       \cup Slots(tn, sels, i + 1)

FamilyOf(sl) ==
  IF Corpus = "grid" THEN GridFamily
  ELSE IF Corpus = "frag" THEN FragFamily \cup (IF sl.arg THEN {Fn("arg", Zero, 0)} ELSE {})
  ELSE IF Corpus = "bind" THEN BindFamily \cup (IF sl.arg THEN {Fn("arg", Zero, 0), Fn("argmul", Zero, 0)} ELSE {})
  ELSE IF Corpus = "iface" THEN (IF sl.arg THEN IfaceFamily \cup {Fn("arg", Zero, 0), Fn("argmul", Zero, 0)} ELSE IfaceInnerFamily)
  ELSE BaseFamily \cup (IF sl.arg THEN {Fn("arg", Zero, 0)} ELSE {})

PairAsgs(E, k) ==
  {{}}
  \cup (IF k >= 1 THEN {{e} : e \in E} ELSE {})
  \cup (IF k >= 2 THEN UNION {{{e1, e2} : e2 \in {e \in E : e.slot # e1.slot}} : e1 \in E} ELSE {})

EntriesOf(S) == UNION {{[slot |-> sl.slot, fn |-> f] : f \in FamilyOf(sl)} : sl \in S}
GridRoots == {"Query.a", "Query.node"}   \* in the grid corpus these are the identity (child + 0) or undefined
\* the table case: every entry of the schema alone with a constant, child + 2 and (if the field takes the
\* argument) child + x, and all entries at once
AllEntries == UNION {{[slot |-> Binding[t][f], arg |-> Schema[t].fields[f].arg] : f \in DOMAIN Schema[t].fields} : t \in ObjTypes}
TableAsgs ==
  {{[slot |-> e.slot, fn |-> f]} : e \in AllEntries, f \in {Fn("const", N(0, 2), 0), Fn("add", N(0, 2), 0)}}
  \cup {{[slot |-> e.slot, fn |-> Fn("arg", Zero, 0)]} : e \in {x \in AllEntries : x.arg}}
  \cup {{[slot |-> e.slot, fn |-> Fn("const", N(0, 7), 0)] : e \in AllEntries}}
  \cup {{}}
\* assignments on more than two entries: both pairs of implementors at once, a multiplier above, a cost below
E(slot, fn) == [slot |-> slot, fn |-> fn]
IfaceGrow == {E("Shelf.items", Fn("argmul", Zero, 0)), E("Archive.items", Fn("const", Flat, 0))}
IfaceDesignated ==
  { IfaceGrow \cup {E("Shelf.inner", Fn("mul", Zero, 2)), E("Archive.inner", Fn("add", Flat, 0))},
    {E("Archive.items", Fn("argmul", Zero, 0)), E("Shelf.items", Fn("const", Flat, 0)),
     E("Archive.inner", Fn("mul", Zero, 2)), E("Shelf.inner", Fn("add", Flat, 0))},
    IfaceGrow \cup {E("Query.box", Fn("mul", Zero, 2))},
    IfaceGrow \cup {E("A.id", Fn("const", N(0, 2), 0))},
    {E("Shelf.items", Fn("arg", Zero, 0)), E("Archive.items", Fn("mul", Zero, 3)), E("Query.box", Fn("add", N(0, 2), 0))} }
Asgs(t) ==
  LET S == Slots("Query", t, 1) IN
  IF Corpus = "bind" /\ t = NoOp THEN TableAsgs
  ELSE IF Corpus = "iface"
  THEN PairAsgs(EntriesOf({sl \in S : sl.slot \in IfaceSlotNames}), 2) \cup IfaceDesignated
  ELSE IF Corpus = "grid"
  THEN LET SL == {sl \in S : sl.slot \notin GridRoots}
           SR == {sl \in S : sl.slot \in GridRoots}
           R  == {{}} \cup {{[slot |-> sl.slot, fn |-> Fn("add", Zero, 0)] : sl \in SR}}
       IN  {l \cup r : l \in PairAsgs(EntriesOf(SL), 2), r \in R}
  ELSE PairAsgs(EntriesOf(S), MaxCustom)
       \* every slot the same function (saturation everywhere, all negative, ...)
       \cup {{[slot |-> sl.slot, fn |-> f] : sl \in S} : f \in IF Corpus = "frag" THEN FragFamily
                                                              ELSE IF Corpus = "bind" THEN BindFamily ELSE BaseFamily}

CostFn(a, slot) == IF \E e \in a : e.slot = slot THEN (CHOOSE e \in a : e.slot = slot).fn ELSE NoneFn

(***************************************************************************)
(* Cx: the documented definition.                                          *)
(***************************************************************************)
ArgOfClass(c) == IF c = "set" THEN ArgVal ELSE IF c = "big" THEN BigArg ELSE 0
ArgOf(s) == ArgOfClass(s.ax)

\* What the generated ExecutableSchema.Complexity(typeName, field, child, args) answers: the value of the
\* function configured on the ENTRY that serves the GraphQL field T.f - for EVERY field the entry serves -
\* and "no custom cost" (ok = FALSE) when that entry has no function.  Only object types have entries.
CustomOf(a, t, f) == IF t \in DOMAIN bnd /\ f \in DOMAIN bnd[t] THEN CostFn(a, bnd[t][f]) ELSE NoneFn
GenComplexity(a, t, f, child, x) ==
  LET fn == CustomOf(a, t, f) IN
  IF fn.k = "none" THEN [ok |-> FALSE, v |-> Zero] ELSE [ok |-> TRUE, v |-> ApplyCost(fn, child, x)]

\* the field rule for one concrete type
FieldCost(a, t, f, child, x) ==
  LET fn == CustomOf(a, t, f) IN
  IF fn.k # "none" /\ NLe(child, ApplyCost(fn, child, x))
  THEN ApplyCost(fn, child, x)
  ELSE SAdd(One, child)

RECURSIVE MaxOver(_, _, _, _, _, _, _)
MaxOver(a, ts, i, f, child, x, acc) ==
  IF i > Len(ts) THEN acc
  ELSE MaxOver(a, ts, i + 1, f, child, x, NMax2(acc, FieldCost(a, ts[i], f, child, x)))

RECURSIVE CxAcc(_, _, _, _, _), CxField(_, _, _)
\* a selection set on type tn, accumulated left to right like the walker does
CxAcc(a, tn, sels, i, acc) ==
  IF i > Len(sels) THEN acc
  ELSE LET s == sels[i] IN
       IF s.k = "field"
       THEN (IF s.name = "__schema" THEN CxAcc(a, tn, sels, i + 1, acc)
             ELSE CxAcc(a, tn, sels, i + 1, SAdd(acc, CxField(a, tn, s))))
       ELSE CxAcc(a, tn, sels, i + 1, SAdd(acc, CxAcc(a, OnType(tn, s), s.sels, 1, Zero)))

ChildCx(a, tn, s) ==
  IF s.name \in Meta THEN Zero
  ELSE LET rt == Schema[tn].fields[s.name].type IN
       IF IsComposite(rt) THEN CxAcc(a, rt, s.sels, 1, Zero) ELSE Zero

CxField(a, tn, s) ==
  LET child == ChildCx(a, tn, s) IN
  IF Schema[tn].kind = "INTERFACE"
  THEN MaxOver(a, Schema[tn].possible, 1, s.name, child, ArgOf(s), Zero)
  ELSE FieldCost(a, tn, s.name, child, ArgOf(s))

Cx(a, sels) == CxAcc(a, "Query", sels, 1, Zero)

(***************************************************************************)
(* The gate (ComplexityLimit.MutateOperationContext in Pipeline terms):    *)
(* an operation is rejected, and then nothing of it executes, iff          *)
(* Cx > limit.                                                             *)
(***************************************************************************)
Limits(cx) == {NPlus(cx, N(0, -1)), cx, Zero, MAXN} \cup (IF NLt(cx, MAXN) THEN {NPlus(cx, One)} ELSE {})
RootFields(sels) == {i \in 1..Len(sels) : sels[i].k = "field"}
Decide(cx, lim, sels) ==
  [lim |-> lim, rej |-> NLt(lim, cx), runs |-> IF NLt(lim, cx) THEN {} ELSE RootFields(sels)]
Gate(cx, sels) == {Decide(cx, l, sels) : l \in Limits(cx)}

(***************************************************************************)
(* Theorems (checked as invariants on every enumerated input).             *)
(***************************************************************************)
Remove(s, i) == SubSeq(s, 1, i - 1) \o SubSeq(s, i + 1, Len(s))
RECURSIVE Dels(_)
\* all trees obtained by removing one selection (with its subtree), keeping composites non-empty
Dels(sels) ==
  UNION { {Remove(sels, i)} \cup
          { [sels EXCEPT ![i] = [@ EXCEPT !.sels = ss]] : ss \in {x \in Dels(sels[i].sels) : x # <<>>} }
          : i \in 1..Len(sels) }

RECURSIVE DeepRev(_), SwapFrag(_)
DeepRev(sels) == IF sels = <<>> THEN <<>>
                 ELSE DeepRev(Tail(sels)) \o <<[Head(sels) EXCEPT !.sels = DeepRev(@)]>>
\* inline fragment <-> named fragment spread (only where the inline carries a type condition)
SwapFrag(sels) ==
  IF sels = <<>> THEN <<>>
  ELSE LET s == Head(sels)
           k2 == IF s.k = "inline" /\ s.on # "" THEN "spread" ELSE IF s.k = "spread" THEN "inline" ELSE s.k
       IN  <<[s EXCEPT !.k = k2, !.sels = SwapFrag(@)]>> \o SwapFrag(Tail(sels))

RECURSIVE ChildrenOK(_, _, _, _)
\* a field never costs less than its children
ChildrenOK(a, tn, sels, i) ==
  i > Len(sels) \/
  LET s == sels[i] IN
    /\ (IF s.k = "field"
        THEN (s.name \in Meta \/
              /\ NLe(ChildCx(a, tn, s), CxField(a, tn, s))
              /\ LET rt == Schema[tn].fields[s.name].type IN
                 IsComposite(rt) => ChildrenOK(a, rt, s.sels, 1))
        ELSE ChildrenOK(a, OnType(tn, s), s.sels, 1))
    /\ ChildrenOK(a, tn, sels, i + 1)

RECURSIVE SwapAlias(_, _)
\* every selected field of an object type is replaced by the field declared next among the fields that
\* share its ComplexityRoot entry (an unshared field is its own successor); BindingWF makes the result a
\* well-typed operation with the same arguments
SwapAlias(tn, sels) ==
  IF sels = <<>> THEN <<>>
  ELSE LET s == Head(sels)
           s2 == IF s.k = "field"
                 THEN (IF s.name \in Meta THEN s
                       ELSE LET rt == Schema[tn].fields[s.name].type
                                n2 == IF tn \in ObjTypes THEN NextInGroup(tn, s.name) ELSE s.name
                            IN  [s EXCEPT !.name = n2, !.sels = IF IsComposite(rt) THEN SwapAlias(rt, @) ELSE @])
                 ELSE [s EXCEPT !.sels = SwapAlias(OnType(tn, s), @)]
       IN  <<s2>> \o SwapAlias(tn, Tail(sels))

TableChildren == {Zero, N(0, 4)}
Done == pc = "done"
\* THE BINDING THEOREM.  For EVERY GraphQL field T.f of every object type: Complexity(T, f) reports a custom
\* cost exactly when a function is configured on the entry that serves T.f, it is that function's value,
\* and all fields served by one entry get the same answer (declared first, second or last).
TBinding == Done => \A t \in ObjTypes : \A f \in DOMAIN Schema[t].fields : \A ch \in TableChildren :
               LET r == GenComplexity(asg, t, f, ch, ArgVal) IN
                 /\ r.ok <=> (\E e \in asg : e.slot = bnd[t][f])
                 /\ r.ok => r.v = ApplyCost((CHOOSE e \in asg : e.slot = bnd[t][f]).fn, ch, ArgVal)
                 /\ \A g \in GroupOf(t, f) : GenComplexity(asg, t, g, ch, ArgVal) = r
TBindState == bnd = Binding
\* ... so an operation costs the same through any field of a group: renaming every selected field to the
\* next field of its group changes nothing
TAlias    == Done => Cx(asg, SwapAlias("Query", tree)) = out.cx
\* THE INTERFACE RULE, PER OCCURRENCE.  Occs lists the selections of interface fields in the order the walker
\* prices them (a field after its children): key = Interface.field, v = its cost, am = the possible types
\* whose field rule attains v, ch / x = what the occurrence hands to the cost functions.
ArgMaxOf(a, tn, s) ==
  LET child == ChildCx(a, tn, s)
      m     == CxField(a, tn, s)
  IN  {t \in Range(Schema[tn].possible) : FieldCost(a, t, s.name, child, ArgOf(s)) = m}
RECURSIVE Occs(_, _, _, _)
Occs(a, tn, sels, i) ==
  IF i > Len(sels) THEN <<>>
  ELSE LET s == sels[i]
           here == IF s.k = "field"
                   THEN (IF s.name \in Meta THEN <<>>
                         ELSE LET rt    == Schema[tn].fields[s.name].type
                                  below == IF IsComposite(rt) THEN Occs(a, rt, s.sels, 1) ELSE <<>>
                                  me    == IF Schema[tn].kind = "INTERFACE"
                                           THEN <<[key |-> SlotName(tn, s.name), v |-> CxField(a, tn, s),
                                                   am |-> ArgMaxOf(a, tn, s), ch |-> ChildCx(a, tn, s), x |-> ArgOf(s)]>>
                                           ELSE <<>>
                              IN  below \o me)
                   ELSE Occs(a, OnType(tn, s), s.sels, 1)
       IN  here \o Occs(a, tn, sels, i + 1)
\* every occurrence is priced as the maximum over ITS OWN implementors' costs: some possible type attains the
\* value, none exceeds it - a statement about (children's cost, argument) of that occurrence alone
TOccMax == Done => LET os == Occs(asg, "Query", tree, 1) IN
              \A i \in 1..Len(os) :
                 LET o == os[i]
                     tn == CHOOSE t \in DOMAIN Schema : \E f \in DOMAIN Schema[t].fields : SlotName(t, f) = o.key
                     f  == CHOOSE g \in DOMAIN Schema[tn].fields : SlotName(tn, g) = o.key
                 IN  /\ o.am # {}
                     /\ \A t \in Range(Schema[tn].possible) : NLe(FieldCost(asg, t, f, o.ch, o.x), o.v)
                     \* equal (children's cost, argument) => equal price, wherever the occurrences stand
                     /\ \A j \in 1..Len(os) : (os[j].key = o.key /\ os[j].ch = o.ch /\ os[j].x = o.x) => os[j].v = o.v
\* PRICING AN OCCURRENCE DOES NOT DEPEND ON THE OTHER OCCURRENCES: at every selection set of the operation the
\* cost is the saturating sum of its members priced ALONE (each as the only selection of an operation part)
RECURSIVE SumAlone(_, _, _, _), AloneOK(_, _, _, _)
SumAlone(a, tn, sels, i) ==
  IF i > Len(sels) THEN Zero
  ELSE SAdd(CxAcc(a, tn, <<sels[i]>>, 1, Zero), SumAlone(a, tn, sels, i + 1))
AloneHere(a, tn, sels) == CxAcc(a, tn, sels, 1, Zero) = SumAlone(a, tn, sels, 1) /\ AloneOK(a, tn, sels, 1)
AloneOK(a, tn, sels, i) ==
  i > Len(sels) \/
  LET s == sels[i] IN
    /\ (IF s.k = "field"
        THEN (s.name \in Meta \/
              LET rt == Schema[tn].fields[s.name].type IN IsComposite(rt) => AloneHere(a, rt, s.sels))
        ELSE AloneHere(a, OnType(tn, s), s.sels))
    /\ AloneOK(a, tn, sels, i + 1)
TOccIndep == Done => AloneHere(asg, "Query", tree)
\* the iface corpus keeps |d| below 10^5 (x = 100 times small sums, times 2 or 3 a few levels up): still << H/2
TDBounded == Done => out.cx.d \in -100000..100000 /\ out.cx.h \in 0..MaxH
TRange    == Done => NLe(Zero, out.cx) /\ NLe(out.cx, MAXN)
TDSmall   == Done => out.cx.d \in -100..100 /\ out.cx.h \in 0..MaxH
TChildren == Done => ChildrenOK(asg, "Query", tree, 1)
\* every cost function of the family is monotone in the children's cost
TMonotone == Done => \A t2 \in Dels(tree) : NLe(Cx(asg, t2), out.cx)
TPerm     == Done => Cx(asg, DeepRev(tree)) = out.cx
\* a fragment spread contributes the fragment's selections at EVERY spread: expanding each spread in
\* place (SwapFrag turns every spread into the inline fragment with the same selections) changes nothing
TFragment == Done => Cx(asg, SwapFrag(tree)) = out.cx
\* ... so selecting everything twice (every named fragment is then spread twice as often) costs twice
TDouble   == Done => Cx(asg, tree \o tree) = SAdd(out.cx, out.cx)
TGate     == Done => \A g \in out.gate :
                        /\ g.rej <=> NLt(g.lim, out.cx)
                        /\ g.rej => g.runs = {}
                        /\ \A g2 \in out.gate : (g.rej /\ NLe(g2.lim, g.lim)) => g2.rej
\* a rejected operation stays rejected when selections are added (from TMonotone + TGate):
TGateMono == Done => \A t2 \in Dels(tree) : \A l \in Limits(out.cx) :
                        Decide(Cx(asg, t2), l, t2).rej => Decide(out.cx, l, tree).rej

(***************************************************************************)
(* Behaviour                                                               *)
(***************************************************************************)
NoOut == [cx |-> Zero, gate |-> {}]
Init == pc = "tree" /\ tree \in Trees /\ asg = {} /\ out = NoOut /\ bnd = Binding
ChooseCosts == pc = "tree" /\ asg' \in Asgs(tree) /\ pc' = "costs" /\ UNCHANGED <<tree, out, bnd>>
Compute == /\ pc = "costs"
           /\ LET cx == Cx(asg, tree) IN out' = [cx |-> cx, gate |-> Gate(cx, tree)]
           /\ pc' = "done" /\ UNCHANGED <<tree, asg, bnd>>
Next == ChooseCosts \/ Compute
Spec == Init /\ [][Next]_vars

\* The Complexity(type, field) table under the assignment a: one row per GraphQL field of every object
\* type x child in {0, 4} x argument x absent / set (when the field takes it).
TableRows(a) ==
  UNION { UNION { { [type |-> t, field |-> f, child |-> ch, x |-> ax,
                     ok |-> GenComplexity(a, t, f, ch, ArgOfClass(ax)).ok,
                     v  |-> GenComplexity(a, t, f, ch, ArgOfClass(ax)).v]
                    : ch \in TableChildren, ax \in (IF Schema[t].fields[f].arg THEN {"none", "set"} ELSE {"none"}) }
                  : f \in DOMAIN Schema[t].fields }
          : t \in ObjTypes }
EmitEdge == (Emit /\ pc' = "done") =>
  PrintT(ToJson([sels |-> tree, costs |-> asg', cx |-> out'.cx, gate |-> out'.gate,
                 table |-> IF Corpus = "bind" /\ tree = NoOp THEN TableRows(asg') ELSE {},
                 occ |-> IF Corpus = "iface" THEN Occs(asg', "Query", tree, 1) ELSE <<>>]))
EmitSchema == PrintT(ToJson([schema |-> Schema, argval |-> ArgVal, bigarg |-> BigArg, max |-> MAXN, binding |-> Binding]))
ASSUME Emit => EmitSchema
=============================================================================
