--------------------------- MODULE MC_HttpState ---------------------------
(* Finite instances of HttpState for TLC. *)
EXTENDS HttpState

R(tr, q, opn, vs, ext) == [tr |-> tr, q |-> q, opn |-> opn, vars |-> vs, ext |-> ext, acc |-> "-"]
(* a request with an Accept header: "json" application/json, "gql" application/graphql-response+json,
   "any" */*, "html" text/html (nothing recognised), "multi" text/html, application/json;q=0.9 *)
RA(tr, q, opn, vs, acc) == [tr |-> tr, q |-> q, opn |-> opn, vars |-> vs, ext |-> "-", acc |-> acc]
Accs == {"-", "json", "gql", "any", "html", "multi"}

Texts == {"-", "Q1", "Q2", "QX"}
Exts  == {"-", "X", "H:Q1", "H:Q2"}

(* POST: every member absent / null / present, a body that fails to decode *)
ReqPost == {R("POST", q, o, v, e) : q \in Texts, o \in {"-", "null", "A", "B"},
                                     v \in {"-", "null", "V1", "V2", "bad"}, e \in Exts}
(* transports that allocate their parameters *)
ReqFresh(trs) == {R(t, q, o, v, e) : t \in trs, q \in Texts, o \in {"-", "A", "B"},
                                      v \in {"-", "V1", "V2"}, e \in Exts}
ReqBad(trs) == {R(t, q, "-", "bad", "-") : t \in trs, q \in {"Q1", "Q2"}}
ReqGraphql == {R("GRAPHQL", q, "-", "-", "-") : q \in Texts}

RequestsQuick == ReqPost \cup ReqFresh({"GET", "WS"}) \cup ReqBad({"GET", "WS"}) \cup ReqGraphql
                 \cup {r \in ReqFresh({"FORM"}) : r.opn # "B"}
RequestsFull  == ReqPost \cup ReqFresh({"GET", "WS", "FORM", "MULTIPART", "SSE"})
                 \cup ReqBad({"GET", "WS", "FORM", "MULTIPART", "SSE"}) \cup ReqGraphql

(* the header instance: GET / POST x {executes, fails validation, no operation, undecodable} x Accept;
   the transports that send the configured headers as they are *)
RequestsHdr == {RA(t, "Q1", "A", "-", a) : t \in {"GET", "POST"}, a \in Accs}
               \cup {RA(t, "QX", "-", "-", a) : t \in {"GET", "POST"}, a \in Accs}
               \cup {RA("POST", "-", "-", "-", a) : a \in Accs}
               \cup {RA(t, "Q1", "A", "bad", a) : t \in {"GET", "POST"}, a \in {"-", "gql"}}
               \cup {RA("FORM", "Q1", "A", "-", a) : a \in {"-", "gql"}}
               \cup {RA("GRAPHQL", "Q1", "-", "-", a) : a \in {"-", "gql"}}   \* the body is the query text only

(* two requests in flight: a small alphabet *)
RequestsConc == {r \in {R("POST", q, o, v, e) : q \in {"-", "Q1"}, o \in {"-", "A"},
                                                 v \in {"-", "V1", "V2"}, e \in {"-", "H:Q1"}} :
                       ~(r.vars = "V2" /\ r.ext = "H:Q1")}
                \cup {[R("GET", "Q1", "A", "V1", "H:Q1") EXCEPT !.acc = "gql"], R("GET", "-", "-", "V2", "H:Q1"),
                      R("WS", "Q2", "-", "-", "X")}

(* the twin instance: every twin text over GET, POST and the websocket *)
RT(tr, q) == [tr |-> tr, q |-> q, opn |-> "-", vars |-> "-", ext |-> "-", acc |-> "-"]
RequestsTwin == {RT(t, q) : t \in {"GET", "POST", "WS"}, q \in TwinTexts}
(* the cover needs a twin after its twin, not every mixture of families: at most one family is cached *)
TwinFocus == \A e1, e2 \in qcache : Family(e1[2]) = Family(e2[2])
CfgCaches == {"none", "map", "nocache"}
CfgNoCache == {"nocache"}

(* the websocket part: A = a subscription with two events, B = an operation with one; one ping *)
WsNone == <<>>
WsAB == [id \in {"A", "B"} |-> IF id = "A" THEN 2 ELSE 1]
ReqNone == {}

(* three requests in flight, one per slot, every order of their Execute and Write steps *)
HeldSeq == <<R("POST", "Q1", "A", "V1", "-"), RA("GET", "Q2", "A", "V2", "gql"), R("POST", "Q1", "B", "V2", "X")>>
RequestsHeld == {HeldSeq[i] : i \in 1..3}
HeldAssign == \A i \in 1..Slots : fl[i].pc \notin {"idle", "done"} => fl[i].r = HeldSeq[i]
(* the negative configurations need two texts *)
RequestsNeg == RequestsConc \cup {R("POST", "Q2", o, v, "-") : o \in {"-", "A"}, v \in {"-", "V1", "V2"}}

CfgNone == {"none"}
CfgXsb == {"xsb"}
CfgAll == {"none", "xsb", "ct"}

AllSix == {"q", "opn", "vars", "ext", "hdr", "rt"}
No_q == AllSix \ {"q"}
No_opn == AllSix \ {"opn"}
No_vars == AllSix \ {"vars"}
No_ext == AllSix \ {"ext"}
No_hdr == AllSix \ {"hdr"}
No_rt == AllSix \ {"rt"}
=============================================================================
