INIT Init
NEXT Next
