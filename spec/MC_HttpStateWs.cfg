\* C07 round 3 - several operations in flight on ONE websocket connection: A (a subscription producing two events
\* and closing when the test releases them), B (an operation producing one), one ping; every order of the client
\* messages (subscribe A, subscribe B, ping) and the released frames.  EmitWs prints the schedule graph; its
\* maximal paths (280) are driven on real connections.  WsFrameOwn: a frame carries the id of its operation.
\* Measured: 139 distinct states, 82 schedule edges over 40 phase vectors, 280 maximal paths, 1 s.
CONSTANTS
  Requests <- ReqNone
  ResetFields <- AllSix
  ResetEarly = FALSE
  CacheKey = "full"
  PoolMax = 1
  Slots = 1
  Configs <- CfgNone
  MergeInPlace = FALSE
  BufPool = FALSE
  TrackNeg = FALSE
  Once = FALSE
  WsScript <- WsAB
  WsPings = 1
  WsSharedMsg = FALSE
INIT Init
NEXT Next
VIEW view
CHECK_DEADLOCK FALSE
INVARIANTS TypeOK WsFrameOwn
ACTION_CONSTRAINT EmitWs
