\* C03 / Pipeline, REPAIRED design, UNFUSED local steps (every hook event is a
\* step of its own, as in trace validation): checks that fusing loses nothing.
\* Alphabet "smallpan": the 6 core classes + the valid request whose first parameter gate /
\* first context gate PANICS.
\* Measured (round 3): 54 296 distinct / 106 936 generated states, depth 41, 3-9 s; I0-I7 hold.
SPECIFICATION MCSpec
CONSTANTS
  Reqs = {1, 2}
  RuleModel = "config"
  Fuse = FALSE
  ExtChoice = "one"
  ReqChoice = "smallpan"
  TrChoice = "direct"
VIEW MCView
INVARIANTS TypeOK I0 I1 I2 I3 I4 I5 I6 I7
