\* C03 / Pipeline, REPAIRED design, UNFUSED local steps (every hook event is a
\* step of its own, as in trace validation): checks that fusing loses nothing.
\* Measured: 39 656 distinct / 77 816 generated states, depth 41, 6 s; I1-I5 hold.
SPECIFICATION MCSpec
CONSTANTS
  Reqs = {1, 2}
  RuleModel = "config"
  Fuse = FALSE
  ExtChoice = "one"
  ReqChoice = "smallpan"
  TrChoice = "direct"
VIEW MCView
INVARIANTS TypeOK I0 I1 I2 I3 I4 I5 I6 I7
