\* ProjectStep.tla: verdicts for the steps in steps.ndjson (2 resolver fields). One initial state per line,
\* one successor each; the verdict records are printed (-workers 1).
INIT StepInit
NEXT StepNext
CONSTANTS
  Files <- MCFiles
  FileOrder <- MCFileOrder
  Pairs <- MCPairs2
  TypeOf <- MCTypeOf2
  RootTypes <- MCRoot
  Edits <- MCEditsWide
  EncToks <- MCEncAll
  HelperToks <- MCHelpersAll
  ImportToks <- MCImportsAll
  CmtToks <- MCCmt
  NeverPruned <- MCNever
  RootToks <- MCRootAll
  Cfgs <- MCCfgsStep
  ImpPairs <- MCPairs2
  InitSchemas <- MCInitEmpty
  MaxHist = 1
  Dev <- MCNoDev
CHECK_DEADLOCK FALSE
