\* Apq over a FULL, evicting LRU + export of the labelled state graph (thorough tier).
\* Texts {q1..q5} all valid, WrongHashes {x:rand}, LRU capacity 1..3 (always fewer
\* than texts), no malformed / wrong-version forms; histories of any length.
\* Measured: 118 distinct states, 6375 generated = 3 initial + 6372 edges, ~2.5 s.
SPECIFICATION Spec
CONSTANTS
  Texts <- FTexts
  Valid <- FTexts
  HashOf <- FHash
  ImplHash <- FHash
  AltHashes <- NoAlt
  CanonOf <- NoCanon
  WrongHashes <- Wrong1
  Kinds <- LruOnly
  Caps <- Caps123
  MalKinds <- NoneOf
  MalWithHash <- NoneOf
  BadVers <- NoneOf
  History = FALSE
VIEW EdgeView
INVARIANTS TypeOK Bound LruOK
PROPERTIES ImplConforms ImplExtraOK CacheIsLru
ACTION_CONSTRAINT EmitEdge
CHECK_DEADLOCK FALSE
