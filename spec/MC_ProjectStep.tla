--------------------------- MODULE MC_ProjectStep ---------------------------
(* TLC configuration module for ProjectStep.tla (per-step verdicts).        *)
EXTENDS MC_Project, ProjectStep
=============================================================================
