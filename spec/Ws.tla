--------------------------------- MODULE Ws ---------------------------------
(***************************************************************************)
(* Property-level specification of one websocket connection of gqlgen's    *)
(* transport.Websocket (property C11).  It constrains only what the        *)
(* statement demands, in terms of the events that are observable from      *)
(* user code and from the wire:                                            *)
(*                                                                         *)
(*   CSend     the client writes a message (logged BEFORE the write)       *)
(*   Frame     the client has read a frame (logged AFTER the read; frames  *)
(*             arrive in the order they were written)                      *)
(*   CEnd      the client's reader saw the end of the connection           *)
(*   InitFn / CloseFn / ErrFn   the user callbacks are invoked             *)
(*   SrcStart / SrcEmit / SrcCancelSeen / SrcExit                          *)
(*             the user's subscription resolver ("Source") of one          *)
(*             operation INSTANCE (id, n-th start of that id): called,     *)
(*             returns its k-th value, observes ctx.Done, returns nil /    *)
(*             panics                                                      *)
(*   SrvCancel the server-side context of the connection is cancelled      *)
(*   Final     the session is over (everything waited for, second look)    *)
(*                                                                         *)
(* Both recorded executions (WsTrace, mechanism B) and the implementation- *)
(* level model WsImpl (refinement) are checked against the guards below.   *)
(* The state is ONE record `w`; every event E has a guard  E_G(w, c, ...)  *)
(* and an update  E_F(w, ...)  so that WsImpl can apply the update and     *)
(* record a violated guard instead of being restricted by it.              *)
(*                                                                         *)
(* Named deviations of the pinned tree (known findings, DESIGN section 7   *)
(* #11).  With the constant FALSE the guard is the property; with TRUE the *)
(* deviating step is admitted (and recorded in w.devs) so that the rest of *)
(* such a trace is still checked:                                          *)
(*   AllowDupStart    a second operation with an id whose operation is     *)
(*                    still executing is started (SrcStart while another   *)
(*                    instance of the id runs); `stop(id)` then does not   *)
(*                    reach the first one                                  *)
(*   AllowSilentInit  connection_init with a payload that is not a JSON    *)
(*                    object: the handler returns without close frame,     *)
(*                    without closing the socket, without CloseFunc        *)
(*                    (REPAIRED in /repo by 930d13f: the constant stays,   *)
(*                    FALSE in every registered configuration)             *)
(*   AllowDoubleError a resolver that set a subscription error and then    *)
(*                    panicked gets two `error` frames                     *)
(*   AllowRestartRace an id is started again right after its completion    *)
(*                    was received; the finished operation's deferred      *)
(*                    delete(active, id) removes the NEW registration, so  *)
(*                    stop(id) / close() do not cancel the new operation   *)
(*   AllowLateStart   (8c78f49 .. repaired by 46bea9c) subscribe()          *)
(*                    closes the connection on a duplicate id but the run  *)
(*                    loop goes on: a start that is already buffered       *)
(*                    behind it is registered and executed AFTER close()   *)
(*                    cancelled "every" operation - nothing cancels it     *)
(*                    (it outlives the connection when the InitFunc        *)
(*                    context does not descend from the request context)   *)
(***************************************************************************)
EXTENDS Naturals, Sequences, FiniteSets, TLC

CONSTANTS AllowDupStart, AllowSilentInit, AllowDoubleError, AllowRestartRace, AllowLateStart

\* c: configuration of the connection  [proto : "gws" | "tws", initfn : BOOLEAN, tmo : BOOLEAN]
\*    tmo = the server may end the connection by a timer of its own
\*          (InitTimeout, or PingPongInterval without MissingPongOk)

NewInst(id, kind) ==
  [id |-> id, kind |-> kind,       \* kind: "ok" executable subscription | "bad" fails before execution
   src |-> "none",                 \* Source: "none" | "run" | "exited"
   xk |-> "-",                     \* how it exited: "end" | "suberr" | "panic" | "sp" | "cancel"
   em |-> 0,                       \* values returned by the Source
   nx |-> 0, er |-> 0, cp |-> 0,   \* next / error / complete frames the client received
   late |-> FALSE,                 \* the Source was started after the close callback had fired
   stopped |-> FALSE,              \* the client sent stop(id) after this start
   csn |-> FALSE]                  \* the Source observed ctx.Done

W0 == [first |-> "none",           \* class of the first client message: "none" | "init" | "initbad" | "other"
       initFn |-> "none",          \* result of the InitFunc call: "none" | "accept" | "reject"
       acks |-> 0,
       I |-> <<>>,                 \* instance name -> NewInst record (function with growing domain)
       doom |-> FALSE,             \* something that ends the connection has been logged
       closeCalls |-> 0,
       cend |-> FALSE,             \* the client saw the end
       dupsent |-> FALSE,          \* the client sent a start for an id whose operation it had not seen terminated
       devs |-> {}]                \* named deviations used

Insts(w) == DOMAIN w.I
OfId(w, id) == {j \in Insts(w) : w.I[j].id = id}

\* the handshake has been accepted (NoExecBeforeAck refers to this)
Accepted(w, c) == w.first = "init" /\ (c.initfn => w.initFn = "accept")
Doomed(w, c) == w.doom \/ c.tmo \/ w.cend

\* ---------------------------------------------------------------- client --
\* message classes: init initbad start stop term invalid s2c abort closef ping pong
EndsConn(w, c, m) ==
  \/ m \in {"term", "invalid", "s2c", "abort", "closef", "initbad"}
  \/ (w.first = "none" /\ m # "init")
  \/ (w.first # "none" /\ m = "init")
  \/ (c.proto = "gws" /\ m \in {"ping", "pong"})

CSend_G(w, c, m, id, i) == m = "start" => i \notin Insts(w)
CSend_F(w, c, m, id, i, kind) ==
  LET f1 == IF w.first # "none" THEN w.first
            ELSE IF m = "init" THEN "init" ELSE IF m = "initbad" THEN "initbad" ELSE "other"
      I1 == IF m = "start" THEN [j \in Insts(w) \cup {i} |-> IF j = i THEN NewInst(id, kind) ELSE w.I[j]]
            ELSE IF m = "stop" THEN [j \in Insts(w) |-> IF w.I[j].id = id THEN [w.I[j] EXCEPT !.stopped = TRUE] ELSE w.I[j]]
            ELSE w.I
      \* a start whose id belongs to an operation the client has not seen terminated is a client
      \* protocol violation: the server MAY end the connection (graphql-transport-ws: 4409)
      dupId == m = "start" /\ \E j \in OfId(w, id) : w.I[j].cp = 0 /\ w.I[j].er = 0
  IN [w EXCEPT !.first = f1, !.I = I1, !.doom = w.doom \/ EndsConn(w, c, m) \/ dupId, !.dupsent = w.dupsent \/ dupId]

\* ------------------------------------------------------------- callbacks --
InitFn_G(w, c, res) == c.initfn /\ w.first = "init" /\ w.initFn = "none"
InitFn_F(w, res) == [w EXCEPT !.initFn = res, !.doom = w.doom \/ res = "reject"]

CloseFn_G(w, c) == w.closeCalls = 0                            \* CloseOnce, first half
CloseFn_F(w) == [w EXCEPT !.closeCalls = w.closeCalls + 1, !.doom = TRUE]

SrvCancel_F(w) == [w EXCEPT !.doom = TRUE]
CEnd_F(w) == [w EXCEPT !.cend = TRUE]

\* ---------------------------------------------------------------- source --
Overlap(w, i) == \E j \in OfId(w, w.I[i].id) : j # i /\ w.I[j].src = "run"

SrcStart_G(w, c, i) ==
  /\ i \in Insts(w) /\ w.I[i].kind = "ok" /\ w.I[i].src = "none"
  /\ Accepted(w, c)                                            \* NoExecBeforeAck
  /\ (Overlap(w, i) => AllowDupStart)                          \* one executing operation per id
SrcStart_F(w, i) ==
  [w EXCEPT !.I[i].src = "run", !.I[i].late = (w.closeCalls > 0),
            !.devs = IF Overlap(w, i) THEN w.devs \cup {"dup"} ELSE w.devs]

SrcEmit_G(w, i, k) == i \in Insts(w) /\ w.I[i].src = "run" /\ k = w.I[i].em + 1
SrcEmit_F(w, i) == [w EXCEPT !.I[i].em = w.I[i].em + 1]

\* a context is cancelled only for a reason: stop(id), or the connection is ending
SrcCancelSeen_G(w, c, i) == i \in Insts(w) /\ w.I[i].src = "run" /\ (w.I[i].stopped \/ Doomed(w, c))
SrcCancelSeen_F(w, i) == [w EXCEPT !.I[i].csn = TRUE]

SrcExit_G(w, i, xk) == i \in Insts(w) /\ w.I[i].src = "run" /\ (xk = "cancel" => w.I[i].csn)
SrcExit_F(w, i, xk) == [w EXCEPT !.I[i].src = "exited", !.I[i].xk = xk]

\* ---------------------------------------------------------------- frames --
\* frame classes: ack ka cerr ping pong next error complete
\* per operation instance:  next* (error | complete | error complete), nothing after
Frame_G(w, c, f, id, i, k) ==
  /\ ~w.cend
  /\ CASE f = "ack"  -> Accepted(w, c) /\ w.acks = 0
       [] f = "ka"   -> c.proto = "gws" /\ Accepted(w, c)
       [] f = "cerr" -> c.proto = "gws"
       [] f \in {"ping", "pong"} -> c.proto = "tws" /\ Accepted(w, c)
       [] f = "next" ->
            /\ i \in Insts(w) /\ w.I[i].id = id
            /\ w.I[i].kind = "ok" /\ w.I[i].src # "none"
            /\ k = w.I[i].nx + 1 /\ k <= w.I[i].em              \* in order, only what the Source produced
            /\ w.I[i].er = 0 /\ w.I[i].cp = 0                   \* no result after an error / a completion
       [] f = "error" ->
            /\ i \in Insts(w) /\ w.I[i].id = id
            /\ w.I[i].cp = 0                                    \* nothing after a completion
            /\ w.I[i].nx = w.I[i].em                            \* results first, then the termination
            /\ \/ w.I[i].er = 0
               \/ AllowDoubleError /\ w.I[i].er = 1 /\ w.I[i].xk = "sp"
            /\ \/ w.I[i].kind = "bad"
               \/ w.I[i].src = "exited" /\ w.I[i].xk \in {"suberr", "panic", "sp"}
       [] f = "complete" ->
            /\ i \in Insts(w) /\ w.I[i].id = id
            /\ w.I[i].cp = 0                                    \* at most one completion
            /\ w.I[i].nx = w.I[i].em                            \* results first, then the termination
            /\ \/ w.I[i].kind = "bad"
               \/ w.I[i].src = "exited"
       [] OTHER -> FALSE
Frame_F(w, f, id, i, k) ==
  CASE f = "ack"      -> [w EXCEPT !.acks = w.acks + 1]
    [] f = "next"     -> [w EXCEPT !.I[i].nx = w.I[i].nx + 1]
    [] f = "error"    -> [w EXCEPT !.I[i].er = w.I[i].er + 1,
                                   !.devs = IF w.I[i].er = 1 THEN w.devs \cup {"dblerr"} ELSE w.devs]
    [] f = "complete" -> [w EXCEPT !.I[i].cp = w.I[i].cp + 1]
    [] OTHER          -> w

\* --------------------------------------------------- absence observations --
\* "Stall": the driver waited (generously, twice) for something the property
\* demands and it did not happen while the connection stayed open.
\*   stop-cancel(i)  stop(id) was sent, Source i of that id still has not seen ctx.Done
\*   termination(i)  Source i ended by itself, neither error nor complete arrived
\*   delivery(i)     a value Source i returned was never delivered
\*   end             the connection must end (client sent a closing message) and did not
\* The property never admits a Stall; the named deviations do, in their situation:
OtherOfId(w, i) == OfId(w, w.I[i].id) \ {i}
\* (the duplicate-start deviation shows either as two Sources of one id running at once ("dup") or, when
\*  the goroutines are scheduled the other way round, only as its consequence: `dupsent` and an
\*  operation that nothing cancels)
DupSeen(w) == AllowDupStart /\ ("dup" \in w.devs \/ w.dupsent)
DupStall(w, i) == DupSeen(w) /\ i \in Insts(w) /\ OtherOfId(w, i) # {}
\* the id was restarted after an earlier operation of it was completed towards the client
RestartStall(w, i) == /\ AllowRestartRace /\ i \in Insts(w) /\ w.I[i].src = "run"
                      /\ \E j \in OtherOfId(w, i) : w.I[j].cp >= 1
Stall_G(w, c, what, i) ==
  \/ what = "stop-cancel" /\ (DupStall(w, i) \/ RestartStall(w, i))
  \/ what = "end" /\ AllowSilentInit /\ w.first = "initbad"
Stall_F(w, what, i) ==
  [w EXCEPT !.devs = w.devs \cup {IF what = "end" THEN "silentinit" ELSE IF DupStall(w, i) THEN "dup-stop" ELSE "restart"}]

\* end of the session: CloseCancels (no Source still waiting on an uncancelled
\* context), CloseOnce second half, nothing of the transport package alive
Tolerated(w) == DupSeen(w) \/ (AllowRestartRace /\ "restart" \in w.devs)
StillRunning(w) == {i \in Insts(w) : w.I[i].src = "run"}
\* an operation that began to execute after close() had already cancelled "every" operation
LateRunning(w) == {i \in StillRunning(w) : w.I[i].late}
Final_G(w, c, leaked) ==
  /\ leaked = 0 \/ Tolerated(w) \/ (AllowLateStart /\ LateRunning(w) # {})
  /\ \A i \in StillRunning(w) : (Tolerated(w) /\ OtherOfId(w, i) # {}) \/ (AllowLateStart /\ w.I[i].late)
  /\ \/ w.closeCalls = 1
     \/ AllowSilentInit /\ w.first = "initbad" /\ w.closeCalls = 0
Final_F(w, leaked) ==
  [w EXCEPT !.devs = w.devs \cup (IF LateRunning(w) # {} THEN {"late-outlives"} ELSE {})
                            \cup (IF (leaked > 0 /\ LateRunning(w) = {}) \/ StillRunning(w) \ LateRunning(w) # {} THEN {"outlives"} ELSE {})
                            \cup (IF w.closeCalls = 0 THEN {"silentinit"} ELSE {})]

\* ------------------------------------------------ stand-alone state machine --
\* (sanity model: the environment may produce any event whose guard holds)
VARIABLES w, c
wsvars == <<w, c>>

MsgClasses == {"init", "initbad", "start", "stop", "term", "invalid", "s2c", "abort", "closef", "ping", "pong"}
FrameClasses == {"ack", "ka", "cerr", "ping", "pong", "next", "error", "complete"}
CONSTANTS SInsts, SIds, SK          \* bounds of the sanity model only

WsInit == w = W0 /\ c \in [proto : {"gws", "tws"}, initfn : BOOLEAN, tmo : {FALSE}]

WsNext ==
  \/ \E m \in MsgClasses, id \in SIds, i \in SInsts, kind \in {"ok", "bad"} :
        /\ Cardinality(Insts(w)) < Cardinality(SInsts) \/ m # "start"
        /\ CSend_G(w, c, m, id, i) /\ ~w.cend /\ ~w.doom
        /\ w' = CSend_F(w, c, m, id, i, kind) /\ UNCHANGED c
  \/ \E res \in {"accept", "reject"} : InitFn_G(w, c, res) /\ w' = InitFn_F(w, res) /\ UNCHANGED c
  \/ CloseFn_G(w, c) /\ Doomed(w, c) /\ w' = CloseFn_F(w) /\ UNCHANGED c
  \/ ~w.doom /\ w' = SrvCancel_F(w) /\ UNCHANGED c
  \/ Doomed(w, c) /\ ~w.cend /\ w' = CEnd_F(w) /\ UNCHANGED c
  \/ \E i \in SInsts :
        \/ SrcStart_G(w, c, i) /\ w' = SrcStart_F(w, i) /\ UNCHANGED c
        \/ SrcEmit_G(w, i, IF i \in Insts(w) THEN w.I[i].em + 1 ELSE 0) /\ w.I[i].em < SK /\ w' = SrcEmit_F(w, i) /\ UNCHANGED c
        \/ SrcCancelSeen_G(w, c, i) /\ ~w.I[i].csn /\ w' = SrcCancelSeen_F(w, i) /\ UNCHANGED c
        \/ \E xk \in {"end", "suberr", "panic", "sp", "cancel"} : SrcExit_G(w, i, xk) /\ w' = SrcExit_F(w, i, xk) /\ UNCHANGED c
  \/ \E f \in FrameClasses, id \in SIds, i \in SInsts, k \in 0..SK :
        /\ Frame_G(w, c, f, id, i, k) /\ (f \in {"ka", "cerr", "ping", "pong"} => FALSE)
        /\ w' = Frame_F(w, f, id, i, k) /\ UNCHANGED c

WsSpec == WsInit /\ [][WsNext]_wsvars

\* what the guards establish, as state invariants of the stand-alone machine
NoExecBeforeAck == \A i \in Insts(w) : w.I[i].src # "none" => Accepted(w, c)
InstGrammar ==
  \A i \in Insts(w) :
     /\ w.I[i].cp <= 1 /\ w.I[i].nx <= w.I[i].em
     /\ (w.I[i].er > 0 /\ "dblerr" \notin w.devs) => w.I[i].er = 1
     /\ (w.I[i].cp > 0 \/ w.I[i].er > 0) => (w.I[i].kind = "bad" \/ w.I[i].src = "exited")
CloseOnce == w.closeCalls <= 1
CancelHasCause == \A i \in Insts(w) : w.I[i].csn => (w.I[i].stopped \/ Doomed(w, c))
OnePerId == "dup" \notin w.devs => \A i, j \in Insts(w) : (i # j /\ w.I[i].id = w.I[j].id) => ~(w.I[i].src = "run" /\ w.I[j].src = "run")
=============================================================================
