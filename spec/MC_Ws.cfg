\* Ws stand-alone (property level): the environment may produce any event whose guard holds; the
\* invariants are what the guards establish.  2 instances of 1 id, SK = 1 value per Source, both
\* subprotocols, with and without InitFunc.  Measured: see notes/C11.md.
SPECIFICATION WsSpec
CONSTANTS
  AllowDupStart = FALSE
  AllowSilentInit = FALSE
  AllowRestartRace = FALSE
  AllowLateStart = FALSE
  AllowDoubleError = FALSE
  SInsts <- MCSInsts
  SIds <- MCSIds
  SK = 1
INVARIANTS NoExecBeforeAck InstGrammar CloseOnce CancelHasCause OnePerId
CHECK_DEADLOCK FALSE
