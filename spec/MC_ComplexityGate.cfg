\* C14 gate histories, quick tier: 4 query texts x cost assignments that read $n x 4 cache kinds x {$n: Int, $n: Int = 100} x
\* all sequences of 2 requests from {n absent, 3, 100} x {limit = Cx-1, limit = Cx}.
\* Measured: 256 initial states, 11,008 distinct states, depth 3, 9,216 maximal histories printed; ~10-20 s.
CONSTANTS
  MaxH = 2
  MaxD = 1
  MaxSize = 3
  MaxCustom = 2
  Corpus = "hist"
  Emit = TRUE
  MaxReqs = 2
  CacheKinds = {"none", "map", "lru", "lru1"}
  Mode = "hist"
SPECIFICATION GSpec
ACTION_CONSTRAINT EmitHist
INVARIANTS GateIndependent CacheInv TArgMono TArgMatters TBindState CtxIndependent OverLimitRunsNothing CtxInv
CHECK_DEADLOCK FALSE
