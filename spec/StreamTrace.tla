---------------------------- MODULE StreamTrace ----------------------------
(* Trace validation for C12.  A trace is what a REAL client read from a     *)
(* real net/http connection to handler.Server with transport.SSE /          *)
(* transport.MultipartMixed, tokenised by the harness's own strict parsers  *)
(* (cmd/c12/parse.go), plus what the server side logged (payloads produced).*)
(* The tokens are matched against the write steps of Stream; everything     *)
(* else (begin of a write, flushes, ticks, the source, net/http's           *)
(* finishRequest) is silent and inferred by TLC.                            *)
(*                                                                          *)
(*   {"e":"Reset","ix":J,"kind":"sse"|"mm","n":N,"ka":"t"|"f","disc":"t"|"f",*)
(*    "nx":L,"fail":F,"pos":P}                                              *)
(*              J = number of the trace in the file, L = line of the next   *)
(*              Reset (or last line + 1); F = position of the payload whose *)
(*              serialization fails (0 = none); P = number of this request  *)
(*              on its handler (1 = the handler - the server process - is   *)
(*              fresh; P > 1: the trace before this one in the file is the  *)
(*              previous request of the same handler)                       *)
(*   {"e":"Tok","k":K,"id":I,"ids":[..],"hn":"t"|"f"|"-","rem":R}           *)
(*        K in pre next ping complete bad | bnd hdr init incr close |       *)
(*        errblob (the bare JSON error object handler.Server's recover      *)
(*        writes into a stream whose payload could not be encoded);         *)
(*        runs of pings are collapsed to one token by the tokeniser;        *)
(*        rem = Tok lines left in this stream, this one included            *)
(*   {"e":"Deadline","k":"-","at":C}                                        *)
(*        the request context was cancelled SERVER-SIDE (a cancelling /     *)
(*        timeout middleware around handler.Server; the client stays        *)
(*        connected) inside the source's call number C + 1, i.e. after it   *)
(*        had produced C payloads: Stream's Deadline at got = C, mpc = recv.*)
(*        The line stands before the first token that can only have been    *)
(*        written afterwards (sse: right after `next C`; mm: before the     *)
(*        part that carries the first payload id >= C).  Deadline is never  *)
(*        a silent step: only a logged cancellation is one.                 *)
(*   {"e":"End","eof":"clean"|"cut"|"broken","produced":P}                  *)
(*        clean: the body ended with the terminating chunk;                 *)
(*        cut: the harness's client closed the connection on purpose;       *)
(*        broken: the chunked framing is corrupt, or the connection died    *)
(*                before the terminating chunk                              *)
(*                                                                          *)
(* Strict configuration (StreamTrace.cfg: LockWrites, StopKA = TRUE) = the   *)
(* property.  StreamTraceDev.cfg admits the two known deviations of the     *)
(* pinned sse.go as the model's own behaviour with the constants FALSE:     *)
(* pings may follow `complete`; and from the first write that overlapped    *)
(* another access (dirty) on, the byte stream is unreliable (tokens may      *)
(* vanish, `bad` blocks and duplicates may appear, the stream may break     *)
(* off) - everything BEFORE that point is still checked strictly.           *)
(*                                                                          *)
(* Histories: a Reset line with pos > 1 keeps what the handler keeps between *)
(* requests (Stream's `carry`) - nothing in the strict configuration, so a   *)
(* later request is accepted iff it is a behaviour of a FRESH handler.      *)
(* SharedBuf = TRUE (used only to name the deviation of a rejected trace):  *)
(* an event of a request that follows a failed serialization may be `bad`.  *)
(*                                                                          *)
(* One TLC run examines EVERY trace of the file: with AllowSkip a behaviour *)
(* may step over a whole trace (TSkip, only from its Reset line), so a      *)
(* rejected trace does not hide the ones behind it; a trace counts as       *)
(* accepted iff some behaviour consumed its End line (register 2); the      *)
(* postcondition prints the accepted set.  With AllowSkip = FALSE (single   *)
(* trace, diagnosis) the high-water mark gives the first unexplained line.  *)
EXTENDS Stream, Json

CONSTANT AllowSkip

Trace == ndJsonDeserialize("trace.ndjson")

VARIABLES l,        \* next trace line
          cur,      \* number of the trace being examined
          garbled,  \* a dirty write was absorbed since the last intact token
          sdisc     \* this scenario's client disconnects on purpose
tvars == <<vars, l, cur, garbled, sdisc>>

IsEvent(e) == l <= Len(Trace) /\ Trace[l].e = e /\ l' = l + 1
IsTok(k) == l <= Len(Trace) /\ Trace[l].e = "Tok" /\ Trace[l].k = k /\ l' = l + 1

TraceInit ==
  /\ InitWith("sse", 0, FALSE) /\ failAt = 0
  /\ l = 1 /\ cur = 0 /\ garbled = FALSE /\ sdisc = FALSE
  /\ TLCSet(1, 1) /\ TLCSet(2, {})

TReset ==
  /\ IsEvent("Reset")
  /\ kind' = Trace[l].kind /\ n' = Trace[l].n /\ ka' = (Trace[l].ka = "t")
  /\ sink' = <<>> /\ cancelled' = FALSE /\ disc' = FALSE
  /\ mpc' = (IF Trace[l].kind = "sse" THEN "w0" ELSE "recv") /\ got' = 0
  /\ mtok' = STok("pre", 0) /\ mu' = "free" /\ acc' = {}
  /\ dirty' = [p \in {"main", "ka"} |-> FALSE]
  /\ kpc' = "off" /\ tick' = FALSE /\ nticks' = 0 /\ kastop' = FALSE /\ fin' = "no" /\ uaf' = FALSE
  /\ aInit' = FALSE /\ aDef' = <<>> /\ dsig' = FALSE
  /\ tpc' = (IF Trace[l].kind = "mm" THEN "run" ELSE "stopped")
  /\ garbled' = FALSE /\ sdisc' = (Trace[l].disc = "t") /\ cur' = Trace[l].ix
  /\ failAt' = Trace[l].fail /\ req' = Trace[l].pos /\ crashed' = FALSE
  /\ carry' = (IF Trace[l].pos = 1 THEN FALSE ELSE carry)

\* step over the whole trace that starts at this Reset line
TSkip ==
  /\ AllowSkip
  /\ l <= Len(Trace) /\ Trace[l].e = "Reset"
  /\ l' = Trace[l].nx
  \* SharedBuf: a skipped request whose serialization fails may leave a residue, any skipped request may use one up
  /\ LET c0 == IF Trace[l].pos = 1 THEN FALSE ELSE carry   \* (a first request is served by a fresh handler)
     IN carry' \in (IF SharedBuf /\ (Trace[l].fail > 0 \/ c0) THEN BOOLEAN ELSE {c0})
  /\ UNCHANGED <<rvars, failAt, req, crashed, cur, garbled, sdisc>>

Silent ==
  /\ \/ MWriteBegin \/ MWriteDropped \/ MFlushBegin \/ MFlushEnd \/ MStartKA \/ MRecv \/ MRecvNil \/ MReset \/ MClose
     \/ MEncodeFail \/ MPanicClose \/ MPFlushBegin \/ MPFlushEnd \/ MBlobBegin
     \/ Tick \/ KPingBegin \/ KFlushBegin \/ KFlushEnd \/ KStop
     \/ ServerCancel \/ FinBegin \/ FinEnd
     \/ (sdisc /\ Disconnect)
     \/ (disc /\ (MWriteEnd \/ KPingEnd \/ MBlobEnd))           \* the client no longer sees what is written
     \/ MMRecvAdd \/ MMRecvNil \/ MMDoneSig \/ MMTick \/ MMTickerStop
     \/ ((FlushEmit = <<>> \/ disc) /\ (MMFlushTick \/ MMDoneFlush))
  /\ UNCHANGED <<l, cur, garbled, sdisc>>

\* Once a write has overlapped another access to the ResponseWriter (only
\* reachable with LockWrites = FALSE or StopKA = FALSE) the byte stream is
\* unreliable from there on: net/http's bufio.Writer may drop, duplicate or
\* interleave bytes, and a short write makes it refuse everything later.
Seen(p) == garbled' = (garbled \/ dirty[p])

TPre == IsTok("pre") /\ ~disc /\ mtok.k = "pre" /\ MWriteEnd /\ Seen("main") /\ UNCHANGED <<cur, sdisc>>
TNext == /\ IsTok("next") /\ ~disc
         /\ mtok.k = "next" /\ mtok.id = Trace[l].id
         /\ MWriteEnd /\ Seen("main") /\ UNCHANGED <<cur, sdisc>>
TComplete == IsTok("complete") /\ ~disc /\ mtok.k = "complete" /\ MWriteEnd /\ Seen("main") /\ UNCHANGED <<cur, sdisc>>
\* SharedBuf only (mtok.k = "bad" is unreachable otherwise): an event assembled on the residue of a failed serialization
TBadEvent == IsTok("bad") /\ ~disc /\ mtok.k = "bad" /\ MWriteEnd /\ Seen("main") /\ UNCHANGED <<cur, sdisc>>
\* the recovered panic's bare error object (both kinds)
TBlob == IsTok("errblob") /\ ~disc /\ MBlobEnd /\ Seen("main") /\ UNCHANGED <<cur, sdisc>>
TDeadline == /\ IsEvent("Deadline") /\ got = Trace[l].at /\ mpc = "recv"
             /\ Deadline /\ UNCHANGED <<cur, garbled, sdisc>>
TPing == IsTok("ping") /\ ~disc /\ KPingEnd /\ Seen("ka") /\ UNCHANGED <<cur, sdisc>>

\* deviation: a write that overlapped another access, or any write after one, leaves no (intact) token
AbsorbM == ~disc /\ (dirty["main"] \/ garbled) /\ MWriteEnd /\ garbled' = TRUE /\ UNCHANGED <<l, cur, sdisc>>
AbsorbK == ~disc /\ (dirty["ka"] \/ garbled) /\ KPingEnd /\ garbled' = TRUE /\ UNCHANGED <<l, cur, sdisc>>
\* deviation: what arrives after an overlapped write may be anything (`bad` blocks, duplicates)
TJunk == /\ garbled
         /\ l <= Len(Trace) /\ Trace[l].e = "Tok" /\ l' = l + 1
         /\ UNCHANGED <<vars, cur, garbled, sdisc>>

Match(tr, o) == /\ tr.k = o.k
                /\ o.k \in {"init", "incr"} => (tr.ids = o.ids /\ tr.hn = o.hn)

\* one aggregator flush = the next Len(FlushOut) tokens (any batching the model can
\* reach is accepted); only a client that cut the stream may have seen part of a flush
TFlush(A) ==
  /\ ~disc /\ FlushEmit # <<>>
  /\ l <= Len(Trace) /\ Trace[l].e = "Tok"
  /\ LET out == FlushEmit
         m == IF Len(out) <= Trace[l].rem THEN Len(out) ELSE Trace[l].rem
     IN /\ (m < Len(out) => sdisc)
        /\ \A i \in 1..m : Match(Trace[l + i - 1], out[i])
        /\ l' = l + m
  /\ A
  /\ UNCHANGED <<cur, garbled, sdisc>>

TEnd ==
  /\ IsEvent("End")
  /\ CASE Trace[l].eof = "clean" ->
            /\ mpc = "returned" /\ ~disc
            /\ got = Trace[l].produced
            \* (got < n without a failure: only a source that ended on a context that was done - MRecvNil / MMRecvNil
            \*  require it -, i.e. after a logged Deadline; a client that left has no clean end)
            /\ (failAt = 0 /\ ~cancelled) => got = (IF kind = "sse" THEN n ELSE n + 1)
            /\ (failAt > 0 /\ kind = "sse") => got = failAt     \* the handler never asks for the payload after it
       [] Trace[l].eof = "cut" -> sdisc
       [] Trace[l].eof = "broken" -> (garbled \/ uaf)
       [] OTHER -> FALSE
  /\ TLCSet(2, TLCGet(2) \cup {cur})
  /\ UNCHANGED <<vars, cur, garbled, sdisc>>

\* (a dead process takes no step and writes nothing: crashed streams are reported by the harness, not validated)
TraceNext == \/ TReset \/ TSkip
             \/ (~crashed /\ (\/ Silent \/ TDeadline \/ TPre \/ TNext \/ TComplete \/ TPing \/ TBadEvent \/ TBlob \/ AbsorbM \/ AbsorbK \/ TJunk
                              \/ TFlush(MMFlushTick) \/ TFlush(MMDoneFlush)))
             \/ TEnd
TraceSpec == TraceInit /\ [][TraceNext]_tvars

HighWater == TLCSet(1, IF l > TLCGet(1) THEN l ELSE TLCGet(1))
TraceAccepted ==
  /\ PrintT("ACCEPTED:" \o ToJson(TLCGet(2)))
  /\ IF AllowSkip \/ TLCGet(1) = Len(Trace) + 1 THEN TRUE
     ELSE /\ PrintT(<<"TRACE-REJECTED-AT", TLCGet(1)>>)
          /\ FALSE
=============================================================================
