------------------------------ MODULE LruTrace ------------------------------
(* Histories of Add / Get recorded on the REAL graphql/handler/lru cache     *)
(* (lru.New[string](n) from the tree under test, observed only through the  *)
(* public graphql.Cache API by a recording decorator) against Lru.tla.      *)
(*                                                                          *)
(* The operations are INPUTS of the harness, so the machine of Lru follows  *)
(* them deterministically (LruDo) and never blocks; what the real cache     *)
(* ANSWERED to a Get is judged on two levels:                               *)
(*   PROPERTY level (the verdict, printed as {"bad":line,..}):              *)
(*     own    - a hit returns a value that was Added under that very key    *)
(*              (never a value Added under another key, never an unknown    *)
(*              one).  This is what C15 needs from ANY cache.               *)
(*   IMPLEMENTATION level (drift only, printed as {"drift":line,..}, first  *)
(*   one per history):                                                      *)
(*     latest - a hit returns the value MOST RECENTLY Added under the key   *)
(*              (a stale value of the same key cannot change which text an  *)
(*              APQ hash resolves to: all values of one hash are one text); *)
(*     model  - hit / miss and value exactly as the LRU machine prescribes  *)
(*              (capacity, least-recently-used victim, refresh on Get/Add). *)
(*                                                                          *)
(* trace.ndjson: {"e":"Reset","cap":n,"id":..} then per operation           *)
(*   {"e":"Op","op":"add"|"get","k":key,"v":value|"-",                      *)
(*    "hit":"y"|"n"|"-","rk":key under which the returned value was minted, *)
(*    "rv":the value returned}   ("?"-prefixed when the harness never       *)
(*                                minted the returned string)               *)
(* consts.json: {"keys":[..],"vals":[..]}                                   *)
EXTENDS Lru, TLC, Json

Trace == ndJsonDeserialize("trace.ndjson")
C     == JsonDeserialize("consts.json")
ToSet(s) == {s[i] : i \in 1..Len(s)}
CKeys == ToSet(C.keys)
CVals == ToSet(C.vals)
CCaps == 1..512

VARIABLES l, drifted
tvars == <<lvars, l, drifted>>

IsEvent(e) == l <= Len(Trace) /\ Trace[l].e = e /\ l' = l + 1

TraceInit == LruInitState(1) /\ l = 1 /\ drifted = FALSE /\ TLCSet(1, 1)

TReset ==
  /\ IsEvent("Reset")
  /\ cap' = Trace[l].cap
  /\ ord' = <<>> /\ val' = [k \in {} |-> Miss]
  /\ last' = [k \in Keys |-> Miss] /\ added' = {}
  /\ lbl' = Lbl("init", Miss, Miss, Miss, Miss)
  /\ drifted' = FALSE

TOp ==
  /\ IsEvent("Op")
  /\ LET ln == Trace[l]
         hit == ln.hit = "y"
         own == hit => (ln.rk = ln.k /\ <<ln.k, ln.rv>> \in added)
         latest == hit => (ln.rk = ln.k /\ ln.rv = last[ln.k])
         model == /\ hit <=> (ln.k \in DOMAIN val)
                  /\ hit => (ln.rk = ln.k /\ ln.rv = val[ln.k])
         want == IF ln.k \in DOMAIN val THEN val[ln.k] ELSE Miss
         isget == ln.op = "get"
     IN /\ ln.k \in Keys
        /\ LruDo(ln.op, ln.k, ln.v)
        /\ drifted' = (drifted \/ (isget /\ ~(latest /\ model)))
        /\ (IF ~isget \/ own THEN TRUE
            ELSE PrintT(ToJson([bad |-> l, rules |-> [own |-> own, latest |-> latest, model |-> model], want |-> want])))
        /\ (IF ~isget \/ ~own \/ drifted \/ (latest /\ model) THEN TRUE
            ELSE PrintT(ToJson([drift |-> l, latest |-> latest, model |-> model, want |-> want, order |-> ord])))

TraceNext == TReset \/ TOp
TraceSpec == TraceInit /\ [][TraceNext]_tvars

HighWater == TLCSet(1, IF l > TLCGet(1) THEN l ELSE TLCGet(1))

TraceAccepted ==
  IF TLCGet(1) = Len(Trace) + 1 THEN TRUE
  ELSE /\ PrintT(<<"TRACE-REJECTED-AT", TLCGet(1)>>)
       /\ FALSE
=============================================================================
