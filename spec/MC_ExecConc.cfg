\* exhaustive, repaired templates; constants overridden per run by the driver (sed)
SPECIFICATION Spec
CONSTANTS
  N = 3
  WL = 1
  G = 1
  Transport = "drain"
  FixAcquire = TRUE
  FixDefer = TRUE
VIEW view
INVARIANTS TypeOK SemOK
PROPERTIES Termination NoLeak Ends
CHECK_DEADLOCK FALSE
