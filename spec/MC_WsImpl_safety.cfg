\* WsImpl, exhaustive, safety only (same template as MC_WsImpl.cfg without the temporal properties:
\* used for the larger variants).
INIT Init
NEXT Next
CONSTANTS
  AllowDupStart = FALSE
  AllowSilentInit = FALSE
  AllowRestartRace = FALSE
  AllowLateStart = FALSE
  AllowDoubleError = FALSE
  SInsts = {}
  SIds = {}
  SK = 0
  MCProto = "gws"
  MCInitFn = FALSE
  MCInitTimeout = FALSE
  MCKA = FALSE
  MCPO = FALSE
  MCPP = FALSE
  MCMissingPongOk = FALSE
  MCCancel = FALSE
  MCDetached = FALSE
  AllInsts <- MCInsts1
  Ids <- MCIds1
  IdOfInst <- MCIdOf1
  InstOrder <- MCOrder1
  Alphabet <- AlphaOps
  BadStarts = FALSE
  SrcKinds <- KindsAll
  MaxMsgs = 3
  K = 1
  MaxTicks = 0
  FixDup = TRUE
  FixDel = TRUE
  FixInit = TRUE
  FixLate = TRUE
  CloseCheckOutside = FALSE
  StopDeletes = FALSE
  Stalls = FALSE
  Linger = FALSE
  PreAcked = TRUE
  Bursts = FALSE
  Sync = FALSE
VIEW view
INVARIANTS TypeOK Refines WriteExclusion CloseOnceI NothingLeft StopCancelsI
CHECK_DEADLOCK FALSE
