------------------------------ MODULE Pipeline ------------------------------
(***************************************************************************)
(* Property C03: "nothing executes unless the operation passed parsing,    *)
(* validation and every gate".                                             *)
(*                                                                         *)
(* N concurrent requests walk through the steps of                         *)
(*   executor.CreateOperationContext / DispatchOperation / DispatchError   *)
(* of graphql/executor/executor.go:                                        *)
(*   parameter mutators (registration order) -> queryCache.Get -> parse    *)
(*   (-> no-operation check) -> [rule swap, when suggestions are disabled] *)
(*   -> validator.Validate against the CURRENT process-global rule set ->  *)
(*   queryCache.Add -> operation selection -> variable coercion -> context *)
(*   mutators -> operation interceptors -> Exec -> per response: response  *)
(*   interceptors -> root-field interceptors -> field interceptors ->      *)
(*   resolver; rejected requests: DispatchError (response interceptors     *)
(*   around an errors-only response).                                      *)
(*                                                                         *)
(* Shared state: the query cache (none / map / LRU) and gqlparser's        *)
(* process-global rule slice validator.specifiedRules, of which only the   *)
(* entries that matter are kept: "FOCT" (FieldsOnCorrectType), "NS" (its   *)
(* WithoutSuggestions flavour) and "ZERO" (a zero-valued Rule, nil         *)
(* RuleFunc, exposed by a racing append).                                  *)
(*                                                                         *)
(* RuleModel selects how the rule swap is modelled:                        *)
(*  "config": the REPAIRED design - the swap happens once, at              *)
(*            configuration time; requests never write the rule set.       *)
(*  "atomic": the current per-request swap, RemoveRule and ReplaceRule     *)
(*            each taken as ONE step (what the source text suggests).      *)
(*  "words" : the current per-request swap as compiled: RemoveRule =       *)
(*            read the slice header, later store a fresh slice;            *)
(*            ReplaceRule = read; then either store a fresh slice (name    *)
(*            found) or append in place (load header; store element and    *)
(*            store ONLY the length word - checked in the disassembly).    *)
(*                                                                         *)
(* GATES (round 3).  A gate is anything that must let the operation pass    *)
(* before it may execute: the parameter mutators, parsing, the validation   *)
(* rules, operation selection, variable coercion, the context mutators      *)
(* (auth / tenant gates, APQ, complexity limit ...), and the GET transport's *)
(* "queries only" check.  A mutator gate has THREE outcomes: it passes       *)
(* ("acc"), it returns an error ("rej"), or it PANICS ("pan"); a validation  *)
(* rule can panic on a document as well (document class "vpan").  A gate     *)
(* that panicked is a gate that did not pass: the property treats "pan"      *)
(* exactly like "rej" (Passed, I1, I4, I6, I7); only the shape of the        *)
(* error-only answer differs (PanicS: the panic unwinds CreateOperationContext*)
(* and the transport; Server.ServeHTTP recovers it - recover function, then *)
(* an errors-only body without the response interceptors; the websocket      *)
(* transport has already been hijacked and just closes the connection).      *)
(* cfg.tr is the transport the request arrives by.                           *)
(*                                                                         *)
(* Everything a request does between two shared-state steps is local; with *)
(* Fuse = TRUE such a run of local events is one step (exhaustive configs: *)
(* "all interleavings at shared-state steps"), with Fuse = FALSE one event *)
(* per step (trace validation).                                            *)
(***************************************************************************)
EXTENDS Integers, Sequences, FiniteSets, TLC

CONSTANTS
  Reqs,       \* request identities
  RuleModel,  \* "config" | "atomic" | "words"
  Fuse        \* BOOLEAN

VARIABLES
  cfg,    \* [exts, ck, cn, sugg, tr]: extension list, cache kind, LRU size, suggestions disabled, transport
  hdr,    \* the slice header of validator.specifiedRules: [a |-> array id, n |-> length]
  arrs,   \* backing arrays: [ArrIds -> Seq({"FOCT","NS","ZERO"})] (what was written)
  cache,  \* query cache: sequence of [q, cls], most recently used last
  rq,     \* [Reqs -> request description]
  pc,     \* [Reqs -> stage]
  todo,   \* [Reqs -> local events still to be produced in the current stage]
  log,    \* [Reqs -> events produced so far]              (history)
  tmp,    \* [Reqs -> [s: rule sequence read, h: header read]] locals of the swap
  glog    \* global order of cache operations              (history)

vars == <<cfg, hdr, arrs, cache, rq, pc, todo, log, tmp, glog>>

Hooks     == {"pm", "cm", "oi", "ri", "rf", "fi"}
ExecKinds == {"oi", "rf", "fi", "exec", "res"}    \* what a rejected request must never reach
LocalPC   == {"pm", "cm", "run", "err", "pan"}
Transports == {"direct", "post", "get", "form", "sse", "mixed", "ws"}
\* gates: commands [k, i, o] - the mutator gate (k \in {"pm","cm"}, registration
\* index i) does not pass: o = "rej" (returns an error) | "pan" (panics);
\* opt: operation type of the selected operation ("query" if none is selected)
NoReq     == [q |-> "", cls |-> "ok", opsel |-> "found", vcls |-> "good", opt |-> "query",
              gates |-> <<>>, rounds |-> <<>>, roots |-> <<>>]

Ev(k, d, i, f) == [k |-> k, d |-> d, i |-> i, f |-> f]

---------------------------------------------------------------------------
(* Event scripts.                                                          *)
(* m = "impl": shaped like the code (processExtensions folds from the last *)
(* extension to the first, each step wrapping what was built so far).      *)
(* m = "decl": the lifecycle word of the property statement, written       *)
(* independently: entries in registration order, inner part, exits in      *)
(* reverse order.  I3 relates the two.                                     *)

RECURSIVE Wrap(_, _, _, _, _)
Wrap(exts, h, i, f, inner) ==
  IF i > Len(exts) THEN inner
  ELSE LET rest == Wrap(exts, h, i + 1, f, inner)
       IN  IF exts[i][h] THEN <<Ev(h, "in", i, f)>> \o rest \o <<Ev(h, "out", i, f)>> ELSE rest

RECURSIVE Ins(_, _, _, _)
Ins(exts, h, f, i) ==
  IF i > Len(exts) THEN <<>>
  ELSE (IF exts[i][h] THEN <<Ev(h, "in", i, f)>> ELSE <<>>) \o Ins(exts, h, f, i + 1)
RECURSIVE Outs(_, _, _, _)
Outs(exts, h, f, i) ==
  IF i < 1 THEN <<>>
  ELSE (IF exts[i][h] THEN <<Ev(h, "out", i, f)>> ELSE <<>>) \o Outs(exts, h, f, i - 1)

Chain(m, exts, h, f, inner) ==
  IF m = "impl" THEN Wrap(exts, h, 1, f, inner)
  ELSE Ins(exts, h, f, 1) \o inner \o Outs(exts, h, f, Len(exts))

ResEv(f) == Ev("res", "call", 0, f)

RECURSIVE SubS(_, _, _, _)
SubS(m, exts, sub, j) ==
  IF j > Len(sub) THEN <<>>
  ELSE Chain(m, exts, "fi", sub[j], <<ResEv(sub[j])>>) \o SubS(m, exts, sub, j + 1)

\* a root field: root-field interceptors around (field interceptors around
\* the resolver, then the fields below it, each with its field interceptors)
RootS(m, exts, root) ==
  Chain(m, exts, "rf", root.f,
        Chain(m, exts, "fi", root.f, <<ResEv(root.f)>>) \o SubS(m, exts, root.sub, 1))

RECURSIVE RootsS(_, _, _, _)
RootsS(m, exts, roots, j) ==
  IF j > Len(roots) THEN <<>> ELSE RootS(m, exts, roots[j]) \o RootsS(m, exts, roots, j + 1)

\* one call of the response handler: kind "data" runs the fields, kind "nil"
\* is the call that ends a subscription
RoundS(m, exts, roots, kind) ==
  Chain(m, exts, "ri", "", IF kind = "data" THEN RootsS(m, exts, roots, 1) ELSE <<>>)
    \o <<Ev("resp", kind, 0, "")>>

RECURSIVE RoundsS(_, _, _, _, _)
RoundsS(m, exts, roots, rounds, j) ==
  IF j > Len(rounds) THEN <<>>
  ELSE RoundS(m, exts, roots, rounds[j]) \o RoundsS(m, exts, roots, rounds, j + 1)

\* DispatchOperation + the transport draining the response handler
OpS(m, exts, p) ==
  Chain(m, exts, "oi", "", <<Ev("exec", "call", 0, "")>>) \o RoundsS(m, exts, p.roots, p.rounds, 1)

\* DispatchError (response interceptors around an errors-only response); the
\* event-stream and websocket transports then tell the client that the
\* operation is over ("complete"), which the client notes as "nil"
ErrTail(tr)      == IF tr \in {"sse", "ws"} THEN <<Ev("resp", "nil", 0, "")>> ELSE <<>>
ErrS(m, exts, tr) == Chain(m, exts, "ri", "", <<>>) \o <<Ev("resp", "errors", 0, "")>> \o ErrTail(tr)

\* A panic inside CreateOperationContext unwinds the transport.  Over HTTP
\* Server.ServeHTTP recovers it: recover function (user code), then an
\* errors-only body - NO response interceptors.  The websocket transport runs
\* on a hijacked connection: unwinding its read loop cancels the connection
\* (the client sees it closed, no frame for the operation), then ServeHTTP
\* calls the recover function.  In direct mode the driver is the transport.
PanicS(tr) ==
  IF tr = "ws" THEN <<Ev("resp", "closed", 0, ""), Ev("recover", "call", 0, "")>>
  ELSE <<Ev("recover", "call", 0, ""), Ev("resp", IF tr = "direct" THEN "panic" ELSE "errors", 0, "")>>

\* answers that carry no data
ErrorOnly == {"errors", "panic", "closed"}

\* the GET transport dispatches queries only (checked after every other gate)
GetRefuses(tr, p) == tr = "get" /\ p.opt # "query"
RefS == <<Ev("resp", "errors", 0, "")>>

\* --- mutator gates ---------------------------------------------------------
\* outcome of gate (h, i) for request p: the first command naming it, else "acc"
GateOut(p, h, i) ==
  LET s == {j \in 1..Len(p.gates) : p.gates[j].k = h /\ p.gates[j].i = i}
  IN  IF s = {} THEN "acc" ELSE p.gates[CHOOSE j \in s : \A j2 \in s : j <= j2].o

\* the first gate of kind h, in registration order, that does not pass (0: none)
FirstFail(exts, h, p) ==
  LET s == {i \in 1..Len(exts) : exts[i][h] /\ GateOut(p, h, i) # "acc"}
  IN  IF s = {} THEN 0 ELSE CHOOSE i \in s : \A i2 \in s : i <= i2
StageOut(exts, h, p) ==
  LET ff == FirstFail(exts, h, p) IN IF ff = 0 THEN "acc" ELSE GateOut(p, h, ff)

\* "for _, p := range mutators { if err := p.Mutate...(..); err != nil { return } }":
\* an error ends the loop by return, a panic by unwinding
RECURSIVE Mut(_, _, _, _)
Mut(exts, h, p, i) ==
  IF i > Len(exts) THEN <<>>
  ELSE IF exts[i][h]
       THEN <<Ev(h, "call", i, "")>> \o (IF GateOut(p, h, i) # "acc" THEN <<>> ELSE Mut(exts, h, p, i + 1))
       ELSE Mut(exts, h, p, i + 1)

\* declarative counterpart: the implementing extensions in registration order
\* up to and including the first one that did not pass
MutD(exts, h, p) ==
  LET ff   == FirstFail(exts, h, p)
      last == IF ff = 0 THEN Len(exts) ELSE ff
      idx  == SelectSeq([i \in 1..Len(exts) |-> i], LAMBDA i : exts[i][h] /\ i <= last)
  IN  [j \in 1..Len(idx) |-> Ev(h, "call", idx[j], "")]

\* THE PROPERTY'S ANTECEDENT: the operation passed every gate.  A gate that
\* returned an error and a gate that panicked are both gates that did not pass.
GatePassed(p, h, i) == GateOut(p, h, i) = "acc"
Passed(exts, tr, p) ==
  /\ p.cls = "ok" /\ p.opsel = "found" /\ p.vcls = "good"
  /\ \A h \in {"pm", "cm"} : \A i \in 1..Len(exts) : exts[i][h] => GatePassed(p, h, i)
  /\ ~GetRefuses(tr, p)

\* what becomes of the request, following the pipeline order (the first gate
\* reached that does not pass decides)
Fate(exts, tr, p) ==
  IF StageOut(exts, "pm", p) = "pan" THEN "panicked"
  ELSE IF StageOut(exts, "pm", p) = "rej" THEN "rejected"
  ELSE IF p.cls = "vpan" THEN "panicked"
  ELSE IF p.cls # "ok" \/ p.opsel # "found" \/ p.vcls # "good" THEN "rejected"
  ELSE IF StageOut(exts, "cm", p) = "pan" THEN "panicked"
  ELSE IF StageOut(exts, "cm", p) = "rej" THEN "rejected"
  ELSE IF GetRefuses(tr, p) THEN "rejected"
  ELSE "accepted"

\* the complete event word the property prescribes for request p
Expected(exts, tr, p) ==
  LET pmw == MutD(exts, "pm", p)
      cmw == MutD(exts, "cm", p)
  IN  IF StageOut(exts, "pm", p) = "pan" THEN pmw \o PanicS(tr)
      ELSE IF StageOut(exts, "pm", p) = "rej" THEN pmw \o ErrS("decl", exts, tr)
      ELSE IF p.cls = "vpan" THEN pmw \o PanicS(tr)
      ELSE IF p.cls # "ok" \/ p.opsel # "found" \/ p.vcls # "good" THEN pmw \o ErrS("decl", exts, tr)
      ELSE IF StageOut(exts, "cm", p) = "pan" THEN pmw \o cmw \o PanicS(tr)
      ELSE IF StageOut(exts, "cm", p) = "rej" THEN pmw \o cmw \o ErrS("decl", exts, tr)
      ELSE IF GetRefuses(tr, p) THEN pmw \o cmw \o RefS
      ELSE pmw \o cmw \o OpS("decl", exts, p)

---------------------------------------------------------------------------
(* Stages.  A stage record says where a request goes next and which local  *)
(* events that stage produces; stages without events are skipped.          *)

ErrStage    == [pc |-> "err", todo |-> ErrS("impl", cfg.exts, cfg.tr)]
PanicStage  == [pc |-> "pan", todo |-> PanicS(cfg.tr)]
RunStage(p) == IF GetRefuses(cfg.tr, p) THEN [pc |-> "err", todo |-> RefS]
               ELSE [pc |-> "run", todo |-> OpS("impl", cfg.exts, p)]
CMStage(p)  == LET ev == Mut(cfg.exts, "cm", p, 1)
               IN  IF ev = <<>> THEN RunStage(p) ELSE [pc |-> "cm", todo |-> ev]
\* the document is there (from the cache or validated): operation selection,
\* variable coercion
PostDoc(p)  == IF p.opsel = "notfound" \/ p.vcls = "bad" THEN ErrStage ELSE CMStage(p)
PMStage(p)  == LET ev == Mut(cfg.exts, "pm", p, 1)
               IN  IF ev = <<>> THEN [pc |-> "cget", todo |-> <<>>] ELSE [pc |-> "pm", todo |-> ev]
\* after the mutator loop: all passed -> on; error returned -> DispatchError;
\* panic -> the stack unwinds to whoever recovers
AfterMut(h, p, next) ==
  LET o == StageOut(cfg.exts, h, p)
  IN  IF o = "acc" THEN next ELSE IF o = "rej" THEN ErrStage ELSE PanicStage
After(stage, p) ==
  CASE stage = "pm" -> AfterMut("pm", p, [pc |-> "cget", todo |-> <<>>])
    [] stage = "cm" -> AfterMut("cm", p, RunStage(p))
    [] OTHER        -> [pc |-> "done", todo |-> <<>>]

Goto(r, st) ==
  /\ pc'   = [pc EXCEPT ![r] = st.pc]
  /\ todo' = [todo EXCEPT ![r] = st.todo]

---------------------------------------------------------------------------
(* The rule slice.                                                         *)

ArrIds  == {"init", "rm", "rp"} \X Reqs
InitArr == <<"init", CHOOSE r \in Reqs : TRUE>>
NoArrs  == [a \in ArrIds |-> <<>>]

\* the rules a reader of the header sees: slots beyond what was written into
\* the backing array are zero values
Visible ==
  LET a == arrs[hdr.a]
  IN  [i \in 1..hdr.n |-> IF i <= Len(a) THEN a[i] ELSE "ZERO"]

Has(s, x)     == \E i \in 1..Len(s) : s[i] = x
Without(s, x) == SelectSeq(s, LAMBDA e : e # x)

---------------------------------------------------------------------------
(* Actions.                                                                *)

Start(r, p) ==
  /\ pc[r] = "idle"
  /\ rq'  = [rq EXCEPT ![r] = p]
  /\ log' = [log EXCEPT ![r] = <<>>]
  /\ Goto(r, PMStage(p))
  /\ UNCHANGED <<cfg, hdr, arrs, cache, tmp, glog>>

\* produce the next local event (all of the stage's events when fused)
Emit(r) ==
  /\ pc[r] \in LocalPC
  /\ todo[r] # <<>>
  /\ LET n    == IF Fuse THEN Len(todo[r]) ELSE 1
         rest == SubSeq(todo[r], n + 1, Len(todo[r]))
     IN  /\ log' = [log EXCEPT ![r] = @ \o SubSeq(todo[r], 1, n)]
         /\ Goto(r, IF rest = <<>> THEN After(pc[r], rq[r]) ELSE [pc |-> pc[r], todo |-> rest])
  /\ UNCHANGED <<cfg, hdr, arrs, cache, rq, tmp, glog>>

CachePos(q) == {i \in 1..Len(cache) : cache[i].q = q}
CacheHit(q) == cfg.ck # "none" /\ CachePos(q) # {}
Touch(q) ==
  IF cfg.ck = "lru"
  THEN LET i == CHOOSE j \in CachePos(q) : TRUE
       IN  SubSeq(cache, 1, i - 1) \o SubSeq(cache, i + 1, Len(cache)) \o <<cache[i]>>
  ELSE cache
AddC(e) ==
  IF cfg.ck = "none" THEN cache
  ELSE IF CachePos(e.q) # {} THEN Touch(e.q)
  ELSE LET c == Append(cache, e)
       IN  IF cfg.ck = "lru" /\ Len(c) > cfg.cn THEN Tail(c) ELSE c

\* e.queryCache.Get; on a miss: parse - under the server's token limit, so a
\* document with more tokens (class "tlim") ends here exactly like one that
\* does not parse, whatever it would have executed - and the no-operation
\* check (local)
CacheGet(r) ==
  /\ pc[r] = "cget"
  /\ LET p == rq[r] IN
       IF CacheHit(p.q)
       THEN /\ cache' = Touch(p.q)
            /\ glog'  = Append(glog, [r |-> r, op |-> "cget", d |-> "hit"])
            /\ Goto(r, PostDoc(p))
       ELSE /\ cache' = cache
            /\ glog'  = Append(glog, [r |-> r, op |-> "cget", d |-> "miss"])
            /\ Goto(r, IF p.cls \in {"perr", "tlim", "noop"} THEN ErrStage
                       ELSE [pc   |-> IF cfg.sugg /\ RuleModel # "config" THEN "rm" ELSE "validate",
                             todo |-> <<>>])
  /\ UNCHANGED <<cfg, hdr, arrs, rq, log, tmp>>

Step(r, from, to) == pc[r] = from /\ pc' = [pc EXCEPT ![r] = to]

\* validator.RemoveRule("FieldsOnCorrectType")
RmStore(r, s) ==
  LET a == <<"rm", r>>
      t == Without(s, "FOCT")
  IN  /\ arrs' = [arrs EXCEPT ![a] = t]
      /\ hdr'  = [a |-> a, n |-> Len(t)]
RmRead(r) ==
  /\ RuleModel = "words" /\ Step(r, "rm", "rmW")
  /\ tmp' = [tmp EXCEPT ![r].s = Visible]
  /\ UNCHANGED <<cfg, hdr, arrs, cache, rq, todo, log, glog>>
RmWrite(r) ==
  /\ Step(r, "rmW", "rp") /\ RmStore(r, tmp[r].s)
  /\ UNCHANGED <<cfg, cache, rq, todo, log, tmp, glog>>
RmAtomic(r) ==
  /\ RuleModel = "atomic" /\ Step(r, "rm", "rp") /\ RmStore(r, Visible)
  /\ UNCHANGED <<cfg, cache, rq, todo, log, tmp, glog>>

\* validator.ReplaceRule("FieldsOnCorrectTypeWithoutSuggestions", ...)
RpStore(r, s) ==   \* name found: the copy (with the entry replaced) becomes the rule set
  LET a == <<"rp", r>>
  IN  /\ arrs' = [arrs EXCEPT ![a] = s]
      /\ hdr'  = [a |-> a, n |-> Len(s)]
ApStore(h) ==      \* name not found: specifiedRules = append(specifiedRules, rule)
  LET old == arrs[h.a]
      new == [i \in 1..(IF Len(old) > h.n + 1 THEN Len(old) ELSE h.n + 1) |->
                IF i = h.n + 1 THEN "NS" ELSE IF i <= Len(old) THEN old[i] ELSE "ZERO"]
  IN  /\ arrs' = [arrs EXCEPT ![h.a] = new]     \* element stored through the pointer that was loaded
      /\ hdr'  = [hdr EXCEPT !.n = h.n + 1]     \* only the length word is stored
RpRead(r) ==
  /\ RuleModel = "words" /\ pc[r] = "rp"
  /\ pc'  = [pc EXCEPT ![r] = IF Has(Visible, "NS") THEN "rpW" ELSE "ap"]
  /\ tmp' = [tmp EXCEPT ![r].s = Visible]
  /\ UNCHANGED <<cfg, hdr, arrs, cache, rq, todo, log, glog>>
RpWrite(r) ==
  /\ Step(r, "rpW", "validate") /\ RpStore(r, tmp[r].s)
  /\ UNCHANGED <<cfg, cache, rq, todo, log, tmp, glog>>
ApRead(r) ==
  /\ Step(r, "ap", "apW")
  /\ tmp' = [tmp EXCEPT ![r].h = hdr]
  /\ UNCHANGED <<cfg, hdr, arrs, cache, rq, todo, log, glog>>
ApWrite(r) ==
  /\ Step(r, "apW", "validate") /\ ApStore(tmp[r].h)
  /\ UNCHANGED <<cfg, cache, rq, todo, log, tmp, glog>>
RpAtomic(r) ==
  /\ RuleModel = "atomic" /\ Step(r, "rp", "validate")
  /\ (IF Has(Visible, "NS") THEN RpStore(r, Visible) ELSE ApStore(hdr))
  /\ UNCHANGED <<cfg, cache, rq, todo, log, tmp, glog>>

\* validator.Validate(schema, doc): runs every rule of the slice it reads.
\* A zero-valued rule is a call of a nil RuleFunc: the request panics.
Validate(r) ==
  /\ pc[r] = "validate"
  /\ LET v == Visible
         p == rq[r]
     IN  IF Has(v, "ZERO") THEN Goto(r, [pc |-> "panicked", todo |-> <<>>])
         ELSE IF p.cls = "vpan" THEN Goto(r, PanicStage)   \* a (user-registered) rule panics on this document
         ELSE IF p.cls = "ok" \/ (p.cls = "unk" /\ ~Has(v, "FOCT") /\ ~Has(v, "NS"))
              THEN Goto(r, [pc |-> "cadd", todo |-> <<>>])
              ELSE Goto(r, ErrStage)
  /\ UNCHANGED <<cfg, hdr, arrs, cache, rq, log, tmp, glog>>

\* e.queryCache.Add, then on with the document
CacheAdd(r) ==
  /\ pc[r] = "cadd"
  /\ cache' = AddC([q |-> rq[r].q, cls |-> rq[r].cls])
  /\ glog'  = Append(glog, [r |-> r, op |-> "cadd", d |-> "call"])
  /\ Goto(r, PostDoc(rq[r]))
  /\ UNCHANGED <<cfg, hdr, arrs, rq, log, tmp>>

RuleStep(r) ==
  RmRead(r) \/ RmWrite(r) \/ RmAtomic(r) \/ RpRead(r) \/ RpWrite(r) \/ ApRead(r) \/ ApWrite(r) \/ RpAtomic(r)

\* (re)configure: a fresh executor; the global rule set starts as given
\* (current code) or as the configuration-time swap leaves it (repaired)
Load(c, rules0) ==
  /\ cfg'   = c
  /\ arrs'  = [NoArrs EXCEPT ![InitArr] =
                 IF RuleModel = "config" THEN (IF c.sugg THEN <<"NS">> ELSE <<"FOCT">>) ELSE rules0]
  /\ hdr'   = [a |-> InitArr, n |-> IF RuleModel = "config" THEN 1 ELSE Len(rules0)]
  /\ cache' = <<>>
  /\ rq'    = [r \in Reqs |-> NoReq]
  /\ pc'    = [r \in Reqs |-> "idle"]
  /\ todo'  = [r \in Reqs |-> <<>>]
  /\ log'   = [r \in Reqs |-> <<>>]
  /\ tmp'   = [r \in Reqs |-> [s |-> <<>>, h |-> [a |-> InitArr, n |-> 0]]]
  /\ glog'  = <<>>

---------------------------------------------------------------------------
(* The property.                                                           *)

Kinds(s) == {s[i].k : i \in 1..Len(s)}
IsPrefix(s, t) == Len(s) <= Len(t) /\ SubSeq(t, 1, Len(s)) = s

RqOf(r) == rq[r]
Ok(r) == Passed(cfg.exts, cfg.tr, RqOf(r))
RespD(s) == {s[i].d : i \in {j \in 1..Len(s) : s[j].k = "resp"}}

\* I0: the order-free statement "passed every gate" and the pipeline's verdict agree
I0 == \A r \in Reqs : pc[r] # "idle" => (Ok(r) <=> Fate(cfg.exts, cfg.tr, RqOf(r)) = "accepted")

\* I1: an interceptor / Exec / resolver event of r  =>  r passed every gate
\* (a gate that returned an error or panicked has not been passed)
I1 == \A r \in Reqs : Kinds(log[r]) \cap ExecKinds # {} => Ok(r)

\* I2: only documents that pass the full rule set are in the cache
I2 == \A i \in 1..Len(cache) : cache[i].cls = "ok"

\* I3: the events of a request are exactly the word the property prescribes
\* for it - for an accepted request the lifecycle word, first registered
\* extension outermost, every hook once per operation / response / field (the
\* word contains each exactly once); for a request that did not pass a gate
\* the gates up to that one and the error answer (DispatchError with the
\* response interceptors for an error; recover function and bare answer for a
\* panic)
I3 == \A r \in Reqs :
        pc[r] # "idle" =>
          LET e == Expected(cfg.exts, cfg.tr, RqOf(r))
          IN  /\ IsPrefix(log[r], e)
              /\ pc[r] = "done" => log[r] = e

\* I4: a request that did not pass every gate - rejected OR panicked - is
\* answered with errors only: at no moment has an answer of it carried data,
\* and when it is over it has been given an error answer
I4 == \A r \in Reqs :
        (pc[r] # "idle" /\ ~Ok(r)) =>
          /\ RespD(log[r]) \subseteq ErrorOnly \cup {"nil"}
          /\ pc[r] = "done" => RespD(log[r]) \cap ErrorOnly # {}

\* I6: PANIC EXACTLY AS REJECT.  At every moment, a request one of whose
\* gates panicked has produced nothing but gate calls, the recover function
\* and an error-only answer - in particular no response interceptor either -
\* and it never enters DispatchOperation or DispatchError.
I6 == \A r \in Reqs :
        (pc[r] # "idle" /\ Fate(cfg.exts, cfg.tr, RqOf(r)) = "panicked") =>
          /\ Kinds(log[r]) \subseteq {"pm", "cm", "recover", "resp"}
          /\ RespD(log[r]) \subseteq ErrorOnly
          /\ pc[r] \notin {"run", "err"}

\* I7: nothing is left behind by a request that did not get that far: a
\* request whose parameter gates did not all pass (error or panic) never
\* touches the query cache, and only a document that passed validation
\* (no error, no panicking rule) is ever added
I7 == \A r \in Reqs :
        /\ pc[r] \in {"cget", "rm", "rmW", "rp", "rpW", "ap", "apW", "validate", "cadd"}
              => StageOut(cfg.exts, "pm", RqOf(r)) = "acc"
        /\ (pc[r] = "cadd" /\ RuleModel = "config") => RqOf(r).cls = "ok"

\* I5: validation never runs into a nil rule
I5 == \A r \in Reqs : pc[r] # "panicked"

TypeOK ==
  /\ hdr.a \in ArrIds /\ hdr.n \in Nat
  /\ \A r \in Reqs : pc[r] \in {"idle", "pm", "cget", "rm", "rmW", "rp", "rpW", "ap", "apW",
                               "validate", "cadd", "cm", "run", "err", "pan", "done", "panicked"}
  /\ cfg.tr \in Transports
  /\ \A r \in Reqs : pc[r] \in LocalPC <=> todo[r] # <<>>
  /\ cfg.ck = "lru" => Len(cache) <= cfg.cn
  /\ cfg.ck = "none" => cache = <<>>
=============================================================================
