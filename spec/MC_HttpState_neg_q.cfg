\* C07 negative: the reset list without "q" (expected: violation for q, opn, vars, ext; none for hdr, rt)
CONSTANTS
  Requests <- RequestsNeg
  ResetFields <- No_q
  ResetEarly = FALSE
  CacheKey = "full"
  PoolMax = 1
  Slots = 1
  Configs <- CfgNone
  MergeInPlace = FALSE
  BufPool = FALSE
  TrackNeg = FALSE
  Once = FALSE
  WsScript <- WsNone
  WsPings = 0
  WsSharedMsg = FALSE
INIT Init
NEXT Next
VIEW view
CHECK_DEADLOCK FALSE
INVARIANTS OwnParams Isolation CacheTransparent
