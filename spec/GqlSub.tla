------------------------------- MODULE GqlSub -------------------------------
(***************************************************************************)
(* Subscriptions through the generated executor (C01 / C04 "subscription   *)
(* event"): the root resolver of the single subscribed field returns a     *)
(* stream; every event of the stream is completed like a query result of   *)
(* that field (same collection, completion, null propagation and error     *)
(* rules - GqlRef), and yields one response.  A failure while resolving    *)
(* the sub-selection of one event affects that event's response only.      *)
(*                                                                         *)
(* The plan of event i of root field f is keyed by the value path          *)
(* "<alias>~<i>"; resolver-backed fields below it are keyed by their       *)
(* response path (the same for every event).                               *)
(***************************************************************************)
EXTENDS GqlExec

VARIABLE ev   \* index of the event whose response is awaited (0-based)

svars == <<gvars, ev>>

\* reference result of event i: [d, errs, pos] for both directive orders
SubRef(s, i, o) ==
  LET C   == [S |-> Schema, plan |-> s.plan, dirplan |-> s.dirplan, frags |-> s.op.frags, dord |-> o]
      rt  == RootType(Schema, "subscription")
      cf  == CollectFields(Schema, rt, s.op.sels, s.op.frags)
      f   == cf[1]
      fd  == Schema.types[rt].fields[f.name]
      vp  == f.alias \o "~" \o ToString(i)
      r   == Complete(C, fd.wrap, fd.name, Out(s.plan, vp), f.sels, f.alias, vp)
      \* a null event of a NON-NULL root field nulls the data of that response
      bad == r.isnull /\ IsNN(fd.wrap)
  IN  [d      |-> IF bad THEN Null ELSE [t |-> "o", f |-> <<[k |-> f.alias, v |-> r.d]>>],
       isnull |-> bad,
       errs   |-> r.errs,
       pos    |-> r.pos \cup (IF i = 0 THEN {f.alias} ELSE {}),
       dinfo  |-> {}]

SubRefBoth(s, i) ==
  LET fwd == SubRef(s, i, "fwd")
  IN  [fwd |-> fwd, rev |-> IF DOMAIN s.dirplan = {} THEN fwd ELSE SubRef(s, i, "rev"), roots |-> <<>>]

SubLoad(s) ==
  /\ sc' = s
  /\ ref' = SubRefBoth(s, 0)
  /\ ev' = 0
  /\ started' = {} /\ ended' = {} /\ errs' = <<>> /\ recovers' = 0 /\ phase' = "running"

\* one event's response; then the next event is awaited with a clean slate
RespondEvent(data, rerrs) ==
  /\ phase = "running"
  /\ started = ended
  /\ \E o \in Orders :
       /\ started = ref[o].pos
       /\ data = ref[o].d
       /\ BagEq(rerrs, ref[o].errs)
       /\ recovers = NPanics(ref[o].errs)
  /\ BagEq(errs, rerrs)
  /\ ev' = ev + 1
  /\ ref' = SubRefBoth(sc, ev + 1)
  /\ started' = {} /\ ended' = {} /\ errs' = <<>> /\ recovers' = 0
  /\ UNCHANGED <<sc, phase>>

\* the stream ended (the response function returned nil) after exactly the planned number of events
StreamEnd(n) ==
  /\ phase = "running"
  /\ ev = n
  /\ started = {} /\ errs = <<>>
  /\ phase' = "done"
  /\ UNCHANGED <<sc, ref, started, ended, errs, recovers, ev>>
=============================================================================
