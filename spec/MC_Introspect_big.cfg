\* C16 view machine, thorough tier. Constants: Big = TRUE (relation slice over 4 types, wrappings up
\* to depth 5, full alphabets). Measured: 5368 schemas (242 of them SliceText), 10736 distinct states, depth 2, ~2-3 min
\* with -workers 1 (most of it enumerating the relation slice).
CONSTANTS
    Big = TRUE
    Schemas <- MCSchemas
    Ops <- MCOps
INIT VInit
NEXT VNext
INVARIANTS WellFormed RebuildAll RebuildCur ViewClosed ViewRelInv ViewNullKind
ACTION_CONSTRAINT EmitView
CHECK_DEADLOCK FALSE
