\* C07: two requests in flight, every interleaving of their steps, all pool choices (no export)
CONSTANTS
  Requests <- RequestsConc
  ResetFields <- AllSix
  ResetEarly = FALSE
  CacheKey = "full"
  PoolMax = 2
  Slots = 2
INIT Init
NEXT Next
VIEW view
CHECK_DEADLOCK FALSE
INVARIANTS TypeOK OwnParams Isolation ApqOnlyHashOnly CacheTransparent PoolClean
