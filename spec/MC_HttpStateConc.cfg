\* C07 - two requests in flight (Slots = 2): every interleaving of Start / Take / Decode / Mutate / Parse / AddCache /
\* Execute / Write / Finish of two requests (a response held between Execute and Write while the other request
\* runs), every pool choice, PoolMax = 2; RequestsConc (23 requests), server configured with headers that name
\* no Content-Type. No export.
\* Measured: 1,462,772 distinct states (3,359,353 generated), depth 45, 35 s with 3 workers.
CONSTANTS
  Requests <- RequestsConc
  ResetFields <- AllSix
  ResetEarly = FALSE
  CacheKey = "full"
  PoolMax = 2
  Slots = 2
  Configs <- CfgXsb
  MergeInPlace = FALSE
  BufPool = FALSE
  TrackNeg = FALSE
  Once = FALSE
  WsScript <- WsNone
  WsPings = 0
  WsSharedMsg = FALSE
INIT Init
NEXT Next
VIEW view
CHECK_DEADLOCK FALSE
INVARIANTS TypeOK OwnParams Isolation WriteOwn ConfigImmutable ApqOnlyHashOnly CacheTransparent PoolClean
