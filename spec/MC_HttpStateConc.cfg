\* C07 - two requests in flight (Slots = 2): every interleaving of Take / Decode / Mutate / Parse / AddCache /
\* Respond / Finish of two requests, every pool choice, PoolMax = 2; RequestsConc (27 requests). No export.
\* Measured: 1,401,164 distinct states (3,306,089 generated), depth 40, 68 s with 4 workers.
CONSTANTS
  Requests <- RequestsConc
  ResetFields <- AllSix
  ResetEarly = FALSE
  CacheKey = "full"
  PoolMax = 2
  Slots = 2
  Configs <- CfgXsb
  MergeInPlace = FALSE
  BufPool = FALSE
  TrackNeg = FALSE
  Once = FALSE
INIT Init
NEXT Next
VIEW view
CHECK_DEADLOCK FALSE
INVARIANTS TypeOK OwnParams Isolation WriteOwn ConfigImmutable ApqOnlyHashOnly CacheTransparent PoolClean
