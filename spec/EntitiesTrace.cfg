\* trace validation against the pinned tree; the driver edits ReqInline per probe variant and
\* re-validates rejected traces with Fix* = TRUE (the repaired design) before reporting
SPECIFICATION TraceSpec
CONSTANTS
  MaxLen = 4
  Alphabet = {"S"}
  Outcomes = {"ent", "nil", "err", "panic"}
  BatchOutcomes = {"ok", "short", "long", "err", "panic"}
  MaxFaults = 1
  ReqInline = TRUE
  FixFirstRep = FALSE
  FixShort = FALSE
  FixNilReq = FALSE
  FixBadReq = FALSE
  FixBadKey = FALSE
CONSTRAINT HighWater
INVARIANTS TypeOK OwnIndexOnly CorrectModuloKnown
POSTCONDITION TraceAccepted
CHECK_DEADLOCK FALSE
