\* C07 round 3 - the twin instance: documents that differ only in bytes that look insignificant and are not
\* (blanks / a comma inside a string argument, a block string's line break, the line terminator \n or \r that
\* ends a comment) and a control pair that really is equivalent; over GET, POST and the websocket (39 requests);
\* servers constructed with the LRU query cache ("none"), graphql.MapCache ("map") and no cache ("nocache") -
\* three initial states.  The exported state holds the cached texts, so the edge cover serves twin B from the
\* state in which twin A is cached, and A where B is (TwinFocus: at most one family cached at a time).
\* Measured: 23,781 distinct states (3 initial), 1,631 edges, 4 s (-workers 1).
CONSTANTS
  Requests <- RequestsTwin
  ResetFields <- AllSix
  ResetEarly = FALSE
  CacheKey = "full"
  PoolMax = 1
  Slots = 1
  Configs <- CfgCaches
  MergeInPlace = FALSE
  BufPool = FALSE
  TrackNeg = FALSE
  Once = FALSE
  WsScript <- WsNone
  WsPings = 0
  WsSharedMsg = FALSE
INIT Init
NEXT Next
VIEW view
CHECK_DEADLOCK FALSE
CONSTRAINT TwinFocus
INVARIANTS TypeOK OwnParams Isolation WriteOwn ConfigImmutable ApqOnlyHashOnly CacheTransparent PoolClean
ACTION_CONSTRAINT EmitEdge
