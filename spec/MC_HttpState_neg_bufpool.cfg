\* C07 negative: Exec marshals into a pooled buffer that it hands back while the response still aliases it
\* (expected: Isolation violated - a request executed while a response is held overwrites the held bytes).
\* Sequentially (Slots = 1) the same deviation violates nothing: MC_HttpState_neg_bufpool_seq.cfg.
CONSTANTS
  Requests <- RequestsHeld
  ResetFields <- AllSix
  ResetEarly = FALSE
  CacheKey = "full"
  PoolMax = 1
  Slots = 2
  Configs <- CfgNone
  MergeInPlace = FALSE
  BufPool = TRUE
  TrackNeg = FALSE
  Once = FALSE
  WsScript <- WsNone
  WsPings = 0
  WsSharedMsg = FALSE
INIT Init
NEXT Next
VIEW view
CHECK_DEADLOCK FALSE
INVARIANTS OwnParams Isolation CacheTransparent
