\* Project.tla, INTENDED DESIGN (Dev = {}): every C19 / C18 / C17 property is checked by TLC.
\* Constants: 3 resolver fields (Query.f1, Query.f2, T.g) x 2 schema files x 2 edit records (body b1 + doc d1 +
\* named results / body b2c (with /* */) + template doc) x 2 helper tokens x 2 import tokens (alias, dot) x both
\* resolver layouts x root struct customisation {rf} x histories <= 6, start = freshly generated empty project.
\* Measured: 266 948 distinct / 657 984 generated states, depth 7, 49 s with 3 workers (before the root struct:
\* 197 188 / 486 181). -coverage 1: no action 0.
INIT Init
NEXT Next
CONSTANTS
  Files <- MCFiles
  FileOrder <- MCFileOrder
  Pairs <- MCPairs
  TypeOf <- MCTypeOf
  RootTypes <- MCRoot
  Edits <- MCEdits
  EncToks <- MCEncNone
  HelperToks <- MCHelpers
  ImportToks <- MCImports
  CmtToks <- MCCmt
  NeverPruned <- MCNever
  RootToks <- MCRootQ
  Cfgs <- MCCfgs
  ImpPairs <- MCPairs
  InitSchemas <- MCInitEmpty
  MaxHist = 6
  Dev <- MCNoDev
INVARIANTS TypeOK SchemaOK LayoutOK GenerateTotal GenIsFunction
PROPERTIES MethodsKept StubsComplete ImportsKept DeclsKept FilesParse CompileKept Deterministic Idempotent
CHECK_DEADLOCK FALSE
