\* deviation-tolerant: only used to classify a trace the strict configuration rejected
\* (which named deviation of the pinned tree explains it) and to keep checking the rest of it
SPECIFICATION TraceSpec
CONSTANTS
  AllowDupStart = TRUE
  AllowSilentInit = TRUE
  AllowDoubleError = TRUE
  SInsts = {}
  SIds = {}
  SK = 0
CONSTRAINT HighWater
INVARIANT TraceInv
POSTCONDITION TraceAccepted
CHECK_DEADLOCK FALSE
