\* deviation-tolerant configuration.  The round-1 findings are repaired in /repo (930d13f, 4ef0222,
\* 8020218, 8c78f49): their constants are FALSE here; the driver sets them to TRUE only to NAME
\* (start-after-close, found in round 2, was repaired in /repo by 46bea9c: AllowLateStart = FALSE as well)
\* a violation should one of the old behaviours come back (and, while a finding is open, a constant
\* set to TRUE here keeps the rest of such traces checked).
SPECIFICATION TraceSpec
CONSTANTS
  AllowDupStart = FALSE
  AllowSilentInit = FALSE
  AllowRestartRace = FALSE
  AllowLateStart = FALSE
  AllowDoubleError = FALSE
  SInsts = {}
  SIds = {}
  SK = 0
CONSTRAINT HighWater
INVARIANT TraceInv
POSTCONDITION TraceAccepted
CHECK_DEADLOCK FALSE
