\* deviation-tolerant configuration.  ALL findings are repaired in /repo (930d13f, 4ef0222, 8020218,
\* 8c78f49), so every constant is FALSE here (= WsTrace.cfg); the driver sets them to TRUE only to NAME
\* a violation should one of the old behaviours come back (and, while a finding is open, a constant
\* set to TRUE here keeps the rest of such traces checked).
SPECIFICATION TraceSpec
CONSTANTS
  AllowDupStart = FALSE
  AllowSilentInit = FALSE
  AllowRestartRace = FALSE
  AllowDoubleError = FALSE
  SInsts = {}
  SIds = {}
  SK = 0
CONSTRAINT HighWater
INVARIANT TraceInv
POSTCONDITION TraceAccepted
CHECK_DEADLOCK FALSE
