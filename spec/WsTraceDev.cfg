\* deviation-tolerant: only used to classify a trace the strict configuration rejected
\* (which named deviation of the pinned tree explains it) and to keep checking the rest of it.
\* AllowSilentInit stays FALSE: that defect was repaired in /repo (930d13f); the driver sets it to TRUE
\* only to NAME a violation should the old behaviour come back.
SPECIFICATION TraceSpec
CONSTANTS
  AllowDupStart = TRUE
  AllowSilentInit = FALSE
  AllowRestartRace = TRUE
  AllowDoubleError = TRUE
  SInsts = {}
  SIds = {}
  SK = 0
CONSTRAINT HighWater
INVARIANT TraceInv
POSTCONDITION TraceAccepted
CHECK_DEADLOCK FALSE
