\* C12, exhaustive, REPAIRED design (LockWrites, StopKA): all invariants + liveness.
\* quick: payload counts 0..3, two ticks; the driver rewrites the two constants for the thorough tier (0..4, four ticks).
\* measured: quick 23,483 distinct / 45,764 generated states, depth 44, ~9 s; thorough 198,988 / 402,182, depth 60, ~25-50 s (4 workers);
\* every action has a non-zero coverage count (notes/C12.md)
SPECIFICATION Spec
CONSTANTS
  Kinds = {"sse", "mm"}
  MinN = 0
  MaxN = 3
  KASet = {TRUE, FALSE}
  MaxTicks = 2
  Disc = TRUE
  LockWrites = TRUE
  StopKA = TRUE
  CloseAtomic = TRUE
  KeepSink = TRUE
  FailSet = {0, 1, 2, 3, 4, 5}
  MaxReq = 1
  SharedBuf = FALSE
  MmEncodeInAdd = TRUE
INVARIANTS TypeOK NoRace NoUseAfterFinish NoSplice PreFirst InOrder CompleteLast SseComplete PingsOnlyIfConfigured
           MmFramed MmOrder MmNoEmpty MmComplete SseFailed MmFailed NoGarbage NoCrash
PROPERTIES Termination HelpersStop Finished
CHECK_DEADLOCK FALSE
