\* C12, exhaustive, REPAIRED design (LockWrites, StopKA): all invariants + liveness.
\* quick: payload counts 0..3, two ticks; the driver rewrites the two constants for the thorough tier (0..4, four ticks).
\* measured: see notes/C12.md
SPECIFICATION Spec
CONSTANTS
  Kinds = {"sse", "mm"}
  MinN = 0
  MaxN = 3
  KASet = {TRUE, FALSE}
  MaxTicks = 2
  Disc = TRUE
  LockWrites = TRUE
  StopKA = TRUE
  KeepSink = TRUE
INVARIANTS TypeOK NoRace NoUseAfterFinish NoSplice PreFirst InOrder CompleteLast SseComplete PingsOnlyIfConfigured
           MmFramed MmOrder MmNoEmpty MmComplete
PROPERTIES Termination HelpersStop Finished
CHECK_DEADLOCK FALSE
