\* C12, exhaustive, REPAIRED design (LockWrites, StopKA): all invariants + liveness.
\* quick: payload counts 0..3, two ticks; the driver rewrites the two constants for the thorough tier (0..4, four ticks).
\* measured: quick 21,887 distinct / 42,344 generated states, depth 43, ~9 s; thorough 185,294 / 371,999, depth 59, ~20-50 s (4 workers);
\* every action has a non-zero coverage count (notes/C12.md)
SPECIFICATION Spec
CONSTANTS
  Kinds = {"sse", "mm"}
  MinN = 0
  MaxN = 3
  KASet = {TRUE, FALSE}
  MaxTicks = 2
  Disc = TRUE
  LockWrites = TRUE
  StopKA = TRUE
  CloseAtomic = TRUE
  KeepSink = TRUE
INVARIANTS TypeOK NoRace NoUseAfterFinish NoSplice PreFirst InOrder CompleteLast SseComplete PingsOnlyIfConfigured
           MmFramed MmOrder MmNoEmpty MmComplete
PROPERTIES Termination HelpersStop Finished
CHECK_DEADLOCK FALSE
