\* C12, exhaustive, the code as it is (sse.go since 625d410: LockWrites, StopKA, CloseAtomic; http_multipart_mixed.go
\* since a4760cc: MmEncodeInAdd; the design before that fails NoCrash, see MC_Stream_mmfail.cfg): all invariants + liveness,
\* a payload that cannot be serialized at every position (FailSet; the driver leaves it alone: FailOK bounds it by n).
\* quick: payload counts 0..3, two ticks; the driver rewrites the two constants for the thorough tier (0..4, four ticks).
\* measured (round 3, with FailSet): quick 45,030 distinct / 85,735 generated states, depth 44, ~6 s; thorough: see notes/C12.md (4 workers);
\* every action has a non-zero coverage count (notes/C12.md)
SPECIFICATION Spec
CONSTANTS
  Kinds = {"sse", "mm"}
  MinN = 0
  MaxN = 3
  KASet = {TRUE, FALSE}
  MaxTicks = 2
  Disc = TRUE
  LockWrites = TRUE
  StopKA = TRUE
  CloseAtomic = TRUE
  KeepSink = TRUE
  FailSet = {0, 1, 2, 3, 4, 5}
  MaxReq = 1
  SharedBuf = FALSE
  Deadl = TRUE
  KACloseOnDone = FALSE
  MmEncodeInAdd = TRUE
INVARIANTS TypeOK NoRace NoUseAfterFinish NoSplice PreFirst InOrder CompleteLast SseComplete PingsOnlyIfConfigured
           MmFramed MmOrder MmNoEmpty MmComplete SseFailed MmFailed NoGarbage NoCrash MmTickerStoppedAtReturn
PROPERTIES Termination HelpersStop Finished
CHECK_DEADLOCK FALSE
