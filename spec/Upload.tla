------------------------------- MODULE Upload -------------------------------
(***************************************************************************)
(* C10, multipart upload forms.  One behaviour = one multipart/form-data   *)
(* request travelling through transport.MultipartForm.Do and               *)
(* graphql.RawParams.AddUpload, one action per step of the code:           *)
(*                                                                         *)
(*   SizeCheck      r.ContentLength > MaxUploadSize -> refused             *)
(*                  (then http.MaxBytesReader guards the unknown length)   *)
(*   OpenReader     r.MultipartReader()                                    *)
(*   FirstPart      first part must be `operations`                        *)
(*   DecodeOps      jsonDecode(part, &params)  (params BY VALUE: a JSON    *)
(*                  null leaves the zero RawParams, Variables = nil map)   *)
(*   SecondPart     second part must be `map`                              *)
(*   DecodeMap      map[string][]string                                    *)
(*   NextPart       every further part is a file: its form name must have  *)
(*                  a non-empty path list in the map; the entry is deleted *)
(*                  (so a second part with the same name is refused)       *)
(*   StoreFile      r.ContentLength < MaxMemory: io.ReadAll into memory;   *)
(*                  otherwise os.CreateTemp + deferred os.Remove           *)
(*   PlacePath      for each mapped path its OWN reader (bytesReader /     *)
(*                  os.Open of the temp file), then AddUpload              *)
(*   WalkStep       AddUpload: one step of the walk over the variables     *)
(*   Leftover       a map entry whose file never came is refused           *)
(*   CreateOpCtx, Exec                                                     *)
(*   Cleanup        the deferred os.Remove / Close calls: run on EVERY     *)
(*                  exit, also while a panic unwinds                       *)
(*                                                                         *)
(* Input space (chosen in Init), five modes:                               *)
(*   order    every sequence of <= MaxParts parts over {operations, map,   *)
(*            file 0, file 1, junk} (duplicates arise by repetition) x a   *)
(*            map variant x memory / temp-file storage                     *)
(*   path     canonical form (operations, map, file 0) whose map entry is  *)
(*            one path: prefix class x a walk of <= Depth steps, each step *)
(*            = (container kind of the variables tree at that point,       *)
(*            segment kind, last?, kind of the child found) x storage      *)
(*   content  canonical form x class of the operations JSON x class of the *)
(*            map JSON (+ a Content-Type without boundary)                 *)
(*   cut      canonical form whose body ends early (inside the operations,  *)
(*            the map, the file, or just before the closing boundary) x     *)
(*            storage: the read error paths, with a spill file open         *)
(*   size     canonical form x total body length around MaxMemory and      *)
(*            MaxUploadSize x known length / chunked x limit configuration *)
(*                                                                         *)
(* Two levels.  PROPERTY level: Admissible(inp) - the outcome classes the  *)
(* statement of C10 admits (a well-formed upload proceeds and delivers;    *)
(* over-limit bodies, missing / undecodable operations and walks that      *)
(* leave the variables tree are client errors; what the statement leaves   *)
(* open - e.g. whether a lenient server accepts a sign-prefixed index or a *)
(* part it cannot map - admits both).  IMPLEMENTATION level: the actions,  *)
(* which compute `out`, `impl` (status) and `placed`.  DESIGN 7 #7: the    *)
(* pinned AddUpload uses unchecked type assertions / indexing; with        *)
(* FixWalk = TRUE the actions model the REPAIRED walk (client error),      *)
(* with FALSE the deviation action WalkPanic (outcome "recovered").        *)
(* Dev(inp) names the finding key per failing site.                        *)
(***************************************************************************)
EXTENDS Naturals, Integers, Sequences, FiniteSets, TLC, Json

CONSTANTS MaxParts,   \* bound on the number of parts in mode "order"
          Depth,      \* bound on the number of walk steps in mode "path"
          Modes,      \* subset of {"order", "path", "content", "cut", "size"}
          FixWalk     \* TRUE: checked walk (repaired); FALSE: pinned tree

VARIABLES inp, pc, i, j, umap, key, paths, wpos, temps, nrd, placed, out, impl, ended, steps

vars == <<inp, pc, i, j, umap, key, paths, wpos, temps, nrd, placed, out, impl, ended, steps>>
view == <<inp, pc, i, j, umap, key, paths, wpos, temps, nrd, placed, out, impl, ended>>

-----------------------------------------------------------------------------
(* parts and maps *)
PartKinds == {"ops", "map", "f0", "f1", "junk"}
KeyOf(p) == CASE p = "ops" -> "operations" [] p = "map" -> "map" [] p = "f0" -> "0" [] p = "f1" -> "1" [] p = "junk" -> "junk"
FileParts == {"f0", "f1"}

(* map variants of mode "order": file key -> list of variable names (the
   operation declares $a, $b, both null in `variables`) *)
MapVariants == {"M1", "M2", "M3", "M4"}
MapOf(mv) ==
  CASE mv = "M1" -> [k \in {"0", "1"} |-> IF k = "0" THEN <<"a">> ELSE <<"b">>]
    [] mv = "M2" -> [k \in {"0"} |-> <<"a", "b">>]                   \* one file key mapped to two paths
    [] mv = "M3" -> [k \in {"0", "1"} |-> IF k = "0" THEN <<>> ELSE <<"b">>]   \* an empty path list
    [] mv = "M4" -> [k \in {"0"} |-> <<"a">>]
    [] mv = "P"  -> [k \in {"0"} |-> <<"P">>]                        \* mode "path": the path under test

SeqsUpTo(n) == UNION { [1..k -> PartKinds] : k \in 0..n }

-----------------------------------------------------------------------------
(* the variables tree and the walk *)
Lists      == {"l0", "l1", "l2"}
LenOf(c)   == CASE c = "l0" -> 0 [] c = "l1" -> 1 [] c = "l2" -> 2
Kids       == {"nil", "scalar", "obj"} \cup Lists           \* what a present key / element can hold
Containers == {"nilmap"} \cup Kids                          \* nilmap: `variables` absent or null (a nil Go map)
Segs       == {"name", "miss", "empty", "nonnum", "i0", "i1", "big", "neg", "plus"}
(* name   a key the object has          miss   a key it has not
   empty  the empty segment ("a..b")    nonnum digits followed by a letter ("1x")
   i0 i1  "0" "1"    big "7"    neg "-1"    plus "+0" (strconv.Atoi accepts it) *)
Numeric(s) == s \in {"i0", "i1", "big", "neg", "plus"}
IndexOf(s) == CASE s = "i0" -> 0 [] s = "i1" -> 1 [] s = "big" -> 7 [] s = "neg" -> -1 [] s = "plus" -> 0
InRange(c, s) == c \in Lists /\ IndexOf(s) >= 0 /\ IndexOf(s) < LenOf(c)
Applicable(c, s) == (s = "name") => c = "obj"               \* only an object HAS keys

(* PROPERTY level: what one step may do *)
PRule(c, s, last) ==
  CASE c = "nil" -> "err"                                             \* nothing to walk into
    [] c = "scalar" -> "err"
    [] c \in Lists /\ Numeric(s)  -> (IF InRange(c, s) THEN (IF s = "plus" THEN "free" ELSE "ok") ELSE "err")
    [] c \in Lists /\ ~Numeric(s) -> "err"
    [] c = "obj" /\ Numeric(s)    -> "free"                           \* refuse, or read "0" as a key: left open
    [] c = "obj" /\ ~Numeric(s)   -> "ok"
    [] c = "nilmap" /\ Numeric(s) -> "err"
    [] c = "nilmap" /\ ~Numeric(s) -> (IF last THEN "free" ELSE "ok")   \* refuse, or create the variables map

(* IMPLEMENTATION level, pinned tree: graphql/handler.go AddUpload *)
IRule(c, s, last) ==
  CASE c = "nil" -> "err"                                             \* `if ptr == nil` -> gqlerror
    [] c # "nil" /\ Numeric(s) ->
         (IF c \in Lists
            THEN (IF InRange(c, s) THEN "ok"
                  ELSE IF IndexOf(s) < 0 THEN "addupload:negative-index"
                  ELSE "addupload:index-out-of-range")          \* ptr.([]any)[index]
            ELSE "addupload:index-into-non-list")               \* ptr.([]any) on a map / scalar
    [] c # "nil" /\ ~Numeric(s) ->
         (CASE c = "obj" -> "ok"
            [] c = "nilmap" -> (IF last THEN "addupload:nil-variables-map" ELSE "ok")   \* assignment to entry in nil map
            [] OTHER -> "addupload:name-into-non-object")       \* ptr.(map[string]any) on a list / scalar

IsPanic(r) == r \notin {"ok", "err"}

(* the child a successful non-last step finds *)
DescKids(c, s) ==
  IF c = "obj" /\ s = "name" THEN Kids
  ELSE IF c \in Lists /\ InRange(c, s) THEN Kids
  ELSE {"nil"}                                                        \* an absent key reads as nil

StepRec(c, s, last, kid) == [c |-> c, s |-> s, last |-> last, kid |-> kid]

(* all walks of at most n steps that start at container c.  A walk is cut at
   the first step the pinned code does not survive; such a step appears both
   as the last segment and followed by one more (never reached) segment,
   because these are different statements of AddUpload.  For a last step,
   `kid` is the value that is overwritten. *)
RECURSIVE Walks(_, _)
Walks(c, n) ==
  IF n = 0 THEN {}
  ELSE UNION { IF ~Applicable(c, s) THEN {} ELSE
         LET lastKids == IF IRule(c, s, TRUE) = "ok" /\ (s = "name" \/ InRange(c, s)) THEN {"nil", "scalar", "obj"} ELSE {"nil"}
         IN  { <<StepRec(c, s, TRUE, k)>> : k \in lastKids }
             \cup (IF IRule(c, s, FALSE) # "ok" THEN { <<StepRec(c, s, FALSE, "none")>> } ELSE {})
             \cup (IF n > 1 /\ IRule(c, s, FALSE) = "ok"
                     THEN UNION { { <<StepRec(c, s, FALSE, k)>> \o rest : rest \in Walks(k, n - 1) } : k \in DescKids(c, s) }
                     ELSE {})
       : s \in Segs }

Prefixes == {"ok", "noprefix", "bare", "emptypath", "similar"}
(* ok "variables.<...>"   noprefix "<...>"   bare "variables"   emptypath ""
   similar "variablesX.<...>" *)
NoWalk == <<>>
PathCases == { [prefix |-> "ok", walk |-> w] : w \in Walks("obj", Depth) \cup Walks("nilmap", Depth) }
             \cup { [prefix |-> p, walk |-> <<StepRec("obj", "name", TRUE, "nil")>>] : p \in Prefixes \ {"ok"} }
NoPath == [prefix |-> "ok", walk |-> NoWalk]

-----------------------------------------------------------------------------
(* content classes *)
OpsClasses == {"valid", "null", "array", "num", "trunc", "empty", "trail", "novars", "noboundary"}
MapClasses == {"valid", "null", "array", "str", "valstr", "valnull", "valnum", "emptyobj", "trunc", "extra", "trail"}
(* valstr {"0":"variables.a"}  valnull {"0":null}  valnum {"0":[1]}  emptyobj {}
   extra  {"0":[..],"ghost":[..]} - a map entry naming a file that is not sent *)

(* mode "cut": where the body ends (Content-Length says the same: the closing
   boundary never comes and the multipart reader reports an unexpected EOF) *)
CutClasses == {"cut_ops", "cut_map", "cut_file", "cut_close"}

(* limit configurations and total lengths of mode "size" *)
Limits == { [m |-> 2048, u |-> 8192], [m |-> 8192, u |-> 8192], [m |-> 16384, u |-> 4096] }
LensFor(l) == { 1200, l.m - 1, l.m, l.m + 1, l.u - 1, l.u, l.u + 1, 2 * l.u } \ {0}

Canon == <<"ops", "map", "f0">>
Big   == 1000000

Inp(mode, parts, mv, m, u, len, ch, path, ops, mapc) ==
  [mode |-> mode, parts |-> parts, mapv |-> mv, m |-> m, u |-> u, len |-> len, chunked |-> ch,
   path |-> path, ops |-> ops, mapc |-> mapc]

Inputs ==
     (IF "order" \in Modes THEN
        { Inp("order", p, mv, m, Big, 1000, FALSE, NoPath, "valid", "valid") :
            p \in SeqsUpTo(MaxParts), mv \in MapVariants, m \in {1, Big} } ELSE {})
  \cup (IF "path" \in Modes THEN
        { Inp("path", Canon, "P", m, Big, 1000, FALSE, pc_, "valid", "valid") : pc_ \in PathCases, m \in {1, Big} } ELSE {})
  \cup (IF "content" \in Modes THEN
        { Inp("content", Canon, "M4", m, Big, 1000, FALSE, NoPath, o, mc) :
            o \in OpsClasses, mc \in MapClasses, m \in {1, Big} } ELSE {})
  \cup (IF "cut" \in Modes THEN
        { Inp("cut", Canon, "M4", m, Big, 1000, FALSE, NoPath, o, "valid") : o \in CutClasses, m \in {1, Big} } ELSE {})
  \cup (IF "size" \in Modes THEN
        UNION { { Inp("size", Canon, "M4", l.m, l.u, n, ch, NoPath, "valid", "valid") : n \in LensFor(l), ch \in BOOLEAN }
                : l \in Limits } ELSE {})

Store(x) == IF x.chunked \/ x.len < x.m THEN "mem" ELSE "temp"   \* chunked: ContentLength = -1 < MaxMemory

-----------------------------------------------------------------------------
(* PROPERTY level *)

OpsDecodes(o)  == o \in {"valid", "null", "trail", "novars", "cut_map", "cut_file", "cut_close"}     \* encoding/json: the first value decodes into the struct
MapDecodes(mc) == mc \in {"valid", "null", "valnull", "emptyobj", "extra", "trail"}
(* the map the request really carries *)
EffMap(x) ==
  IF x.mode # "content" THEN MapOf(x.mapv)
  ELSE CASE x.mapc \in {"valid", "trail"} -> MapOf("M4")
         [] x.mapc = "extra" -> [k \in {"0", "ghost"} |-> IF k = "0" THEN <<"a">> ELSE <<"b">>]
         [] x.mapc = "valnull" -> [k \in {"0"} |-> <<>>]
         [] OTHER -> [k \in {} |-> <<>>]

WellFormedOrder(x) ==
  /\ Len(x.parts) >= 2 /\ x.parts[1] = "ops" /\ x.parts[2] = "map"
  /\ \A n \in 3..Len(x.parts) : x.parts[n] \in FileParts
  /\ \A n1, n2 \in 3..Len(x.parts) : n1 # n2 => x.parts[n1] # x.parts[n2]
  /\ { KeyOf(x.parts[n]) : n \in 3..Len(x.parts) } = DOMAIN EffMap(x)
  /\ \A k \in DOMAIN EffMap(x) : Len(EffMap(x)[k]) > 0

(* verdict of the property-level walk *)
RECURSIVE PWalk(_, _)
PWalk(w, n) ==
  IF n > Len(w) THEN "ok"
  ELSE LET r == PRule(w[n].c, w[n].s, w[n].last) IN
       IF r = "ok" THEN PWalk(w, n + 1) ELSE r
PathVerdict(p) == IF p.prefix # "ok" THEN "err" ELSE PWalk(p.walk, 1)

HasOps(x) == \E n \in 1..Len(x.parts) : x.parts[n] = "ops"

Admissible(x) ==
  CASE x.mode = "size" -> (IF x.len > x.u THEN {"cerr"} ELSE {"proceed"})       \* limits are enforced; below them a valid upload proceeds
    [] x.mode = "order" -> (IF WellFormedOrder(x) THEN {"proceed"}
                            ELSE IF ~HasOps(x) THEN {"cerr"}                   \* there is no operation to execute
                            ELSE {"cerr", "proceed"})                          \* a lenient server may ignore what it cannot map
    [] x.mode = "path" -> (CASE PathVerdict(x.path) = "ok" -> {"proceed"}
                             [] PathVerdict(x.path) = "err" -> {"cerr"}
                             [] OTHER -> {"cerr", "proceed"})
    [] x.mode = "cut" -> {"cerr"}                                             \* an incomplete form is not an upload
    [] x.mode = "content" ->
         (IF x.ops \in {"valid", "trail"} /\ x.mapc \in {"valid", "trail"}
            THEN (IF "trail" \in {x.ops, x.mapc} THEN {"cerr", "proceed"} ELSE {"proceed"})
          ELSE IF ~OpsDecodes(x.ops) \/ x.ops = "null" THEN {"cerr"}           \* no operations / no query
          ELSE IF x.ops = "novars" /\ x.mapc \in {"valid", "trail"} THEN {"cerr", "proceed"}   \* `variables` absent: see PRule nilmap
          ELSE IF ~MapDecodes(x.mapc) THEN {"cerr"}
          ELSE {"cerr", "proceed"})

(* what a proceeding request must deliver: (variable or path, file key) *)
Expected(x) ==
  IF x.mode = "path" THEN { [var |-> "P", file |-> "0"] }
  ELSE UNION { { [var |-> EffMap(x)[k][n], file |-> k] : n \in 1..Len(EffMap(x)[k]) } : k \in DOMAIN EffMap(x) }

-----------------------------------------------------------------------------
(* IMPLEMENTATION level *)

Step(name) == steps' = Append(steps, name)

Init ==
  /\ inp \in Inputs
  /\ pc = "size" /\ i = 1 /\ j = 1 /\ umap = [k \in {} |-> <<>>] /\ key = "" /\ paths = <<>> /\ wpos = 1
  /\ temps = {} /\ nrd = 0 /\ placed = {} /\ out = "none" /\ impl = "" /\ ended = FALSE /\ steps = <<>>

Keep(vs) == UNCHANGED vs
(* every exit goes through the deferred calls *)
Exit(o, st) == /\ out' = o /\ impl' = st /\ pc' = "cleanup"

SizeCheck ==
  /\ pc = "size" /\ Step("SizeCheck")
  /\ UNCHANGED <<inp, i, j, umap, key, paths, wpos, temps, nrd, placed, ended>>
  /\ IF ~inp.chunked /\ inp.len > inp.u
       THEN Exit("cerr", "200")          \* "request body too large", written without WriteHeader
       ELSE pc' = "open" /\ UNCHANGED <<out, impl>>

OpenReader ==
  /\ pc = "open" /\ Step("OpenReader")
  /\ UNCHANGED <<inp, i, j, umap, key, paths, wpos, temps, nrd, placed, ended>>
  /\ IF inp.ops = "noboundary"
       THEN Exit("cerr", "422")
       ELSE pc' = "first" /\ UNCHANGED <<out, impl>>

FirstPart ==
  /\ pc = "first" /\ Step("FirstPart")
  /\ UNCHANGED <<inp, i, j, umap, key, paths, wpos, temps, nrd, placed, ended>>
  /\ IF Len(inp.parts) < 1 \/ inp.parts[1] # "ops"
       THEN Exit("cerr", "422")
       ELSE pc' = "opsdec" /\ UNCHANGED <<out, impl>>

DecodeOps ==
  /\ pc = "opsdec" /\ Step("DecodeOps")
  /\ UNCHANGED <<inp, i, j, umap, key, paths, wpos, temps, nrd, placed, ended>>
  /\ IF ~OpsDecodes(inp.ops)
       THEN Exit("cerr", "422")
       ELSE pc' = "second" /\ UNCHANGED <<out, impl>>

SecondPart ==
  /\ pc = "second" /\ Step("SecondPart")
  /\ UNCHANGED <<inp, i, j, umap, key, paths, wpos, temps, nrd, placed, ended>>
  /\ IF Len(inp.parts) < 2 \/ inp.parts[2] # "map"
       THEN Exit("cerr", "422")
       ELSE pc' = "mapdec" /\ UNCHANGED <<out, impl>>

DecodeMap ==
  /\ pc = "mapdec" /\ Step("DecodeMap")
  /\ UNCHANGED <<inp, j, key, paths, wpos, temps, nrd, placed, ended>>
  /\ IF (inp.mode = "content" /\ ~MapDecodes(inp.mapc)) \/ inp.ops = "cut_map"
       THEN Exit("cerr", "422") /\ UNCHANGED <<i, umap>>
       ELSE pc' = "loop" /\ i' = 3 /\ umap' = EffMap(inp) /\ UNCHANGED <<out, impl>>

NextPart ==
  /\ pc = "loop" /\ Step("NextPart")
  /\ UNCHANGED <<inp, i, wpos, temps, nrd, placed, ended>>
  /\ IF i > Len(inp.parts)
       THEN pc' = "left" /\ UNCHANGED <<j, umap, key, paths, out, impl>>
       ELSE LET k == KeyOf(inp.parts[i])
                ps == IF k \in DOMAIN umap THEN umap[k] ELSE <<>> IN
            IF Len(ps) = 0
              THEN Exit("cerr", "422") /\ UNCHANGED <<j, umap, key, paths>>    \* "invalid empty operations paths list for key"
              ELSE /\ key' = k /\ paths' = ps /\ j' = 1
                   /\ umap' = [kk \in DOMAIN umap \ {k} |-> umap[kk]]
                   /\ pc' = "file" /\ UNCHANGED <<out, impl>>

StoreFile ==
  /\ pc = "file" /\ Step("StoreFile")
  /\ UNCHANGED <<inp, i, j, umap, key, paths, wpos, nrd, placed, ended>>
  /\ IF inp.chunked /\ inp.len > inp.u
       THEN Exit("cerr", "422") /\ UNCHANGED temps        \* MaxBytesReader: "failed to read file" / "failed to parse part"
       ELSE IF inp.ops \in {"cut_file", "cut_close"}
       THEN /\ Exit("cerr", "422")                        \* io.ReadAll / io.Copy: unexpected EOF; the spill file exists already
            /\ temps' = (IF Store(inp) = "temp" THEN temps \cup {key} ELSE temps)
       ELSE /\ temps' = (IF Store(inp) = "temp" THEN temps \cup {key} ELSE temps)
            /\ pc' = "place" /\ UNCHANGED <<out, impl>>

(* the walk AddUpload performs for the current path.  Outside mode "path" the
   operation declares $a and $b and `variables` is {"a": null, "b": null} -
   unless the operations JSON was `null` or has no `variables` member, which
   leaves RawParams.Variables a nil map *)
TopOf(x) == IF x.ops \in {"null", "novars"} THEN "nilmap" ELSE "obj"
WalkOf(x) ==
  IF x.mode = "path" THEN x.path.walk
  ELSE <<StepRec(TopOf(x), IF TopOf(x) = "obj" THEN "name" ELSE "miss", TRUE, "nil")>>
VarOf(x, p) == IF x.mode = "path" THEN "P" ELSE p

(* one path of the current file: a reader of its own, then AddUpload *)
PlacePath ==
  /\ pc = "place" /\ Step("PlacePath")
  /\ UNCHANGED <<inp, umap, key, paths, temps, placed, ended>>
  /\ IF j > Len(paths)
       THEN pc' = "loop" /\ i' = i + 1 /\ UNCHANGED <<j, wpos, nrd, out, impl>>
       ELSE /\ nrd' = nrd + 1
            /\ IF inp.path.prefix # "ok"
                 THEN Exit("cerr", "422") /\ UNCHANGED <<i, j, wpos>>   \* !HasPrefix(path, "variables.")
                 ELSE pc' = "walk" /\ wpos' = 1 /\ UNCHANGED <<i, j, out, impl>>

CurRule == LET w == WalkOf(inp) IN IRule(w[wpos].c, w[wpos].s, w[wpos].last)

(* repaired AddUpload: a checked walk *)
WalkStep ==
  /\ pc = "walk" /\ (FixWalk \/ ~IsPanic(CurRule)) /\ Step("WalkStep")
  /\ UNCHANGED <<inp, i, umap, key, paths, temps, nrd, ended>>
  /\ IF CurRule # "ok"
       THEN Exit("cerr", "422") /\ UNCHANGED <<j, wpos, placed>>
       ELSE IF WalkOf(inp)[wpos].last
              THEN /\ placed' = placed \cup { [var |-> VarOf(inp, paths[j]), file |-> key, rd |-> nrd] }
                   /\ j' = j + 1 /\ pc' = "place" /\ UNCHANGED <<wpos, out, impl>>
              ELSE wpos' = wpos + 1 /\ UNCHANGED <<j, pc, placed, out, impl>>

(* pinned AddUpload: the unchecked assertion / index panics; Server.ServeHTTP's
   last-resort recover answers 422 "internal system error" and calls the
   recover hook; the deferred os.Remove calls still run *)
WalkPanic ==
  /\ pc = "walk" /\ ~FixWalk /\ IsPanic(CurRule) /\ Step("WalkPanic")
  /\ UNCHANGED <<inp, i, j, umap, key, paths, wpos, temps, nrd, placed, ended>>
  /\ Exit("recovered", "422-internal")

Leftover ==
  /\ pc = "left" /\ Step("Leftover")
  /\ UNCHANGED <<inp, i, j, umap, key, paths, wpos, temps, nrd, placed, ended>>
  /\ IF DOMAIN umap # {}
       THEN Exit("cerr", "422")                      \* "failed to get key %s from form"
       ELSE pc' = "opctx" /\ UNCHANGED <<out, impl>>

CreateOpCtx ==
  /\ pc = "opctx" /\ Step("CreateOpCtx")
  /\ UNCHANGED <<inp, i, j, umap, key, paths, wpos, temps, nrd, placed, ended>>
  /\ IF inp.ops = "null"
       THEN Exit("cerr", "422")                      \* zero RawParams: no query
       ELSE pc' = "exec" /\ UNCHANGED <<out, impl>>

Exec ==
  /\ pc = "exec" /\ Step("Exec")
  /\ UNCHANGED <<inp, i, j, umap, key, paths, wpos, temps, nrd, placed, ended>>
  /\ Exit("proceed", "200")

Cleanup ==
  /\ pc = "cleanup" /\ Step("Cleanup")
  /\ UNCHANGED <<inp, i, j, umap, key, paths, wpos, nrd, placed, out, impl>>
  /\ temps' = {} /\ ended' = TRUE /\ pc' = "done"

Done == pc = "done" /\ UNCHANGED vars

Next == SizeCheck \/ OpenReader \/ FirstPart \/ DecodeOps \/ SecondPart \/ DecodeMap \/ NextPart \/ StoreFile
        \/ PlacePath \/ WalkStep \/ WalkPanic \/ Leftover \/ CreateOpCtx \/ Exec \/ Cleanup \/ Done

Spec == Init /\ [][Next]_vars

-----------------------------------------------------------------------------
(* finding key of the pinned tree's deviation on this input *)
RECURSIVE FirstPanic(_, _)
FirstPanic(w, n) ==
  IF n > Len(w) THEN ""
  ELSE LET r == IRule(w[n].c, w[n].s, w[n].last) IN
       IF IsPanic(r) THEN r ELSE IF r = "err" THEN "" ELSE FirstPanic(w, n + 1)

Dev(x) ==
  CASE x.mode = "path" /\ x.path.prefix = "ok" -> FirstPanic(x.path.walk, 1)
    [] x.mode = "content" /\ x.ops \in {"null", "novars"} /\ x.mapc \in {"valid", "trail", "extra"} -> "addupload:nil-variables-map"
    [] OTHER -> ""

-----------------------------------------------------------------------------
(* Invariants *)

TypeOK ==
  /\ out \in {"none", "cerr", "proceed", "recovered"}
  /\ temps \subseteq {"0", "1", "operations", "map", "junk"}
  /\ nrd \in 0..(2 * (MaxParts + 3))

NoPanicPath == out # "recovered"

(* every temporary file is removed once the request ended *)
TempFilesRemoved == ended => temps = {}
(* ... and temp files exist only while a request is being handled *)
TempOnlyWhenSpilling == temps # {} => Store(inp) = "temp"

ImplConforms == pc = "done" => out \in Admissible(inp)

(* a proceeding request delivered exactly what the map says, each path with a reader of its own *)
DeliversMapped ==
  (pc = "done" /\ out = "proceed") =>
     /\ { [var |-> p.var, file |-> p.file] : p \in placed } = Expected(inp)
     /\ \A p1, p2 \in placed : p1 # p2 => p1.rd # p2.rd
     /\ Cardinality(placed) = Cardinality(Expected(inp))

(* bodies over MaxUploadSize never reach the executor *)
OverLimitRefused == (inp.len > inp.u /\ pc = "done") => out = "cerr" /\ placed = {}

(* pinned model: the inputs leaving the property are exactly those Dev names *)
DeviationIsReal ==
  pc = "done" => IF out = "recovered" THEN Dev(inp) # "" /\ ~FixWalk ELSE out \in Admissible(inp)

-----------------------------------------------------------------------------
SetToSeq(S) == LET RECURSIVE F(_) F(T) == IF T = {} THEN <<>> ELSE LET x == CHOOSE y \in T : TRUE IN <<x>> \o F(T \ {x}) IN F(S)
MapToSeq(f) == SetToSeq({ [key |-> k, paths |-> f[k]] : k \in DOMAIN f })

Export ==
  (pc' = "done" /\ pc # "done") =>
    PrintT(ToJson([k |-> "upload", mode |-> inp.mode, parts |-> inp.parts, map |-> MapToSeq(EffMap(inp)),
                   mapv |-> inp.mapv, m |-> inp.m, u |-> inp.u, len |-> inp.len, chunked |-> inp.chunked,
                   prefix |-> inp.path.prefix, walk |-> inp.path.walk, ops |-> inp.ops, mapc |-> inp.mapc,
                   want |-> SetToSeq(Admissible(inp)), out |-> out, impl |-> impl, store |-> Store(inp),
                   deliver |-> SetToSeq(Expected(inp)), dev |-> Dev(inp), nsteps |-> Len(steps)]))
=============================================================================
