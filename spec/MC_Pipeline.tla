---------------------------- MODULE MC_Pipeline ----------------------------
(* Exhaustive model of Pipeline: TLC chooses the server configuration      *)
(* (extension list x cache kind x suggestions on/off) at Init and the      *)
(* request of every client when it starts; requests may start at any time, *)
(* so earlier requests are the "history" (cache contents) of later ones.   *)
EXTENDS Pipeline, Json

CONSTANTS ExtChoice,   \* which extension lists: "one" | "small" | "full" | "gates"
          ReqChoice,   \* which request alphabet: "sched3" | "sched" | "small" | "smallpan" | "full" | "gates"
          TrChoice     \* which transports: "direct" | "all"

All  == [pm |-> TRUE,  cm |-> TRUE,  oi |-> TRUE,  ri |-> TRUE,  rf |-> TRUE,  fi |-> TRUE]
Icpt == [pm |-> FALSE, cm |-> FALSE, oi |-> TRUE,  ri |-> TRUE,  rf |-> TRUE,  fi |-> TRUE]
Muts == [pm |-> TRUE,  cm |-> TRUE,  oi |-> FALSE, ri |-> FALSE, rf |-> FALSE, fi |-> FALSE]
FiO  == [pm |-> FALSE, cm |-> FALSE, oi |-> FALSE, ri |-> FALSE, rf |-> FALSE, fi |-> TRUE]
Mix  == [pm |-> TRUE,  cm |-> FALSE, oi |-> TRUE,  ri |-> TRUE,  rf |-> FALSE, fi |-> FALSE]
PMo  == [pm |-> TRUE,  cm |-> FALSE, oi |-> FALSE, ri |-> FALSE, rf |-> FALSE, fi |-> FALSE]  \* a bare parameter gate (APQ)
CMo  == [pm |-> FALSE, cm |-> TRUE,  oi |-> FALSE, ri |-> FALSE, rf |-> FALSE, fi |-> FALSE]  \* a bare context gate (complexity limit)

ExtLists ==
  IF ExtChoice = "one" THEN {<<All>>}
  ELSE IF ExtChoice = "small" THEN {<<All>>, <<Icpt, Muts>>}
  ELSE IF ExtChoice = "gates" THEN {<<All, All>>, <<Mix, Muts, Icpt>>, <<PMo, CMo, Icpt>>}
  ELSE {<<>>, <<All, All>>, <<Icpt, Muts>>, <<All, FiO, Mix>>, <<Mix, Muts, Icpt>>}

Caches == {[ck |-> "none", cn |-> 0], [ck |-> "map", cn |-> 0], [ck |-> "lru", cn |-> 1], [ck |-> "lru", cn |-> 2]}

Trs == IF TrChoice = "all" THEN Transports ELSE {"direct"}

\* (the gate sweep is a single-request model: one cache kind, suggestions as configured by default)
Cfgs == IF ReqChoice = "gates"
        THEN {[exts |-> e, ck |-> "map", cn |-> 0, sugg |-> FALSE, tr |-> t] : e \in ExtLists, t \in Trs}
        ELSE {[exts |-> e, ck |-> c.ck, cn |-> c.cn, sugg |-> s, tr |-> t] : e \in ExtLists, c \in Caches, s \in BOOLEAN, t \in Trs}

R1 == <<[f |-> "a", sub |-> <<"a.b">>]>>
R2 == <<[f |-> "c", sub |-> <<>>]>>
NoG == <<>>
P(q, cls, opsel, vs, opt, gates, rounds, roots) ==
  [q |-> q, cls |-> cls, opsel |-> opsel, vcls |-> vs, opt |-> opt, gates |-> gates, rounds |-> rounds, roots |-> roots]

\* how often the transport calls the response handler: the request/response
\* transports once; the streaming ones until it returns nil
Streaming(tr) == tr \in {"sse", "mixed", "ws"}
One(tr)  == IF Streaming(tr) THEN <<"data", "nil">> ELSE <<"data">>
SubR(tr) == IF tr \in {"post", "get", "form"} THEN <<"data">> ELSE <<"data", "data", "nil">>

\* gate plans: which mutator gates do not pass, and how.  GatePos in pipeline order.
GatePos(exts) == {g \in [k : {"pm", "cm"}, i : 1..Len(exts)] : exts[g.i][g.k]}
Before(g1, g2) == (g1.k = "pm" /\ g2.k = "cm") \/ (g1.k = g2.k /\ g1.i < g2.i)
G(g, o) == [k |-> g.k, i |-> g.i, o |-> o]
Singles(exts) == {<<G(g, o)>> : g \in GatePos(exts), o \in {"rej", "pan"}}
Pairs(exts, outs) ==
  {<<G(gg[1], oo[1]), G(gg[2], oo[2])>> : gg \in {x \in GatePos(exts) \X GatePos(exts) : Before(x[1], x[2])}, oo \in outs}
\* one or two gates that do not pass, at least one of them panicking ... and the plain rejections
Plans(exts) == {NoG} \cup Singles(exts) \cup Pairs(exts, {<<"pan", "pan">>, <<"rej", "pan">>, <<"pan", "rej">>})

\* the request classes of the property statement (no gate plan)
Classes(tr, g) ==
  { P("Q1", "ok",   "found",    "good", "query", g, One(tr), R1),   \* valid
    P("Q2", "ok",   "found",    "good", "query", g, One(tr), R2),   \* multi-operation document, operation named
    P("Q1", "ok",   "notfound", "good", "query", g, One(tr), R1),   \* operation not found (same text as the valid one)
    P("Q1", "ok",   "found",    "bad",  "query", g, One(tr), R1),   \* bad variable (same text as the valid one)
    P("QU", "unk",  "found",    "good", "query", g, One(tr), R2),   \* unknown field
    P("QP", "perr", "found",    "good", "query", g, One(tr), <<>>), \* parse error
    P("QN", "noop", "found",    "good", "query", g, One(tr), <<>>), \* no operation
    P("QT", "tlim", "found",    "good", "query", g, One(tr), <<>>), \* valid, but more tokens than the parser limit
    P("QI", "inv",  "found",    "good", "query", g, One(tr), R2),   \* fails another rule
    P("QV", "vpan", "found",    "good", "query", g, One(tr), R2),   \* a validation rule panics on it
    P("QM", "ok",   "found",    "good", "mutation", g, One(tr), R2),      \* mutation (GET dispatches queries only)
    P("QS", "ok",   "found",    "good", "subscription", g, SubR(tr), R2) }  \* subscription: two events, then end

\* the request alphabet of the property statement
Alphabet(exts) ==
  LET tr   == cfg.tr
      core == { P("Q1", "ok",   "found",    "good", "query", NoG, One(tr), R1),   \* valid
                P("Q2", "ok",   "found",    "good", "query", NoG, One(tr), R2),   \* multi-operation document, operation named
                P("Q1", "ok",   "notfound", "good", "query", NoG, One(tr), R1),   \* operation not found (same text as the valid one)
                P("Q1", "ok",   "found",    "bad",  "query", NoG, One(tr), R1),   \* bad variable (same text as the valid one)
                P("QU", "unk",  "found",    "good", "query", NoG, One(tr), R2),   \* unknown field
                P("QP", "perr", "found",    "good", "query", NoG, One(tr), <<>>) }  \* parse error
      more == { P("QN", "noop", "found",    "good", "query", NoG, One(tr), <<>>),  \* no operation
                P("QT", "tlim", "found",    "good", "query", NoG, One(tr), <<>>),  \* valid, but more tokens than the parser limit
                P("QI", "inv",  "found",    "good", "query", NoG, One(tr), R2),    \* fails another rule
                P("QV", "vpan", "found",    "good", "query", NoG, One(tr), R2),    \* a validation rule panics on it
                P("QS", "ok",   "found",    "good", "subscription", NoG, SubR(tr), R2) }  \* subscription: two events, then end
      \* the valid request with one gate (every position) rejecting / panicking
      \* (two failing gates: the single-request gate sweep, ReqChoice "gates")
      gated == { P("Q1", "ok", "found", "good", "query", g, One(tr), R1) : g \in Singles(exts) }
      \* the first parameter gate / the first context gate panics
      pan1 == { P("Q1", "ok", "found", "good", "query", <<G(g, "pan")>>, One(tr), R1) :
                   g \in {x \in GatePos(exts) : \A y \in GatePos(exts) : y.k = x.k => y.i >= x.i} }
      few  == { P("Q1", "ok",  "found",    "good", "query", NoG, One(tr), R1),
                P("Q2", "ok",  "found",    "good", "query", NoG, One(tr), R2),
                P("Q1", "ok",  "notfound", "good", "query", NoG, One(tr), R1),
                P("QU", "unk", "found",    "good", "query", NoG, One(tr), R2) }
      inv  == { P("QI", "inv", "found", "good", "query", NoG, One(tr), R2) }   \* fails a validation rule other than field existence
  IN  IF ReqChoice = "small" THEN core
      ELSE IF ReqChoice = "smallpan" THEN core \cup pan1
      ELSE IF ReqChoice = "sched" THEN core \cup inv
      ELSE IF ReqChoice = "sched3" THEN few
      ELSE IF ReqChoice = "gates" THEN UNION {Classes(tr, g) : g \in Plans(exts)}
      \* (with the configuration-time swap the suggestion setting only selects the
      \* rule flavour: the gate plans are explored with suggestions enabled)
      ELSE core \cup more \cup (IF cfg.sugg THEN {} ELSE gated)

MCInit ==
  \E c \in Cfgs :
    /\ cfg   = c
    /\ arrs  = [NoArrs EXCEPT ![InitArr] =
                  IF RuleModel = "config" THEN (IF c.sugg THEN <<"NS">> ELSE <<"FOCT">>) ELSE <<"FOCT">>]
    /\ hdr   = [a |-> InitArr, n |-> 1]
    /\ cache = <<>>
    /\ rq    = [r \in Reqs |-> NoReq]
    /\ pc    = [r \in Reqs |-> "idle"]
    /\ todo  = [r \in Reqs |-> <<>>]
    /\ log   = [r \in Reqs |-> <<>>]
    /\ tmp   = [r \in Reqs |-> [s |-> <<>>, h |-> [a |-> InitArr, n |-> 0]]]
    /\ glog  = <<>>

AllOver == \A r \in Reqs : pc[r] \in {"done", "panicked"}

MCNext ==
  \/ \E r \in Reqs :
       \/ (pc[r] = "idle" /\ \E p \in Alphabet(cfg.exts) : Start(r, p))
       \/ Emit(r) \/ CacheGet(r) \/ RuleStep(r) \/ Validate(r) \/ CacheAdd(r)
  \/ (AllOver /\ UNCHANGED vars)

MCSpec == MCInit /\ [][MCNext]_vars

\* the order of cache operations is history: not part of the explored state
MCView == <<cfg, hdr, arrs, cache, rq, pc, todo, log, tmp>>

\* schedule export (replay): at the end of a behaviour print the global order
\* of cache operations with the outcome the model prescribes
LastD(s) == IF s = <<>> THEN "none" ELSE s[Len(s)].d
Export ==
  IF AllOver
  THEN PrintT(ToJson([ck |-> cfg.ck, cn |-> cfg.cn, sugg |-> cfg.sugg, glog |-> glog,
                      reqs |-> [r \in Reqs |-> [q |-> rq[r].q, cls |-> rq[r].cls, opsel |-> rq[r].opsel,
                                                vcls |-> rq[r].vcls, last |-> LastD(log[r])]]]))
  ELSE TRUE

\* gate sweep export (replay over the real transports): one line per
\* (configuration, request) with the fate and the complete event word the
\* model prescribes and the cache operations it performs
One1 == CHOOSE r \in Reqs : TRUE
ExportGates ==
  IF AllOver
  THEN PrintT(ToJson([exts |-> cfg.exts, ck |-> cfg.ck, cn |-> cfg.cn, tr |-> cfg.tr,
                      req  |-> rq[One1],
                      fate |-> Fate(cfg.exts, cfg.tr, rq[One1]),
                      log  |-> log[One1], glog |-> glog]))
  ELSE TRUE
=============================================================================
