\* C10 - exhaustive instance of Decode, REPAIRED model (the prescription the harness replays).
\*   all 8 transports x their slots x every class of the slot (no bound: the space is finite)
\* Measured: 281 inputs, 1,121 distinct states (1,402 generated), depth 7, 2 s with -workers 1 (the Export
\* action constraint prints one line per input and needs -workers 1); every action except the deviation
\* action NilDeref (disabled by FixNull) is taken.
CONSTANTS
  FixNull = TRUE
  FixInit = TRUE
INIT Init
NEXT Next
VIEW view
CHECK_DEADLOCK FALSE
INVARIANTS
  TypeOK
  NoPanicPath
  ImplConforms
  ExecutedOnlyDecoded
  DeviationIsReal
ACTION_CONSTRAINT Export
