\* C10 - exhaustive instance of Decode, REPAIRED model (the prescription the harness replays).
\*   all 8 transports x their slots x every class of the slot (no bound: the space is finite)
\* Measured: 180 inputs, 1,003 distinct states, depth 7, < 2 s; every action except the two
\* deviation actions (disabled by the constants) is taken.
CONSTANTS
  FixNull = TRUE
  FixInit = TRUE
INIT Init
NEXT Next
VIEW view
CHECK_DEADLOCK FALSE
INVARIANTS
  TypeOK
  NoPanicPath
  ImplConforms
  ExecutedOnlyDecoded
  DeviationIsReal
ACTION_CONSTRAINT Export
