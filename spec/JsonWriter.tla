------------------------------ MODULE JsonWriter ------------------------------
(***************************************************************************)
(* Property C08: everything gqlgen serializes is valid JSON that           *)
(* round-trips the value.                                                  *)
(*                                                                         *)
(* Part A - the string writer (graphql/string.go writeQuotedString, used   *)
(* by MarshalString, MarshalID, Int/UintID, Duration, UUID and for the     *)
(* keys of FieldSet) as a transducer over BYTE CLASSES.  The module holds  *)
(*   - the byte classes of UTF-8 (Unicode Table 3-7) and of JSON strings,  *)
(*   - RuneAt: rune decoding the way Go's `for i, c := range s` does it    *)
(*     (utf8 first-byte table, accept ranges, continuation checks; an      *)
(*     undecodable byte is RuneError of width 1),                          *)
(*   - Scan/Write: the writer, one token per rune, written like the code:  *)
(*     \t \r \n \\ \" two-character escapes, other bytes < 0x20 as \u00XX, *)
(*     everything else verbatim.  REQUIRED behaviour (property statement): *)
(*     an offending byte becomes U+FFFD.  The behaviour of the pinned tree *)
(*     (offending byte copied verbatim) is the named deviation             *)
(*     CopyInvalidVerbatim; with it TLC refutes ThmValidUtf8.              *)
(*   - Accept: an RFC 8259 string acceptor (byte-level DFA with the UTF-8  *)
(*     states inlined), written independently of RuneAt,                   *)
(*   - Dec: a JSON string decoder over the output symbols,                 *)
(*   - Sanitise: the declarative reference "each offending byte replaced   *)
(*     by U+FFFD" defined from the set of well-formed sequences.           *)
(* Theorems (invariants, checked by TLC for every enumerated input):       *)
(* the output is accepted, it is valid UTF-8, and it decodes to            *)
(* Sanitise(input).                                                        *)
(*                                                                         *)
(* Inputs are sequences of UNITS (single byte classes, valid 2/3/4-byte    *)
(* sequences, overlong / surrogate / > U+10FFFF sequences); a unit expands *)
(* to byte classes and everything is decided on the byte classes, so       *)
(* adjacent units that happen to form another sequence (a truncated lead   *)
(* followed by a lone continuation byte) are treated as what they are.     *)
(*                                                                         *)
(* Part B - scalar encoders over symbolic boundary classes: class ->       *)
(* prescribed outcome of Marshal* (token kind or error) and, for the       *)
(* inverse direction, type x carrier x class -> ok / err / any with the    *)
(* rule "a numeric class is preserved or rejected, never mapped to         *)
(* another class".                                                         *)
(*                                                                         *)
(* The module is function shaped: Init chooses one input, one action       *)
(* computes the prescribed outcome, Emit prints (input, outcome) for the   *)
(* Go harness, which concretises the classes and drives the real code.     *)
(***************************************************************************)
EXTENDS Naturals, Sequences, FiniteSets, TLC, Json

CONSTANTS
  MaxLen,               \* maximal number of units of a string input
  FirstUnits,           \* units allowed in first position (sharding; AllUnits = everything)
  CopyInvalidVerbatim,  \* TRUE = the deviation of the pinned tree (suspected defect #4)
  UintIDWraps,          \* TRUE = the deviation of the pinned tree (suspected defect #5)
  EmitLines             \* TRUE = print one JSON line per input (binding)

VARIABLES kind, inp, res, pc
vars == <<kind, inp, res, pc>>

(***************************************************************************)
(*                          A.1  byte classes                              *)
(***************************************************************************)
Named == {"tab", "nl", "cr"}                 \* 09 0A 0D: two-character escape in string.go
Ctl   == Named \cup {"bs", "ff", "ctl"}      \* 08, 0C, the other bytes < 0x20
Ascii == Ctl \cup {"quote", "bslash", "ascii", "del"}   \* ascii = 20..7E without " and \ ; del = 7F
Cont  == {"c8", "c9", "cA"}                  \* 80..8F, 90..9F, A0..BF
Lead  == {"C0",   \* C0..C1  (would start an overlong 2-byte form: never valid)
          "L2",   \* C2..DF
          "E0",   \* E0      (second byte must be A0..BF)
          "L3",   \* E1..EC, EE..EF
          "ED",   \* ED      (second byte must be 80..9F, else an encoded surrogate)
          "F0",   \* F0      (second byte must be 90..BF)
          "L4",   \* F1..F3
          "F4",   \* F4      (second byte must be 80..8F, else > U+10FFFF)
          "F5",   \* F5..FD  (> U+10FFFF / 5- and 6-byte forms)
          "FE"}   \* FE..FF
ByteClass == Ascii \cup Cont \cup Lead

MultiUnits ==
  [u2   |-> <<"L2", "cA">>,              u3   |-> <<"L3", "c9", "c8">>,
   u3lo |-> <<"E0", "cA", "c8">>,        u3hi |-> <<"ED", "c8", "cA">>,
   u4   |-> <<"L4", "c8", "c9", "cA">>,  u4lo |-> <<"F0", "c9", "c8", "c8">>,
   u4hi |-> <<"F4", "c8", "cA", "cA">>,
   ovl2 |-> <<"C0", "c8">>,              ovl3 |-> <<"E0", "c8", "c8">>,
   ovl4 |-> <<"F0", "c8", "c8", "c8">>,  sur  |-> <<"ED", "cA", "c8">>,
   big  |-> <<"F4", "c9", "c8", "c8">>]
AllUnits == ByteClass \cup DOMAIN MultiUnits
Expand(u) == IF u \in DOMAIN MultiUnits THEN MultiUnits[u] ELSE <<u>>

RECURSIVE Bytes(_, _)
Bytes(us, i) == IF i > Len(us) THEN <<>> ELSE Expand(us[i]) \o Bytes(us, i + 1)

(***************************************************************************)
(*        A.2  reference: well-formed UTF-8 and the sanitised input        *)
(***************************************************************************)
\* Unicode Table 3-7 (well-formed UTF-8 byte sequences), one row per first-byte class:
\* first byte, admissible second bytes, length; all further bytes are continuation bytes.
Utf8Table == {[f |-> "L2", s |-> Cont,         n |-> 2],
              [f |-> "E0", s |-> {"cA"},       n |-> 3],     \* 80..9F would be an overlong form
              [f |-> "L3", s |-> Cont,         n |-> 3],
              [f |-> "ED", s |-> {"c8", "c9"}, n |-> 3],     \* A0..BF would be a surrogate
              [f |-> "F0", s |-> {"c9", "cA"}, n |-> 4],     \* 80..8F would be an overlong form
              [f |-> "L4", s |-> Cont,         n |-> 4],
              [f |-> "F4", s |-> {"c8"},       n |-> 4]}     \* 90..BF would exceed U+10FFFF
\* bs[i .. i+w-1] is one well-formed character
WellFormedAt(bs, i, w) ==
  \/ w = 1 /\ bs[i] \in Ascii
  \/ \E row \in Utf8Table :
        /\ w = row.n /\ bs[i] = row.f /\ bs[i + 1] \in row.s
        /\ \A j \in (i + 2)..(i + w - 1) : bs[j] \in Cont

\* width of the well-formed sequence starting at i; 0 = bs[i] is an offending byte
RefWidth(bs, i) ==
  LET W == {w \in 1..4 : i + w - 1 <= Len(bs) /\ WellFormedAt(bs, i, w)}
  IN  IF W = {} THEN 0 ELSE CHOOSE w \in W : TRUE

FFFD == <<"FFFD">>   \* a decoded character is the tuple of its byte classes, or FFFD

RECURSIVE Sanitise(_, _)
Sanitise(bs, i) ==
  IF i > Len(bs) THEN <<>>
  ELSE LET w == RefWidth(bs, i)
       IN  IF w = 0 THEN <<FFFD>> \o Sanitise(bs, i + 1)
           ELSE <<SubSeq(bs, i, i + w - 1)>> \o Sanitise(bs, i + w)

RECURSIVE Widths(_, _)
Widths(bs, i) ==
  IF i > Len(bs) THEN <<>>
  ELSE LET w == RefWidth(bs, i)
       IN  IF w = 0 THEN <<0>> \o Widths(bs, i + 1) ELSE <<w>> \o Widths(bs, i + w)

(***************************************************************************)
(*                   A.3  the writer, written like the code                *)
(***************************************************************************)
\* utf8.first[]: how many bytes the rune starting with this byte needs (0 = never starts one)
Need(c) == CASE c \in Ascii -> 1
             [] c = "L2" -> 2
             [] c \in {"E0", "L3", "ED"} -> 3
             [] c \in {"F0", "L4", "F4"} -> 4
             [] OTHER -> 0
\* utf8.acceptRanges[]: the range of the second byte
SecondOK(c, d) == CASE c = "E0" -> d = "cA"
                    [] c = "ED" -> d \in {"c8", "c9"}
                    [] c = "F0" -> d \in {"c9", "cA"}
                    [] c = "F4" -> d = "c8"
                    [] OTHER -> d \in Cont
Bad == [w |-> 1, ok |-> FALSE]
RuneAt(bs, i) ==
  LET c == bs[i]
      n == Need(c)
  IN  IF n = 1 THEN [w |-> 1, ok |-> TRUE]
      ELSE IF n = 0 \/ i + n - 1 > Len(bs) THEN Bad
      ELSE IF ~SecondOK(c, bs[i + 1]) THEN Bad
      ELSE IF \E j \in (i + 2)..(i + n - 1) : bs[j] \notin Cont THEN Bad
      ELSE [w |-> n, ok |-> TRUE]

\* tokens: [k, c, b]  k in raw | esc | u00 | rep | dq
T(k, c, b) == [k |-> k, c |-> c, b |-> b]
DQ == T("dq", "", <<>>)
Tok(bs, i, r) ==
  IF ~r.ok THEN (IF CopyInvalidVerbatim THEN T("raw", "", <<bs[i]>>)   \* string.go today
                 ELSE T("rep", "", <<>>))                              \* required: U+FFFD
  ELSE IF bs[i] \in Named \cup {"quote", "bslash"} THEN T("esc", bs[i], <<>>)
  ELSE IF bs[i] \in Ctl THEN T("u00", bs[i], <<>>)
  ELSE T("raw", "", SubSeq(bs, i, i + r.w - 1))

RECURSIVE Scan(_, _)
Scan(bs, i) ==
  IF i > Len(bs) THEN <<>>
  ELSE LET r == RuneAt(bs, i) IN <<Tok(bs, i, r)>> \o Scan(bs, i + r.w)

Write(bs) == <<DQ>> \o Scan(bs, 1) \o <<DQ>>

(***************************************************************************)
(* A.4  output symbols.  A symbol is [c, l, v]: c the byte class, l which  *)
(* ASCII letter it is when that matters ("t","n","r","b","f","/","u"),    *)
(* l = "hh" for a PAIR of hex digits whose value is the byte class v       *)
(* ("00", "FF", "FD" or a control class).                                  *)
(***************************************************************************)
Sym(c, l, v) == [c |-> c, l |-> l, v |-> v]
Raw(c) == Sym(c, "", "")
EscLetter(c) == CASE c = "tab" -> "t" [] c = "nl" -> "n" [] c = "cr" -> "r"
                  [] c = "bs" -> "b" [] c = "ff" -> "f" [] OTHER -> ""
RECURSIVE RawSyms(_, _)
RawSyms(b, i) == IF i > Len(b) THEN <<>> ELSE <<Raw(b[i])>> \o RawSyms(b, i + 1)

TokSyms(t) ==
  CASE t.k = "dq"  -> <<Raw("quote")>>
    [] t.k = "raw" -> RawSyms(t.b, 1)
    [] t.k = "esc" -> IF t.c \in {"quote", "bslash"} THEN <<Raw("bslash"), Raw(t.c)>>
                      ELSE <<Raw("bslash"), Sym("ascii", EscLetter(t.c), "")>>
    [] t.k = "u00" -> <<Raw("bslash"), Sym("ascii", "u", ""), Sym("ascii", "hh", "00"), Sym("ascii", "hh", t.c)>>
    [] t.k = "rep" -> <<Raw("bslash"), Sym("ascii", "u", ""), Sym("ascii", "hh", "FF"), Sym("ascii", "hh", "FD")>>

RECURSIVE Flat(_, _)
Flat(ts, i) == IF i > Len(ts) THEN <<>> ELSE TokSyms(ts[i]) \o Flat(ts, i + 1)

RECURSIVE Classes(_, _)
Classes(ss, i) == IF i > Len(ss) THEN <<>> ELSE <<ss[i].c>> \o Classes(ss, i + 1)

(***************************************************************************)
(*      A.5  RFC 8259 string acceptor (DFA over symbols, UTF-8 inlined)    *)
(***************************************************************************)
AccStep(st, s) ==
  CASE st = "start" -> IF s.c = "quote" THEN "str" ELSE "rej"
    [] st = "str" ->
         CASE s.c = "quote" -> "end"
           [] s.c = "bslash" -> "esc"
           [] s.c \in Ctl -> "rej"                   \* %x00-1F must be escaped
           [] s.c \in {"ascii", "del"} -> "str"
           [] s.c = "L2" -> "t1"  [] s.c = "L3" -> "t2"  [] s.c = "L4" -> "t3"
           [] s.c = "E0" -> "e0"  [] s.c = "ED" -> "ed"
           [] s.c = "F0" -> "f0"  [] s.c = "F4" -> "f4"
           [] OTHER -> "rej"                         \* continuation, C0/C1, F5..FF
    [] st = "t1" -> IF s.c \in Cont THEN "str" ELSE "rej"
    [] st = "t2" -> IF s.c \in Cont THEN "t1" ELSE "rej"
    [] st = "t3" -> IF s.c \in Cont THEN "t2" ELSE "rej"
    [] st = "e0" -> IF s.c = "cA" THEN "t1" ELSE "rej"
    [] st = "ed" -> IF s.c \in {"c8", "c9"} THEN "t1" ELSE "rej"
    [] st = "f0" -> IF s.c \in {"c9", "cA"} THEN "t2" ELSE "rej"
    [] st = "f4" -> IF s.c = "c8" THEN "t2" ELSE "rej"
    [] st = "esc" ->
         CASE s.c \in {"quote", "bslash"} -> "str"
           [] s.c = "ascii" /\ s.l \in {"t", "n", "r", "b", "f", "/"} -> "str"
           [] s.c = "ascii" /\ s.l = "u" -> "u2"
           [] OTHER -> "rej"
    [] st = "u2" -> IF s.l = "hh" THEN "u1" ELSE "rej"
    [] st = "u1" -> IF s.l = "hh" THEN "str" ELSE "rej"
    [] OTHER -> "rej"                                \* "end": nothing may follow; "rej" is a trap

RECURSIVE AccRun(_, _, _)
AccRun(st, ss, i) == IF i > Len(ss) THEN st ELSE AccRun(AccStep(st, ss[i]), ss, i + 1)
Accept(ss) == AccRun("start", ss, 1) = "end"

RECURSIVE AllWellFormed(_, _)
AllWellFormed(cs, i) == i > Len(cs) \/ LET w == RefWidth(cs, i) IN w # 0 /\ AllWellFormed(cs, i + w)
ValidUtf8(ss) == AllWellFormed(Classes(ss, 1), 1)

(***************************************************************************)
(* A.6  JSON string decoder over symbols (what encoding/json computes:     *)
(* escapes resolved, an undecodable raw byte replaced by U+FFFD).          *)
(***************************************************************************)
UnEsc(l) == CASE l = "t" -> <<"tab">> [] l = "n" -> <<"nl">> [] l = "r" -> <<"cr">>
              [] l = "b" -> <<"bs">> [] l = "f" -> <<"ff">> [] OTHER -> <<"ascii">>
RECURSIVE DecBody(_, _, _)
DecBody(ss, cs, i) ==    \* cs = Classes(ss); decodes ss[i..]
  IF i > Len(ss) THEN <<>>
  ELSE IF ss[i].c = "bslash" /\ i + 1 <= Len(ss) THEN
         (IF ss[i + 1].l = "u" /\ i + 3 <= Len(ss) THEN
            <<(IF ss[i + 2].v = "00" THEN <<ss[i + 3].v>>
               ELSE IF ss[i + 2].v = "FF" /\ ss[i + 3].v = "FD" THEN FFFD
               ELSE <<"other">>)>> \o DecBody(ss, cs, i + 4)
          ELSE IF ss[i + 1].c \in {"quote", "bslash"} THEN <<<<ss[i + 1].c>>>> \o DecBody(ss, cs, i + 2)
          ELSE <<UnEsc(ss[i + 1].l)>> \o DecBody(ss, cs, i + 2))
  ELSE LET w == RefWidth(cs, i)
       IN  IF w = 0 THEN <<FFFD>> \o DecBody(ss, cs, i + 1)
           ELSE <<SubSeq(cs, i, i + w - 1)>> \o DecBody(ss, cs, i + w)
Dec(ss) == IF Len(ss) < 2 THEN <<<<"undecodable">>>>
           ELSE LET body == SubSeq(ss, 2, Len(ss) - 1) IN DecBody(body, Classes(body, 1), 1)

\* prescribed token kind per rune, for the record (v verbatim, e escape, x \u00XX, r replacement)
RECURSIVE Kinds(_, _)
Kinds(ts, i) ==
  IF i > Len(ts) THEN <<>>
  ELSE (CASE ts[i].k = "raw" -> <<"v">> [] ts[i].k = "esc" -> <<"e">> [] ts[i].k = "u00" -> <<"x">>
          [] ts[i].k = "rep" -> <<"r">> [] OTHER -> <<>>) \o Kinds(ts, i + 1)

\* the string inputs: all unit sequences of length <= MaxLen (first unit restricted for sharding)
IsStrInput(s, n) == s \in [1..n -> AllUnits] /\ (n > 0 => s[1] \in FirstUnits)

(***************************************************************************)
(*                B.  scalar encoders over boundary classes                *)
(***************************************************************************)
\* points of the integer line, in increasing order (a name is a class of values:
\* the single boundary value, or the open interval between its neighbours)
IntPts == <<"belowI64", "minI64", "minI64+1", "negBig", "minI32-1", "minI32", "minI32+1",
            "negSmall", "-1", "0", "1", "posSmall", "maxI32-1", "maxI32", "maxI32+1", "midU32",
            "maxU32-1", "maxU32", "maxU32+1", "posBig", "maxI64-1", "maxI64", "maxI64+1",
            "bigU64", "maxU64-1", "maxU64", "aboveU64">>
Rank(p) == CHOOSE i \in 1..Len(IntPts) : IntPts[i] = p
Span(lo, hi) == {IntPts[i] : i \in Rank(lo)..Rank(hi)}
I64 == Span("minI64", "maxI64")
I32 == Span("minI32", "maxI32")
U64 == Span("0", "maxU64")
U32 == Span("0", "maxU32")
AllInt == Span("belowI64", "aboveU64")
\* integers a float64 carrier holds exactly (|v| < 2^53)
F64Exact == Span("minI32-1", "maxU32+1")

IntTypes == {"Int", "Int32", "Int64", "Uint", "Uint32", "Uint64", "IntID", "UintID"}
IDTypes  == {"IntID", "UintID"}
RangeOf(ty) == CASE ty \in {"Int", "Int64", "IntID"} -> I64      \* int is 64 bit on the checked platform
                 [] ty = "Int32" -> I32
                 [] ty \in {"Uint", "Uint64", "UintID"} -> U64
                 [] ty = "Uint32" -> U32

Carriers == {"string", "int", "int32", "int64", "uint32", "uint64", "jsonNumber", "float64"}
CarrierHolds(ca) == CASE ca \in {"string", "jsonNumber"} -> AllInt
                      [] ca \in {"int", "int64"} -> I64
                      [] ca = "int32" -> I32
                      [] ca = "uint32" -> U32
                      [] ca = "uint64" -> U64
                      [] ca = "float64" -> F64Exact

\* what the decoded JSON token is handed back as (gqlgen decodes with UseNumber)
DecodedCarrier(ty) == IF ty \in IDTypes THEN "string" ELSE "jsonNumber"
\* carriers an in-range value MUST be accepted from: the decoded token, and
\* int / int64 (integer literals of a document reach Unmarshal* as int64)
MustCarriers(ty) == {DecodedCarrier(ty), "jsonNumber", "int", "int64"}

IntMarshalTok(ty) == IF ty \in IDTypes THEN "str" ELSE "num"

Case(k, ty, ca, cl, out, rt) == [k |-> k, ty |-> ty, ca |-> ca, cl |-> cl, out |-> out, rt |-> rt]

IntUnmarshalOutcome(ty, ca, p) ==
  IF p \in RangeOf(ty) THEN (IF ca \in MustCarriers(ty) THEN "ok" ELSE "any")
  ELSE IF UintIDWraps /\ ty = "UintID" /\ ca \in {"int", "int32", "int64"} THEN "ok"   \* id.go today: uint(v)
  ELSE "err"

IntMarshalCases == UNION {{Case("M", ty, "", p, IntMarshalTok(ty), "exact") : p \in RangeOf(ty)} : ty \in IntTypes}
IntUnmarshalCases ==
  UNION {{Case("U", ty, ca, p, IntUnmarshalOutcome(ty, ca, p), "") : p \in CarrierHolds(ca)} :
           ty \in IntTypes, ca \in Carriers}

FloatFinite == {"+0", "-0", "subnormal", "minNormal", "fraction", "one", "integral", "exp21", "max", "negative"}
FloatNonFinite == {"+Inf", "-Inf", "NaN"}
FloatIntegral == {"+0", "one", "integral"}
\* "ctx" = MarshalFloatContext, the default binding of Float; "plain" = MarshalFloat,
\* for which the statement demands nothing about non-finite values (not enumerated)
FloatMarshalCases ==
  {Case("M", "Float", "ctx", f, "num", "exact") : f \in FloatFinite}
  \cup {Case("M", "Float", "ctx", f, "err", "") : f \in FloatNonFinite}
  \cup {Case("M", "Float", "plain", f, "num", "exact") : f \in FloatFinite}
FloatUnmarshalCases ==
  {Case("U", "Float", ca, f, "ok", "") : ca \in {"float64", "jsonNumber", "string"}, f \in FloatFinite}
  \cup {Case("U", "Float", ca, f, "ok", "") : ca \in {"int", "int64"}, f \in FloatIntegral}

BoolCases == {Case("M", "Boolean", "", b, b, "exact") : b \in {"true", "false"}}
             \cup {Case("U", "Boolean", "bool", b, "ok", "") : b \in {"true", "false"}}
             \cup {Case("U", "Boolean", "string", b, "any", "") : b \in {"true", "false"}}

\* Time: domain = instants RFC 3339 can express (year 0..9999, whole-minute offset).
TimeClasses == {"utc-sec", "utc-nano", "utc-trailing-zeros", "offset-plus", "offset-minus", "offset-max",
                "local-monotonic", "year1", "year9999", "pre1970", "leap-day"}
TimeCases == {Case("M", "Time", "", t, "str", "exact") : t \in TimeClasses}
             \cup {Case("M", "Time", "", "zero", "null", "none")}     \* documented: zero time is null
DurationClasses == {"zero", "ns", "sub-second", "seconds", "seconds-frac", "minutes", "hours", "days",
                    "weeks", "months", "years", "negative", "mixed", "maxInt64", "minInt64",
                    "unit-minus-ns", "boundary-minus-ns"}
DurationCases == {Case("M", "Duration", "", d, "str", "exact") : d \in DurationClasses}
UUIDClasses == {"v4", "v1", "max", "random-bits"}
UUIDCases == {Case("M", "UUID", "", u, "str", "exact") : u \in UUIDClasses}
             \cup {Case("M", "UUID", "", "nil", "null", "none")}      \* documented: nil UUID is null
\* compositions through encoding/json: any JSON value; round trip = equal as JSON values
MapClasses == {"nil", "empty", "flat", "nested", "string-classes", "invalid-utf8", "html", "numbers"}
MapCases == {Case("M", "Map", "", m, IF m = "nil" THEN "null" ELSE "object", "json") : m \in MapClasses}
NoJsonClasses == {"nan", "+inf", "-inf", "bad-number", "nested-nan", "nested-bad-number"}
AnyClasses == {"nil", "bool", "int", "float", "string", "string-classes", "invalid-utf8", "html", "list", "map", "nested"}
AnyCases == {Case("M", "Any", "", a, "value", "json") : a \in AnyClasses}
            \cup {Case("M", "Any", "", a, "refuse", "") : a \in NoJsonClasses}
\* Go values that have no JSON representation (non-finite floats, a json.Number that is
\* not a JSON number, at top level or nested): the writer must not complete with a
\* document that is not valid JSON (refusing = panicking with the encoder's error, which
\* the executor turns into an error, is what it does)
MapRefuseCases == {Case("M", "Map", "", a, "refuse", "") : a \in {"nested-nan", "nested-bad-number"}}
OmitClasses == {"string", "string-classes", "int", "float", "bool", "nil-pointer", "pointer", "struct", "slice", "map", "zero"}
OmittableCases == {Case("M", "Omittable", "set", o, "value", "exact") : o \in OmitClasses}
                  \cup {Case("M", "Omittable", "unset", o, "value", "none") : o \in OmitClasses}

ScalarCases == IntMarshalCases \cup IntUnmarshalCases \cup FloatMarshalCases \cup FloatUnmarshalCases
               \cup BoolCases \cup TimeCases \cup DurationCases \cup UUIDCases \cup MapCases \cup MapRefuseCases \cup AnyCases
               \cup OmittableCases

(***************************************************************************)
(*                          state machine                                  *)
(***************************************************************************)
Init ==
  /\ pc = "in"
  /\ res = <<>>
  /\ \/ kind = "S" /\ \E n \in 0..MaxLen : inp \in [1..n -> AllUnits] /\ IsStrInput(inp, n)
     \/ kind = "C" /\ inp \in ScalarCases

WriteQuotedString ==
  /\ pc = "in" /\ kind = "S"
  /\ res' = Write(Bytes(inp, 1))
  /\ pc' = "done"
  /\ UNCHANGED <<kind, inp>>

EncodeScalar ==
  /\ pc = "in" /\ kind = "C"
  /\ res' = inp.out
  /\ pc' = "done"
  /\ UNCHANGED <<kind, inp>>

Next == WriteQuotedString \/ EncodeScalar
Spec == Init /\ [][Next]_vars

\* binding: one line per input with the outcome the specification prescribes
Emit ==
  EmitLines =>
    IF kind = "S"
    THEN LET bs == Bytes(inp, 1)
         IN PrintT(ToJson([k |-> "S", u |-> inp, b |-> bs, e |-> Widths(bs, 1), t |-> Kinds(res', 1)]))
    ELSE PrintT(ToJson(inp))

(***************************************************************************)
(*                              theorems                                   *)
(***************************************************************************)
StrDone == pc = "done" /\ kind = "S"
ThmAccepted  == StrDone => Accept(Flat(res, 1))
ThmValidUtf8 == StrDone => ValidUtf8(Flat(res, 1))
ThmDecodes   == StrDone => Dec(Flat(res, 1)) = Sanitise(Bytes(inp, 1), 1)
\* the two formulations of UTF-8 decoding agree (RuneAt vs the well-formed table)
ThmRuneAtIsRef == (kind = "S" /\ pc = "in") =>
   LET bs == Bytes(inp, 1) IN \A i \in 1..Len(bs) :
       LET r == RuneAt(bs, i) IN (r.ok => RefWidth(bs, i) = r.w) /\ (~r.ok => RefWidth(bs, i) = 0)

\* numeric classes are preserved or rejected, never mapped to another class
ThmNoSilentWrap == (kind = "C" /\ inp.k = "U" /\ inp.ty \in IntTypes) =>
   /\ (inp.cl \notin RangeOf(inp.ty) => inp.out = "err")
   /\ (inp.cl \in RangeOf(inp.ty) => inp.out \in {"ok", "any"})
\* the round trip closes: the carrier the decoded token arrives in must be accepted
ThmRoundTripCloses == (kind = "C" /\ inp.k = "M" /\ inp.ty \in IntTypes) =>
   /\ inp.cl \in CarrierHolds(DecodedCarrier(inp.ty))
   /\ IntUnmarshalOutcome(inp.ty, DecodedCarrier(inp.ty), inp.cl) = "ok"
\* non-finite floats under the default binding: an error, never a token
ThmNonFinite == (kind = "C" /\ inp.k = "M" /\ inp.ty = "Float" /\ inp.ca = "ctx") =>
   (inp.cl \in FloatNonFinite <=> inp.out = "err")
\* value ranges are intervals of the integer line and nest as the widths do
ASSUME ThmRanges ==
             /\ I32 \subseteq I64 /\ U32 \subseteq U64 /\ U64 \cap I64 = Span("0", "maxI64")
             /\ \A ty \in IntTypes : \A i, j \in 1..Len(IntPts) :
                  (IntPts[i] \in RangeOf(ty) /\ IntPts[j] \in RangeOf(ty)) =>
                      \A m \in i..j : IntPts[m] \in RangeOf(ty)
TypeOK == pc \in {"in", "done"} /\ kind \in {"S", "C"}
=============================================================================
