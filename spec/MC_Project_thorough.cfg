\* Project.tla, INTENDED DESIGN (Dev = {}), thorough tier: as MC_Project.cfg plus edit records with a directive
\* doc comment / without doc comment and a second initial schema (f1 and g already in a.graphqls); histories <= 6.
\* Measured: 1 911 515 distinct / 7 020 334 generated states, depth 7, 5 min 40 s with 4 workers (loaded machine).
INIT Init
NEXT Next
CONSTANTS
  Files <- MCFiles
  FileOrder <- MCFileOrder
  Pairs <- MCPairs
  TypeOf <- MCTypeOf
  RootTypes <- MCRoot
  Edits <- MCEditsDev
  EncToks <- MCEncNone
  HelperToks <- MCHelpers
  ImportToks <- MCImports
  CmtToks <- MCCmt
  NeverPruned <- MCNever
  RootToks <- MCRootAll
  Cfgs <- MCCfgs
  ImpPairs <- MCPairs
  InitSchemas <- MCInit3
  MaxHist = 6
  Dev <- MCNoDev
INVARIANTS TypeOK SchemaOK LayoutOK GenerateTotal GenIsFunction
PROPERTIES MethodsKept StubsComplete ImportsKept DeclsKept FilesParse CompileKept Deterministic Idempotent
CHECK_DEADLOCK FALSE
