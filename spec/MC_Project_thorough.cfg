\* Project.tla, intended design (Dev = {}): every C19 / C18 / C17 property is checked by TLC.
\* 3 resolver fields (Query.f1, Query.f2, T.g) x 2 schema files x 2 body tokens (b1 / b2c, written together
\* with doc d1 + named results / template doc + unnamed) x 2 helper tokens x 2 import tokens x both resolver
\* layouts x histories <= 6.
\* Measured (4 workers): see notes/C19.md (header is updated from the measured run).
INIT Init
NEXT Next
CONSTANTS
  Files <- MCFiles
  FileOrder <- MCFileOrder
  Pairs <- MCPairs
  TypeOf <- MCTypeOf
  RootTypes <- MCRoot
  Edits <- MCEditsDev
  HelperToks <- MCHelpers
  ImportToks <- MCImports
  CmtToks <- MCCmt
  NeverPruned <- MCNever
  Cfgs <- MCCfgs
  ImpPairs <- MCPairs
  InitSchemas <- MCInit3
  MaxHist = 6
  Dev <- MCNoDev
INVARIANTS TypeOK SchemaOK LayoutOK GenerateTotal GenIsFunction
PROPERTIES MethodsKept StubsComplete ImportsKept DeclsKept FilesParse CompileKept Deterministic Idempotent
CHECK_DEADLOCK FALSE
