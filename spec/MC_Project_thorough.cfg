\* Project.tla, INTENDED DESIGN (Dev = {}), thorough tier: as MC_Project.cfg plus edit records with a directive
\* doc comment / without doc comment and a second initial schema (f1 and g already in a.graphqls); histories <= 6.
\* Root struct customisations {rf, re}.
\* Measured: 3 065 659 distinct / 11 801 948 generated states, depth 7, 4 min 26 s with 4 workers (before the root
\* struct: 1 911 515 / 7 020 334).
INIT Init
NEXT Next
CONSTANTS
  Files <- MCFiles
  FileOrder <- MCFileOrder
  Pairs <- MCPairs
  TypeOf <- MCTypeOf
  RootTypes <- MCRoot
  Edits <- MCEditsDev
  EncToks <- MCEncNone
  HelperToks <- MCHelpers
  ImportToks <- MCImports
  CmtToks <- MCCmt
  NeverPruned <- MCNever
  RootToks <- MCRootAll
  Cfgs <- MCCfgs
  ImpPairs <- MCPairs
  InitSchemas <- MCInit3
  MaxHist = 6
  Dev <- MCNoDev
INVARIANTS TypeOK SchemaOK LayoutOK GenerateTotal GenIsFunction
PROPERTIES MethodsKept StubsComplete ImportsKept DeclsKept FilesParse CompileKept Deterministic Idempotent
CHECK_DEADLOCK FALSE
