\* Project.tla as the PINNED TREE behaves (Dev = all named deviations): prints every labelled edge of
\* the projected state graph (-workers 1) for replay into the real generator (thorough tier: deep histories, sampled).
\* 2 resolver fields (Query.f1, T.g) x 2 schema files x 3 edit records x 2 helper tokens x 5 import
\* tokens x both resolver layouts x histories <= 4.  Measured: see notes/C19.md.
INIT Init
NEXT Next
CONSTANTS
  Files <- MCFiles
  FileOrder <- MCFileOrder
  Pairs <- MCPairs2
  TypeOf <- MCTypeOf2
  RootTypes <- MCRoot
  Edits <- MCEdits
  HelperToks <- MCHelpersQ
  ImportToks <- MCImportsS
  CmtToks <- MCCmt
  NeverPruned <- MCNever
  Cfgs <- MCCfgs
  ImpPairs <- MCImpQ
  InitSchemas <- MCInit2P
  MaxHist = 5
  Dev <- MCAllDevs
VIEW View
INVARIANTS TypeOK SchemaOK LayoutOK GenerateTotal
PROPERTIES MethodsKeptND FilesParseND IdealRecorded Deterministic
ACTION_CONSTRAINT EmitEdge
CONSTRAINT EmitInit
CHECK_DEADLOCK FALSE
