\* Deep histories for seeded sampling (C19 thorough): 2 resolver fields, 2 edit records, helper {hc}, import {asfx},
\* helpers {hc, hr}, root struct customisation {rf}, both resolver layouts, histories <= 5.
\* Measured: 20 166 states, 16 s (before root struct / hr: 6 388 states, 20 943 edges, 8 s).
INIT Init
NEXT Next
CONSTANTS
  Files <- MCFiles
  FileOrder <- MCFileOrder
  Pairs <- MCPairs2
  TypeOf <- MCTypeOf2
  RootTypes <- MCRoot
  Edits <- MCEdits
  EncToks <- MCEncQ
  HelperToks <- MCHelpersQ
  ImportToks <- MCImportsS
  CmtToks <- MCCmt
  NeverPruned <- MCNever
  RootToks <- MCRootQ
  Cfgs <- MCCfgs
  ImpPairs <- MCImpQ
  InitSchemas <- MCInit2P
  MaxHist = 5
  Dev <- MCCurDevs
VIEW View
INVARIANTS TypeOK SchemaOK LayoutOK GenerateTotal
PROPERTIES MethodsKeptND FilesParseND Deterministic
ACTION_CONSTRAINT EmitEdge
CONSTRAINT EmitInit
CHECK_DEADLOCK FALSE
