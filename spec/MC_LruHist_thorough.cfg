\* Lru with its history variables (thorough tier): Keys {k1..k4}, Vals {v1,v2},
\* capacity 1..3, histories of any length (finite state space).
\* Measured: 71807 distinct states, 861687 generated, 8-22 s.
SPECIFICATION LruSpec
CONSTANTS
  Keys <- K4
  Vals <- V2
  Caps <- Caps123
INVARIANTS LruTypeOK SizeOK Latest GetLatest GetOwn Own NeverAddedMisses
PROPERTIES EvictOK
CHECK_DEADLOCK FALSE
