\* C02, quick tier. Object values deviate from the base object in <= 2 fields (Devs = 2).
\* One run checks the theorems on every case and prints shapes + grid + cases (-workers 1).
\* Measured: 13,136 cases (42 shapes), 26,272 distinct states, depth 2; 1 worker 18-21 s.
CONSTANTS
  Devs = 2
  Emit = TRUE
SPECIFICATION Spec
INVARIANTS Thm_Idem Thm_Wrap Thm_Default Thm_Numeric Thm_Shape Thm_Dfl
ACTION_CONSTRAINT EmitEdge
CHECK_DEADLOCK FALSE
