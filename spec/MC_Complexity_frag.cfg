\* C14, one named fragment spread several times (theorems + emission, -workers 1):
\* 30 operation shapes (4 fragment bodies x 7 contexts + 2 root-level) x {no custom cost, one slot, two slots,
\* uniform} from {const 0/2/-1, child+2, child*2, child*3, child+arg}.
\* Measured: 30 trees, 5,059 inputs, 10,148 distinct states, depth 3; 1 worker ~35-50 s.
CONSTANTS
  MaxH = 2
  MaxD = 1
  MaxSize = 3
  MaxCustom = 2
  Corpus = "frag"
  Emit = TRUE
SPECIFICATION Spec
ACTION_CONSTRAINT EmitEdge
INVARIANTS TRange TDSmall TChildren TMonotone TPerm TFragment TDouble TGate TGateMono TBindState
CHECK_DEADLOCK FALSE
