\* C09 negative: Supports slip "graphql-no-method" (expected: GetNeverMutates violated - a GET request whose body
\* holds a mutation is claimed by a body transport registered before GET)
CONSTANTS
  Servers <- ServersFull
  Methods <- MethodsAll
  ReqCTs <- ReqCTsAll
  Accepts <- AcceptsQuick
  Docs <- DocsQuick
  Slip = "graphql-no-method"
INIT Init
NEXT Next
CHECK_DEADLOCK FALSE
INVARIANTS
  GetNeverMutates
