------------------------------- MODULE Coerce -------------------------------
(***************************************************************************)
(* C02 - resolvers receive arguments exactly as GraphQL input coercion     *)
(* defines.                                                                *)
(*                                                                         *)
(* A function-shaped module.  Init chooses one case                        *)
(*     (argument shape, source, abstract JSON value)                       *)
(* from the bounded universe below; the single action Compute evaluates    *)
(* CoerceArg, the composition of                                           *)
(*   - CoerceVariableValues (GraphQL spec 6.1.2),                          *)
(*   - CoerceArgumentValues (6.4.1) and                                    *)
(*   - input coercion of scalars, enums, lists and input objects (3.5-3.12)*)
(* and the theorems are checked on every case.  EmitEdge prints the shape  *)
(* list (the SDL of the `args` probe is rendered from it), the input       *)
(* object definitions, the scalar grid and every (case, outcome) as JSON;  *)
(* harness/cmd/c02 concretises each case, sends it through servers         *)
(* generated from /repo's templates and compares what the resolver got.    *)
(*                                                                         *)
(* Outcome  [v, faults, soft]:                                             *)
(*   faults  positions (paths below the argument) that CANNOT be coerced;  *)
(*           non-empty => the resolver must not run and an error must be   *)
(*           reported at (or below) the argument's path;                   *)
(*   v       the coerced value, absent / null / value PRESERVED (object    *)
(*           fields the client did not send and that have no default are   *)
(*           [t |-> "absent"]; what a Go binding can express of that is    *)
(*           View below);                                                  *)
(*   soft    positions where the GraphQL spec and the property statement   *)
(*           leave leniency: the implementation may EITHER reject the      *)
(*           input at that position OR deliver exactly the value in v      *)
(*           (Int outside 32 bit but inside the Go int, Int from "7" or    *)
(*           1.0, Boolean from "true", ...; leaf [t |-> "any"] = no claim  *)
(*           on the delivered non-numeric value).  A NUMBER is never       *)
(*           lenient: it arrives as the same number or is rejected.        *)
(*                                                                         *)
(*   dfl     positions (paths below the argument) where the value in v is  *)
(*           an input FIELD default the server injected (the generator     *)
(*           renders these into Go source; argument and variable defaults  *)
(*           are read from the parsed schema / document at run time).      *)
(*                                                                         *)
(* Integers are boundary classes ordered by ClassSeq (TLC integers are 32  *)
(* bit); the harness picks concrete representatives per class.  Floats     *)
(* that are not "integer class + .0/.5" are NAMED classes (FloatNames):    *)
(* fine fractions that need more than 6 decimals, tiny, denormal, huge.    *)
(* They occur as DEFAULTS of input fields (also inside list and object     *)
(* defaults), of arguments and of the arguments of a directive applied in  *)
(* the schema (DfltArgs / DirSites): a defaulted position receives exactly *)
(* the schema's default value.                                             *)
(***************************************************************************)
EXTENDS Integers, Sequences, FiniteSets, TLC, Json

CONSTANTS Devs,    \* 1..3: object values deviate from the base object in at most Devs fields
          Emit     \* print shapes / cases

VARIABLES pc, cs, out
vars == <<pc, cs, out>>

(***************************************************************************)
(* Types                                                                   *)
(***************************************************************************)
Nm(n) == [k |-> "n", n |-> n, nn |-> FALSE]
L(t)  == [k |-> "l", of |-> t, nn |-> FALSE]
NN(t) == [t EXCEPT !.nn = TRUE]
Nullable(t) == [t EXCEPT !.nn = FALSE]

(***************************************************************************)
(* Abstract JSON / GraphQL values (tagged records)                         *)
(***************************************************************************)
Absent == [t |-> "absent"]
Null   == [t |-> "null"]
NoDef  == [t |-> "nodef"]
AnyV   == [t |-> "any"]
Bad    == [t |-> "bad"]
I(c)     == [t |-> "int", c |-> c]                \* integer of class c (literal IntValue / JSON number)
F(c, fr) == [t |-> "flt", c |-> c, fr |-> fr]     \* float: class c written with a fraction part; fr: + 0.5
FX(c)    == [t |-> "fx", c |-> c]                 \* float of the NAMED class c (FloatNames)
NS(c)    == [t |-> "nstr", c |-> c]               \* string holding the decimal digits of class c
S(s)     == [t |-> "str", v |-> s]
B(b)     == [t |-> "bool", v |-> b]
En(s)    == [t |-> "enum", v |-> s]               \* enum literal (a JSON string when carried by a variable)
Ls(es)   == [t |-> "list", e |-> es]
KV(k, v) == [k |-> k, v |-> v]
O(fs)    == [t |-> "obj", f |-> fs]               \* fs: sequence of KV
\* only inside object LITERALS: the field is written `k: $w`; $w is bound to v (or unbound: Absent)
\* and declared with default d (NoDef: none)
Vr(v, d) == [t |-> "var", v |-> v, d |-> d]

(***************************************************************************)
(* Integer classes                                                         *)
(***************************************************************************)
ClassSeq == <<"ltMin64", "min64", "ltMin32", "min32", "m1", "zero", "one", "two", "three", "five",
              "seven", "max32", "gtMax32", "maxU32", "gtMaxU32", "max64", "gtMax64", "maxU64", "gtMaxU64">>
Classes == {ClassSeq[i] : i \in 1..Len(ClassSeq)}
Rank(c) == CHOOSE i \in 1..Len(ClassSeq) : ClassSeq[i] = c
Within(c, lo, hi) == Rank(c) >= Rank(lo) /\ Rank(c) <= Rank(hi)
Boundary == Classes \ {"one", "two", "three", "five"}
\* classes all of whose representatives are exactly representable as float64 (the harness picks them so)
FloatExact == {"ltMin32", "min32", "m1", "zero", "one", "two", "three", "five", "seven", "max32", "gtMax32", "maxU32", "gtMaxU32"}

\* named floats: fine7 0.1234567, fineBig 123456.7890123, negFine -0.0000012345 (more than 6 decimals),
\* tiny 1e-7, denorm 5e-324 (smallest positive float64), huge 1e30, maxF 1.7976931348623157e308
FloatNames == {"fine7", "fineBig", "negFine", "tiny", "denorm", "huge", "maxF"}

(***************************************************************************)
(* Named types of the probe schema                                         *)
(***************************************************************************)
IntTargets == {"Int", "I32", "I64", "U32", "U64", "UU", "IID", "UID"}
\* the range of the Go type the scalar is bound to
NumRange == [Int |-> <<"min64", "max64">>, I32 |-> <<"min32", "max32">>, I64 |-> <<"min64", "max64">>,
             U32 |-> <<"zero", "maxU32">>, U64 |-> <<"zero", "maxU64">>, UU  |-> <<"zero", "maxU64">>,
             IID |-> <<"min64", "max64">>, UID |-> <<"zero", "maxU64">>]
Fits(n, c)   == Within(c, NumRange[n][1], NumRange[n][2])
\* where acceptance is MANDATORY: GraphQL Int is 32 bit, the custom integer scalars are their Go range
Strict(n, c) == IF n = "Int" THEN Within(c, "min32", "max32") ELSE Fits(n, c)
EnumNames == {"A", "B"}

\* dir: the pass-through directive @dchk is applied; fdir: NoDef or the arguments (an object) with which
\* the directive @dflt (Float arguments, DfltArgs below) is applied at this definition
Fd(name, type, def, dir)   == [name |-> name, type |-> type, def |-> def, dir |-> dir, fdir |-> NoDef]
FdX(name, type, def, app)  == [name |-> name, type |-> type, def |-> def, dir |-> FALSE, fdir |-> app]
InFields == << Fd("a", Nm("Int"), I("seven"), FALSE),
               Fd("b", NN(Nm("Int")), NoDef, FALSE),
               Fd("c", L(NN(Nm("Int"))), NoDef, FALSE),
               Fd("d", Nm("Inner"), NoDef, FALSE),
               Fd("e", Nm("E"), En("B"), FALSE),
               Fd("s", Nm("String"), NoDef, TRUE),
               Fd("r", NN(Nm("Int")), I("five"), FALSE) >>
InnerFields == << Fd("p", Nm("Int"), I("three"), FALSE),
                  Fd("q", NN(Nm("Int")), NoDef, FALSE),
                  Fd("l", L(Nm("Int")), NoDef, FALSE) >>
\* Float DEFAULTS: nullable / non-null, a list default, an object default whose own missing field is
\* defaulted again, an integral value (5.0) into Float and into the carrier-observing scalar K, and
\* fields that carry the directive @dflt
FlFields == << Fd("k", Nm("Int"), NoDef, FALSE),
               Fd("u", Nm("Float"), FX("fine7"), FALSE),
               Fd("v", NN(Nm("Float")), FX("tiny"), FALSE),
               Fd("w", L(NN(Nm("Float"))), Ls(<<FX("fineBig"), F("five", FALSE), FX("huge"), FX("negFine")>>), FALSE),
               Fd("o", Nm("FlIn"), O(<<KV("m", FX("fine7"))>>), FALSE),
               Fd("y", Nm("K"), F("five", FALSE), FALSE),
               FdX("h", Nm("Float"), FX("maxF"), O(<<KV("v", FX("fineBig")), KV("z", FX("denorm"))>>)) >>
FlInFields == << FdX("m", Nm("Float"), FX("denorm"), O(<<KV("v", F("five", FALSE)), KV("w", FX("negFine"))>>)),
                 Fd("n", NN(Nm("Float")), FX("fineBig"), FALSE),
                 Fd("g", Nm("Float"), F("five", FALSE), FALSE) >>
InputSeq   == <<"In", "InO", "InM", "Inner", "Fl", "FlM", "FlIn">>
InputNames == {InputSeq[i] : i \in 1..Len(InputSeq)}
InputDef  == [In |-> InFields, InO |-> InFields, InM |-> InFields, Inner |-> InnerFields,
              Fl |-> FlFields, FlM |-> FlFields, FlIn |-> FlInFields]
\* declared Go binding: struct (pointers), omit (every nullable field is graphql.Omittable), map (map[string]any)
InputBind == [In |-> "struct", InO |-> "omit", InM |-> "map", Inner |-> "struct",
              Fl |-> "struct", FlM |-> "map", FlIn |-> "struct"]
FieldNames(n) == {InputDef[n][i].name : i \in 1..Len(InputDef[n])}

(***************************************************************************)
(* Scalar and enum input coercion (GraphQL spec 3.5.1-3.5.5, 3.9)          *)
(***************************************************************************)
Leaf(r, v) == [r |-> r, v |-> v]
Err == Leaf("err", Bad)

CoerceNum(n, v) ==
  CASE v.t = "int"  -> IF Strict(n, v.c) THEN Leaf("ok", I(v.c))
                       ELSE IF Fits(n, v.c) THEN Leaf("soft", I(v.c)) ELSE Err
    [] v.t = "flt"  -> IF ~v.fr /\ Fits(n, v.c) THEN Leaf("soft", I(v.c)) ELSE Err
    [] v.t = "nstr" -> IF Fits(n, v.c) THEN Leaf("soft", I(v.c)) ELSE Err
    [] OTHER        -> Err

\* lit: the value is written in a GraphQL document (enum literals exist); otherwise it is JSON
CoerceScalar(n, v, lit) ==
  CASE n \in IntTargets -> CoerceNum(n, v)
    [] n = "Float" ->
         CASE v.t \in {"flt", "fx"} -> Leaf("ok", v)
           [] v.t = "int"  -> IF v.c \in FloatExact THEN Leaf("ok", F(v.c, FALSE)) ELSE Leaf("soft", AnyV)
           [] v.t = "nstr" -> IF v.c \in FloatExact THEN Leaf("soft", F(v.c, FALSE)) ELSE Leaf("soft", AnyV)
           [] OTHER -> Err
    [] n = "String" ->
         CASE v.t \in {"str", "nstr"} -> Leaf("ok", v)
           [] v.t \in {"int", "flt", "fx", "bool", "enum"} -> Leaf("soft", AnyV)
           [] OTHER -> Err
    [] n = "ID" ->
         CASE v.t \in {"str", "nstr"} -> Leaf("ok", v)
           [] v.t = "int" -> IF Within(v.c, "min64", "max64") THEN Leaf("ok", NS(v.c)) ELSE Leaf("soft", NS(v.c))
           [] v.t \in {"flt", "fx", "bool", "enum"} -> Leaf("soft", AnyV)
           [] OTHER -> Err
    [] n = "Boolean" ->
         CASE v.t = "bool" -> Leaf("ok", v)
           [] v.t \in {"str", "nstr", "int", "flt", "fx", "enum"} -> Leaf("soft", AnyV)
           [] OTHER -> Err
    [] n = "E" ->
         CASE v.t = "enum" -> IF v.v \in EnumNames THEN Leaf("ok", v) ELSE Err
           [] v.t = "str"  -> IF v.v \in EnumNames
                              THEN (IF lit THEN Leaf("soft", En(v.v)) ELSE Leaf("ok", En(v.v)))
                              ELSE Err
           [] OTHER -> Err
    [] OTHER -> Err

(***************************************************************************)
(* Input coercion of a PRESENT value v for type T at path p                *)
(***************************************************************************)
R4(v, fl, so, df) == [v |-> v, faults |-> fl, soft |-> so, dfl |-> df]
R(v, fl, so) == R4(v, fl, so, {})
None == [vs |-> <<>>, faults |-> {}, soft |-> {}, dfl |-> {}]
Cons(h, r) == [vs |-> <<h.v>> \o r.vs, faults |-> h.faults \cup r.faults, soft |-> h.soft \cup r.soft,
               dfl |-> h.dfl \cup r.dfl]

HasField(fs, k) == \E i \in 1..Len(fs) : fs[i].k = k
FieldVal(fs, k) == IF HasField(fs, k) THEN fs[CHOOSE i \in 1..Len(fs) : fs[i].k = k].v ELSE Absent
\* what a position sees when it is written as a variable: an unbound variable is NO value
\* (the variable's own default applies first) - spec 3.10 "Input Coercion" / 6.1.2
Resolve(v) == IF v.t = "var"
              THEN (IF v.v.t = "absent" THEN (IF v.d.t = "nodef" THEN Absent ELSE v.d) ELSE v.v)
              ELSE v
\* a JSON carrier has no enum literals: a string is the carrier of an enum value
Norm(v, lit) == IF ~lit /\ v.t = "enum" THEN S(v.v) ELSE v

RECURSIVE CoerceIn(_, _, _, _), CoerceElems(_, _, _, _, _), CoerceFields(_, _, _, _, _)

CoerceElems(T, es, p, lit, i) ==
  IF i > Len(es) THEN None
  ELSE Cons(CoerceIn(T, es[i], p \o <<ToString(i - 1)>>, lit), CoerceElems(T, es, p, lit, i + 1))

CoerceFields(defs, fs, p, lit, i) ==
  IF i > Len(defs) THEN None
  ELSE LET d   == defs[i]
           fv  == FieldVal(fs, d.name)
           raw == Resolve(fv)
           pp  == p \o <<d.name>>
           \* a value that came through a variable is JSON-carried
           fl  == IF fv.t = "var" THEN FALSE ELSE lit
           h   == IF raw.t = "absent"
                  THEN (IF d.def.t # "nodef"                                             \* default injected
                        THEN (LET dv == CoerceIn(d.type, d.def, pp, TRUE) IN [dv EXCEPT !.dfl = {pp} \cup dv.dfl])
                        ELSE IF d.type.nn THEN R(Bad, {pp}, {})                          \* required field missing
                        ELSE R(Absent, {}, {}))                                          \* no entry
                  ELSE CoerceIn(d.type, raw, pp, fl)                                     \* explicit null stays null
           r   == CoerceFields(defs, fs, p, lit, i + 1)
       IN  [vs |-> <<KV(d.name, h.v)>> \o r.vs, faults |-> h.faults \cup r.faults, soft |-> h.soft \cup r.soft,
            dfl |-> h.dfl \cup r.dfl]

CoerceIn(T, v0, p, lit) ==
  LET v == Norm(v0, lit) IN
  IF v.t = "null" THEN (IF T.nn THEN R(Bad, {p}, {}) ELSE R(Null, {}, {}))
  ELSE IF T.k = "l"
  THEN (IF v.t = "list"
        THEN LET r == CoerceElems(T.of, v.e, p, lit, 1) IN R4(Ls(r.vs), r.faults, r.soft, r.dfl)
        \* a single non-null value is the list of that one value (nested lists: the item is coerced again)
        ELSE LET h == CoerceIn(T.of, v, p \o <<"0">>, lit) IN R4(Ls(<<h.v>>), h.faults, h.soft, h.dfl))
  ELSE IF T.n \in InputNames
  THEN (IF v.t # "obj" THEN R(Bad, {p}, {})
        ELSE LET unk == {p \o <<v.f[i].k>> : i \in {j \in 1..Len(v.f) : v.f[j].k \notin FieldNames(T.n)}}
                 r   == CoerceFields(InputDef[T.n], v.f, p, lit, 1)
             IN  R4(O(r.vs), r.faults \cup unk, r.soft, r.dfl))
  \* Any, and K (a scalar whose Go unmarshaler reports which Go carrier it was handed): identity
  ELSE IF T.n \in {"Any", "K"} THEN R(v, {}, {})
  ELSE LET l == CoerceScalar(T.n, v, lit) IN
       CASE l.r = "ok"   -> R(l.v, {}, {})
         [] l.r = "soft" -> R(l.v, {}, {p})
         [] OTHER        -> R(Bad, {p}, {})

(***************************************************************************)
(* Sources and the argument algorithm                                      *)
(***************************************************************************)
Lit == [k |-> "lit"]
\* carrier: "num" JSON numbers arrive as json.Number, "f64" as float64
\* vt: "same" the variable is declared with the argument's type, "nullable" with its nullable version
Var(carrier, vt, vdef) == [k |-> "var", carrier |-> carrier, vt |-> vt, vdef |-> vdef]

VarType(sh, src) == IF src.vt = "nullable" THEN Nullable(sh.type) ELSE sh.type

\* a float64 carrier cannot tell 7 from 7.0: an integer arrives as a float with integral value
RECURSIVE AsF64(_), AsF64Seq(_, _)
AsF64Seq(s, i) == IF i > Len(s) THEN <<>> ELSE <<AsF64(s[i])>> \o AsF64Seq(s, i + 1)
AsF64(v) == CASE v.t = "int" -> F(v.c, FALSE)
              [] v.t = "list" -> Ls(AsF64Seq(v.e, 1))
              [] OTHER -> v

\* CoerceVariableValues for the one variable $v: [has, r]
VarSees(sh, src, val0) ==
  LET VT == VarType(sh, src)
      val == IF src.carrier = "f64" THEN AsF64(val0) ELSE val0 IN
  IF val.t = "absent"
  THEN (IF src.vdef.t # "nodef" THEN [has |-> TRUE, r |-> CoerceIn(VT, src.vdef, <<>>, TRUE)]
        ELSE IF VT.nn THEN [has |-> TRUE, r |-> R(Bad, {<<>>}, {})]       \* required variable not provided
        ELSE [has |-> FALSE, r |-> R(Absent, {}, {})])
  ELSE [has |-> TRUE, r |-> CoerceIn(VT, val, <<>>, FALSE)]

ArgSees(sh, src, val) ==
  IF src.k = "lit"
  THEN (IF val.t = "absent" THEN [has |-> FALSE, r |-> R(Absent, {}, {})]
        ELSE [has |-> TRUE, r |-> CoerceIn(Nullable(sh.type), val, <<>>, TRUE)])
  ELSE VarSees(sh, src, val)

\* CoerceArgumentValues for the one argument x
CoerceArg(sh, src, val) ==
  LET T == sh.type
      seen == ArgSees(sh, src, val)
  IN  IF ~seen.has
      THEN (IF sh.def.t # "nodef" THEN CoerceIn(T, sh.def, <<>>, TRUE)          \* argument default
            ELSE IF T.nn THEN R(Bad, {<<>>}, {})                                  \* required argument missing
            ELSE R(Absent, {}, {}))
      ELSE IF seen.r.faults = {} /\ seen.r.v.t = "null" /\ T.nn
      THEN R(Bad, {<<>>}, {})     \* explicit null for a non-null argument: error, the default is NOT used
      ELSE seen.r

Origin(sh, src, val) ==
  IF val.t # "absent" THEN src.k
  ELSE IF src.k = "var" /\ src.vdef.t # "nodef" THEN "vardef"
  ELSE IF sh.def.t # "nodef" THEN "argdef" ELSE "none"

(***************************************************************************)
(* What a Go binding can express of absent / null / value                  *)
(***************************************************************************)
ViewTable == [struct |-> [absent |-> "null",  null |-> "null"],
              omit   |-> [absent |-> "unset", null |-> "set:null"],
              map    |-> [absent |-> "nokey", null |-> "null"]]
ViewKeeps(b) == ViewTable[b].absent # ViewTable[b].null
ASSUME ViewKeeps("omit") /\ ViewKeeps("map") /\ ~ViewKeeps("struct")

(***************************************************************************)
(* The probe's argument shapes: one query field  <id>(x: <type> [= def])   *)
(***************************************************************************)
Sh(id, type, def, dir)  == [id |-> id, type |-> type, def |-> def, dir |-> dir, fdir |-> NoDef]
ShX(id, type, def, app) == [id |-> id, type |-> type, def |-> def, dir |-> FALSE, fdir |-> app]
FloatNN == NN(Nm("Float"))
IntNN == NN(Nm("Int"))
Shapes == <<
  Sh("f1",  Nm("Int"), NoDef, FALSE),
  Sh("f2",  IntNN, NoDef, FALSE),
  Sh("f3",  Nm("Int"), I("seven"), FALSE),
  Sh("f4",  IntNN, I("seven"), FALSE),
  Sh("f5",  L(Nm("Int")), NoDef, FALSE),
  Sh("f6",  NN(L(IntNN)), NoDef, FALSE),
  Sh("f7",  NN(L(IntNN)), Ls(<<I("one")>>), FALSE),
  Sh("f8",  L(L(Nm("Int"))), NoDef, FALSE),
  Sh("f9",  Nm("String"), NoDef, FALSE),
  Sh("f10", Nm("ID"), NoDef, FALSE),
  Sh("f11", NN(Nm("ID")), NoDef, FALSE),
  Sh("f12", Nm("Boolean"), NoDef, FALSE),
  Sh("f13", Nm("Float"), NoDef, FALSE),
  Sh("f14", Nm("E"), NoDef, FALSE),
  Sh("f15", Nm("E"), En("B"), FALSE),
  Sh("f16", L(NN(Nm("E"))), NoDef, FALSE),
  Sh("f17", Nm("I32"), NoDef, FALSE),
  Sh("f18", Nm("I64"), NoDef, FALSE),
  Sh("f19", Nm("U32"), NoDef, FALSE),
  Sh("f20", Nm("U64"), NoDef, FALSE),
  Sh("f21", Nm("UU"), NoDef, FALSE),
  Sh("f22", Nm("IID"), NoDef, FALSE),
  Sh("f23", Nm("UID"), NoDef, FALSE),
  Sh("f24", Nm("Any"), NoDef, FALSE),
  Sh("f25", Nm("In"), NoDef, FALSE),
  Sh("f26", Nm("InO"), NoDef, FALSE),
  Sh("f27", Nm("InM"), NoDef, FALSE),
  Sh("f28", Nm("In"), O(<<KV("b", I("one")), KV("d", O(<<KV("q", I("two"))>>))>>), FALSE),
  Sh("f29", L(NN(Nm("In"))), NoDef, FALSE),
  Sh("f30", NN(Nm("InM")), NoDef, FALSE),
  Sh("f31", Nm("Int"), NoDef, TRUE),
  Sh("f32", IntNN, I("seven"), TRUE),
  Sh("f33", L(IntNN), NoDef, TRUE),
  Sh("f34", Nm("InO"), NoDef, TRUE),
  \* Float defaults of arguments (read from the parsed schema at run time) ...
  Sh("f35", Nm("Float"), FX("fine7"), FALSE),
  Sh("f36", FloatNN, FX("tiny"), FALSE),
  Sh("f37", L(FloatNN), Ls(<<FX("fineBig"), F("five", FALSE), FX("denorm")>>), FALSE),
  \* ... of input fields (rendered into the generated Go source): struct / Omittable, map-backed,
  \* below an argument's object default (u given, the rest defaulted; o given without m and g)
  Sh("f38", Nm("Fl"), NoDef, FALSE),
  Sh("f39", Nm("FlM"), NoDef, FALSE),
  Sh("f40", Nm("Fl"), O(<<KV("u", FX("huge")), KV("o", O(<<KV("n", FX("tiny"))>>))>>), FALSE),
  \* ... and of the arguments of @dflt applied to an argument: every value written / every value defaulted
  ShX("f41", Nm("Float"), FX("maxF"),
      O(<<KV("v", FX("fine7")), KV("w", FX("tiny")), KV("z", FX("huge")), KV("k", F("one", TRUE))>>)),
  ShX("f42", IntNN, I("seven"), O(<<>>))
>>

(***************************************************************************)
(* The directive @dflt(tag: String, v: Float, w: Float = 123456.7890123,   *)
(* z: Float! = 1e-7, k: K = 5.0) applied in the SCHEMA (argument and input *)
(* field definitions).  Its arguments are coerced like every argument list *)
(* (6.4.1): a written value is that value, a missing one takes the         *)
(* definition's default, else stays absent.  The directive passes the      *)
(* value through; what it RECEIVES at each site must be DirSees.  (tag     *)
(* names the site; the harness writes it.)                                 *)
(***************************************************************************)
DfltArgs == << Fd("v", Nm("Float"), NoDef, FALSE),
               Fd("w", Nm("Float"), FX("fineBig"), FALSE),
               Fd("z", FloatNN, FX("tiny"), FALSE),
               Fd("k", Nm("K"), F("five", FALSE), FALSE) >>
DirSees(app) == CoerceFields(DfltArgs, app.f, <<>>, TRUE, 1)
Site(ty, fld, app) == [ty |-> ty, fld |-> fld, app |-> app, sees |-> O(DirSees(app).vs)]
RECURSIVE ShapeSites(_), FieldSites(_, _), InputSites(_)
ShapeSites(i) == IF i > Len(Shapes) THEN <<>>
                 ELSE (IF Shapes[i].fdir.t = "nodef" THEN <<>> ELSE <<Site("Query", Shapes[i].id, Shapes[i].fdir)>>)
                      \o ShapeSites(i + 1)
FieldSites(n, i) == IF i > Len(InputDef[n]) THEN <<>>
                    ELSE (IF InputDef[n][i].fdir.t = "nodef" THEN <<>>
                          ELSE <<Site(n, InputDef[n][i].name, InputDef[n][i].fdir)>>) \o FieldSites(n, i + 1)
InputSites(j) == IF j > Len(InputSeq) THEN <<>> ELSE FieldSites(InputSeq[j], 1) \o InputSites(j + 1)
DirSites == ShapeSites(1) \o InputSites(1)
\* every application is coercible; a written argument arrives as written, a missing one as the default / absent
DirSitesOK ==
  /\ Len(DirSites) >= 4
  /\ \A i \in 1..Len(DirSites) :
       LET st == DirSites[i]
           r  == DirSees(st.app) IN
       /\ r.faults = {} /\ r.soft = {}
       /\ \A j \in 1..Len(DfltArgs) :
            LET d == DfltArgs[j] IN
            /\ st.sees.f[j].k = d.name
            /\ st.sees.f[j].v = (IF HasField(st.app.f, d.name) THEN FieldVal(st.app.f, d.name)
                                  ELSE IF d.def.t # "nodef" THEN d.def ELSE Absent)
  \* both ways of obtaining a value occur for every argument of the directive
  /\ \A j \in 1..Len(DfltArgs) : /\ (\E k1 \in 1..Len(DirSites) : HasField(DirSites[k1].app.f, DfltArgs[j].name))
                                   /\ (\E k2 \in 1..Len(DirSites) : ~HasField(DirSites[k2].app.f, DfltArgs[j].name))
ASSUME DirSitesOK

(***************************************************************************)
(* The bounded value universe                                              *)
(***************************************************************************)
RECURSIVE BaseName(_)
BaseName(T) == IF T.k = "l" THEN BaseName(T.of) ELSE T.n

WrongKinds == {S("abc"), B("true"), F("one", TRUE), F("one", FALSE), Ls(<<I("one")>>), O(<<>>)}
NumVals == {I(c) : c \in Boundary} \cup
           {NS("seven"), NS("m1"), NS("gtMax32"), NS("gtMaxU64"), F("gtMax32", FALSE), F("max32", TRUE)}
ScalarVals(n) ==
  CASE n \in IntTargets -> NumVals \cup WrongKinds \cup {Null}
    [] n = "Float"   -> {I(c) : c \in {"m1", "zero", "one", "max32", "gtMax32", "gtMaxU32"}} \cup
                        {F("one", TRUE), F("one", FALSE), F("gtMax32", TRUE), NS("seven"), S("abc"), B("true"),
                         Ls(<<F("one", TRUE)>>), O(<<>>), Null, F("five", FALSE)} \cup {FX(c) : c \in FloatNames}
    [] n = "String"  -> {S("abc"), S(""), NS("seven"), I("one"), F("one", TRUE), B("true"), En("B"),
                         Ls(<<S("abc")>>), O(<<>>), Null}
    [] n = "ID"      -> {S("abc"), NS("seven"), F("one", TRUE), B("true"), Null, O(<<>>), Ls(<<S("abc")>>)} \cup
                        {I(c) : c \in {"m1", "zero", "seven", "gtMax32", "max64", "gtMax64"}}
    [] n = "Boolean" -> {B("true"), B("false"), S("true"), I("one"), I("zero"), F("one", TRUE), Null,
                         Ls(<<B("true")>>), O(<<>>)}
    [] n = "E"       -> {En("A"), En("B"), En("Z"), En("b"), S("B"), S("abc"), I("one"), B("true"), Null,
                         Ls(<<En("A")>>), O(<<>>)}
    [] n = "Any"     -> {I("one"), I("max64"), I("gtMax64"), F("one", TRUE), S("abc"), B("true"), Null,
                         Ls(<<I("one"), S("abc")>>), O(<<KV("k", I("one"))>>)}

\* objects: the base object {b: 1} ({k: 1} for the Float-default inputs) with up to one / two fields deviating
\* (Inner and FlIn occur as field values only)
FlLike == {"Fl", "FlM"}
Alts(n) ==
  IF n = "Inner"
  THEN [p |-> {Null, I("one")},
        q |-> {Absent, Null, I("two")},
        l |-> {Null, I("one"), Ls(<<I("one"), Null>>)}]
  ELSE IF n \in FlLike
  THEN [u |-> {Null, FX("huge"), F("one", TRUE), I("one"),
               Vr(Absent, NoDef), Vr(Absent, FX("fineBig")), Vr(FX("tiny"), NoDef), Vr(Null, NoDef)},
        v |-> {Null, FX("fine7"), Vr(Absent, FX("negFine"))},
        w |-> {Null, Ls(<<>>), FX("tiny"), Ls(<<FX("fine7"), FX("maxF")>>)},
        o |-> {Null, O(<<>>), O(<<KV("m", Null)>>), O(<<KV("m", FX("huge")), KV("n", FX("denorm"))>>),
               O(<<KV("g", FX("tiny")), KV("zz", I("one"))>>)},
        y |-> {Null, I("one"), F("one", TRUE)},
        h |-> {Null, FX("fine7")},
        zz |-> {I("one")}]
  ELSE [a |-> {Null, I("one"), I("gtMax32"), I("gtMax64"), S("abc"),
               Vr(Absent, NoDef), Vr(Null, NoDef), Vr(I("two"), NoDef), Vr(Absent, I("three"))},
        b |-> {Absent, Null, I("two"), F("one", TRUE), NS("seven"), Vr(I("two"), NoDef), Vr(Null, I("three"))},
        c |-> {Null, Ls(<<>>), Ls(<<I("one")>>), Ls(<<I("one"), I("two")>>), I("one"),
               Ls(<<I("one"), Null>>), Ls(<<S("abc")>>)},
        d |-> {Null, O(<<KV("q", I("one"))>>), O(<<KV("q", I("one")), KV("p", Null)>>),
               O(<<KV("l", Ls(<<I("one"), Null>>)), KV("p", I("two")), KV("q", I("one"))>>),
               O(<<>>), O(<<KV("q", I("one")), KV("zz", I("one"))>>), O(<<KV("q", Null)>>), I("one"),
               O(<<KV("q", I("one")), KV("l", I("one"))>>), O(<<KV("q", I("gtMax64"))>>)},
        e |-> {Null, En("A"), En("Z"), En("b")},
        s |-> {Null, S("abc"), Vr(Absent, NoDef)},
        r |-> {Null, I("one")},
        zz |-> {I("one")}]
BaseObj(n) == IF n = "Inner" THEN [q |-> I("one")]
              ELSE IF n \in FlLike THEN [k |-> I("one")] ELSE [b |-> I("one")]
KeyOrder(n) == IF n = "Inner" THEN <<"p", "q", "l">>
               ELSE IF n \in FlLike THEN <<"k", "u", "v", "w", "o", "y", "h", "zz">>
               ELSE <<"a", "b", "c", "d", "e", "s", "r", "zz">>

RECURSIVE MkFields(_, _, _)
\* asg: function key -> value over a subset of the keys; fields are written in KeyOrder
MkFields(asg, ks, i) ==
  IF i > Len(ks) THEN <<>>
  ELSE (IF ks[i] \in DOMAIN asg /\ asg[ks[i]].t # "absent" THEN <<KV(ks[i], asg[ks[i]])>> ELSE <<>>)
       \o MkFields(asg, ks, i + 1)
Rank2(ks, k) == CHOOSE i \in 1..Len(ks) : ks[i] = k
Rev(s) == [i \in 1..Len(s) |-> s[Len(s) + 1 - i]]
Override(f, g) == [k \in (DOMAIN f) \cup (DOMAIN g) |-> IF k \in DOMAIN g THEN g[k] ELSE f[k]]
One(k, v) == [x \in {k} |-> v]
ObjVals(n) ==
  LET al == Alts(n)
      ks == KeyOrder(n)
      base == BaseObj(n)
      singles == UNION { {Override(base, One(k, v)) : v \in al[k]} : k \in DOMAIN al }
      later(k) == {k2 \in DOMAIN al : Rank2(ks, k2) > Rank2(ks, k)}
      doubles == IF Devs >= 2
                 THEN UNION { UNION { {Override(Override(base, One(k1, v1)), One(k2, v2)) : v1 \in al[k1], v2 \in al[k2]}
                                      : k2 \in later(k1) } : k1 \in DOMAIN al }
                 ELSE {}
      triples == IF Devs >= 3
                 THEN UNION { UNION { UNION { {Override(Override(Override(base, One(k1, v1)), One(k2, v2)), One(k3, v3))
                                               : v1 \in al[k1], v2 \in al[k2], v3 \in al[k3]}
                                              : k3 \in later(k2) } : k2 \in later(k1) } : k1 \in DOMAIN al }
                 ELSE {}
  IN  {O(MkFields(a, ks, 1)) : a \in {base} \cup singles \cup doubles \cup triples}
      \cup {O(Rev(MkFields(a, ks, 1))) : a \in singles}     \* key order does not matter
RECURSIVE HasVar(_), HasVarSeq(_, _)
HasVarSeq(s, i) == i <= Len(s) /\ (HasVar(IF "k" \in DOMAIN s[i] THEN s[i].v ELSE s[i]) \/ HasVarSeq(s, i + 1))
HasVar(v) == CASE v.t = "var" -> TRUE
               [] v.t = "list" -> HasVarSeq(v.e, 1)
               [] v.t = "obj"  -> HasVarSeq(v.f, 1)
               [] OTHER -> FALSE

ElemVals(T) ==
  IF T.k = "l"
  THEN {Null, I("one"), S("abc"), Ls(<<>>), Ls(<<I("one")>>), Ls(<<I("two"), Null>>), Ls(<<S("abc")>>),
        Ls(<<Ls(<<I("one")>>)>>)}
  ELSE CASE T.n = "Int" -> {I("one"), I("two"), Null, I("gtMax32"), I("gtMax64"), S("abc"), F("one", TRUE)}
         [] T.n = "Float" -> {F("one", TRUE), FX("fine7"), FX("denorm"), I("one"), Null, S("abc")}
         [] T.n = "E"   -> {En("A"), En("B"), Null, En("Z"), I("one")}
         [] T.n = "In"  -> {O(<<KV("b", I("one"))>>), O(<<KV("b", I("one")), KV("a", Null)>>), O(<<>>), Null, I("one"),
                            O(<<KV("b", I("two")), KV("c", I("one"))>>)}
ListVals(T) ==
  LET ev == ElemVals(T.of) IN
  {Null, Ls(<<>>)} \cup {Ls(<<a>>) : a \in ev} \cup {Ls(<<a, b>>) : a \in ev, b \in ev}
  \cup {a \in ev : a.t \notin {"list", "null"}}      \* a single value where a list is expected

ValsOf(sh) ==
  LET T == sh.type IN
  {Absent} \cup
  (IF T.k = "l" THEN ListVals(T)
   ELSE IF T.n \in InputNames THEN ObjVals(T.n) \cup {Null, I("one"), Ls(<<O(<<KV("b", I("one"))>>)>>)}
   ELSE ScalarVals(T.n))

\* a valid literal of type T, different from every argument default (used as the variable's default)
RECURSIVE VDef(_)
VDef(T) ==
  IF T.k = "l" THEN Ls(<<VDef(T.of)>>)
  ELSE CASE T.n \in IntTargets \cup {"Any"} -> I("three")
         [] T.n \in {"String", "ID"} -> S("vd")
         [] T.n = "Boolean" -> B("false")
         [] T.n = "Float" -> F("two", TRUE)
         [] T.n = "E" -> En("A")
         [] T.n \in FlLike -> O(<<KV("k", I("two")), KV("u", FX("fineBig"))>>)
         [] OTHER -> O(<<KV("b", I("two"))>>)

\* a few values for the sources that are about defaults and nullability, not about the value
RECURSIVE Good(_)
Good(T) ==
  IF T.k = "l" THEN Ls(<<Good(T.of), Good(T.of)>>)
  ELSE CASE T.n \in IntTargets \cup {"Any"} -> I("one")
         [] T.n \in {"String", "ID"} -> S("abc")
         [] T.n = "Boolean" -> B("true")
         [] T.n = "Float" -> F("one", TRUE)
         [] T.n = "E" -> En("B")
         [] T.n \in FlLike -> O(<<KV("k", I("one")), KV("u", Null)>>)
         [] OTHER -> O(<<KV("b", I("one")), KV("a", Null)>>)
RECURSIVE Wrong(_)
Wrong(T) == IF T.k = "l" THEN Ls(<<Wrong(T.of)>>)
            ELSE IF T.n \in {"String", "ID", "Any"} THEN O(<<KV("zz", I("one"))>>) ELSE S("abc")
Reduced(sh) == {Absent, Null, Good(sh.type), Wrong(sh.type)} \cup
               (IF sh.type.k = "l" THEN {Good(sh.type.of)} ELSE {})

F64Classes == FloatExact \cup {"gtMax64"}
F64Vals == {Absent, Null, F("one", TRUE), F("one", FALSE), F("max32", TRUE)} \cup {I(c) : c \in F64Classes \cap Boundary}
F64FloatVals == {FX(c) : c \in FloatNames}

CasesOf(sh) ==
  LET T == sh.type
      mk(src, vals) == {[sh |-> sh, src |-> src, val |-> v] : v \in vals}
      all == ValsOf(sh)
  IN  mk(Lit, all)
      \cup mk(Var("num", "same", NoDef), {v \in all : ~HasVar(v)})
      \cup (IF T.k = "n" /\ T.n \in IntTargets \cup {"Float", "ID"} THEN mk(Var("f64", "same", NoDef), F64Vals) ELSE {})
      \cup (IF T.k = "n" /\ T.n = "Float" THEN mk(Var("f64", "same", NoDef), F64FloatVals) ELSE {})
      \cup mk(Var("num", "same", VDef(T)), Reduced(sh))
      \* a nullable variable may be used where a non-null argument has a default / the variable has one
      \cup (IF T.nn /\ sh.def.t # "nodef" THEN mk(Var("num", "nullable", NoDef), Reduced(sh)) ELSE {})
      \cup (IF T.nn THEN mk(Var("num", "nullable", VDef(T)), Reduced(sh)) ELSE {})
Cases == UNION {CasesOf(Shapes[i]) : i \in 1..Len(Shapes)}

(***************************************************************************)
(* Theorems                                                                *)
(***************************************************************************)
RECURSIVE HasTag(_, _), HasTagSeq(_, _, _)
HasTagSeq(s, tg, i) == i <= Len(s) /\ (HasTag(IF "k" \in DOMAIN s[i] THEN s[i].v ELSE s[i], tg) \/ HasTagSeq(s, tg, i + 1))
HasTag(v, tg) == v.t = tg \/ (v.t = "list" /\ HasTagSeq(v.e, tg, 1)) \/ (v.t = "obj" /\ HasTagSeq(v.f, tg, 1))

\* the coerced value written back as an input (absent object fields are not written)
RECURSIVE AsInput(_), AsInputSeq(_, _), AsInputFields(_, _)
AsInputSeq(s, i) == IF i > Len(s) THEN <<>> ELSE <<AsInput(s[i])>> \o AsInputSeq(s, i + 1)
AsInputFields(s, i) == IF i > Len(s) THEN <<>>
                       ELSE (IF s[i].v.t = "absent" THEN <<>> ELSE <<KV(s[i].k, AsInput(s[i].v))>>) \o AsInputFields(s, i + 1)
AsInput(v) == CASE v.t = "list" -> Ls(AsInputSeq(v.e, 1))
                [] v.t = "obj"  -> O(AsInputFields(v.f, 1))
                [] OTHER -> v

\* T1: coercion is idempotent on its own output
TIdem(sh, o) ==
  (o.faults = {} /\ o.v.t # "absent" /\ ~HasTag(o.v, "any") /\ BaseName(sh.type) # "Any") =>
     LET r2 == CoerceIn(sh.type, AsInput(o.v), <<>>, TRUE) IN r2.faults = {} /\ r2.v = o.v

\* T2: list wrapping applies exactly to non-list, non-null values (checked at every list position)
RECURSIVE WrapOK(_, _, _, _)
WrapOK(T, v0, o, lit) ==
  LET v == Norm(v0, lit) IN
  IF o.t = "bad" \/ v.t = "null" THEN (v.t = "null" /\ ~T.nn => o.t = "null")     \* null is never wrapped
  ELSE IF T.k = "l"
  THEN /\ o.t = "list"
       /\ IF v.t = "list"
          THEN /\ Len(o.e) = Len(v.e)                                             \* a list is not wrapped again
               /\ \A i \in 1..Len(v.e) : WrapOK(T.of, v.e[i], o.e[i], lit)
          ELSE Len(o.e) = 1 /\ WrapOK(T.of, v, o.e[1], lit)                       \* exactly one element
  ELSE IF T.n \in InputNames /\ v.t = "obj"
  THEN \A i \in 1..Len(InputDef[T.n]) :
         LET d == InputDef[T.n][i]
             fv == FieldVal(v.f, d.name)
             raw == Resolve(fv) IN
         raw.t # "absent" => WrapOK(d.type, raw, o.f[i].v, IF fv.t = "var" THEN FALSE ELSE lit)
  ELSE T.n = "Any" \/ o.t # "list"                                                \* a non-list type never yields a list
TWrap(c, o) ==
  LET seen == ArgSees(c.sh, c.src, c.val) IN
  (o.faults = {} /\ c.val.t \notin {"absent"}) => WrapOK(c.sh.type, c.val, o.v, c.src.k = "lit")

\* T3: a default is injected iff the key is absent; an explicit null stays null
RECURSIVE DefOK(_, _, _, _)
DefOK(T, v0, o, lit) ==
  LET v == Norm(v0, lit) IN
  IF o.t \in {"bad", "null"} THEN TRUE
  ELSE IF T.k = "l"
  THEN (IF v.t = "list" THEN \A i \in 1..Len(v.e) : DefOK(T.of, v.e[i], o.e[i], lit) ELSE DefOK(T.of, v, o.e[1], lit))
  ELSE IF T.n \in InputNames /\ v.t = "obj"
  THEN \A i \in 1..Len(InputDef[T.n]) :
         LET d == InputDef[T.n][i]
             fv == FieldVal(v.f, d.name)
             raw == Resolve(fv)
             of == o.f[i].v IN
         /\ o.f[i].k = d.name
         /\ (raw.t = "absent" /\ d.def.t # "nodef") => of = CoerceIn(d.type, d.def, <<>>, TRUE).v
         /\ (raw.t = "absent" /\ d.def.t = "nodef" /\ ~d.type.nn) => of.t = "absent"
         /\ (raw.t = "null") => of.t \in {"null", "bad"}
         /\ (raw.t \notin {"absent", "null"}) => (of.t # "absent" /\ DefOK(d.type, raw, of, IF fv.t = "var" THEN FALSE ELSE lit))
  ELSE TRUE
TDefault(c, o) ==
  LET seen == ArgSees(c.sh, c.src, c.val) IN
  /\ (~seen.has /\ c.sh.def.t # "nodef") => o = CoerceIn(c.sh.type, c.sh.def, <<>>, TRUE)
  /\ (~seen.has /\ c.sh.def.t = "nodef" /\ ~c.sh.type.nn) => o.v.t = "absent"
  /\ (seen.has /\ seen.r.faults = {} /\ seen.r.v.t = "null") => (o.v.t = "null" \/ o.faults # {})   \* never the default
  /\ (o.faults = {} /\ c.val.t # "absent") => DefOK(c.sh.type, c.val, o.v, c.src.k = "lit")

\* T4: numeric classes are preserved or rejected, never mapped to another class
RECURSIVE NumCls(_), NumClsSeq(_, _)
NumClsSeq(s, i) == IF i > Len(s) THEN {} ELSE NumCls(IF "k" \in DOMAIN s[i] THEN s[i].v ELSE s[i]) \cup NumClsSeq(s, i + 1)
NumCls(v) == CASE v.t \in {"int", "flt", "nstr", "fx"} -> {v.c}
               [] v.t = "list" -> NumClsSeq(v.e, 1)
               [] v.t = "obj"  -> NumClsSeq(v.f, 1)
               [] v.t = "var"  -> NumCls(v.v) \cup NumCls(v.d)
               [] OTHER -> {}
SchemaClasses == {"one", "two", "three", "five", "seven"} \cup FloatNames    \* the defaults of the schema and of the variables
TNumeric(c, o) == o.faults = {} => NumCls(o.v) \subseteq NumCls(c.val) \cup SchemaClasses

NumInputs == {I(c) : c \in Classes} \cup {NS(c) : c \in Classes} \cup {F(c, fr) : c \in Classes, fr \in BOOLEAN}
ScalarGridOK ==
  \A n \in IntTargets \cup {"Float", "ID", "String"} : \A v \in NumInputs :
    LET l == CoerceScalar(n, v, FALSE) IN
    /\ (l.r # "err" /\ l.v.t \in {"int", "flt", "nstr"}) => l.v.c = v.c          \* same number
    /\ (n \in IntTargets /\ ~Fits(n, v.c)) => l.r = "err"                         \* out of range: rejected, never wrapped
    /\ (n \in IntTargets /\ v.t = "flt" /\ v.fr) => l.r = "err"                   \* a fraction is never dropped
    /\ (n \in IntTargets /\ v.t = "int" /\ Strict(n, v.c)) => l.r = "ok"
    /\ (l.r # "err" /\ l.v.t = "flt" /\ v.t = "flt") => l.v.fr = v.fr
ASSUME ScalarGridOK

\* faults and soft positions are below the argument; a fault excludes a value
TShape(o) == /\ \A p \in o.faults \cup o.soft \cup o.dfl : p \in Seq(STRING)
             /\ (o.faults # {} \/ ~HasTag(o.v, "bad"))

\* T6: a position marked "field default injected" exists in the value, is not absent, names an input field
\* that HAS a default, and carries schema numbers only
RECURSIVE At(_, _)
At(v, p) == IF p = <<>> THEN v
            ELSE IF v.t = "list"
            THEN (IF \E i \in 1..Len(v.e) : ToString(i - 1) = Head(p)
                  THEN At(v.e[CHOOSE i \in 1..Len(v.e) : ToString(i - 1) = Head(p)], Tail(p)) ELSE Bad)
            ELSE IF v.t = "obj" /\ HasField(v.f, Head(p)) THEN At(FieldVal(v.f, Head(p)), Tail(p))
            ELSE Bad
DefaultedFields == UNION { {InputDef[n][i].name : i \in {j \in 1..Len(InputDef[n]) : InputDef[n][j].def.t # "nodef"}} : n \in InputNames }
TDfl(o) == o.faults = {} =>
             \A p \in o.dfl : /\ Len(p) > 0 /\ p[Len(p)] \in DefaultedFields
                               /\ At(o.v, p).t \notin {"absent", "bad"}
                               /\ NumCls(At(o.v, p)) \subseteq SchemaClasses

Done == pc = "done"
Thm_Idem    == Done => TIdem(cs.sh, out)
Thm_Wrap    == Done => TWrap(cs, out)
Thm_Default == Done => TDefault(cs, out)
Thm_Numeric == Done => TNumeric(cs, out)
Thm_Shape   == Done => TShape(out)
Thm_Dfl     == Done => TDfl(out)

(***************************************************************************)
(* Behaviour                                                               *)
(***************************************************************************)
NoOut == R(Absent, {}, {})
Init == pc = "case" /\ cs \in Cases /\ out = NoOut
Compute == /\ pc = "case"
           /\ out' = CoerceArg(cs.sh, cs.src, cs.val)
           /\ pc' = "done" /\ UNCHANGED cs
Next == Compute
Spec == Init /\ [][Next]_vars

EmitEdge == (Emit /\ pc' = "done") =>
  PrintT(ToJson([shape |-> cs.sh.id, src |-> cs.src, val |-> cs.val, origin |-> Origin(cs.sh, cs.src, cs.val),
                 out |-> [ok |-> out'.faults = {}, v |-> out'.v, faults |-> out'.faults, soft |-> out'.soft,
                          dfl |-> out'.dfl]]))

\* the scalar grid for the in-process drive of graphql.Unmarshal*
GridTargets == IntTargets \cup {"Float", "ID", "String", "Boolean"}
Grid == { [n |-> n, val |-> v, out |-> CoerceScalar(n, v, FALSE)] : n \in GridTargets,
          v \in NumInputs \cup {S("abc"), B("true")} }
        \cup { [n |-> n, val |-> FX(c), out |-> CoerceScalar(n, FX(c), FALSE)] : n \in {"Float", "Int", "I64"}, c \in FloatNames }
EmitSchema == PrintT(ToJson([shapes |-> Shapes, inputs |-> InputDef, binds |-> InputBind, views |-> ViewTable,
                             classes |-> ClassSeq, enum |-> EnumNames, ranges |-> NumRange,
                             floats |-> FloatNames, dirdef |-> DfltArgs, dirsites |-> DirSites]))
              /\ PrintT(ToJson([grid |-> Grid]))
ASSUME Emit => EmitSchema
=============================================================================
