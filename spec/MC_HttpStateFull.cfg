\* C07 thorough - as MC_HttpState.cfg with RequestsFull (1,436: + MULTIPART, SSE, FORM complete) and PoolMax = 2.
\* Measured: 203,694 distinct states, 34,218 edges, depth 26, 40-60 s (-workers 1).
CONSTANTS
  Requests <- RequestsFull
  ResetFields <- AllSix
  ResetEarly = FALSE
  CacheKey = "full"
  PoolMax = 2
  Slots = 1
  Configs <- CfgNone
  MergeInPlace = FALSE
  BufPool = FALSE
  TrackNeg = FALSE
  Once = FALSE
  WsScript <- WsNone
  WsPings = 0
  WsSharedMsg = FALSE
INIT Init
NEXT Next
VIEW view
CHECK_DEADLOCK FALSE
INVARIANTS TypeOK OwnParams Isolation WriteOwn ConfigImmutable ApqOnlyHashOnly CacheTransparent PoolClean
ACTION_CONSTRAINT EmitEdge
