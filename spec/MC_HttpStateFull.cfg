\* C07 thorough: as MC_HttpState.cfg with seven transports and a pool of two
CONSTANTS
  Requests <- RequestsFull
  ResetFields <- AllSix
  ResetEarly = FALSE
  CacheKey = "full"
  PoolMax = 2
  Slots = 1
INIT Init
NEXT Next
VIEW view
CHECK_DEADLOCK FALSE
INVARIANTS TypeOK OwnParams Isolation ApqOnlyHashOnly CacheTransparent PoolClean
ACTION_CONSTRAINT EmitEdge
