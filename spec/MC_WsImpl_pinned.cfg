\* WsImpl as the tree behaves / behaved (FixDup = FixDel = FALSE: open findings; FixInit = FALSE:
\* the behaviour before /repo commit 930d13f).  This configuration must
\* FAIL: TLC reproduces the suspected defects of DESIGN section 7 #11 as counterexamples
\* (the driver runs it and treats "no error found" as a specification regression):
\*   Refines       SrcStart: a second operation of an id starts while the first is executing
\*   StopCancelsI  stop(id) leaves an operation of that id running and uncancelled
\*                 (duplicate start, and the complete-before-delete restart race)
\*   CloseOnceI    connection_init with a non-object payload: everything has ended, CloseFunc never ran
\* With MCDetached = TRUE (InitFunc returns a context not descending from the request context) the
\* temporal property EndsAll fails as well: the unregistered operation outlives the connection.
INIT Init
NEXT Next
CONSTANTS
  AllowDupStart = FALSE
  AllowSilentInit = FALSE
  AllowRestartRace = FALSE
  AllowLateStart = FALSE
  AllowDoubleError = FALSE
  SInsts = {}
  SIds = {}
  SK = 0
  MCProto = "gws"
  MCInitFn = FALSE
  MCInitTimeout = FALSE
  MCKA = FALSE
  MCPO = FALSE
  MCPP = FALSE
  MCMissingPongOk = FALSE
  MCCancel = FALSE
  MCDetached = FALSE
  AllInsts <- MCInsts1
  Ids <- MCIds1
  IdOfInst <- MCIdOf1
  InstOrder <- MCOrder1
  Alphabet <- AlphaOps
  BadStarts = FALSE
  SrcKinds <- KindsEnd
  MaxMsgs = 3
  K = 1
  MaxTicks = 0
  FixDup = FALSE
  FixDel = FALSE
  FixInit = FALSE
  FixLate = FALSE
  CloseCheckOutside = FALSE
  StopDeletes = FALSE
  Stalls = FALSE
  Linger = FALSE
  PreAcked = TRUE
  Bursts = FALSE
  Sync = FALSE
VIEW view
INVARIANTS TypeOK Refines
CHECK_DEADLOCK FALSE
