\* C12 trace validation, deviation-tolerant: the pinned sse.go (DESIGN section 7 #8, #16;
\* known_findings.d/C12.json).  Used only for traces the strict configuration rejects, to
\* classify them and to keep checking the rest of such a trace.  The driver also runs the
\* two half-repaired variants (LockWrites only / StopKA only) to name the deviation.
SPECIFICATION TraceSpec
CONSTANTS
  Kinds = {"sse", "mm"}
  MinN = 0
  MaxN = 1000
  KASet = {TRUE, FALSE}
  MaxTicks = 1
  Disc = TRUE
  LockWrites = FALSE
  StopKA = FALSE
  CloseAtomic = TRUE
  KeepSink = FALSE
  FailSet = {0}
  MaxReq = 1000000
  SharedBuf = FALSE
  Deadl = TRUE
  KACloseOnDone = FALSE
  MmEncodeInAdd = TRUE
  AllowSkip = TRUE
CONSTRAINT HighWater
INVARIANT TypeOK
POSTCONDITION TraceAccepted
CHECK_DEADLOCK FALSE
