\* C16 view machine, quick tier. Constants: Big = FALSE (relation slice over 3 types, list/non-null
\* wrappings up to depth 3, reduced argument/field alphabets); Schemas = the union of slices of
\* MC_Introspect.tla. Measured: 1862 schemas (initial states; 242 of them SliceText), 3724 distinct states, depth 2, ~5-10 s
\* with -workers 1 (EmitView prints one JSON line per schema). All six theorems hold.
CONSTANTS
    Big = FALSE
    Schemas <- MCSchemas
    Ops <- MCOps
INIT VInit
NEXT VNext
INVARIANTS WellFormed RebuildAll RebuildCur ViewClosed ViewRelInv ViewNullKind
ACTION_CONSTRAINT EmitView
CHECK_DEADLOCK FALSE
