\* C03 / Pipeline, gate sweep (round 3): ONE request x every transport (direct, POST, GET,
\* multipart form, SSE, multipart/mixed, websocket) x 3 extension lists (gates pm1 cm1 pm2 cm2 /
\* pm1 pm2 cm2 with interceptors around / bare gates pm1 cm2 = gqlgen's APQ and ComplexityLimit
\* extensions in the replay) x 11 request classes x every gate plan: no gate fails,
\* one gate rejects or PANICS (every gate position), two gates fail with at least one panicking
\* (pan+pan, rej+pan, pan+rej).  I0-I7 hold: a panicking gate is a gate that did not pass.
\* The behaviours are exported (ExportGates) and replayed over the real transports.
\* No VIEW (glog is exported).  Needs -workers 1.
\* Measured: 14 742 distinct / 18 669 generated states, depth 8, 3 927 distinct behaviours printed, 4-8 s (1 worker).
SPECIFICATION MCSpec
CONSTANTS
  Reqs = {1}
  RuleModel = "config"
  Fuse = TRUE
  ExtChoice = "gates"
  ReqChoice = "gates"
  TrChoice = "all"
CONSTRAINT ExportGates
INVARIANTS TypeOK I0 I1 I2 I3 I4 I5 I6 I7
