\* C16 gate machine, quick tier. Constants: Big = FALSE: every hiding operation with one root
\* selection, and with two where the second is a plain one, x {nothing registered, extension alone};
\* every registration order of at most 3 writers of DisableIntrospection (242 orders) x 21 shapes.
\* Measured: 7274 operations, 82334 states generated, 79632 distinct, depth 13, ~10 s; -coverage 1:
\* every disjunct of GNext (CreateOpCtx, IntroMutate, UserMutate, NotMutator, MutateDone, GuardWrites,
\* GuardPasses, NotInterceptor, DispatchDone, Resolve, Finish) is taken.
CONSTANTS
    Big = FALSE
    Schemas <- MCSchemas
    Ops <- MCOps
INIT GInit
NEXT GNext
INVARIANTS GateWellFormed LastWriterDecides OnlyWritersEnable GateHolds NoLeak GateOpen
ACTION_CONSTRAINT EmitGate
CHECK_DEADLOCK FALSE
