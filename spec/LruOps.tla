------------------------------- MODULE LruOps -------------------------------
(***************************************************************************)
(* The least-recently-used cache behind graphql/handler/lru (property C15) *)
(* as pure operators on                                                    *)
(*     ord : sequence of the keys present, MOST recently used first,       *)
(*     val : function  key -> value  with  DOMAIN val = keys of ord,       *)
(*     n   : the capacity.                                                 *)
(* No constants, no variables: the module is shared by                     *)
(*   Lru.tla  - the cache as a state machine of its own (Add / Get), its   *)
(*              invariants and the conformance of the real lru.New to it;  *)
(*   Apq.tla  - the persisted-query machine, whose "lru" cache IS this     *)
(*              machine (Apq!CacheIsLru is checked by TLC).                *)
(*                                                                         *)
(* Behaviour written like hashicorp/golang-lru/v2 (simplelru):             *)
(*   Get(k): found -> move k to the front, return its value; else miss.    *)
(*   Add(k,v): found -> overwrite the value, move k to the front;          *)
(*             else push k in front and, when now longer than n, remove    *)
(*             the entry at the back (the least recently used).            *)
(***************************************************************************)
EXTENDS Integers, Sequences, FiniteSets

\* @type: (Seq(Str), Str) => Seq(Str);
Touch(ord, k) == <<k>> \o SelectSeq(ord, LAMBDA x : x # k)

\* @type: (Seq(Str)) => Set(Str);
LruKeys(ord) == {ord[i] : i \in DOMAIN ord}

\* ---- Get ----------------------------------------------------------------
\* @type: (Str -> Str, Seq(Str), Str) => Seq(Str);
LruOrderAfterGet(val, ord, k) == IF k \in DOMAIN val THEN Touch(ord, k) ELSE ord

\* ---- Add ----------------------------------------------------------------
\* @type: (Seq(Str), Str, Int) => Bool;
LruEvicts(ord, k, n) == Len(Touch(ord, k)) > n
\* the key that leaves (only meaningful when LruEvicts)
\* @type: (Seq(Str), Str) => Str;
LruVictim(ord, k) == Touch(ord, k)[Len(Touch(ord, k))]
\* @type: (Seq(Str), Str, Int) => Seq(Str);
LruOrderAfterAdd(ord, k, n) ==
  IF LruEvicts(ord, k, n) THEN SubSeq(Touch(ord, k), 1, n) ELSE Touch(ord, k)
\* @type: (Set(Str), Seq(Str), Str, Int) => Set(Str);
LruDomAfterAdd(dom, ord, k, n) ==
  (dom \cup {k}) \ (IF LruEvicts(ord, k, n) THEN {LruVictim(ord, k)} ELSE {})
\* @type: (Str -> Str, Seq(Str), Str, Str, Int) => (Str -> Str);
LruValAfterAdd(val, ord, k, v, n) ==
  [h \in LruDomAfterAdd(DOMAIN val, ord, k, n) |-> IF h = k THEN v ELSE val[h]]

\* ---- the two operations as relations between <<ord, val>> and <<ord2, val2>>
\* @type: (Seq(Str), Str -> Str, Int, Str, Str, Seq(Str), Str -> Str) => Bool;
LruIsAdd(ord, val, n, k, v, ord2, val2) ==
  /\ ord2 = LruOrderAfterAdd(ord, k, n)
  /\ val2 = LruValAfterAdd(val, ord, k, v, n)
\* @type: (Seq(Str), Str -> Str, Str, Seq(Str), Str -> Str) => Bool;
LruIsGet(ord, val, k, ord2, val2) ==
  /\ ord2 = LruOrderAfterGet(val, ord, k)
  /\ val2 = val

\* ---- well-formedness of a cache state -------------------------------------
\* @type: (Seq(Str), Str -> Str, Int) => Bool;
LruWellFormed(ord, val, n) ==
  /\ Len(ord) <= n                                  \* size <= capacity
  /\ LruKeys(ord) = DOMAIN val                      \* the index and the list agree
  /\ Cardinality(DOMAIN val) = Len(ord)             \* no key twice in the list
=============================================================================
