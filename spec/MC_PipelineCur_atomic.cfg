\* C03 / Pipeline, CURRENT code: per-request rule swap (RuleModel = "atomic").
\* Same constants as MC_Pipeline.cfg but the small extension-list choice.
\* Measured: 50 956 distinct / 91 444 generated states, depth 19, 4-9 s; I0-I7 HOLD (the window needs the non-atomic read-modify-write).
SPECIFICATION MCSpec
CONSTANTS
  Reqs = {1, 2}
  RuleModel = "atomic"
  Fuse = TRUE
  ExtChoice = "small"
  ReqChoice = "small"
  TrChoice = "direct"
VIEW MCView
INVARIANTS TypeOK I0 I1 I2 I3 I4 I5 I6 I7
