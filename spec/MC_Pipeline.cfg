\* C03 / Pipeline, REPAIRED design (rule swap once at configuration time).
\* 2 concurrent requests x 5 extension lists (0-3 extensions) x {none, map, lru1, lru2}
\* x suggestions on/off x 10 request classes (incl. "a validation rule panics") + the valid
\* request with ONE mutator gate rejecting or PANICKING at every gate position (two failing
\* gates: MC_PipelineGates.cfg); all interleavings at shared-state steps (local event runs fused).
\* Measured (round 3): 187 800 distinct / 374 580 generated states, depth 15, 9-31 s (3 workers); I0-I7 hold.
\* (rounds 1-2, rejecting mutators only: 172 264 / 342 572)
SPECIFICATION MCSpec
CONSTANTS
  Reqs = {1, 2}
  RuleModel = "config"
  Fuse = TRUE
  ExtChoice = "full"
  ReqChoice = "full"
  TrChoice = "direct"
VIEW MCView
INVARIANTS TypeOK I0 I1 I2 I3 I4 I5 I6 I7
