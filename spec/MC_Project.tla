----------------------------- MODULE MC_Project -----------------------------
(* Constant definitions for the TLC configurations of Project.tla.         *)
EXTENDS Project

MCFiles      == {"a", "b"}
MCFileOrder  == <<"a", "b", "resolver">>

\* 3 resolver fields: two on the root type, one on a removable type
MCPairs      == {"Query_f1", "Query_f2", "T_g"}
MCTypeOf     == [p \in MCPairs |-> IF p = "T_g" THEN "T" ELSE "Query"]
\* 2 fields (edge export, quick tier)
MCPairs2     == {"Query_f1", "T_g"}
MCTypeOf2    == [p \in MCPairs2 |-> IF p = "T_g" THEN "T" ELSE "Query"]
\* 4 fields (rename needs a free name on each type)
MCPairs4     == {"Query_f1", "Query_f2", "T_g", "T_h"}
MCTypeOf4    == [p \in MCPairs4 |-> IF p \in {"T_g", "T_h"} THEN "T" ELSE "Query"]
MCRoot       == {"Query"}
MCInitEmpty  == {[p \in MCPairs |-> "none"]}
MCInit3      == {[p \in MCPairs |-> "none"], [p \in MCPairs |-> IF p = "Query_f2" THEN "none" ELSE "a"]}
MCInit2P     == {[p \in MCPairs2 |-> "a"]}
MCImpQ       == {"Query_f1"}
MCInit2      == {[p \in MCPairs2 |-> "none"], [p \in MCPairs2 |-> "a"]}
MCInit4      == {[p \in MCPairs4 |-> "none"], [p \in MCPairs4 |-> IF p \in {"Query_f2", "T_h"} THEN "none" ELSE "a"],
                 [p \in MCPairs4 |-> IF p = "Query_f1" THEN "a" ELSE IF p = "T_g" THEN "b" ELSE "none"]}

\* 2 body tokens: b1 (adversarial, no block comment), b2c (contains /* ... */)
E(b, d, nm)  == [body |-> b, doc |-> d, named |-> nm]
MCEdits      == {E("b1", "d1", TRUE), E("b2c", "gen", FALSE)}
MCEditsDev   == {E("b1", "dd", TRUE), E("b2c", "gen", FALSE), E("b1", "none", FALSE)}
MCEditsWide  == {E("b1", "d1", TRUE), E("b1", "dd", FALSE), E("b2c", "gen", FALSE), E("b2c", "none", TRUE), E("b1", "gen", FALSE)}

MCEditsQ     == {E("b1", "dd", TRUE), E("b2c", "gen", FALSE)}
MCEncNone    == {}
MCEncQ       == {"crlf"}
MCEncAll     == {"crlf", "mixed", "nonl", "bom"}
MCHelpers    == {"h", "hc"}
\* hc: a declaration with a /* */ comment inside; hr: a helper METHOD ON THE ROOT RESOLVER STRUCT (func (r *Resolver) ...)
MCHelpersQ   == {"hc", "hr"}
MCHelpersAll == {"h", "hc", "hr"}
MCHelpersH   == {"h"}
MCImportsA   == {"alias"}
MCImportsQ3  == {"alias", "asfx", "arsv"}
MCImportsS   == {"asfx"}
MCImportsQ   == {"alias", "asfx", "blank", "blank2"}
MCCmt        == {"b2c", "hc"}
MCImports    == {"alias", "dot"}
MCImportsDev == {"alias", "asfx", "arsv", "blank", "blank2"}
MCImportsAll == {"plain", "alias", "dot", "asfx", "arsv", "blank", "blank2"}
MCNever      == {"dot", "blank", "blank2"}

\* customisations of the root resolver struct: rf = fields added, re = embedded types + doc comment
MCRootNone   == {}
MCRootQ      == {"rf"}
MCRootAll    == {"rf", "re"}

C(rl, el, ab) == [rl |-> rl, el |-> el, ab |-> ab]
MCCfgs       == {C("single", "single", "none"), C("follow", "single", "none")}
MCCfgsAll    == {C("single", "single", "none"), C("follow", "single", "none"), C("single", "follow", "none"), C("follow", "follow", "none")}
\* autobind lists the model output package: with ("hand") and without ("model") a hand-written model type in it
\* "exec": autobind lists the EXEC package (single-file generated.go) and the schema has a type named like a
\* top-level identifier of generated.go (Config)
MCCfgsAB     == {C("follow", "single", "hand"), C("single", "follow", "model"), C("single", "single", "exec")}
MCCfgsC18    == MCCfgsAll \cup MCCfgsAB
MCCfgsStep   == {C(rl, el, ab) : rl \in {"single", "follow"}, el \in {"single", "follow"}, ab \in {"none", "model", "hand", "exec"}}
MCCfgsFollow == {C("follow", "single", "none")}
MCNoDev      == {}
MCDevWarn    == {"warnNesting"}
MCDevSfx     == {"aliasSuffix"}
MCDevRsv     == {"aliasReserved"}
MCDevBlank   == {"blank2"}
MCDevDoc     == {"docDirective"}
MCDevStale   == {"staleFile"}
MCDevRoot    == {"rootLeftover"}
MCAllDevs    == AllDevs
\* the deviations currently listed open in known_findings.d (the drivers rewrite this line)
MCCurDevs    == AllDevs
=============================================================================
