------------------------------- MODULE Stream -------------------------------
(***************************************************************************)
(* Implementation-level model of the two streaming HTTP transports of      *)
(* gqlgen (property C12): graphql/handler/transport/sse.go and             *)
(* http_multipart_mixed.go.  One behaviour = one streamed response.        *)
(*                                                                         *)
(* SSE (kind = "sse").  Two goroutines share one http.ResponseWriter `w`:  *)
(*   main      SSE.Do: Fprint(w, ":\n\n"); flush; start ticker + keepAlive; *)
(*             per payload: Fprintf(w, "event: next\ndata: %s\n\n"); flush;  *)
(*             resetTicker; finally Fprint(w, "event: complete\n\n");       *)
(*             deferred flush; return.                                     *)
(*   ka        keepAlive: select { ctx.Done -> Stop, return;               *)
(*                                 ticker.C -> Fprintf(w, ": ping\n\n"); flush } *)
(*   srv       net/http after the handler returned: cancelCtx(), then      *)
(*             finishRequest() (flushes and RECYCLES the response's        *)
(*             bufio.Writer: any later use of w is a use-after-finish).    *)
(* Every Fprint/Fprintf is ONE w.Write call; every access to w (a write or *)
(* a Flush) is two steps, begin and end, so that accesses of different     *)
(* goroutines overlap in the model exactly when nothing in the code        *)
(* orders them.  In the pinned tree sseConnection.mu is held around        *)
(* f.Flush() and around ticker Reset ONLY: the writes are outside it.      *)
(*                                                                         *)
(*   LockWrites = FALSE  pinned tree (DESIGN section 7 #8)                  *)
(*   LockWrites = TRUE   repaired: mu is held around write + flush         *)
(*   StopKA     = FALSE  pinned tree (#16): keepAlive ends only when the   *)
(*                       request context is cancelled, i.e. AFTER the      *)
(*                       handler has returned                              *)
(*   StopKA     = TRUE   repaired: writing `complete` marks the connection *)
(*                       closed (under mu when LockWrites); keepAlive      *)
(*                       never begins a write on a closed connection       *)
(*   CloseAtomic = TRUE  (with StopKA) `complete` is written and the        *)
(*                       connection marked closed in ONE critical section  *)
(*                       (the repair as committed: 625d410)                *)
(*   CloseAtomic = FALSE `complete` goes through the ordinary locked write *)
(*                       and the connection is marked closed LATER, by the *)
(*                       deferred close() - two critical sections: a ping  *)
(*                       parked on mu gets in between and lands after      *)
(*                       `complete` (CompleteLast fails; nothing else does)*)
(*                                                                         *)
(* multipart/mixed (kind = "mm").  main: responses(ctx) -> a.Add under     *)
(* a.mu; at the end a.Done: `done <- true`, flush.  Ticker goroutine:      *)
(* select { done -> return; ticker.C -> flush }.  flush runs entirely      *)
(* under a.mu and is the only code that writes, so it is ONE atomic step   *)
(* that appends the tokens the code writes: boundary, header, json of the  *)
(* initial payload, json of an `incremental` batch, closing boundary.      *)
(*                                                                         *)
(* The sink is what the CLIENT sees (nothing is appended after a client    *)
(* disconnect).  The property (C12) is stated over the sink: NoSplice,     *)
(* PreFirst, InOrder, CompleteLast, SseComplete / MmFramed, MmOrder,       *)
(* MmNoEmpty, MmComplete; over the accesses: NoRace, NoUseAfterFinish; and *)
(* as liveness: Termination, HelpersStop.                                  *)
(***************************************************************************)
EXTENDS Naturals, Sequences, FiniteSets, TLC

CONSTANTS
  Kinds,       \* which protocols Init may choose: subset of {"sse", "mm"}
  MinN, MaxN,  \* Init chooses n in MinN..MaxN (sse: `next` payloads; mm: incremental payloads after the initial one)
  KASet,       \* subset of BOOLEAN: keep-alive pings configured? (sse)
  MaxTicks,    \* bound on ticker ticks per stream (keeps the exhaustive model finite)
  Disc,        \* BOOLEAN: may the client disconnect (at any instant)?
  LockWrites, StopKA, CloseAtomic,
  KeepSink     \* TRUE in exhaustive configurations: record the sink and count ticks

VARIABLES
  kind, n, ka,
  sink,       \* sequence of segments/tokens as the client receives them
  cancelled,  \* the request context is done
  disc,       \* the client has gone
  mpc,        \* main goroutine
  got,        \* payloads main has received from the response handler
  \* --- sse ---
  mtok,       \* token main is writing / has last written
  mu,         \* sseConnection.mu: "free" | "main" | "ka"
  acc,        \* goroutines currently inside an access to w
  dirty,      \* [{"main","ka"} -> BOOLEAN]: the write in progress overlapped another access
  kpc,        \* keepAlive goroutine: "off" | "idle" | "w1" | "f0" | "f1" | "stopped"
  tick,       \* a tick is pending in ticker.C
  nticks,
  kastop,     \* repaired design: connection marked closed
  fin,        \* net/http finishRequest: "no" | "busy" | "yes"
  uaf,        \* w was used after finishRequest began
  \* --- mm ---
  aInit,      \* aggregator.initialResponse # nil
  aDef,       \* aggregator.deferResponses (payload ids)
  dsig,       \* `done <- true` happened
  tpc         \* aggregator ticker goroutine: "run" | "stopped"

vars == <<kind, n, ka, sink, cancelled, disc, mpc, got, mtok, mu, acc, dirty, kpc, tick, nticks,
          kastop, fin, uaf, aInit, aDef, dsig, tpc>>
ssevars == <<mtok, mu, acc, dirty, kpc, kastop, fin, uaf>>
mmvars == <<aInit, aDef, dsig, tpc>>

\* uniform token record (TLC never compares records of different shapes)
Tk(op, k, id, ids, hn) == [op |-> op, k |-> k, id |-> id, ids |-> ids, hn |-> hn]
Seg(op, t) == Tk(op, t.k, t.id, <<>>, "-")
STok(k, id) == [k |-> k, id |-> id]
Emit(s) == IF KeepSink /\ ~disc THEN sink \o s ELSE sink
Count(x) == IF KeepSink THEN x + 1 ELSE x

InitWith(k, nn, kk) ==
  /\ kind = k /\ n = nn /\ ka = kk
  /\ sink = <<>> /\ cancelled = FALSE /\ disc = FALSE
  /\ mpc = (IF k = "sse" THEN "w0" ELSE "recv") /\ got = 0
  /\ mtok = STok("pre", 0) /\ mu = "free" /\ acc = {}
  /\ dirty = [p \in {"main", "ka"} |-> FALSE]
  /\ kpc = "off" /\ tick = FALSE /\ nticks = 0 /\ kastop = FALSE /\ fin = "no" /\ uaf = FALSE
  /\ aInit = FALSE /\ aDef = <<>> /\ dsig = FALSE /\ tpc = (IF k = "mm" THEN "run" ELSE "stopped")

Init == \E k \in Kinds, nn \in MinN..MaxN, kk \in KASet :
          /\ (k = "mm" => kk = FALSE)
          /\ InitWith(k, nn, kk)

\* ------------------------------------------------------------------ SSE --
\* main: one w.Write call begins
MWriteBegin ==
  /\ kind = "sse" /\ mpc = "w0"
  /\ LockWrites => mu = "free"
  /\ mu' = (IF LockWrites THEN "main" ELSE mu)
  /\ acc' = acc \cup {"main"}
  /\ dirty' = [dirty EXCEPT !["main"] = (acc # {}), !["ka"] = (@ \/ kpc = "w1")]
  /\ kastop' = (IF mtok.k = "complete" /\ CloseAtomic THEN TRUE ELSE kastop)
  /\ sink' = Emit(<<Seg("B", mtok)>>)
  /\ mpc' = "w1"
  /\ UNCHANGED <<kind, n, ka, cancelled, disc, got, mtok, kpc, tick, nticks, fin, uaf, mmvars>>

MWriteEnd ==
  /\ kind = "sse" /\ mpc = "w1"
  /\ acc' = acc \ {"main"}
  /\ sink' = Emit(<<Seg("E", mtok)>>)
  /\ mpc' = "f0"
  /\ UNCHANGED <<kind, n, ka, cancelled, disc, got, mtok, mu, dirty, kpc, tick, nticks, kastop, fin, uaf, mmvars>>

\* c.flush(): mu.Lock; f.Flush(); mu.Unlock  (in the repaired design mu is already held)
MFlushBegin ==
  /\ kind = "sse" /\ mpc = "f0"
  /\ ~LockWrites => mu = "free"
  /\ mu' = "main"
  /\ acc' = acc \cup {"main"}
  /\ dirty' = [dirty EXCEPT !["ka"] = (@ \/ kpc = "w1")]
  /\ mpc' = "f1"
  /\ UNCHANGED <<kind, n, ka, sink, cancelled, disc, got, mtok, kpc, tick, nticks, kastop, fin, uaf, mmvars>>

MFlushEnd ==
  /\ kind = "sse" /\ mpc = "f1"
  /\ acc' = acc \ {"main"}
  /\ mu' = "free"
  /\ mpc' = (CASE mtok.k = "pre" -> "startka" [] mtok.k = "next" -> "reset"
               [] OTHER -> (IF StopKA THEN "close" ELSE "returned"))
  /\ UNCHANGED <<kind, n, ka, sink, cancelled, disc, got, mtok, dirty, kpc, tick, nticks, kastop, fin, uaf, mmvars>>

\* time.NewTicker + go c.keepAlive(w) when KeepAlivePingInterval > 0
MStartKA ==
  /\ kind = "sse" /\ mpc = "startka"
  /\ kpc' = (IF ka THEN "idle" ELSE "off")
  /\ mpc' = "recv"
  /\ UNCHANGED <<kind, n, ka, sink, cancelled, disc, got, mtok, mu, acc, dirty, tick, nticks, kastop, fin, uaf, mmvars>>

\* responses(ctx) returns the next payload (the source decides when)
MRecv ==
  /\ kind = "sse" /\ mpc = "recv" /\ got < n
  /\ got' = got + 1
  /\ mtok' = STok("next", got + 1)
  /\ mpc' = "w0"
  /\ UNCHANGED <<kind, n, ka, sink, cancelled, disc, mu, acc, dirty, kpc, tick, nticks, kastop, fin, uaf, mmvars>>

\* responses(ctx) returns nil: the source is exhausted, or its context is done
MRecvNil ==
  /\ kind = "sse" /\ mpc = "recv" /\ (got = n \/ cancelled)
  /\ mtok' = STok("complete", 0)
  /\ mpc' = "w0"
  /\ UNCHANGED <<kind, n, ka, sink, cancelled, disc, got, mu, acc, dirty, kpc, tick, nticks, kastop, fin, uaf, mmvars>>

\* resetTicker: under mu; a pending tick is dropped (Go >= 1.23 timers)
MReset ==
  /\ kind = "sse" /\ mpc = "reset"
  /\ ka => mu = "free"
  /\ tick' = (IF ka THEN FALSE ELSE tick)
  /\ mpc' = "recv"
  /\ UNCHANGED <<kind, n, ka, sink, cancelled, disc, got, mtok, mu, acc, dirty, kpc, nticks, kastop, fin, uaf, mmvars>>

\* repaired designs: the deferred close(): mu.Lock; closed = true; ticker.Stop; mu.Unlock; then Do returns
MClose ==
  /\ kind = "sse" /\ mpc = "close"
  /\ mu = "free"
  /\ kastop' = TRUE
  /\ mpc' = "returned"
  /\ UNCHANGED <<kind, n, ka, sink, cancelled, disc, got, mtok, mu, acc, dirty, kpc, tick, nticks, fin, uaf, mmvars>>

\* the keep-alive ticker fires (environment: any timing)
Tick ==
  /\ kind = "sse" /\ kpc \in {"idle", "w1", "f0", "f1"}
  /\ ~tick /\ nticks < MaxTicks
  /\ tick' = TRUE /\ nticks' = Count(nticks)
  /\ UNCHANGED <<kind, n, ka, sink, cancelled, disc, mpc, got, ssevars, mmvars>>

KPingBegin ==
  /\ kind = "sse" /\ kpc = "idle" /\ tick
  /\ LockWrites => mu = "free"
  /\ StopKA => ~kastop
  /\ tick' = FALSE
  /\ mu' = (IF LockWrites THEN "ka" ELSE mu)
  /\ acc' = acc \cup {"ka"}
  /\ dirty' = [dirty EXCEPT !["ka"] = (acc # {}), !["main"] = (@ \/ mpc = "w1")]
  /\ uaf' = (uaf \/ fin # "no")
  /\ sink' = Emit(<<Seg("B", STok("ping", 0))>>)
  /\ kpc' = "w1"
  /\ UNCHANGED <<kind, n, ka, cancelled, disc, mpc, got, mtok, nticks, kastop, fin, mmvars>>

KPingEnd ==
  /\ kind = "sse" /\ kpc = "w1"
  /\ acc' = acc \ {"ka"}
  /\ sink' = Emit(<<Seg("E", STok("ping", 0))>>)
  /\ kpc' = "f0"
  /\ UNCHANGED <<kind, n, ka, cancelled, disc, mpc, got, mtok, mu, dirty, tick, nticks, kastop, fin, uaf, mmvars>>

KFlushBegin ==
  /\ kind = "sse" /\ kpc = "f0"
  /\ ~LockWrites => mu = "free"
  /\ mu' = "ka"
  /\ acc' = acc \cup {"ka"}
  /\ dirty' = [dirty EXCEPT !["main"] = (@ \/ mpc = "w1")]
  /\ uaf' = (uaf \/ fin # "no")
  /\ kpc' = "f1"
  /\ UNCHANGED <<kind, n, ka, sink, cancelled, disc, mpc, got, mtok, tick, nticks, kastop, fin, mmvars>>

KFlushEnd ==
  /\ kind = "sse" /\ kpc = "f1"
  /\ acc' = acc \ {"ka"}
  /\ mu' = "free"
  /\ kpc' = "idle"
  /\ UNCHANGED <<kind, n, ka, sink, cancelled, disc, mpc, got, mtok, dirty, tick, nticks, kastop, fin, uaf, mmvars>>

\* keepAlive returns: <-ctx.Done() (select may also take a pending tick:
\* KPingBegin stays enabled), or - repaired - the connection is closed
KStop ==
  /\ kind = "sse" /\ kpc = "idle"
  /\ cancelled \/ (StopKA /\ kastop)
  /\ kpc' = "stopped"
  /\ UNCHANGED <<kind, n, ka, sink, cancelled, disc, mpc, got, mtok, mu, acc, dirty, tick, nticks, kastop, fin, uaf, mmvars>>

\* net/http: the handler returned -> w.cancelCtx() -> w.finishRequest()
ServerCancel ==
  /\ mpc = "returned" /\ ~cancelled
  /\ cancelled' = TRUE
  /\ UNCHANGED <<kind, n, ka, sink, disc, mpc, got, tick, nticks, ssevars, mmvars>>

FinBegin ==
  /\ mpc = "returned" /\ cancelled /\ fin = "no"
  /\ fin' = "busy"
  /\ acc' = acc \cup {"srv"}
  /\ dirty' = [dirty EXCEPT !["ka"] = (@ \/ kpc = "w1")]
  /\ UNCHANGED <<kind, n, ka, sink, cancelled, disc, mpc, got, mtok, mu, kpc, tick, nticks, kastop, uaf, mmvars>>

FinEnd ==
  /\ fin = "busy"
  /\ fin' = "yes"
  /\ acc' = acc \ {"srv"}
  /\ UNCHANGED <<kind, n, ka, sink, cancelled, disc, mpc, got, mtok, mu, dirty, kpc, tick, nticks, kastop, uaf, mmvars>>

\* the client closes the connection; net/http's background read cancels the request context
Disconnect ==
  /\ Disc /\ ~disc /\ mpc # "returned"
  /\ disc' = TRUE /\ cancelled' = TRUE
  /\ UNCHANGED <<kind, n, ka, sink, mpc, got, tick, nticks, ssevars, mmvars>>

\* ------------------------------------------------------ multipart/mixed --
HN(id) == IF id < n THEN "t" ELSE "f"       \* payload 0 = initial, 1..n incremental; the last one says hasNext:false
T0(k) == Tk("T", k, 0, <<>>, "-")

\* what aggregator.flush writes for the pending payloads
FlushOut ==
  IF ~aInit /\ aDef = <<>> THEN <<>>
  ELSE LET p1 == IF aInit
                 THEN <<T0("bnd"), T0("hdr"), Tk("T", "init", 0, <<0>>, HN(0))>>
                      \o (IF aDef # <<>> THEN <<T0("bnd")>> ELSE <<>>)
                 ELSE <<>>
           p2 == IF aDef # <<>>
                 THEN <<T0("hdr"), Tk("T", "incr", 0, aDef, HN(aDef[Len(aDef)]))>>
                 ELSE <<>>
           hn == IF aDef # <<>> THEN HN(aDef[Len(aDef)]) ELSE HN(0)
       IN p1 \o p2 \o <<IF hn = "t" THEN T0("bnd") ELSE T0("close")>>

DoFlush ==
  /\ sink' = Emit(FlushOut)
  /\ aInit' = FALSE /\ aDef' = <<>>

\* responses(ctx) returned a payload; a.Add(resp, initial) under a.mu
MMRecvAdd ==
  /\ kind = "mm" /\ mpc = "recv" /\ got < n + 1
  /\ got' = got + 1
  /\ IF got = 0 THEN aInit' = TRUE /\ aDef' = aDef
                ELSE aDef' = Append(aDef, got) /\ aInit' = aInit
  /\ UNCHANGED <<kind, n, ka, sink, cancelled, disc, mpc, tick, nticks, ssevars, dsig, tpc>>

MMRecvNil ==
  /\ kind = "mm" /\ mpc = "recv" /\ (got = n + 1 \/ cancelled)
  /\ mpc' = "dsig"
  /\ UNCHANGED <<kind, n, ka, sink, cancelled, disc, got, tick, nticks, ssevars, mmvars>>

\* a.Done, first half: a.done <- true (buffered, never blocks)
MMDoneSig ==
  /\ kind = "mm" /\ mpc = "dsig"
  /\ dsig' = TRUE /\ mpc' = "dflush"
  /\ UNCHANGED <<kind, n, ka, sink, cancelled, disc, got, tick, nticks, ssevars, aInit, aDef, tpc>>

\* a.Done, second half: a.flush(w); then the handler returns
MMDoneFlush ==
  /\ kind = "mm" /\ mpc = "dflush"
  /\ DoFlush
  /\ mpc' = "returned"
  /\ UNCHANGED <<kind, n, ka, cancelled, disc, got, tick, nticks, ssevars, dsig, tpc>>

MMTick ==
  /\ kind = "mm" /\ tpc = "run" /\ ~tick /\ nticks < MaxTicks
  /\ tick' = TRUE /\ nticks' = Count(nticks)
  /\ UNCHANGED <<kind, n, ka, sink, cancelled, disc, mpc, got, ssevars, mmvars>>

\* ticker goroutine: case <-ticker.C: a.flush(w)
MMFlushTick ==
  /\ kind = "mm" /\ tpc = "run" /\ tick
  /\ tick' = FALSE
  /\ DoFlush
  /\ UNCHANGED <<kind, n, ka, cancelled, disc, mpc, got, nticks, ssevars, dsig, tpc>>

\* ticker goroutine: case <-a.done: return
MMTickerStop ==
  /\ kind = "mm" /\ tpc = "run" /\ dsig
  /\ tpc' = "stopped"
  /\ UNCHANGED <<kind, n, ka, sink, cancelled, disc, mpc, got, tick, nticks, ssevars, aInit, aDef, dsig>>

\* -------------------------------------------------------------------------
SseNext ==
  \/ MWriteBegin \/ MWriteEnd \/ MFlushBegin \/ MFlushEnd \/ MStartKA \/ MRecv \/ MRecvNil \/ MReset \/ MClose
  \/ Tick \/ KPingBegin \/ KPingEnd \/ KFlushBegin \/ KFlushEnd \/ KStop
MmNext ==
  \/ MMRecvAdd \/ MMRecvNil \/ MMDoneSig \/ MMDoneFlush \/ MMTick \/ MMFlushTick \/ MMTickerStop
Next == SseNext \/ MmNext \/ ServerCancel \/ FinBegin \/ FinEnd \/ Disconnect

\* gqlgen's and net/http's own steps are fair, and so is the payload source
\* (it yields its next payload or ends; it ends promptly once its context is
\* done).  Ticks and the client are not.
Fairness ==
  /\ WF_vars(MWriteBegin) /\ WF_vars(MWriteEnd) /\ WF_vars(MFlushBegin) /\ WF_vars(MFlushEnd)
  /\ WF_vars(MStartKA) /\ WF_vars(MRecv) /\ WF_vars(MRecvNil) /\ WF_vars(MReset) /\ WF_vars(MClose)
  /\ WF_vars(KPingBegin) /\ WF_vars(KPingEnd) /\ WF_vars(KFlushBegin) /\ WF_vars(KFlushEnd) /\ WF_vars(KStop)
  /\ WF_vars(MMRecvAdd) /\ WF_vars(MMRecvNil) /\ WF_vars(MMDoneSig) /\ WF_vars(MMDoneFlush)
  /\ WF_vars(MMFlushTick) /\ WF_vars(MMTickerStop)
  /\ WF_vars(ServerCancel) /\ WF_vars(FinBegin) /\ WF_vars(FinEnd)

Spec == Init /\ [][Next]_vars /\ Fairness

\* ------------------------------------------------------------ properties --
TypeOK ==
  /\ kind \in {"sse", "mm"} /\ n \in 0..MaxN /\ ka \in BOOLEAN
  /\ mpc \in {"w0", "w1", "f0", "f1", "startka", "recv", "reset", "close", "dsig", "dflush", "returned"}
  /\ got \in 0..(n + 1)
  /\ mu \in {"free", "main", "ka"} /\ acc \subseteq {"main", "ka", "srv"}
  /\ kpc \in {"off", "idle", "w1", "f0", "f1", "stopped"}
  /\ fin \in {"no", "busy", "yes"} /\ tpc \in {"run", "stopped"}

\* the race detector's property: w is never accessed by two goroutines at once
NoRace == Cardinality(acc) <= 1
\* w is never touched once net/http has started to finish the request
NoUseAfterFinish == ~uaf

IsE(x, k) == x.op = "E" /\ x.k = k
\* nothing lands inside a token: every begun write is completed before anything else begins
NoSplice ==
  \A i \in 1..Len(sink) :
    sink[i].op = "B" => \/ i = Len(sink)
                        \/ (sink[i + 1].op = "E" /\ sink[i + 1].k = sink[i].k /\ sink[i + 1].id = sink[i].id)
PreFirst ==
  kind = "sse" => /\ (Len(sink) > 0 => (sink[1].op = "B" /\ sink[1].k = "pre"))
                  /\ \A i \in 2..Len(sink) : ~(sink[i].op = "B" /\ sink[i].k = "pre")
Nexts == SelectSeq(sink, LAMBDA x : IsE(x, "next"))
\* every payload exactly once, in order
InOrder == kind = "sse" => \A j \in 1..Len(Nexts) : Nexts[j].id = j
\* exactly one `complete`, and nothing - not even a ping - after it
CompleteLast ==
  kind = "sse" => \A i \in 1..Len(sink) :
                     /\ (sink[i].op = "B" /\ sink[i].k = "complete") => i >= Len(sink) - 1
                     /\ IsE(sink[i], "complete") => i = Len(sink)
\* a stream the client did not abandon is complete
SseComplete ==
  (kind = "sse" /\ mpc = "returned" /\ ~disc) =>
     /\ Len(sink) >= 2 /\ IsE(sink[Len(sink)], "complete")
     /\ Len(Nexts) = n
PingsOnlyIfConfigured == (kind = "sse" /\ ~ka) => \A i \in 1..Len(sink) : sink[i].k # "ping"

\* multipart: the token automaton  ( bnd hdr json )+ with bnd / close between and at the end
RECURSIVE MmRun(_, _, _)
MmRun(s, i, st) ==
  IF i > Len(s) THEN st
  ELSE LET x == s[i] IN
       CASE st = "s0" /\ x.k = "bnd" -> MmRun(s, i + 1, "s1")
         [] st = "s1" /\ x.k = "hdr" -> MmRun(s, i + 1, "s2")
         [] st = "s2" /\ x.k \in {"init", "incr"} /\ (x.k = "init" <=> i = 3) ->
                 MmRun(s, i + 1, IF x.hn = "t" THEN "s3t" ELSE "s3f")
         [] st = "s3t" /\ x.k = "bnd" -> MmRun(s, i + 1, "s1")        \* hasNext:true is never the last part
         [] st = "s3f" /\ x.k = "close" -> MmRun(s, i + 1, "s4")      \* hasNext:false only in the last part
         [] OTHER -> "err"                                          \* in particular anything after the closing boundary
MmState == MmRun(sink, 1, "s0")
MmFramed == kind = "mm" => MmState # "err"
RECURSIVE Ids(_, _)
Ids(s, i) == IF i > Len(s) THEN <<>> ELSE (IF s[i].k \in {"init", "incr"} THEN s[i].ids ELSE <<>>) \o Ids(s, i + 1)
MmOrder == kind = "mm" => LET d == Ids(sink, 1) IN \A j \in 1..Len(d) : d[j] = j - 1
MmNoEmpty == kind = "mm" => \A i \in 1..Len(sink) : sink[i].k = "incr" => sink[i].ids # <<>>
MmComplete ==
  (kind = "mm" /\ mpc = "returned" /\ ~disc) => (MmState = "s4" /\ Len(Ids(sink, 1)) = n + 1)

\* liveness: the handler returns; the helper goroutines end; net/http finishes the request
Termination == <>(mpc = "returned")
HelpersStop == <>[](kpc \in {"off", "stopped"} /\ tpc = "stopped")
Finished == <>(fin = "yes")
=============================================================================
