------------------------------- MODULE Stream -------------------------------
(***************************************************************************)
(* Implementation-level model of the two streaming HTTP transports of      *)
(* gqlgen (property C12): graphql/handler/transport/sse.go and             *)
(* http_multipart_mixed.go.  One behaviour = one streamed response.        *)
(*                                                                         *)
(* SSE (kind = "sse").  Two goroutines share one http.ResponseWriter `w`:  *)
(*   main      SSE.Do: Fprint(w, ":\n\n"); flush; start ticker + keepAlive; *)
(*             per payload: Fprintf(w, "event: next\ndata: %s\n\n"); flush;  *)
(*             resetTicker; finally Fprint(w, "event: complete\n\n");       *)
(*             deferred flush; return.                                     *)
(*   ka        keepAlive: select { ctx.Done -> Stop, return;               *)
(*                                 ticker.C -> Fprintf(w, ": ping\n\n"); flush } *)
(*   srv       net/http after the handler returned: cancelCtx(), then      *)
(*             finishRequest() (flushes and RECYCLES the response's        *)
(*             bufio.Writer: any later use of w is a use-after-finish).    *)
(* Every Fprint/Fprintf is ONE w.Write call; every access to w (a write or *)
(* a Flush) is two steps, begin and end, so that accesses of different     *)
(* goroutines overlap in the model exactly when nothing in the code        *)
(* orders them.  In the pinned tree sseConnection.mu is held around        *)
(* f.Flush() and around ticker Reset ONLY: the writes are outside it.      *)
(*                                                                         *)
(*   LockWrites = FALSE  pinned tree (DESIGN section 7 #8)                  *)
(*   LockWrites = TRUE   repaired: mu is held around write + flush         *)
(*   StopKA     = FALSE  pinned tree (#16): keepAlive ends only when the   *)
(*                       request context is cancelled, i.e. AFTER the      *)
(*                       handler has returned                              *)
(*   StopKA     = TRUE   repaired: writing `complete` marks the connection *)
(*                       closed (under mu when LockWrites); keepAlive      *)
(*                       never begins a write on a closed connection       *)
(*   CloseAtomic = TRUE  (with StopKA) `complete` is written and the        *)
(*                       connection marked closed in ONE critical section  *)
(*                       (the repair as committed: 625d410)                *)
(*   CloseAtomic = FALSE `complete` goes through the ordinary locked write *)
(*                       and the connection is marked closed LATER, by the *)
(*                       deferred close() - two critical sections: a ping  *)
(*                       parked on mu gets in between and lands after      *)
(*                       `complete` (CompleteLast fails; nothing else does)*)
(*                                                                         *)
(* multipart/mixed (kind = "mm").  main: responses(ctx) -> a.Add under     *)
(* a.mu; at the end a.Done: `done <- true`, flush.  Ticker goroutine:      *)
(* select { done -> return; ticker.C -> flush }.  flush runs entirely      *)
(* under a.mu and is the only code that writes, so it is ONE atomic step   *)
(* that appends the tokens the code writes: boundary, header, json of the  *)
(* initial payload, json of an `incremental` batch, closing boundary.      *)
(*                                                                         *)
(* A payload whose SERIALIZATION FAILS (round 3).  failAt = k > 0: the k-th  *)
(* payload the response handler yields cannot be encoded (Response.Data is *)
(* not valid JSON - a custom scalar marshaller wrote garbage -, or an      *)
(* extension value's MarshalJSON errors).  What the code does with it is   *)
(* modelled as it is (named actions, no judgement):                        *)
(*   sse   writeJsonWithSSE panics INSIDE c.write before anything of the   *)
(*         event reaches w (MEncodeFail; mu is released by the deferred    *)
(*         Unlock); the deferred close() marks the connection closed       *)
(*         (MPanicClose), the deferred flush() runs (MPFlushBegin, MPFlushEnd), then       *)
(*         handler.Server.ServeHTTP's recover writes a bare JSON error     *)
(*         object into the stream (MBlobBegin, MBlobEnd: token `blob`; no `complete`).   *)
(*   mm    MmEncodeInAdd = TRUE - the code as it is since a4760cc: Add     *)
(*         encodes the payload on the handler goroutine (and so owns the   *)
(*         bytes); a failure panics there, the deferred Done runs          *)
(*         (`done <- true`, WAIT for the ticker goroutine to exit, flush   *)
(*         what is pending - all of it encodable, hasNext:true, so it ends *)
(*         with an ordinary boundary), the panic is recovered by           *)
(*         handler.Server like above: blob, no closing boundary.  Never a  *)
(*         death of the process (NoCrash), and the ticker goroutine is     *)
(*         gone before the handler returns (MmTickerStoppedAtReturn).      *)
(*   MmEncodeInAdd = FALSE  the design before a4760cc, kept as a           *)
(*         regression of the SPEC (MC_Stream_mmfail.cfg, must-fail runs):  *)
(*         the payload is only encoded by aggregator.flush.  In Done's     *)
(*         flush the panic is recovered (what flush wrote before the       *)
(*         part's JSON stays on the wire: FlushOutFail; then the blob).    *)
(*         In the TICKER goroutine's flush nothing recovers it: the        *)
(*         process dies (crashed) - also after the handler returned, when  *)
(*         the ticker takes a pending tick instead of `done`.              *)
(*                                                                         *)
(* A HISTORY of requests on one handler.  req counts the requests a        *)
(* handler (process) has served; NextRequest starts the next one when the  *)
(* previous one is over.  Everything per-request is re-initialised; what   *)
(* could survive is named explicitly: carry = an earlier failed            *)
(* serialization left a residue in scratch memory the handler shares       *)
(* between requests.  The code as it is shares nothing (SharedBuf = FALSE, *)
(* carry is never set), so every later request is served exactly as by a   *)
(* fresh handler - that is the property: all per-stream invariants in      *)
(* EVERY request of a history + NoGarbage.  SharedBuf = TRUE is the        *)
(* deviating design (event assembled in a pooled buffer that is put back   *)
(* un-reset when encoding fails): the next event that draws the buffer is  *)
(* garbled (token `bad`) - TLC must refute NoGarbage (MC_StreamHist_shared).*)
(*                                                                         *)
(* SERVER-SIDE CANCELLATION (round 4).  Deadline: the request context ends  *)
(* while the handler is still running and the client is still connected   *)
(* and reading (a context.WithTimeout / WithCancel middleware around       *)
(* handler.Server, a deadline, BaseContext cancelled on shutdown).  It is  *)
(* NOT a disconnect: disc stays FALSE, so everything the operation still   *)
(* produces - an operation may well answer after its context is done: a    *)
(* query whose resolvers ignore ctx, a subscription whose last payload     *)
(* reports the cancellation - must be delivered, and `complete` / the      *)
(* closing boundary must follow (SseComplete, MmComplete: every payload    *)
(* the source PRODUCED, got, is on the wire).  The source may also end     *)
(* early once its context is done (MRecvNil / MMRecvNil).                  *)
(*   KACloseOnDone = FALSE  the code as it is: keepAlive's `<-ctx.Done()`  *)
(*         branch stops the ticker and returns, nothing else               *)
(*   KACloseOnDone = TRUE   deviating design: that branch calls close()    *)
(*         (closed = true under mu): every later c.write drops its event   *)
(*         (MWriteDropped) and `complete` is suppressed - TLC must refute  *)
(*         SseComplete (MC_Stream_kaclose.cfg).                            *)
(*                                                                         *)
(* The sink is what the CLIENT sees (nothing is appended after a client    *)
(* disconnect).  The property (C12) is stated over the sink: NoSplice,     *)
(* PreFirst, InOrder, CompleteLast, SseComplete / MmFramed, MmOrder,       *)
(* MmNoEmpty, MmComplete; over the accesses: NoRace, NoUseAfterFinish; and *)
(* as liveness: Termination, HelpersStop.                                  *)
(***************************************************************************)
EXTENDS Naturals, Sequences, FiniteSets, TLC

CONSTANTS
  Kinds,       \* which protocols Init may choose: subset of {"sse", "mm"}
  MinN, MaxN,  \* Init chooses n in MinN..MaxN (sse: `next` payloads; mm: incremental payloads after the initial one)
  KASet,       \* subset of BOOLEAN: keep-alive pings configured? (sse)
  MaxTicks,    \* bound on ticker ticks per stream (keeps the exhaustive model finite)
  Disc,        \* BOOLEAN: may the client disconnect (at any instant)?
  LockWrites, StopKA, CloseAtomic,
  KeepSink,    \* TRUE in exhaustive configurations: record the sink and count ticks
  FailSet,     \* positions of the payload whose serialization fails that a request may choose; 0 = none
  MaxReq,      \* requests served one after the other by the same handler (history length)
  SharedBuf,   \* deviating design: serialization scratch shared between the requests of a handler
  Deadl,       \* BOOLEAN: may the request context be cancelled SERVER-SIDE (client still connected) while the handler runs?
  KACloseOnDone, \* deviating design: keepAlive's ctx.Done branch marks the connection closed (close()) instead of only stopping the ticker
  MmEncodeInAdd \* TRUE = a4760cc: multipart encodes in Add (handler goroutine), Done waits for the ticker goroutine; FALSE = before

VARIABLES
  kind, n, ka,
  sink,       \* sequence of segments/tokens as the client receives them
  cancelled,  \* the request context is done
  disc,       \* the client has gone
  mpc,        \* main goroutine
  got,        \* payloads main has received from the response handler
  \* --- sse ---
  mtok,       \* token main is writing / has last written
  mu,         \* sseConnection.mu: "free" | "main" | "ka"
  acc,        \* goroutines currently inside an access to w
  dirty,      \* [{"main","ka"} -> BOOLEAN]: the write in progress overlapped another access
  kpc,        \* keepAlive goroutine: "off" | "idle" | "w1" | "f0" | "f1" | "stopped"
  tick,       \* a tick is pending in ticker.C
  nticks,
  kastop,     \* repaired design: connection marked closed
  fin,        \* net/http finishRequest: "no" | "busy" | "yes"
  uaf,        \* w was used after finishRequest began
  \* --- mm ---
  aInit,      \* aggregator.initialResponse # nil
  aDef,       \* aggregator.deferResponses (payload ids)
  dsig,       \* `done <- true` happened
  tpc,        \* aggregator ticker goroutine: "run" | "stopped"
  \* --- history ---
  failAt,     \* this request: position (1-based, in production order) of the payload that cannot be encoded; 0 = none
  req,        \* number of this request on its handler (1 = fresh handler)
  carry,      \* residue of a failed serialization in scratch memory shared between requests (SharedBuf only)
  crashed     \* the server process died (panic on a goroutine nobody recovers)

rvars == <<kind, n, ka, sink, cancelled, disc, mpc, got, mtok, mu, acc, dirty, kpc, tick, nticks,
           kastop, fin, uaf, aInit, aDef, dsig, tpc>>
hvars == <<failAt, req, carry, crashed>>
vars == <<rvars, hvars>>
ssevars == <<mtok, mu, acc, dirty, kpc, kastop, fin, uaf>>
mmvars == <<aInit, aDef, dsig, tpc>>

\* uniform token record (TLC never compares records of different shapes)
Tk(op, k, id, ids, hn) == [op |-> op, k |-> k, id |-> id, ids |-> ids, hn |-> hn]
Seg(op, t) == Tk(op, t.k, t.id, <<>>, "-")
STok(k, id) == [k |-> k, id |-> id]
Emit(s) == IF KeepSink /\ ~disc THEN sink \o s ELSE sink
Count(x) == IF KeepSink THEN x + 1 ELSE x

\* positions a request of kind k with nn payloads can fail at (mm: position 1 is the initial payload)
FailOK(k, nn, ff) == ff = 0 \/ ff <= (IF k = "sse" THEN nn ELSE nn + 1)

InitWith(k, nn, kk) ==
  /\ kind = k /\ n = nn /\ ka = kk
  /\ req = 1 /\ carry = FALSE /\ crashed = FALSE
  /\ sink = <<>> /\ cancelled = FALSE /\ disc = FALSE
  /\ mpc = (IF k = "sse" THEN "w0" ELSE "recv") /\ got = 0
  /\ mtok = STok("pre", 0) /\ mu = "free" /\ acc = {}
  /\ dirty = [p \in {"main", "ka"} |-> FALSE]
  /\ kpc = "off" /\ tick = FALSE /\ nticks = 0 /\ kastop = FALSE /\ fin = "no" /\ uaf = FALSE
  /\ aInit = FALSE /\ aDef = <<>> /\ dsig = FALSE /\ tpc = (IF k = "mm" THEN "run" ELSE "stopped")

Init == \E k \in Kinds, nn \in MinN..MaxN, kk \in KASet, ff \in FailSet :
          /\ (k = "mm" => kk = FALSE)
          /\ FailOK(k, nn, ff) /\ failAt = ff
          /\ InitWith(k, nn, kk)

\* ------------------------------------------------------------------ SSE --
\* the event main is about to write is the one whose payload cannot be encoded
Failing == mtok.k \in {"next", "bad"} /\ mtok.id = failAt

\* main: one w.Write call begins
MWriteBegin ==
  /\ kind = "sse" /\ mpc = "w0" /\ ~Failing
  /\ ~(StopKA /\ kastop)        \* c.write / the `complete` section: nothing is written on a closed connection (MWriteDropped)
  /\ LockWrites => mu = "free"
  /\ mu' = (IF LockWrites THEN "main" ELSE mu)
  /\ acc' = acc \cup {"main"}
  /\ dirty' = [dirty EXCEPT !["main"] = (acc # {}), !["ka"] = (@ \/ kpc = "w1")]
  /\ kastop' = (IF mtok.k = "complete" /\ CloseAtomic THEN TRUE ELSE kastop)
  /\ sink' = Emit(<<Seg("B", mtok)>>)
  /\ mpc' = "w1"
  /\ UNCHANGED <<hvars, kind, n, ka, cancelled, disc, got, mtok, kpc, tick, nticks, fin, uaf, mmvars>>

\* c.write on a connection that is already marked closed: mu.Lock; `if c.closed { return }` - the event is
\* dropped, nothing is flushed (`complete`: `if !c.closed {...}` is skipped).  In the code as it is only the
\* handler goroutine itself closes the connection, after its last write: unreachable.  Reachable with KACloseOnDone.
MWriteDropped ==
  /\ kind = "sse" /\ mpc = "w0" /\ StopKA /\ kastop
  /\ mu = "free"
  /\ mpc' = (CASE mtok.k = "pre" -> "startka" [] mtok.k \in {"next", "bad"} -> "reset" [] OTHER -> "close")
  /\ UNCHANGED <<hvars, kind, n, ka, sink, cancelled, disc, got, mtok, mu, acc, dirty, kpc, tick, nticks, kastop, fin, uaf, mmvars>>

MWriteEnd ==
  /\ kind = "sse" /\ mpc = "w1"
  /\ acc' = acc \ {"main"}
  /\ sink' = Emit(<<Seg("E", mtok)>>)
  /\ mpc' = "f0"
  /\ UNCHANGED <<hvars, kind, n, ka, cancelled, disc, got, mtok, mu, dirty, kpc, tick, nticks, kastop, fin, uaf, mmvars>>

\* c.flush(): mu.Lock; f.Flush(); mu.Unlock  (in the repaired design mu is already held)
MFlushBegin ==
  /\ kind = "sse" /\ mpc = "f0"
  /\ ~LockWrites => mu = "free"
  /\ mu' = "main"
  /\ acc' = acc \cup {"main"}
  /\ dirty' = [dirty EXCEPT !["ka"] = (@ \/ kpc = "w1")]
  /\ mpc' = "f1"
  /\ UNCHANGED <<hvars, kind, n, ka, sink, cancelled, disc, got, mtok, kpc, tick, nticks, kastop, fin, uaf, mmvars>>

MFlushEnd ==
  /\ kind = "sse" /\ mpc = "f1"
  /\ acc' = acc \ {"main"}
  /\ mu' = "free"
  /\ mpc' = (CASE mtok.k = "pre" -> "startka" [] mtok.k \in {"next", "bad"} -> "reset"
               [] OTHER -> (IF StopKA THEN "close" ELSE "returned"))
  /\ UNCHANGED <<hvars, kind, n, ka, sink, cancelled, disc, got, mtok, dirty, kpc, tick, nticks, kastop, fin, uaf, mmvars>>

\* time.NewTicker + go c.keepAlive(w) when KeepAlivePingInterval > 0
MStartKA ==
  /\ kind = "sse" /\ mpc = "startka"
  /\ kpc' = (IF ka THEN "idle" ELSE "off")
  /\ mpc' = "recv"
  /\ UNCHANGED <<hvars, kind, n, ka, sink, cancelled, disc, got, mtok, mu, acc, dirty, tick, nticks, kastop, fin, uaf, mmvars>>

\* responses(ctx) returns the next payload (the source decides when)
MRecv ==
  /\ kind = "sse" /\ mpc = "recv" /\ got < n
  /\ got' = got + 1
  \* SharedBuf (deviating design): the event may be assembled in the scratch buffer an earlier failed
  \* serialization left its partial event in - it then goes out garbled (`bad`), and the residue is gone
  /\ \E g \in (IF SharedBuf /\ carry THEN BOOLEAN ELSE {FALSE}) :
       /\ mtok' = STok(IF g THEN "bad" ELSE "next", got + 1)
       /\ carry' = (carry /\ ~g)
  /\ mpc' = "w0"
  /\ UNCHANGED <<failAt, req, crashed, kind, n, ka, sink, cancelled, disc, mu, acc, dirty, kpc, tick, nticks, kastop, fin, uaf, mmvars>>

\* responses(ctx) returns nil: the source is exhausted, or its context is done (client gone, or cancelled
\* server-side: Deadline) and it chooses to end - it may as well go on producing (MRecv stays enabled)
MRecvNil ==
  /\ kind = "sse" /\ mpc = "recv" /\ (got = n \/ cancelled)
  /\ mtok' = STok("complete", 0)
  /\ mpc' = "w0"
  /\ UNCHANGED <<hvars, kind, n, ka, sink, cancelled, disc, got, mu, acc, dirty, kpc, tick, nticks, kastop, fin, uaf, mmvars>>

\* resetTicker: under mu; a pending tick is dropped (Go >= 1.23 timers)
MReset ==
  /\ kind = "sse" /\ mpc = "reset"
  /\ ka => mu = "free"
  /\ tick' = (IF ka THEN FALSE ELSE tick)
  /\ mpc' = "recv"
  /\ UNCHANGED <<hvars, kind, n, ka, sink, cancelled, disc, got, mtok, mu, acc, dirty, kpc, nticks, kastop, fin, uaf, mmvars>>

\* repaired designs: the deferred close(): mu.Lock; closed = true; ticker.Stop; mu.Unlock; then Do returns
MClose ==
  /\ kind = "sse" /\ mpc = "close"
  /\ mu = "free"
  /\ kastop' = TRUE
  /\ mpc' = "returned"
  /\ UNCHANGED <<hvars, kind, n, ka, sink, cancelled, disc, got, mtok, mu, acc, dirty, kpc, tick, nticks, fin, uaf, mmvars>>

\* ---- a payload that cannot be encoded (sse) ----
\* c.write: mu.Lock; fn() = writeJsonWithSSE: json.Marshal fails -> panic BEFORE anything of the
\* event is written to w; the deferred mu.Unlock runs.  One step: mu is taken and released.
\* SharedBuf: the partial event stays behind in the shared scratch buffer.
MEncodeFail ==
  /\ kind = "sse" /\ mpc = "w0" /\ Failing
  /\ ~(StopKA /\ kastop)
  /\ LockWrites => mu = "free"
  /\ carry' = (carry \/ SharedBuf)
  /\ mtok' = STok("blob", 0)
  /\ mpc' = (IF StopKA THEN "pclose" ELSE "pf0")
  /\ UNCHANGED <<failAt, req, crashed, kind, n, ka, sink, cancelled, disc, got, mu, acc, dirty, kpc, tick, nticks, kastop, fin, uaf, mmvars>>

\* the panic unwinds Do: deferred close() (repaired designs): mu.Lock; closed = true; ticker.Stop; mu.Unlock
MPanicClose ==
  /\ kind = "sse" /\ mpc = "pclose"
  /\ mu = "free"
  /\ kastop' = TRUE
  /\ mpc' = "pf0"
  /\ UNCHANGED <<hvars, kind, n, ka, sink, cancelled, disc, got, mtok, mu, acc, dirty, kpc, tick, nticks, fin, uaf, mmvars>>

\* ... then the deferred c.flush(): mu.Lock; f.Flush(); mu.Unlock
MPFlushBegin ==
  /\ kind = "sse" /\ mpc = "pf0"
  /\ mu = "free"
  /\ mu' = "main"
  /\ acc' = acc \cup {"main"}
  /\ dirty' = [dirty EXCEPT !["ka"] = (@ \/ kpc = "w1")]
  /\ mpc' = "pf1"
  /\ UNCHANGED <<hvars, kind, n, ka, sink, cancelled, disc, got, mtok, kpc, tick, nticks, kastop, fin, uaf, mmvars>>

MPFlushEnd ==
  /\ kind = "sse" /\ mpc = "pf1"
  /\ acc' = acc \ {"main"}
  /\ mu' = "free"
  /\ mpc' = "rec"
  /\ UNCHANGED <<hvars, kind, n, ka, sink, cancelled, disc, got, mtok, dirty, kpc, tick, nticks, kastop, fin, uaf, mmvars>>

\* handler.Server.ServeHTTP recovers the panic: w.WriteHeader(422) (too late: ignored), w.Write(error JSON) -
\* one Write on w, outside every lock of the transport (both kinds)
MBlobBegin ==
  /\ mpc = "rec"
  /\ acc' = acc \cup {"main"}
  /\ dirty' = [dirty EXCEPT !["main"] = (acc # {}), !["ka"] = (@ \/ kpc = "w1")]
  /\ uaf' = (uaf \/ fin # "no")
  /\ sink' = (IF kind = "sse" THEN Emit(<<Seg("B", STok("blob", 0))>>) ELSE sink)
  /\ mpc' = "bw1"
  /\ UNCHANGED <<hvars, kind, n, ka, cancelled, disc, got, mtok, mu, kpc, tick, nticks, kastop, fin, mmvars>>

MBlobEnd ==
  /\ mpc = "bw1"
  /\ acc' = acc \ {"main"}
  /\ sink' = Emit(<<IF kind = "sse" THEN Seg("E", STok("blob", 0)) ELSE Tk("T", "blob", 0, <<>>, "-")>>)
  /\ mpc' = "returned"
  /\ UNCHANGED <<hvars, kind, n, ka, cancelled, disc, got, mtok, mu, dirty, kpc, tick, nticks, kastop, fin, uaf, mmvars>>

\* the keep-alive ticker fires (environment: any timing)
Tick ==
  /\ kind = "sse" /\ kpc \in {"idle", "w1", "f0", "f1"}
  /\ ~tick /\ nticks < MaxTicks
  /\ tick' = TRUE /\ nticks' = Count(nticks)
  /\ UNCHANGED <<hvars, kind, n, ka, sink, cancelled, disc, mpc, got, ssevars, mmvars>>

KPingBegin ==
  /\ kind = "sse" /\ kpc = "idle" /\ tick
  /\ LockWrites => mu = "free"
  /\ StopKA => ~kastop
  /\ tick' = FALSE
  /\ mu' = (IF LockWrites THEN "ka" ELSE mu)
  /\ acc' = acc \cup {"ka"}
  /\ dirty' = [dirty EXCEPT !["ka"] = (acc # {}), !["main"] = (@ \/ mpc = "w1")]
  /\ uaf' = (uaf \/ fin # "no")
  /\ sink' = Emit(<<Seg("B", STok("ping", 0))>>)
  /\ kpc' = "w1"
  /\ UNCHANGED <<hvars, kind, n, ka, cancelled, disc, mpc, got, mtok, nticks, kastop, fin, mmvars>>

KPingEnd ==
  /\ kind = "sse" /\ kpc = "w1"
  /\ acc' = acc \ {"ka"}
  /\ sink' = Emit(<<Seg("E", STok("ping", 0))>>)
  /\ kpc' = "f0"
  /\ UNCHANGED <<hvars, kind, n, ka, cancelled, disc, mpc, got, mtok, mu, dirty, tick, nticks, kastop, fin, uaf, mmvars>>

KFlushBegin ==
  /\ kind = "sse" /\ kpc = "f0"
  /\ ~LockWrites => mu = "free"
  /\ mu' = "ka"
  /\ acc' = acc \cup {"ka"}
  /\ dirty' = [dirty EXCEPT !["main"] = (@ \/ mpc = "w1")]
  /\ uaf' = (uaf \/ fin # "no")
  /\ kpc' = "f1"
  /\ UNCHANGED <<hvars, kind, n, ka, sink, cancelled, disc, mpc, got, mtok, tick, nticks, kastop, fin, mmvars>>

KFlushEnd ==
  /\ kind = "sse" /\ kpc = "f1"
  /\ acc' = acc \ {"ka"}
  /\ mu' = "free"
  /\ kpc' = "idle"
  /\ UNCHANGED <<hvars, kind, n, ka, sink, cancelled, disc, mpc, got, mtok, dirty, tick, nticks, kastop, fin, uaf, mmvars>>

\* keepAlive returns: <-ctx.Done() (select may also take a pending tick:
\* KPingBegin stays enabled), or - repaired - the connection is closed.
\* The code as it is: `c.keepAliveTicker.Stop(); return`.  KACloseOnDone (deviating design): the ctx.Done
\* branch calls c.close(): mu.Lock; closed = true; ticker.Stop; mu.Unlock - although the handler may still be writing.
KStop ==
  /\ kind = "sse" /\ kpc = "idle"
  /\ cancelled \/ (StopKA /\ kastop)
  /\ (KACloseOnDone /\ cancelled) => mu = "free"
  /\ kastop' = (kastop \/ (KACloseOnDone /\ cancelled))
  /\ kpc' = "stopped"
  /\ UNCHANGED <<hvars, kind, n, ka, sink, cancelled, disc, mpc, got, mtok, mu, acc, dirty, tick, nticks, fin, uaf, mmvars>>

\* net/http: the handler returned -> w.cancelCtx() -> w.finishRequest()
ServerCancel ==
  /\ mpc = "returned" /\ ~cancelled
  /\ cancelled' = TRUE
  /\ UNCHANGED <<hvars, kind, n, ka, sink, disc, mpc, got, tick, nticks, ssevars, mmvars>>

FinBegin ==
  /\ mpc = "returned" /\ cancelled /\ fin = "no"
  /\ fin' = "busy"
  /\ acc' = acc \cup {"srv"}
  /\ dirty' = [dirty EXCEPT !["ka"] = (@ \/ kpc = "w1")]
  /\ UNCHANGED <<hvars, kind, n, ka, sink, cancelled, disc, mpc, got, mtok, mu, kpc, tick, nticks, kastop, uaf, mmvars>>

FinEnd ==
  /\ fin = "busy"
  /\ fin' = "yes"
  /\ acc' = acc \ {"srv"}
  /\ UNCHANGED <<hvars, kind, n, ka, sink, cancelled, disc, mpc, got, mtok, mu, dirty, kpc, tick, nticks, kastop, uaf, mmvars>>

\* the client closes the connection; net/http's background read cancels the request context
Disconnect ==
  /\ Disc /\ ~disc /\ mpc \notin {"returned", "dead"}
  /\ disc' = TRUE /\ cancelled' = TRUE
  /\ UNCHANGED <<hvars, kind, n, ka, sink, mpc, got, tick, nticks, ssevars, mmvars>>

\* the request context is cancelled SERVER-SIDE while the handler is running: a deadline, a cancelling
\* middleware around handler.Server, shutdown.  The client is still connected and reading (disc unchanged).
Deadline ==
  /\ Deadl /\ ~cancelled /\ mpc \notin {"returned", "dead"}
  /\ cancelled' = TRUE
  /\ UNCHANGED <<hvars, kind, n, ka, sink, disc, mpc, got, tick, nticks, ssevars, mmvars>>

\* ------------------------------------------------------ multipart/mixed --
HN(id) == IF id < n THEN "t" ELSE "f"       \* payload 0 = initial, 1..n incremental; the last one says hasNext:false
T0(k) == Tk("T", k, 0, <<>>, "-")

\* what aggregator.flush writes for the pending payloads
FlushOut ==
  IF ~aInit /\ aDef = <<>> THEN <<>>
  ELSE LET p1 == IF aInit
                 THEN <<T0("bnd"), T0("hdr"), Tk("T", "init", 0, <<0>>, HN(0))>>
                      \o (IF aDef # <<>> THEN <<T0("bnd")>> ELSE <<>>)
                 ELSE <<>>
           p2 == IF aDef # <<>>
                 THEN <<T0("hdr"), Tk("T", "incr", 0, aDef, HN(aDef[Len(aDef)]))>>
                 ELSE <<>>
           hn == IF aDef # <<>> THEN HN(aDef[Len(aDef)]) ELSE HN(0)
       IN p1 \o p2 \o <<IF hn = "t" THEN T0("bnd") ELSE T0("close")>>

\* the code as it is encodes a payload only here, in flush: is the payload that cannot be encoded pending?
\* (mm: position 1 is the initial payload, payload id i has position i + 1)
FailIn == /\ ~MmEncodeInAdd /\ failAt > 0
          /\ \/ (aInit /\ failAt = 1)
             \/ \E i \in 1..Len(aDef) : aDef[i] + 1 = failAt
\* ... then flush panics in writeJson / writeIncrementalJson: what it wrote before that part's JSON stays
FlushOutFail ==
  IF aInit /\ failAt = 1 THEN <<T0("bnd"), T0("hdr")>>
  ELSE (IF aInit THEN <<T0("bnd"), T0("hdr"), Tk("T", "init", 0, <<0>>, HN(0)), T0("bnd")>> ELSE <<>>) \o <<T0("hdr")>>
FlushEmit == IF FailIn THEN FlushOutFail ELSE FlushOut

DoFlush ==
  /\ sink' = Emit(FlushEmit)
  /\ IF FailIn
     THEN aInit' = (aInit /\ failAt = 1) /\ aDef' = aDef   \* `a.initialResponse = nil` / `a.deferResponses = nil` come after the write
     ELSE aInit' = FALSE /\ aDef' = <<>>

\* responses(ctx) returned a payload; a.Add(resp, initial) under a.mu
MMRecvAdd ==
  /\ kind = "mm" /\ mpc = "recv" /\ got < n + 1
  /\ got' = got + 1
  /\ IF MmEncodeInAdd /\ got + 1 = failAt
     THEN \* a4760cc: Add encodes - and panics - on the handler goroutine; the deferred Done runs
          /\ mpc' = "pdsig" /\ UNCHANGED <<aInit, aDef>>
     ELSE /\ mpc' = mpc
          /\ IF got = 0 THEN aInit' = TRUE /\ aDef' = aDef
                        ELSE aDef' = Append(aDef, got) /\ aInit' = aInit
  /\ UNCHANGED <<hvars, kind, n, ka, sink, cancelled, disc, tick, nticks, ssevars, dsig, tpc>>

MMRecvNil ==
  /\ kind = "mm" /\ mpc = "recv" /\ (got = n + 1 \/ cancelled)
  /\ mpc' = "dsig"
  /\ UNCHANGED <<hvars, kind, n, ka, sink, cancelled, disc, got, tick, nticks, ssevars, mmvars>>

\* a.Done, first half: a.done <- true (buffered, never blocks)
MMDoneSig ==
  /\ kind = "mm" /\ mpc \in {"dsig", "pdsig"}
  /\ dsig' = TRUE /\ mpc' = (IF mpc = "dsig" THEN "dflush" ELSE "pdflush")
  /\ UNCHANGED <<hvars, kind, n, ka, sink, cancelled, disc, got, tick, nticks, ssevars, aInit, aDef, tpc>>

\* a.Done, second half: a.flush(w); then the handler returns
\* (a panic of this flush - the payload that cannot be encoded is pending - unwinds the handler
\* goroutine and is recovered by handler.Server: MBlobBegin, MBlobEnd)
MMDoneFlush ==
  /\ kind = "mm" /\ mpc \in {"dflush", "pdflush"}
  /\ MmEncodeInAdd => tpc = "stopped"      \* a4760cc: `<-a.stopped` between `a.done <- true` and the final flush
  /\ DoFlush
  /\ mpc' = (IF FailIn \/ mpc = "pdflush" THEN "rec" ELSE "returned")
  /\ UNCHANGED <<hvars, kind, n, ka, cancelled, disc, got, tick, nticks, ssevars, dsig, tpc>>

MMTick ==
  /\ kind = "mm" /\ tpc = "run" /\ ~tick /\ nticks < MaxTicks
  /\ tick' = TRUE /\ nticks' = Count(nticks)
  /\ UNCHANGED <<hvars, kind, n, ka, sink, cancelled, disc, mpc, got, ssevars, mmvars>>

\* ticker goroutine: case <-ticker.C: a.flush(w)
\* (a panic of this flush is on the aggregator's own goroutine: nothing recovers it, the process dies)
MMFlushTick ==
  /\ kind = "mm" /\ tpc = "run" /\ tick
  /\ tick' = FALSE
  /\ DoFlush
  /\ IF FailIn THEN crashed' = TRUE /\ mpc' = "dead" /\ tpc' = "stopped"    \* a dead process takes no further step
               ELSE UNCHANGED <<crashed, mpc, tpc>>
  /\ UNCHANGED <<failAt, req, carry, kind, n, ka, cancelled, disc, got, nticks, ssevars, dsig>>

\* ticker goroutine: case <-a.done: return
MMTickerStop ==
  /\ kind = "mm" /\ tpc = "run" /\ dsig
  /\ tpc' = "stopped"
  /\ UNCHANGED <<hvars, kind, n, ka, sink, cancelled, disc, mpc, got, tick, nticks, ssevars, aInit, aDef, dsig>>

\* -------------------------------------------------------------------------
\* ------------------------------------------------ the next request ------
\* The previous request is over (handler returned, net/http finished it, the helper goroutines have
\* ended): the SAME handler serves the next one.  Everything per-request starts afresh; `carry` is
\* what the handler keeps (nothing, unless SharedBuf).
NextRequest ==
  /\ req < MaxReq /\ ~crashed
  /\ mpc = "returned" /\ fin = "yes" /\ kpc \in {"off", "stopped"} /\ tpc = "stopped"
  /\ req' = req + 1 /\ UNCHANGED <<carry, crashed>>
  /\ \E k \in Kinds, nn \in MinN..MaxN, kk \in KASet, ff \in FailSet :
       /\ (k = "mm" => kk = FALSE) /\ FailOK(k, nn, ff)
       /\ kind' = k /\ n' = nn /\ ka' = kk /\ failAt' = ff
       /\ mpc' = (IF k = "sse" THEN "w0" ELSE "recv")
       /\ tpc' = (IF k = "mm" THEN "run" ELSE "stopped")
  /\ sink' = <<>> /\ cancelled' = FALSE /\ disc' = FALSE /\ got' = 0
  /\ mtok' = STok("pre", 0) /\ mu' = "free" /\ acc' = {}
  /\ dirty' = [p \in {"main", "ka"} |-> FALSE]
  /\ kpc' = "off" /\ tick' = FALSE /\ nticks' = 0 /\ kastop' = FALSE /\ fin' = "no" /\ uaf' = FALSE
  /\ aInit' = FALSE /\ aDef' = <<>> /\ dsig' = FALSE

\* -------------------------------------------------------------------------
SseNext ==
  \/ MWriteBegin \/ MWriteDropped \/ MWriteEnd \/ MFlushBegin \/ MFlushEnd \/ MStartKA \/ MRecv \/ MRecvNil \/ MReset \/ MClose
  \/ MEncodeFail \/ MPanicClose \/ MPFlushBegin \/ MPFlushEnd
  \/ Tick \/ KPingBegin \/ KPingEnd \/ KFlushBegin \/ KFlushEnd \/ KStop
MmNext ==
  \/ MMRecvAdd \/ MMRecvNil \/ MMDoneSig \/ MMDoneFlush \/ MMTick \/ MMFlushTick \/ MMTickerStop
Next == SseNext \/ MmNext \/ MBlobBegin \/ MBlobEnd \/ ServerCancel \/ FinBegin \/ FinEnd \/ Disconnect \/ Deadline \/ NextRequest

\* gqlgen's and net/http's own steps are fair, and so is the payload source
\* (it yields its next payload or ends; it ends promptly once its context is
\* done).  Ticks and the client are not.
Fairness ==
  /\ WF_vars(MWriteBegin) /\ WF_vars(MWriteDropped) /\ WF_vars(MWriteEnd) /\ WF_vars(MFlushBegin) /\ WF_vars(MFlushEnd)
  /\ WF_vars(MStartKA) /\ WF_vars(MRecv) /\ WF_vars(MRecvNil) /\ WF_vars(MReset) /\ WF_vars(MClose)
  /\ WF_vars(MEncodeFail) /\ WF_vars(MPanicClose) /\ WF_vars(MPFlushBegin) /\ WF_vars(MPFlushEnd)
  /\ WF_vars(MBlobBegin) /\ WF_vars(MBlobEnd)
  /\ WF_vars(KPingBegin) /\ WF_vars(KPingEnd) /\ WF_vars(KFlushBegin) /\ WF_vars(KFlushEnd) /\ WF_vars(KStop)
  /\ WF_vars(MMRecvAdd) /\ WF_vars(MMRecvNil) /\ WF_vars(MMDoneSig) /\ WF_vars(MMDoneFlush)
  /\ WF_vars(MMFlushTick) /\ WF_vars(MMTickerStop)
  /\ WF_vars(ServerCancel) /\ WF_vars(FinBegin) /\ WF_vars(FinEnd)

Spec == Init /\ [][Next]_vars /\ Fairness

\* ------------------------------------------------------------ properties --
TypeOK ==
  /\ kind \in {"sse", "mm"} /\ n \in 0..MaxN /\ ka \in BOOLEAN
  /\ mpc \in {"w0", "w1", "f0", "f1", "startka", "recv", "reset", "close", "dsig", "dflush", "returned",
             "pclose", "pf0", "pf1", "rec", "bw1", "pdsig", "pdflush", "dead"}
  /\ failAt \in 0..(MaxN + 1) /\ req \in 1..MaxReq /\ carry \in BOOLEAN /\ crashed \in BOOLEAN
  /\ got \in 0..(n + 1)
  /\ mu \in {"free", "main", "ka"} /\ acc \subseteq {"main", "ka", "srv"}
  /\ kpc \in {"off", "idle", "w1", "f0", "f1", "stopped"}
  /\ fin \in {"no", "busy", "yes"} /\ tpc \in {"run", "stopped"}

\* the race detector's property: w is never accessed by two goroutines at once
NoRace == Cardinality(acc) <= 1
\* w is never touched once net/http has started to finish the request
NoUseAfterFinish == ~uaf

IsE(x, k) == x.op = "E" /\ x.k = k
\* nothing lands inside a token: every begun write is completed before anything else begins
NoSplice ==
  \A i \in 1..Len(sink) :
    sink[i].op = "B" => \/ i = Len(sink)
                        \/ (sink[i + 1].op = "E" /\ sink[i + 1].k = sink[i].k /\ sink[i + 1].id = sink[i].id)
PreFirst ==
  kind = "sse" => /\ (Len(sink) > 0 => (sink[1].op = "B" /\ sink[1].k = "pre"))
                  /\ \A i \in 2..Len(sink) : ~(sink[i].op = "B" /\ sink[i].k = "pre")
Nexts == SelectSeq(sink, LAMBDA x : IsE(x, "next"))
\* every payload exactly once, in order
InOrder == kind = "sse" => \A j \in 1..Len(Nexts) : Nexts[j].id = j
\* exactly one `complete`, and nothing - not even a ping - after it
CompleteLast ==
  kind = "sse" => \A i \in 1..Len(sink) :
                     /\ (sink[i].op = "B" /\ sink[i].k = "complete") => i >= Len(sink) - 1
                     /\ IsE(sink[i], "complete") => i = Len(sink)
\* the request met its payload that cannot be encoded (a source that ended early on a cancelled context did not)
MetFail == failAt > 0 /\ got >= failAt
\* a stream the client did not abandon is complete: EVERY payload the operation produced (all n of them,
\* unless the source itself ended early because its context was done - MRecvNil's guard) is on the wire,
\* then `complete` - also when the request context was cancelled server-side (Deadline) on the way
SseComplete ==
  (kind = "sse" /\ mpc = "returned" /\ ~disc /\ ~MetFail) =>
     /\ Len(sink) >= 2 /\ IsE(sink[Len(sink)], "complete")
     /\ Len(Nexts) = got
     /\ (got = n \/ cancelled)
\* the stream of a request whose failAt-th payload cannot be encoded, as the code serves it today: every
\* earlier payload, then the recovered panic's bare error object; no `complete`
SseFailed ==
  (kind = "sse" /\ mpc = "returned" /\ ~disc /\ MetFail) =>
     /\ Len(sink) >= 2 /\ IsE(sink[Len(sink)], "blob")
     /\ Len(Nexts) = failAt - 1
     /\ \A i \in 1..Len(sink) : sink[i].k # "complete"
\* THE HISTORY PROPERTY: no request - in particular none that follows a failed one on the same handler -
\* ever carries an event assembled from anything but its own payload (with all the per-stream
\* invariants holding in every request of the history this is "served exactly as by a fresh handler")
NoGarbage == \A i \in 1..Len(sink) : sink[i].k # "bad"
\* a payload that cannot be encoded fails its request, never the process
NoCrash == ~crashed
\* the aggregator's ticker goroutine never outlives the handler (so it cannot write to a finished request)
MmTickerStoppedAtReturn == (kind = "mm" /\ mpc \in {"rec", "bw1", "returned"}) => tpc = "stopped"
PingsOnlyIfConfigured == (kind = "sse" /\ ~ka) => \A i \in 1..Len(sink) : sink[i].k # "ping"

\* multipart: the token automaton  ( bnd hdr json )+ with bnd / close between and at the end
RECURSIVE MmRun(_, _, _)
MmRun(s, i, st) ==
  IF i > Len(s) THEN st
  ELSE LET x == s[i] IN
       CASE st = "s0" /\ x.k = "bnd" -> MmRun(s, i + 1, "s1")
         [] st = "s1" /\ x.k = "hdr" -> MmRun(s, i + 1, "s2")
         [] st = "s2" /\ x.k \in {"init", "incr"} /\ (x.k = "init" <=> i = 3) ->
                 MmRun(s, i + 1, IF x.hn = "t" THEN "s3t" ELSE "s3f")
         [] st = "s3t" /\ x.k = "bnd" -> MmRun(s, i + 1, "s1")        \* hasNext:true is never the last part
         [] st = "s3f" /\ x.k = "close" -> MmRun(s, i + 1, "s4")      \* hasNext:false only in the last part
         [] st \in {"s0", "s1", "s2"} /\ x.k = "blob" /\ failAt > 0 -> MmRun(s, i + 1, "s5")  \* recovered encode failure ends the body
         [] OTHER -> "err"                                          \* in particular anything after the closing boundary
MmState == MmRun(sink, 1, "s0")
\* (what a dying process still put on the wire is not judged: NoCrash is the property it violates)
MmFramed == (kind = "mm" /\ ~crashed) => MmState # "err"
RECURSIVE Ids(_, _)
Ids(s, i) == IF i > Len(s) THEN <<>> ELSE (IF s[i].k \in {"init", "incr"} THEN s[i].ids ELSE <<>>) \o Ids(s, i + 1)
MmOrder == kind = "mm" => LET d == Ids(sink, 1) IN \A j \in 1..Len(d) : d[j] = j - 1
MmNoEmpty == kind = "mm" => \A i \in 1..Len(sink) : sink[i].k = "incr" => sink[i].ids # <<>>
\* every payload the operation produced is on the wire (also after a server-side cancellation), and a
\* response whose last payload (hasNext:false) was produced ends with the closing boundary.  (A source that
\* ends early on a cancelled context after saying hasNext:true leaves the body without one: its own doing.)
MmComplete ==
  (kind = "mm" /\ mpc = "returned" /\ ~disc /\ ~MetFail) =>
     /\ Len(Ids(sink, 1)) = got
     /\ (got = n + 1 \/ cancelled)
     /\ (got = n + 1 => MmState = "s4")
\* a request with a payload that cannot be encoded: the parts flushed before it are intact and in order, the
\* payload itself (and what shared its flush) never arrives, the body ends with the bare error object
MmFailed ==
  (kind = "mm" /\ mpc = "returned" /\ ~disc /\ MetFail) =>
     /\ MmState = "s5"
     /\ \A j \in 1..Len(Ids(sink, 1)) : Ids(sink, 1)[j] + 1 < failAt

\* liveness: the handler returns; the helper goroutines end; net/http finishes the request
Termination == <>(mpc = "returned")
HelpersStop == <>[](kpc \in {"off", "stopped"} /\ tpc = "stopped")
Finished == <>(fin = "yes")
=============================================================================
