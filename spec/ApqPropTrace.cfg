\* Property-level trace validation (the C15 verdict): -workers 1, depth-first queue.
SPECIFICATION TraceSpec
CONSTANTS
  Texts <- CTexts
  Valid <- CValid
  HashOf <- CHashOf
  ImplHash <- CHashOf
  AltHashes <- CAlt
  CanonOf <- CCanon
  WrongHashes <- CWrong
  Kinds <- CKinds
  Caps <- CCaps
  MalKinds <- CMal
  MalWithHash <- CMalH
  BadVers <- CBadVers
  History = TRUE
CONSTRAINT HighWater
POSTCONDITION TraceAccepted
CHECK_DEADLOCK FALSE
