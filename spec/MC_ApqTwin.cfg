\* Apq over NEAR-TWIN texts + export of the labelled state graph (both tiers).
\* Texts {q1, q1x, q2} all valid (q1x a near-twin of q1), ImplHash = HashOf (injective),
\* WrongHashes {x:rand}, AltHashes {u:q1} (upper-case spelling of q1's digest), map + LRU
\* capacity 1..2, no malformed / wrong-version forms; histories of any length.
\* Every twin sent with the digest of the other is an edge TextHashMismatch.
\* Measured: 22 distinct states, 707 generated = 3 initial + 704 edges, ~1.5 s.
SPECIFICATION Spec
CONSTANTS
  Texts <- WTexts
  Valid <- WTexts
  HashOf <- WHash
  ImplHash <- WHash
  AltHashes <- Alt1
  CanonOf <- Canon1
  WrongHashes <- Wrong1
  Kinds <- BothKinds
  Caps <- Caps12W
  MalKinds <- NoneOf
  MalWithHash <- NoneOf
  BadVers <- NoneOf
  History = FALSE
VIEW EdgeView
INVARIANTS TypeOK Bound LruOK
PROPERTIES ImplConforms ImplExtraOK CacheIsLru
ACTION_CONSTRAINT EmitEdge
CHECK_DEADLOCK FALSE
