\* Exhaustive check of Apq with the history variable `sent` (quick tier).
\* Texts {q1,q2,bad}, WrongHashes {x:rand}, map + LRU capacity 1..2, one
\* malformed kind with and one without hash, one bad version; histories of any
\* length sending at most 3 distinct <<hash,text>> pairs.
\* Measured: 57046 distinct states, 3650947 generated, 15-20 s with 4 workers.
SPECIFICATION Spec
CONSTANTS
  Texts <- QTexts
  Valid <- QValid
  HashOf <- QHash
  ImplHash <- QHash
  AltHashes <- NoAlt
  CanonOf <- NoCanon
  WrongHashes <- Wrong1
  Kinds <- BothKinds
  Caps <- Caps12
  MalKinds <- MalOne
  MalWithHash <- MalOneH
  BadVers <- VerOne
  History = TRUE
CONSTRAINT SentQ
INVARIANTS TypeOK Bound WasSent LruOK
PROPERTIES ImplConforms ImplExtraOK CacheIsLru
CHECK_DEADLOCK FALSE
