---------------------------- MODULE ApqPropTrace ----------------------------
(* PROPERTY-LEVEL trace validation for C15: this is the verdict.            *)
(*                                                                          *)
(* Every behaviour observed on the real server (the replays of the TLC      *)
(* tours and the random histories) is checked against Apq!PropRel, the      *)
(* permissive relation that says only what C15 states.  The specification   *)
(* state simply FOLLOWS the observation (cache := the OBSERVED BINDING of    *)
(* the real cache: what its public Get / Add last showed it to bind - an    *)
(* Add(k,v) and a Get hit (k,v) set k -> v, a Get miss forgets k; the real  *)
(* cache is never inspected, so ANY implementation of it is judged by its   *)
(* behaviour; sent := pairs the harness sent), so nothing the               *)
(* implementation chooses freely (recency, eviction, capacity, which cache  *)
(* operations it performs, whether and when it registers, error classes,    *)
(* version spellings) can make a trace unacceptable; a line is BAD only if  *)
(* one of the rules of PropRules is false for it.  Bad lines are printed    *)
(* with the truth value of every rule; the run never blocks.                *)
(*                                                                          *)
(* trace.ndjson:  {"e":"Reset","kind":k,"cap":n,"id":..}  then per request  *)
(*   {"e":"Req","req":{text,ext,ver,hash,mal},                              *)
(*    "out":{submit,exec,class,ops},   observed (exec: text identified by   *)
(*                                     the fields in the response data)     *)
(*    "pre":[[h,t],..], "ents":[[h,t],..], "order":[..],                    *)
(*    "pre"/"ents": observed binding before / after the request,            *)
(*    "chg":"y"|"n",     an Add of THIS request changed the observed        *)
(*                       binding (seen by the decorator, under its lock)    *)
(*    "boundok":"y"|"n"} real sha256(value) = key for every pair the real   *)
(*                       cache was shown to bind                            *)
EXTENDS Apq, TLC, Json

Trace == ndJsonDeserialize("trace.ndjson")
C     == JsonDeserialize("consts.json")
ToSet(s) == {s[i] : i \in 1..Len(s)}

CTexts   == ToSet(C.texts)
CValid   == ToSet(C.valid)
CHashOf  == C.hashOf
CWrong   == ToSet(C.wrong)
CAlt     == ToSet(C.alt)
CCanon   == C.canon
CMal     == ToSet(C.malKinds)
CMalH    == ToSet(C.malWithHash)
CBadVers == ToSet(C.badVers)
CKinds   == {"map", "lru"}
CCaps    == 1..8

VARIABLE l
tvars == <<vars, l>>

IsEvent(e) == l <= Len(Trace) /\ Trace[l].e = e /\ l' = l + 1

EntText(es, h) == es[CHOOSE i \in 1..Len(es) : es[i][1] = h][2]
CacheOf(es) == [h \in {es[i][1] : i \in 1..Len(es)} |-> EntText(es, h)]

TraceInit == InitState("map", 0) /\ l = 1 /\ TLCSet(1, 1)

TReset ==
  /\ IsEvent("Reset")
  /\ kind' = Trace[l].kind /\ cap' = Trace[l].cap
  /\ cache' = [h \in {} |-> NoText] /\ order' = <<>> /\ sent' = {}
  /\ act' = Req(NoText, "init", None, None, None)
  /\ out' = Out(None, "init", NoOps)

TReq ==
  /\ IsEvent("Req")
  /\ LET ln == Trace[l]
         o  == [submit |-> ln.out.submit, exec |-> ln.out.exec, class |-> ln.out.class, ops |-> ln.out.ops]
         c1 == CacheOf(ln.pre)
         c2 == CacheOf(ln.ents)
         s2 == SentAfter(sent, ln.req)
         rules == PropRules(c1, sent, ln.req, o, ln.chg = "y", c2, s2)
         ok == /\ PropRel(c1, sent, ln.req, o, ln.chg = "y", c2, s2)
               /\ ln.boundok = "y"
     IN /\ act' = ln.req /\ out' = o
        /\ cache' = c2 /\ order' = ln.order /\ sent' = s2
        /\ UNCHANGED <<kind, cap>>
        /\ (ok \/ PrintT(ToJson([bad |-> l, rules |-> rules, boundok |-> ln.boundok])))

TraceNext == TReset \/ TReq
TraceSpec == TraceInit /\ [][TraceNext]_tvars

HighWater == TLCSet(1, IF l > TLCGet(1) THEN l ELSE TLCGet(1))

TraceAccepted ==
  IF TLCGet(1) = Len(Trace) + 1 THEN TRUE
  ELSE /\ PrintT(<<"TRACE-REJECTED-AT", TLCGet(1)>>)
       /\ FALSE
=============================================================================
