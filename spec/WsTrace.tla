------------------------------ MODULE WsTrace ------------------------------
(* Trace validation of recorded websocket sessions (real handler.Server +   *)
(* transport.Websocket over a real socket, scripted gorilla client, gated   *)
(* Source resolvers) against the property-level module Ws.                  *)
(*                                                                          *)
(* One line per event, every line has the keys e m id i k s.  All events of *)
(* a session are appended to ONE mutex-protected log inside the process     *)
(* that runs both the server and the client, so the file order is a         *)
(* linearization of the LOG CALLS: a client message is logged before it is  *)
(* written, a frame after it was read, user-code events (Source, InitFunc,  *)
(* CloseFunc, ErrorFunc) where they happen.  Ws is written against exactly  *)
(* these conventions (Frame = "has been received"), so no step needs to be  *)
(* guessed: gqlgen's internal steps are not part of Ws at all.  A "Reset"   *)
(* line starts the next session and carries its configuration.              *)
EXTENDS Ws, Json

Trace == ndJsonDeserialize("trace.ndjson")

VARIABLE l
tvars == <<w, c, l>>

Ev == Trace[l]
IsEvent(e) == l <= Len(Trace) /\ Trace[l].e = e /\ l' = l + 1

TraceInit == w = W0 /\ c = [proto |-> "gws", initfn |-> FALSE, tmo |-> FALSE] /\ l = 1 /\ TLCSet(1, 1)

\* m = subprotocol, s = "<initfn><tmo>" as two letters t/f
TReset ==
  /\ IsEvent("Reset")
  /\ w' = W0
  /\ c' = [proto |-> Ev.m, initfn |-> (Ev.s \in {"tt", "tf"}), tmo |-> (Ev.s \in {"tt", "ft"})]

TCSend ==
  /\ IsEvent("CSend") /\ CSend_G(w, c, Ev.m, Ev.id, Ev.i)
  /\ w' = CSend_F(w, c, Ev.m, Ev.id, Ev.i, Ev.s) /\ UNCHANGED c
\* next / error frames name their instance in the payload; a completion (and the error of a start that
\* failed before execution) carries only the id: TLC chooses the instance (two can share an id only
\* under the duplicate-start deviation)
TFrame ==
  /\ IsEvent("CRecv")
  /\ IF Ev.m = "complete" \/ (Ev.m = "error" /\ (Ev.i \notin Insts(w) \/ Ev.i = "?"))
       THEN \E i \in OfId(w, Ev.id) : Frame_G(w, c, Ev.m, Ev.id, i, 0) /\ w' = Frame_F(w, Ev.m, Ev.id, i, 0)
       ELSE Frame_G(w, c, Ev.m, Ev.id, Ev.i, Ev.k) /\ w' = Frame_F(w, Ev.m, Ev.id, Ev.i, Ev.k)
  /\ UNCHANGED c
\* the end as the client sees it (k = close code).  4409 "subscriber already exists" is only justified
\* if the client did send a start for an id whose operation it had not seen terminated
TCEnd     == IsEvent("CEnd") /\ (Ev.k = 4409 => w.dupsent) /\ w' = CEnd_F(w) /\ UNCHANGED c
TInitFn   == IsEvent("InitFn") /\ InitFn_G(w, c, Ev.m) /\ w' = InitFn_F(w, Ev.m) /\ UNCHANGED c
TCloseFn  == IsEvent("CloseFn") /\ CloseFn_G(w, c) /\ w' = CloseFn_F(w) /\ UNCHANGED c
TErrFn    == IsEvent("ErrFn") /\ UNCHANGED <<w, c>>          \* ErrorFunc is not constrained by the statement
TCancel   == IsEvent("Cancel") /\ w' = SrvCancel_F(w) /\ UNCHANGED c
TSStart   == IsEvent("SStart") /\ SrcStart_G(w, c, Ev.i) /\ w' = SrcStart_F(w, Ev.i) /\ UNCHANGED c
TSEmit    == IsEvent("SEmit") /\ SrcEmit_G(w, Ev.i, Ev.k) /\ w' = SrcEmit_F(w, Ev.i) /\ UNCHANGED c
TSCancel  == IsEvent("SCancel") /\ SrcCancelSeen_G(w, c, Ev.i) /\ w' = SrcCancelSeen_F(w, Ev.i) /\ UNCHANGED c
TSExit    == IsEvent("SExit") /\ SrcExit_G(w, Ev.i, Ev.m) /\ w' = SrcExit_F(w, Ev.i, Ev.m) /\ UNCHANGED c
TStall    == IsEvent("Stall") /\ Stall_G(w, c, Ev.m, Ev.i) /\ w' = Stall_F(w, Ev.m, Ev.i) /\ UNCHANGED c
\* the last line of a session; a session that used named deviations reports them (line number, names)
TFinal    == /\ IsEvent("Final") /\ Final_G(w, c, Ev.k) /\ w' = Final_F(w, Ev.k) /\ UNCHANGED c
             /\ (Final_F(w, Ev.k).devs = {} \/ PrintT(<<"DEVS", l, Final_F(w, Ev.k).devs>>))
\* "Panic" (a panic that no Source was scripted to raise reached the RecoverFunc, e.g. gorilla's
\* "concurrent write to websocket connection"), "Race" (a data-race report of the -race build)
\* and "Garbled" (a frame that does not parse) have no action: they are never accepted.

TraceNext == TReset \/ TCSend \/ TFrame \/ TCEnd \/ TInitFn \/ TCloseFn \/ TErrFn \/ TCancel
             \/ TSStart \/ TSEmit \/ TSCancel \/ TSExit \/ TStall \/ TFinal

TraceSpec == TraceInit /\ [][TraceNext]_tvars

HighWater == TLCSet(1, IF l > TLCGet(1) THEN l ELSE TLCGet(1))
TraceAccepted ==
  IF TLCGet(1) = Len(Trace) + 1 THEN TRUE
  ELSE /\ PrintT(<<"TRACE-REJECTED-AT", TLCGet(1)>>)
       /\ FALSE

\* the invariants of the stand-alone machine also hold along every accepted trace
TraceInv == NoExecBeforeAck /\ InstGrammar /\ CloseOnce /\ CancelHasCause /\ OnePerId
=============================================================================
