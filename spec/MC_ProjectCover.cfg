\* C17, quick tier: pairwise cover of (schema feature set x configuration) + seeded rows + short evolutions.
\* Seed is overwritten by the harness (VERIF_SEED).  -workers 1 (EmitGen prints every Generate step).
\* Constants: Extra = 6 seeded rows after the 14 pairwise rows, no cube, chains of MaxEvolve = 3 Generate steps
\* from every 6th cover row, Repeat = 2 Generate steps (the second with unchanged input, action Again) in the
\* directory of every other cover row with autobindModel.  Measured (seed 1): 20 cover rows + 8 known-defect probe
\* rows, 42 Generate steps, 84 distinct states, depth 6, ~2 s; -coverage 1: Init 28, Generate 42, Evolve 6, Again 8
\* (no action at 0).  Round 5: 45 boolean factors (ifaceOrphan, schemaInExecDir), same row / step counts.
CONSTANTS
  Seed = 1
  Extra = 6
  Cube = FALSE
  MaxEvolve = 3
  Repeat = 2
  EvolveEvery = 6
SPECIFICATION Spec
INVARIANTS TypeOK Total Outcome
ACTION_CONSTRAINT EmitGen
CHECK_DEADLOCK FALSE
