\* C17, quick tier: pairwise cover of (schema feature set x configuration) + seeded rows + short evolutions.
\* Seed is overwritten by the harness (VERIF_SEED).  -workers 1 (EmitGen prints every Generate step).
\* Measured: see notes/C17.md
CONSTANTS
  Seed = 1
  Extra = 6
  Cube = FALSE
  MaxEvolve = 3
  EvolveEvery = 6
SPECIFICATION Spec
INVARIANTS TypeOK Total Outcome
ACTION_CONSTRAINT EmitGen
CHECK_DEADLOCK FALSE
