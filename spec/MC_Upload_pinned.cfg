\* C10 - Upload with the PINNED tree's AddUpload (unchecked assertions and indexing, DESIGN 7 #7).
\* NoPanicPath is deliberately NOT listed: this configuration checks DeviationIsReal - the inputs
\* on which the pinned walk panics are exactly those Dev() names, and every one of them is an
\* input the property refuses or leaves open (never a well-formed upload).  Adding NoPanicPath
\* yields the counterexamples (e.g. walk <<[c |-> "obj", s |-> "name", kid |-> "l1"], [c |-> "l1", s |-> "big"]>>).
CONSTANTS
  MaxParts = 3
  Depth = 3
  Modes = {"order", "path", "content", "cut", "size"}
  FixWalk = FALSE
INIT Init
NEXT Next
VIEW view
CHECK_DEADLOCK FALSE
INVARIANTS
  TypeOK
  TempFilesRemoved
  TempOnlyWhenSpilling
  DeliversMapped
  OverLimitRefused
  DeviationIsReal
