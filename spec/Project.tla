------------------------------- MODULE Project -------------------------------
(***************************************************************************)
(* A gqlgen PROJECT over time (DESIGN appendix A.5): schema files, the     *)
(* configuration (layouts; whether autobind lists the model output         *)
(* package), the user's resolver files (methods, helper declarations, the  *)
(* root resolver struct, imports, the trailing "!!! WARNING !!!" block of  *)
(* the last run), the fingerprint of the generated output.  User actions   *)
(* edit schema and Go sources; Generate(seed, startDir, procs) is the      *)
(* generator run.  Init is a freshly generated project, so every Generate  *)
(* of a history runs on the tree that holds the previous output.           *)
(*                                                                         *)
(* Generate is written the way plugin/resolvergen + internal/rewrite       *)
(* behave (which file is rewritten, which earlier declaration a method is  *)
(* copied from, what becomes "remaining source").  The PROPERTIES are      *)
(* stated separately, over pre/post states only, and TLC checks that the   *)
(* design satisfies them:                                                  *)
(*   C19  MethodsKept, ImportsKept, DeclsKept, FilesParse, CompileKept,    *)
(*        and the same under repetition (they are action properties, so    *)
(*        they hold for every Generate step of every history)              *)
(*   C18  Deterministic (gen' = F(schema, cfg); the parameters seed,       *)
(*        startDir, procs are not read), Idempotent (a Generate step with  *)
(*        nothing edited since the previous one changes nothing but the    *)
(*        warning block, whose content is by design that of the last run)  *)
(*   C17  GenerateTotal (enabled in every reachable state) and GenerateOK  *)
(*        (yields ok; "compiles" is tracked by comp where the statement    *)
(*        demands it - type-correctness itself is decided by the Go        *)
(*        compiler, outside TLA+)                                          *)
(*                                                                         *)
(* Deviations of the pinned tree from these properties are NAMED and       *)
(* switched on by the constant Dev (a set of names); with Dev = {} the     *)
(* module is the intended design and all properties hold, with Dev # {}    *)
(* it is the pinned tree (used to generate the behaviours replayed into    *)
(* the real generator).  The VERDICT about the real generator never uses   *)
(* that model: ProjectStep.tla evaluates the postconditions below (the     *)
(* ...P operators) of the intended design on every observed step, and only *)
(* uses GenResult(D) to NAME the deviation that explains a violating step. *)
(*                                                                         *)
(* Tokens are abstract; the harness concretises them (seeded pools of      *)
(* adversarial Go bodies, doc comments, helper declarations, imports) and  *)
(* projects the real tree back with go/parser.                             *)
(***************************************************************************)
EXTENDS Naturals, FiniteSets, Sequences, TLC, Json

CONSTANTS
  Files,       \* schema files that can hold resolver fields, e.g. {"a","b"}
  FileOrder,   \* all resolver files in the order go/packages lists them, e.g. <<"a","b","resolver">>
  Pairs,       \* resolver fields "Type_field" (strings)
  TypeOf,      \* [Pairs -> type name]
  RootTypes,   \* types that cannot be removed ({"Query"})
  Edits,       \* set of [body, doc, named] records EditBody may write
  EncToks,     \* file encodings the user's editor may re-save a resolver file with ("crlf", "mixed", "nonl", "bom")
  HelperToks,  \* helper declaration tokens
  ImportToks,  \* import tokens
  CmtToks,     \* body / helper tokens whose source text contains a "/* ... */" comment
  NeverPruned, \* import tokens that imports.Prune never removes (dot and blank imports)
  RootToks,    \* customisations of the root resolver struct `type Resolver struct{...}` in resolver.go the user may
               \* write ("rf": fields added, "re": embedded types + doc comment, ...)
  Cfgs,        \* set of configurations [rl |-> "single"|"follow", el |-> "single"|"follow", ab |-> "none"|"model"|"hand"]
               \* rl / el: resolver / exec layout; ab: `autobind:` lists the MODEL OUTPUT PACKAGE itself ("model": the
               \* package only holds a doc file next to models_gen.go, "hand": it also holds a hand-written model that
               \* a schema type binds to) - every Generate of a history then loads the previous models_gen.go's package;
               \* "exec": autobind lists the EXEC package and the schema has a type named like a top-level identifier
               \* of generated.go (Config) - every Generate then loads the package holding the previous generated.go
  ImpPairs,    \* fields whose resolver bodies may use user imports (bounds AddImport; Pairs = no restriction)
  InitSchemas, \* schemas a history may start from (the project has just been generated for the first time)
  MaxHist,     \* bound on the history length (finitises the model)
  Dev          \* enabled deviations, subset of AllDevs

AllDevs == {"warnNesting", "aliasSuffix", "aliasReserved", "blank2", "docDirective", "staleFile", "rootLeftover"}

VARIABLES
  schema,   \* [Pairs -> Files \cup {"none"}] : schema file that declares the field
  texists,  \* [non-root types -> BOOLEAN]   : the type is declared
  cfg,      \* element of Cfgs, fixed at Init
  meth,     \* [RFiles -> [Pairs -> MethRec]]: resolver method declarations per resolver file
  root,     \* declaration of the root resolver type in resolver.go: "gen" (the template's `type Resolver struct{}`)
            \* or a token of RootToks (the user customised it: fields, embedded types, doc comment)
  helpers,  \* [RFiles -> SUBSET HelperToks] : other declarations per resolver file
  imports,  \* [RFiles -> SUBSET ImportToks]
  warn,     \* [RFiles -> SUBSET WarnTok]    : content of the trailing WARNING block in the file
  gen,      \* fingerprint of exec / model output: a function of (schema, texists, cfg) only
  ok,       \* last Generate succeeded and every file it wrote parses
  comp,     \* "yes": the statements demand that the package compiles now; "unk": they do not
  dirty,    \* edits since the last Generate: "clean" < "go" (Go sources only) < "adds" (fields added) < "other"
  enc,      \* [RFiles -> "lf" | EncToks]: line endings / BOM / missing final newline of the resolver file
  n,        \* history length
  act       \* label of the last step (observation only)

vars == <<schema, texists, cfg, meth, root, helpers, imports, warn, gen, ok, comp, dirty, enc, n, act>>

RFiles   == Files \cup {"resolver"}
Types    == {TypeOf[p] : p \in Pairs}
NonRoot  == Types \ RootTypes
NoMeth   == [body |-> "none", doc |-> "none", named |-> FALSE, uses |-> {}]
Default  == [body |-> "gen",  doc |-> "gen",  named |-> FALSE, uses |-> {}]
HTok(h)    == [k |-> "h", id |-> h, body |-> "-",    named |-> FALSE,   uses |-> {}]
MTok(p, m) == [k |-> "m", id |-> p, body |-> m.body, named |-> m.named, uses |-> m.uses]
\* the declaration of the root resolver type inside a WARNING block: id = "gen" for the template's own
\* `type Resolver struct{}` (deviation "rootLeftover"), else the user's customisation
RootTok(t) == [k |-> "r", id |-> t, body |-> "-", named |-> FALSE, uses |-> {}]
HasCmt(t)  == (t.k = "h" /\ t.id \in CmtToks) \/ (t.k = "m" /\ t.body \in CmtToks)

Has(f, p)   == meth[f][p].body # "none"
Live(p)     == schema[p] # "none"
Holders(p)  == {f \in RFiles : Has(f, p)}
FirstOf(S)  == FileOrder[CHOOSE i \in 1..Len(FileOrder) :
                  FileOrder[i] \in S /\ \A j \in 1..(i-1) : FileOrder[j] \notin S]
Fingerprint == [s |-> schema, t |-> texists, c |-> cfg]
Max3(a, b)  == LET r(x) == CASE x = "clean" -> 0 [] x = "go" -> 1 [] x = "adds" -> 2 [] OTHER -> 3
               IN IF r(a) >= r(b) THEN a ELSE b
OnlyMethods == (\A f \in RFiles : helpers[f] = {}) /\ root = "gen"

\* a freshly generated project: every live field has the template's default resolver in its file
Init ==
  /\ schema \in InitSchemas
  /\ texists = [t \in NonRoot |-> TRUE]
  /\ cfg \in Cfgs
  /\ meth    = [f \in RFiles |-> [p \in Pairs |->
                   IF schema[p] # "none" /\ f = (IF cfg.rl = "single" THEN "resolver" ELSE schema[p])
                   THEN Default ELSE NoMeth]]
  /\ root    = "gen"
  /\ helpers = [f \in RFiles |-> {}]
  /\ imports = [f \in RFiles |-> {}]
  /\ warn    = [f \in RFiles |-> {}]
  /\ gen     = [s |-> schema, t |-> texists, c |-> cfg]
  /\ ok = TRUE /\ comp = "yes" /\ dirty = "clean" /\ n = 0
  /\ enc = [f \in RFiles |-> "lf"]
  /\ act = [name |-> "Init"]

Step  == ok /\ n < MaxHist /\ n' = n + 1

----------------------------------------------------------------------------
(* user edits of Go sources *)

EditBody(f, p, e) ==
  /\ Step /\ Has(f, p)
  /\ [body |-> meth[f][p].body, doc |-> meth[f][p].doc, named |-> meth[f][p].named] # e
  /\ meth' = [meth EXCEPT ![f][p] = [body |-> e.body, doc |-> e.doc, named |-> e.named, uses |-> @.uses]]
  /\ dirty' = Max3(dirty, "go")
  /\ act' = [name |-> "EditBody", f |-> f, p |-> p, e |-> e]
  /\ UNCHANGED <<schema, texists, cfg, root, helpers, imports, warn, gen, ok, comp, enc>>

AddHelper(f, h) ==
  /\ Step /\ (\E p \in Pairs : Has(f, p)) /\ h \notin helpers[f]
  /\ helpers' = [helpers EXCEPT ![f] = @ \cup {h}]
  /\ dirty' = Max3(dirty, "go")
  /\ act' = [name |-> "AddHelper", f |-> f, h |-> h]
  /\ UNCHANGED <<schema, texists, cfg, meth, root, imports, warn, gen, ok, comp, enc>>

\* the user imports i in file f and uses it in the body of method p
AddImport(f, p, i) ==
  /\ Step /\ Has(f, p) /\ p \in ImpPairs /\ i \notin meth[f][p].uses
  /\ imports' = [imports EXCEPT ![f] = @ \cup {i}]
  /\ meth' = [meth EXCEPT ![f][p].uses = @ \cup {i}]
  /\ dirty' = Max3(dirty, "go")
  /\ act' = [name |-> "AddImport", f |-> f, p |-> p, i |-> i]
  /\ UNCHANGED <<schema, texists, cfg, root, helpers, warn, gen, ok, comp, enc>>

\* the user's editor re-saves resolver file f with another encoding (CRLF / mixed line endings, no final
\* newline, UTF-8 BOM): the code is the same code, so nothing else changes - and Generate must cope
Resave(f, e) ==
  /\ Step /\ (\E p \in Pairs : Has(f, p)) /\ enc[f] # e
  /\ enc' = [enc EXCEPT ![f] = e]
  /\ dirty' = Max3(dirty, "go")
  /\ act' = [name |-> "Resave", f |-> f, en |-> e]
  /\ UNCHANGED <<schema, texists, cfg, meth, root, helpers, imports, warn, gen, ok, comp>>

\* the user customises the root resolver struct in resolver.go (adds fields / embeds a type / attaches a doc
\* comment): in the follow-schema layout resolver.go is never rewritten, in the single-file layout it is
EditRoot(t) ==
  /\ Step /\ t \in RootToks /\ root # t
  /\ root' = t
  /\ dirty' = Max3(dirty, "go")
  /\ act' = [name |-> "EditRoot", rt |-> t]
  /\ UNCHANGED <<schema, texists, cfg, meth, helpers, imports, warn, gen, ok, comp, enc>>

(* user edits of the schema *)

AddField(p, sf) ==
  /\ Step /\ ~Live(p)
  /\ schema' = [schema EXCEPT ![p] = sf]
  /\ texists' = IF TypeOf[p] \in NonRoot THEN [texists EXCEPT ![TypeOf[p]] = TRUE] ELSE texists
  /\ dirty' = Max3(dirty, "adds")
  /\ act' = [name |-> "AddField", p |-> p, sf |-> sf]
  /\ UNCHANGED <<cfg, meth, root, helpers, imports, warn, gen, ok, comp, enc>>

RemoveField(p) ==
  /\ Step /\ Live(p)
  /\ schema' = [schema EXCEPT ![p] = "none"]
  /\ dirty' = "other"
  /\ act' = [name |-> "RemoveField", p |-> p]
  /\ UNCHANGED <<texists, cfg, meth, root, helpers, imports, warn, gen, ok, comp, enc>>

RenameField(p, q) ==
  /\ Step /\ Live(p) /\ ~Live(q) /\ p # q /\ TypeOf[p] = TypeOf[q]
  /\ schema' = [schema EXCEPT ![q] = schema[p], ![p] = "none"]
  /\ dirty' = "other"
  /\ act' = [name |-> "RenameField", p |-> p, q |-> q]
  /\ UNCHANGED <<texists, cfg, meth, root, helpers, imports, warn, gen, ok, comp, enc>>

MoveField(p, sf) ==
  /\ Step /\ Live(p) /\ schema[p] # sf
  /\ schema' = [schema EXCEPT ![p] = sf]
  /\ dirty' = "other"
  /\ act' = [name |-> "MoveField", p |-> p, sf |-> sf]
  /\ UNCHANGED <<texists, cfg, meth, root, helpers, imports, warn, gen, ok, comp, enc>>

RemoveType(t) ==
  /\ Step /\ t \in NonRoot /\ texists[t]
  /\ schema' = [p \in Pairs |-> IF TypeOf[p] = t THEN "none" ELSE schema[p]]
  /\ texists' = [texists EXCEPT ![t] = FALSE]
  /\ dirty' = "other"
  /\ act' = [name |-> "RemoveType", t |-> t]
  /\ UNCHANGED <<cfg, meth, root, helpers, imports, warn, gen, ok, comp, enc>>

----------------------------------------------------------------------------
(* The generator run.  GenResult(D) is the successor under deviation set D. *)

Tgt(p)  == IF cfg.rl = "single" THEN "resolver" ELSE schema[p]
Prev(p) == IF Holders(p) = {} THEN "none" ELSE FirstOf(Holders(p))

\* Files the run rewrites.  Intended design: every resolver file that has live fields OR still holds
\* declarations / a warning block (so that a file whose last field went away is cleaned up).
\* Deviation "staleFile" (pinned tree, follow-schema): only files with live fields are rewritten; a
\* file that lost its last resolver field is left behind untouched.
HasContent(f) == (\E p \in Pairs : Has(f, p)) \/ helpers[f] # {} \/ warn[f] # {}
RegenOf(D) == IF cfg.rl = "single" THEN {"resolver"}
              ELSE {schema[p] : p \in {q \in Pairs : Live(q)}} \cup
                   (IF "staleFile" \in D THEN {} ELSE {f \in Files : HasContent(f)})

\* a declaration of p in file f is carried into the new output iff p is live and f is the first holder
Copied(f, p) == Has(f, p) /\ Live(p) /\ Prev(p) = f

Carry(m, D) ==
  [m EXCEPT !.doc = IF m.doc = "none" THEN "gen"                        \* a missing doc comment is replaced by the template comment
                    ELSE IF "docDirective" \in D /\ m.doc = "dd" THEN "ddx"   \* deviation: directive lines of the doc comment are dropped
                    ELSE m.doc]

NewMeth(f, p, D) ==
  IF f \notin RegenOf(D) THEN meth[f][p]
  ELSE IF Live(p) /\ Tgt(p) = f
       THEN (IF Prev(p) = "none" THEN Default ELSE Carry(meth[Prev(p)][p], D))
       ELSE NoMeth

Leftover(f) == {HTok(h) : h \in helpers[f]} \cup
               {MTok(p, meth[f][p]) : p \in {q \in Pairs : Has(f, q) /\ ~Copied(f, q)}}

DroppedImports(f, D) ==
  (IF "aliasSuffix"   \in D THEN {"asfx"} ELSE {}) \cup
  (IF "aliasReserved" \in D THEN {"arsv"} ELSE {}) \cup
  (IF "blank2" \in D /\ "blank" \in imports[f] THEN {"blank2"} ELSE {})

NewImports(f, D) ==
  IF f \notin RegenOf(D) THEN imports[f]
  ELSE {i \in imports[f] : i \in NeverPruned \/ \E p \in Pairs : i \in NewMeth(f, p, D).uses} \ DroppedImports(f, D)

\* The root resolver type.  Intended design: the existing declaration is carried over as it is (whatever the
\* user made of it).  Deviation "rootLeftover" (pinned tree, single-file layout): the existing declaration is
\* not marked as copied, so every run on an existing resolver.go puts it into the WARNING block and the
\* template emits a fresh `type Resolver struct{}`: the first re-run of a freshly generated project changes the
\* file, and a customised root struct moves into the comment (REPEATED there - not lost).
RootMoves(D) == "rootLeftover" \in D /\ cfg.rl = "single"
NewRoot(D)   == IF RootMoves(D) THEN "gen" ELSE root
WarnOf(f, D) == Leftover(f) \cup (IF RootMoves(D) /\ f = "resolver" THEN {RootTok(root)} ELSE {})

Broken(D) == "warnNesting" \in D /\ \E f \in RegenOf(D) : \E t \in Leftover(f) : HasCmt(t)

\* deviations that change the outcome of this run
Fired(D) ==
  {d \in D :
     \/ d = "warnNesting" /\ Broken(D)
     \/ d \in {"aliasSuffix", "aliasReserved", "blank2"} /\ \E f \in RFiles : NewImports(f, D) # NewImports(f, D \ {d})
     \/ d = "docDirective" /\ \E f \in RFiles, p \in Pairs : NewMeth(f, p, D) # NewMeth(f, p, D \ {"docDirective"})
     \/ d = "staleFile" /\ RegenOf(D) # RegenOf({})
     \/ d = "rootLeftover" /\ cfg.rl = "single"}

\* deviations after which the package does not compile (the kept body references a lost import / a file does not parse)
CompBreaking == {"warnNesting", "aliasSuffix", "aliasReserved"}

AddsOnly == dirty # "other" /\ OnlyMethods

GenResult(D) ==
  IF Broken(D)
  THEN [meth |-> meth, root |-> root, helpers |-> helpers, imports |-> imports, warn |-> warn, ok |-> FALSE, comp |-> "no"]
  ELSE [meth    |-> [f \in RFiles |-> [p \in Pairs |-> NewMeth(f, p, D)]],
        root    |-> NewRoot(D),
        helpers |-> [f \in RFiles |-> IF f \in RegenOf(D) THEN {} ELSE helpers[f]],
        imports |-> [f \in RFiles |-> NewImports(f, D)],
        warn    |-> [f \in RFiles |-> IF f \in RegenOf(D) THEN WarnOf(f, D) ELSE warn[f]],
        ok      |-> TRUE,
        comp    |-> IF Fired(D) \cap CompBreaking # {} THEN "no"
                    ELSE IF comp = "yes" /\ AddsOnly THEN "yes" ELSE "unk"]

Generate(seed, dir, procs) ==
  /\ Step
  /\ LET r == GenResult(Dev) IN
     /\ meth' = r.meth /\ root' = r.root /\ helpers' = r.helpers /\ imports' = r.imports /\ warn' = r.warn
     /\ ok' = r.ok /\ comp' = r.comp
     /\ act' = [name |-> "Generate", seed |-> seed, dir |-> dir, procs |-> procs,
                devs |-> Fired(Dev), regen |-> RegenOf(Dev), addsOnly |-> AddsOnly, wasClean |-> (dirty = "clean")]
  /\ enc' = [f \in RFiles |-> IF f \in RegenOf(Dev) THEN "lf" ELSE enc[f]]   \* rewritten files are gofmt output
  /\ gen' = Fingerprint          \* C18: a function of (schema, texists, cfg) only
  /\ dirty' = "clean"
  /\ UNCHANGED <<schema, texists, cfg>>

Seeds == {"s1"}   \* the parameters are not read; one representative each keeps the graph small,
Dirs  == {"."}    \* the harness varies them concretely (C18)
Procs == {"p1"}

GenerateAny == \E s \in Seeds, d \in Dirs, pr \in Procs : Generate(s, d, pr)

Next ==
  \/ \E f \in RFiles, p \in Pairs, e \in Edits : EditBody(f, p, e)
  \/ \E f \in RFiles, h \in HelperToks : AddHelper(f, h)
  \/ \E f \in RFiles, p \in Pairs, i \in ImportToks : AddImport(f, p, i)
  \/ \E f \in RFiles, e \in EncToks : Resave(f, e)
  \/ \E t \in RootToks : EditRoot(t)
  \/ \E p \in Pairs, sf \in Files : AddField(p, sf)
  \/ \E p \in Pairs : RemoveField(p)
  \/ \E p \in Pairs, q \in Pairs : RenameField(p, q)
  \/ \E p \in Pairs, sf \in Files : MoveField(p, sf)
  \/ \E t \in NonRoot : RemoveType(t)
  \/ GenerateAny

Spec == Init /\ [][Next]_vars

----------------------------------------------------------------------------
(* Invariants *)

MethRecOK(m) == /\ m.body \in {"none", "gen"} \cup {e.body : e \in Edits}
                /\ m.doc \in {"none", "gen", "ddx"} \cup {e.doc : e \in Edits}
                /\ m.named \in BOOLEAN /\ m.uses \subseteq ImportToks

TypeOK ==
  /\ schema \in [Pairs -> Files \cup {"none"}]
  /\ texists \in [NonRoot -> BOOLEAN]
  /\ cfg \in Cfgs
  /\ \A f \in RFiles, p \in Pairs : MethRecOK(meth[f][p])
  /\ root \in {"gen"} \cup RootToks
  /\ \A f \in RFiles : helpers[f] \subseteq HelperToks /\ imports[f] \subseteq ImportToks
  /\ ok \in BOOLEAN /\ comp \in {"yes", "unk", "no"} /\ dirty \in {"clean", "go", "adds", "other"}
  /\ enc \in [RFiles -> {"lf"} \cup EncToks]
  /\ n \in 0..MaxHist

\* a field of a removed type is not live
SchemaOK == \A p \in Pairs : Live(p) /\ TypeOf[p] \in NonRoot => texists[TypeOf[p]]

\* with the single-file layout everything lives in "resolver"
LayoutOK == cfg.rl = "single" => \A f \in Files : (\A p \in Pairs : ~Has(f, p)) /\ helpers[f] = {} /\ imports[f] = {} /\ warn[f] = {}

\* C17: the generator can always be run (until a run broke the project)
GenerateTotal == (ok /\ n < MaxHist) => ENABLED GenerateAny

----------------------------------------------------------------------------
(* The statements as POSTCONDITIONS of a Generate step: predicates over the pre-state (the variables)   *)
(* and a post record r = [meth, helpers, imports, warn, ok, comp].  They are used twice:                *)
(*   - as action properties of this module (r = the successor TLC computes): the DESIGN satisfies them; *)
(*   - by ProjectStep.tla on OBSERVED steps of the real generator (r = go/parser projection of the real  *)
(*     tree after the run): the property-level VERDICT of C19 / C18, independent of what any model of   *)
(*     the implementation predicted for that step.                                                       *)

GenStep == act'.name = "Generate" /\ n' = n + 1
PostRec(me, ro, he, im, wa, o, co) == [meth |-> me, root |-> ro, helpers |-> he, imports |-> im, warn |-> wa, ok |-> o, comp |-> co]
SameCode(a, b) == a.body = b.body /\ a.named = b.named /\ a.uses = b.uses
SameDoc(a, b)  == a.doc = "none" \/ a.doc = b.doc

\* C19: a method whose field still exists (and that is declared once) keeps body, doc, named results
MethodsKeptP(r) ==
  \A p \in Pairs : (Live(p) /\ Cardinality(Holders(p)) = 1) =>
     \E g \in RFiles : /\ r.meth[g][p].body # "none"
                       /\ SameCode(meth[Prev(p)][p], r.meth[g][p]) /\ SameDoc(meth[Prev(p)][p], r.meth[g][p])

\* C19: every live field has a resolver method afterwards (resolver stubs are complete)
StubsCompleteP(r) == r.ok => \A p \in Pairs : Live(p) => r.meth[Tgt(p)][p].body # "none"

\* C19: an import that the surviving methods of its file still use (or that is never pruned) is kept
ImportsKeptP(r) ==
  \A f \in RFiles : \A i \in imports[f] :
     (i \in NeverPruned \/ \E p \in Pairs : r.meth[f][p].body # "none" /\ i \in r.meth[f][p].uses) => i \in r.imports[f]

\* C19: the code of every other declaration is still present in the output of that run:
\*      as a declaration of some resolver file, or inside the warning block of its file.
\*      That includes TYPE declarations and among them the root resolver struct the user customised:
\*      kept in place, or REPEATED in the warning block of resolver.go - never replaced by an empty struct
DeclsKeptP(r) ==
  /\ root # "gen" => (r.root = root \/ RootTok(root) \in r.warn["resolver"])
  /\ \A f \in RFiles : \A h \in helpers[f] : h \in r.helpers[f] \/ HTok(h) \in r.warn[f]
  /\ \A f \in RFiles : \A p \in Pairs : Has(f, p) =>
        \/ \E g \in RFiles : r.meth[g][p].body # "none" /\ SameCode(meth[f][p], r.meth[g][p])
        \/ MTok(p, meth[f][p]) \in r.warn[f]

\* C19 / C17: the run succeeds and every file parses
FilesParseP(r) == r.ok

\* C19: files held only resolver methods and the change only added fields: compiled before => compiles after
\*      (comp: "yes" compiles, "no" does not, "unk" not known / not demanded)
CompileKeptP(r) == (comp = "yes" /\ AddsOnly) => r.comp # "no"

\* C18: nothing edited since the last run => the run changes nothing; the WARNING block is by design the
\*      content of the last run only, so a file may lose its block - but nothing may be added to it
IdempotentP(r) ==
  dirty = "clean" =>
     /\ r.meth = meth /\ r.root = root /\ r.helpers = helpers /\ r.imports = imports /\ r.ok = ok
     /\ \A f \in RFiles : r.warn[f] = {} \/ r.warn[f] = warn[f]

PropNames == {"MethodsKept", "StubsComplete", "ImportsKept", "DeclsKept", "FilesParse", "CompileKept", "Idempotent"}
Holds(name, r) ==
  CASE name = "MethodsKept"   -> MethodsKeptP(r)
    [] name = "StubsComplete" -> StubsCompleteP(r)
    [] name = "ImportsKept"   -> ImportsKeptP(r)
    [] name = "DeclsKept"     -> DeclsKeptP(r)
    [] name = "FilesParse"    -> FilesParseP(r)
    [] name = "CompileKept"   -> CompileKeptP(r)
    [] name = "Idempotent"    -> IdempotentP(r)
Viol(r) == {name \in PropNames : ~Holds(name, r)}

MethodsKept   == [][GenStep => MethodsKeptP(PostRec(meth', root', helpers', imports', warn', ok', comp'))]_vars
StubsComplete == [][GenStep => StubsCompleteP(PostRec(meth', root', helpers', imports', warn', ok', comp'))]_vars
ImportsKept   == [][GenStep => ImportsKeptP(PostRec(meth', root', helpers', imports', warn', ok', comp'))]_vars
DeclsKept     == [][GenStep => DeclsKeptP(PostRec(meth', root', helpers', imports', warn', ok', comp'))]_vars
FilesParse    == [][GenStep => FilesParseP(PostRec(meth', root', helpers', imports', warn', ok', comp'))]_vars
CompileKept   == [][GenStep => CompileKeptP(PostRec(meth', root', helpers', imports', warn', ok', comp'))]_vars
Idempotent    == [][GenStep => IdempotentP(PostRec(meth', root', helpers', imports', warn', ok', comp')) /\ (dirty = "clean" => gen' = gen)]_vars

\* C18: the output fingerprint is a function of (schema, cfg); nothing else is read
Deterministic == [][GenStep => gen' = [s |-> schema', t |-> texists', c |-> cfg']]_vars
GenIsFunction == gen = [s |-> gen.s, t |-> gen.t, c |-> cfg] /\ (dirty = "clean" => gen = Fingerprint)

\* properties restricted to steps on which no deviation fired (edge export with Dev # {})
NoDevStep == GenStep /\ act'.devs = {}
MethodsKeptND == [][NoDevStep => MethodsKeptP(PostRec(meth', root', helpers', imports', warn', ok', comp'))]_vars
FilesParseND  == [][NoDevStep => ok']_vars

(* Explaining an observed (or modelled) post record by named deviations: the smallest D for which the  *)
(* implementation-level successor GenResult(D) has the same resolver part; Blame(name, D): the members  *)
(* of D that break the property by themselves (else: without which it would hold).                     *)
ResPart(r) == [meth |-> r.meth, root |-> r.root, helpers |-> r.helpers, imports |-> r.imports, warn |-> r.warn, ok |-> r.ok]
Explaining(r) == {D \in SUBSET AllDevs : ResPart(GenResult(D)) = ResPart(r)}
Smallest(Ds)  == CHOOSE D \in Ds : \A E \in Ds : Cardinality(D) <= Cardinality(E)
Blame(name, D) ==
  LET alone   == {d \in D : ~Holds(name, GenResult({d}))}          \* d by itself breaks the property
      needed  == {d \in D : Holds(name, GenResult(D \ {d}))}       \* without d the property would hold
  IN IF alone # {} THEN alone ELSE IF needed # {} THEN needed ELSE D

----------------------------------------------------------------------------
(* labelled edges of the state graph for replay into the real generator *)

Proj(sc, te, cf, me, ro, he, im, wa, ge, o, co, di, en) ==
  [schema |-> sc, texists |-> te, cfg |-> cf, meth |-> me, root |-> ro, helpers |-> he, imports |-> im, warn |-> wa,
   gen |-> ge, ok |-> o, comp |-> co, dirty |-> di, enc |-> en]

EmitEdge ==
  PrintT(ToJson([s |-> Proj(schema, texists, cfg, meth, root, helpers, imports, warn, gen, ok, comp, dirty, enc),
                 a |-> act',
                 t |-> Proj(schema', texists', cfg', meth', root', helpers', imports', warn', gen', ok', comp', dirty', enc')]))

\* prints the initial states (CONSTRAINT in the edge-export configurations)
EmitInit == (n = 0) => PrintT(ToJson([init |-> Proj(schema, texists, cfg, meth, root, helpers, imports, warn, gen, ok, comp, dirty, enc)]))

\* exhaustive configurations: the history length and the label are not part of the state identity
View == <<schema, texists, cfg, meth, root, helpers, imports, warn, gen, ok, comp, dirty, enc>>
=============================================================================
