\* C07 negative: mergeHeaders completes the configured ResponseHeaders map in place (expected: Isolation violated -
\* the second request on a server configured with headers that name no Content-Type gets the first one's media type)
CONSTANTS
  Requests <- RequestsHdr
  ResetFields <- AllSix
  ResetEarly = FALSE
  CacheKey = "full"
  PoolMax = 1
  Slots = 1
  Configs <- CfgAll
  MergeInPlace = TRUE
  BufPool = FALSE
  TrackNeg = FALSE
  Once = FALSE
  WsScript <- WsNone
  WsPings = 0
  WsSharedMsg = FALSE
INIT Init
NEXT Next
VIEW view
CHECK_DEADLOCK FALSE
INVARIANTS OwnParams Isolation CacheTransparent
