\* the known deviation 'scalar-list-null-element-error-at-list-path' admitted (see GqlRef)
SPECIFICATION TraceSpec
CONSTANT Schema <- SchemaFile
CONSTRAINT HighWater
INVARIANT TypeOK
POSTCONDITION TraceAccepted
CHECK_DEADLOCK FALSE
CONSTANT LeafElemErrAtList = TRUE
