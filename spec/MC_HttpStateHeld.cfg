\* C07 - three requests in flight, one per slot (Once): every interleaving of all steps of HeldSeq[1..3], in
\* particular every order of their Execute and Write steps (a response HELD between execution and write while
\* the others execute).  EmitSched prints the schedule graph (phase per slot: pre / held / written); its maximal
\* paths are the orders the harness drives real concurrent requests through (-workers 1).
\* Measured: 1,370 distinct states, depth 27, 54 schedule edges over 27 phase vectors, 90 maximal paths, 1.5 s.
CONSTANTS
  Requests <- RequestsHeld
  ResetFields <- AllSix
  ResetEarly = FALSE
  CacheKey = "full"
  PoolMax = 2
  Slots = 3
  Configs <- CfgXsb
  MergeInPlace = FALSE
  BufPool = FALSE
  TrackNeg = FALSE
  Once = TRUE
  WsScript <- WsNone
  WsPings = 0
  WsSharedMsg = FALSE
INIT Init
NEXT Next
VIEW view
CHECK_DEADLOCK FALSE
CONSTRAINT HeldAssign
INVARIANTS TypeOK OwnParams Isolation WriteOwn ConfigImmutable ApqOnlyHashOnly CacheTransparent PoolClean
ACTION_CONSTRAINT EmitSched
