\* C12, HISTORIES: two requests one after the other on the same handler, the code as it is
\* (SharedBuf = FALSE; multipart since a4760cc):
\* every per-stream invariant holds in EVERY request of the history, whatever the earlier request was
\* (any kind, any payload count, a payload that cannot be encoded at any position, client gone at any instant)
\* + NoGarbage: a later request is served exactly as by a fresh handler.
\* The driver also runs it with SharedBuf = TRUE (INVARIANT NoGarbage only): TLC must REFUTE it -
\* request 1 fails to encode an event, request 2's event is assembled on the residue.
\* measured (a4760cc): 16,264 distinct / 42,828 generated states, depth 41, ~3 s; SharedBuf: counterexample of 24 states
\* (... MRecv, MEncodeFail, MPanicClose, MPFlushBegin/End, MBlobBegin/End, ServerCancel, FinBegin/End, NextRequest, ... MRecv, MWriteBegin), < 2 s.
\* thorough (the driver sets MaxN = 3, FailSet up to 4): see notes/C12.md.
INIT Init
NEXT Next
CONSTANTS
  Kinds = {"sse", "mm"}
  MinN = 0
  MaxN = 2
  KASet = {TRUE, FALSE}
  MaxTicks = 1
  Disc = TRUE
  LockWrites = TRUE
  StopKA = TRUE
  CloseAtomic = TRUE
  KeepSink = TRUE
  FailSet = {0, 1, 2, 3}
  MaxReq = 2
  SharedBuf = FALSE
  Deadl = TRUE
  KACloseOnDone = FALSE
  MmEncodeInAdd = TRUE
INVARIANTS TypeOK NoRace NoUseAfterFinish NoSplice PreFirst InOrder CompleteLast SseComplete PingsOnlyIfConfigured MmFramed MmOrder MmNoEmpty MmComplete SseFailed MmFailed NoGarbage NoCrash MmTickerStoppedAtReturn
CHECK_DEADLOCK FALSE
