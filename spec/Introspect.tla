---------------------------- MODULE Introspect ----------------------------
(***************************************************************************)
(* C16 - introspection mirrors the schema exactly, and reveals nothing     *)
(* when disabled.                                                          *)
(*                                                                         *)
(* Part 1 (function-shaped).  An abstract GraphQL schema S, the            *)
(* introspection view View(S, inc) that the standard introspection query   *)
(* must return for it (GraphQL specification, section 4: kinds, ofType     *)
(* wrapping, fields/args/inputFields/enumValues with includeDeprecated =   *)
(* inc, interfaces, possibleTypes, directives with isRepeatable and        *)
(* locations, defaultValue, description, and isDeprecated /                *)
(* deprecationReason of every element taken from THAT element), and the    *)
(* inverse Rebuild.  Theorems checked by TLC on every schema of a run:     *)
(*    Rebuild(View(S, TRUE))  = S            (nothing is lost or borrowed) *)
(*    Rebuild(View(S, FALSE)) = Prune(S)     (the filters remove exactly   *)
(*                                            the deprecated elements)     *)
(*    Closed, RelInverse, NullByKind         (section 4 side conditions)   *)
(* The set `Schemas` is a constant: MC_Introspect enumerates a bounded     *)
(* schema space exhaustively, Feed_Introspect reads schemas drawn by the   *)
(* harness from the same grammar (IsSchema is then checked on them, so the *)
(* generator cannot drift from the specification).  In both cases the      *)
(* harness gets (S, View(S,TRUE), View(S,FALSE)) from TLC and compares the *)
(* real server's answers with the views: the oracle is this module.        *)
(*                                                                         *)
(* Part 2 (gate).  OperationContext.DisableIntrospection as a small state  *)
(* machine shaped like the code: CreateOperationContext sets it, then      *)
(* EVERYTHING registered on the server that writes it runs in the order    *)
(* the executor prescribes - the OperationContextMutator extensions in     *)
(* registration order (extension.Introspection clears it, user mutators    *)
(* set or clear it), then at dispatch the operation middlewares            *)
(* (AroundOperations guards), first registered = outermost = first - and   *)
(* the generated resolvers of __schema / __type and federation's _service  *)
(* read it.  The registration list `chain` is part of the operation, the   *)
(* position in it is explicit state (gi): what the LAST writer before      *)
(* field execution decided is what the resolvers honour (LastWriterDecides)*)
(* for every registration order.                                           *)
(* An abstract operation reaches those positions through aliases,          *)
(* named / nested / inline fragments, @include with a variable, and        *)
(* __type(name:) with literal, variable or defaulted variable.  Invariant: *)
(* disabled => every such position is null with an error and no position   *)
(* carries schema data.                                                    *)
(*                                                                         *)
(* Encoding: every value is a string, a sequence or a record whose keys    *)
(* are the same for all records of a kind (TLC's Json module; no nulls):   *)
(* "" = absent description / reason / url, booleans are "t" / "f",         *)
(* nullable view values are [nul |-> "t"|"f", v |-> ...].                  *)
(***************************************************************************)
EXTENDS Naturals, Sequences, FiniteSets, TLC, Json

CONSTANTS
    Schemas,    \* the abstract schemas examined in this run
    Ops         \* the abstract hiding operations examined in this run

VARIABLES
    pc,         \* "chosen" | "done" (view machine) ; "idle" otherwise
    s,          \* the schema
    out,        \* [all |-> View(s,TRUE), cur |-> View(s,FALSE)] once done
    gpc,        \* gate machine: "idle" | "create" | "mutate" | "dispatch" | "exec" | "done"
    op,         \* the operation: [ext |-> "t"|"f", chain |-> Seq(Item), entries |-> Seq(Entry)]
    dis,        \* OperationContext.DisableIntrospection: "unset" | "t" | "f"
    gi,         \* gate machine: index of the next registered handler in the current phase (0 = none)
    res         \* response key -> outcome, filled by the resolvers

vvars == <<pc, s, out>>
gvars == <<gpc, op, dis, gi, res>>
vars  == <<pc, s, out, gpc, op, dis, gi, res>>

-----------------------------------------------------------------------------
(* Helpers *)

SeqToSet(q) == {q[i] : i \in 1..Len(q)}
MapSeq(Op(_), q) == IF Len(q) = 0 THEN <<>> ELSE [i \in 1..Len(q) |-> Op(q[i])]
Distinct(q) == \A i, j \in 1..Len(q) : i # j => q[i] # q[j]
NamesOf(q) == MapSeq(LAMBDA e : e.name, q)

BuiltinScalars == {"Int", "Float", "String", "Boolean", "ID"}
BuiltinDirectives == {"skip", "include", "deprecated", "specifiedBy", "defer", "oneOf"}
DefaultReason == "No longer supported"   \* @deprecated(reason: String = "No longer supported")

TypeKinds  == {"OBJECT", "INTERFACE", "UNION", "ENUM", "INPUT_OBJECT", "SCALAR"}
OutputKind == {"SCALAR", "ENUM", "OBJECT", "INTERFACE", "UNION"}
InputKind  == {"SCALAR", "ENUM", "INPUT_OBJECT"}
Locations  == {"QUERY", "MUTATION", "SUBSCRIPTION", "FIELD", "FRAGMENT_DEFINITION",
               "FRAGMENT_SPREAD", "INLINE_FRAGMENT", "VARIABLE_DEFINITION", "SCHEMA",
               "SCALAR", "OBJECT", "FIELD_DEFINITION", "ARGUMENT_DEFINITION", "INTERFACE",
               "UNION", "ENUM", "ENUM_VALUE", "INPUT_OBJECT", "INPUT_FIELD_DEFINITION"}

NoDep  == [on |-> "f", reason |-> ""]
NoDflt == [t |-> "none", v |-> "", e |-> <<>>]

-----------------------------------------------------------------------------
(* The abstract schema                                                     *)
(*   Schema  [desc, query, mutation, subscription, types, dirs]            *)
(*   TypeDef [name, kind, desc, fields, ifaces, members, values, inputs,   *)
(*            url]                                                         *)
(*   Field   [name, desc, type, args, dep]                                 *)
(*   InputVal[name, desc, type, dflt, dep]    (argument / input field /    *)
(*                                             directive argument)         *)
(*   EnumVal [name, desc, dep]                                             *)
(*   DirDef  [name, desc, rep, locs, args]                                 *)
(*   TypeRef [wrap, name]      wrap \in Seq({"N","L"}), outermost first    *)
(*   Dep     [on, reason]      its OWN @deprecated                         *)
(*   Dflt    [t, v, e]         t \in none int float str bool null enum     *)
(*                             list obj; e = Seq([k, x]) children          *)

Known(S, n) == n \in BuiltinScalars \/ \E i \in 1..Len(S.types) : S.types[i].name = n
TypeNamed(S, n) == S.types[CHOOSE i \in 1..Len(S.types) : S.types[i].name = n]
KindOf(S, n) == IF n \in BuiltinScalars THEN "SCALAR" ELSE TypeNamed(S, n).kind

IsWrap(w) == /\ \A i \in 1..Len(w) : w[i] \in {"N", "L"}
             /\ \A i \in 1..Len(w) : (i < Len(w) /\ w[i] = "N") => w[i+1] = "L"
NonNullRef(r) == Len(r.wrap) > 0 /\ r.wrap[1] = "N"

IsDep(d) == /\ d.on \in {"t", "f"}
            /\ d.on = "f" => d.reason = ""
            /\ d.reason # DefaultReason

RECURSIVE Fits(_, _, _, _)
Fits(S, d, w, n) ==
    IF Len(w) > 0 /\ w[1] = "N" THEN d.t # "null" /\ Fits(S, d, Tail(w), n)
    ELSE IF d.t = "null" THEN TRUE
    ELSE IF Len(w) > 0 THEN d.t = "list" /\ \A i \in 1..Len(d.e) : Fits(S, d.e[i].x, Tail(w), n)
    ELSE CASE n = "Int"     -> d.t = "int"
           [] n = "Float"   -> d.t \in {"int", "float"}
           [] n = "String"  -> d.t = "str"
           [] n = "Boolean" -> d.t = "bool"
           [] n = "ID"      -> d.t \in {"str", "int"}
           [] OTHER ->
              LET T == TypeNamed(S, n) IN
              CASE T.kind = "SCALAR" -> d.t \in {"int", "float", "str", "bool"}
                [] T.kind = "ENUM"   -> d.t = "enum" /\ \E i \in 1..Len(T.values) : T.values[i].name = d.v
                [] T.kind = "INPUT_OBJECT" ->
                      /\ d.t = "obj"
                      /\ \A i, j \in 1..Len(d.e) : i # j => d.e[i].k # d.e[j].k
                      /\ \A i \in 1..Len(d.e) : \E j \in 1..Len(T.inputs) :
                            /\ T.inputs[j].name = d.e[i].k
                            /\ Fits(S, d.e[i].x, T.inputs[j].type.wrap, T.inputs[j].type.name)
                      /\ \A j \in 1..Len(T.inputs) :
                            (NonNullRef(T.inputs[j].type) /\ T.inputs[j].dflt.t = "none")
                               => \E i \in 1..Len(d.e) : d.e[i].k = T.inputs[j].name
                [] OTHER -> FALSE

IsInputVal(S, x) ==
    /\ IsWrap(x.type.wrap) /\ Known(S, x.type.name) /\ KindOf(S, x.type.name) \in InputKind
    /\ IsDep(x.dep)
    /\ x.dflt.t # "none" => Fits(S, x.dflt, x.type.wrap, x.type.name)
    /\ x.dep.on = "t" => (~NonNullRef(x.type) \/ x.dflt.t # "none")  \* a required input is never deprecated

IsField(S, f) ==
    /\ IsWrap(f.type.wrap) /\ Known(S, f.type.name) /\ KindOf(S, f.type.name) \in OutputKind
    /\ IsDep(f.dep)
    /\ Distinct(NamesOf(f.args))
    /\ \A i \in 1..Len(f.args) : IsInputVal(S, f.args[i])

ArgSig(f) == {<<f.args[i].name, f.args[i].type>> : i \in 1..Len(f.args)}

Implements(S, t) ==
    /\ Distinct(t.ifaces)
    /\ \A n \in SeqToSet(t.ifaces) :
          /\ n # t.name /\ Known(S, n) /\ KindOf(S, n) = "INTERFACE"
          /\ SeqToSet(TypeNamed(S, n).ifaces) \subseteq SeqToSet(t.ifaces)   \* transitively declared
          /\ \A g \in SeqToSet(TypeNamed(S, n).fields) :
                \E f \in SeqToSet(t.fields) : f.name = g.name /\ f.type = g.type /\ ArgSig(f) = ArgSig(g)

IsTypeDef(S, t) ==
    /\ t.kind \in TypeKinds
    /\ t.name \notin BuiltinScalars
    /\ IF t.kind \in {"OBJECT", "INTERFACE"}
       THEN /\ Len(t.fields) > 0 /\ Distinct(NamesOf(t.fields))
            /\ \A i \in 1..Len(t.fields) : IsField(S, t.fields[i])
            /\ Implements(S, t)
       ELSE t.fields = <<>> /\ t.ifaces = <<>>
    /\ IF t.kind = "UNION"
       THEN /\ Len(t.members) > 0 /\ Distinct(t.members)
            /\ \A n \in SeqToSet(t.members) : Known(S, n) /\ KindOf(S, n) = "OBJECT"
       ELSE t.members = <<>>
    /\ IF t.kind = "ENUM"
       THEN /\ Len(t.values) > 0 /\ Distinct(NamesOf(t.values))
            /\ \A i \in 1..Len(t.values) : IsDep(t.values[i].dep) /\ t.values[i].name \notin {"true", "false", "null"}
       ELSE t.values = <<>>
    /\ IF t.kind = "INPUT_OBJECT"
       THEN /\ Len(t.inputs) > 0 /\ Distinct(NamesOf(t.inputs))
            /\ \A i \in 1..Len(t.inputs) : IsInputVal(S, t.inputs[i])
       ELSE t.inputs = <<>>
    /\ t.kind # "SCALAR" => t.url = ""

IsDirDef(S, d) ==
    /\ d.name \notin BuiltinDirectives
    /\ d.rep \in {"t", "f"}
    /\ Len(d.locs) > 0 /\ Distinct(d.locs) /\ SeqToSet(d.locs) \subseteq Locations
    /\ Distinct(NamesOf(d.args))
    /\ \A i \in 1..Len(d.args) : IsInputVal(S, d.args[i])

IsRoot(S, n) == Known(S, n) /\ KindOf(S, n) = "OBJECT" /\ n \notin BuiltinScalars

IsSchema(S) ==
    /\ Distinct(NamesOf(S.types)) /\ Distinct(NamesOf(S.dirs))
    /\ \A i \in 1..Len(S.types) : IsTypeDef(S, S.types[i])
    /\ \A i \in 1..Len(S.dirs) : IsDirDef(S, S.dirs[i])
    /\ IsRoot(S, S.query)
    /\ S.mutation # "" => IsRoot(S, S.mutation) /\ S.mutation # S.query
    /\ S.subscription # "" => IsRoot(S, S.subscription) /\ S.subscription \notin {S.query, S.mutation}

-----------------------------------------------------------------------------
(* View: what introspection must return (GraphQL specification section 4) *)

Nul == [nul |-> "t", v |-> ""]
Str(x) == [nul |-> "f", v |-> x]
OptStr(x) == IF x = "" THEN Nul ELSE Str(x)
OptList(applicable, q) == IF applicable THEN [nul |-> "f", l |-> q] ELSE [nul |-> "t", l |-> <<>>]

\* a type reference as its ofType chain, outermost first; the last layer is the named type
RECURSIVE Layers(_, _, _)
Layers(S, w, n) ==
    IF Len(w) = 0 THEN << [kind |-> KindOf(S, n), name |-> n] >>
    ELSE << [kind |-> IF w[1] = "N" THEN "NON_NULL" ELSE "LIST", name |-> ""] >> \o Layers(S, Tail(w), n)

Keep(inc, q) == IF inc THEN q ELSE SelectSeq(q, LAMBDA e : e.dep.on = "f")

VReason(d) == IF d.on = "f" THEN Nul ELSE IF d.reason = "" THEN Str(DefaultReason) ELSE Str(d.reason)

VInput(S, x) ==
    [name |-> x.name, description |-> OptStr(x.desc),
     type |-> Layers(S, x.type.wrap, x.type.name),
     defaultValue |-> [nul |-> IF x.dflt.t = "none" THEN "t" ELSE "f", val |-> x.dflt],
     isDeprecated |-> x.dep.on, deprecationReason |-> VReason(x.dep)]        \* its OWN directive

VField(S, f, inc) ==
    [name |-> f.name, description |-> OptStr(f.desc),
     args |-> MapSeq(LAMBDA a : VInput(S, a), Keep(inc, f.args)),
     type |-> Layers(S, f.type.wrap, f.type.name),
     isDeprecated |-> f.dep.on, deprecationReason |-> VReason(f.dep)]

VEnum(x) == [name |-> x.name, description |-> OptStr(x.desc),
             isDeprecated |-> x.dep.on, deprecationReason |-> VReason(x.dep)]

\* possible types: union members; for an interface the OBJECT types that implement it
PossibleOf(S, t) ==
    IF t.kind = "UNION" THEN t.members
    ELSE IF t.kind = "INTERFACE"
         THEN NamesOf(SelectSeq(S.types, LAMBDA o : o.kind = "OBJECT" /\ t.name \in SeqToSet(o.ifaces)))
         ELSE <<>>

VType(S, t, inc) ==
    [kind |-> t.kind, name |-> t.name, description |-> OptStr(t.desc),
     specifiedByURL |-> OptStr(t.url),
     fields        |-> OptList(t.kind \in {"OBJECT", "INTERFACE"}, MapSeq(LAMBDA f : VField(S, f, inc), Keep(inc, t.fields))),
     interfaces    |-> OptList(t.kind \in {"OBJECT", "INTERFACE"}, MapSeq(LAMBDA n : Layers(S, <<>>, n), t.ifaces)),
     possibleTypes |-> OptList(t.kind \in {"INTERFACE", "UNION"}, MapSeq(LAMBDA n : Layers(S, <<>>, n), PossibleOf(S, t))),
     enumValues    |-> OptList(t.kind = "ENUM", MapSeq(VEnum, Keep(inc, t.values))),
     inputFields   |-> OptList(t.kind = "INPUT_OBJECT", MapSeq(LAMBDA x : VInput(S, x), Keep(inc, t.inputs)))]

VDir(S, d, inc) ==
    [name |-> d.name, description |-> OptStr(d.desc), isRepeatable |-> d.rep, locations |-> d.locs,
     args |-> MapSeq(LAMBDA x : VInput(S, x), Keep(inc, d.args))]

\* user-defined part of __schema; the built-in scalars, the introspection types and the
\* built-in directives are the same for every schema and are checked by the binding
View(S, inc) ==
    [description |-> OptStr(S.desc),
     queryType |-> S.query, mutationType |-> OptStr(S.mutation), subscriptionType |-> OptStr(S.subscription),
     types |-> MapSeq(LAMBDA t : VType(S, t, inc), S.types),
     directives |-> MapSeq(LAMBDA d : VDir(S, d, inc), S.dirs)]

-----------------------------------------------------------------------------
(* Rebuild: the schema a client reconstructs from a view *)

RefOfLayers(ls) ==
    [wrap |-> MapSeq(LAMBDA y : IF y.kind = "NON_NULL" THEN "N" ELSE "L", SubSeq(ls, 1, Len(ls) - 1)),
     name |-> ls[Len(ls)].name]

DepOf(isDep, why) ==
    IF isDep = "f" THEN NoDep
    ELSE [on |-> "t", reason |-> IF why.nul = "t" \/ why.v = DefaultReason THEN "" ELSE why.v]

UnOpt(o) == IF o.nul = "t" THEN "" ELSE o.v

RInput(x) == [name |-> x.name, desc |-> UnOpt(x.description), type |-> RefOfLayers(x.type),
              dflt |-> IF x.defaultValue.nul = "t" THEN NoDflt ELSE x.defaultValue.val,
              dep |-> DepOf(x.isDeprecated, x.deprecationReason)]
RField(f) == [name |-> f.name, desc |-> UnOpt(f.description), type |-> RefOfLayers(f.type),
              args |-> MapSeq(RInput, f.args), dep |-> DepOf(f.isDeprecated, f.deprecationReason)]
REnum(x)  == [name |-> x.name, desc |-> UnOpt(x.description), dep |-> DepOf(x.isDeprecated, x.deprecationReason)]
LastName(ls) == ls[Len(ls)].name

RType(t) ==
    [name |-> t.name, kind |-> t.kind, desc |-> UnOpt(t.description),
     fields  |-> MapSeq(RField, t.fields.l),
     ifaces  |-> MapSeq(LastName, t.interfaces.l),
     members |-> IF t.kind = "UNION" THEN MapSeq(LastName, t.possibleTypes.l) ELSE <<>>,
     values  |-> MapSeq(REnum, t.enumValues.l),
     inputs  |-> MapSeq(RInput, t.inputFields.l),
     url     |-> UnOpt(t.specifiedByURL)]

RDir(d) == [name |-> d.name, desc |-> UnOpt(d.description), rep |-> d.isRepeatable, locs |-> d.locations,
            args |-> MapSeq(RInput, d.args)]

Rebuild(V) ==
    [desc |-> UnOpt(V.description), query |-> V.queryType,
     mutation |-> UnOpt(V.mutationType), subscription |-> UnOpt(V.subscriptionType),
     types |-> MapSeq(RType, V.types), dirs |-> MapSeq(RDir, V.directives)]

\* the schema without its deprecated elements: what a client that never asks for them sees
PruneField(f) == [f EXCEPT !.args = Keep(FALSE, f.args)]
PruneType(t)  == [t EXCEPT !.fields = MapSeq(PruneField, Keep(FALSE, t.fields)),
                           !.values = Keep(FALSE, t.values), !.inputs = Keep(FALSE, t.inputs)]
PruneDir(d)   == [d EXCEPT !.args = Keep(FALSE, d.args)]
Prune(S)      == [S EXCEPT !.types = MapSeq(PruneType, S.types), !.dirs = MapSeq(PruneDir, S.dirs)]

-----------------------------------------------------------------------------
(* Section 4 side conditions on a view *)

ViewTypeNames(V) == {V.types[i].name : i \in 1..Len(V.types)}
RefsOfInput(x) == {LastName(x.type)}
RefsOfType(t) ==
    UNION {{LastName(t.fields.l[i].type)} \cup UNION {RefsOfInput(t.fields.l[i].args[j]) : j \in 1..Len(t.fields.l[i].args)}
              : i \in 1..Len(t.fields.l)}
    \cup {LastName(t.interfaces.l[i]) : i \in 1..Len(t.interfaces.l)}
    \cup {LastName(t.possibleTypes.l[i]) : i \in 1..Len(t.possibleTypes.l)}
    \cup UNION {RefsOfInput(t.inputFields.l[i]) : i \in 1..Len(t.inputFields.l)}

\* every type a view mentions is itself in the view (or a built-in scalar)
Closed(V) ==
    LET names == ViewTypeNames(V) \cup BuiltinScalars IN
    /\ V.queryType \in names
    /\ UnOpt(V.mutationType) \in names \cup {""} /\ UnOpt(V.subscriptionType) \in names \cup {""}
    /\ \A i \in 1..Len(V.types) : RefsOfType(V.types[i]) \subseteq names
    /\ \A i \in 1..Len(V.directives) : \A j \in 1..Len(V.directives[i].args) :
          RefsOfInput(V.directives[i].args[j]) \subseteq names

\* possibleTypes of an interface and interfaces of an object are inverse relations,
\* and possible types are always OBJECT types
RelInverse(V) ==
    \A i, j \in 1..Len(V.types) :
        LET I == V.types[i]  T == V.types[j] IN
        /\ (I.kind = "INTERFACE") =>
              ((T.name \in {LastName(I.possibleTypes.l[k]) : k \in 1..Len(I.possibleTypes.l)})
                 <=> (T.kind = "OBJECT" /\ I.name \in {LastName(T.interfaces.l[k]) : k \in 1..Len(T.interfaces.l)}))
        /\ \A k \in 1..Len(I.possibleTypes.l) : I.possibleTypes.l[k][1].kind = "OBJECT"

\* which lists are null is determined by the kind alone
NullByKind(V) ==
    \A i \in 1..Len(V.types) : LET t == V.types[i] IN
        /\ (t.fields.nul = "f") <=> (t.kind \in {"OBJECT", "INTERFACE"})
        /\ (t.interfaces.nul = "f") <=> (t.kind \in {"OBJECT", "INTERFACE"})
        /\ (t.possibleTypes.nul = "f") <=> (t.kind \in {"INTERFACE", "UNION"})
        /\ (t.enumValues.nul = "f") <=> (t.kind = "ENUM")
        /\ (t.inputFields.nul = "f") <=> (t.kind = "INPUT_OBJECT")
        /\ (t.specifiedByURL.nul = "f") => (t.kind = "SCALAR")

-----------------------------------------------------------------------------
(* View machine: choose a schema, introspect it *)

NoOut == [all |-> <<>>, cur |-> <<>>]
NoOp  == [ext |-> "f", chain |-> <<>>, entries |-> <<>>]

VInit == /\ s \in Schemas /\ pc = "chosen" /\ out = NoOut
         /\ gpc = "idle" /\ op = NoOp /\ dis = "unset" /\ gi = 0 /\ res = <<>>

Introspect == /\ pc = "chosen"
              /\ out' = [all |-> View(s, TRUE), cur |-> View(s, FALSE)]
              /\ pc' = "done"
              /\ UNCHANGED <<s, gpc, op, dis, gi, res>>

VNext == Introspect

WellFormed   == IsSchema(s)
RebuildAll   == pc = "done" => Rebuild(out.all) = s
RebuildCur   == pc = "done" => Rebuild(out.cur) = Prune(s)
ViewClosed   == pc = "done" => Closed(out.all)
ViewRelInv   == pc = "done" => RelInverse(out.all) /\ RelInverse(out.cur)
ViewNullKind == pc = "done" => NullByKind(out.all) /\ NullByKind(out.cur)

-----------------------------------------------------------------------------
(* Gate machine                                                            *)
(* Entry [pos, key, via, arg, known]                                       *)
(*   pos   "__schema" | "__type" | "_service" | "__typename" | "user"      *)
(*   key   response key (alias, or the field name when not aliased)        *)
(*   via   how the selection hides: "direct" | "frag" | "nested" |         *)
(*         "inline" | "inlinebare" | "include"                             *)
(*   arg   __type's name argument: "lit" | "var" | "vardflt"; "-" else     *)
(*   known __type only: "t" the named type exists, "f" it does not         *)

IntroPos == {"__schema", "__type", "_service"}
Vias == {"direct", "frag", "nested", "inline", "inlinebare", "include"}

IsEntry(e) ==
    /\ e.pos \in IntroPos \cup {"__typename", "user"}
    /\ e.via \in Vias
    /\ IF e.pos = "__type" THEN e.arg \in {"lit", "var", "vardflt"} /\ e.known \in {"t", "f"}
       ELSE e.arg = "-" /\ e.known = "t"

\* two selections with one response key must be mergeable (same field, same arguments)
Mergeable(e1, e2) == e1.key # e2.key \/ (e1.pos = e2.pos /\ e1.arg = e2.arg /\ e1.known = e2.known)

(* Item [k, w]: one registration on the server (srv.Use / srv.AroundOperations), in      *)
(* registration order                                                                    *)
(*   k = "intro"  extension.Introspection{}: an OperationContextMutator that clears the  *)
(*                flag (w = "f"); it takes no part in the dispatch                       *)
(*   k = "mut"    a user extension implementing OperationContextMutator that writes      *)
(*                DisableIntrospection = (w = "t") for this request                      *)
(*   k = "mw"     an AroundOperations guard (OperationInterceptor) that writes w for     *)
(*                this request before calling next, or passes (w = "-")                  *)
IsItem(x) == \/ (x.k = "intro" /\ x.w = "f")
             \/ (x.k = "mut" /\ x.w \in {"t", "f"})
             \/ (x.k = "mw" /\ x.w \in {"t", "f", "-"})

HasIntro(c) == \E i \in 1..Len(c) : c[i].k = "intro"

IsOp(o) == /\ o.ext \in {"t", "f"}
           /\ \A i \in 1..Len(o.chain) : IsItem(o.chain[i])
           /\ (o.ext = "t") <=> HasIntro(o.chain)
           /\ Len(o.entries) > 0
           /\ \A i \in 1..Len(o.entries) : IsEntry(o.entries[i])
           /\ \A i, j \in 1..Len(o.entries) : Mergeable(o.entries[i], o.entries[j])

Keys(o) == {o.entries[i].key : i \in 1..Len(o.entries)}
EntryOf(o, k) == o.entries[CHOOSE i \in 1..Len(o.entries) : o.entries[i].key = k]

GInit == /\ op \in Ops /\ gpc = "create" /\ dis = "unset" /\ gi = 0 /\ res = <<>>
         /\ pc = "idle" /\ s = <<>> /\ out = NoOut

\* executor.CreateOperationContext: DisableIntrospection: true
CreateOpCtx == /\ gpc = "create" /\ dis' = "t" /\ gpc' = "mutate" /\ gi' = 1 /\ UNCHANGED <<op, res>>

\* CreateOperationContext, `for _, p := range e.ext.operationContextMutators`: registration order
InMutate == gpc = "mutate" /\ gi \in 1..Len(op.chain)
\* extension.Introspection.MutateOperationContext
IntroMutate == /\ InMutate /\ op.chain[gi].k = "intro"
               /\ dis' = "f" /\ gi' = gi + 1 /\ UNCHANGED <<gpc, op, res>>
\* a user extension's MutateOperationContext
UserMutate  == /\ InMutate /\ op.chain[gi].k = "mut"
               /\ dis' = op.chain[gi].w /\ gi' = gi + 1 /\ UNCHANGED <<gpc, op, res>>
\* an operation middleware is not an OperationContextMutator
NotMutator  == /\ InMutate /\ op.chain[gi].k = "mw"
               /\ gi' = gi + 1 /\ UNCHANGED <<gpc, op, dis, res>>
MutateDone  == /\ gpc = "mutate" /\ gi = Len(op.chain) + 1
               /\ gpc' = "dispatch" /\ gi' = 1 /\ UNCHANGED <<op, dis, res>>

\* DispatchOperation, e.ext.operationMiddleware: the first registered interceptor is the
\* outermost and runs first; each runs its own code, then next
InDispatch == gpc = "dispatch" /\ gi \in 1..Len(op.chain)
GuardWrites == /\ InDispatch /\ op.chain[gi].k = "mw" /\ op.chain[gi].w # "-"
               /\ dis' = op.chain[gi].w /\ gi' = gi + 1 /\ UNCHANGED <<gpc, op, res>>
GuardPasses == /\ InDispatch /\ op.chain[gi].k = "mw" /\ op.chain[gi].w = "-"
               /\ gi' = gi + 1 /\ UNCHANGED <<gpc, op, dis, res>>
\* extension.Introspection and user mutators are not operation interceptors
NotInterceptor == /\ InDispatch /\ op.chain[gi].k \in {"intro", "mut"}
                  /\ gi' = gi + 1 /\ UNCHANGED <<gpc, op, dis, res>>
DispatchDone == /\ gpc = "dispatch" /\ gi = Len(op.chain) + 1
                /\ gpc' = "exec" /\ gi' = 0 /\ UNCHANGED <<op, dis, res>>

\* the generated root resolvers; root fields of a query may run in any order
Outcome(e) ==
    CASE e.pos = "__typename" -> "typename"
      [] e.pos = "user"       -> "value"
      [] dis = "t"            -> "null_err"          \* introspectSchema / introspectType / __resolve__service
      [] e.pos = "__type" /\ e.known = "f" -> "null"
      [] OTHER                -> "data"

Resolve(k) == /\ gpc = "exec" /\ k \in Keys(op) /\ k \notin DOMAIN res
              /\ res' = res @@ (k :> Outcome(EntryOf(op, k)))
              /\ UNCHANGED <<op, dis, gi, gpc>>

Finish == /\ gpc = "exec" /\ DOMAIN res = Keys(op) /\ gpc' = "done" /\ UNCHANGED <<op, dis, gi, res>>

GNext == \/ (CreateOpCtx /\ UNCHANGED vvars)
         \/ (IntroMutate /\ UNCHANGED vvars) \/ (UserMutate /\ UNCHANGED vvars)
         \/ (NotMutator /\ UNCHANGED vvars) \/ (MutateDone /\ UNCHANGED vvars)
         \/ (GuardWrites /\ UNCHANGED vvars) \/ (GuardPasses /\ UNCHANGED vvars)
         \/ (NotInterceptor /\ UNCHANGED vvars) \/ (DispatchDone /\ UNCHANGED vvars)
         \/ (\E k \in Keys(op) : Resolve(k) /\ UNCHANGED vvars) \/ (Finish /\ UNCHANGED vvars)

\* Query._service is `_Service!`: its error nulls the whole data
DataNull == \E k \in DOMAIN res : res[k] = "null_err" /\ EntryOf(op, k).pos = "_service"

\* The property, stated without the machine: the writes that reach a request are the
\* executor's default, then the context mutators in registration order, then the guards that
\* fire in registration order; the last of them decides.
Writes(o) == << "t" >>
             \o MapSeq(LAMBDA x : x.w, SelectSeq(o.chain, LAMBDA x : x.k \in {"intro", "mut"}))
             \o MapSeq(LAMBDA x : x.w, SelectSeq(o.chain, LAMBDA x : x.k = "mw" /\ x.w # "-"))
Decided(o) == Writes(o)[Len(Writes(o))]

GateWellFormed == IsOp(op)
LastWriterDecides == gpc \in {"exec", "done"} => dis = Decided(op)
\* without any registered writer of "f" introspection stays disabled
OnlyWritersEnable == dis = "f" => \E i \in 1..Len(op.chain) : op.chain[i].w = "f"
\* disabled => every introspection position is null with an error, none carries data
GateHolds == gpc = "done" /\ Decided(op) = "t" =>
                 \A k \in Keys(op) : EntryOf(op, k).pos \in IntroPos => res[k] = "null_err"
NoLeak == (gpc \in {"exec", "done"} /\ Decided(op) = "t") => \A k \in DOMAIN res : res[k] \notin {"data", "null"}
\* enabled => every introspection position answers
GateOpen == gpc = "done" /\ Decided(op) = "f" =>
                 \A k \in Keys(op) : EntryOf(op, k).pos \in IntroPos => res[k] \in {"data", "null"}

-----------------------------------------------------------------------------
(* Export for the binding (ACTION_CONSTRAINT in the configurations, -workers 1):   *)
(* one JSON line per examined schema / operation with what the specification       *)
(* prescribes.                                                                     *)

EmitView == (pc = "chosen" /\ pc' = "done") =>
                PrintT(ToJson([s |-> s, all |-> out'.all, cur |-> out'.cur]))

EmitGate == (gpc = "exec" /\ gpc' = "done") =>
                PrintT(ToJson([op |-> op, res |-> res, dis |-> dis, datanull |-> IF DataNull THEN "t" ELSE "f"]))

=============================================================================
