\* C07 quick: sequential histories of unbounded length, one request in flight, request-level edges exported
CONSTANTS
  Requests <- RequestsQuick
  ResetFields <- AllSix
  ResetEarly = FALSE
  CacheKey = "full"
  PoolMax = 1
  Slots = 1
INIT Init
NEXT Next
VIEW view
CHECK_DEADLOCK FALSE
INVARIANTS TypeOK OwnParams Isolation ApqOnlyHashOnly CacheTransparent PoolClean
ACTION_CONSTRAINT EmitEdge
