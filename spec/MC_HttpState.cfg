\* C07 quick - sequential instance of HttpState (one request in flight, histories of unbounded length).
\*   Requests  RequestsQuick (712): POST x query {absent,Q1,Q2,QX} x operationName {absent,null,A,B}
\*             x variables {absent,null,V1,V2,undecodable} x extensions {absent,X,hash(Q1),hash(Q2)};
\*             GET, WS, FORM with present/absent members; GRAPHQL (query only)
\*   ResetFields = the six fields POST.Do resets; reset in the deferred func; cache keyed on the full text
\*   PoolMax = 1, Slots = 1.  EmitEdge prints one request-level labelled edge per finished request (-workers 1).
\*   Configs = {none} (no ResponseHeaders), Accept absent: the header instance is MC_HttpStateHdr.cfg.
\* Measured: 92,388 distinct states, 15,696 edges over 18 shared states, depth 26, 17 s.
CONSTANTS
  Requests <- RequestsQuick
  ResetFields <- AllSix
  ResetEarly = FALSE
  CacheKey = "full"
  PoolMax = 1
  Slots = 1
  Configs <- CfgNone
  MergeInPlace = FALSE
  BufPool = FALSE
  TrackNeg = FALSE
  Once = FALSE
  WsScript <- WsNone
  WsPings = 0
  WsSharedMsg = FALSE
INIT Init
NEXT Next
VIEW view
CHECK_DEADLOCK FALSE
INVARIANTS TypeOK OwnParams Isolation WriteOwn ConfigImmutable ApqOnlyHashOnly CacheTransparent PoolClean
ACTION_CONSTRAINT EmitEdge
