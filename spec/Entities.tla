------------------------------ MODULE Entities ------------------------------
(***************************************************************************)
(* Property C20: federation `_entities` answers each representation at its *)
(* own index.                                                              *)
(*                                                                         *)
(* The module has two parts.                                               *)
(*                                                                         *)
(* 1. The PROPERTY, stated on (representation list, resolver outcomes,     *)
(*    response) alone, without reference to any algorithm: Ideal / ElemOK /*)
(*    Correct below.  Element i is the entity resolved from representation *)
(*    i (by a resolver whose key fields representation i carries, from the *)
(*    key values of representation i, with @requires fields taken from     *)
(*    representation i), or null; null comes with an error when resolving  *)
(*    i failed; what happens to i depends on nothing but representation i  *)
(*    and the outcome of the resolver call(s) answering i.                 *)
(*                                                                         *)
(* 2. The ALGORITHM of plugin/federation/federation.gotpl, action by       *)
(*    action:                                                              *)
(*      Build        buildRepresentationGroups (group by __typename keeping*)
(*                   indices; a representation without a string __typename *)
(*                   gets an error and is skipped) + the dispatch of one   *)
(*                   task per type group (inline for a single group,       *)
(*                   goroutines otherwise)                                 *)
(*      GroupStart   resolveEntityGroup: isMulti -> batch path, else one   *)
(*                   goroutine per representation                          *)
(*      EntityFail / EntityCall / EntityReturn                             *)
(*                   resolveEntity: switch over the typename (unknown type *)
(*                   -> error), entityResolverNameFor<T> (first resolver   *)
(*                   whose key fields are all present and not all null),   *)
(*                   the resolver call, its outcome (entity, nil, error,   *)
(*                   panic -> recover site of resolveEntity), @requires    *)
(*                   population from the same representation, the write    *)
(*                   list[rep.index] = entity                              *)
(*      BatchPlan / BatchNext / BatchCall / BatchReturn / ZipStep          *)
(*                   resolveManyEntities: the resolver chosen from         *)
(*                   reps[0] FOR THE WHOLE GROUP, key unmarshalling of     *)
(*                   every representation for that resolver, one call, the *)
(*                   positional zip `for i, entity := range entities       *)
(*                   { ...requires from reps[i]...; list[reps[i].index] =  *)
(*                   entity }`, the recover site of resolveManyEntities    *)
(*      GroupDone / Finish   the two WaitGroups                            *)
(*                                                                         *)
(* The pinned tree deviates from the property in four named ways, each     *)
(* switched by a constant (FALSE = the code as it is, TRUE = the repaired  *)
(* design); all four were reproduced on generated servers:                 *)
(*   FixFirstRep  the batch path picks the resolver from reps[0] for all   *)
(*                representations of the type (DESIGN 7 #13): a later      *)
(*                representation carrying another key (or no key) is       *)
(*                handed to the wrong resolver with a null key (nullable   *)
(*                key field) or fails the WHOLE group (non-null key        *)
(*                field); an invalid first representation fails the whole  *)
(*                group.                                                   *)
(*                Repaired: resolver chosen per representation, one call   *)
(*                per (type, resolver) in order of first appearance,       *)
(*                faults contained per call.                               *)
(*   FixShort     a batch resolver returning fewer entities than inputs    *)
(*                leaves the tail null WITHOUT an error.                   *)
(*   FixNilReq    a nil entity of a type with @requires is dereferenced    *)
(*                by the inline population: in the batch path the panic    *)
(*                aborts the zip, so every later element of the group is   *)
(*                lost although its entity was returned.                   *)
(*   FixBadReq    in the batch path a required value that does not         *)
(*                unmarshal (wrong JSON type, null for a non-null field)   *)
(*                makes resolveManyEntities `return err` out of the zip:   *)
(*                every later element of the group is lost as well.        *)
(* The driver derives every Fix* constant from the status of the finding    *)
(* in known_findings.d/C20.json (fixed => TRUE, open => FALSE), so "the     *)
(* pinned tree" below always means the tree as it is now.                   *)
(*   FixBadKey    in the batch path a key VALUE that does not unmarshal   *)
(*                (wrong JSON type) makes the per-resolver body return     *)
(*                before the call: every representation of that resolver's *)
(*                group is lost, with one error. OPEN on HEAD.              *)
(* With all Fix* = TRUE TLC proves Correct for every list, outcome and     *)
(* schedule in the bound; with FALSE it proves CorrectModuloKnown (nothing *)
(* but the named deviations) and yields counterexamples to Correct.        *)
(*                                                                         *)
(* Round 4: a type's @requires directives give a SEQUENCE of required      *)
(* paths (Req), flat or nested, possibly repeated; the distinct paths are   *)
(* the SLOTS of the entity. Populate is the requires-population step: one   *)
(* assignment per entry, each from the value the SAME representation       *)
(* carries for THAT path; an element records per slot which (representation,*)
(* path) value it holds (ps). PsIdeal is the prescription; ElemOK demands   *)
(* list[i].ps = PsIdeal. Probe types P / Pm: flat dimsVol beside nested     *)
(* dims { vol } (same concatenated Go name), dims { vol } / dims { wt }     *)
(* (shared prefix), dims { vol } / box { vol } (same leaf, two parents),    *)
(* dims { vol } required twice.                                            *)
(*                                                                         *)
(* The schema is that of harness/probes/fed2 (types S K N M R Rm); a       *)
(* representation is abstracted to its KIND (typename + status of each key *)
(* field: value / null / absent / parent-not-an-object).  Key and @requires*)
(* values name the index of the representation they came from, so "from    *)
(* representation i" is a comparison of indices.                           *)
(***************************************************************************)
EXTENDS Integers, Sequences, FiniteSets, TLC, Json

CONSTANTS
  MaxLen,         \* representation lists of length 0..MaxLen
  Alphabet,       \* set of kind names the lists are drawn from
  Outcomes,       \* outcomes of one resolver call / batch element: subset of {"ent","nil","err","panic"}
  BatchOutcomes,  \* outcomes of a batch call: subset of {"ok","short","long","err","panic"}
  MaxFaults,      \* at most this many non-"ent"/non-"ok" outcomes per scenario
  ReqInline,      \* TRUE: @requires populated inline by resolveEntity (default options);
                  \* FALSE: explicit_requires (nil-safe user populator) / computed_requires
  FixFirstRep, FixShort, FixNilReq, FixBadReq, FixBadKey

VARIABLES
  reps,   \* sequence of kind names            (chosen in Init, constant afterwards)
  out,    \* per representation: outcome of its resolver call / of its batch element, "-" if none
  bout,   \* [batch resolver name -> outcome of that call]
  pc,     \* main: "build" | "wait" | "done"
  gst,    \* per typename: "none" | "ready" | "plan" | "called" | "zip" | "wait" | "done"
  gq,     \* per typename: pending batch calls <<[r, ix, ky]...>> (r resolver, ix original indices, ky key index per input)
  gres,   \* per typename: the entities the current batch call returned ("ent" | "nil" | "extra")
  gz,     \* per typename: zip cursor
  est,    \* per representation: "none" | "ready" | "called" | "done"
  list,   \* the result: list[i] = Null or [r |-> resolver, i |-> key index, w |-> requires index]
  errs,   \* number of errors added to the response (ec.Error)
  recs,   \* number of recovered panics (ec.Recover)
  order   \* history: resolver calls in the order they returned (excluded from VIEW in exhaustive configs)

vars == <<reps, out, bout, pc, gst, gq, gres, gz, est, list, errs, recs, order>>
view == <<reps, out, bout, pc, gst, gq, gres, gz, est, list, errs, recs>>

-----------------------------------------------------------------------------
\* The probe schema.
Types == {"S", "K", "N", "M", "R", "Rm", "R2", "Rm2", "R3", "Rm3", "C", "Cm", "N2", "K2", "P", "Pm"}
AllT == Types \cup {"Zz"}              \* "Zz": a typename the schema does not know
Multi(t) == t \in {"M", "Rm", "Rm2", "Rm3", "Cm", "Pm"}          \* @entityResolver(multi: true)
\* the fields a type's @requires field needs, in SDL order (nn: non-null type):
\* w: String, n: Int!, l: [String!]
ReqW == [f |-> "w", nn |-> FALSE]
ReqN == [f |-> "n", nn |-> TRUE]
ReqL == [f |-> "l", nn |-> FALSE]
\* P / Pm (round 4): SEVERAL @requires directives over flat and nested paths. A path is named by its
\* dotted form; the entries below are what buildRequires collects, in SDL order of the requiring
\* fields z, y, x:   z @requires("dimsVol dims { vol }")   y @requires("dims { wt } box { vol }")
\*                   x @requires("dims { vol }")
\*  (i)   flat dimsVol and nested dims { vol }: the concatenated Go names coincide (dimsVol)
\*  (ii)  dims { vol } and dims { wt } share the prefix dims
\*  (iii) the leaf vol under two parents: dims { vol }, box { vol }
\*  (iv)  dims { vol } is required twice (a genuine duplicate: populated twice, same value)
\* dimsVol: Int!, dims.vol: Int, dims.wt: Int!, box.vol: Int
ReqP == << [f |-> "dimsVol", nn |-> TRUE], [f |-> "dims.vol", nn |-> FALSE], [f |-> "dims.wt", nn |-> TRUE],
          [f |-> "box.vol", nn |-> FALSE], [f |-> "dims.vol", nn |-> FALSE] >>
Req(t) == CASE t \in {"R", "Rm"} -> <<ReqW>>
            [] t \in {"R2", "Rm2"} -> <<ReqW, ReqN>>
            [] t \in {"R3", "Rm3"} -> <<ReqW, ReqN, ReqL>>
            [] t \in {"P", "Pm"} -> ReqP
            [] OTHER -> << >>
HasReq(t) == Req(t) # << >>
\* the distinct required paths of a type = the slots of the entity the population step fills, in
\* order of first appearance (a duplicated path is one slot)
RECURSIVE Dedup(_, _)
Dedup(sq, seen) == IF sq = << >> THEN << >>
                   ELSE IF Head(sq).f \in seen THEN Dedup(Tail(sq), seen)
                   ELSE <<Head(sq).f>> \o Dedup(Tail(sq), seen \cup {Head(sq).f})
SlotsTab == [t \in {"S", "K", "N", "M", "R", "Rm", "R2", "Rm2", "R3", "Rm3", "C", "Cm", "N2", "K2", "P", "Pm", "Zz", ""}
               |-> Dedup(Req(t), {})]
Slots(t) == SlotsTab[t]
BatchRes == {"findManyMByIDs", "findManyMByAlts", "findManyRmByIDs", "findManyRm2ByIDs", "findManyRm3ByIDs",
             "findManyCmByPAndQs", "findManyPmByIDs"}

\* entity resolvers in declaration order (= order of the @key directives), with their key fields;
\* nn: the key fields are non-null types (unmarshalling a missing / null value FAILS for those,
\* and yields a null key for nullable ones - only the batch path can get there, see PlanPinned)
Res(t) ==
  CASE t = "S"  -> << [n |-> "findSByID", f |-> {"id"}, nn |-> TRUE] >>
    [] t = "K"  -> << [n |-> "findKByA", f |-> {"a"}, nn |-> FALSE], [n |-> "findKByBAndC", f |-> {"b", "c"}, nn |-> FALSE] >>
    [] t = "N"  -> << [n |-> "findNByOid", f |-> {"o.id"}, nn |-> TRUE] >>
    [] t = "M"  -> << [n |-> "findManyMByIDs", f |-> {"id"}, nn |-> TRUE], [n |-> "findManyMByAlts", f |-> {"alt"}, nn |-> FALSE] >>
    [] t = "R"  -> << [n |-> "findRByID", f |-> {"id"}, nn |-> TRUE] >>
    [] t = "Rm" -> << [n |-> "findManyRmByIDs", f |-> {"id"}, nn |-> TRUE] >>
    [] t = "R2" -> << [n |-> "findR2ByID", f |-> {"id"}, nn |-> TRUE] >>
    [] t = "Rm2" -> << [n |-> "findManyRm2ByIDs", f |-> {"id"}, nn |-> TRUE] >>
    [] t = "R3" -> << [n |-> "findR3ByID", f |-> {"id"}, nn |-> TRUE] >>
    [] t = "Rm3" -> << [n |-> "findManyRm3ByIDs", f |-> {"id"}, nn |-> TRUE] >>
    [] t = "C"  -> << [n |-> "findCByPAndQ", f |-> {"p", "q"}, nn |-> FALSE] >>
    [] t = "Cm" -> << [n |-> "findManyCmByPAndQs", f |-> {"p", "q"}, nn |-> FALSE] >>
    [] t = "N2" -> << [n |-> "findN2ByOAAndOb", f |-> {"o.a", "o.b"}, nn |-> FALSE] >>
    [] t = "K2" -> << [n |-> "findK2ByBAndC", f |-> {"b", "c"}, nn |-> FALSE], [n |-> "findK2ByA", f |-> {"a"}, nn |-> FALSE] >>
    [] t = "P"  -> << [n |-> "findPByID", f |-> {"id"}, nn |-> TRUE] >>
    [] t = "Pm" -> << [n |-> "findManyPmByIDs", f |-> {"id"}, nn |-> TRUE] >>
    [] OTHER    -> << >>

\* Representation kinds: t = __typename ("" = missing / not a string), k = status of key fields
\* ("v" a value, "null", "bad" = the parent of a nested key is not an object; absent = not in DOMAIN k),
\* q = status of every field a @requires needs ("v" a well-formed value, "bad" a value of the wrong
\* JSON type, "null" an explicit null, "absent"). "<T>:<j><s>": the j-th required field of type T
\* is bad / null / absent, everything else well-formed.
KindDef(name) ==
  CASE name = "S" -> [t |-> "S", k |-> [id |-> "v"], q |-> << >>]
    [] name = "Smiss" -> [t |-> "S", k |-> << >>, q |-> << >>]
    [] name = "Snull" -> [t |-> "S", k |-> [id |-> "null"], q |-> << >>]
    [] name = "Ka" -> [t |-> "K", k |-> [a |-> "v"], q |-> << >>]
    [] name = "Kbc" -> [t |-> "K", k |-> [b |-> "v", c |-> "v"], q |-> << >>]
    [] name = "Kboth" -> [t |-> "K", k |-> [a |-> "v", b |-> "v", c |-> "v"], q |-> << >>]
    [] name = "Kanull" -> [t |-> "K", k |-> [a |-> "null", b |-> "v", c |-> "v"], q |-> << >>]
    [] name = "Kb" -> [t |-> "K", k |-> [b |-> "v"], q |-> << >>]
    [] name = "N" -> [t |-> "N", k |-> ("o.id" :> "v"), q |-> << >>]
    [] name = "Nbad" -> [t |-> "N", k |-> ("o.id" :> "bad"), q |-> << >>]
    [] name = "Nmiss" -> [t |-> "N", k |-> << >>, q |-> << >>]
    [] name = "Mid" -> [t |-> "M", k |-> [id |-> "v"], q |-> << >>]
    [] name = "Malt" -> [t |-> "M", k |-> [alt |-> "v"], q |-> << >>]
    [] name = "Mmiss" -> [t |-> "M", k |-> << >>, q |-> << >>]
    [] name = "U" -> [t |-> "Zz", k |-> [id |-> "v"], q |-> << >>]
    [] name = "T0" -> [t |-> "", k |-> [id |-> "v"], q |-> << >>]
    [] name = "R" -> [t |-> "R", k |-> [id |-> "v"], q |-> [w |-> "v"]]
    [] name = "R:1b" -> [t |-> "R", k |-> [id |-> "v"], q |-> [w |-> "bad"]]
    [] name = "R:1n" -> [t |-> "R", k |-> [id |-> "v"], q |-> [w |-> "null"]]
    [] name = "R:1a" -> [t |-> "R", k |-> [id |-> "v"], q |-> [w |-> "absent"]]
    [] name = "Rm" -> [t |-> "Rm", k |-> [id |-> "v"], q |-> [w |-> "v"]]
    [] name = "Rm:1b" -> [t |-> "Rm", k |-> [id |-> "v"], q |-> [w |-> "bad"]]
    [] name = "Rm:1n" -> [t |-> "Rm", k |-> [id |-> "v"], q |-> [w |-> "null"]]
    [] name = "Rm:1a" -> [t |-> "Rm", k |-> [id |-> "v"], q |-> [w |-> "absent"]]
    [] name = "R2" -> [t |-> "R2", k |-> [id |-> "v"], q |-> [w |-> "v", n |-> "v"]]
    [] name = "R2:1b" -> [t |-> "R2", k |-> [id |-> "v"], q |-> [w |-> "bad", n |-> "v"]]
    [] name = "R2:1n" -> [t |-> "R2", k |-> [id |-> "v"], q |-> [w |-> "null", n |-> "v"]]
    [] name = "R2:1a" -> [t |-> "R2", k |-> [id |-> "v"], q |-> [w |-> "absent", n |-> "v"]]
    [] name = "R2:2b" -> [t |-> "R2", k |-> [id |-> "v"], q |-> [w |-> "v", n |-> "bad"]]
    [] name = "R2:2n" -> [t |-> "R2", k |-> [id |-> "v"], q |-> [w |-> "v", n |-> "null"]]
    [] name = "R2:2a" -> [t |-> "R2", k |-> [id |-> "v"], q |-> [w |-> "v", n |-> "absent"]]
    [] name = "Rm2" -> [t |-> "Rm2", k |-> [id |-> "v"], q |-> [w |-> "v", n |-> "v"]]
    [] name = "Rm2:1b" -> [t |-> "Rm2", k |-> [id |-> "v"], q |-> [w |-> "bad", n |-> "v"]]
    [] name = "Rm2:1n" -> [t |-> "Rm2", k |-> [id |-> "v"], q |-> [w |-> "null", n |-> "v"]]
    [] name = "Rm2:1a" -> [t |-> "Rm2", k |-> [id |-> "v"], q |-> [w |-> "absent", n |-> "v"]]
    [] name = "Rm2:2b" -> [t |-> "Rm2", k |-> [id |-> "v"], q |-> [w |-> "v", n |-> "bad"]]
    [] name = "Rm2:2n" -> [t |-> "Rm2", k |-> [id |-> "v"], q |-> [w |-> "v", n |-> "null"]]
    [] name = "Rm2:2a" -> [t |-> "Rm2", k |-> [id |-> "v"], q |-> [w |-> "v", n |-> "absent"]]
    [] name = "R3" -> [t |-> "R3", k |-> [id |-> "v"], q |-> [w |-> "v", n |-> "v", l |-> "v"]]
    [] name = "R3:1b" -> [t |-> "R3", k |-> [id |-> "v"], q |-> [w |-> "bad", n |-> "v", l |-> "v"]]
    [] name = "R3:1n" -> [t |-> "R3", k |-> [id |-> "v"], q |-> [w |-> "null", n |-> "v", l |-> "v"]]
    [] name = "R3:1a" -> [t |-> "R3", k |-> [id |-> "v"], q |-> [w |-> "absent", n |-> "v", l |-> "v"]]
    [] name = "R3:2b" -> [t |-> "R3", k |-> [id |-> "v"], q |-> [w |-> "v", n |-> "bad", l |-> "v"]]
    [] name = "R3:2n" -> [t |-> "R3", k |-> [id |-> "v"], q |-> [w |-> "v", n |-> "null", l |-> "v"]]
    [] name = "R3:2a" -> [t |-> "R3", k |-> [id |-> "v"], q |-> [w |-> "v", n |-> "absent", l |-> "v"]]
    [] name = "R3:3b" -> [t |-> "R3", k |-> [id |-> "v"], q |-> [w |-> "v", n |-> "v", l |-> "bad"]]
    [] name = "R3:3n" -> [t |-> "R3", k |-> [id |-> "v"], q |-> [w |-> "v", n |-> "v", l |-> "null"]]
    [] name = "R3:3a" -> [t |-> "R3", k |-> [id |-> "v"], q |-> [w |-> "v", n |-> "v", l |-> "absent"]]
    [] name = "Rm3" -> [t |-> "Rm3", k |-> [id |-> "v"], q |-> [w |-> "v", n |-> "v", l |-> "v"]]
    [] name = "Rm3:1b" -> [t |-> "Rm3", k |-> [id |-> "v"], q |-> [w |-> "bad", n |-> "v", l |-> "v"]]
    [] name = "Rm3:1n" -> [t |-> "Rm3", k |-> [id |-> "v"], q |-> [w |-> "null", n |-> "v", l |-> "v"]]
    [] name = "Rm3:1a" -> [t |-> "Rm3", k |-> [id |-> "v"], q |-> [w |-> "absent", n |-> "v", l |-> "v"]]
    [] name = "Rm3:2b" -> [t |-> "Rm3", k |-> [id |-> "v"], q |-> [w |-> "v", n |-> "bad", l |-> "v"]]
    [] name = "Rm3:2n" -> [t |-> "Rm3", k |-> [id |-> "v"], q |-> [w |-> "v", n |-> "null", l |-> "v"]]
    [] name = "Rm3:2a" -> [t |-> "Rm3", k |-> [id |-> "v"], q |-> [w |-> "v", n |-> "absent", l |-> "v"]]
    [] name = "Rm3:3b" -> [t |-> "Rm3", k |-> [id |-> "v"], q |-> [w |-> "v", n |-> "v", l |-> "bad"]]
    [] name = "Rm3:3n" -> [t |-> "Rm3", k |-> [id |-> "v"], q |-> [w |-> "v", n |-> "v", l |-> "null"]]
    [] name = "Rm3:3a" -> [t |-> "Rm3", k |-> [id |-> "v"], q |-> [w |-> "v", n |-> "v", l |-> "absent"]]
    [] name = "C" -> [t |-> "C", k |-> [p |-> "v", q |-> "v"], q |-> << >>]
    [] name = "C:vn" -> [t |-> "C", k |-> [p |-> "v", q |-> "null"], q |-> << >>]
    [] name = "C:nv" -> [t |-> "C", k |-> [p |-> "null", q |-> "v"], q |-> << >>]
    [] name = "C:nn" -> [t |-> "C", k |-> [p |-> "null", q |-> "null"], q |-> << >>]
    [] name = "C:va" -> [t |-> "C", k |-> [p |-> "v"], q |-> << >>]
    [] name = "C:av" -> [t |-> "C", k |-> [q |-> "v"], q |-> << >>]
    [] name = "C:na" -> [t |-> "C", k |-> [p |-> "null"], q |-> << >>]
    [] name = "Cm" -> [t |-> "Cm", k |-> [p |-> "v", q |-> "v"], q |-> << >>]
    [] name = "Cm:vn" -> [t |-> "Cm", k |-> [p |-> "v", q |-> "null"], q |-> << >>]
    [] name = "Cm:nv" -> [t |-> "Cm", k |-> [p |-> "null", q |-> "v"], q |-> << >>]
    [] name = "Cm:nn" -> [t |-> "Cm", k |-> [p |-> "null", q |-> "null"], q |-> << >>]
    [] name = "Cm:va" -> [t |-> "Cm", k |-> [p |-> "v"], q |-> << >>]
    [] name = "Cm:av" -> [t |-> "Cm", k |-> [q |-> "v"], q |-> << >>]
    [] name = "Cm:na" -> [t |-> "Cm", k |-> [p |-> "null"], q |-> << >>]
    [] name = "N2" -> [t |-> "N2", k |-> ("o.a" :> "v" @@ "o.b" :> "v"), q |-> << >>]
    [] name = "N2:vn" -> [t |-> "N2", k |-> ("o.a" :> "v" @@ "o.b" :> "null"), q |-> << >>]
    [] name = "N2:nv" -> [t |-> "N2", k |-> ("o.a" :> "null" @@ "o.b" :> "v"), q |-> << >>]
    [] name = "N2:nn" -> [t |-> "N2", k |-> ("o.a" :> "null" @@ "o.b" :> "null"), q |-> << >>]
    [] name = "N2:va" -> [t |-> "N2", k |-> ("o.a" :> "v"), q |-> << >>]
    [] name = "N2:av" -> [t |-> "N2", k |-> ("o.b" :> "v"), q |-> << >>]
    [] name = "N2:na" -> [t |-> "N2", k |-> ("o.a" :> "null"), q |-> << >>]
    [] name = "N2:bad" -> [t |-> "N2", k |-> ("o.a" :> "bad" @@ "o.b" :> "bad"), q |-> << >>]
    [] name = "Kbcn" -> [t |-> "K", k |-> [b |-> "v", c |-> "null"], q |-> << >>]
    [] name = "Kbnc" -> [t |-> "K", k |-> [b |-> "null", c |-> "v"], q |-> << >>]
    [] name = "Kbncn" -> [t |-> "K", k |-> [b |-> "null", c |-> "null"], q |-> << >>]
    [] name = "Kanbcn" -> [t |-> "K", k |-> [a |-> "null", b |-> "v", c |-> "null"], q |-> << >>]
    [] name = "K2" -> [t |-> "K2", k |-> [a |-> "v", b |-> "v", c |-> "v"], q |-> << >>]
    [] name = "K2:cn" -> [t |-> "K2", k |-> [a |-> "v", b |-> "v", c |-> "null"], q |-> << >>]
    [] name = "K2:cn-" -> [t |-> "K2", k |-> [b |-> "v", c |-> "null"], q |-> << >>]
    [] name = "K2:bncn" -> [t |-> "K2", k |-> [a |-> "v", b |-> "null", c |-> "null"], q |-> << >>]
    [] name = "K2:ca" -> [t |-> "K2", k |-> [a |-> "v", b |-> "v"], q |-> << >>]
    [] name = "S:kb" -> [t |-> "S", k |-> [id |-> "badv"], q |-> << >>]
    [] name = "Mid:kb" -> [t |-> "M", k |-> [id |-> "badv"], q |-> << >>]
    [] name = "C:vb" -> [t |-> "C", k |-> [p |-> "v", q |-> "badv"], q |-> << >>]
    [] name = "Cm:vb" -> [t |-> "Cm", k |-> [p |-> "v", q |-> "badv"], q |-> << >>]
    [] name = "Cm:bv" -> [t |-> "Cm", k |-> [p |-> "badv", q |-> "v"], q |-> << >>]
    [] name = "Rmnull" -> [t |-> "Rm", k |-> [id |-> "null"], q |-> [w |-> "v"]]
    [] name = "P" -> [t |-> "P", k |-> [id |-> "v"], q |-> ("dimsVol" :> "v" @@ "dims.vol" :> "v" @@ "dims.wt" :> "v" @@ "box.vol" :> "v")]
    [] name = "P:1b" -> [t |-> "P", k |-> [id |-> "v"], q |-> ("dimsVol" :> "bad" @@ "dims.vol" :> "v" @@ "dims.wt" :> "v" @@ "box.vol" :> "v")]
    [] name = "P:1n" -> [t |-> "P", k |-> [id |-> "v"], q |-> ("dimsVol" :> "null" @@ "dims.vol" :> "v" @@ "dims.wt" :> "v" @@ "box.vol" :> "v")]
    [] name = "P:1a" -> [t |-> "P", k |-> [id |-> "v"], q |-> ("dimsVol" :> "absent" @@ "dims.vol" :> "v" @@ "dims.wt" :> "v" @@ "box.vol" :> "v")]
    [] name = "P:2b" -> [t |-> "P", k |-> [id |-> "v"], q |-> ("dimsVol" :> "v" @@ "dims.vol" :> "bad" @@ "dims.wt" :> "v" @@ "box.vol" :> "v")]
    [] name = "P:2n" -> [t |-> "P", k |-> [id |-> "v"], q |-> ("dimsVol" :> "v" @@ "dims.vol" :> "null" @@ "dims.wt" :> "v" @@ "box.vol" :> "v")]
    [] name = "P:2a" -> [t |-> "P", k |-> [id |-> "v"], q |-> ("dimsVol" :> "v" @@ "dims.vol" :> "absent" @@ "dims.wt" :> "v" @@ "box.vol" :> "v")]
    [] name = "P:3b" -> [t |-> "P", k |-> [id |-> "v"], q |-> ("dimsVol" :> "v" @@ "dims.vol" :> "v" @@ "dims.wt" :> "bad" @@ "box.vol" :> "v")]
    [] name = "P:3n" -> [t |-> "P", k |-> [id |-> "v"], q |-> ("dimsVol" :> "v" @@ "dims.vol" :> "v" @@ "dims.wt" :> "null" @@ "box.vol" :> "v")]
    [] name = "P:3a" -> [t |-> "P", k |-> [id |-> "v"], q |-> ("dimsVol" :> "v" @@ "dims.vol" :> "v" @@ "dims.wt" :> "absent" @@ "box.vol" :> "v")]
    [] name = "P:4b" -> [t |-> "P", k |-> [id |-> "v"], q |-> ("dimsVol" :> "v" @@ "dims.vol" :> "v" @@ "dims.wt" :> "v" @@ "box.vol" :> "bad")]
    [] name = "P:4n" -> [t |-> "P", k |-> [id |-> "v"], q |-> ("dimsVol" :> "v" @@ "dims.vol" :> "v" @@ "dims.wt" :> "v" @@ "box.vol" :> "null")]
    [] name = "P:4a" -> [t |-> "P", k |-> [id |-> "v"], q |-> ("dimsVol" :> "v" @@ "dims.vol" :> "v" @@ "dims.wt" :> "v" @@ "box.vol" :> "absent")]
    [] name = "Pm" -> [t |-> "Pm", k |-> [id |-> "v"], q |-> ("dimsVol" :> "v" @@ "dims.vol" :> "v" @@ "dims.wt" :> "v" @@ "box.vol" :> "v")]
    [] name = "Pm:1b" -> [t |-> "Pm", k |-> [id |-> "v"], q |-> ("dimsVol" :> "bad" @@ "dims.vol" :> "v" @@ "dims.wt" :> "v" @@ "box.vol" :> "v")]
    [] name = "Pm:1n" -> [t |-> "Pm", k |-> [id |-> "v"], q |-> ("dimsVol" :> "null" @@ "dims.vol" :> "v" @@ "dims.wt" :> "v" @@ "box.vol" :> "v")]
    [] name = "Pm:1a" -> [t |-> "Pm", k |-> [id |-> "v"], q |-> ("dimsVol" :> "absent" @@ "dims.vol" :> "v" @@ "dims.wt" :> "v" @@ "box.vol" :> "v")]
    [] name = "Pm:2b" -> [t |-> "Pm", k |-> [id |-> "v"], q |-> ("dimsVol" :> "v" @@ "dims.vol" :> "bad" @@ "dims.wt" :> "v" @@ "box.vol" :> "v")]
    [] name = "Pm:2n" -> [t |-> "Pm", k |-> [id |-> "v"], q |-> ("dimsVol" :> "v" @@ "dims.vol" :> "null" @@ "dims.wt" :> "v" @@ "box.vol" :> "v")]
    [] name = "Pm:2a" -> [t |-> "Pm", k |-> [id |-> "v"], q |-> ("dimsVol" :> "v" @@ "dims.vol" :> "absent" @@ "dims.wt" :> "v" @@ "box.vol" :> "v")]
    [] name = "Pm:3b" -> [t |-> "Pm", k |-> [id |-> "v"], q |-> ("dimsVol" :> "v" @@ "dims.vol" :> "v" @@ "dims.wt" :> "bad" @@ "box.vol" :> "v")]
    [] name = "Pm:3n" -> [t |-> "Pm", k |-> [id |-> "v"], q |-> ("dimsVol" :> "v" @@ "dims.vol" :> "v" @@ "dims.wt" :> "null" @@ "box.vol" :> "v")]
    [] name = "Pm:3a" -> [t |-> "Pm", k |-> [id |-> "v"], q |-> ("dimsVol" :> "v" @@ "dims.vol" :> "v" @@ "dims.wt" :> "absent" @@ "box.vol" :> "v")]
    [] name = "Pm:4b" -> [t |-> "Pm", k |-> [id |-> "v"], q |-> ("dimsVol" :> "v" @@ "dims.vol" :> "v" @@ "dims.wt" :> "v" @@ "box.vol" :> "bad")]
    [] name = "Pm:4n" -> [t |-> "Pm", k |-> [id |-> "v"], q |-> ("dimsVol" :> "v" @@ "dims.vol" :> "v" @@ "dims.wt" :> "v" @@ "box.vol" :> "null")]
    [] name = "Pm:4a" -> [t |-> "Pm", k |-> [id |-> "v"], q |-> ("dimsVol" :> "v" @@ "dims.vol" :> "v" @@ "dims.wt" :> "v" @@ "box.vol" :> "absent")]
    [] name = "P:2p" -> [t |-> "P", k |-> [id |-> "v"], q |-> ("dimsVol" :> "v" @@ "dims.vol" :> "pnull" @@ "dims.wt" :> "pnull" @@ "box.vol" :> "v")]
    [] name = "Pm:2p" -> [t |-> "Pm", k |-> [id |-> "v"], q |-> ("dimsVol" :> "v" @@ "dims.vol" :> "pnull" @@ "dims.wt" :> "pnull" @@ "box.vol" :> "v")]
AllKinds == {"S", "Smiss", "Snull", "Ka", "Kbc", "Kboth", "Kanull", "Kb",
             "N", "Nbad", "Nmiss", "Mid", "Malt", "Mmiss", "U", "T0",
             "R", "R:1b", "R:1n", "R:1a", "Rm", "Rm:1b", "Rm:1n", "Rm:1a",
             "R2", "R2:1b", "R2:1n", "R2:1a", "R2:2b", "R2:2n", "R2:2a", "Rm2",
             "Rm2:1b", "Rm2:1n", "Rm2:1a", "Rm2:2b", "Rm2:2n", "Rm2:2a", "R3", "R3:1b",
             "R3:1n", "R3:1a", "R3:2b", "R3:2n", "R3:2a", "R3:3b", "R3:3n", "R3:3a",
             "Rm3", "Rm3:1b", "Rm3:1n", "Rm3:1a", "Rm3:2b", "Rm3:2n", "Rm3:2a", "Rm3:3b",
             "Rm3:3n", "Rm3:3a", "Rmnull",
             "C", "C:vn", "C:nv", "C:nn", "C:va", "C:av", "C:na", "Cm", "Cm:vn", "Cm:nv", "Cm:nn", "Cm:va",
             "Cm:av", "Cm:na", "N2", "N2:vn", "N2:nv", "N2:nn", "N2:va", "N2:av", "N2:na", "N2:bad", "Kbcn", "Kbnc", "Kbncn", "Kanbcn", "K2", "K2:cn", "K2:cn-", "K2:bncn", "K2:ca",
             "S:kb", "Mid:kb", "C:vb", "Cm:vb", "Cm:bv",
             "P", "P:1b", "P:1n", "P:1a", "P:2b", "P:2n", "P:2a", "P:3b", "P:3n", "P:3a", "P:4b",
             "P:4n", "P:4a", "Pm", "Pm:1b", "Pm:1n", "Pm:1a", "Pm:2b", "Pm:2n", "Pm:2a", "Pm:3b",
             "Pm:3n", "Pm:3a", "Pm:4b", "Pm:4n", "Pm:4a", "P:2p", "Pm:2p"}
\* (a constant table: TLC evaluates it once, instead of scanning the CASE at every use)
KindTab == [kn \in AllKinds |-> KindDef(kn)]
Kind(name) == KindTab[name]
ReqKinds == {kn \in AllKinds : Kind(kn).q # << >>}

\* an element: the resolver that produced it, the index its key names, the index its @requires
\* values name, and per slot (distinct required path) of its type the value that slot holds:
\* [i, p] = "the value representation i carried for path p", [0, 0] = null
Null == [r |-> "", i |-> 0, w |-> 0, ps |-> << >>]
Ent(r, i, w, ps) == [r |-> r, i |-> i, w |-> w, ps |-> ps]
NoVal == [i |-> 0, p |-> 0]

Min(S) == CHOOSE x \in S : \A y \in S : x <= y
RECURSIVE AscSeq(_)
AscSeq(S) == IF S = {} THEN << >> ELSE LET m == Min(S) IN <<m>> \o AscSeq(S \ {m})

\* entityResolverNameFor<T>, exactly as the template does it: a resolver is usable for a
\* representation iff EVERY leaf of its key is PRESENT in the representation (explicit null counts
\* as present, a missing leaf or a missing / non-object nested parent does not) and NOT ALL of its
\* leaves are null. So {aisle:"B", bay:null} is a usable composite key, {aisle:"B"} is not.
\* A leaf status "badv" is a present, non-null value of the wrong JSON type: the resolver is
\* usable, but unmarshalling the key for it fails (KeyOK).
Usable(r, kd) ==
  /\ \A f \in r.f : f \in DOMAIN kd.k /\ kd.k[f] # "bad"
  /\ \E f \in r.f : kd.k[f] \in {"v", "badv"}
KeyOK(r, kd) == \A f \in r.f : f \in DOMAIN kd.k => (kd.k[f] # "badv" /\ ~(r.nn /\ kd.k[f] = "null"))
UsableIdx(kd) == {j \in 1..Len(Res(kd.t)) : Usable(Res(kd.t)[j], kd)}
FirstUsable(kd) == IF UsableIdx(kd) = {} THEN 0 ELSE Min(UsableIdx(kd))
\* the key handed to resolver r for representation i names i when i carries a value for at least
\* one of r's key leaves (a usable composite key may have null leaves: the resolver then gets null
\* for those - which leaves are null is checked by the driver against the kind); 0 = an empty key
KeyIdx(r, kd, i) == IF \E f \in r.f : f \in DOMAIN kd.k /\ kd.k[f] = "v" THEN i ELSE 0

\* can the values representation kd carries be coerced to its required fields?
ReqOK(kd) == \A j \in 1..Len(Req(kd.t)) :
               LET rq == Req(kd.t)[j] IN kd.q[rq.f] = "v" \/ (~rq.nn /\ kd.q[rq.f] \in {"null", "absent"})
\* (round 4b) status "pnull" of a nested path: the representation carries `"<parent>": null`, so every
\* path under that parent is unavailable - a malformed required value of THAT representation
\* (not "v" / "null" / "absent": ReqOK fails, Populate / PsIdeal give no value), like "bad"
ParentNull(kd) == \E f \in DOMAIN kd.q : kd.q[f] = "pnull"
\* the index the echoed @requires values name (0: the representation carries none)
WIdx(kd, i) == IF \E f \in DOMAIN kd.q : kd.q[f] = "v" THEN i ELSE 0
\* THE REQUIRES-POPULATION STEP (resolveEntity inline / the populator / the zip of
\* resolveManyEntities), for a representation whose values coerce (ReqOK): one assignment per
\* entry of Req(t), in order, each from the value representation i carries for THAT path - so slot
\* s ends up holding (i, s) when the representation carries a value for path s, and null when it
\* carries null / nothing for a nullable path. Assigning a duplicated path twice changes nothing.
RECURSIVE Populate(_, _, _, _)
Populate(ent, rq, kd, i) ==
  IF rq = << >> THEN ent
  ELSE LET f == Head(rq).f
           s == CHOOSE x \in 1..Len(Slots(kd.t)) : Slots(kd.t)[x] = f IN
       Populate([ent EXCEPT ![s] = IF kd.q[f] = "v" THEN [i |-> i, p |-> s] ELSE NoVal], Tail(rq), kd, i)
PsOf(kd, i) == IF Slots(kd.t) = << >> THEN << >>
               ELSE Populate([s \in 1..Len(Slots(kd.t)) |-> NoVal], Req(kd.t), kd, i)
\* what the property prescribes, stated without the algorithm: every slot holds the value
\* representation i carries for that slot's own path
PsIdeal(kd, i) == IF Slots(kd.t) = << >> THEN << >>
                  ELSE [s \in 1..Len(Slots(kd.t)) |->
                          IF kd.q[Slots(kd.t)[s]] = "v" THEN [i |-> i, p |-> s] ELSE NoVal]

N == Len(reps)
Idx == 1..N
K(i) == Kind(reps[i])
T(i) == K(i).t
TN == {T(i) : i \in Idx} \ {""}
G(t) == AscSeq({i \in Idx : T(i) = t})      \* the group of typename t, original indices in order
Range(s) == {s[j] : j \in 1..Len(s)}

-----------------------------------------------------------------------------
\* Scenario space.
Callable(kn) == LET kd == Kind(kn) IN kd.t \in Types /\ FirstUsable(kd) # 0
                                       /\ KeyOK(Res(kd.t)[FirstUsable(kd)], kd)
OutDefault(kn) == IF Callable(kn) THEN "ent" ELSE "-"
OutFaults(kn) ==
  LET kd == Kind(kn) IN
  IF ~Callable(kn) THEN {}
  ELSE IF Multi(kd.t) THEN Outcomes \cap {"nil"}
  ELSE Outcomes \ {"ent"}
\* batch resolvers some representation of the list would (ideally) be answered by
Invoked(rs) == {Res(Kind(rs[i]).t)[FirstUsable(Kind(rs[i]))].n :
                  i \in {i \in 1..Len(rs) : Callable(rs[i]) /\ Multi(Kind(rs[i]).t)}}

Init ==
  /\ \E n \in 0..MaxLen : reps \in [1..n -> Alphabet]
  /\ \E fp \in SUBSET (1..Len(reps)) :
       /\ Cardinality(fp) <= MaxFaults
       /\ \A i \in fp : OutFaults(reps[i]) # {}
       /\ \E fo \in [fp -> Outcomes \ {"ent"}] :
            /\ \A i \in fp : fo[i] \in OutFaults(reps[i])
            /\ out = [i \in 1..Len(reps) |-> IF i \in fp THEN fo[i] ELSE OutDefault(reps[i])]
       /\ \E bf \in Invoked(reps) \cup {"none"} :
            /\ (bf # "none" => Cardinality(fp) < MaxFaults)
            /\ \E bo \in (IF bf = "none" THEN {"ok"} ELSE BatchOutcomes \ {"ok"}) :
                 bout = [r \in BatchRes |-> IF r = bf THEN bo ELSE "ok"]
  /\ pc = "build"
  /\ gst = [t \in AllT |-> "none"]
  /\ gq = [t \in AllT |-> << >>]
  /\ gres = [t \in AllT |-> << >>]
  /\ gz = [t \in AllT |-> 0]
  /\ est = [i \in 1..Len(reps) |-> "none"]
  /\ list = [i \in 1..Len(reps) |-> Null]
  /\ errs = 0 /\ recs = 0
  /\ order = << >>

-----------------------------------------------------------------------------
\* The algorithm.

\* __resolve_entities up to the dispatch: one error per representation without a typename
Build ==
  /\ pc = "build"
  /\ errs' = errs + Cardinality({i \in Idx : T(i) = ""})
  /\ pc' = (IF TN = {} THEN "done" ELSE "wait")
  /\ gst' = [t \in AllT |-> IF t \in TN THEN "ready" ELSE "none"]
  /\ UNCHANGED <<reps, out, bout, gq, gres, gz, est, list, recs, order>>

\* the key indices resolver r receives for the representations ix
Keys(r, ix) == [j \in 1..Len(ix) |-> KeyIdx(r, K(ix[j]), ix[j])]

\* pinned: the resolver of reps[0] for the whole group; the keys of EVERY representation of the
\* group are unmarshalled for that resolver: a representation that lacks a non-null key field
\* makes resolveManyEntities return `Field ... undefined in schema.` (nobody is resolved), one
\* that lacks a nullable key field is handed over with a null key
PlanPinned(t) ==
  LET g == G(t)  fu == FirstUsable(K(g[1])) IN
  IF fu = 0 THEN [bad |-> 1, q |-> << >>]
  ELSE LET r == Res(t)[fu]  ky == Keys(r, g) IN
       IF r.nn /\ \E j \in 1..Len(g) : ky[j] = 0 THEN [bad |-> 1, q |-> << >>]
       ELSE [bad |-> 0, q |-> << [r |-> r.n, ix |-> g, ky |-> ky, kf |-> FALSE] >>]

\* repaired: the resolver is chosen per representation; one call per resolver, the resolvers in
\* order of first appearance in the request, the inputs of a call in request order; a
\* representation without usable key gets its own error and stays null
\* (a representation whose key VALUE does not unmarshal for its resolver - KeyOK - makes the batch
\* body `return` before the call: pinned, the whole group of that resolver fails with one error,
\* kf; repaired, FixBadKey, that representation alone gets the error and is left out)
KeyBad(t, i) == FirstUsable(K(i)) # 0 /\ ~KeyOK(Res(t)[FirstUsable(K(i))], K(i))
PartOf(t, j) == AscSeq({i \in Range(G(t)) : FirstUsable(K(i)) = j /\ (FixBadKey => ~KeyBad(t, i))})
FirstOf(t, j) == Min({i \in Range(G(t)) : FirstUsable(K(i)) = j})
RECURSIVE PartsBy(_, _)
PartsBy(t, js) ==        \* js: resolver indices still to place
  IF js = {} THEN << >>
  ELSE LET j == CHOOSE x \in js : \A y \in js : FirstOf(t, x) <= FirstOf(t, y)
           ix == PartOf(t, j) IN
       (IF ix = << >> THEN << >>
        ELSE << [r |-> Res(t)[j].n, ix |-> ix, ky |-> Keys(Res(t)[j], ix),
                 kf |-> \E i \in Range(ix) : KeyBad(t, i)] >>)
       \o PartsBy(t, js \ {j})
PlanFixed(t) ==
  [bad |-> Cardinality({i \in Range(G(t)) : FirstUsable(K(i)) = 0})
           + (IF FixBadKey THEN Cardinality({i \in Range(G(t)) : KeyBad(t, i)}) ELSE 0),
   q |-> PartsBy(t, {FirstUsable(K(i)) : i \in Range(G(t))} \ {0})]

\* resolveEntityGroup
GroupStart(t) ==
  /\ gst[t] = "ready"
  /\ IF Multi(t)
       THEN LET p == IF FixFirstRep THEN PlanFixed(t) ELSE PlanPinned(t) IN
            /\ errs' = errs + p.bad
            /\ gq' = [gq EXCEPT ![t] = p.q]
            /\ gst' = [gst EXCEPT ![t] = "plan"]
            /\ UNCHANGED est
       ELSE /\ est' = [i \in Idx |-> IF T(i) = t THEN "ready" ELSE est[i]]
            /\ gst' = [gst EXCEPT ![t] = "wait"]
            /\ UNCHANGED <<errs, gq>>
  /\ UNCHANGED <<reps, out, bout, pc, gres, gz, list, recs, order>>

\* nothing (more) to call: resolveManyEntities returns
BatchNext(t) ==
  /\ gst[t] = "plan" /\ gq[t] = << >>
  /\ gst' = [gst EXCEPT ![t] = "done"]
  /\ UNCHANGED <<reps, out, bout, pc, gq, gres, gz, est, list, errs, recs, order>>

\* ec.resolvers.Entity().FindManyXByYs(ctx, typedReps) is entered
\* unmarshalling the keys of the next call fails: `return errors.New("Field ... undefined in schema.")`
BatchKeyFail(t) ==
  /\ gst[t] = "plan" /\ gq[t] # << >> /\ Head(gq[t]).kf
  /\ errs' = errs + 1
  /\ gq' = [gq EXCEPT ![t] = Tail(gq[t])]
  /\ UNCHANGED <<reps, out, bout, pc, gst, gres, gz, est, list, recs, order>>

BatchCall(t) ==
  /\ gst[t] = "plan" /\ gq[t] # << >> /\ ~Head(gq[t]).kf
  /\ gst' = [gst EXCEPT ![t] = "called"]
  /\ UNCHANGED <<reps, out, bout, pc, gq, gres, gz, est, list, errs, recs, order>>

BatchReturn(t) ==
  /\ gst[t] = "called"
  /\ LET p == Head(gq[t])  bo == bout[p.r]  n == Len(p.ix) IN
     /\ order' = Append(order, [r |-> p.r, i |-> 0])
     /\ CASE bo = "err" ->
               /\ errs' = errs + 1
               /\ gq' = [gq EXCEPT ![t] = Tail(gq[t])]
               /\ gst' = [gst EXCEPT ![t] = "plan"]
               /\ UNCHANGED <<recs, gres, gz>>
          [] bo = "panic" ->
               /\ errs' = errs + 1 /\ recs' = recs + 1
               /\ gq' = [gq EXCEPT ![t] = Tail(gq[t])]
               /\ gst' = [gst EXCEPT ![t] = "plan"]
               /\ UNCHANGED <<gres, gz>>
          [] OTHER ->
               LET m == IF bo = "short" THEN n - 1 ELSE IF bo = "long" THEN n + 1 ELSE n IN
               /\ gres' = [gres EXCEPT ![t] =
                    [j \in 1..m |-> IF j > n THEN "extra"
                                    \* "nil": the resolver finds nothing for THIS representation's key
                                    ELSE IF out[p.ix[j]] = "nil" /\ p.ky[j] = p.ix[j] THEN "nil" ELSE "ent"]]
               /\ gz' = [gz EXCEPT ![t] = 1]
               /\ gst' = [gst EXCEPT ![t] = "zip"]
               /\ UNCHANGED <<errs, recs, gq>>
  /\ UNCHANGED <<reps, out, bout, pc, est, list>>

\* one iteration of `for i, entity := range entities`
ZipStep(t) ==
  /\ gst[t] = "zip"
  /\ LET p == Head(gq[t])  j == gz[t]  EndCall == /\ gq' = [gq EXCEPT ![t] = Tail(gq[t])]
                                                  /\ gst' = [gst EXCEPT ![t] = "plan"] IN
     IF j > Len(gres[t])
       THEN \* loop ends; repaired: a short result is an error
            /\ errs' = (IF FixShort /\ Len(gres[t]) < Len(p.ix) THEN errs + 1 ELSE errs)
            /\ EndCall
            /\ UNCHANGED <<recs, list, gz>>
     ELSE IF j > Len(p.ix)
       THEN \* reps[i] out of range: panic, recovered by resolveManyEntities
            /\ errs' = errs + 1 /\ recs' = recs + 1
            /\ EndCall
            /\ UNCHANGED <<list, gz>>
     ELSE IF gres[t][j] = "nil" /\ HasReq(t) /\ ~FixNilReq
       THEN \* entity.W = ... on a nil entity: panic, recovered; the rest of the zip is lost
            /\ errs' = errs + 1 /\ recs' = recs + 1
            /\ EndCall
            /\ UNCHANGED <<list, gz>>
     ELSE IF gres[t][j] = "ent" /\ ~ReqOK(K(p.ix[j]))
       THEN \* a required value of reps[j] does not unmarshal: `return err` - pinned: out of the whole
            \* zip (the rest of the group is lost); repaired: this element stays null, the zip goes on
            /\ errs' = errs + 1
            /\ (IF FixBadReq THEN gz' = [gz EXCEPT ![t] = j + 1] /\ UNCHANGED <<gq, gst>>
                          ELSE EndCall /\ UNCHANGED gz)
            /\ UNCHANGED <<recs, list>>
     ELSE /\ list' = [list EXCEPT ![p.ix[j]] =
                        IF gres[t][j] = "nil" THEN Null
                        ELSE Ent(p.r, p.ky[j], WIdx(K(p.ix[j]), p.ix[j]), PsOf(K(p.ix[j]), p.ix[j]))]
          /\ gz' = [gz EXCEPT ![t] = j + 1]
          /\ UNCHANGED <<errs, recs, gq, gst>>
  /\ UNCHANGED <<reps, out, bout, pc, gres, est, order>>

\* unknown type, no usable resolver, or the key values do not unmarshal for the chosen resolver
NoCall(i) == IF T(i) \notin Types THEN TRUE
             ELSE IF FirstUsable(K(i)) = 0 THEN TRUE
             ELSE ~KeyOK(Res(T(i))[FirstUsable(K(i))], K(i))

\* resolveEntity fails before any call: unknown type, or no usable resolver
EntityFail(i) ==
  /\ i \in Idx
  /\ est[i] = "ready"
  /\ NoCall(i)
  /\ errs' = errs + 1
  /\ est' = [est EXCEPT ![i] = "done"]
  /\ UNCHANGED <<reps, out, bout, pc, gst, gq, gres, gz, list, recs, order>>

TheRes(i) == Res(T(i))[FirstUsable(K(i))]

\* ec.resolvers.Entity().FindXByY(ctx, keys...) is entered
EntityCall(i) ==
  /\ i \in Idx
  /\ est[i] = "ready"
  /\ ~NoCall(i)
  /\ est' = [est EXCEPT ![i] = "called"]
  /\ UNCHANGED <<reps, out, bout, pc, gst, gq, gres, gz, list, errs, recs, order>>

EntityReturn(i) ==
  /\ i \in Idx
  /\ est[i] = "called"
  /\ LET r == TheRes(i) IN
     /\ order' = Append(order, [r |-> r.n, i |-> KeyIdx(r, K(i), i)])
     /\ CASE out[i] = "err" -> errs' = errs + 1 /\ UNCHANGED <<recs, list>>
          [] out[i] = "panic" -> errs' = errs + 1 /\ recs' = recs + 1 /\ UNCHANGED list
          [] out[i] = "nil" ->
               IF HasReq(T(i)) /\ ReqInline
                 THEN errs' = errs + 1 /\ recs' = recs + 1 /\ UNCHANGED list   \* nil dereference, recovered
                                                                             \* (costs only this element)
                 ELSE UNCHANGED <<errs, recs, list>>                            \* a typed nil: null
          [] OTHER ->
               IF ~ReqOK(K(i))
                 THEN \* a required value does not coerce: inline `return nil, err`, the explicit populator's
                      \* error, or (computed_requires) the error of the non-null field's resolver
                      \* (round 4b) "pnull": the PARENT object of a nested path is null - the inline code's
                      \* failed type assertion on it is a panic, recovered for this element alone
                      /\ errs' = errs + 1 /\ UNCHANGED list
                      /\ recs' = recs + (IF ReqInline /\ ParentNull(K(i)) THEN 1 ELSE 0)
                 ELSE /\ list' = [list EXCEPT ![i] = Ent(r.n, KeyIdx(r, K(i), i), WIdx(K(i), i), PsOf(K(i), i))]
                      /\ UNCHANGED <<errs, recs>>
  /\ est' = [est EXCEPT ![i] = "done"]
  /\ UNCHANGED <<reps, out, bout, pc, gst, gq, gres, gz>>

GroupDone(t) ==
  /\ gst[t] = "wait"
  /\ \A i \in Idx : T(i) = t => est[i] = "done"
  /\ gst' = [gst EXCEPT ![t] = "done"]
  /\ UNCHANGED <<reps, out, bout, pc, gq, gres, gz, est, list, errs, recs, order>>

Finish ==
  /\ pc = "wait"
  /\ \A t \in TN : gst[t] = "done"
  /\ pc' = "done"
  /\ UNCHANGED <<reps, out, bout, gst, gq, gres, gz, est, list, errs, recs, order>>

\* (one disjunct per action and constant quantifier bounds, so that TLC's -coverage reports every
\* action by name; the driver requires each of them to have been taken)
Next ==
  \/ Build \/ Finish
  \/ \E t \in AllT : GroupStart(t)
  \/ \E t \in AllT : BatchNext(t)
  \/ \E t \in AllT : BatchKeyFail(t)
  \/ \E t \in AllT : BatchCall(t)
  \/ \E t \in AllT : BatchReturn(t)
  \/ \E t \in AllT : ZipStep(t)
  \/ \E t \in AllT : GroupDone(t)
  \/ \E i \in 1..MaxLen : EntityFail(i)
  \/ \E i \in 1..MaxLen : EntityCall(i)
  \/ \E i \in 1..MaxLen : EntityReturn(i)

Spec == Init /\ [][Next]_vars

-----------------------------------------------------------------------------
\* The property, independent of the algorithm.

\* resolvers that may answer representation i: those whose key fields it carries
Eligible(i) == IF T(i) \notin Types THEN {} ELSE {Res(T(i))[j].n : j \in UsableIdx(K(i))}
\* batch: the call that answers i, and the inputs of that call (all representations of the
\* same type answered by the same resolver, in request order)
MyRes(i) == TheRes(i).n
\* i carries a usable key whose value cannot be coerced for the resolver: fails on its own
KeyFail(i) == Eligible(i) # {} /\ ~KeyOK(TheRes(i), K(i))
Part(i) == AscSeq({j \in Idx : T(j) = T(i) /\ FirstUsable(K(j)) = FirstUsable(K(i)) /\ ~KeyFail(j)})
IsLast(i) == Part(i)[Len(Part(i))] = i

MultiTN == {t \in TN : Multi(t)}

\* the resolver delivers an entity for i, but i's required values cannot be coerced
ReqFail(i) ==
  /\ Eligible(i) # {} /\ ~KeyFail(i) /\ ~ReqOK(K(i)) /\ out[i] # "nil"
  /\ IF Multi(T(i)) THEN bout[MyRes(i)] \in {"ok", "long"} \/ (bout[MyRes(i)] = "short" /\ ~IsLast(i))
                    ELSE out[i] = "ent"

Failed(i) ==
  \/ Eligible(i) = {}                                      \* no typename, unknown type, no usable key
  \/ ReqFail(i)                                            \* never an entity with a zero value
  \/ KeyFail(i)
  \/ /\ Eligible(i) # {} /\ ~KeyFail(i) /\ ~Multi(T(i)) /\ out[i] \in {"err", "panic"}
  \/ /\ Eligible(i) # {} /\ ~KeyFail(i) /\ Multi(T(i))
     /\ \/ bout[MyRes(i)] \in {"err", "panic"}
        \/ bout[MyRes(i)] = "short" /\ IsLast(i)

ExpNull(i) == Failed(i) \/ out[i] = "nil"

ElemOK(i) ==
  IF ExpNull(i) THEN list[i] = Null
  ELSE /\ list[i].r \in Eligible(i)
       /\ list[i].i = i                                    \* resolved from i's own key
       /\ list[i].w = WIdx(K(i), i)                       \* @requires from i's own representation
       /\ list[i].ps = PsIdeal(K(i), i)                   \* every required path holds i's value for THAT path

\* failure units (each must be visible as an error of its own): every failing representation
\* that is resolved on its own, every failing batch call, every batch type some of whose
\* representations carry no usable key (the batch path may report those together)
FailUnits ==
  Cardinality({i \in Idx : Failed(i) /\ (T(i) \notin Types \/ ~Multi(T(i)))})
  + Cardinality({r \in BatchRes : bout[r] \in {"err", "panic", "short"}
                                  /\ \E i \in Idx : Eligible(i) # {} /\ ~KeyFail(i) /\ Multi(T(i)) /\ MyRes(i) = r})
  + Cardinality({r \in BatchRes : \E i \in Idx : Multi(T(i)) /\ KeyFail(i) /\ MyRes(i) = r})  \* (may be reported together)
  + Cardinality({t \in MultiTN : \E i \in Idx : T(i) = t /\ Eligible(i) = {}})
  + Cardinality({i \in Idx : Multi(T(i)) /\ ReqFail(i)})      \* "an error for THAT element"
\* situations in which an error beside intact elements is legitimate: a resolver that broke its
\* contract without losing anything (too many entities; nil for a non-null single result)
MayErr ==
  \/ \E i \in Idx : Eligible(i) # {} /\ ~KeyFail(i) /\ Multi(T(i)) /\ bout[MyRes(i)] = "long"
  \/ \E i \in Idx : out[i] = "nil" /\ HasReq(T(i))

CorrectBody ==
  /\ \A i \in Idx : ElemOK(i)
  /\ errs >= FailUnits
  /\ (FailUnits = 0 /\ ~MayErr => errs = 0)
Correct == pc = "done" => CorrectBody

\* The named deviations of the pinned tree, per batch type group.
FU(i) == FirstUsable(K(i))
PinnedRes(t) == Res(t)[FU(G(t)[1])].n
DevFirstInvalid(t) == FU(G(t)[1]) = 0 /\ \E j \in Range(G(t)) : FU(j) # 0
DevOtherKey(t) == FU(G(t)[1]) # 0 /\ \E j \in Range(G(t)) : FU(j) # FU(G(t)[1])
DevShort(t) == FU(G(t)[1]) # 0 /\ bout[PinnedRes(t)] = "short"
DevNilReq(t) == /\ HasReq(t) /\ FU(G(t)[1]) # 0 /\ bout[PinnedRes(t)] \in {"ok", "short", "long"}
                /\ \E j \in Range(G(t)) : out[j] = "nil" /\ FU(j) = FU(G(t)[1])
DevBadReq(t) == /\ HasReq(t) /\ FU(G(t)[1]) # 0 /\ bout[PinnedRes(t)] \in {"ok", "short", "long"}
                /\ \E j \in Range(G(t)) : ~ReqOK(K(j)) /\ out[j] # "nil" /\ FU(j) = FU(G(t)[1])
DevBadKey(t) == \E i \in Range(G(t)) : /\ KeyBad(t, i)
                                         /\ \E j \in Range(G(t)) : FU(j) = FU(i) /\ ~KeyBad(t, j)
Devs ==
  (IF ~FixBadKey /\ \E t \in MultiTN : DevBadKey(t) THEN {"bad-key"} ELSE {}) \cup
  (IF ~FixBadReq /\ \E t \in MultiTN : DevBadReq(t) THEN {"bad-requires"} ELSE {}) \cup
  (IF ~FixFirstRep /\ \E t \in MultiTN : DevFirstInvalid(t) THEN {"first-invalid"} ELSE {})
  \cup (IF ~FixFirstRep /\ \E t \in MultiTN : DevOtherKey(t) THEN {"other-key"} ELSE {})
  \cup (IF ~FixShort /\ \E t \in MultiTN : DevShort(t) THEN {"short"} ELSE {})
  \cup (IF ~FixNilReq /\ \E t \in MultiTN : DevNilReq(t) THEN {"nil-requires"} ELSE {})
\* the deviation classes a scenario lies in, whatever the Fix* constants say (the driver uses
\* them to name a regression of a repaired deviation by its old key)
DevsAll ==
  (IF \E t \in MultiTN : DevBadKey(t) THEN {"bad-key"} ELSE {}) \cup
  (IF \E t \in MultiTN : DevBadReq(t) THEN {"bad-requires"} ELSE {})
  \cup (IF \E t \in MultiTN : DevFirstInvalid(t) THEN {"first-invalid"} ELSE {})
  \cup (IF \E t \in MultiTN : DevOtherKey(t) THEN {"other-key"} ELSE {})
  \cup (IF \E t \in MultiTN : DevShort(t) THEN {"short"} ELSE {})
  \cup (IF \E t \in MultiTN : DevNilReq(t) THEN {"nil-requires"} ELSE {})
DevGroup(t) ==
  \/ ~FixFirstRep /\ (DevFirstInvalid(t) \/ DevOtherKey(t))
  \/ ~FixShort /\ DevShort(t)
  \/ ~FixNilReq /\ DevNilReq(t)
  \/ ~FixBadReq /\ DevBadReq(t)
  \/ ~FixBadKey /\ DevBadKey(t)

\* the pinned tree violates the property in the named situations only
CorrectModuloKnown ==
  pc = "done" =>
    /\ (Devs = {} => CorrectBody)
    /\ \A i \in Idx : (T(i) \notin MultiTN \/ ~DevGroup(T(i))) => ElemOK(i)

\* every representation is written by at most the task that owns it; nothing is written for a
\* representation that failed (checked in every state, not only at the end)
OwnIndexOnly ==
  \A i \in Idx : list[i] # Null =>
    /\ list[i].r \in {Res(T(i))[j].n : j \in 1..Len(Res(T(i)))}
    /\ (~Multi(T(i)) => list[i].i = i)

TypeOK ==
  /\ pc \in {"build", "wait", "done"}
  /\ \A t \in AllT : gst[t] \in {"none", "ready", "plan", "called", "zip", "wait", "done"}
  /\ \A i \in Idx : est[i] \in {"none", "ready", "called", "done"}
  /\ errs \in Nat /\ recs \in Nat /\ recs <= errs

-----------------------------------------------------------------------------
\* Export for the replay (configs *_emit: -workers 1): one line per terminal state =
\* (scenario, completion order) with what the model of the current code answers and what the
\* property prescribes for each index.
IdealAt(i) == [null |-> ExpNull(i), fail |-> Failed(i), rs |-> Eligible(i), i |-> i,
               w |-> WIdx(K(i), i), ps |-> PsIdeal(K(i), i)]
EmitDone ==
  pc = "done" =>
    PrintT(ToJson([reps |-> reps, out |-> out, bout |-> bout, order |-> order,
                   list |-> list, errs |-> errs, recs |-> recs,
                   ideal |-> [i \in Idx |-> IdealAt(i)], units |-> FailUnits, mayerr |-> MayErr,
                   devs |-> Devs, cls |-> DevsAll, inline |-> ReqInline]))
=============================================================================
