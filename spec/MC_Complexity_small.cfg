\* C14, theorems only, plain small integers with MAX = 19 (H = 9): sums of small costs saturate.
\* Not replayed (a 64-bit MAX cannot be reached by a bounded tree of small costs).
\* Measured: 253 trees, 27,097 inputs, 54,447 distinct states; ~10-25 s.
CONSTANTS
  MaxH = 0
  MaxD = 19
  MaxSize = 3
  MaxCustom = 2
  Corpus = "gen"
  Emit = FALSE
SPECIFICATION Spec
INVARIANTS TRange TDSmall TChildren TMonotone TPerm TFragment TDouble TGate TGateMono TBindState
CHECK_DEADLOCK FALSE
