\* strict: the property (no deviation admitted)
SPECIFICATION TraceSpec
CONSTANTS
  AllowDupStart = FALSE
  AllowSilentInit = FALSE
  AllowRestartRace = FALSE
  AllowLateStart = FALSE
  AllowDoubleError = FALSE
  SInsts = {}
  SIds = {}
  SK = 0
CONSTRAINT HighWater
INVARIANT TraceInv
POSTCONDITION TraceAccepted
CHECK_DEADLOCK FALSE
