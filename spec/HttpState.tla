----------------------------- MODULE HttpState -----------------------------
(***************************************************************************)
(* C07 - a response depends only on its own request, not on earlier or     *)
(* concurrent ones.  State part of the HTTP front end of gqlgen:           *)
(*                                                                         *)
(*   pool    transport.pool, the sync.Pool of *graphql.RawParams of the    *)
(*           POST transport (http_post.go): a bag of parameter objects,    *)
(*           each with the RESIDUAL field values its previous user left    *)
(*   qcache  Executor.queryCache: query text -> validated document         *)
(*   apq     extension.AutomaticPersistedQuery.Cache: hash -> text         *)
(*   cfg     the CONFIGURATION of the transports: the ResponseHeaders map  *)
(*           each of GET / POST / FORM / GRAPHQL / MULTIPART was built     *)
(*           with.  It lives as long as the server; a request reads it     *)
(*           (determineResponseContentType, mergeHeaders, writeHeaders)    *)
(*           and must never write it.                                      *)
(*   ws      ONE websocket connection with several operations in flight:   *)
(*           the latest client message (the run loop's variable) and, per  *)
(*           operation id, how many frames it has produced; every frame    *)
(*           carries the id of the operation that produced it              *)
(*   heap, bfree   response buffers.  The design has none that outlives a  *)
(*           request (generated Exec marshals into a buffer of its own);   *)
(*           they exist for the deviation BufPool.                         *)
(*                                                                         *)
(* A request in flight goes through the linearization points of the code:  *)
(*                                                                         *)
(*   Start     the request arrives; GET.Do / POST.Do first negotiate the   *)
(*             response media type from the configured headers and the     *)
(*             request's Accept header and send the merged headers         *)
(*   Take      pool.Get() - a fresh object (New, or the pool was emptied   *)
(*             by the GC) or ANY pooled one; then Headers / ReadTime are   *)
(*             assigned.  Every other transport allocates its parameters.  *)
(*   Decode    encoding/json on the (reused) struct: a member present in   *)
(*             the body overwrites the field; an absent member leaves the  *)
(*             field as it is; JSON null leaves a string as it is and sets *)
(*             a map to nil; a JSON object MERGES into an existing non-nil *)
(*             map; a decode error leaves what was decoded so far.         *)
(*   Mutate    OperationParameterMutators: the APQ extension reads/writes  *)
(*             `apq` and may fill in params.Query                          *)
(*   Parse     parseQuery: queryCache.Get                                  *)
(*   AddCache  queryCache.Add (valid documents only)                       *)
(*   Execute   the response function of the executable schema runs: the    *)
(*             result, a function of the parameter object's fields (the    *)
(*             harness' resolvers echo all of them), is marshalled         *)
(*   Write     the transport serialises the response.  Between Execute and *)
(*             Write the response is HELD (response interceptors after     *)
(*             next(ctx), a slow writer) while other requests execute: the *)
(*             bytes written must be the bytes this request's own Execute  *)
(*             computed.                                                   *)
(*   Finish    the deferred func of POST.Do: reset the fields listed in    *)
(*             ResetFields, pool.Put                                       *)
(*                                                                         *)
(* The code's reset list, the moment of the reset, the cache key, whether  *)
(* mergeHeaders builds a map of its own and whether Exec owns its buffer   *)
(* are CONSTANTS so that the negative configurations                       *)
(* (MC_HttpState_neg_*.cfg) show which of them the property depends on.    *)
(***************************************************************************)
EXTENDS Naturals, Sequences, FiniteSets, TLC, Json

CONSTANTS
  Requests,     \* set of abstract requests [tr, q, opn, vars, ext]
  ResetFields,  \* the fields the deferred func of POST.Do clears
  ResetEarly,   \* TRUE = (deviation) the reset runs before the parameters are used
  CacheKey,     \* "full" = queryCache keyed on the whole text; (deviations) "prefix" = on a prefix,
                \* "fold" = on a lossy function of the text that maps document TWINS to one key
  PoolMax,      \* bound on the bag (sync.Pool may drop objects at any time)
  Slots,        \* number of requests in flight at once
  Configs,      \* names of the configurations a server may be constructed with (CfgMap)
  MergeInPlace, \* TRUE = (deviation) mergeHeaders completes the configured map in place and returns it
  BufPool,      \* TRUE = (deviation) Exec marshals into a pooled buffer and hands it back while the response aliases it
  TrackNeg,     \* TRUE = the media type negotiated last is kept (history variable) and exported with the state
  Once,         \* TRUE = every slot serves exactly one request (schedule export, MC_HttpStateHeld)
  WsScript,     \* websocket part: operation id -> number of data frames it produces ([] = part switched off)
  WsPings,      \* number of ping messages the client may send on the connection
  WsSharedMsg   \* TRUE = (deviation) the operations read the id from the run loop's ONE message variable

VARIABLES pool, qcache, apq, fl, act, cfg, cfg0, neg, heap, bfree, ws

vars == <<pool, qcache, apq, fl, act, cfg, cfg0, neg, heap, bfree, ws>>
view == <<pool, qcache, apq, fl, cfg, cfg0, neg, heap, bfree, ws>>

-----------------------------------------------------------------------------
(* Values *)

AllFields == {"q", "opn", "vars", "ext", "hdr", "rt"}

(* maps are sets of <<key, value>> pairs; nil and empty are not distinguished *)
Nil == {}
Merge(old, new) == {p \in old : ~\E n \in new : n[1] = p[1]} \cup new

MapVal(name) ==
  CASE name = "V1" -> {<<"s", "one">>}
    [] name = "V2" -> {<<"s", "two">>, <<"f", "true">>}
    [] name = "X"  -> {<<"x", "1">>}
    [] name = "H:Q1" -> {<<"persistedQuery", "Q1">>}   \* the hash of a text is modelled by the text
    [] name = "H:Q2" -> {<<"persistedQuery", "Q2">>}
    [] OTHER -> Nil

(* Document TWINS: texts that differ only in bytes that look insignificant and
   are not - blanks inside a string argument (TA1 "a b" / TA2 "a  b"), a block
   string whose line break is a blank in the twin (TB1 / TB2), a comment ended
   by \n whose twin has a blank there and so comments out the closing brace
   (TC1 valid / TC2 does not parse), a comment ended by \n / by \r whose twin
   comments out the next field (TD1 / TD3 select two fields, TD2 one; TD4 has
   a blank where TD3 has \r and comments out the closing brace too), a comma
   inside a string (TF1 "a,b", twin of TA1) - and, as a control, texts that
   really are equivalent (TG1 blanks / TG2 commas and line breaks).  Family(t)
   is what a lossy key function (folding white space and commas) maps t to. *)
TwinTexts == {"TA1", "TA2", "TB1", "TB2", "TC1", "TC2", "TD1", "TD2", "TD3", "TD4", "TF1", "TG1", "TG2"}
Family(t) == CASE t \in {"TA1", "TA2", "TF1"} -> "FA"
               [] t \in {"TB1", "TB2"} -> "FB"
               [] t \in {"TC1", "TC2"} -> "FC"
               [] t \in {"TD1", "TD2", "TD3", "TD4"} -> "FD"
               [] t \in {"TG1", "TG2"} -> "FG"
               [] OTHER -> t

Valid(q) == q \in {"Q1", "Q2"} \cup (TwinTexts \ {"TC2", "TD4"})   \* "QX" fails validation, "TC2" / "TD4" do not parse: never cached
Key(q) == CASE CacheKey = "full" -> q
            [] CacheKey = "fold" -> Family(q)
            [] OTHER -> "Q"                      \* "prefix": all texts share their first byte

Zero == [q |-> "", opn |-> "", vars |-> Nil, ext |-> Nil, hdr |-> <<>>, rt |-> "zero"]

(* POST, GET, GRAPHQL (and SSE, MULTIPART, WS) hand the request's headers to
   the executor; UrlEncodedForm.Do assigns them to a parameter object that
   parseBody then replaces, so they are lost (same on every server). *)
HdrSeen(r) == IF r.tr = "FORM" THEN <<>> ELSE <<r>>

(* the request's own members, absent => zero value *)
Own(r) == [q    |-> IF r.q = "-" THEN "" ELSE r.q,
           opn  |-> IF r.opn \in {"-", "null"} THEN "" ELSE r.opn,
           vars |-> IF r.vars = "bad" THEN Nil ELSE MapVal(r.vars),
           ext  |-> MapVal(r.ext),
           hdr  |-> HdrSeen(r),
           rt   |-> "set"]

(* encoding/json on a struct that already holds values; members are decoded
   in body order query, operationName, variables, extensions; "bad" = a
   variables member of the wrong JSON type, which aborts the decoding *)
DecodeInto(o, r) ==
  LET o1 == [o  EXCEPT !.q   = IF r.q = "-" THEN @ ELSE r.q]
      o2 == [o1 EXCEPT !.opn = IF r.opn \in {"-", "null"} THEN @ ELSE r.opn]
      o3 == [o2 EXCEPT !.vars = CASE r.vars = "-"    -> @
                                  [] r.vars = "null" -> Nil
                                  [] r.vars = "bad"  -> @
                                  [] OTHER           -> Merge(@, MapVal(r.vars))]
      o4 == [o3 EXCEPT !.ext = IF r.ext = "-" THEN @ ELSE Merge(@, MapVal(r.ext))]
  IN IF r.vars = "bad" THEN o3 ELSE o4

ResetObj(o) == [f \in AllFields |-> IF f \in ResetFields THEN Zero[f] ELSE o[f]]

Params(o) == [q |-> o.q, opn |-> o.opn, vars |-> o.vars, ext |-> o.ext, hdr |-> o.hdr]

ApqText(e) == IF \E p \in e : p[1] = "persistedQuery"
              THEN (CHOOSE p \in e : p[1] = "persistedQuery")[2] ELSE ""

(* the response: outcome + everything the resolvers echo *)
ErrResp(o) == [out |-> o, doc |-> "", opn |-> "", vars |-> Nil, ext |-> Nil, hdr |-> <<>>]
ExecResp(doc, p) == [out |-> IF Valid(doc) THEN "exec" ELSE "invalid", doc |-> doc,
                     opn |-> p.opn, vars |-> p.vars, ext |-> p.ext, hdr |-> p.hdr]

(* Response(r alone on a freshly constructed server); q0 = the text the
   request carries (or, for the APQ exception, the registered text) *)
AloneResp(r, q0) ==
  LET p == [Own(r) EXCEPT !.q = q0]
      h == ApqText(p.ext)
  IN IF r.vars = "bad" THEN ErrResp("decodeErr")
     ELSE IF h # "" /\ p.q = "" THEN ErrResp("apqNotFound")
     ELSE IF h # "" /\ p.q # h THEN ErrResp("apqMismatch")
     ELSE IF p.q = "" THEN ErrResp("noop")
     ELSE ExecResp(p.q, p)

-----------------------------------------------------------------------------
(* Transport configuration and response headers *)

(* the transports whose ResponseHeaders can be configured; GET and POST
   negotiate the media type, the others send the configured map as it is *)
ConfTr == {"GET", "POST", "FORM", "GRAPHQL", "MULTIPART"}
NegTr  == {"GET", "POST"}

(* configurations: no ResponseHeaders; headers that do not name a
   Content-Type; headers with an explicit Content-Type ("cj" stands for
   "application/json; charset=utf-8") *)
CfgMap(name) ==
  CASE name = "xsb" -> {<<"X-Served-By", "c07">>, <<"Vary", "Accept">>}
    [] name = "ct"  -> {<<"Content-Type", "cj">>, <<"X-Served-By", "c07">>}
    [] OTHER -> {}

(* the query cache a server is constructed with is part of its configuration:
   "none", "xsb", "ct" have the LRU cache, "map" graphql.MapCache, "nocache"
   none (graphql.NoCache: Get never hits, Add does nothing) *)
HasCache(name) == name # "nocache"

HasCT(m) == \E p \in m : p[1] = "Content-Type"
CTOf(m) == (CHOOSE p \in m : p[1] = "Content-Type")[2]

(* determineResponseContentType on the Accept header: absent => json; the
   first recognised part decides; "html" has no recognised part, "multi" is
   "text/html, application/json;q=0.9" *)
AccCT(acc) == IF acc \in {"-", "json", "multi"} THEN "json" ELSE "gql"

(* media type and header set of the response, given the configured map m *)
RespCT(r, m) == IF r.tr \notin ConfTr THEN ""
                ELSE IF HasCT(m) THEN CTOf(m)
                ELSE IF r.tr \in NegTr THEN AccCT(r.acc) ELSE "json"
SentHdrs(r, m) == IF r.tr \notin ConfTr THEN {}
                  ELSE Merge({<<"Content-Type", RespCT(r, m)>>}, m)

(* HTTP status class of the negotiating transports: pre-execution protocol
   errors (validation, no operation) are 400 for graphql-response+json and
   422 otherwise; "own" = 200 unless operation selection / variable coercion
   fail, a function of the request's own parameters either way; "" = not
   modelled here (Http.tla, C09) *)
Status(r, out, ct) ==
  IF r.tr \notin NegTr THEN ""
  ELSE CASE out = "decodeErr" -> "400"
         [] out \in {"invalid", "noop"} -> (IF ct = "gql" THEN "400" ELSE "422")
         [] out \in {"apqNotFound", "apqMismatch"} -> "200"
         [] OTHER -> "own"

Wire(body, st, hs) == [body |-> body, st |-> st, hs |-> hs]

(* everything the client sees of Response(r alone on a server freshly
   constructed with configuration c) *)
AloneWire(r, q0, c) ==
  LET m == CfgMap(c)
      b == AloneResp(r, q0)
  IN Wire(b, Status(r, b.out, RespCT(r, m)), SentHdrs(r, m))

Shared == [pool |-> pool, qc |-> qcache, apq |-> apq, cfg |-> cfg0, neg |-> neg]
SharedNext == [pool |-> pool', qc |-> qcache', apq |-> apq', cfg |-> cfg0', neg |-> neg']

-----------------------------------------------------------------------------
(* Actions *)

Idle == [pc |-> "idle"]
NoNeg == [tr |-> "", ct |-> ""]

(* the websocket part (actions below) *)
WsIds == DOMAIN WsScript
NoFrame == [id |-> "", of |-> "", k |-> 0, t |-> "none"]
WsIdle == [st |-> "idle", n |-> 0]
WsInit == [last |-> "", pings |-> 0, op |-> [id \in WsIds |-> WsIdle], frame |-> NoFrame]

Init ==
  /\ pool = <<>>
  /\ qcache = {}
  /\ apq = {}
  /\ fl = [i \in 1..Slots |-> Idle]
  /\ act = [n |-> "init"]
  /\ cfg0 \in Configs
  /\ cfg = [t \in ConfTr |-> CfgMap(cfg0)]
  /\ neg = NoNeg
  /\ heap = <<>>
  /\ bfree = {}
  /\ ws = WsInit

(* the request arrives; GET.Do / POST.Do: determineResponseContentType,
   mergeHeaders, writeHeaders - the configuration is only read *)
Start(i, r) ==
  /\ fl[i].pc = "idle"
  /\ LET m  == IF r.tr \in ConfTr THEN cfg[r.tr] ELSE {}
         ct == RespCT(r, m)
         hs == SentHdrs(r, m)
     IN /\ fl' = [fl EXCEPT ![i] = [pc |-> "take", r |-> r, obj |-> Zero, pooled |-> FALSE, seen |-> Params(Zero),
                                     apqhit |-> "", hit |-> FALSE, resp |-> ErrResp(""),
                                     ct |-> ct, hs |-> hs, buf |-> 0, wire |-> Wire(ErrResp(""), "", {}),
                                     s0 |-> IF Slots = 1 THEN Shared
                                            ELSE [pool |-> <<>>, qc |-> {}, apq |-> {}, cfg |-> "", neg |-> NoNeg]]]
        /\ cfg' = IF MergeInPlace /\ r.tr \in NegTr /\ m # {} THEN [cfg EXCEPT ![r.tr] = hs] ELSE cfg
        /\ neg' = IF TrackNeg /\ r.tr \in NegTr THEN [tr |-> r.tr, ct |-> ct] ELSE neg
  /\ act' = [n |-> "Start"]
  /\ UNCHANGED <<pool, qcache, apq, cfg0, heap, bfree, ws>>

(* pool.Get() + params.Headers = r.Header + params.ReadTime = ... *)
Take(i) ==
  /\ fl[i].pc = "take"
  /\ LET r == fl[i].r
         stamp(o) == [o EXCEPT !.hdr = HdrSeen(r), !.rt = "set"]
     IN \/ /\ fl' = [fl EXCEPT ![i].pc = "decode", ![i].obj = stamp(Zero)]
           /\ pool' = pool
        \/ /\ r.tr = "POST"
           /\ \E j \in 1..Len(pool) :
                /\ fl' = [fl EXCEPT ![i].pc = "decode", ![i].obj = stamp(pool[j]), ![i].pooled = TRUE]
                /\ pool' = [k \in 1..(Len(pool) - 1) |-> IF k < j THEN pool[k] ELSE pool[k + 1]]
  /\ act' = [n |-> "Take"]
  /\ UNCHANGED <<qcache, apq, cfg, cfg0, neg, heap, bfree, ws>>

Decode(i) ==
  /\ fl[i].pc = "decode"
  /\ LET r == fl[i].r
         d == IF r.tr = "POST" THEN DecodeInto(fl[i].obj, r) ELSE Own(r)
         o == IF ResetEarly /\ r.tr = "POST" THEN ResetObj(d) ELSE d
     IN IF r.vars = "bad"
        THEN fl' = [fl EXCEPT ![i].pc = "write", ![i].obj = o, ![i].resp = ErrResp("decodeErr")]
        ELSE fl' = [fl EXCEPT ![i].pc = "mutate", ![i].obj = o, ![i].seen = Params(o)]
  /\ act' = [n |-> "Decode"]
  /\ UNCHANGED <<pool, qcache, apq, cfg, cfg0, neg, heap, bfree, ws>>

(* AutomaticPersistedQuery.MutateOperationParameters *)
Mutate(i) ==
  /\ fl[i].pc = "mutate"
  /\ LET o == fl[i].obj
         h == ApqText(o.ext)
     IN CASE h = "" ->
               fl' = [fl EXCEPT ![i].pc = "parse"] /\ apq' = apq
          [] h # "" /\ o.q = "" /\ h \in apq ->
               fl' = [fl EXCEPT ![i].pc = "parse", ![i].obj.q = h, ![i].apqhit = h] /\ apq' = apq
          [] h # "" /\ o.q = "" /\ h \notin apq ->
               fl' = [fl EXCEPT ![i].pc = "write", ![i].resp = ErrResp("apqNotFound")] /\ apq' = apq
          [] h # "" /\ o.q # "" /\ o.q # h ->
               fl' = [fl EXCEPT ![i].pc = "write", ![i].resp = ErrResp("apqMismatch")] /\ apq' = apq
          [] OTHER ->
               fl' = [fl EXCEPT ![i].pc = "parse"] /\ apq' = apq \cup {h}
  /\ act' = [n |-> "Mutate"]
  /\ UNCHANGED <<pool, qcache, cfg, cfg0, neg, heap, bfree, ws>>

(* parseQuery: cache lookup *)
Parse(i) ==
  /\ fl[i].pc = "parse"
  /\ LET o == fl[i].obj
         cached == IF HasCache(cfg0) THEN {e \in qcache : e[1] = Key(o.q)} ELSE {}
     IN IF o.q = "" THEN fl' = [fl EXCEPT ![i].pc = "write", ![i].resp = ErrResp("noop")]
        ELSE IF cached # {}
        THEN fl' = [fl EXCEPT ![i].pc = "execute", ![i].hit = TRUE,
                              ![i].resp = ExecResp((CHOOSE e \in cached : TRUE)[2], Params(o))]
        ELSE fl' = [fl EXCEPT ![i].pc = IF Valid(o.q) THEN "addcache" ELSE "execute",
                              ![i].resp = ExecResp(o.q, Params(o))]
  /\ act' = [n |-> "Parse"]
  /\ UNCHANGED <<pool, qcache, apq, cfg, cfg0, neg, heap, bfree, ws>>

AddCache(i) ==
  /\ fl[i].pc = "addcache"
  /\ LET d == fl[i].resp.doc
     IN qcache' = IF HasCache(cfg0) THEN {e \in qcache : e[1] # Key(d)} \cup {<<Key(d), d>>} ELSE qcache
  /\ fl' = [fl EXCEPT ![i].pc = "execute"]
  /\ act' = [n |-> "AddCache"]
  /\ UNCHANGED <<pool, apq, cfg, cfg0, neg, heap, bfree, ws>>

(* CreateOperationContext copies OperationName / Extensions / Headers,
   VariableValues reads Variables: the fields as they are NOW.  The response
   function of the executable schema marshals the result: into a buffer of
   its own (buf = 0: the bytes are private to the request) or - deviation
   BufPool - into a buffer b taken from a shared pool (any pooled one, or a
   new one) that is handed back (deferred Put) as Exec returns while the
   response still aliases it. *)
Execute(i) ==
  /\ fl[i].pc = "execute"
  /\ LET body == ExecResp(fl[i].resp.doc, Params(fl[i].obj))
     IN IF ~BufPool
        THEN /\ fl' = [fl EXCEPT ![i].pc = "write", ![i].resp = body]
             /\ UNCHANGED <<heap, bfree>>
        ELSE \E b \in bfree \cup (IF Len(heap) < Slots THEN {Len(heap) + 1} ELSE {}) :
               /\ heap' = IF b <= Len(heap) THEN [heap EXCEPT ![b] = body] ELSE Append(heap, body)
               /\ bfree' = bfree \cup {b}
               /\ fl' = [fl EXCEPT ![i].pc = "write", ![i].resp = body, ![i].buf = b]
  /\ act' = [n |-> "Execute", i |-> i]
  /\ UNCHANGED <<pool, qcache, apq, cfg, cfg0, neg, ws>>

(* writeJson: the transport serialises what the response points to NOW;
   the status line and the headers were decided by this request before *)
Write(i) ==
  /\ fl[i].pc = "write"
  /\ LET body == IF fl[i].buf = 0 THEN fl[i].resp ELSE heap[fl[i].buf]
     IN fl' = [fl EXCEPT ![i].pc = "finish",
                         ![i].wire = Wire(body, Status(fl[i].r, fl[i].resp.out, fl[i].ct), fl[i].hs)]
  /\ act' = [n |-> "Write", i |-> i]
  /\ UNCHANGED <<pool, qcache, apq, cfg, cfg0, neg, heap, bfree, ws>>

(* the deferred func of POST.Do; the request is over *)
Finish(i) ==
  /\ fl[i].pc = "finish"
  /\ LET r == fl[i].r
         o == IF ResetEarly THEN fl[i].obj ELSE ResetObj(fl[i].obj)
     IN /\ pool' = IF r.tr = "POST" /\ Len(pool) < PoolMax THEN Append(pool, o) ELSE pool
        /\ act' = [n |-> "Finish", r |-> r, s |-> fl[i].s0, pooled |-> fl[i].pooled,
                   apqhit |-> fl[i].apqhit, hit |-> fl[i].hit,
                   own |-> [q |-> Own(r).q, opn |-> Own(r).opn, vars |-> Own(r).vars, ext |-> Own(r).ext],
                   out |-> fl[i].resp.out, ct |-> fl[i].ct, st |-> fl[i].wire.st]
  /\ fl' = [fl EXCEPT ![i] = IF Once THEN [pc |-> "done"] ELSE Idle]
  /\ UNCHANGED <<qcache, apq, cfg, cfg0, neg, heap, bfree, ws>>

-----------------------------------------------------------------------------
(* Several operations in flight on ONE websocket connection                  *)
(* (transport/websocket.go: wsConnection.run reads the client's messages;    *)
(* subscribe starts a goroutine per operation that writes its frames).       *)
(*   ws.last   id of the latest client message ("" = none yet / a ping): the  *)
(*             run loop's message variable                                    *)
(*   ws.op[id] idle / running with n data frames produced so far / done       *)
(*   ws.frame  the frame written last: the id it carries, the operation that  *)
(*             produced it, its number                                        *)
(* The harness' subscriptions produce their events, and close, when the test  *)
(* releases them, so every step below is a step of the replay.                *)


(* the id a frame of operation id carries: its own - the start message was
   this operation's - or (deviation) whatever the run loop's variable holds *)
WsLabel(id) == IF WsSharedMsg THEN ws.last ELSE id

WsSubscribe(id) ==
  /\ ws.op[id].st = "idle"
  /\ ws' = [ws EXCEPT !.last = id, !.op[id].st = "run", !.frame = NoFrame]
  /\ act' = [n |-> "WsSubscribe", id |-> id]
WsPing ==
  /\ ws.pings < WsPings
  /\ ws' = [ws EXCEPT !.last = "", !.pings = @ + 1, !.frame = NoFrame]
  /\ act' = [n |-> "WsPing", id |-> ""]
WsEmit(id) ==
  /\ ws.op[id].st = "run" /\ ws.op[id].n < WsScript[id]
  /\ ws' = [ws EXCEPT !.op[id].n = @ + 1, !.frame = [id |-> WsLabel(id), of |-> id, k |-> ws.op[id].n + 1, t |-> "next"]]
  /\ act' = [n |-> "WsEmit", id |-> id]
WsComplete(id) ==
  /\ ws.op[id].st = "run" /\ ws.op[id].n = WsScript[id]
  /\ ws' = [ws EXCEPT !.op[id].st = "done", !.frame = [id |-> WsLabel(id), of |-> id, k |-> 0, t |-> "complete"]]
  /\ act' = [n |-> "WsComplete", id |-> id]

WsNext == /\ (WsPing \/ \E id \in WsIds : WsSubscribe(id) \/ WsEmit(id) \/ WsComplete(id))
          /\ UNCHANGED <<pool, qcache, apq, fl, cfg, cfg0, neg, heap, bfree>>

Next == \/ WsNext
        \/ \E i \in 1..Slots :
          \/ \E r \in Requests : Start(i, r)
          \/ Take(i) \/ Decode(i) \/ Mutate(i) \/ Parse(i) \/ AddCache(i) \/ Execute(i) \/ Write(i) \/ Finish(i)

Spec == Init /\ [][Next]_vars

-----------------------------------------------------------------------------
(* The property *)

After(i, pcs) == fl[i].pc \in pcs

(* the parameters handed to CreateOperationContext are the request's own *)
OwnParams ==
  \A i \in 1..Slots :
    After(i, {"mutate", "parse", "addcache", "execute"}) => fl[i].seen = Params(Own(fl[i].r))

(* Response(history . r) = Response(r alone): body, status and headers, the
   only permitted memory being a persisted-query registration *)
Isolation ==
  \A i \in 1..Slots :
    fl[i].pc = "finish" =>
      LET r == fl[i].r
      IN fl[i].wire = AloneWire(r, IF fl[i].apqhit # "" THEN fl[i].apqhit ELSE Own(r).q, cfg0)

(* the bytes written are the bytes computed by the request's own execution *)
WriteOwn ==
  \A i \in 1..Slots : fl[i].pc = "finish" => fl[i].wire.body = fl[i].resp

(* WriteOwn for websocket frames: a frame carries the id of the operation
   that produced it, whatever else arrived on the connection meanwhile *)
WsFrameOwn == ws.frame.t # "none" => ws.frame.id = ws.frame.of

(* no request writes the configuration the transports were constructed with *)
ConfigImmutable == cfg = [t \in ConfTr |-> CfgMap(cfg0)]

(* the APQ exception is used only by hash-only lookups *)
ApqOnlyHashOnly ==
  \A i \in 1..Slots :
    fl[i].pc \notin {"idle", "done"} /\ fl[i].apqhit # "" =>
      fl[i].r.q = "-" /\ ApqText(MapVal(fl[i].r.ext)) = fl[i].apqhit

(* a cached document gives the same result as an uncached one *)
CacheTransparent ==
  \A i \in 1..Slots :
    After(i, {"execute", "write", "finish"}) /\ fl[i].resp.out \in {"exec", "invalid"} => fl[i].resp.doc = fl[i].obj.q

(* what is parked in the pool holds nothing of a previous request *)
PoolClean == \A j \in 1..Len(pool) : Params(pool[j]) = Params(Zero)

TypeOK ==
  /\ Len(pool) <= PoolMax
  /\ \A e \in qcache : Valid(e[2])
  /\ apq \subseteq {"Q1", "Q2"}
  /\ cfg0 \in Configs
  /\ (~BufPool) => (heap = <<>> /\ bfree = {})

-----------------------------------------------------------------------------
(* Request-level labelled edges for the replay: source = shared state when   *)
(* the request started (including the configuration the server was built     *)
(* with and - TrackNeg - the media type negotiated last), target = shared    *)
(* state when it finished.  Meaningful with Slots = 1.                       *)
EmitEdge ==
  act'.n = "Finish" =>
    PrintT(ToJson([s |-> act'.s,
                   a |-> [r |-> act'.r, pooled |-> act'.pooled, apqhit |-> act'.apqhit, hit |-> act'.hit,
                          own |-> act'.own, out |-> act'.out, ct |-> act'.ct, st |-> act'.st],
                   t |-> SharedNext]))

(* Schedule graph for the concurrent replay (Once = TRUE): per slot whether  *)
(* its request is not yet executed, HELD (executed, not written) or written; *)
(* one edge per Execute / Write step.  Its maximal paths are the orders in   *)
(* which the harness lets the real requests execute and be written.          *)
PhaseOf(f) == IF f.pc \in {"finish", "done"} THEN "written"
              ELSE IF f.pc = "write" THEN "held" ELSE "pre"
EmitSched ==
  act'.n \in {"Execute", "Write"} =>
    PrintT(ToJson([s |-> [i \in 1..Slots |-> PhaseOf(fl[i])],
                   a |-> [ev |-> act'.n, slot |-> act'.i],
                   t |-> [i \in 1..Slots |-> PhaseOf(fl'[i])]]))
(* Schedule graph of the websocket part: state = (operation phases, pings     *)
(* sent), one edge per client message / released frame.                       *)
EmitWs ==
  act'.n \in {"WsSubscribe", "WsPing", "WsEmit", "WsComplete"} =>
    PrintT(ToJson([s |-> [op |-> ws.op, pings |-> ws.pings],
                   a |-> [ev |-> act'.n, id |-> act'.id],
                   t |-> [op |-> ws'.op, pings |-> ws'.pings]]))
=============================================================================