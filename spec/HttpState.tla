----------------------------- MODULE HttpState -----------------------------
(***************************************************************************)
(* C07 - a response depends only on its own request, not on earlier or     *)
(* concurrent ones.  State part of the HTTP front end of gqlgen:           *)
(*                                                                         *)
(*   pool    transport.pool, the sync.Pool of *graphql.RawParams of the    *)
(*           POST transport (http_post.go): a bag of parameter objects,    *)
(*           each with the RESIDUAL field values its previous user left    *)
(*   qcache  Executor.queryCache: query text -> validated document         *)
(*   apq     extension.AutomaticPersistedQuery.Cache: hash -> text         *)
(*                                                                         *)
(* A request in flight goes through the linearization points of the code:  *)
(*                                                                         *)
(*   Take      pool.Get() - a fresh object (New, or the pool was emptied   *)
(*             by the GC) or ANY pooled one; then Headers / ReadTime are   *)
(*             assigned.  Every other transport allocates its parameters.  *)
(*   Decode    encoding/json on the (reused) struct: a member present in   *)
(*             the body overwrites the field; an absent member leaves the  *)
(*             field as it is; JSON null leaves a string as it is and sets *)
(*             a map to nil; a JSON object MERGES into an existing non-nil *)
(*             map; a decode error leaves what was decoded so far.         *)
(*   Mutate    OperationParameterMutators: the APQ extension reads/writes  *)
(*             `apq` and may fill in params.Query                          *)
(*   Parse     parseQuery: queryCache.Get                                  *)
(*   AddCache  queryCache.Add (valid documents only)                       *)
(*   Respond   the response, a function of the parameter object's fields   *)
(*             (the harness' resolvers echo all of them)                   *)
(*   Finish    the deferred func of POST.Do: reset the fields listed in    *)
(*             ResetFields, pool.Put                                       *)
(*                                                                         *)
(* The code's reset list, the moment of the reset and the cache key are    *)
(* CONSTANTS so that the negative configurations (MC_HttpState_neg_*.cfg)  *)
(* show which of them the property really depends on.                      *)
(***************************************************************************)
EXTENDS Naturals, Sequences, FiniteSets, TLC, Json

CONSTANTS
  Requests,     \* set of abstract requests [tr, q, opn, vars, ext]
  ResetFields,  \* the fields the deferred func of POST.Do clears
  ResetEarly,   \* TRUE = (deviation) the reset runs before the parameters are used
  CacheKey,     \* "full" = queryCache keyed on the whole text; "prefix" = (deviation) on a prefix
  PoolMax,      \* bound on the bag (sync.Pool may drop objects at any time)
  Slots         \* number of requests in flight at once

VARIABLES pool, qcache, apq, fl, act

vars == <<pool, qcache, apq, fl, act>>
view == <<pool, qcache, apq, fl>>

-----------------------------------------------------------------------------
(* Values *)

AllFields == {"q", "opn", "vars", "ext", "hdr", "rt"}

(* maps are sets of <<key, value>> pairs; nil and empty are not distinguished *)
Nil == {}
Merge(old, new) == {p \in old : ~\E n \in new : n[1] = p[1]} \cup new

MapVal(name) ==
  CASE name = "V1" -> {<<"s", "one">>}
    [] name = "V2" -> {<<"s", "two">>, <<"f", "true">>}
    [] name = "X"  -> {<<"x", "1">>}
    [] name = "H:Q1" -> {<<"persistedQuery", "Q1">>}   \* the hash of a text is modelled by the text
    [] name = "H:Q2" -> {<<"persistedQuery", "Q2">>}
    [] OTHER -> Nil

Valid(q) == q \in {"Q1", "Q2"}          \* "QX" fails validation and is never cached
Key(q) == IF CacheKey = "full" THEN q ELSE "Q"   \* all texts share their first byte

Zero == [q |-> "", opn |-> "", vars |-> Nil, ext |-> Nil, hdr |-> <<>>, rt |-> "zero"]

(* POST, GET, GRAPHQL (and SSE, MULTIPART, WS) hand the request's headers to
   the executor; UrlEncodedForm.Do assigns them to a parameter object that
   parseBody then replaces, so they are lost (same on every server). *)
HdrSeen(r) == IF r.tr = "FORM" THEN <<>> ELSE <<r>>

(* the request's own members, absent => zero value *)
Own(r) == [q    |-> IF r.q = "-" THEN "" ELSE r.q,
           opn  |-> IF r.opn \in {"-", "null"} THEN "" ELSE r.opn,
           vars |-> IF r.vars = "bad" THEN Nil ELSE MapVal(r.vars),
           ext  |-> MapVal(r.ext),
           hdr  |-> HdrSeen(r),
           rt   |-> "set"]

(* encoding/json on a struct that already holds values; members are decoded
   in body order query, operationName, variables, extensions; "bad" = a
   variables member of the wrong JSON type, which aborts the decoding *)
DecodeInto(o, r) ==
  LET o1 == [o  EXCEPT !.q   = IF r.q = "-" THEN @ ELSE r.q]
      o2 == [o1 EXCEPT !.opn = IF r.opn \in {"-", "null"} THEN @ ELSE r.opn]
      o3 == [o2 EXCEPT !.vars = CASE r.vars = "-"    -> @
                                  [] r.vars = "null" -> Nil
                                  [] r.vars = "bad"  -> @
                                  [] OTHER           -> Merge(@, MapVal(r.vars))]
      o4 == [o3 EXCEPT !.ext = IF r.ext = "-" THEN @ ELSE Merge(@, MapVal(r.ext))]
  IN IF r.vars = "bad" THEN o3 ELSE o4

ResetObj(o) == [f \in AllFields |-> IF f \in ResetFields THEN Zero[f] ELSE o[f]]

Params(o) == [q |-> o.q, opn |-> o.opn, vars |-> o.vars, ext |-> o.ext, hdr |-> o.hdr]

ApqText(e) == IF \E p \in e : p[1] = "persistedQuery"
              THEN (CHOOSE p \in e : p[1] = "persistedQuery")[2] ELSE ""

(* the response: outcome + everything the resolvers echo *)
ErrResp(o) == [out |-> o, doc |-> "", opn |-> "", vars |-> Nil, ext |-> Nil, hdr |-> <<>>]
ExecResp(doc, p) == [out |-> IF Valid(doc) THEN "exec" ELSE "invalid", doc |-> doc,
                     opn |-> p.opn, vars |-> p.vars, ext |-> p.ext, hdr |-> p.hdr]

(* Response(r alone on a freshly constructed server); q0 = the text the
   request carries (or, for the APQ exception, the registered text) *)
AloneResp(r, q0) ==
  LET p == [Own(r) EXCEPT !.q = q0]
      h == ApqText(p.ext)
  IN IF r.vars = "bad" THEN ErrResp("decodeErr")
     ELSE IF h # "" /\ p.q = "" THEN ErrResp("apqNotFound")
     ELSE IF h # "" /\ p.q # h THEN ErrResp("apqMismatch")
     ELSE IF p.q = "" THEN ErrResp("noop")
     ELSE ExecResp(p.q, p)

Shared == [pool |-> pool, qc |-> qcache, apq |-> apq]

-----------------------------------------------------------------------------
(* Actions *)

Idle == [pc |-> "idle"]

Init ==
  /\ pool = <<>>
  /\ qcache = {}
  /\ apq = {}
  /\ fl = [i \in 1..Slots |-> Idle]
  /\ act = [n |-> "init"]

Start(i, r) ==
  /\ fl[i].pc = "idle"
  /\ fl' = [fl EXCEPT ![i] = [pc |-> "take", r |-> r, obj |-> Zero, pooled |-> FALSE, seen |-> Params(Zero),
                               apqhit |-> "", hit |-> FALSE, resp |-> ErrResp(""),
                               s0 |-> IF Slots = 1 THEN Shared ELSE [pool |-> <<>>, qc |-> {}, apq |-> {}]]]
  /\ act' = [n |-> "Start"]
  /\ UNCHANGED <<pool, qcache, apq>>

(* pool.Get() + params.Headers = r.Header + params.ReadTime = ... *)
Take(i) ==
  /\ fl[i].pc = "take"
  /\ LET r == fl[i].r
         stamp(o) == [o EXCEPT !.hdr = HdrSeen(r), !.rt = "set"]
     IN \/ /\ fl' = [fl EXCEPT ![i].pc = "decode", ![i].obj = stamp(Zero)]
           /\ pool' = pool
        \/ /\ r.tr = "POST"
           /\ \E j \in 1..Len(pool) :
                /\ fl' = [fl EXCEPT ![i].pc = "decode", ![i].obj = stamp(pool[j]), ![i].pooled = TRUE]
                /\ pool' = [k \in 1..(Len(pool) - 1) |-> IF k < j THEN pool[k] ELSE pool[k + 1]]
  /\ act' = [n |-> "Take"]
  /\ UNCHANGED <<qcache, apq>>

Decode(i) ==
  /\ fl[i].pc = "decode"
  /\ LET r == fl[i].r
         d == IF r.tr = "POST" THEN DecodeInto(fl[i].obj, r) ELSE Own(r)
         o == IF ResetEarly /\ r.tr = "POST" THEN ResetObj(d) ELSE d
     IN IF r.vars = "bad"
        THEN fl' = [fl EXCEPT ![i].pc = "finish", ![i].obj = o, ![i].resp = ErrResp("decodeErr")]
        ELSE fl' = [fl EXCEPT ![i].pc = "mutate", ![i].obj = o, ![i].seen = Params(o)]
  /\ act' = [n |-> "Decode"]
  /\ UNCHANGED <<pool, qcache, apq>>

(* AutomaticPersistedQuery.MutateOperationParameters *)
Mutate(i) ==
  /\ fl[i].pc = "mutate"
  /\ LET o == fl[i].obj
         h == ApqText(o.ext)
     IN CASE h = "" ->
               fl' = [fl EXCEPT ![i].pc = "parse"] /\ apq' = apq
          [] h # "" /\ o.q = "" /\ h \in apq ->
               fl' = [fl EXCEPT ![i].pc = "parse", ![i].obj.q = h, ![i].apqhit = h] /\ apq' = apq
          [] h # "" /\ o.q = "" /\ h \notin apq ->
               fl' = [fl EXCEPT ![i].pc = "finish", ![i].resp = ErrResp("apqNotFound")] /\ apq' = apq
          [] h # "" /\ o.q # "" /\ o.q # h ->
               fl' = [fl EXCEPT ![i].pc = "finish", ![i].resp = ErrResp("apqMismatch")] /\ apq' = apq
          [] OTHER ->
               fl' = [fl EXCEPT ![i].pc = "parse"] /\ apq' = apq \cup {h}
  /\ act' = [n |-> "Mutate"]
  /\ UNCHANGED <<pool, qcache>>

(* parseQuery: cache lookup *)
Parse(i) ==
  /\ fl[i].pc = "parse"
  /\ LET o == fl[i].obj
         cached == {e \in qcache : e[1] = Key(o.q)}
     IN IF o.q = "" THEN fl' = [fl EXCEPT ![i].pc = "finish", ![i].resp = ErrResp("noop")]
        ELSE IF cached # {}
        THEN fl' = [fl EXCEPT ![i].pc = "respond", ![i].hit = TRUE,
                              ![i].resp = ExecResp((CHOOSE e \in cached : TRUE)[2], Params(o))]
        ELSE fl' = [fl EXCEPT ![i].pc = IF Valid(o.q) THEN "addcache" ELSE "respond",
                              ![i].resp = ExecResp(o.q, Params(o))]
  /\ act' = [n |-> "Parse"]
  /\ UNCHANGED <<pool, qcache, apq>>

AddCache(i) ==
  /\ fl[i].pc = "addcache"
  /\ LET d == fl[i].resp.doc
     IN qcache' = {e \in qcache : e[1] # Key(d)} \cup {<<Key(d), d>>}
  /\ fl' = [fl EXCEPT ![i].pc = "respond"]
  /\ act' = [n |-> "AddCache"]
  /\ UNCHANGED <<pool, apq>>

(* CreateOperationContext copies OperationName / Extensions / Headers,
   VariableValues reads Variables: the fields as they are NOW *)
Respond(i) ==
  /\ fl[i].pc = "respond"
  /\ fl' = [fl EXCEPT ![i].pc = "finish",
                      ![i].resp = ExecResp(fl[i].resp.doc, Params(fl[i].obj))]
  /\ act' = [n |-> "Respond"]
  /\ UNCHANGED <<pool, qcache, apq>>

(* the deferred func of POST.Do; the request is over *)
Finish(i) ==
  /\ fl[i].pc = "finish"
  /\ LET r == fl[i].r
         o == IF ResetEarly THEN fl[i].obj ELSE ResetObj(fl[i].obj)
     IN /\ pool' = IF r.tr = "POST" /\ Len(pool) < PoolMax THEN Append(pool, o) ELSE pool
        /\ act' = [n |-> "Finish", r |-> r, s |-> fl[i].s0, pooled |-> fl[i].pooled,
                   apqhit |-> fl[i].apqhit, hit |-> fl[i].hit,
                   own |-> [q |-> Own(r).q, opn |-> Own(r).opn, vars |-> Own(r).vars, ext |-> Own(r).ext],
                   out |-> fl[i].resp.out]
  /\ fl' = [fl EXCEPT ![i] = Idle]
  /\ UNCHANGED <<qcache, apq>>

Next == \E i \in 1..Slots :
          \/ \E r \in Requests : Start(i, r)
          \/ Take(i) \/ Decode(i) \/ Mutate(i) \/ Parse(i) \/ AddCache(i) \/ Respond(i) \/ Finish(i)

Spec == Init /\ [][Next]_vars

-----------------------------------------------------------------------------
(* The property *)

After(i, pcs) == fl[i].pc \in pcs

(* the parameters handed to CreateOperationContext are the request's own *)
OwnParams ==
  \A i \in 1..Slots :
    After(i, {"mutate", "parse", "addcache", "respond"}) => fl[i].seen = Params(Own(fl[i].r))

(* Response(history . r) = Response(r alone), the only permitted memory
   being a persisted-query registration *)
Isolation ==
  \A i \in 1..Slots :
    fl[i].pc = "finish" =>
      LET r == fl[i].r
      IN fl[i].resp = AloneResp(r, IF fl[i].apqhit # "" THEN fl[i].apqhit ELSE Own(r).q)

(* the APQ exception is used only by hash-only lookups *)
ApqOnlyHashOnly ==
  \A i \in 1..Slots :
    fl[i].pc # "idle" /\ fl[i].apqhit # "" =>
      fl[i].r.q = "-" /\ ApqText(MapVal(fl[i].r.ext)) = fl[i].apqhit

(* a cached document gives the same result as an uncached one *)
CacheTransparent ==
  \A i \in 1..Slots :
    After(i, {"respond", "finish"}) /\ fl[i].resp.out \in {"exec", "invalid"} => fl[i].resp.doc = fl[i].obj.q

(* what is parked in the pool holds nothing of a previous request *)
PoolClean == \A j \in 1..Len(pool) : Params(pool[j]) = Params(Zero)

TypeOK ==
  /\ Len(pool) <= PoolMax
  /\ \A e \in qcache : Valid(e[2])
  /\ apq \subseteq {"Q1", "Q2"}

-----------------------------------------------------------------------------
(* Request-level labelled edges for the replay: source = shared state when   *)
(* the request started, target = shared state when it finished.  Meaningful  *)
(* with Slots = 1.                                                           *)
EmitEdge ==
  act'.n = "Finish" =>
    PrintT(ToJson([s |-> act'.s,
                   a |-> [r |-> act'.r, pooled |-> act'.pooled, apqhit |-> act'.apqhit, hit |-> act'.hit,
                          own |-> act'.own, out |-> act'.out],
                   t |-> [pool |-> pool', qc |-> qcache', apq |-> apq']]))
=============================================================================
