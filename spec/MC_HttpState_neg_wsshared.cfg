\* C07 negative: the operations of a websocket connection read the id of their frames from the run loop's ONE
\* message variable (expected: WsFrameOwn violated - subscribe A, subscribe B, a frame of A is labelled B).
CONSTANTS
  Requests <- ReqNone
  ResetFields <- AllSix
  ResetEarly = FALSE
  CacheKey = "full"
  PoolMax = 1
  Slots = 1
  Configs <- CfgNone
  MergeInPlace = FALSE
  BufPool = FALSE
  TrackNeg = FALSE
  Once = FALSE
  WsScript <- WsAB
  WsPings = 1
  WsSharedMsg = TRUE
INIT Init
NEXT Next
VIEW view
CHECK_DEADLOCK FALSE
INVARIANTS TypeOK WsFrameOwn
