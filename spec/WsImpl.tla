------------------------------- MODULE WsImpl -------------------------------
(***************************************************************************)
(* Implementation-level model of graphql/handler/transport/websocket.go    *)
(* (one connection after a successful upgrade), shaped like the code: one  *)
(* action per critical section / blocking point.                           *)
(*                                                                         *)
(* Processes (each has a PROGRAM prog[p]: the sequence of micro-operations *)
(* it still has to perform; <<>> = the goroutine has ended):               *)
(*   "R"   Do -> init() -> run(): the reader.  rdinit (first NextMessage,  *)
(*         optional InitTimeout), initfn, the two writes of the ack and    *)
(*         the first keep-alive, setup (tickers + closeOnCancel spawned),  *)
(*         read (the run loop), reg (subscribe: active[id] = cancel under  *)
(*         mu, spawn the worker), look/cancel (stop), pongcs, ret (deferred*)
(*         cancel of the run context; Do returns and net/http cancels the  *)
(*         request context)                                                *)
(*   i \in Insts   the goroutine of subscribe() for operation instance i:  *)
(*         start (DispatchOperation -> the user's resolver is called),     *)
(*         call (responses(ctx): the Source returns a value / nil / panics *)
(*         / returns nil because it saw ctx.Done), the writes of next /    *)
(*         error / complete, del (delete(active, id) under mu)             *)
(*   "C"   closeOnCancel                                                   *)
(*   "KA" "PO" "PP"  keepAlive / keepAlivePongOnly / ping tickers          *)
(* Micro-operations shared by all: "w" = wsConnection.write = Lock; Send;  *)
(* Unlock (two steps: the process is INSIDE Send between them), "close" =  *)
(* wsConnection.close in the code's order: lock / closed? / close frame,   *)
(* cancel every active operation, closed = true, unlock / conn.Close() /   *)
(* CloseFunc.                                                              *)
(*                                                                         *)
(* Round 3: close is single steps for EVERY closer (CloseTry = the test of  *)
(* `closed` - with CloseCheckOutside, the seeded design C11b-1, outside mu  *)
(* followed by CloseLock - , CloseFrame, CloseCancel, CloseCS, CloseConn,   *)
(* CloseFn); with Stalls the environment can stall the socket once, so      *)
(* that a writer sits in Send holding mu while closers queue up behind it;  *)
(* with Linger a Source that saw ctx.Done returns when the environment lets *)
(* it; StopDeletes is the seeded design C11b-2 (stop deletes active[id]).   *)
(*                                                                         *)
(* Environment: the client (CSend, up to MaxMsgs messages from Alphabet),  *)
(* the Sources' decisions (emit <= K values, end, subscription error,      *)
(* panic), ticks (<= MaxTicks), InitTimeout, the ping read deadline, the   *)
(* server-side cancel.  With Sync = TRUE the environment moves only when   *)
(* the connection is quiescent: that state graph is exported as labelled   *)
(* edges and replayed into the real code step by step.                     *)
(*                                                                         *)
(* Binding to the property level: the Ws state `w` is carried along; every *)
(* observable step applies the Ws update and records a violated Ws guard   *)
(* in `viol` (invariant Refines: viol = {}).                               *)
(*                                                                         *)
(* FixDup / FixDel = FALSE is the tree before /repo 8c78f49 / 4ef0222:     *)
(*   ~FixDup  subscribe() overwrites active[id] of a running operation     *)
(*   ~FixDel  the worker sends the terminating frame BEFORE it deletes     *)
(*            active[id], and deletes whatever is registered under the id  *)
(* FixInit = FALSE is the tree before /repo 930d13f:                       *)
(*   ~FixInit init() returns silently on a non-object init payload         *)
(* TRUE is the (proposed / made) repair; the properties hold on the        *)
(* repaired model (MC_WsImpl.cfg) and TLC produces the counterexamples on  *)
(* the other (MC_WsImpl_pinned.cfg).  The scripts that are replayed into   *)
(* the code are generated from the model of the tree as it is: since       *)
(* /repo 4ef0222, 8020218, 8c78f49 that is the repaired model              *)
(* (MC_WsImpl_script.cfg: every Fix constant TRUE).  FixLate = FALSE is    *)
(* the tree between 8c78f49 and 46bea9c: after the close(4409) of a refused *)
(* duplicate start the run loop reads on, and a start already buffered is  *)
(* registered after close() went through `active`.                         *)
(***************************************************************************)
EXTENDS Ws, Json

CONSTANTS
  MCProto, MCInitFn, MCInitTimeout, MCKA, MCPO, MCPP, MCMissingPongOk, MCCancel,
  MCDetached,                    \* InitFunc returns a context that does NOT descend from the request context
  AllInsts, Ids, IdOfInst,       \* instance names, ids, instance -> id
  InstOrder,                     \* sequence of all instance names; earlier = used first
  Alphabet,                      \* client message classes used in this configuration
  BadStarts,                     \* BOOLEAN: the client may also send starts that fail before execution
  SrcKinds,                      \* ways a Source may end by itself: subset of {"end","suberr","panic"}
  MaxMsgs, K, MaxTicks,
  FixDup, FixDel, FixInit,
  FixLate,                       \* subscribe() refuses to register once `closed` is set
  CloseCheckOutside,             \* (seeded design C11b-1) close() tests `closed` BEFORE taking mu, sets it inside
  StopDeletes,                   \* (seeded design C11b-2) the stop handler also deletes active[id]
  Stalls,                        \* the environment may stall the socket once (a slow peer): a writer then sits in
                                 \* Send / in the close-frame write HOLDING mu until the stall ends
  Linger,                        \* a Source that saw ctx.Done returns only when the environment says so
                                 \* (still "promptly": weakly fair) instead of in the same step
  PreAcked,                      \* TRUE: start right after an accepted handshake (reader in the run loop)
  Bursts,                        \* Sync only: the client may put a second message right behind init / start
                                 \* (two frames in one TCP write: the reader finds it without any delay)
  Sync

VARIABLES
  inbox,        \* messages on their way to the server (FIFO)
  nsent,        \* number of client messages so far
  cgone,        \* the client has closed its end
  prog, sub,    \* [Procs -> program], [Procs -> position inside write ("in") / inside close:
                \*   "ck" checked `closed` outside mu (seeded design only), "cs" holds mu, "cs2" close frame written,
                \*   "cs3" active operations cancelled, "cc" closed set + unlocked, "cf" conn.Close() done]
  mu,           \* "free" or the process holding wsConnection.mu
  active,       \* id -> instance whose cancel func is registered
  closed,       \* wsConnection.closed
  connClosed,   \* conn.Close() done: Send fails, NextMessage fails with net.ErrClosed
  ccancel,      \* instances whose cancel func has been called
  srvCancelled, runCancelled, reqCancelled,
  fnres, reason,\* scenario choices: what InitFunc answers; whether its context carries a close reason
  ticks, recvPong, deadline,
  stalled,      \* "no" | "on" | "done": the peer is slow - writes to the socket do not return (Stalls)
  viol,         \* names of violated Ws guards
  act,          \* last action (observation only)
  hist          \* Sync only: the environment's decisions so far, each with the quiescent observation it was taken in

Tickers == {"KA", "PO", "PP"}
Procs == {"R", "C"} \cup Tickers \cup AllInsts

ivars == <<inbox, nsent, cgone, prog, sub, mu, active, closed, connClosed, ccancel,
           srvCancelled, runCancelled, reqCancelled, fnres, reason, stalled, ticks, recvPong, deadline>>
vars == <<w, c, ivars, viol, act, hist>>
view == <<w, c, ivars, viol>>

Op(t, f, id, i, k) == [t |-> t, f |-> f, id |-> id, i |-> i, k |-> k]
O(t) == Op(t, "", "", "", 0)
Wr(f) == Op("w", f, "", "", 0)
WrI(f, i, k) == Op("w", f, IdOfInst[i], i, k)
Cl(code) == Op("close", "", "", "", code)

A(name, id, i, k) == act' = [name |-> name, id |-> id, i |-> i, k |-> k]
Chk(g, name) == viol' = viol \cup (IF g THEN {} ELSE {name})

Head1(p) == Head(prog[p])
At(p, t) == prog[p] # <<>> /\ Head1(p).t = t
Pop(p) == prog' = [prog EXCEPT ![p] = Tail(prog[p])]
Goto(p, s) == prog' = [prog EXCEPT ![p] = s]
Replace(p, s) == prog' = [prog EXCEPT ![p] = s \o Tail(prog[p])]

Range(f) == {f[x] : x \in DOMAIN f}
\* an operation context is done once its own cancel func was called (stop, close), or an ancestor is
\* done: the context InitFunc returned (server-side cancel) and - unless detached - the request context
Cancelled(i) == i \in ccancel \/ srvCancelled \/ (reqCancelled /\ ~MCDetached)
CtxDone == runCancelled \/ srvCancelled            \* the run() context (tickers, closeOnCancel)

NoOp(f) == IF c.proto = "gws" THEN f \in {"ping", "pong"} ELSE f \in {"ka", "cerr"}

RunProgs ==
  [p \in Procs |->
       IF p = "R" THEN <<O("read")>>
       ELSE IF p = "C" THEN <<O("wait")>>
       ELSE IF p = "KA" /\ MCProto = "gws" /\ MCKA THEN <<O("tick")>>
       ELSE IF p = "PO" /\ MCProto = "tws" /\ MCPO THEN <<O("tick")>>
       ELSE IF p = "PP" /\ MCProto = "tws" /\ MCPP THEN <<O("tick")>>
       ELSE <<>>]

Init ==
  /\ c = [proto |-> MCProto, initfn |-> MCInitFn, tmo |-> (MCInitTimeout \/ (MCPP /\ ~MCMissingPongOk /\ MCProto = "tws"))]
  /\ inbox = <<>> /\ nsent = 0 /\ cgone = FALSE
  /\ sub = [p \in Procs |-> "-"]
  /\ mu = "free" /\ active = <<>> /\ closed = FALSE /\ connClosed = FALSE /\ ccancel = {}
  /\ srvCancelled = FALSE /\ runCancelled = FALSE /\ reqCancelled = FALSE
  /\ reason \in (IF MCInitFn /\ MCCancel THEN BOOLEAN ELSE {FALSE})
  /\ ticks = 0 /\ recvPong = FALSE /\ stalled = "no"
  /\ viol = {} /\ act = [name |-> "Init", id |-> "", i |-> "", k |-> 0] /\ hist = <<>>
  /\ IF PreAcked
       THEN /\ w = [W0 EXCEPT !.first = "init", !.initFn = (IF MCInitFn THEN "accept" ELSE "none"), !.acks = 1]
            /\ prog = RunProgs /\ fnres = "accept"
            /\ deadline = (MCProto = "tws" /\ MCPP /\ ~MCMissingPongOk)
       ELSE /\ w = W0
            /\ prog = [p \in Procs |-> IF p = "R" THEN <<O("rdinit")>> ELSE <<>>]
            /\ fnres \in (IF MCInitFn THEN {"accept", "reject"} ELSE {"accept"})
            /\ deadline = FALSE

\* ------------------------------------------------------------ quiescence --
\* CanStep(p): process p has an enabled step of its own (not an environment decision).
\* (IF, not \/ : inside an action TLC explores both disjuncts, also the one applying Head to <<>>)
CanStep(p) ==
  IF prog[p] = <<>> THEN FALSE
  ELSE LET t == Head1(p).t IN
       CASE t = "w"     -> (sub[p] = "in" /\ stalled # "on") \/ (sub[p] = "-" /\ mu = "free")
         [] t = "close" -> CASE sub[p] = "-"  -> CloseCheckOutside \/ mu = "free"
                             [] sub[p] = "ck" -> mu = "free"
                             [] sub[p] = "cs" -> stalled # "on"          \* the close frame is a socket write
                             [] OTHER -> TRUE
         [] t = "rdinit" -> inbox # <<>>
         [] t = "read"  -> connClosed \/ inbox # <<>>
         [] t \in {"reg", "look", "pongcs", "pingcs", "del"} -> mu = "free"
         [] t = "call"  -> Cancelled(p)
         [] t = "linger" -> ~Linger
         [] t \in {"wait", "tick"} -> CtxDone
         [] OTHER -> TRUE          \* initfn setup cancel ret start
Quiet == \A p \in Procs : ~CanStep(p)

\* With Sync the system is also scheduled deterministically (the first process
\* of ProcOrder that can step does): the state graph is then the tree of the
\* environment's decisions with ONE canonical reaction each, small enough to
\* be exported edge by edge and replayed.
ProcOrder == <<"R">> \o InstOrder \o <<"C", "KA", "PO", "PP">>
PPos(p) == CHOOSE n \in 1..Len(ProcOrder) : ProcOrder[n] = p
MayRun(p) == Sync => \A n \in 1..Len(ProcOrder) : n < PPos(p) => ~CanStep(ProcOrder[n])
Env == Sync => Quiet
\* the client's second frame of one write: everything is quiescent except that the reader has the first
\* frame (init or start) waiting in its inbox
BurstOK(m) ==
  /\ Bursts /\ Len(inbox) = 1 /\ mu = "free"
  /\ (inbox[1].m = "init" /\ m = "start") \/ (inbox[1].m = "start" /\ m \in {"start", "stop", "term"})
  /\ \A p \in Procs \ {"R"} : ~CanStep(p)
  /\ IF prog["R"] = <<>> THEN FALSE ELSE Head1("R").t \in {"rdinit", "read"}
EnvC(m) == Sync => (Quiet \/ BurstOK(m))

\* -------------------------------------------------------- write and close --
Lock(p) ==
  /\ At(p, "w") /\ sub[p] = "-" /\ mu = "free"
  /\ mu' = p /\ sub' = [sub EXCEPT ![p] = "in"]
  /\ A("Lock", "", p, 0)
  /\ UNCHANGED <<w, c, viol, inbox, nsent, cgone, prog, active, closed, connClosed, ccancel, srvCancelled, runCancelled,
                 reqCancelled, fnres, reason, stalled, ticks, recvPong, deadline>>

\* Send inside the critical section.  On a closed socket it fails (ErrorFunc,
\* not constrained); a no-op type of the subprotocol writes nothing; a frame
\* written after our close frame, or after the client left, is never seen.
Send(p) ==
  /\ At(p, "w") /\ sub[p] = "in" /\ stalled # "on"
  /\ LET o == Head1(p)
         seen == ~connClosed /\ ~closed /\ ~cgone /\ ~NoOp(o.f)
     IN /\ w' = (IF seen THEN Frame_F(w, o.f, o.id, o.i, o.k) ELSE w)
        /\ Chk(seen => Frame_G(w, c, o.f, o.id, o.i, o.k), "Frame:" \o o.f)
        /\ A(IF seen THEN "Frame" ELSE "SendLost", o.f, o.i, o.k)
  /\ mu' = "free" /\ sub' = [sub EXCEPT ![p] = "-"] /\ Pop(p)
  /\ UNCHANGED <<c, inbox, nsent, cgone, active, closed, connClosed, ccancel, srvCancelled, runCancelled,
                 reqCancelled, fnres, reason, stalled, ticks, recvPong, deadline>>

\* close(): `c.mu.Lock(); if c.closed { c.mu.Unlock(); return }` - test and lock are one step.
\* In the seeded design (CloseCheckOutside) `closed` is an atomic flag tested BEFORE the lock.
CloseTry(p) ==
  /\ At(p, "close") /\ sub[p] = "-"
  /\ IF CloseCheckOutside
       THEN IF closed THEN Pop(p) /\ UNCHANGED <<mu, sub>>
                      ELSE sub' = [sub EXCEPT ![p] = "ck"] /\ UNCHANGED <<mu, prog>>
       ELSE /\ mu = "free"
            /\ IF closed THEN Pop(p) /\ UNCHANGED <<mu, sub>>
                         ELSE mu' = p /\ sub' = [sub EXCEPT ![p] = "cs"] /\ UNCHANGED prog
  /\ A("CloseTry", "", p, 0)
  /\ UNCHANGED <<w, c, viol, inbox, nsent, cgone, active, closed, connClosed, ccancel, srvCancelled, runCancelled,
                 reqCancelled, fnres, reason, stalled, ticks, recvPong, deadline>>

\* (seeded design) the lock, after the unlocked test
CloseLock(p) ==
  /\ At(p, "close") /\ sub[p] = "ck" /\ mu = "free"
  /\ mu' = p /\ sub' = [sub EXCEPT ![p] = "cs"]
  /\ A("CloseLock", "", p, 0)
  /\ UNCHANGED <<w, c, viol, inbox, nsent, cgone, prog, active, closed, connClosed, ccancel, srvCancelled, runCancelled,
                 reqCancelled, fnres, reason, stalled, ticks, recvPong, deadline>>

\* under mu: the close frame (a socket write: it waits while the peer is stalled) - at most once
CloseFrame(p) ==
  /\ At(p, "close") /\ sub[p] = "cs" /\ stalled # "on"
  /\ Chk(~closed, "CloseFrame:second")
  /\ w' = (IF cgone \/ closed THEN w ELSE CEnd_F(w))   \* the client reads our close frame: the end, as far as it can see
  /\ sub' = [sub EXCEPT ![p] = "cs2"]
  /\ A("CloseFrame", "", p, Head1(p).k)
  /\ UNCHANGED <<c, inbox, nsent, cgone, prog, mu, active, closed, connClosed, ccancel, srvCancelled, runCancelled,
                 reqCancelled, fnres, reason, stalled, ticks, recvPong, deadline>>

\* under mu: every registered cancel func (calling one twice is harmless)
CloseCancel(p) ==
  /\ At(p, "close") /\ sub[p] = "cs2"
  /\ ccancel' = ccancel \cup Range(active)
  /\ sub' = [sub EXCEPT ![p] = "cs3"]
  /\ A("CloseCancel", "", p, 0)
  /\ UNCHANGED <<w, c, viol, inbox, nsent, cgone, prog, mu, active, closed, connClosed, srvCancelled, runCancelled,
                 reqCancelled, fnres, reason, stalled, ticks, recvPong, deadline>>

\* under mu: closed = true; unlock
CloseCS(p) ==
  /\ At(p, "close") /\ sub[p] = "cs3"
  /\ closed' = TRUE
  /\ mu' = "free" /\ sub' = [sub EXCEPT ![p] = "cc"]
  /\ A("CloseCS", "", p, Head1(p).k)
  /\ UNCHANGED <<w, c, viol, inbox, nsent, cgone, prog, active, connClosed, ccancel, srvCancelled, runCancelled,
                 reqCancelled, fnres, reason, stalled, ticks, recvPong, deadline>>

CloseConn(p) ==
  /\ At(p, "close") /\ sub[p] = "cc"
  /\ connClosed' = TRUE /\ sub' = [sub EXCEPT ![p] = "cf"]
  /\ A("CloseConn", "", p, 0)
  /\ UNCHANGED <<w, c, viol, inbox, nsent, cgone, prog, mu, active, closed, ccancel, srvCancelled, runCancelled,
                 reqCancelled, fnres, reason, stalled, ticks, recvPong, deadline>>

CloseFn(p) ==
  /\ At(p, "close") /\ sub[p] = "cf"
  /\ w' = CloseFn_F(w) /\ Chk(CloseFn_G(w, c), "CloseFn")
  /\ sub' = [sub EXCEPT ![p] = "-"] /\ Pop(p)
  /\ A("CloseFn", "", p, Head1(p).k)
  /\ UNCHANGED <<c, inbox, nsent, cgone, mu, active, closed, connClosed, ccancel, srvCancelled, runCancelled,
                 reqCancelled, fnres, reason, stalled, ticks, recvPong, deadline>>

\* ---------------------------------------------------------------- reader --
AfterAccept == <<Wr("ack"), Wr("ka"), O("setup"), O("read")>>
Unexpected == <<Wr("cerr"), Cl(1002), O("ret")>>

\* init(): dispatch on the first message
InitProg(m) ==
  CASE m.m = "init"    -> IF MCInitFn THEN <<O("initfn")>> ELSE AfterAccept
    [] m.m = "initbad" -> IF FixInit THEN Unexpected ELSE <<O("ret")>>
    [] m.m = "term"    -> <<Cl(1000), O("ret")>>                          \* (gws only; "term" is not in the tws alphabet)
    [] m.m = "invalid" -> <<Wr("cerr"), Cl(1002), O("ret")>>              \* "invalid json"
    [] m.m \in {"eof"} -> <<Cl(1002), O("ret")>>                          \* "decoding error"
    [] m.m = "s2c"     -> IF c.proto = "tws" THEN <<Cl(1002), O("ret")>> ELSE Unexpected
    [] OTHER           -> Unexpected                                      \* start stop ping pong

RdInit ==
  /\ At("R", "rdinit") /\ inbox # <<>>
  /\ Goto("R", InitProg(Head(inbox))) /\ inbox' = Tail(inbox)
  /\ A("RdInit", Head(inbox).m, "", 0)
  /\ UNCHANGED <<w, c, viol, nsent, cgone, sub, mu, active, closed, connClosed, ccancel, srvCancelled, runCancelled,
                 reqCancelled, fnres, reason, stalled, ticks, recvPong, deadline>>

\* nextMessageWithTimeout: the timer may win at any moment before the message is taken
InitTimeout ==
  /\ MCInitTimeout /\ At("R", "rdinit") /\ Env
  /\ Goto("R", <<Cl(1002), O("ret")>>)
  /\ A("InitTimeout", "", "", 0)
  /\ UNCHANGED <<w, c, viol, inbox, nsent, cgone, sub, mu, active, closed, connClosed, ccancel, srvCancelled, runCancelled,
                 reqCancelled, fnres, reason, stalled, ticks, recvPong, deadline>>

InitFnCall ==
  /\ At("R", "initfn")
  /\ w' = InitFn_F(w, fnres) /\ Chk(InitFn_G(w, c, fnres), "InitFn")
  /\ Goto("R", IF fnres = "accept" THEN AfterAccept ELSE <<Wr("cerr"), Cl(1000), O("ret")>>)
  /\ A("InitFn", fnres, "", 0)
  /\ UNCHANGED <<c, inbox, nsent, cgone, sub, mu, active, closed, connClosed, ccancel, srvCancelled, runCancelled,
                 reqCancelled, fnres, reason, stalled, ticks, recvPong, deadline>>

Setup ==
  /\ At("R", "setup")
  /\ prog' = [p \in Procs |->
       IF p = "R" THEN Tail(prog["R"])
       ELSE IF p = "C" THEN <<O("wait")>>
       ELSE IF p = "KA" /\ c.proto = "gws" /\ MCKA THEN <<O("tick")>>
       ELSE IF p = "PO" /\ c.proto = "tws" /\ MCPO THEN <<O("tick")>>
       ELSE IF p = "PP" /\ c.proto = "tws" /\ MCPP THEN <<O("tick")>>
       ELSE prog[p]]
  /\ deadline' = (c.proto = "tws" /\ MCPP /\ ~MCMissingPongOk)
  /\ A("Setup", "", "", 0)
  /\ UNCHANGED <<w, c, viol, inbox, nsent, cgone, sub, mu, active, closed, connClosed, ccancel, srvCancelled, runCancelled,
                 reqCancelled, fnres, reason, stalled, ticks, recvPong>>

\* run(): dispatch on a message
RunProg(m) ==
  CASE m.m = "start" ->
         IF m.kind = "bad" THEN <<WrI("error", m.i, 0), WrI("complete", m.i, 0), O("read")>>
         \* (8c78f49: connection_error + close(4409), and subscribe returns INTO THE RUN LOOP)
         ELSE IF FixDup /\ m.id \in DOMAIN active THEN <<Wr("cerr"), Cl(4409), O("read")>>
         ELSE <<Op("reg", "", m.id, m.i, 0), O("read")>>
    [] m.m = "stop" -> <<Op("look", "", m.id, "", 0), O("read")>>
    [] m.m = "term" -> <<Cl(1000), O("ret")>>
    [] m.m = "ping" -> <<Wr("pong"), O("read")>>
    [] m.m = "pong" -> <<O("pongcs"), O("read")>>
    [] m.m \in {"init", "initbad"} -> Unexpected
    [] m.m = "s2c" -> IF c.proto = "gws" THEN Unexpected ELSE <<O("ret")>>     \* tws: NextMessage error, ErrorFunc
    [] OTHER -> <<O("ret")>>                                                   \* invalid, eof: NextMessage error, ErrorFunc

Read ==
  /\ At("R", "read")
  /\ \/ /\ connClosed                                       \* closed by us: net.ErrClosed, not reported
        /\ Goto("R", <<O("ret")>>) /\ UNCHANGED inbox
        /\ A("ReadClosed", "", "", 0)
     \* (also after conn.Close(): a frame that arrived in the same TCP segment as the previous one sits
     \*  in the connection's read buffer and is returned by NextMessage all the same)
     \/ /\ inbox # <<>>
        /\ Goto("R", RunProg(Head(inbox))) /\ inbox' = Tail(inbox)
        /\ A("Read", Head(inbox).m, Head(inbox).i, 0)
  /\ UNCHANGED <<w, c, viol, nsent, cgone, sub, mu, active, closed, connClosed, ccancel, srvCancelled, runCancelled,
                 reqCancelled, fnres, reason, stalled, ticks, recvPong, deadline>>

\* the read deadline armed by run()/ping() expires (no pong in time)
Deadline ==
  /\ At("R", "read") /\ deadline /\ ~connClosed /\ Env
  /\ Goto("R", <<O("ret")>>)
  /\ A("Deadline", "", "", 0)
  /\ UNCHANGED <<w, c, viol, inbox, nsent, cgone, sub, mu, active, closed, connClosed, ccancel, srvCancelled, runCancelled,
                 reqCancelled, fnres, reason, stalled, ticks, recvPong, deadline>>

\* subscribe(): c.mu.Lock(); c.active[id] = cancel; c.mu.Unlock(); go func(){...}
Reg ==
  /\ At("R", "reg") /\ mu = "free"
  /\ LET o == Head1("R") IN
       IF FixLate /\ closed
         THEN \* proposed repair: `if c.closed { c.mu.Unlock(); cancel(); return }`
              /\ Pop("R") /\ UNCHANGED <<active, w>>
              /\ A("RegRefused", o.id, o.i, 0)
         ELSE /\ active' = [x \in DOMAIN active \cup {o.id} |-> IF x = o.id THEN o.i ELSE active[x]]
              /\ prog' = [prog EXCEPT !["R"] = Tail(prog["R"]), ![o.i] = <<O("start"), O("call")>>]
              \* (observation only: the entry of an operation that has not been terminated towards the client is overwritten)
              /\ w' = (IF o.id \in DOMAIN active /\ w.I[active[o.id]].cp = 0 /\ w.I[active[o.id]].er = 0 THEN [w EXCEPT !.devs = w.devs \cup {"dupreg"}] ELSE w)
              /\ A("Reg", o.id, o.i, 0)
  /\ UNCHANGED <<c, viol, inbox, nsent, cgone, sub, mu, closed, connClosed, ccancel, srvCancelled, runCancelled,
                 reqCancelled, fnres, reason, stalled, ticks, recvPong, deadline>>

\* stop: c.mu.Lock(); closer := c.active[id]; c.mu.Unlock()  ...
Look ==
  /\ At("R", "look") /\ mu = "free"
  /\ LET o == Head1("R") IN
       /\ IF o.id \in DOMAIN active THEN Replace("R", <<Op("cancel", "", o.id, active[o.id], 0)>>) ELSE Pop("R")
       \* (seeded design: "the client has given the id up" - the entry is deleted here as well)
       /\ active' = (IF StopDeletes /\ o.id \in DOMAIN active THEN [x \in DOMAIN active \ {o.id} |-> active[x]] ELSE active)
       /\ A("Look", o.id, "", 0)
  /\ UNCHANGED <<w, c, viol, inbox, nsent, cgone, sub, mu, closed, connClosed, ccancel, srvCancelled, runCancelled,
                 reqCancelled, fnres, reason, stalled, ticks, recvPong, deadline>>

\* ... if closer != nil { closer() }
CancelOp ==
  /\ At("R", "cancel")
  /\ ccancel' = ccancel \cup {Head1("R").i} /\ Pop("R")
  /\ A("CancelOp", "", Head1("R").i, 0)
  /\ UNCHANGED <<w, c, viol, inbox, nsent, cgone, sub, mu, active, closed, connClosed, srvCancelled, runCancelled,
                 reqCancelled, fnres, reason, stalled, ticks, recvPong, deadline>>

PongCS ==
  /\ At("R", "pongcs") /\ mu = "free"
  /\ recvPong' = TRUE /\ deadline' = FALSE /\ Pop("R")
  /\ A("PongCS", "", "", 0)
  /\ UNCHANGED <<w, c, viol, inbox, nsent, cgone, sub, mu, active, closed, connClosed, ccancel, srvCancelled, runCancelled,
                 reqCancelled, fnres, reason, stalled, ticks>>

\* run() returns: deferred cancel of the run context; Do returns; net/http
\* cancels the request context, the ancestor of every operation context
Ret ==
  /\ At("R", "ret")
  /\ runCancelled' = TRUE /\ reqCancelled' = TRUE /\ Goto("R", <<>>)
  /\ A("Ret", "", "", 0)
  /\ UNCHANGED <<w, c, viol, inbox, nsent, cgone, sub, mu, active, closed, connClosed, ccancel, srvCancelled,
                 fnres, reason, stalled, ticks, recvPong, deadline>>

\* --------------------------------------------------------------- workers --
TermProg(i, xk) ==
  LET fr == IF xk = "suberr" THEN <<WrI("error", i, 0)>>
            ELSE IF xk = "panic" THEN <<WrI("error", i, 0), WrI("complete", i, 0)>>
            ELSE <<WrI("complete", i, 0)>>
  IN IF FixDel THEN <<O("del")>> \o fr ELSE fr \o <<O("del")>>

\* DispatchOperation: the user's subscription resolver is called
SrcStart(i) ==
  /\ At(i, "start")
  /\ w' = SrcStart_F(w, i) /\ Chk(SrcStart_G(w, c, i), "SrcStart")
  /\ Pop(i)
  /\ A("SrcStart", "", i, 0)
  /\ UNCHANGED <<c, inbox, nsent, cgone, sub, mu, active, closed, connClosed, ccancel, srvCancelled, runCancelled,
                 reqCancelled, fnres, reason, stalled, ticks, recvPong, deadline>>

\* the Source returns its next value (user's decision)
SrcEmit(i) ==
  /\ At(i, "call") /\ w.I[i].em < K /\ Env
  /\ w' = SrcEmit_F(w, i) /\ Chk(SrcEmit_G(w, i, w.I[i].em + 1), "SrcEmit")
  /\ Goto(i, <<WrI("next", i, w.I[i].em + 1), O("call")>>)
  /\ A("SrcEmit", "", i, w.I[i].em + 1)
  /\ UNCHANGED <<c, inbox, nsent, cgone, sub, mu, active, closed, connClosed, ccancel, srvCancelled, runCancelled,
                 reqCancelled, fnres, reason, stalled, ticks, recvPong, deadline>>

\* the Source ends by itself: nil / subscription error + nil / panic
SrcEnd(i, xk) ==
  /\ At(i, "call") /\ Env
  /\ w' = SrcExit_F(w, i, xk) /\ Chk(SrcExit_G(w, i, xk), "SrcExit")
  /\ Goto(i, TermProg(i, xk))
  /\ A("SrcEnd", xk, i, 0)
  /\ UNCHANGED <<c, inbox, nsent, cgone, sub, mu, active, closed, connClosed, ccancel, srvCancelled, runCancelled,
                 reqCancelled, fnres, reason, stalled, ticks, recvPong, deadline>>

\* the Source observes ctx.Done (assumed prompt: weakly fair) ...
SrcSeesCancel(i) ==
  /\ At(i, "call") /\ Cancelled(i)
  /\ w' = SrcCancelSeen_F(w, i)
  /\ Chk(SrcCancelSeen_G(w, c, i), "SrcCancelSeen")
  /\ Goto(i, <<O("linger")>>)
  /\ A("SrcSeesCancel", "", i, 0)
  /\ UNCHANGED <<c, inbox, nsent, cgone, sub, mu, active, closed, connClosed, ccancel, srvCancelled, runCancelled,
                 reqCancelled, fnres, reason, stalled, ticks, recvPong, deadline>>

\* ... and returns nil - at once, or (Linger) a little later, when the environment lets it
SrcLingerEnds(i) ==
  /\ At(i, "linger") /\ (Linger => Env)
  /\ w' = SrcExit_F(w, i, "cancel") /\ Chk(SrcExit_G(w, i, "cancel"), "SrcExit")
  /\ Goto(i, TermProg(i, "cancel"))
  /\ A("SrcRelease", "", i, 0)
  /\ UNCHANGED <<c, inbox, nsent, cgone, sub, mu, active, closed, connClosed, ccancel, srvCancelled, runCancelled,
                 reqCancelled, fnres, reason, stalled, ticks, recvPong, deadline>>

\* deferred: c.mu.Lock(); delete(c.active, id); c.mu.Unlock()
Del(i) ==
  /\ At(i, "del") /\ mu = "free"
  /\ LET id == IdOfInst[i]
         rm == id \in DOMAIN active         \* unconditional, as in the code (safe only while ids are unique in `active`)
     IN active' = (IF rm THEN [x \in DOMAIN active \ {id} |-> active[x]] ELSE active)
  /\ Pop(i)
  /\ A("Del", "", i, 0)
  /\ UNCHANGED <<w, c, viol, inbox, nsent, cgone, sub, mu, closed, connClosed, ccancel, srvCancelled, runCancelled,
                 reqCancelled, fnres, reason, stalled, ticks, recvPong, deadline>>

\* ---------------------------------------------- closeOnCancel and tickers --
Watch ==
  /\ At("C", "wait") /\ CtxDone
  /\ Goto("C", IF reason THEN <<Wr("cerr"), Cl(1000)>> ELSE <<Cl(1000)>>)
  /\ A("Watch", "", "", 0)
  /\ UNCHANGED <<w, c, viol, inbox, nsent, cgone, sub, mu, active, closed, connClosed, ccancel, srvCancelled, runCancelled,
                 reqCancelled, fnres, reason, stalled, ticks, recvPong, deadline>>

TickFrame(t) == IF t = "KA" THEN "ka" ELSE IF t = "PO" THEN "pong" ELSE "ping"

Tick(t) ==
  /\ At(t, "tick") /\ ticks < MaxTicks /\ Env
  /\ ticks' = ticks + 1
  /\ Goto(t, <<Wr(TickFrame(t))>> \o (IF t = "PP" THEN <<O("pingcs")>> ELSE <<>>) \o <<O("tick")>>)
  /\ A("Tick", t, "", 0)
  /\ UNCHANGED <<w, c, viol, inbox, nsent, cgone, sub, mu, active, closed, connClosed, ccancel, srvCancelled, runCancelled,
                 reqCancelled, fnres, reason, stalled, recvPong, deadline>>

TickStop(t) ==
  /\ At(t, "tick") /\ CtxDone
  /\ Goto(t, <<>>)
  /\ A("TickStop", t, "", 0)
  /\ UNCHANGED <<w, c, viol, inbox, nsent, cgone, sub, mu, active, closed, connClosed, ccancel, srvCancelled, runCancelled,
                 reqCancelled, fnres, reason, stalled, ticks, recvPong, deadline>>

PingCS ==
  /\ At("PP", "pingcs") /\ mu = "free"
  /\ deadline' = (IF ~MCMissingPongOk /\ recvPong THEN TRUE ELSE deadline)
  /\ recvPong' = FALSE /\ Pop("PP")
  /\ A("PingCS", "", "", 0)
  /\ UNCHANGED <<w, c, viol, inbox, nsent, cgone, sub, mu, active, closed, connClosed, ccancel, srvCancelled, runCancelled,
                 reqCancelled, fnres, reason, stalled, ticks>>

\* ------------------------------------------------------------ environment --
\* instance names of one id are used in the order of the constant InstOrder
\* (TLC compares strings only for equality)
Pos(i) == CHOOSE n \in 1..Len(InstOrder) : InstOrder[n] = i
NextInst(id) == {i \in AllInsts : /\ IdOfInst[i] = id /\ i \notin Insts(w)
                                  /\ \A j \in AllInsts : (IdOfInst[j] = id /\ j \notin Insts(w)) => Pos(i) <= Pos(j)}

Msg(m, id, i, kind) == [m |-> m, id |-> id, i |-> i, kind |-> kind]

ClientSends(m, id, i, kind) ==
  /\ nsent < MaxMsgs /\ ~cgone /\ ~closed /\ EnvC(m)
  /\ prog["R"] # <<>>            \* (nobody reads any more: further messages change nothing)
  /\ nsent' = nsent + 1
  /\ w' = CSend_F(w, c, m, id, i, kind) /\ Chk(CSend_G(w, c, m, id, i), "CSend")
  /\ IF m \in {"abort", "closef"}
       THEN cgone' = TRUE /\ inbox' = Append(inbox, Msg("eof", "", "", ""))
       ELSE cgone' = cgone /\ inbox' = Append(inbox, Msg(m, id, i, kind))
  /\ A("CSend", m, IF m = "start" THEN i ELSE id, IF kind = "bad" THEN 1 ELSE 0)
  /\ UNCHANGED <<c, prog, sub, mu, active, closed, connClosed, ccancel, srvCancelled, runCancelled,
                 reqCancelled, fnres, reason, stalled, ticks, recvPong, deadline>>

Client ==
  \/ \E m \in Alphabet \ {"start", "stop"} : ClientSends(m, "", "", "")
  \/ \E id \in Ids : "stop" \in Alphabet /\ ClientSends("stop", id, "", "")
  \/ \E id \in Ids : \E i \in NextInst(id) : \E kind \in (IF BadStarts THEN {"ok", "bad"} ELSE {"ok"}) :
        "start" \in Alphabet /\ ClientSends("start", id, i, kind)

\* the context InitFunc returned (or the connection's base context) is cancelled
ServerCancel ==
  /\ MCCancel /\ ~srvCancelled /\ Env
  /\ prog["C"] # <<>> \/ (MCInitFn /\ w.initFn = "accept")
  /\ srvCancelled' = TRUE
  /\ w' = SrvCancel_F(w)
  /\ A("SrvCancel", "", "", 0)
  /\ UNCHANGED <<c, viol, inbox, nsent, cgone, prog, sub, mu, active, closed, connClosed, ccancel, runCancelled,
                 reqCancelled, fnres, reason, stalled, ticks, recvPong, deadline>>

System ==
  \E p \in Procs :
     /\ MayRun(p)
     /\ \/ Lock(p) \/ Send(p) \/ CloseTry(p) \/ CloseLock(p) \/ CloseFrame(p) \/ CloseCancel(p) \/ CloseCS(p)
        \/ CloseConn(p) \/ CloseFn(p)
        \/ p = "R" /\ (RdInit \/ InitFnCall \/ Setup \/ Read \/ Reg \/ Look \/ CancelOp \/ PongCS \/ Ret)
        \/ p \in AllInsts /\ (SrcStart(p) \/ SrcSeesCancel(p) \/ (~Linger /\ SrcLingerEnds(p)) \/ Del(p))
        \/ p = "C" /\ Watch
        \/ p = "PP" /\ PingCS
        \/ p \in Tickers /\ TickStop(p)

\* the peer stops reading for a while (once): socket writes do not return until the stall ends
StallOn ==
  /\ Stalls /\ stalled = "no" /\ Env /\ ~closed
  /\ stalled' = "on"
  /\ A("StallOn", "", "", 0)
  /\ UNCHANGED <<w, c, viol, inbox, nsent, cgone, prog, sub, mu, active, closed, connClosed, ccancel, srvCancelled, runCancelled,
                 reqCancelled, fnres, reason, ticks, recvPong, deadline>>
StallOff ==
  /\ stalled = "on" /\ Env
  /\ stalled' = "done"
  /\ A("StallOff", "", "", 0)
  /\ UNCHANGED <<w, c, viol, inbox, nsent, cgone, prog, sub, mu, active, closed, connClosed, ccancel, srvCancelled, runCancelled,
                 reqCancelled, fnres, reason, ticks, recvPong, deadline>>

Environment ==
  \/ Client \/ ServerCancel \/ InitTimeout \/ Deadline \/ StallOn \/ StallOff
  \/ \E i \in AllInsts : Linger /\ SrcLingerEnds(i)
  \/ \E t \in Tickers : Tick(t)
  \/ \E i \in AllInsts : SrcEmit(i) \/ \E xk \in SrcKinds : SrcEnd(i, xk)

\* what the harness can observe and compare (per instance: Source state, frames received)
Proj ==
  [I |-> [i \in Insts(w) |-> [src |-> w.I[i].src, xk |-> w.I[i].xk, em |-> w.I[i].em, nx |-> w.I[i].nx,
                              er |-> w.I[i].er, cp |-> w.I[i].cp]],
   acks |-> w.acks, closeCalls |-> w.closeCalls, cend |-> (w.cend \/ cgone), initFn |-> w.initFn]

EnvNames == {"CSend", "SrvCancel", "InitTimeout", "Deadline", "Tick", "SrcEmit", "SrcEnd", "StallOn", "StallOff"}
           \cup (IF Linger THEN {"SrcRelease"} ELSE {})
Next ==
  /\ System \/ Environment
  \* (b: the decision was taken in a non-quiescent state = second frame of one client write)
  /\ hist' = (IF Sync /\ act'.name \in EnvNames THEN Append(hist, [a |-> act', o |-> Proj, b |-> ~Quiet]) ELSE hist)

\* gqlgen's own steps are weakly fair; so is (by the property's assumption)
\* a Source that has been cancelled.  The environment is not.
fvars == <<w, c, ivars, viol, act>>     \* (hist is written by Next only)
Fairness ==
  /\ \A p \in Procs : WF_fvars(Lock(p)) /\ WF_fvars(Send(p)) /\ WF_fvars(CloseTry(p)) /\ WF_fvars(CloseLock(p))
                      /\ WF_fvars(CloseFrame(p)) /\ WF_fvars(CloseCancel(p)) /\ WF_fvars(CloseCS(p))
                      /\ WF_fvars(CloseConn(p)) /\ WF_fvars(CloseFn(p))
  /\ WF_fvars(StallOff)                      \* a stall ends
  /\ WF_fvars(RdInit) /\ WF_fvars(InitFnCall) /\ WF_fvars(Setup) /\ WF_fvars(Read) /\ WF_fvars(Reg) /\ WF_fvars(Look)
  /\ WF_fvars(CancelOp) /\ WF_fvars(PongCS) /\ WF_fvars(Ret) /\ WF_fvars(Watch) /\ WF_fvars(PingCS)
  /\ \A t \in Tickers : WF_fvars(TickStop(t))
  /\ \A i \in AllInsts : WF_fvars(SrcStart(i)) /\ WF_fvars(SrcSeesCancel(i)) /\ WF_fvars(SrcLingerEnds(i)) /\ WF_fvars(Del(i))

Spec == Init /\ [][Next]_vars /\ Fairness

\* ------------------------------------------------------------- properties --
TypeOK ==
  /\ mu \in {"free"} \cup Procs
  /\ \A p \in Procs : sub[p] \in {"-", "in", "ck", "cs", "cs2", "cs3", "cc", "cf"}
  /\ stalled \in {"no", "on", "done"}
  /\ nsent \in 0..MaxMsgs /\ ticks \in 0..MaxTicks
  /\ DOMAIN active \subseteq Ids /\ Range(active) \subseteq AllInsts

\* every observable step satisfies the property-level guard (refinement of Ws)
Refines == viol = {}

\* frames are never written concurrently
WriteExclusion ==
  /\ Cardinality({p \in Procs : sub[p] \in {"in", "cs", "cs2", "cs3"}}) <= 1
  /\ \A p \in Procs : sub[p] \in {"in", "cs", "cs2", "cs3"} => mu = p

AllDone == \A p \in Procs : prog[p] = <<>>
\* the close callback fires at most once, and exactly once when everything has ended
CloseOnceI == w.closeCalls <= 1 /\ (AllDone => w.closeCalls = 1)
\* when everything has ended no operation is left registered or running
NothingLeft == AllDone => (\A i \in Insts(w) : w.I[i].src # "run")

\* liveness: after close or cancel every process of the connection reaches its end
Ending == closed \/ srvCancelled \/ prog["R"] = <<>>
EndsAll == Ending ~> AllDone
\* StopCancels: once the reader has taken a stop(id), every operation of that id
\* started before it is cancelled or over
StopSeen(i) == i \in Insts(w) /\ w.I[i].stopped /\ w.I[i].src = "run"
                /\ ~(\E n \in 1..Len(inbox) : inbox[n].m = "stop" /\ inbox[n].id = IdOfInst[i])
                /\ ~(At("R", "look") \/ At("R", "cancel"))
StopCancels == \A i \in AllInsts : StopSeen(i) ~> (i \in Insts(w) /\ (w.I[i].src = "exited" \/ Cancelled(i)))
\* as a state predicate: a stop that the reader has fully handled left no running, uncancelled operation of the id
StopCancelsI == \A i \in AllInsts : (StopSeen(i) /\ (\A n \in 1..Len(inbox) : inbox[n].m # "start")
                                      /\ ~At("R", "reg")) => Cancelled(i)

\* the same, restricted to behaviours in which no two operations of one id ever overlapped
StopCancelsNoDup == "dupreg" \in w.devs \/ StopCancelsI

\* ---------------------------------------------------------- script export --
\* (Sync, -workers 1, as an INVARIANT: evaluated once per distinct state.)  Every
\* quiescent state prints the environment decisions that led to it, the
\* observation predicted before each of them, and the final observation.
EmitHist ==
  (Sync /\ Quiet) => PrintT(ToJson([h |-> hist, o |-> Proj, fnres |-> fnres, reason |-> reason, done |-> AllDone]))
=============================================================================
