---------------------------- MODULE MC_JsonWriter ----------------------------
(* Constant definitions for the model-checking configurations of JsonWriter. *)
EXTENDS JsonWriter
MC_AllFirst == AllUnits
=============================================================================
