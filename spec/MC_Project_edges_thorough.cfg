\* Project.tla as the PINNED TREE behaves (Dev = all named deviations): prints every labelled edge of
\* the projected state graph (-workers 1) for replay into the real generator (thorough tier).
\* 2 resolver fields (Query.f1, T.g) x 2 schema files x 3 edit records x 2 helper tokens x 5 import
\* tokens x both resolver layouts x histories <= 4.  Measured: see notes/C19.md.
INIT Init
NEXT Next
CONSTANTS
  Files <- MCFiles
  FileOrder <- MCFileOrder
  Pairs <- MCPairs
  TypeOf <- MCTypeOf
  RootTypes <- MCRoot
  Edits <- MCEditsDev
  HelperToks <- MCHelpers
  ImportToks <- MCImportsDev
  CmtToks <- MCCmt
  NeverPruned <- MCNever
  Cfgs <- MCCfgs
  ImpPairs <- MCImpQ
  InitSchemas <- MCInit3
  MaxHist = 3
  Dev <- MCAllDevs
VIEW View
INVARIANTS TypeOK SchemaOK LayoutOK GenerateTotal
PROPERTIES MethodsKeptND FilesParseND IdealRecorded Deterministic
ACTION_CONSTRAINT EmitEdge
CONSTRAINT EmitInit
CHECK_DEADLOCK FALSE
