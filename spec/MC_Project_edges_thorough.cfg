\* As MC_Project_edges.cfg, thorough tier of C19: 3 resolver fields, 3 edit records, helpers {h, hc}, imports
\* {alias, asfx, arsv, blank, blank2}, start = empty project or f1 + g in a.graphqls, histories <= 3.
\* Root struct customisations {rf, re}.
\* Measured: 8 009 states (before the root struct: 4 217 states, 11 062 edges; 14 050 covering histories -> prefix tree
\* 18 098 edges, 865 Generate runs; 7 s).
INIT Init
NEXT Next
CONSTANTS
  Files <- MCFiles
  FileOrder <- MCFileOrder
  Pairs <- MCPairs
  TypeOf <- MCTypeOf
  RootTypes <- MCRoot
  Edits <- MCEditsDev
  EncToks <- MCEncAll
  HelperToks <- MCHelpers
  ImportToks <- MCImportsDev
  CmtToks <- MCCmt
  NeverPruned <- MCNever
  RootToks <- MCRootAll
  Cfgs <- MCCfgs
  ImpPairs <- MCImpQ
  InitSchemas <- MCInit3
  MaxHist = 3
  Dev <- MCCurDevs
VIEW View
INVARIANTS TypeOK SchemaOK LayoutOK GenerateTotal
PROPERTIES MethodsKeptND FilesParseND Deterministic
ACTION_CONSTRAINT EmitEdge
CONSTRAINT EmitInit
CHECK_DEADLOCK FALSE
