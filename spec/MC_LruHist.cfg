\* Lru with its history variables (quick tier): Keys {k1,k2,k3}, Vals {v1,v2},
\* capacity 1..3, histories of any length (finite state space).
\* Measured: 4668 distinct states, 42015 generated, ~2 s.
SPECIFICATION LruSpec
CONSTANTS
  Keys <- K3
  Vals <- V2
  Caps <- Caps123
INVARIANTS LruTypeOK SizeOK Latest GetLatest GetOwn Own NeverAddedMisses
PROPERTIES EvictOK
CHECK_DEADLOCK FALSE
