---------------------------- MODULE MC_Introspect ----------------------------
(***************************************************************************)
(* The bounded schema space and the bounded hiding-operation space of C16, *)
(* enumerated exhaustively by TLC.                                         *)
(*                                                                         *)
(* The full product of all schema features over 4 types is astronomically  *)
(* large, and View is compositional (each element's view depends on that   *)
(* element, its enclosing element and the kinds of the types it names), so *)
(* the space is the UNION of slices; each slice takes the exhaustive       *)
(* product of one feature group together with its neighbours:              *)
(*   SliceFields   field (desc, own deprecation, type) x its argument      *)
(*                 (presence, desc, OWN deprecation, type/default) x a     *)
(*                 second field with the opposite deprecation pattern x    *)
(*                 host kind object / interface                            *)
(*   SliceInputs   input fields: desc x own deprecation x type/default x   *)
(*                 second input field                                      *)
(*   SliceEnums    enum values: desc x own deprecation, one or two values  *)
(*   SliceRel      every assignment of kinds object / interface / union to *)
(*                 NRel types with every legal `implements` relation       *)
(*                 (incl. interface implements interface, transitively     *)
(*                 declared) and every non-empty union membership          *)
(*   SliceDirs     directive definitions: desc x repeatable x locations x  *)
(*                 argument (presence, desc, own deprecation, default)     *)
(*   SliceDflt     default values of every kind x the three positions      *)
(*                 argument / input field / directive argument             *)
(*   SliceWrap     every list / non-null wrapping up to depth MaxWrap x    *)
(*                 the kind of the named type, output and input position   *)
(*   SliceTop      schema description, root operation types, custom scalar *)
(*                 (description, specifiedBy), descriptions per kind       *)
(*   SliceText     every text class (blanks at line ends, indentation,     *)
(*                 blank-only lines, backticks, triple quotes, non-BMP,    *)
(*                 long lines, CR, ...) x every text position (13          *)
(*                 descriptions, 5 deprecation reasons, 4 string defaults) *)
(* Big = FALSE is the quick tier, Big = TRUE the thorough tier.            *)
(* Cross-feature combinations beyond the slices come from the seeded       *)
(* generator of the harness through Feed_Introspect.                       *)
(***************************************************************************)
EXTENDS Introspect

CONSTANT Big

T0 == [name |-> "", kind |-> "", desc |-> "", fields |-> <<>>, ifaces |-> <<>>, members |-> <<>>,
       values |-> <<>>, inputs |-> <<>>, url |-> ""]
Ref(w, n)  == [wrap |-> w, name |-> n]
Fld(n, ty) == [name |-> n, desc |-> "", type |-> ty, args |-> <<>>, dep |-> NoDep]
IV(n, ty)  == [name |-> n, desc |-> "", type |-> ty, dflt |-> NoDflt, dep |-> NoDep]
EV(n)      == [name |-> n, desc |-> "", dep |-> NoDep]
Obj(n, fs, is) == [T0 EXCEPT !.name = n, !.kind = "OBJECT", !.fields = fs, !.ifaces = is]
Ifc(n, fs, is) == [T0 EXCEPT !.name = n, !.kind = "INTERFACE", !.fields = fs, !.ifaces = is]
Uni(n, ms)     == [T0 EXCEPT !.name = n, !.kind = "UNION", !.members = ms]
Enm(n, vs)     == [T0 EXCEPT !.name = n, !.kind = "ENUM", !.values = vs]
Inp(n, xs)     == [T0 EXCEPT !.name = n, !.kind = "INPUT_OBJECT", !.inputs = xs]
Sca(n, u)      == [T0 EXCEPT !.name = n, !.kind = "SCALAR", !.url = u]
Base(ts) == [desc |-> "", query |-> "Query", mutation |-> "", subscription |-> "", types |-> ts, dirs |-> <<>>]
Dir(n, ls, as) == [name |-> n, desc |-> "", rep |-> "f", locs |-> ls, args |-> as]

Lit(t, v) == [t |-> t, v |-> v, e |-> <<>>]
Lst(xs)   == [t |-> "list", v |-> "", e |-> MapSeq(LAMBDA x : [k |-> "", x |-> x], xs)]
Ob(kvs)   == [t |-> "obj", v |-> "", e |-> MapSeq(LAMBDA kv : [k |-> kv[1], x |-> kv[2]], kvs)]
NullV     == Lit("null", "")

IdF == Fld("id", Ref(<<>>, "ID"))
Q0  == Obj("Query", <<IdF>>, <<>>)

Deps  == {NoDep, [on |-> "t", reason |-> ""], [on |-> "t", reason |-> "why1"]}
Descs == {"", "d1"}

-----------------------------------------------------------------------------
\* (type, default) pairs of an argument over built-in scalars
ArgTD == {<<Ref(<<>>, "Int"), NoDflt>>, <<Ref(<<>>, "Int"), Lit("int", "5")>>,
          <<Ref(<<"N">>, "String"), Lit("str", "s_plain")>>}
         \cup (IF Big THEN {<<Ref(<<"L", "N">>, "Boolean"), NoDflt>>} ELSE {})

ArgChoices == {<<>>} \cup
    {<< [name |-> "x", desc |-> ad, type |-> td[1], dflt |-> td[2], dep |-> adep] >> :
        ad \in Descs, adep \in Deps, td \in ArgTD}

FieldTypes == {Ref(<<>>, "String"), Ref(<<"N", "L", "N">>, "Int")} \cup (IF Big THEN {Ref(<<>>, "Query")} ELSE {})

\* a second field whose deprecation pattern is the opposite of what a borrowed attribute would show
SecondFields ==
    {<<>>,
     << [name |-> "f2", desc |-> "", type |-> Ref(<<>>, "ID"), dep |-> NoDep,
         args |-> << [name |-> "y", desc |-> "d2", type |-> Ref(<<>>, "ID"), dflt |-> NoDflt,
                      dep |-> [on |-> "t", reason |-> "why2"]] >>] >>}
    \cup (IF Big THEN
     {<< [name |-> "f2", desc |-> "d2", type |-> Ref(<<>>, "ID"), dep |-> [on |-> "t", reason |-> "why3"],
          args |-> << IV("y", Ref(<<>>, "ID")) >>] >>} ELSE {})

SliceFields ==
    {LET fs == << [name |-> "f1", desc |-> fd, type |-> ft, args |-> as, dep |-> fdep] >> \o f2 IN
     IF host = "obj" THEN Base(<< Obj("Query", fs, <<>>) >>)
                     ELSE Base(<< Q0, Ifc("T1", fs, <<>>) >>) :
        fd \in Descs, fdep \in Deps, ft \in FieldTypes, as \in ArgChoices, f2 \in SecondFields,
        host \in {"obj", "ifc"}}

-----------------------------------------------------------------------------
InTD == {<<Ref(<<>>, "Int"), NoDflt>>, <<Ref(<<>>, "Int"), Lit("int", "5")>>,
         <<Ref(<<"L", "N">>, "String"), Lst(<<Lit("str", "s_plain")>>)>>,
         <<Ref(<<>>, "T1"), NoDflt>>}

SecondInputs == {<<>>, << IV("b", Ref(<<>>, "ID")) >>,
                 << [name |-> "b", desc |-> "d2", type |-> Ref(<<>>, "ID"), dflt |-> NoDflt,
                     dep |-> [on |-> "t", reason |-> "why2"]] >>}

SliceInputs ==
    {Base(<< Obj("Query", << [name |-> "q", desc |-> "", type |-> Ref(<<>>, "ID"), dep |-> NoDep,
                              args |-> << IV("in", Ref(<<>>, "T1")) >>] >>, <<>>),
             Inp("T1", << [name |-> "a", desc |-> d, type |-> td[1], dflt |-> td[2], dep |-> dp] >> \o x2) >>) :
        d \in Descs, dp \in Deps, td \in InTD, x2 \in SecondInputs}

-----------------------------------------------------------------------------
EnumVals(n) == {[name |-> n, desc |-> d, dep |-> dp] : d \in Descs, dp \in Deps}

SliceEnums ==
    {Base(<< Obj("Query", << [name |-> "e", desc |-> "", type |-> Ref(<<>>, "T1"), dep |-> NoDep,
                              args |-> << [IV("x", Ref(<<>>, "T1")) EXCEPT !.dflt = Lit("enum", "V1")] >>] >>, <<>>),
             Enm("T1", <<v1>> \o v2) >>) :
        v1 \in EnumVals("V1"), v2 \in {<<>>} \cup {<<w>> : w \in EnumVals("V2")}}

-----------------------------------------------------------------------------
\* relations among NRel types of kinds object / interface / union
NRel == IF Big THEN 4 ELSE 3
RelNames == SubSeq(<<"T1", "T2", "T3", "T4">>, 1, NRel)
RelSet == SeqToSet(RelNames)
SeqOfSet(S) == SelectSeq(RelNames, LAMBDA n : n \in S)

\* the names a type of kind kinds[n] may list: interfaces other than itself / object members
Allowed(kinds, n) == IF kinds[n] = "UNION" THEN {m \in RelSet : kinds[m] = "OBJECT"}
                     ELSE {m \in RelSet \ {n} : kinds[m] = "INTERFACE"}
RECURSIVE RelFns(_, _)
RelFns(kinds, names) ==
    IF Len(names) = 0 THEN {<<>>}
    ELSE {(Head(names) :> x) @@ f : x \in SUBSET Allowed(kinds, Head(names)), f \in RelFns(kinds, Tail(names))}

RelSchemas ==
    UNION {{Base(<<Q0>> \o
              MapSeq(LAMBDA n :
                        IF kinds[n] = "OBJECT" THEN Obj(n, <<IdF>>, SeqOfSet(rel[n]))
                        ELSE IF kinds[n] = "INTERFACE" THEN Ifc(n, <<IdF>>, SeqOfSet(rel[n]))
                        ELSE Uni(n, SeqOfSet(rel[n])),
                     RelNames)) : rel \in RelFns(kinds, RelNames)} :
           kinds \in [RelSet -> {"OBJECT", "INTERFACE", "UNION"}]}

SliceRel == {S \in RelSchemas : IsSchema(S)}

-----------------------------------------------------------------------------
DirLocs == {<<"FIELD_DEFINITION">>, <<"QUERY", "FIELD">>, <<"ARGUMENT_DEFINITION", "ENUM_VALUE", "INPUT_OBJECT">>}

SecondDirs == {<<>>} \cup (IF Big THEN
    {<< [name |-> "zz", desc |-> "d2", rep |-> "t", locs |-> <<"SCHEMA">>,
         args |-> << [name |-> "y", desc |-> "", type |-> Ref(<<>>, "ID"), dflt |-> NoDflt,
                      dep |-> [on |-> "t", reason |-> "why2"]] >>] >>} ELSE {})

SliceDirs ==
    {[Base(<<Q0>>) EXCEPT !.dirs = << [name |-> "dd", desc |-> d, rep |-> r, locs |-> ls, args |-> as] >> \o d2] :
        d \in Descs, r \in {"t", "f"}, ls \in DirLocs, as \in ArgChoices, d2 \in SecondDirs}

-----------------------------------------------------------------------------
\* default values of every kind; the schema provides enum E1, inputs I1, scalar Sc
E1 == Enm("E1", << EV("V1"), EV("V2") >>)
I1 == Inp("I1", << IV("a", Ref(<<>>, "Int")), IV("n", Ref(<<>>, "I1")), IV("l", Ref(<<"L">>, "E1")) >>)
Sc == Sca("Sc", "")

TypedDefaults ==
    {<<Ref(<<>>, "Int"), Lit("int", "0")>>, <<Ref(<<>>, "Int"), Lit("int", "-5")>>,
     <<Ref(<<>>, "Int"), Lit("int", "2147483647")>>, <<Ref(<<>>, "Int"), NullV>>,
     <<Ref(<<>>, "Float"), Lit("float", "1.5")>>, <<Ref(<<>>, "Float"), Lit("float", "-2.5e3")>>,
     <<Ref(<<>>, "Float"), Lit("int", "2")>>,
     <<Ref(<<>>, "String"), Lit("str", "s_plain")>>, <<Ref(<<>>, "String"), Lit("str", "s_empty")>>,
     <<Ref(<<>>, "String"), Lit("str", "s_quote")>>, <<Ref(<<>>, "String"), Lit("str", "s_nl")>>,
     <<Ref(<<>>, "String"), Lit("str", "s_uni")>>, <<Ref(<<>>, "String"), Lit("str", "s_ctl")>>,
     <<Ref(<<"N">>, "String"), Lit("str", "s_plain")>>,
     <<Ref(<<>>, "Boolean"), Lit("bool", "true")>>, <<Ref(<<>>, "Boolean"), Lit("bool", "false")>>,
     <<Ref(<<>>, "ID"), Lit("str", "s_plain")>>, <<Ref(<<>>, "ID"), Lit("int", "7")>>,
     <<Ref(<<>>, "Sc"), Lit("str", "s_plain")>>, <<Ref(<<>>, "Sc"), Lit("int", "1")>>,
     <<Ref(<<>>, "E1"), Lit("enum", "V2")>>, <<Ref(<<"L", "N">>, "E1"), Lst(<<Lit("enum", "V1"), Lit("enum", "V2")>>)>>,
     <<Ref(<<"L">>, "Int"), Lst(<<Lit("int", "1"), NullV, Lit("int", "3")>>)>>,
     <<Ref(<<"L">>, "Int"), Lst(<<>>)>>, <<Ref(<<"L">>, "String"), NullV>>,
     <<Ref(<<"L", "L">>, "Int"), Lst(<<Lst(<<Lit("int", "1")>>), Lst(<<>>)>>)>>,
     <<Ref(<<>>, "I1"), Ob(<<>>)>>, <<Ref(<<>>, "I1"), Ob(<< <<"a", Lit("int", "1")>> >>)>>,
     <<Ref(<<>>, "I1"), Ob(<< <<"a", NullV>>, <<"n", Ob(<< <<"a", Lit("int", "2")>> >>)>>,
                            <<"l", Lst(<<Lit("enum", "V1")>>)>> >>)>>,
     <<Ref(<<"L">>, "I1"), Lst(<<Ob(<< <<"a", Lit("int", "1")>> >>), Ob(<<>>)>>)>>}

SliceDflt ==
    {IF where = "arg" THEN
        Base(<< Obj("Query", << [Fld("q", Ref(<<>>, "ID")) EXCEPT !.args = << [IV("x", td[1]) EXCEPT !.dflt = td[2]] >>] >>, <<>>), E1, I1, Sc >>)
     ELSE IF where = "input" THEN
        Base(<< Obj("Query", << [Fld("q", Ref(<<>>, "ID")) EXCEPT !.args = << IV("in", Ref(<<>>, "I2")) >>] >>, <<>>), E1, I1, Sc,
                Inp("I2", << [IV("x", td[1]) EXCEPT !.dflt = td[2]] >>) >>)
     ELSE
        [Base(<< Q0, E1, I1, Sc >>) EXCEPT !.dirs = << Dir("dd", <<"FIELD">>, << [IV("x", td[1]) EXCEPT !.dflt = td[2]] >>) >>] :
        td \in TypedDefaults, where \in {"arg", "input", "dir"}}

-----------------------------------------------------------------------------
MaxWrap == IF Big THEN 5 ELSE 3
RECURSIVE WrapsOfLen(_)
WrapsOfLen(k) == IF k = 0 THEN {<<>>}
                 ELSE {<<x>> \o w : x \in {"N", "L"}, w \in WrapsOfLen(k - 1)}
Wraps == {w \in UNION {WrapsOfLen(k) : k \in 0..MaxWrap} : IsWrap(w)}

WrapTypes == << E1, I1, Sc, Obj("Ob", <<IdF>>, <<"If">>), Ifc("If", <<IdF>>, <<>>), Uni("Un", <<"Ob">>) >>

SliceWrap ==
    {Base(<< Obj("Query", << Fld("q", Ref(w, n)) >>, <<>>) >> \o WrapTypes) :
        w \in Wraps, n \in {"String", "Sc", "E1", "Ob", "If", "Un"}}
    \cup
    {Base(<< Obj("Query", << [Fld("q", Ref(<<>>, "ID")) EXCEPT !.args = << IV("x", Ref(w, n)) >>] >>, <<>>) >> \o WrapTypes) :
        w \in Wraps, n \in {"Int", "Sc", "E1", "I1"}}

-----------------------------------------------------------------------------
SliceTop ==
    {[desc |-> sd, query |-> "Query", mutation |-> mu, subscription |-> su, dirs |-> <<>>,
      types |-> << Q0, [Sca("T1", u) EXCEPT !.desc = d], Obj("T2", <<IdF>>, <<>>), Obj("Mutation", <<IdF>>, <<>>),
                   Obj("Subscription", <<IdF>>, <<>>) >>] :
        sd \in Descs, d \in Descs, u \in {"", "u1"}, mu \in {"", "Mutation", "T2"}, su \in {"", "Subscription"}}
    \cup
    {Base(<< [Q0 EXCEPT !.desc = d[1]], [Ifc("If", <<IdF>>, <<>>) EXCEPT !.desc = d[2]],
             [Uni("Un", <<"Query">>) EXCEPT !.desc = d[3]], [E1 EXCEPT !.desc = d[4]],
             [I1 EXCEPT !.desc = d[5]] >>) :
        d \in [1..5 -> Descs]}

-----------------------------------------------------------------------------
\* text classes: what a description / deprecation reason / string default is made of matters as soon as
\* some layer treats schema text byte-wise (blanks at line ends, indentation, blank-only lines, backticks,
\* triple quotes, non-BMP runes, very long lines, carriage returns, blanks at the end, backslashes).
\* The symbols are concretised by a representative of the class (harness/c16lib/render.go TextClassPool);
\* every class is placed at every text position of a schema.
DescClasses == {"dc_trail", "dc_tabend", "dc_lead", "dc_wsline", "dc_tick", "dc_tq", "dc_nonbmp", "dc_long",
                "dc_cr", "dc_endsp", "dc_bs"}
ReasonClasses == {"wc_trail", "wc_tabend", "wc_lead", "wc_wsline", "wc_tick", "wc_tq", "wc_nonbmp", "wc_long",
                  "wc_cr", "wc_endsp", "wc_bs"}
StrClasses == {"sc_trail", "sc_tabend", "sc_lead", "sc_wsline", "sc_tick", "sc_tq", "sc_nonbmp", "sc_long",
               "sc_cr", "sc_endsp", "sc_bs"}
DescPositions == {"schema", "object", "interface", "union", "enum", "input", "scalar", "field", "arg",
                  "inputfield", "enumvalue", "directive", "dirarg"}
ReasonPositions == {"rfield", "rarg", "rinputfield", "renumvalue", "rdirarg"}
StrPositions == {"sarg", "sinputfield", "sdirarg", "snested"}

TextSchema(p, x) ==
    LET d(q)  == IF p = q THEN x ELSE ""
        r(q)  == IF p = q THEN [on |-> "t", reason |-> x] ELSE NoDep
        sd(q) == IF p = q THEN Lit("str", x) ELSE NoDflt
    IN [desc |-> d("schema"), query |-> "Query", mutation |-> "", subscription |-> "",
        types |-> <<
           [Obj("Query", << [name |-> "f", desc |-> d("field"), type |-> Ref(<<>>, "En"), dep |-> r("rfield"),
                             args |-> << [name |-> "x", desc |-> d("arg"), type |-> Ref(<<>>, "String"),
                                          dflt |-> sd("sarg"), dep |-> r("rarg")],
                                         [name |-> "in", desc |-> "", type |-> Ref(<<>>, "In"),
                                          dflt |-> IF p = "snested" THEN Ob(<< <<"l", Lst(<<Lit("str", x)>>)>> >>) ELSE NoDflt,
                                          dep |-> NoDep] >>],
                            Fld("u", Ref(<<>>, "Un")), Fld("s", Ref(<<>>, "Sc")) >>, <<"If">>) EXCEPT !.desc = d("object")],
           [Ifc("If", << [name |-> "f", desc |-> "", type |-> Ref(<<>>, "En"), dep |-> NoDep,
                          args |-> << IV("x", Ref(<<>>, "String")), IV("in", Ref(<<>>, "In")) >>] >>, <<>>)
               EXCEPT !.desc = d("interface")],
           [Uni("Un", <<"Query">>) EXCEPT !.desc = d("union")],
           [Enm("En", << [name |-> "V1", desc |-> d("enumvalue"), dep |-> r("renumvalue")], EV("V2") >>)
               EXCEPT !.desc = d("enum")],
           [Inp("In", << [name |-> "a", desc |-> d("inputfield"), type |-> Ref(<<>>, "String"),
                          dflt |-> sd("sinputfield"), dep |-> r("rinputfield")],
                         IV("l", Ref(<<"L">>, "String")) >>) EXCEPT !.desc = d("input")],
           [Sca("Sc", "") EXCEPT !.desc = d("scalar")] >>,
        dirs |-> << [name |-> "dd", desc |-> d("directive"), rep |-> "f", locs |-> <<"FIELD_DEFINITION">>,
                     args |-> << [name |-> "x", desc |-> d("dirarg"), type |-> Ref(<<>>, "String"),
                                  dflt |-> sd("sdirarg"), dep |-> r("rdirarg")] >>] >>]

SliceText == {TextSchema(p, x) : p \in DescPositions, x \in DescClasses}
             \cup {TextSchema(p, x) : p \in ReasonPositions, x \in ReasonClasses}
             \cup {TextSchema(p, x) : p \in StrPositions, x \in StrClasses}

MCSchemas == SliceFields \cup SliceInputs \cup SliceEnums \cup SliceRel \cup SliceDirs
             \cup SliceDflt \cup SliceWrap \cup SliceTop \cup SliceText

-----------------------------------------------------------------------------
\* hiding operations: one or two root selections, introspection enabled or not
K(i) == IF i = 1 THEN "k1" ELSE "k2"

EntriesAt(i) ==
    {[pos |-> "__schema", key |-> k, via |-> v, arg |-> "-", known |-> "t"] : k \in {"__schema", K(i)}, v \in Vias}
    \cup {[pos |-> "__type", key |-> k, via |-> v, arg |-> a, known |-> kn] :
             k \in {"__type", K(i)}, v \in Vias, a \in {"lit", "var", "vardflt"}, kn \in {"t", "f"}}
    \cup {[pos |-> "_service", key |-> k, via |-> v, arg |-> "-", known |-> "t"] : k \in {"_service", K(i)}, v \in Vias}
    \cup {[pos |-> "__typename", key |-> k, via |-> v, arg |-> "-", known |-> "t"] : k \in {"__typename", K(i)}, v \in {"direct", "frag"}}
    \cup {[pos |-> "user", key |-> k, via |-> v, arg |-> "-", known |-> "t"] : k \in {"i", K(i)}, v \in {"direct", "inline"}}

SecondEntries == IF Big THEN EntriesAt(2)
                 ELSE {e \in EntriesAt(2) : e.via = "direct" /\ e.arg \in {"-", "lit"} /\ e.known = "t"}

\* every hiding shape on the two servers of rounds 1-2: nothing registered / only the extension
EntrySeqs == {<<e>> : e \in EntriesAt(1)} \cup {<<e1, e2>> : e1 \in EntriesAt(1), e2 \in SecondEntries}

It(k, w) == [k |-> k, w |-> w]
Intro == It("intro", "f")
LegacyOps == {[ext |-> x, chain |-> IF x = "t" THEN <<Intro>> ELSE <<>>, entries |-> es] :
                 x \in {"t", "f"}, es \in EntrySeqs}

\* registration orders: every sequence of at most MaxChain registrations over the alphabet
\* (extension installed at most once), i.e. user mutators before / after the extension and
\* guards registered before / after it, each setting, clearing or - for a guard - passing
Alphabet == {Intro, It("mut", "t"), It("mut", "f"), It("mw", "t"), It("mw", "f"), It("mw", "-")}
MaxChain == IF Big THEN 4 ELSE 3
RECURSIVE ChainsOfLen(_)
ChainsOfLen(k) == IF k = 0 THEN {<<>>} ELSE {<<x>> \o c : x \in Alphabet, c \in ChainsOfLen(k - 1)}
Chains(n) == {c \in UNION {ChainsOfLen(k) : k \in 0..n} :
                 Cardinality({i \in 1..Len(c) : c[i].k = "intro"}) <= 1}

\* the shapes every registration order is combined with: each introspection position through
\* each way of hiding it (alias / variable chosen per way), and three pairs
ChainEntry(p, v) ==
    [pos |-> p, via |-> v,
     key |-> IF v \in {"frag", "inline", "include"} THEN "k1" ELSE p,
     arg |-> IF p # "__type" THEN "-" ELSE IF v \in {"direct", "nested", "include"} THEN "var" ELSE "lit",
     known |-> "t"]
ChainEntrySeqs ==
    {<<ChainEntry(p, v)>> : p \in IntroPos, v \in Vias}
    \cup {<< ChainEntry("__schema", "direct"), [ChainEntry("__type", "frag") EXCEPT !.key = "k2"] >>,
          << [pos |-> "__typename", key |-> "__typename", via |-> "direct", arg |-> "-", known |-> "t"],
             ChainEntry("__schema", "frag") >>,
          << [pos |-> "user", key |-> "i", via |-> "direct", arg |-> "-", known |-> "t"],
             [ChainEntry("__type", "inline") EXCEPT !.arg = "vardflt"] >>}

ChainOps == {[ext |-> IF HasIntro(c) THEN "t" ELSE "f", chain |-> c, entries |-> es] :
                c \in Chains(MaxChain), es \in ChainEntrySeqs}
            \cup (IF Big THEN {[ext |-> IF HasIntro(c) THEN "t" ELSE "f", chain |-> c, entries |-> <<e>>] :
                                  c \in Chains(2), e \in EntriesAt(1)}
                         ELSE {})

MCOps == {o \in LegacyOps \cup ChainOps : IsOp(o)}

=============================================================================
