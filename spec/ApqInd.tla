------------------------------- MODULE ApqInd -------------------------------
(* Inductive-invariant check of Apq with Apalache (optional strengthening,  *)
(* thorough tier, never needed for the verdict):                            *)
(*   apalache-mc check --cinit=ConstInit --init=Init    --inv=IndInv --length=0 ApqInd.tla *)
(*   apalache-mc check --cinit=ConstInit --init=IndInit --inv=IndInv --length=1 ApqInd.tla *)
(* The first shows Init => IndInv, the second IndInv /\ Next => IndInv',    *)
(* from ANY state satisfying IndInv (not only reachable ones), so Bound     *)
(* holds for histories of every length over this alphabet.                  *)
EXTENDS Apq

ITexts == {"q1", "q2", "bad"}

ConstInit ==
  /\ Texts = ITexts
  /\ Valid = {"q1", "q2"}
  /\ HashOf = [t \in ITexts |-> IF t = "q1" THEN "h:q1" ELSE IF t = "q2" THEN "h:q2" ELSE "h:bad"]
  /\ ImplHash = HashOf
  /\ AltHashes = {"u:q1"}
  /\ CanonOf = [h \in {"u:q1"} |-> "h:q1"]
  /\ WrongHashes = {"x:rand", "x:empty"}
  /\ Kinds = {"map", "lru"}
  /\ Caps = {1, 2, 3}
  /\ MalKinds = {"pq_string", "ver_string"}
  /\ MalWithHash = {"ver_string"}
  /\ BadVers = {"2"}
  /\ History = TRUE

\* any state of the right shape; IndInv is then assumed by the checker
IndInit ==
  /\ kind \in Kinds
  /\ cap \in Caps \cup {0}
  /\ \E D \in SUBSET Hashes : cache \in [D -> Texts]
  /\ \E a, b, c \in Hashes : \E n \in 0..3 : order = SubSeq(<<a, b, c>>, 1, n)
  /\ sent \in SUBSET (Hashes \X Texts)
  /\ act = Req(NoText, "init", None, None, None)
  /\ out = Out(None, "init", NoOps)
  /\ (kind = "map" <=> cap = 0)
  /\ IndInv
=============================================================================
