---------------------------- MODULE ProjectCover ----------------------------
(***************************************************************************)
(* C17 - code generation is TOTAL over (schema feature set x configuration) *)
(*                                                                         *)
(* A function-shaped specification.  The input of the generator is         *)
(* abstracted to a ROW: an assignment  factor -> value  where the factors  *)
(* are the schema features of the documented feature set and the           *)
(* documented configuration options of gqlgen.yml.  The specification of   *)
(* `Generate` is: enabled for every supported row (also on top of the      *)
(* output of an earlier Generate - action Evolve) and its outcome is       *)
(*                                                                         *)
(*        [ok |-> TRUE, compiles |-> TRUE]                                 *)
(*                                                                         *)
(* i.e. no error, no panic, and executor, models, resolver stubs and stub  *)
(* file type-check.  What "type-checks" means is NOT specified here: the   *)
(* Go compiler is the oracle for it (harness side); neither is the         *)
(* identifier normalisation (the ToGo family) transcribed.  What the specification   *)
(* contributes is the systematic input space: the COVER below is defined   *)
(* constructively and TLC CHECKS (ASSUME PairwiseOK) that every pair of    *)
(* values of every two factors occurs together in some row, that every     *)
(* value triple of the CubeFactors occurs when Cube = TRUE, and it         *)
(* enumerates the rows and the evolutions, which the harness replays       *)
(* through the real generator.                                             *)
(*                                                                         *)
(* Construction of the pairwise cover (NB boolean factors, 4 multi-valued):*)
(*   boolean factor number j (1..NB) has the binary code of j (NBits bits) *)
(*   slot 0:      the rows all-FALSE and all-TRUE                           *)
(*   slot i>=1:   the row where factor j takes bit i-1 of its code, and    *)
(*                its complement                                           *)
(*   => two boolean factors with different codes get all 4 combinations.   *)
(*   Both rows of slot s carry the same multi-valued combination MC[s+1];  *)
(*   every selection of one row per slot (that is what fixing one boolean  *)
(*   value selects) therefore meets every value of every multi-valued      *)
(*   factor, because MC[1..NBits+1] does.  MC is a 12-row covering array of *)
(*   strength 2 for 4x3x3x3; the rows MC[NBits+2..12] are carried by the   *)
(*   first seeded rows.                                                    *)
(* Seeded rows: boolean values from a small deterministic hash of          *)
(* (Seed, row number, factor number).                                      *)
(***************************************************************************)
EXTENDS Integers, Sequences, FiniteSets, TLC, Json

CONSTANTS Seed,       \* seed of the seeded rows (the harness passes VERIF_SEED)
          Extra,      \* number of seeded rows after the pairwise rows (>= 12 - (NBits+1))
          Cube,       \* TRUE: add the full factorial over CubeFactors (others seeded)
          MaxEvolve,  \* Generate steps on top of earlier output in one project directory
          EvolveEvery,\* every EvolveEvery-th row starts an evolution
          Repeat      \* Generate steps with UNCHANGED input in the directory of a row with autobindModel

(* ---------------------------------------------------------------- factors *)

\* schema features (documented feature set); value TRUE = the renderer must make it occur
SchemaBool == <<
  "iface",        \* interfaces, objects implementing them, fields returning them
  "ifaceChain",   \* interface implements interface (chain of length 2..3)
  "union",
  "enum",
  "input",        \* input objects (nested, lists of them)
  "lists",        \* [T] [T!] [T]! [T!]! and nested lists, of every enabled kind
  "defaults",     \* default values: scalars, enums, lists, input objects, null
  "dirType",      \* custom directives on OBJECT, FIELD_DEFINITION, ARGUMENT_DEFINITION,
                  \* INPUT_FIELD_DEFINITION, INPUT_OBJECT, ENUM, ENUM_VALUE, INTERFACE, UNION, SCALAR
  "dirExec",      \* custom directives on QUERY, MUTATION, SUBSCRIPTION, FIELD (+ fragment locations)
  "builtinDir",   \* @deprecated @goField(forceResolver|name|omittable) @goModel @goTag @goEnum
                  \* @goExtraField @specifiedBy
  "mutation",
  "subscription",
  "extend",       \* extend type / extend interface ... in another schema file
  "scalars",      \* Time, Map, Any, Upload + user scalars bound to Go types
  "idKeyword",    \* Go keywords / predeclared names as field, argument and type names
  "idInitialism", \* id url http api uuid ... in various cases
  "idUnderscore", \* leading / trailing / embedded underscores
  "idEnumClash",  \* enum values normalising to one Go identifier (FOO_BAR, FooBar, foo_bar)
  "idTypeClash"   \* type names normalising to one Go name (my_type, MyType)
>>

\* configuration: every documented boolean of config.Config + the boolean-shaped choices
ConfigBool == <<
  "omit_slice_element_pointers", "omit_getters", "omit_interface_checks", "omit_complexity",
  "omit_gqlgen_file_notice", "omit_gqlgen_version_in_file_notice", "omit_root_models",
  "omit_resolver_fields", "omit_panic_handler", "use_function_syntax_for_execution_context",
  "call_argument_directives_with_null", "struct_fields_always_pointers",
  "return_pointers_in_unmarshalinput", "resolvers_always_return_pointers",
  "nullable_input_omittable", "enable_model_json_omitempty_tag", "enable_model_json_omitzero_tag",
  "skip_validation",
  "execFollow",            \* exec.layout: follow-schema (FALSE: single-file)
  "omit_template_comment", \* resolver.omit_template_comment
  "struct_tag",            \* struct_tag: json
  "stub",                  \* stubgen plugin writes graph/stub.go
  "autobindModel"          \* `autobind:` also lists the MODEL OUTPUT PACKAGE (hand-written models are kept next to
                           \* models_gen.go, the documented way): every later Generate in the directory loads the
                           \* package that holds the previous run's models_gen.go
>>

\* schema features added after the factor codes were fixed: appended at the END of BoolFactors, so that the
\* codes of the older factors - and with them their values in every row - stay what they were
SchemaLate == <<
  "handInModel",  \* a type whose Go model is HAND-WRITTEN in the model output package: found through autobind
                  \* (autobindModel) or bound by an explicit models: entry (otherwise)
  "ifaceOrphan"   \* an interface NOTHING implements (declared ahead of its first implementor), and an interface
                  \* implemented only by another interface that no object implements: no possible types
>>

\* configuration choices added later (appended for the same reason)
ConfigLate == <<
  "schemaInExecDir" \* the schema files live INSIDE the exec output directory (graph/*.graphqls): with the
                    \* follow-schema exec layout the sources are embedded (go:embed + sourceData()) instead of inlined
>>

BoolFactors == SchemaBool \o ConfigBool \o SchemaLate \o ConfigLate
NB == Len(BoolFactors)

\* Schema constructs that trigger KNOWN defects of the generator (open findings of C17, see
\* notes/C17.md).  They are factors like the others, but PINNED to FALSE in the cover -
\* otherwise every row containing one would fail for the known reason and exercise nothing
\* else - and each is enumerated once, in a small probe row of its own (ProbeNeeds).  When a
\* defect is repaired the factor moves to SchemaBool and joins the pairwise cover.
KnownDefect == <<
  "q_nestedNullMix",         \* [[T]] and [[T!]] of one object type
  "q_dirArgPredeclared",     \* directive argument named by a predeclared identifier
  "q_funcSyntaxGoEnum",      \* enum bound to Go constants (with function syntax)
  "q_stubKeywordType",       \* object type named by a Go keyword with resolvers (with the stub file)
  "q_argNamedPanic",         \* field argument named panic
  "q_autobindIntrospection", \* a type whose Go name is Type in an autobound package
  "q_valueStructCycle3",     \* 3-cycle of non-null object references (with value struct fields)
  "q_leadUnderscoreTypeResolver" \* object type whose name starts with an underscore, with a resolver field
>>
Pinned == {KnownDefect[i] : i \in 1..Len(KnownDefect)}

WLs    == <<0, 1, 2, 8>>                       \* exec.worker_limit
Inits  == <<"default", "custom", "replace">>   \* go_initialisms: none | extra initialisms | replace_defaults
Modes  == <<"gen", "mixed", "bound">>          \* model block | model block + autobind of hand-written types
                                               \* | no model block, autobind only
Resols == <<"single", "follow", "none">>       \* resolver.layout (none: no resolver block)

MultiFactors == <<"worker_limit", "go_initialisms", "models", "resolver">>
Range(s) == {s[i] : i \in 1..Len(s)}
Factors == Range(BoolFactors) \cup Range(MultiFactors) \cup Pinned
Varying == Factors \ Pinned

Dom(f) == CASE f = "worker_limit"   -> Range(WLs)
            [] f = "go_initialisms" -> Range(Inits)
            [] f = "models"         -> Range(Modes)
            [] f = "resolver"       -> Range(Resols)
            [] OTHER                -> BOOLEAN

\* the value gqlgen uses when the option is absent / the feature that is not there
\* (delta debugging in the harness switches factors back to it)
Default(f) == CASE f = "worker_limit"   -> 0
                [] f = "go_initialisms" -> "default"
                [] f = "models"         -> "gen"
                [] f = "resolver"       -> "single"
                [] f \in {"struct_fields_always_pointers", "resolvers_always_return_pointers",
                          "enable_model_json_omitempty_tag"} -> TRUE
                [] OTHER -> FALSE

\* factors that stay fixed along an evolution: changing them needs the user to delete
\* files gqlgen does not own any more (generated.go vs *.generated.go, stub.go, ...)
Held == {"execFollow", "resolver", "models", "stub", "schemaInExecDir"}

\* three-way (and higher) interactions are enumerated exhaustively for these
CubeFactors == <<"use_function_syntax_for_execution_context", "execFollow", "dirType",
                 "input", "struct_fields_always_pointers">>

(* ------------------------------------------------------------ construction *)

RECURSIVE Pow2(_)
Pow2(n) == IF n = 0 THEN 1 ELSE 2 * Pow2(n - 1)
Bit(n, i) == ((n \div Pow2(i)) % 2) = 1

NBits == CHOOSE b \in 1..10 : Pow2(b) > NB /\ (b = 1 \/ Pow2(b - 1) <= NB)

\* covering array of strength 2 for worker_limit x go_initialisms x models x resolver;
\* c = (a+b)%3, d = (a+2b)%3 over (a,b) in 0..3 x 0..2, ordered so that the first 7
\* rows already contain every single value
MC == << <<1,1,1,1>>, <<2,3,1,3>>, <<3,2,1,2>>, <<4,3,3,2>>, <<1,2,2,3>>, <<2,1,2,2>>, <<3,3,2,1>>,
         <<1,3,3,2>>, <<2,2,3,1>>, <<3,1,3,3>>, <<4,1,1,1>>, <<4,2,2,3>> >>

Multi(k) == LET m == MC[((k - 1) % 12) + 1] IN
            [worker_limit |-> WLs[m[1]], go_initialisms |-> Inits[m[2]],
             models |-> Modes[m[3]], resolver |-> Resols[m[4]]]

\* deterministic hash -> boolean
Rnd(r, j) == LET x0 == (Seed % 65521) * 7919 + r * 104729 + j * 1299709
                 h1 == x0 % 46337
                 h2 == (h1 * h1 + 12345) % 46337
                 h3 == (h2 * h2 + 7 * r + 13 * j) % 46337
             IN ((h3 \div 8) % 2) = 1

\* A row is described by <<kind, p, q, k>>: how its boolean part is computed and which
\* multi-valued combination Multi(k) it carries.  Rows are built EAGERLY (tuples and
\* records through \o, :> and @@), never as lazy function constructors.
NCube == Len(CubeFactors)
CubeIdx(f) == CHOOSE i \in 1..NCube : CubeFactors[i] = f

BoolVal(d, j) ==
  CASE d[1] = "const" -> d[2] = 1                       \* all-FALSE / all-TRUE
    [] d[1] = "bit"   -> Bit(j, d[2]) # (d[3] = 1)      \* bit d[2] of the code of factor j (d[3]=1: complement)
    [] d[1] = "seed"  -> Rnd(d[2], j)
    [] d[1] = "cube"  -> IF BoolFactors[j] \in Range(CubeFactors)
                         THEN Bit(d[2], CubeIdx(BoolFactors[j]) - 1)
                         ELSE Rnd(1000 + d[2], j)

RECURSIVE PinnedRec(_)
PinnedRec(i) == IF i > Len(KnownDefect) THEN << >> ELSE (KnownDefect[i] :> FALSE) @@ PinnedRec(i + 1)
PinnedFalse == PinnedRec(1)

RECURSIVE RowRec(_, _)
RowRec(d, j) == IF j > NB THEN Multi(d[4]) @@ PinnedFalse
                ELSE (BoolFactors[j] :> BoolVal(d, j)) @@ RowRec(d, j + 1)
MkRow(d) == RowRec(d, 1)

\* probe rows: everything at its default except what the construct needs, and the construct
RECURSIVE DefaultRec(_)
DefaultRec(j) == IF j > NB THEN [worker_limit |-> 0, go_initialisms |-> "default", models |-> "gen",
                                  resolver |-> "single"] @@ PinnedFalse
                 ELSE (BoolFactors[j] :> Default(BoolFactors[j])) @@ DefaultRec(j + 1)
DefaultRow == DefaultRec(1)

ProbeNeeds(q) ==
  CASE q = "q_nestedNullMix"         -> [lists |-> TRUE]
    [] q = "q_dirArgPredeclared"     -> [dirType |-> TRUE, idKeyword |-> TRUE]
    [] q = "q_funcSyntaxGoEnum"      -> [builtinDir |-> TRUE, enum |-> TRUE,
                                         use_function_syntax_for_execution_context |-> TRUE]
    [] q = "q_stubKeywordType"       -> [stub |-> TRUE, idKeyword |-> TRUE]
    [] q = "q_argNamedPanic"         -> [idKeyword |-> TRUE]
    [] q = "q_autobindIntrospection" -> [idKeyword |-> TRUE, models |-> "bound"]
    [] q = "q_valueStructCycle3"     -> [struct_fields_always_pointers |-> FALSE]
    [] q = "q_leadUnderscoreTypeResolver" -> [idUnderscore |-> TRUE]

ProbeRow(q) == (q :> TRUE) @@ ProbeNeeds(q) @@ DefaultRow
RECURSIVE ProbeRows(_)
ProbeRows(i) == IF i > Len(KnownDefect) THEN << >> ELSE <<ProbeRow(KnownDefect[i])>> \o ProbeRows(i + 1)

RECURSIVE BitDescs(_)
BitDescs(i) == IF i >= NBits THEN << >>
               ELSE << <<"bit", i, 0, i + 2>>, <<"bit", i, 1, i + 2>> >> \o BitDescs(i + 1)
RECURSIVE SeedDescs(_)
SeedDescs(e) == IF e > Extra THEN << >> ELSE << <<"seed", e, 0, NBits + 1 + e>> >> \o SeedDescs(e + 1)
RECURSIVE CubeDescs(_)
CubeDescs(c) == IF c >= Pow2(NCube) THEN << >> ELSE << <<"cube", c, 0, c + 1>> >> \o CubeDescs(c + 1)

Descs == << <<"const", 0, 0, 1>>, <<"const", 1, 0, 1>> >> \o BitDescs(0) \o SeedDescs(1)
         \o (IF Cube THEN CubeDescs(0) ELSE << >>)

RECURSIVE MkRows(_, _)
MkRows(ds, i) == IF i > Len(ds) THEN << >> ELSE <<MkRow(ds[i])>> \o MkRows(ds, i + 1)

\* a row the generator is documented not to support is not part of the input space
\* (none at present: every exclusion must be justified in notes/C17.md)
Supported(r) == TRUE

CoverPart == SelectSeq(MkRows(Descs, 1), Supported)
NCover == Len(CoverPart)              \* rows 1..NCover: the cover; NCover+1..NRows: the probes
CoverSeq == CoverPart \o ProbeRows(1)
Cover == Range(CoverSeq)
NRows == Len(CoverSeq)

(* ------------------------------------------------- what TLC checks about it *)

\* every pair of values of two distinct factors occurs in a row.  (With a non-trivial
\* Supported the pair must be exempt when no supported row can carry it; there is no
\* exclusion at present, so the plain statement is checked.)
Pairwise == \A j \in Varying : \A k \in Varying \ {j} :
              \A u \in Dom(j) : \A v \in Dom(k) :
                \E i \in 1..NCover : CoverSeq[i][j] = u /\ CoverSeq[i][k] = v

\* known-defect constructs: absent from the cover, each present in exactly one probe row
PinnedOK == /\ \A i \in 1..NCover : \A q \in Pinned : CoverSeq[i][q] = FALSE
            /\ \A q \in Pinned : Cardinality({i \in 1..NRows : CoverSeq[i][q]}) = 1

CubeCovered == Cube =>
  \A c \in 0..(Pow2(NCube) - 1) :
    \E i \in 1..NCover : \A n \in 1..NCube : CoverSeq[i][CubeFactors[n]] = Bit(c, n - 1)

DistinctCodes == \A j, k \in 1..NB : j # k => \E i \in 0..(NBits - 1) : Bit(j, i) # Bit(k, i)

ASSUME CoverOK == /\ Extra >= 12 - (NBits + 1)
                  /\ DistinctCodes
                  /\ \A i \in 1..NRows : \A f \in Factors : CoverSeq[i][f] \in Dom(f)
                  /\ DOMAIN DefaultRow = Factors
                  /\ Pairwise
                  /\ PinnedOK
                  /\ CubeCovered
                  /\ PrintT(<<"COVER", NCover, "rows", NB, "boolean factors", NBits, "code bits",
                              NRows - NCover, "probe rows">>)

(* ------------------------------------------------------------ the machine *)

VARIABLES start,   \* number of the cover row the project directory was created for
          step,    \* Generate steps completed in this directory
          row,     \* current input
          out      \* outcome of the last Generate on `row`, or Pending

vars == <<start, step, row, out>>

Pending == [ok |-> FALSE, compiles |-> FALSE, pending |-> TRUE]
Good    == [ok |-> TRUE, compiles |-> TRUE, pending |-> FALSE]

Init == /\ start \in 1..NRows
        /\ step = 0
        /\ row = CoverSeq[start]
        /\ out = Pending

\* THE PROPERTY: Generate is total and its outcome is ok /\ compiles
Generate == /\ out = Pending
            /\ Supported(row)
            /\ out' = Good
            /\ step' = step + 1
            /\ UNCHANGED <<start, row>>

\* The user extends the schema and changes the configuration, then generates again in the
\* same directory.  The schema only GROWS along an evolution: resolver files are user-owned,
\* gqlgen never deletes them, and a schema file whose last resolver field disappears leaves
\* its resolver file behind (removal is the subject of C19, not of this property).
Evolve == /\ out # Pending
          /\ step < MaxEvolve
          /\ start <= NCover
          /\ (start % EvolveEvery = 1 \/ EvolveEvery = 1)
          /\ row["models"] # "bound"
          /\ LET n == ((start + step - 1) % NCover) + 1 IN
             row' = [f \in Factors |->
                       IF f \in Held THEN row[f]
                       ELSE IF f \in Range(SchemaBool) \cup Range(SchemaLate) THEN (row[f] \/ CoverSeq[n][f])
                       ELSE CoverSeq[n][f]]
          /\ out' = Pending
          /\ UNCHANGED <<start, step>>

\* The user runs the generator AGAIN in the same directory with nothing changed (as every `go generate ./...`
\* does).  The tree now holds the previous output - in particular the previous models_gen.go inside a package
\* that autobind loads when the row has autobindModel.  Generate stays total: the outcome of the second, third,
\* ... run is Good like that of the first.  (Rows that evolve already generate MaxEvolve times in one directory;
\* unchanged re-runs of every other configuration are C18's subject.)
Evolves == start <= NCover /\ (start % EvolveEvery = 1 \/ EvolveEvery = 1) /\ row["models"] # "bound"
Again == /\ out # Pending
         /\ ~Evolves
         /\ start <= NCover
         /\ row["autobindModel"]
         /\ step < Repeat
         /\ out' = Pending
         /\ UNCHANGED <<start, step, row>>

Next == Generate \/ Evolve \/ Again
Spec == Init /\ [][Next]_vars

TypeOK == /\ start \in 1..NRows
          /\ step \in 0..(IF MaxEvolve > Repeat THEN MaxEvolve ELSE Repeat)
          /\ \A f \in Factors : row[f] \in Dom(f)
          /\ out \in {Pending, Good}

Total == out = Pending => ENABLED Generate
Outcome == out # Pending => out.ok /\ out.compiles

\* export of every Generate step with the prescribed outcome (-workers 1)
EmitGen ==
  (out = Pending /\ out' # Pending) =>
     PrintT(ToJson([start |-> start, step |-> step', row |-> row,
                    ok |-> out'.ok, compiles |-> out'.compiles]))
=============================================================================
