\* C14, GraphQL fields that share one ComplexityRoot entry (theorems + emission, -workers 1):
\* operations through every field of Sh (groups Products/Foo/NewFoo/NewBar, declared first/second/last; alone, two of a
\* group side by side, below one named fragment spread twice, two groups side by side) x {no custom cost, one entry,
\* two entries, uniform} from {const 0/2, child+2, child*3, child+arg, arg*(1+child)}, plus the "no operation" case
\* that carries the Complexity(type, field) table of EVERY GraphQL field of every object type under
\* {each entry alone x (const 2, child+2, child+arg), all entries const 7, none}.
CONSTANTS
  MaxH = 2
  MaxD = 1
  MaxSize = 3
  MaxCustom = 2
  Corpus = "bind"
  Emit = TRUE
SPECIFICATION Spec
ACTION_CONSTRAINT EmitEdge
INVARIANTS TRange TDSmall TChildren TMonotone TPerm TFragment TDouble TGate TGateMono TBinding TBindState TAlias
CHECK_DEADLOCK FALSE
