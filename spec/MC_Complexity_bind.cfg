\* C14, GraphQL fields that share one ComplexityRoot entry (theorems + emission, -workers 1):
\* operations through every field of Sh (groups Products/Foo/NewFoo/NewBar, declared first/second/last; alone, two of a
\* group side by side, below one named fragment spread twice, two groups side by side) x {no custom cost, one entry,
\* two entries, uniform} from {const 0/2, child+2, child*3, child+arg, arg*(1+child)}, plus the "no operation" case
\* that carries the Complexity(type, field) table of EVERY GraphQL field of every object type under
\* {each entry alone x (const 2, child+2, child+arg), all entries const 7, none}.
\* Measured (round 4, schema with Box/Shelf/Archive: 32 entries, 38 object fields): 39 initial states, 2,802 inputs (2,730 operation cases + 72 table assignments with 96 rows each), 5,643 distinct states.
\* Before round 4: 39 initial states (38 operations + the table case), 2,786 inputs (2,730 operation cases + 56 table
\* assignments with 78 rows each), 5,611 distinct states, depth 3; 1 worker ~12-27 s.
\* -coverage 1: Init 39, ChooseCosts 2786, Compute 2786 (no action with count 0).
\* Teeth (by hand): CustomOf answering only for the field declared first of a group -> TBinding and TAlias violated.
CONSTANTS
  MaxH = 2
  MaxD = 1
  MaxSize = 3
  MaxCustom = 2
  Corpus = "bind"
  Emit = TRUE
SPECIFICATION Spec
ACTION_CONSTRAINT EmitEdge
INVARIANTS TRange TDSmall TChildren TMonotone TPerm TFragment TDouble TGate TGateMono TBinding TBindState TAlias
CHECK_DEADLOCK FALSE
