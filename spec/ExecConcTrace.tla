---------------------------- MODULE ExecConcTrace ----------------------------
(* Trace validation of real executions (generated probe servers, gated      *)
(* resolvers, cancellation at chosen instants) against ExecConc.  Logged:   *)
(* resolver start/return per list element, group resolver start/return,    *)
(* Cancel, and the final observation.  gqlgen's internal steps are silent   *)
(* and inferred by TLC.                                                     *)
EXTENDS ExecConc

Trace == ndJsonDeserialize("trace.ndjson")

VARIABLE l
tvars == <<vars, l>>

\* One TLC run validates all traces recorded for one constant configuration
\* (N, WL, G, Transport); a "Reset" line separates scenarios.
IsEvent(e) == l <= Len(Trace) /\ Trace[l].e = e /\ l' = l + 1

TraceInit ==
  /\ Init /\ l = 1
  /\ TLCSet(1, 1)

TReset ==
  /\ IsEvent("Reset")
  /\ pc' = "loop" /\ next' = 1
  /\ elem' = [i \in Elems |-> "todo"]
  /\ sem' = WL /\ wg' = N
  /\ grp' = [g \in Groups |-> "none"]
  /\ pending' = 0 /\ cancelled' = FALSE
  /\ trans' = "calling" /\ payloads' = 0
  /\ A("Reset", 0)

Silent ==
  /\ \/ Spawn \/ AcquireFails \/ LoopEnd \/ WaitReturns \/ RespFirst \/ TransportCalls
     \/ RespRecvCancelled \/ TransportLeaves
     \/ \E g \in Groups : RespRecv(g) \/ GroupAbort(g)
  /\ UNCHANGED l

TStart  == IsEvent("Start")  /\ ResolverStarts(Trace[l].i)
TRet    == IsEvent("Ret")    /\ ResolverReturns(Trace[l].i)
TGStart == IsEvent("GStart") /\ StartGroup(Trace[l].g)
TGDone  == IsEvent("GDone")  /\ GroupDone(Trace[l].g)
TCancel == IsEvent("Cancel") /\ (IF cancelled THEN UNCHANGED vars ELSE Cancel)
\* final observation: the request ended, nothing of it is alive, payload count matches
TFinal  == /\ IsEvent("Final")
           /\ trans = "left" /\ ~Live
           /\ payloads = Trace[l].payloads
           /\ UNCHANGED vars

TraceNext == TReset \/ Silent \/ TStart \/ TRet \/ TGStart \/ TGDone \/ TCancel \/ TFinal
TraceSpec == TraceInit /\ [][TraceNext]_tvars

HighWater == TLCSet(1, IF l > TLCGet(1) THEN l ELSE TLCGet(1))
TraceAccepted ==
  IF TLCGet(1) = Len(Trace) + 1 THEN TRUE
  ELSE /\ PrintT(<<"TRACE-REJECTED-AT", TLCGet(1)>>)
       /\ FALSE
=============================================================================
