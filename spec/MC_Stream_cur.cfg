\* C12, the PINNED tree's sse.go (neither repair): TLC must FIND a
\* counterexample to the invariant named on the INVARIANT line (the driver substitutes
\* NoRace / NoSplice / CompleteLast / NoUseAfterFinish in turn and replays the schedules
\* against the real code).  A run of this configuration WITHOUT error is a specification
\* regression.  measured: counterexamples of 10 (NoRace, NoSplice), 11 (CompleteLast), 20 (NoUseAfterFinish) states, < 2 s each.
INIT Init
NEXT Next
CONSTANTS
  Kinds = {"sse"}
  MinN = 1
  MaxN = 2
  KASet = {TRUE}
  MaxTicks = 2
  Disc = FALSE
  LockWrites = FALSE
  StopKA = FALSE
  CloseAtomic = TRUE
  KeepSink = TRUE
  FailSet = {0}
  MaxReq = 1
  SharedBuf = FALSE
  Deadl = FALSE
  KACloseOnDone = FALSE
  MmEncodeInAdd = FALSE
INVARIANT NoSplice
CHECK_DEADLOCK FALSE
