\* C12, multipart/mixed with a payload that cannot be encoded at any position.
\* As registered (MmEncodeInAdd = TRUE, the code since a4760cc: encoded in Add on the handler goroutine, Done waits
\* for the ticker goroutine) every invariant holds: the request fails (bytes flushed before, an ordinary boundary,
\* the recovered panic's error object), the process does not, the ticker goroutine is gone when the handler returns.
\* REGRESSION OF THE SPEC: the driver also runs it with MmEncodeInAdd = FALSE (the design before a4760cc: encoded
\* only inside aggregator.flush) - TLC must then REFUTE NoCrash (MMRecvAdd, MMTick, MMFlushTick: the ticker
\* goroutine's flush panics, nothing recovers it) and MmTickerStoppedAtReturn, while
\* TypeOK MmFramed MmOrder MmNoEmpty MmComplete MmFailed NoGarbage still hold.
\* measured: registered 2,217 distinct / 3,319 generated states, depth 16; before a4760cc: NoCrash refuted in 4 states
\* (Init, MMRecvAdd, MMTick, MMFlushTick), MmTickerStoppedAtReturn in 5 (MMRecvAdd, MMRecvNil, MMDoneSig, MMDoneFlush), the rest holds on 4,226 states.
INIT Init
NEXT Next
CONSTANTS
  Kinds = {"mm"}
  MinN = 0
  MaxN = 2
  KASet = {FALSE}
  MaxTicks = 2
  Disc = TRUE
  LockWrites = TRUE
  StopKA = TRUE
  CloseAtomic = TRUE
  KeepSink = TRUE
  FailSet = {0, 1, 2, 3}
  MaxReq = 1
  SharedBuf = FALSE
  Deadl = TRUE
  KACloseOnDone = FALSE
  MmEncodeInAdd = TRUE
INVARIANTS TypeOK MmFramed MmOrder MmNoEmpty MmComplete MmFailed NoGarbage NoCrash MmTickerStoppedAtReturn
CHECK_DEADLOCK FALSE
