\* C12, multipart/mixed AS THE CODE IS (a payload is encoded only inside aggregator.flush) with a payload
\* that cannot be encoded: TLC must REFUTE NoCrash (the ticker goroutine's flush panics and nothing recovers
\* it: known_findings.d/C12.json, mm:server-crash-unencodable-payload-in-ticker-flush); the driver also runs
\* it with the remaining invariants (TypeOK MmFramed MmOrder MmNoEmpty MmComplete MmFailed NoGarbage), which
\* must hold: in a request that survives, the stream is what MmFailed says.
\* measured: counterexample of 4 states (Init, MMRecvAdd, MMTick, MMFlushTick), < 2 s; the other run 4,226 distinct / 7,575 generated states, depth 17.
INIT Init
NEXT Next
CONSTANTS
  Kinds = {"mm"}
  MinN = 0
  MaxN = 2
  KASet = {FALSE}
  MaxTicks = 2
  Disc = TRUE
  LockWrites = TRUE
  StopKA = TRUE
  CloseAtomic = TRUE
  KeepSink = TRUE
  FailSet = {0, 1, 2, 3}
  MaxReq = 1
  SharedBuf = FALSE
  MmEncodeInAdd = FALSE
INVARIANT NoCrash
CHECK_DEADLOCK FALSE
