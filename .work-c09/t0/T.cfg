INIT Init
NEXT Next
ACTION_CONSTRAINT Emit
CHECK_DEADLOCK FALSE
