---- MODULE T ----
EXTENDS Naturals, Sequences, TLC, Json
VARIABLE x
ASSUME PrintT(ToJson([servers |-> {[id |-> "a", ts |-> <<[k |-> "GET"]>>], [id |-> "b", ts |-> <<>>]}]))
Init == x \in {1,2}
Next == x < 3 /\ x' = x + 2
Emit == PrintT(ToJson([a |-> x, s |-> {1,2}, q |-> <<"x","y">>, e |-> <<>>, es |-> {}, b |-> TRUE, str |-> "a\"b"]))
====
