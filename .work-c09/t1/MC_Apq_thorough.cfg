\* Exhaustive check of Apq, thorough tier.
\* Texts {q1,q2,q3,bad}, WrongHashes {x:rand}, map + LRU capacity 1..3.
SPECIFICATION Spec
CONSTANTS
  Texts <- TTexts
  Valid <- TValid
  HashOf <- THash
  WrongHashes <- Wrong1
  Kinds <- BothKinds
  Caps <- Caps123
  MalKinds <- MalOne
  MalWithHash <- MalOneH
  BadVers <- VerOne
INVARIANTS TypeOK Bound WasSent LruOK
PROPERTY StepOK
CHECK_DEADLOCK FALSE
