\* Labelled state graph of Apq for the replay (run with -workers 1).
\* Texts {q1,q2,bad}, WrongHashes {x:rand,x:empty}, map + LRU capacity 1..2,
\* every malformed kind and bad version the harness can send.
\* VIEW drops the history variable and the edge label.
SPECIFICATION Spec
CONSTANTS
  Texts <- QTexts
  Valid <- QValid
  HashOf <- QHash
  WrongHashes <- Wrong2
  Kinds <- BothKinds
  Caps <- Caps12
  MalKinds <- MalAll
  MalWithHash <- MalAllH
  BadVers <- VerAll
VIEW EdgeView
INVARIANTS TypeOK Bound LruOK
ACTION_CONSTRAINT EmitEdge
CHECK_DEADLOCK FALSE
