\* Labelled state graph of Apq for the replay, thorough tier (-workers 1).
\* Texts {q1,q2,q3,bad}, WrongHashes {x:rand,x:empty}, map + LRU capacity 1..3.
SPECIFICATION Spec
CONSTANTS
  Texts <- TTexts
  Valid <- TValid
  HashOf <- THash
  WrongHashes <- Wrong2
  Kinds <- BothKinds
  Caps <- Caps123
  MalKinds <- MalAll
  MalWithHash <- MalAllH
  BadVers <- VerAll
VIEW EdgeView
INVARIANTS TypeOK Bound LruOK
ACTION_CONSTRAINT EmitEdge
CHECK_DEADLOCK FALSE
