\* C14, thorough tier.  Symbolic machine integers: MAX = 2*H+1 = [2,1].
\* All operations with <= 4 selection nodes x {no custom cost, one slot, two slots, all slots uniform}.
\* Measured: see notes/C14.md
CONSTANTS
  MaxH = 2
  MaxD = 1
  MaxSize = 4
  MaxCustom = 2
  Corpus = "gen"
  Emit = TRUE
SPECIFICATION Spec
ACTION_CONSTRAINT EmitEdge
INVARIANTS TRange TDSmall TChildren TMonotone TPerm TFragment TGate TGateMono
CHECK_DEADLOCK FALSE
