\* Exhaustive check of Apq, quick tier.
\* Texts {q1,q2,bad}, WrongHashes {x:rand}, map + LRU capacity 1..2,
\* one malformed kind with / one without hash, one bad version.
\* Histories unbounded: the state space (cache x recency x sent) is finite.
\* Measured: see notes/C15.md
SPECIFICATION Spec
CONSTANTS
  Texts <- QTexts
  Valid <- QValid
  HashOf <- QHash
  WrongHashes <- Wrong1
  Kinds <- BothKinds
  Caps <- Caps12
  MalKinds <- MalOne
  MalWithHash <- MalOneH
  BadVers <- VerOne
INVARIANTS TypeOK Bound WasSent LruOK
PROPERTY StepOK
CHECK_DEADLOCK FALSE
