\* JsonWriter with the behaviour of the pinned tree as named deviations:
\* CopyInvalidVerbatim (string.go copies offending bytes verbatim) and UintIDWraps
\* (id.go converts negative ints with uint(v)).  TLC must REFUTE ThmAccepted /
\* ThmValidUtf8 (first counterexample: the input <<"ovl2">>, output "C0 80" raw) and
\* ThmNoSilentWrap (UintID, int, minI64 -> ok); the driver runs this cfg with
\* -continue and treats "not refuted" as a vacuous specification (exit 2).
SPECIFICATION Spec
CONSTANTS
  MaxLen = 2
  FirstUnits <- MC_AllFirst
  CopyInvalidVerbatim = TRUE
  UintIDWraps = TRUE
  EmitLines = FALSE
INVARIANTS TypeOK ThmAccepted ThmValidUtf8 ThmDecodes ThmRuneAtIsRef ThmNoSilentWrap ThmRoundTripCloses ThmNonFinite
ACTION_CONSTRAINT Emit
CHECK_DEADLOCK FALSE
