\* C16 view machine over harness-supplied schemas (c16_feed.ndjson in the working directory).
\* Measured: 401 schemas -> 802 states in ~6 s; 20001 schemas -> 40002 states in ~60 s.
CONSTANTS
    Schemas <- FeedSchemas
    Ops <- FeedOps
INIT VInit
NEXT VNext
INVARIANTS WellFormed RebuildAll RebuildCur ViewClosed ViewRelInv ViewNullKind
ACTION_CONSTRAINT EmitView
CHECK_DEADLOCK FALSE
