\* JsonWriter, quick tier.  MaxLen = 3: every unit sequence of length <= 3 over
\* the 35 units (23 byte classes + 7 well-formed and 5 ill-formed multi-byte
\* sequences; byte length up to 12) = 44,136 string inputs, plus all 1,440 scalar
\* cases.  Repaired behaviour (both deviations off).
\* Measured: 91,152 states generated / distinct (2 per input), depth 2, about 12 s with 2
\* workers (27 s with 1).  -coverage 1: WriteQuotedString and EncodeScalar both taken.
SPECIFICATION Spec
CONSTANTS
  MaxLen = 3
  FirstUnits <- MC_AllFirst
  CopyInvalidVerbatim = FALSE
  UintIDWraps = FALSE
  EmitLines = TRUE
INVARIANTS TypeOK ThmAccepted ThmValidUtf8 ThmDecodes ThmRuneAtIsRef ThmNoSilentWrap ThmRoundTripCloses ThmNonFinite
ACTION_CONSTRAINT Emit
CHECK_DEADLOCK FALSE
