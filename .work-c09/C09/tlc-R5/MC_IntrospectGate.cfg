\* C16 gate machine, quick tier. Constants: Big = FALSE: every hiding operation with one root
\* selection, and with two where the second is a plain one; extension installed or not.
\* Measured: 2228 operations, 17068 states generated, 15092 distinct, depth 6, ~6 s; -coverage 1:
\* every disjunct of GNext (CreateOpCtx, MutateOpCtx, NoMutator, Resolve, Finish) is taken.
CONSTANTS
    Big = FALSE
    Schemas <- MCSchemas
    Ops <- MCOps
INIT GInit
NEXT GNext
INVARIANTS GateWellFormed OnlyExtEnables GateHolds NoLeak
ACTION_CONSTRAINT EmitGate
CHECK_DEADLOCK FALSE
