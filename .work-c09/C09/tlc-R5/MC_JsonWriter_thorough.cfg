\* JsonWriter, thorough tier.  MaxLen = 4: 1,544,761 string inputs (byte length up
\* to 16) + 1,440 scalar cases.  Measured: 3,092,402 states, 8 min with 4 workers.
\* The driver (harness/cmd/c08) does not use this file directly: it runs the same
\* model as four shards on the first unit (MC_JsonWriterShard generated at run
\* time, 1 worker each, in parallel, about 6 min); this cfg is the unsharded equivalent.
SPECIFICATION Spec
CONSTANTS
  MaxLen = 4
  FirstUnits <- MC_AllFirst
  CopyInvalidVerbatim = FALSE
  UintIDWraps = FALSE
  EmitLines = TRUE
INVARIANTS TypeOK ThmAccepted ThmValidUtf8 ThmDecodes ThmRuneAtIsRef ThmNoSilentWrap ThmRoundTripCloses ThmNonFinite
ACTION_CONSTRAINT Emit
CHECK_DEADLOCK FALSE
