---- MODULE MC_HttpRun ----
EXTENDS MC_Http
R1 == [id |-> "R1", qc |-> TRUE, ts |-> <<T("MIXED", "none"), T("FORM", "json+other"), T("SSE", "none"), T("GRAPHQL", "none"), T("MULTIPART", "lcjson"), T("WS", "none"), T("OPTIONS", "none"), T("POST", "other")>>]
ASSUME PrintT(ToJson([servers |-> {R1}]))
OnlyS1 == {S1}
OnlyS2 == {S2}
OnlyS3 == {S3}
OnlyS5 == {S5}
OnlyS7 == {S7}
OnlyR1 == {R1}
====
