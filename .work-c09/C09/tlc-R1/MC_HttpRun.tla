---- MODULE MC_HttpRun ----
EXTENDS MC_Http
R1 == [id |-> "R1", qc |-> TRUE, ts |-> <<T("MIXED", "none"), T("SSE", "none"), T("WS", "none"), T("FORM", "json+other"), T("POST", "gqlresp"), T("GET", "other"), T("MULTIPART", "json"), T("OPTIONS", "none")>>]
R2 == [id |-> "R2", qc |-> TRUE, ts |-> <<T("POST", "gqlresp"), T("GET", "json"), T("WS", "none"), T("MULTIPART", "json+other"), T("GRAPHQL", "json+other"), T("OPTIONS", "none"), T("SSE", "none")>>]
R3 == [id |-> "R3", qc |-> TRUE, ts |-> <<T("POST", "gqlresp"), T("GET", "gqlresp"), T("GRAPHQL", "lcjson"), T("FORM", "none"), T("WS", "none"), T("OPTIONS", "none"), T("MIXED", "none")>>]
R4 == [id |-> "R4", qc |-> FALSE, ts |-> <<T("MULTIPART", "gqlresp"), T("GET", "gqlresp"), T("MIXED", "none"), T("SSE", "none"), T("FORM", "other"), T("POST", "json+other")>>]
R5 == [id |-> "R5", qc |-> TRUE, ts |-> <<T("MULTIPART", "gqlresp"), T("GRAPHQL", "json"), T("OPTIONS", "none"), T("GET", "other"), T("FORM", "gqlresp"), T("SSE", "none"), T("WS", "none"), T("POST", "lcjson")>>]
R6 == [id |-> "R6", qc |-> TRUE, ts |-> <<T("FORM", "lcjson"), T("OPTIONS", "none"), T("GET", "json"), T("MULTIPART", "gqlresp"), T("POST", "lcjson"), T("GRAPHQL", "json+other"), T("WS", "none")>>]
ASSUME PrintT(ToJson([servers |-> {R1, R2, R3, R4, R5, R6}]))
OnlyS1 == {S1}
OnlyS2 == {S2}
OnlyS3 == {S3}
OnlyS4 == {S4}
OnlyS5 == {S5}
OnlyS6 == {S6}
OnlyR1 == {R1}
OnlyR2 == {R2}
OnlyR3 == {R3}
OnlyR4 == {R4}
OnlyR5 == {R5}
OnlyR6 == {R6}
====
