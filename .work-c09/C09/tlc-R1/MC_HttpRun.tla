---- MODULE MC_HttpRun ----
EXTENDS MC_Http
R1 == [id |-> "R1", qc |-> FALSE, ts |-> <<T("MIXED", "none"), T("MULTIPART", "none"), T("POST", "other"), T("FORM", "lcjson"), T("SSE", "none"), T("WS", "none"), T("GRAPHQL", "gqlresp")>>]
ASSUME PrintT(ToJson([servers |-> {R1}]))
OnlyS1 == {S1}
OnlyS2 == {S2}
OnlyS3 == {S3}
OnlyS5 == {S5}
OnlyS7 == {S7}
OnlyR1 == {R1}
====
