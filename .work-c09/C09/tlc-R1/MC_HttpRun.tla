---- MODULE MC_HttpRun ----
EXTENDS MC_Http
R1 == [id |-> "R1", qc |-> TRUE, ts |-> <<T("MIXED", "none"), T("FORM", "json+other"), T("SSE", "none"), T("GRAPHQL", "none"), T("MULTIPART", "lcjson"), T("WS", "none"), T("OPTIONS", "none"), T("POST", "other")>>]
R2 == [id |-> "R2", qc |-> TRUE, ts |-> <<T("FORM", "gqlresp"), T("MULTIPART", "json+other"), T("OPTIONS", "none"), T("POST", "lcjson"), T("GET", "other"), T("MIXED", "none"), T("WS", "none"), T("SSE", "none")>>]
R3 == [id |-> "R3", qc |-> FALSE, ts |-> <<T("POST", "none"), T("GET", "none"), T("FORM", "json+other"), T("MIXED", "none"), T("WS", "none"), T("SSE", "none"), T("OPTIONS", "none"), T("GRAPHQL", "json+other"), T("MULTIPART", "json")>>]
R4 == [id |-> "R4", qc |-> FALSE, ts |-> <<T("OPTIONS", "none"), T("MIXED", "none"), T("GET", "none"), T("SSE", "none"), T("FORM", "json"), T("GRAPHQL", "gqlresp"), T("WS", "none")>>]
R5 == [id |-> "R5", qc |-> TRUE, ts |-> <<T("POST", "json+other"), T("MIXED", "none"), T("FORM", "other"), T("GET", "none"), T("MULTIPART", "none"), T("SSE", "none"), T("GRAPHQL", "other"), T("WS", "none")>>]
R6 == [id |-> "R6", qc |-> TRUE, ts |-> <<T("MULTIPART", "gqlresp"), T("OPTIONS", "none"), T("SSE", "none"), T("WS", "none"), T("GET", "lcjson"), T("FORM", "json"), T("POST", "json"), T("GRAPHQL", "none")>>]
ASSUME PrintT(ToJson([servers |-> {R1, R2, R3, R4, R5, R6}]))
OnlyS1 == {S1}
OnlyS2 == {S2}
OnlyS3 == {S3}
OnlyS4 == {S4}
OnlyS5 == {S5}
OnlyS6 == {S6}
OnlyS7 == {S7}
OnlyR1 == {R1}
OnlyR2 == {R2}
OnlyR3 == {R3}
OnlyR4 == {R4}
OnlyR5 == {R5}
OnlyR6 == {R6}
====
