---- MODULE MC_HttpRun ----
EXTENDS MC_Http
R1 == [id |-> "R1", qc |-> TRUE, ts |-> <<T("MIXED", "none"), T("SSE", "none"), T("WS", "none"), T("FORM", "json+other"), T("POST", "gqlresp"), T("GET", "other"), T("MULTIPART", "json"), T("OPTIONS", "none")>>]
ASSUME PrintT(ToJson([servers |-> {R1}]))
OnlyS1 == {S1}
OnlyS2 == {S2}
OnlyS3 == {S3}
OnlyR1 == {R1}
====
