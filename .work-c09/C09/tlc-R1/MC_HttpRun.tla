---- MODULE MC_HttpRun ----
EXTENDS MC_Http
R1 == [id |-> "R1", qc |-> FALSE, ts |-> <<T("MIXED", "none"), T("MULTIPART", "none"), T("POST", "other"), T("FORM", "lcjson"), T("SSE", "none"), T("WS", "none"), T("GRAPHQL", "gqlresp")>>]
R2 == [id |-> "R2", qc |-> TRUE, ts |-> <<T("MIXED", "none"), T("POST", "gqlresp"), T("GET", "json"), T("GRAPHQL", "json"), T("FORM", "lcjson"), T("SSE", "none"), T("OPTIONS", "none")>>]
R3 == [id |-> "R3", qc |-> TRUE, ts |-> <<T("MIXED", "none"), T("FORM", "json"), T("MULTIPART", "none"), T("GET", "other"), T("POST", "json+other"), T("WS", "none"), T("SSE", "none")>>]
R4 == [id |-> "R4", qc |-> TRUE, ts |-> <<T("OPTIONS", "none"), T("FORM", "json"), T("POST", "json+other"), T("GRAPHQL", "json+other"), T("GET", "json+other"), T("MULTIPART", "gqlresp"), T("WS", "none"), T("MIXED", "none")>>]
R5 == [id |-> "R5", qc |-> FALSE, ts |-> <<T("FORM", "json+other"), T("OPTIONS", "none"), T("SSE", "none"), T("MIXED", "none"), T("GRAPHQL", "gqlresp")>>]
R6 == [id |-> "R6", qc |-> TRUE, ts |-> <<T("OPTIONS", "none"), T("MULTIPART", "other"), T("WS", "none"), T("FORM", "none"), T("GRAPHQL", "json")>>]
ASSUME PrintT(ToJson([servers |-> {R1, R2, R3, R4, R5, R6}]))
OnlyS1 == {S1}
OnlyS2 == {S2}
OnlyS3 == {S3}
OnlyS4 == {S4}
OnlyS5 == {S5}
OnlyS6 == {S6}
OnlyS7 == {S7}
OnlyR1 == {R1}
OnlyR2 == {R2}
OnlyR3 == {R3}
OnlyR4 == {R4}
OnlyR5 == {R5}
OnlyR6 == {R6}
====
