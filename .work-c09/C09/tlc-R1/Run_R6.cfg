\* C09 quick tier - exhaustive instance of Http (module MC_Http).
\*   Servers  S1 S2 S3 (defined in MC_Http.tla; the driver runs one TLC per server and adds
\*            VERIF_SEED-drawn random servers through a generated module MC_HttpRun)
\*   Methods  GET POST HEAD OPTIONS PUT          ReqCTs  absent json graphql form multipart other bad
\*   Accepts  10 lists (AcceptsQuick)            Upgrade header present / absent
\*   Docs     10 documents (DocsQuick) x operationName in {absent, each name, unknown}
\*            x validity {ok, invalid, varerr} + {parse, noop} x {absent, unknown} + {undecEnv, undecVars}
\*   src      inline | apq (persisted-query hash; GET and POST application/json only)
\*   Requests with an Upgrade header or a method other than GET/POST carry the probe documents only.
\* Measured: 78,420 requests (26,140 per server), 469,910 distinct states, depth 9, 18 s with -workers 1
\* (the Export action constraint prints one line per request and needs -workers 1); every action taken.
CONSTANTS
  Servers <- OnlyR6
  Methods <- MethodsAll
  ReqCTs <- ReqCTsAll
  Accepts <- AcceptsQuick
  Docs <- DocsQuick
  Slip = "none"
INIT Init
NEXT Next
CHECK_DEADLOCK FALSE
INVARIANTS
  TypeOK
  GetNeverMutates
  RefusedRunsNothing
  ExecutesNamedOperation
  GetNonQueryRefused
  Non2xxRanNothing
  ExecutedIs200
  ProtocolErrorStatus
  ContentTypeNegotiated
  NegotiationSound
  ImplConforms
  DeviationIsReal
ACTION_CONSTRAINT Export
