\* C09 quick tier: 3 servers x (5 methods x 7 content types x 10 Accept headers x Upgrade?)
\* x document parts (10 documents x operationName choices x validity classes) x {inline, apq}
CONSTANTS
  Servers <- OnlyS1
  Methods <- MethodsAll
  ReqCTs <- ReqCTsAll
  Accepts <- AcceptsQuick
  Docs <- DocsQuick
INIT Init
NEXT Next
CHECK_DEADLOCK FALSE
INVARIANTS
  TypeOK
  GetNeverMutates
  RefusedRunsNothing
  ExecutesNamedOperation
  GetNonQueryRefused
  Non2xxRanNothing
  ExecutedIs200
  ProtocolErrorStatus
  ContentTypeNegotiated
  NegotiationSound
  ImplConforms
  DeviationIsReal
ACTION_CONSTRAINT Export
