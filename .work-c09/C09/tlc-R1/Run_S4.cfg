\* C09 thorough tier - exhaustive instance of Http (module MC_Http).
\*   Servers  S1 .. S6            Accepts  20 lists (AcceptsFull)
\*   Docs     21 documents (DocsFull: every anonymous / named single operation, every pair of kinds,
\*            every order of query+mutation+subscription); everything else as in MC_Http.cfg
\* Measured: 701,520 requests (116,920 per server), 3,625,840 distinct states, depth 9,
\* 50 s with -workers 4 (without reading the export), ~25 s per server with -workers 1.
CONSTANTS
  Servers <- OnlyS4
  Methods <- MethodsAll
  ReqCTs <- ReqCTsAll
  Accepts <- AcceptsFull
  Docs <- DocsFull
  Slip = "none"
INIT Init
NEXT Next
CHECK_DEADLOCK FALSE
INVARIANTS
  TypeOK
  GetNeverMutates
  RefusedRunsNothing
  ExecutesNamedOperation
  GetNonQueryRefused
  Non2xxRanNothing
  ExecutedIs200
  ProtocolErrorStatus
  ContentTypeNegotiated
  NegotiationSound
  ImplConforms
  DeviationIsReal
ACTION_CONSTRAINT Export
