---------------------------- MODULE PipelineTrace ----------------------------
(* Trace validation of recorded sessions of the real executor / handler    *)
(* against Pipeline.  trace.ndjson holds many sessions; each is opened by  *)
(* a "Scenario" line (server configuration: a fresh executor), "Req" lines *)
(* describe a request when its goroutine starts it, "H" lines are the      *)
(* events logged by the instrumented extensions, the logging query cache,   *)
(* the hand-written ExecutableSchema and the driver (responses).  All       *)
(* events of a session pass through one mutex-protected tracer and an event *)
(* is the tracer call itself, so the file order is a linearization of the   *)
(* logged points; what is NOT logged (parse, rule swap, Validate) is left   *)
(* to TLC, which interleaves those steps of every request freely between    *)
(* the logged ones.                                                         *)
(*  RuleModel = "config": the repaired design - the outcome of validation   *)
(*     depends on the document only.  A session this rejects and            *)
(*  RuleModel = "words" accepts needed the rule-swap race to be explained.  *)
EXTENDS Pipeline, Json

Trace == ndJsonDeserialize("trace.ndjson")

VARIABLE l
tvars == <<vars, l>>

IsEvent(e) == l <= Len(Trace) /\ Trace[l].e = e /\ l' = l + 1
Quiet      == \A r \in Reqs : pc[r] \in {"idle", "done"}

TraceInit ==
  /\ l = 1 /\ TLCSet(1, 1)
  /\ cfg   = [exts |-> <<>>, ck |-> "none", cn |-> 0, sugg |-> FALSE]
  /\ arrs  = [NoArrs EXCEPT ![InitArr] = <<"FOCT">>]
  /\ hdr   = [a |-> InitArr, n |-> 1]
  /\ cache = <<>>
  /\ rq    = [r \in Reqs |-> NoReq]
  /\ pc    = [r \in Reqs |-> "idle"]
  /\ todo  = [r \in Reqs |-> <<>>]
  /\ log   = [r \in Reqs |-> <<>>]
  /\ tmp   = [r \in Reqs |-> [s |-> <<>>, h |-> [a |-> InitArr, n |-> 0]]]
  /\ glog  = <<>>

TScenario ==
  /\ IsEvent("Scenario") /\ Quiet
  /\ LET t == Trace[l]
     IN  Load([exts |-> t.exts, ck |-> t.ck, cn |-> t.cn, sugg |-> t.sugg], t.rules0)

TReq ==
  /\ IsEvent("Req")
  /\ LET t == Trace[l]
     IN  /\ t.r \in Reqs
         /\ Start(t.r, [q |-> t.q, cls |-> t.cls, opsel |-> t.opsel, vcls |-> t.vars, rej |-> t.rej,
                        rounds |-> t.rounds, roots |-> t.roots])

THook ==
  /\ IsEvent("H")
  /\ LET t == Trace[l]
     IN  /\ t.k \notin {"cget", "cadd"}
         /\ t.r \in Reqs
         /\ pc[t.r] \in LocalPC
         /\ todo[t.r] # <<>>
         /\ todo[t.r][1] = Ev(t.k, t.d, t.i, t.f)
         /\ Emit(t.r)

TCGet ==
  /\ IsEvent("H")
  /\ LET t == Trace[l]
     IN  /\ t.k = "cget"
         /\ t.r \in Reqs
         /\ pc[t.r] = "cget"
         /\ rq[t.r].q = t.f
         /\ (t.d = "hit") = CacheHit(t.f)
         /\ CacheGet(t.r)

TCAdd ==
  /\ IsEvent("H")
  /\ LET t == Trace[l]
     IN  /\ t.k = "cadd"
         /\ t.r \in Reqs
         /\ pc[t.r] = "cadd"
         /\ rq[t.r].q = t.f
         /\ CacheAdd(t.r)

\* a request whose validation panicked (nil RuleFunc; only possible with the
\* per-request swap): the recover hook is observed, then the transport-level
\* answer (Server.ServeHTTP answers 422 with an error; in direct mode the
\* driver notes "panic")
TRecover ==
  /\ IsEvent("H")
  /\ LET t == Trace[l] IN t.k = "recover" /\ t.r \in Reqs /\ pc[t.r] = "panicked"
  /\ UNCHANGED vars
TPanicResp ==
  /\ IsEvent("H")
  /\ LET t == Trace[l]
     IN  /\ t.k = "resp" /\ t.d \in {"panic", "errors"} /\ t.r \in Reqs /\ pc[t.r] = "panicked"
         /\ pc' = [pc EXCEPT ![t.r] = "done"]
  /\ UNCHANGED <<cfg, hdr, arrs, cache, rq, todo, log, tmp, glog>>

\* steps of the code that are not logged
TSilent == l' = l /\ \E r \in Reqs : Validate(r) \/ RuleStep(r)

TEnd == IsEvent("End") /\ Quiet /\ UNCHANGED vars

TraceNext == TScenario \/ TReq \/ THook \/ TCGet \/ TCAdd \/ TRecover \/ TPanicResp \/ TSilent \/ TEnd

TraceSpec == TraceInit /\ [][TraceNext]_tvars

\* high-water mark of consumed lines (silent steps exist; needs -workers 1)
HighWater == TLCSet(1, IF l > TLCGet(1) THEN l ELSE TLCGet(1))

TraceAccepted ==
  IF TLCGet(1) = Len(Trace) + 1 THEN TRUE
  ELSE /\ PrintT(<<"TRACE-REJECTED-AT", TLCGet(1)>>)
       /\ FALSE
=============================================================================
