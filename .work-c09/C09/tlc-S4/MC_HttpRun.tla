---- MODULE MC_HttpRun ----
EXTENDS MC_Http
R1 == [id |-> "R1", qc |-> FALSE, ts |-> <<T("OPTIONS", "none"), T("GRAPHQL", "lcjson"), T("FORM", "none"), T("MULTIPART", "other"), T("WS", "none"), T("POST", "json")>>]
R2 == [id |-> "R2", qc |-> TRUE, ts |-> <<T("MIXED", "none"), T("SSE", "none"), T("FORM", "json"), T("POST", "none"), T("GRAPHQL", "lcjson"), T("OPTIONS", "none"), T("MULTIPART", "gqlresp"), T("WS", "none")>>]
R3 == [id |-> "R3", qc |-> TRUE, ts |-> <<T("GET", "lcjson"), T("MIXED", "none"), T("SSE", "none"), T("POST", "none"), T("FORM", "lcjson"), T("GRAPHQL", "none"), T("WS", "none"), T("OPTIONS", "none"), T("MULTIPART", "gqlresp")>>]
R4 == [id |-> "R4", qc |-> TRUE, ts |-> <<T("WS", "none"), T("MULTIPART", "none"), T("SSE", "none"), T("FORM", "json+other"), T("MIXED", "none"), T("POST", "none"), T("GET", "other")>>]
R5 == [id |-> "R5", qc |-> FALSE, ts |-> <<T("GET", "other"), T("SSE", "none"), T("OPTIONS", "none"), T("FORM", "other"), T("POST", "gqlresp"), T("GRAPHQL", "none"), T("MIXED", "none")>>]
R6 == [id |-> "R6", qc |-> TRUE, ts |-> <<T("MIXED", "none"), T("OPTIONS", "none"), T("SSE", "none"), T("GET", "json+other"), T("WS", "none"), T("POST", "gqlresp"), T("GRAPHQL", "gqlresp")>>]
ASSUME PrintT(ToJson([servers |-> {R1, R2, R3, R4, R5, R6}]))
OnlyS1 == {S1}
OnlyS2 == {S2}
OnlyS3 == {S3}
OnlyS4 == {S4}
OnlyS5 == {S5}
OnlyS6 == {S6}
OnlyR1 == {R1}
OnlyR2 == {R2}
OnlyR3 == {R3}
OnlyR4 == {R4}
OnlyR5 == {R5}
OnlyR6 == {R6}
====
