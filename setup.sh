#!/bin/bash
# Offline setup: pre-build the generator and warm the Go build cache for the harness.
set -e
ROOT="$(cd "$(dirname "$0")" && pwd)"
export GOFLAGS=-mod=mod GOPROXY=off
cd "$ROOT/harness"
cp -f "${VERIF_REPO:-/repo}/go.sum" go.sum
mkdir -p "$ROOT/.work/bin" "$ROOT/evidence"
go build -o "$ROOT/.work/bin/verifgen" ./cmd/verifgen
go build -tags verif ./vlib ./ur
echo "setup ok"
