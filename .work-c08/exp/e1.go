package main

import (
	"bytes"
	"fmt"
	"math"
	"time"

	"github.com/99designs/gqlgen/graphql"
)

func m(x graphql.Marshaler) string { var b bytes.Buffer; x.MarshalGQL(&b); return b.String() }

func main() {
	ds := []time.Duration{0, 1, 999, time.Second, 8760*time.Hour - 1, 730*time.Hour - 1, 24*time.Hour - 1, time.Hour - 1, time.Minute - 1, 168*time.Hour - 1, math.MaxInt64, math.MinInt64, -1, 59*time.Second + 999999999, 3*8760*time.Hour + 5*730*time.Hour + 1}
	for _, d := range ds {
		s := m(graphql.MarshalDuration(d))
		back, err := graphql.UnmarshalDuration(s[1 : len(s)-1])
		fmt.Println(int64(d), s, int64(back), err, back == d)
	}
	fmt.Printf("%q\n", m(graphql.MarshalString("a\xffb\x7f ")))
	fmt.Println(graphql.UnmarshalUintID(-1))
	fmt.Println(graphql.UnmarshalUintID(int64(math.MinInt64)))
	fmt.Println(m(graphql.MarshalFloat(math.NaN())), m(graphql.MarshalFloat(1e21)), m(graphql.MarshalFloat(math.Copysign(0, -1))), m(graphql.MarshalFloat(5e-324)), m(graphql.MarshalFloat(100000)), m(graphql.MarshalFloat(1e20)))
	t := time.Date(10000, 1, 1, 0, 0, 0, 0, time.UTC)
	s := m(graphql.MarshalTime(t))
	fmt.Println(s)
	fmt.Println(graphql.UnmarshalTime(s[1 : len(s)-1]))
	t = time.Date(2000, 1, 1, 0, 0, 0, 5, time.FixedZone("x", 3208))
	s = m(graphql.MarshalTime(t))
	fmt.Println(s)
	fmt.Println(graphql.UnmarshalTime(s[1 : len(s)-1]))
	t = time.Date(-1, 1, 1, 0, 0, 0, 5, time.UTC)
	s = m(graphql.MarshalTime(t))
	fmt.Println(s)
	fmt.Println(graphql.UnmarshalTime(s[1 : len(s)-1]))
}
