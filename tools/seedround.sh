#!/bin/bash
# tools/seedround.sh <seed-id> <check> [<check>...]
# Takes a sub-agent's delivery from /tmp/seedout/<seed-id>, stores it under seeded/<seed-id>,
# confirms it in scratch worktrees (applies, builds, existing tests pass, the demonstration
# fails with the change and passes without it), then runs the given checks against it.
set -u
id="$1"; shift
src="/tmp/seedout/$id"; dir="/verif/seeded/$id"
export GOFLAGS=-mod=mod GOPROXY=off
mkdir -p "$dir" /verif/.work/mut
[ -d "$src" ] && cp -r "$src"/. "$dir"/
rm -f "$dir"/fulltest.log
log="/verif/.work/confirm-$id.txt"; : > "$log"
patch="$dir/patch.diff"; [ -f "$dir/patch.rebased.diff" ] && patch="$dir/patch.rebased.diff"
# 1. apply + build + existing tests
/verif/tools/confirmseed.sh "$id" >> "$log" 2>&1
# 2. demonstration with / without the change
demo(){ # $1 = with|without
  wt="/tmp/dm-$id-$1"
  git -C /repo worktree remove --force "$wt" >/dev/null 2>&1
  git -C /repo worktree add -q "$wt" HEAD || return 2
  if [ "$1" = with ]; then git -C "$wt" apply "$patch" || { echo "$id demo-$1 APPLY-FAILED" >> "$log"; return 2; }; fi
  ( cd "$dir" && timeout 900 sh ./run.sh "$wt" ) > "/verif/.work/mut/demo-$id-$1.out" 2>&1
  rc=$?
  echo "$id demo-$1 exit=$rc" >> "$log"
  git -C /repo worktree remove --force "$wt" >/dev/null 2>&1
}
demo with; demo without
# 3. the checks
/verif/tools/runmut.sh "$id" "$patch" "$@" >> "$log" 2>&1
cat "$log" >> /verif/.work/seedmutD.txt
