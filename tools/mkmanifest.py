#!/usr/bin/env python3
"""Regenerates /verif/MANIFEST.json from the table below (single source of truth)."""
import json, os, subprocess
ROOT = os.path.dirname(os.path.dirname(os.path.abspath(__file__)))
MC = "model_checking"
EX = "exploration"
CHECKS = {
 "C01": dict(level=MC, ref="DESIGN.md §5 C01",
   technique="TLA+ reference semantics (GqlRef/GqlExec) + TLC trace validation of executions of probe servers generated at check time",
   text="Executions of servers generated from /repo's current templates (several layouts/options) for random operations x resolver/directive outcome plans are recorded at the user-code linearization points and validated by TLC against the property-level TLA+ module GqlExec, whose Respond step demands equality with the reference execution algorithm GqlRef (data incl. key order, error bag with paths, resolver positions invoked exactly once); responses must also be identical across all generated configurations.",
   note="Trusted: TLC, the universal resolver (reflection-built values), the JSON->tagged-tree projection. Error messages are abstracted to classes; error order is not compared."),
}
NOT_YET = {}
def main():
    props = [json.loads(l) for l in open(os.path.join(ROOT, "properties.jsonl"))]
    checks, na = [], []
    for p in props:
        pid = p["id"]
        c = CHECKS.get(pid)
        if c is None:
            na.append({"property_id": pid, "reason": NOT_YET.get(pid, "check not built yet in this round (see DESIGN.md §8 build order); no claim is made")})
            continue
        checks.append({
            "property_id": pid,
            "quick_cmd": f"./check {pid} --tier quick",
            "thorough_cmd": f"./check {pid} --tier thorough",
            "evidence_file": f"evidence/{pid}.json",
            "replay_cmd_template": f"./check {pid} --replay {{path}}",
            "engine": "verifctl",
            "level_claimed": {"category": c["level"], "text": c["text"], "design_ref": c["ref"]},
            "level_note": c["note"],
            "technique": c["technique"],
        })
    hooks = []
    hf = os.path.join(ROOT, "hooks_commits.txt")
    if os.path.exists(hf):
        hooks = [l.split()[0] for l in open(hf) if l.strip() and not l.startswith("#")]
    m = {
        "version": 1,
        "setup_cmd": "./setup.sh",
        "hooks": {
            "guard": "verif",
            "enable": "go build/test -tags verif (all drivers and probe servers are built with -tags verif by ./check)",
            "baseline_off_cmd": "cd /repo && go test -mod=mod -vet=off -count=1 -timeout 25m ./...",
            "source_commits": hooks,
            "add_only": True,
        },
        "engines": [{"name": "verifctl", "path": "harness/", "serves_properties": [c["property_id"] for c in checks],
                     "kind_free_text": "explicit TLA+ specifications checked with TLC, bound to the implementation by trace validation (code -> spec) and behaviour replay (spec -> code) against servers generated from /repo at check time"}],
        "checks": checks,
        "not_applicable": na,
        "notes": "exit 0 = held; exit 1 + VIOLATION line = violation observed on the real code; exit 2 = infrastructure problem (build failure, TLC crash, timeout) - never a verdict. known_findings.json lists genuine defects (open / fixed).",
    }
    json.dump(m, open(os.path.join(ROOT, "MANIFEST.json"), "w"), indent=1)
    print("MANIFEST.json:", len(checks), "checks,", len(na), "not_applicable")
main()
