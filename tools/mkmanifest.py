#!/usr/bin/env python3
"""Regenerates /verif/MANIFEST.json from the table below (single source of truth)."""
import json, os, subprocess
ROOT = os.path.dirname(os.path.dirname(os.path.abspath(__file__)))
MC = "model_checking"
EX = "exploration"
CHECKS = {
 "C01": dict(level=MC, ref="DESIGN.md §5 C01",
   technique="TLA+ reference semantics (GqlRef/GqlExec) + TLC trace validation of executions of probe servers generated at check time",
   text="Executions of servers generated from /repo's current templates (several layouts/options) for random operations x resolver/directive outcome plans are recorded at the user-code linearization points and validated by TLC against the property-level TLA+ module GqlExec, whose Respond step demands equality with the reference execution algorithm GqlRef (data incl. key order, error bag with paths, resolver positions invoked exactly once); responses must also be identical across all generated configurations.",
   note="Trusted: TLC, the universal resolver (reflection-built values), the JSON->tagged-tree projection. Error messages are abstracted to classes; error order is not compared."),
 "C04": dict(level=MC, ref="DESIGN.md §5 C04",
   technique="TLA+ reference semantics with fault plans (GqlRef/GqlExec) + TLC trace validation; faults injected at every kind of user code of servers generated at check time",
   text="Resolver / schema-directive / field-interceptor / root-field-interceptor errors and panics are injected by plan at positions of random operations (calling goroutine, concurrent siblings, list-element goroutines) on servers generated from /repo's templates; TLC validates every recorded execution against GqlExec: data equals the reference (only the propagated subtree is nulled), exactly one error per failure at its path, one recover-hook call per panic; a died or unresponsive server process is a violation by observation.",
   note="Trusted: TLC, universal resolver, process supervision. Serialization-time panics and input-unmarshaler faults are not yet injected (see DESIGN)."),
 "C05": dict(level=MC, ref="DESIGN.md §5 C05",
   technique="TLA+ model of the executor's concurrency skeleton (ExecConc) checked by TLC incl. liveness; every edge of its state graph replayed into generated servers with gates + cancellation; observed events trace-validated; cancel-point sweep",
   text="TLC decides Termination/NoLeak/Ends (liveness under fairness) on ExecConc for list length x worker_limit x deferred groups x transport kind; an edge-covering set of paths of each state graph is replayed into the real generated code (resolver gates as scheduler, cancellation at the modelled instant), hangs and surviving goroutines are observed directly (goroutine dump), and the recorded events are validated by TLC against ExecConcTrace (semaphore bound, payload count, nothing alive at the end). A second part cancels random operations (lists, nested lists, @defer) after every k-th resolver event for worker_limit 0/1/2(/8) and both transport kinds.",
   note="Trusted: TLC, goroutine-dump filtering by package path, 5 s hang bound / 1.5 s leak polling. Resolvers honour cancellation (the property's assumption)."),
 "C06": dict(level=MC, ref="DESIGN.md §5 C06",
   technique="TLC trace validation against GqlExec under gated adversarial schedules (LIFO/FIFO/random completion orders) on -race builds of generated servers",
   text="The same operations and plans are executed under several resolver completion orders enforced by gates (reversed, FIFO, seeded random) on race-detector builds of servers generated from /repo; TLC validates each execution against GqlExec (response equals the schedule-free reference Ref, hence all schedules agree; for mutations the action guard SerialOK demands that root field i+1 starts only after root field i's whole subtree ended). A race-detector report is a violation.",
   note="Trusted: TLC, Go race detector, the in-probe scheduler's quiescence window (affects only which orders are explored)."),
 "C13": dict(level=MC, ref="DESIGN.md §5 C13",
   technique="TLA+ payload-merge specification (GqlDefer over GqlRef) + TLC trace validation of payload sequences of generated servers under gated group completion orders",
   text="Random and hand-written operations with @defer (nested, in lists, if true/false/variable, shared labels) x fault plans x group completion orders are executed on servers generated from /repo; TLC validates each payload sequence against GqlDefer: merged payloads equal the reference result of the undeferred operation (outside the subtree a confined failure nulls), each (path,label) group at most once, every payload deliverable at arrival, hasNext true on all but the last, no error the plain execution lacks. Two known deviations of the pinned tree are admitted by a named constant in a second configuration so that the rest of such traces is still checked.",
   note="Trusted: TLC, universal resolver, the Go-side classifier only NAMES a rejected trace's finding class (verdict is TLC's)."),
 "C09": dict(level=MC, ref="DESIGN.md §5 C09, notes/C09.md",
   technique="TLA+ decision model of transport selection / negotiation / GET guard / status (Http.tla) exhaustively checked by TLC; every enumerated request replayed against the real handler.Server",
   text="Http.tla models one request through one handler.Server (SelectTransport, ParseUrl, Negotiate, Decode, CreateOpCtx, GuardGET, Dispatch, Write) at implementation level and states the property independently (GetNeverMutates, ExecutesNamedOperation, Non2xxRanNothing, ExecutedIs200, ProtocolErrorStatus, ContentTypeNegotiated, ImplConforms ...); TLC checks the full finite product of server configurations x requests, and every enumerated request is replayed over a real net/http connection against the real server (several header spellings), comparing chosen transport, status, Content-Type, body kind and the set of executed root fields with the prescription. Alarms only for departures from the property level; implementation-level differences inside the property are counted as drift.",
   note="Trusted: TLC, the hand-written ExecutableSchema of the harness, net/http. Accept q-values and the multipart 'request body too large' status are deliberately not decided (statement silent)."),
 "C14": dict(level=EX, ref="DESIGN.md §5 C14, notes/C14.md",
   technique="TLA+ definition of operation complexity and the limit gate (Complexity.tla) with theorems checked by TLC; every enumerated (tree, cost functions, limit) replayed against complexity.Calculate, the ComplexityLimit extension and the generated Complexity() switch",
   text="Complexity.tla defines Cx over abstract schemas / selection trees / a family of custom cost functions (constant, child+c, child*k, negative, MAX-1, MAX, below-child) on symbolic machine integers, and TLC checks range, monotonicity, never-below-children, permutation/fragment invariance and the gate rule on all bounded inputs plus the safeAdd boundary grid. Each enumerated case is concretised and run through complexity.Calculate with a hand-written schema AND the generated Complexity() of probe servers built from /repo's templates (both layouts), and through a real server with FixedComplexityLimit / ComplexityLimit for limits Cx-1, Cx, Cx+1, 0, MaxInt: value, stats, rejection and an empty resolver log must match the specification.",
   note="Trusted: TLC, the symbolic-integer concretiser (H = 2^62-1). @skip/@include, __type, non-query operations and non-POST transports are not varied."),
 "C08": dict(level=EX, ref="DESIGN.md §5 C08, notes/C08.md",
   technique="TLA+ transducer model of the JSON string writer over byte classes + scalar class tables (JsonWriter.tla) with theorems checked by TLC; every class sequence concretised and run through the real Marshal*/Unmarshal* functions with an independent RFC 8259/UTF-8 validator",
   text="JsonWriter.tla models writeQuotedString over 23 byte classes (controls, quote, backslash, valid 2/3/4-byte units, every kind of ill-formed UTF-8) together with a JSON-string acceptor, a decoder and the reference sanitiser; TLC checks for all class sequences up to 3 (quick) / 4 (thorough) units that the output is an RFC 8259 string, valid UTF-8, and decodes to the input with each offending byte replaced by U+FFFD, and checks the scalar encoder/decoder class tables (integers at every width boundary x carrier, floats incl. non-finite, ID forms, Time, Duration, UUID, Map, Any, Omittable). Each enumerated class is concretised into several seeded byte strings / values and run through the real functions; an independent strict validator, encoding/json decoding and the Unmarshal round trip must agree with the specification; FieldSet/Array/Response nestings are validated too.",
   note="Trusted: TLC, the harness's own validator, encoding/json. Times outside RFC 3339's range and MarshalFloat (non-default binding) with non-finite values are not decided."),
 "C10": dict(level=EX, ref="DESIGN.md §5 C10, notes/C10.md",
   technique="TLA+ models of request decoding per transport (Decode.tla) and of multipart upload forms / RawParams.AddUpload path walking (Upload.tla) checked by TLC; every enumerated input class, part order and (variables shape, map path) replayed against real servers in child processes",
   text="Decode.tla enumerates (transport, body class) incl. JSON null / wrongly-typed members / truncated / trailing garbage for POST, SSE, multipart-mixed, urlencoded (all sub-formats), application/graphql, GET and websocket frames of both subprotocols; Upload.tla enumerates part orders (<= 4 quick, <= 5 thorough), map paths walked over abstract variable trees, and size classes around MaxMemory / MaxUploadSize; both carry a property level (Admissible) and an action level, TLC checks no-panic-path, temp-file cleanup, limits and exact delivery. Each case is concretised (seeded) and sent to a real handler.Server in supervised child processes with a private TMPDIR and a counting recover hook: outcome class, status family, body well-formedness, recover count 0, empty TMPDIR after the handler returned, and for delivered uploads exact bytes / name / content type / size / independent seekable readers are compared with the specification.",
   note="Trusted: TLC, the child-process supervisor, the hand-written schema. Arbitrary byte strings outside the structured classes are not decided (raw fuzzing is a different technique)."),
 "C16": dict(level=EX, ref="DESIGN.md §5 C16, notes/C16.md",
   technique="TLA+ specification of the introspection view of an abstract schema with Rebuild(View(S)) = S checked by TLC (Introspect.tla) + gate machine; every enumerated / seeded schema rendered to SDL and served through the runtime introspection package and through generated servers, answers rebuilt and compared",
   text="Introspect.tla defines abstract schemas (all kinds, interface-implements-interface, unions, directives incl. repeatable, defaults, descriptions, a deprecation flag on every element separately), View(S, includeDeprecated) per GraphQL section 4 and Rebuild; TLC checks Rebuild(View(S)) = S and well-formedness on all schemas of the bound and the disabled-introspection gate on a bounded space of hiding operations (aliases, fragments, variables, _service). Each schema (exhaustive slices + seeded ones whose views TLC evaluates through Feed_Introspect) is rendered to SDL, served by the runtime package and by servers generated from /repo's templates (both layouts, Config.Schema override), queried with the standard introspection query (includeDeprecated true / omitted / variable) and __type(name:), and the rebuilt abstract schema is compared element-wise; with introspection disabled the hiding operations must yield null + error and leak no schema name.",
   note="Trusted: TLC, gqlparser as SDL loader, the JSON->abstract-schema rebuild. Two harmless representation differences ([] vs null for inapplicable lists, default deprecation reason) are tolerated and counted."),
 "C02": dict(level=EX, ref="DESIGN.md §5 C02, notes/C02.md",
   technique="TLA+ specification of GraphQL input coercion over type shapes x value sources x abstract JSON values (Coerce.tla) with theorems checked by TLC; the probe schema is rendered from the TLC-printed shape list, generated and compiled from /repo in 5 option configurations, and every enumerated case is executed and the Go values the resolver received are compared",
   text="Coerce.tla composes CoerceVariableValues, CoerceArgumentValues and input coercion for 34 type shapes (scalars incl. ID/IntID/UintID/Int64/Uint64/custom, enums, the four list nullabilities, nested lists, input objects with defaults / nested / list fields, Omittable-bound and map-backed inputs) x sources (literal, variable, variable default, argument default, field default) x abstract values incl. 19 integer boundary classes x carriers; TLC checks idempotence, list wrapping exactly for non-list non-null values, default iff absent, numeric classes preserved or rejected. The args probe SDL is rendered from the printed shape list, servers are generated from /repo's templates under all pairs of {nullable_input_omittable, return_pointers_in_unmarshalinput, call_argument_directives_with_null, struct_fields_always_pointers}; for every case the check compares whether the resolver ran, the canonical form of the Go argument values it received (absent / null / set distinguished through Omittable and map keys), and otherwise the error path; scalar unmarshalers are also driven directly on the class x carrier grid.",
   note="Trusted: TLC, the canonical renderer of Go values, the concretiser of integer classes. Positions marked soft in the spec (Go int wider than GraphQL Int) accept reject-or-deliver-unchanged."),
 "C03": dict(level=MC, ref="DESIGN.md §5 C03, notes/C03.md",
   technique="TLA+ model of N concurrent requests through the executor pipeline with shared query cache and global validator rule set (Pipeline.tla) exhaustively checked by TLC; TLC-enumerated cache-operation interleavings replayed through a gating cache; recorded hook/resolver/cache events of random sessions validated by TLC (PipelineTrace)",
   text="Pipeline.tla follows CreateOperationContext / DispatchOperation / DispatchError step by step (parameter mutators, cache lookup, parse, rule swap, validate, cache add, operation selection, variable coercion, context mutators, operation / response / root-field / field interceptors, resolver) for 2-3 concurrent requests x extension lists x {no cache, map, LRU 1-2} x suggestions on/off x a request alphabet of 9 classes; invariants I1-I5 (nothing runs for a rejected request, only validated documents are cached, lifecycle word with first-registered outermost and each hook exactly once, errors-only answers, no panic) are checked exhaustively. All TLC-enumerated orders of the cache operations of concurrent requests are forced on the real executor through a gating cache, and sessions of instrumented extensions (all 63 hook-interface subsets) + logging resolvers, sequential and concurrent, are validated by TLC against PipelineTrace; a -race child run is part of the thorough tier.",
   note="Trusted: TLC, the instrumented extensions, the independent document classifier. The rule-swap window inside gqlparser's RemoveRule/ReplaceRule is reproduced statistically (no hook reaches gqlparser)."),
}
NOT_YET = {}
def main():
    props = [json.loads(l) for l in open(os.path.join(ROOT, "properties.jsonl"))]
    checks, na = [], []
    for p in props:
        pid = p["id"]
        c = CHECKS.get(pid)
        if c is None:
            na.append({"property_id": pid, "reason": NOT_YET.get(pid, "check not built yet in this round (see DESIGN.md §8 build order); no claim is made")})
            continue
        checks.append({
            "property_id": pid,
            "quick_cmd": f"./check {pid} --tier quick",
            "thorough_cmd": f"./check {pid} --tier thorough",
            "evidence_file": f"evidence/{pid}.json",
            "replay_cmd_template": f"./check {pid} --replay {{path}}",
            "engine": "verifctl",
            "level_claimed": {"category": c["level"], "text": c["text"], "design_ref": c["ref"]},
            "level_note": c["note"],
            "technique": c["technique"],
        })
    hooks = []
    hf = os.path.join(ROOT, "hooks_commits.txt")
    if os.path.exists(hf):
        hooks = [l.split()[0] for l in open(hf) if l.strip() and not l.startswith("#")]
    m = {
        "version": 1,
        "setup_cmd": "./setup.sh",
        "hooks": {
            "guard": "verif",
            "enable": "go build/test -tags verif (all drivers and probe servers are built with -tags verif by ./check)",
            "baseline_off_cmd": "cd /repo && go test -mod=mod -vet=off -count=1 -timeout 25m ./...",
            "source_commits": hooks,
            "add_only": True,
        },
        "engines": [{"name": "verifctl", "path": "harness/", "serves_properties": [c["property_id"] for c in checks],
                     "kind_free_text": "explicit TLA+ specifications checked with TLC, bound to the implementation by trace validation (code -> spec) and behaviour replay (spec -> code) against servers generated from /repo at check time"}],
        "checks": checks,
        "not_applicable": na,
        "notes": "exit 0 = held; exit 1 + VIOLATION line = violation observed on the real code; exit 2 = infrastructure problem (build failure, TLC crash, timeout) - never a verdict. known_findings.json lists genuine defects (open / fixed).",
    }
    json.dump(m, open(os.path.join(ROOT, "MANIFEST.json"), "w"), indent=1)
    print("MANIFEST.json:", len(checks), "checks,", len(na), "not_applicable")
main()
