#!/bin/bash
# tools/sweepseeds.sh <out-file> [parallel]   - re-runs every seeded change against the checks it was ever run against
# (from .work/seedmut*.txt) on the current /repo HEAD; output lines in the format tools/seedreport.py reads.
out="$1"; par="${2:-3}"; export SWEEP_ONLY="${3:-.}"   # 3rd arg: regex of checks to include
cd /verif
python3 - > /tmp/sweep-list.txt <<'PY'
import glob,re,os
runs={}
for f in glob.glob('/verif/.work/seedmut*.txt'):
    for l in open(f):
        m=re.match(r's(\S+) (C\d+) exit=',l.strip())
        if m: runs.setdefault(m.group(1),set()).add(m.group(2))
for d in sorted(glob.glob('/verif/seeded/C*-*')):
    sid=os.path.basename(d)
    prop=re.match(r'(C\d+)',sid).group(1)
    import os as _os
    checks=[c for c in sorted(runs.get(sid,set())|{prop}) if re.fullmatch(_os.environ.get('SWEEP_ONLY','.*') if _os.environ.get('SWEEP_ONLY','.')!='.' else '.*', c)]
    if not checks: continue
    patch=d+'/patch.rebased.diff' if os.path.exists(d+'/patch.rebased.diff') else d+'/patch.diff'
    print(sid,patch,' '.join(checks))
PY
: > "$out"
run_one() { sid=$1; patch=$2; shift 2; /verif/tools/runmut.sh "s$sid" "$patch" "$@"; }
export -f run_one
cat /tmp/sweep-list.txt | xargs -P "$par" -L 1 bash -c 'run_one "$@"' _ >> "$out" 2>&1
