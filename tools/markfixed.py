#!/usr/bin/env python3
"""tools/markfixed.py <Cxx> <key-substring> <commit>: flips an open finding to fixed."""
import json, sys
prop, sub, commit = sys.argv[1:4]
p = '/verif/known_findings.d/%s.json' % prop
d = json.load(open(p))
n = 0
for f in d['findings']:
    if sub in f['key'] and f['status'] == 'open':
        f['status'] = 'fixed'; f['commit'] = commit
        f['what'] = 'fixed: property=%s %s %s' % (prop, commit, f['what'])
        n += 1; print('fixed', f['key'])
json.dump(d, open(p, 'w'), indent=1)
sys.exit(0 if n else 1)
