#!/usr/bin/env python3
"""Rewrites the findings table of DESIGN.md (between the FINDINGS-BEGIN/END markers) from known_findings*.json."""
import json, glob, os, re
ROOT = os.path.dirname(os.path.dirname(os.path.abspath(__file__)))
files = [os.path.join(ROOT, 'known_findings.json')] + sorted(glob.glob(os.path.join(ROOT, 'known_findings.d', '*.json')))
rows = []
for f in files:
    for k in json.load(open(f)).get('findings', []):
        what = re.sub(r'^fixed: property=\S+ \S+ ', '', k['what'])
        what = what.replace('|', '\\|').replace('\n', ' ')
        if len(what) > 330:
            what = what[:327] + '...'
        st = 'fixed ' + k.get('commit', '') if k['status'] == 'fixed' else 'open'
        rows.append((k['property'], st.startswith('open'), k['key'], what, st))
rows.sort(key=lambda r: (r[0], r[1], r[2]))
out = ['| property | key | defect (reproduced on the real code by the check) | status |', '|---|---|---|---|']
for p, _, key, what, st in rows:
    out.append(f'| {p} | `{key}` | {what} | {st} |')
nfix = sum(1 for r in rows if not r[1]); nopen = sum(1 for r in rows if r[1])
table = '\n'.join(out) + f'\n\n{len(rows)} findings: {nfix} fixed by `fix:` commits in `/repo`, {nopen} open.\n'
p = os.path.join(ROOT, 'DESIGN.md')
s = open(p).read()
b, e = '<!-- FINDINGS-BEGIN -->', '<!-- FINDINGS-END -->'
if b in s:
    s = s[:s.index(b) + len(b)] + '\n' + table + s[s.index(e):]
    open(p, 'w').write(s)
print(table[-120:])
