#!/bin/bash
# tools/confirmseed.sh <seed-id>   e.g. C01-1
# Confirms a seeded change in a scratch worktree: applies, builds, existing tests pass.
set -u
id="$1"; dir="/verif/seeded/$id"; wt="/tmp/cs-$id"
export GOFLAGS=-mod=mod GOPROXY=off
git -C /repo worktree remove --force "$wt" >/dev/null 2>&1
git -C /repo worktree add -q "$wt" HEAD || exit 2
cd "$wt"
p="$dir/patch.diff"; [ -f "$dir/patch.rebased.diff" ] && p="$dir/patch.rebased.diff"; if ! git apply "$p"; then echo "$id APPLY-FAILED"; git -C /repo worktree remove --force "$wt"; exit 1; fi
b="ok"; go build ./... > "/tmp/cs-$id.build.log" 2>&1 || b="FAIL"
go test -vet=off -count=1 ./... > "/tmp/cs-$id.test.log" 2>&1
fails=$(grep -E '^--- FAIL' "/tmp/cs-$id.test.log" | grep -v '_Integrity' | tr '\n' ';')
pk=$(grep -E '^FAIL\s' "/tmp/cs-$id.test.log" | grep -v playground | tr '\n' ';')
echo "$id build=$b test_failures=[${fails}] failed_pkgs=[${pk}]"
git -C /repo worktree remove --force "$wt"
