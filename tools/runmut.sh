#!/bin/bash
# tools/runmut.sh <id> <patch.diff> <check> [<check>...]
# Applies a patch to a scratch worktree of /repo (never to /repo itself), runs the
# given checks against it (isolated by VERIF_TAG), prints one line per check, cleans up.
set -u
id="$1"; patch="$2"; shift 2
wt="/tmp/wt-$id"
git -C /repo worktree remove --force "$wt" >/dev/null 2>&1
git -C /repo worktree add -q "$wt" HEAD || exit 2
if ! git -C "$wt" apply "$patch"; then echo "$id: patch does not apply"; git -C /repo worktree remove --force "$wt"; exit 2; fi
for chk in "$@"; do
  mkdir -p /verif/.work/mut; out="/verif/.work/mut/mut-$id-$chk.out"
  VERIF_REPO="$wt" VERIF_TAG="m$id" VERIF_SEED="${VERIF_SEED:-1}" /verif/check "$chk" > "$out" 2>&1
  rc=$?
  nv=$(grep -c '^VIOLATION' "$out")
  keys=$(grep '^  key=' "$out" | sort | uniq -c | sort -rn | head -3 | tr '\n' ';')
  echo "$id $chk exit=$rc violations=$nv $keys $(grep -E '^INFRA' "$out" | head -1 | cut -c1-200)"
done
git -C /repo worktree remove --force "$wt"
rm -rf "/verif/.work-m$id" /verif/harness/gen/tm${id}_*
