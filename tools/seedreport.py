#!/usr/bin/env python3
"""Collects confirmation + detection results of seeded changes into seeded/<id>/verif.json and seeded/RESULTS.md."""
import json, glob, os, re
ROOT='/verif'
conf={}
demo={}
for f in sorted(glob.glob(ROOT+'/.work/confirm-*.txt')):
    for l in open(f):
        m=re.match(r'(\S+) build=(\S+) test_failures=\[(.*?)\] failed_pkgs=\[(.*)\]',l.strip())
        if m: conf[m.group(1)]={'build':m.group(2),'test_failures':m.group(3),'failed_pkgs':m.group(4)}
        m=re.match(r'(\S+) demo-(with|without) exit=(\d+)',l.strip())
        if m: demo.setdefault(m.group(1),{})['%s_the_change_exit'%m.group(2)]=int(m.group(3))
det={}
for f in sorted(glob.glob(ROOT+'/.work/seedmut*.txt'), key=lambda f:(os.path.basename(f)=='seedmutD2.txt', os.path.getmtime(f))):  # D2 = reruns after strengthening, always last
    for l in open(f):
        m=re.match(r's?(C\d+[a-z]?-\d+)[a-z]? (C\d+) exit=(\d+) violations=(\d+)\s*(.*)',l.strip())
        if m:
            det.setdefault(m.group(1),{})[m.group(2)]={'exit':int(m.group(3)),'violations':int(m.group(4)),'keys':re.sub(r'\s+',' ',m.group(5))[:300]}
rows=[]
for d in sorted(glob.glob(ROOT+'/seeded/C*-*')):
    sid=os.path.basename(d)
    meta={}
    try: meta=json.load(open(d+'/meta.json'))
    except Exception: pass
    v={'seed':sid,'property':sid.split('-')[0],
       'confirmed_in_scratch_worktree':conf.get(sid),
       'demonstration_run_here':demo.get(sid),
       'flaky_note':'TestWebsocketWithPingPongInterval / TestWebSocketErrorFunc are timing tests that also fail on the unpatched tree under load; TestNameForDir (internal/code) failed in some round-4 confirmations only because a stray *_test.go of another package lay in /tmp at the time (the test inspects /tmp) - it passes on those trees without that file',
       'checks_run':det.get(sid,{}),
       'how_run':'tools/confirmseed.sh %s (git worktree + git apply + go build ./... + go test -vet=off -count=1 ./...); tools/runmut.sh s%s seeded/%s/patch.diff <checks> (VERIF_REPO=<worktree> VERIF_TAG=... ./check Cxx, quick tier, seed 1)'%(sid,sid,sid)}
    json.dump(v,open(d+'/verif.json','w'),indent=1)
    detected=[c for c,r in det.get(sid,{}).items() if r['exit']==1]
    missed=[c for c,r in det.get(sid,{}).items() if r['exit']!=1]
    note=''
    try: note=' **['+open(d+'/NOTE').read().strip()+']**'
    except Exception: pass
    v['note']=note
    json.dump(v,open(d+'/verif.json','w'),indent=1)
    rows.append((sid, (meta.get('summary') or '')[:160].replace('|','/').replace('\n',' ')+note, ', '.join(detected) or '-', ', '.join(missed) or '-'))
out=['# Seeded changes (produced by fresh sub-agents from the property text only) and which checks catch them','',
     '| seed | change | detected by | run but not detected by |','|---|---|---|---|']
for r in rows: out.append('| %s | %s | %s | %s |'%r)
open(ROOT+'/seeded/RESULTS.md','w').write('\n'.join(out)+'\n')
print('\n'.join(out[4:]))

s=open(ROOT+'/DESIGN.md').read()
b,e='<!-- SEEDS-BEGIN -->','<!-- SEEDS-END -->'
if b in s:
    s=s[:s.index(b)+len(b)]+'\n'+'\n'.join(out[2:])+'\n'+s[s.index(e):]
    open(ROOT+'/DESIGN.md','w').write(s)
