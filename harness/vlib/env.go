// Package vlib is the shared library of the check drivers: locating the
// framework, running TLC, building probe servers from /repo's current tree,
// writing evidence and verdict lines.
package vlib

import (
	"fmt"
	"os"
	"os/exec"
	"path/filepath"
	"strconv"
	"strings"
	"time"
)

// Root is /verif (overridable for snapshots via VERIF_ROOT).
func Root() string {
	if r := os.Getenv("VERIF_ROOT"); r != "" {
		return r
	}
	// the drivers are always started by /verif/check, which exports VERIF_ROOT;
	// fall back to the conventional location.
	return "/verif"
}

func Repo() string {
	if r := os.Getenv("VERIF_REPO"); r != "" {
		return r
	}
	return "/repo"
}

func Harness() string { return filepath.Join(Root(), "harness") }
func SpecDir() string { return filepath.Join(Root(), "spec") }

// Tag isolates a run (scratch dirs, generated probe packages, evidence) so
// that several runs - e.g. against scratch worktrees via VERIF_REPO - can
// proceed side by side. Empty for the registered checks.
func Tag() string { return os.Getenv("VERIF_TAG") }

func Work(parts ...string) string {
	w := ".work"
	if t := Tag(); t != "" {
		w = ".work-" + t
	}
	p := filepath.Join(append([]string{Root(), w}, parts...)...)
	return p
}

// EvidenceDir is /verif/evidence, or a scratch location for tagged runs.
func EvidenceDir() string {
	if Tag() != "" {
		return Work("evidence")
	}
	return filepath.Join(Root(), "evidence")
}

// GenName prefixes generated probe package names for tagged runs.
func GenName(name string) string {
	if t := Tag(); t != "" {
		return "t" + t + "_" + name
	}
	return name
}

func Seed() int64 {
	if s := os.Getenv("VERIF_SEED"); s != "" {
		if n, err := strconv.ParseInt(s, 10, 64); err == nil {
			return n
		}
	}
	return 1
}

func Tier() string {
	if t := os.Getenv("VERIF_TIER"); t == "thorough" {
		return "thorough"
	}
	return "quick"
}

// GoEnv is the environment for offline go commands.
func GoEnv() []string {
	env := os.Environ()
	out := env[:0:0]
	for _, e := range env {
		if strings.HasPrefix(e, "GOFLAGS=") || strings.HasPrefix(e, "GOPROXY=") {
			continue
		}
		out = append(out, e)
	}
	flags := "GOFLAGS=-mod=mod"
	if mf := os.Getenv("VERIF_MODFILE"); mf != "" {
		flags += " -modfile=" + mf
	}
	return append(out, flags, "GOPROXY=off")
}

// RunCmd runs a command with a timeout, returning combined output.
func RunCmd(dir string, env []string, timeout time.Duration, name string, args ...string) (string, error) {
	cmd := exec.Command(name, args...)
	cmd.Dir = dir
	if env != nil {
		cmd.Env = env
	}
	done := make(chan struct{})
	var out []byte
	var err error
	go func() {
		out, err = cmd.CombinedOutput()
		close(done)
	}()
	select {
	case <-done:
		return string(out), err
	case <-time.After(timeout):
		if cmd.Process != nil {
			_ = cmd.Process.Kill()
		}
		<-done
		return string(out), fmt.Errorf("timeout after %s: %s %v", timeout, name, args)
	}
}

// Infra reports an infrastructure problem (exit 2: never a violation).
func Infra(format string, a ...any) {
	fmt.Fprintf(os.Stderr, "INFRA: "+format+"\n", a...)
	os.Exit(2)
}
