package vlib

import (
	"encoding/json"
	"fmt"
	"sort"
	"strconv"
)

// Edge is one labelled transition exported by TLC (EmitEdge pattern).
type Edge struct {
	S string          // canonical JSON of the source state projection
	T string          // canonical JSON of the target state projection
	A json.RawMessage // action record
}

// ParseEdges decodes the lines TLC printed with PrintT(ToJson([s, a, t])).
func ParseEdges(printed []string) ([]Edge, error) {
	var out []Edge
	seen := map[string]bool{}
	for _, ln := range printed {
		if len(ln) < 2 || ln[0] != '"' {
			continue
		}
		inner, err := strconv.Unquote(ln)
		if err != nil {
			continue
		}
		var rec struct {
			S json.RawMessage `json:"s"`
			A json.RawMessage `json:"a"`
			T json.RawMessage `json:"t"`
		}
		if err := json.Unmarshal([]byte(inner), &rec); err != nil || rec.S == nil {
			continue
		}
		e := Edge{S: canonJSON(rec.S), T: canonJSON(rec.T), A: rec.A}
		k := e.S + "|" + string(e.A) + "|" + e.T
		if seen[k] {
			continue
		}
		seen[k] = true
		out = append(out, e)
	}
	if len(out) == 0 {
		return nil, fmt.Errorf("no edges printed")
	}
	return out, nil
}

func canonJSON(r json.RawMessage) string {
	var v any
	_ = json.Unmarshal(r, &v)
	b, _ := json.Marshal(v)
	return string(b)
}

// CoverPaths returns paths (sequences of edges) from init that together
// traverse every edge reachable from init at least once: for each uncovered
// edge, the BFS-shortest path to its source, the edge, then a greedy
// extension along uncovered (else any) edges until a terminal state.
func CoverPaths(edges []Edge, init string, maxLen int) [][]Edge {
	out := map[string][]int{}
	for i, e := range edges {
		out[e.S] = append(out[e.S], i)
	}
	// BFS tree from init
	parent := map[string]int{init: -1}
	queue := []string{init}
	for len(queue) > 0 {
		s := queue[0]
		queue = queue[1:]
		for _, ei := range out[s] {
			t := edges[ei].T
			if _, ok := parent[t]; !ok {
				parent[t] = ei
				queue = append(queue, t)
			}
		}
	}
	pathTo := func(s string) []int {
		var rev []int
		for s != init {
			ei := parent[s]
			rev = append(rev, ei)
			s = edges[ei].S
		}
		for i, j := 0, len(rev)-1; i < j; i, j = i+1, j-1 {
			rev[i], rev[j] = rev[j], rev[i]
		}
		return rev
	}
	covered := make([]bool, len(edges))
	order := make([]int, 0, len(edges))
	for i := range edges {
		if _, ok := parent[edges[i].S]; ok {
			order = append(order, i)
		}
	}
	sort.Ints(order)
	var paths [][]Edge
	for _, ei := range order {
		if covered[ei] {
			continue
		}
		idx := append(pathTo(edges[ei].S), ei)
		cur := edges[ei].T
		for len(idx) < maxLen {
			next := -1
			for _, c := range out[cur] {
				if !covered[c] && !inPath(idx, c) {
					next = c
					break
				}
			}
			if next < 0 {
				for _, c := range out[cur] {
					if !inPath(idx, c) {
						next = c
						break
					}
				}
			}
			if next < 0 {
				break
			}
			idx = append(idx, next)
			cur = edges[next].T
		}
		p := make([]Edge, len(idx))
		for i, x := range idx {
			covered[x] = true
			p[i] = edges[x]
		}
		paths = append(paths, p)
	}
	return paths
}

func inPath(idx []int, c int) bool {
	for _, x := range idx {
		if x == c {
			return true
		}
	}
	return false
}
