package vlib

import (
	"fmt"

	"github.com/vektah/gqlparser/v2/ast"
	"github.com/vektah/gqlparser/v2/parser"
)

// ParseOp converts GraphQL text (first operation + fragments) into the
// abstract operation tree the TLA+ modules read. Used for hand-written corpus
// queries; random operations are built as trees directly and rendered.
func ParseOp(query string, vars map[string]any) (*Op, error) {
	doc, err := parser.ParseQuery(&ast.Source{Input: query})
	if err != nil {
		return nil, err
	}
	if len(doc.Operations) == 0 {
		return nil, fmt.Errorf("no operation")
	}
	od := doc.Operations[0]
	op := &Op{Kind: string(od.Operation), Frags: map[string]*Frag{}, Vars: vars, Name: od.Name}
	var conv func(ss ast.SelectionSet) ([]*Sel, error)
	boolArg := func(d *ast.Directive, dflt bool) (bool, error) {
		a := d.Arguments.ForName("if")
		if a == nil {
			return dflt, nil
		}
		v, err := a.Value.Value(vars)
		if err != nil {
			return false, err
		}
		b, ok := v.(bool)
		if !ok {
			return false, fmt.Errorf("if: not a boolean")
		}
		return b, nil
	}
	dirs := func(s *Sel, dl ast.DirectiveList) error {
		s.Incl = true
		for _, d := range dl {
			switch d.Name {
			case "skip":
				b, err := boolArg(d, false)
				if err != nil {
					return err
				}
				s.Skip = b
			case "include":
				b, err := boolArg(d, true)
				if err != nil {
					return err
				}
				s.Incl = b
			case "dfield", "dfield2":
				if a := d.Arguments.ForName("tag"); a != nil {
					if v, err := a.Value.Value(vars); err == nil {
						if t, ok := v.(string); ok {
							s.QDirs = append(s.QDirs, t)
						}
					}
				}
			case "defer":
				b, err := boolArg(d, true)
				if err != nil {
					return err
				}
				s.Dfr = b
				if a := d.Arguments.ForName("label"); a != nil {
					if v, err := a.Value.Value(vars); err == nil {
						s.Label, _ = v.(string)
					}
				}
			}
		}
		return nil
	}
	conv = func(ss ast.SelectionSet) ([]*Sel, error) {
		out := []*Sel{}
		for _, x := range ss {
			switch x := x.(type) {
			case *ast.Field:
				s := &Sel{K: "field", Alias: x.Alias, Name: x.Name}
				if err := dirs(s, x.Directives); err != nil {
					return nil, err
				}
				if x.Name == "boomArg" {
					// the probe's failing input unmarshaler (scalar Boom): "err" / "panic"
					if a := x.Arguments.ForName("b"); a != nil {
						if v, err := a.Value.Value(vars); err == nil {
							if t, ok := v.(string); ok && (t == "err" || t == "panic") {
								s.AFault, s.AName = t, "b"
							}
						}
					}
				}
				sub, err := conv(x.SelectionSet)
				if err != nil {
					return nil, err
				}
				s.Sels = sub
				out = append(out, s)
			case *ast.InlineFragment:
				s := &Sel{K: "inline", On: x.TypeCondition}
				if err := dirs(s, x.Directives); err != nil {
					return nil, err
				}
				sub, err := conv(x.SelectionSet)
				if err != nil {
					return nil, err
				}
				s.Sels = sub
				out = append(out, s)
			case *ast.FragmentSpread:
				s := &Sel{K: "spread", Name: x.Name}
				if err := dirs(s, x.Directives); err != nil {
					return nil, err
				}
				out = append(out, s)
			}
		}
		return out, nil
	}
	var err2 error
	if op.Sels, err2 = conv(od.SelectionSet); err2 != nil {
		return nil, err2
	}
	for _, f := range doc.Fragments {
		sub, err := conv(f.SelectionSet)
		if err != nil {
			return nil, err
		}
		op.Frags[f.Name] = &Frag{On: f.TypeCondition, Sels: sub}
	}
	return op, nil
}

// CorpusScenario builds a scenario from query text.
func CorpusScenario(id, query string, vars map[string]any) *Scenario {
	op, err := ParseOp(query, vars)
	if err != nil {
		Infra("corpus query %q: %v", query, err)
	}
	return &Scenario{ID: id, Op: op, Query: query, Vars: vars}
}
