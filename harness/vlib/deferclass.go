package vlib

import (
	"encoding/json"
	"strings"

	"verifharness/ur"
)

// DeferRejectKey classifies a GqlDeferTrace rejection for known-findings
// matching. It only names the class; the verdict is TLC's.
func DeferRejectKey(rj Rejection) string {
	var ev struct {
		E    string   `json:"e"`
		Pseq []string `json:"pseq"`
		Path string   `json:"path"`
	}
	_ = json.Unmarshal([]byte(rj.Line), &ev)
	if ev.E != "Respond" || ev.Path == "" || rj.Scenario.Result == nil {
		return RejectKey(rj)
	}
	resps := rj.Scenario.Result.Resps
	// index of the rejected payload
	idx := -1
	for i, r := range resps {
		if i > 0 && r.Path == ev.Path {
			idx = i
			break
		}
	}
	if idx < 1 {
		return RejectKey(rj)
	}
	merged := cloneT(resps[0].Data)
	for i := 1; i < idx; i++ {
		mergeAt(merged, strings.Split(resps[i].Path, "."), resps[i].Data)
	}
	if n := nav(merged, ev.Pseq); n != nil && n["t"] == "o" {
		return RejectKey(rj) // deliverable: something else was wrong
	}
	// not deliverable now: does the object ever arrive?
	for round := 0; round < len(resps); round++ {
		for i := 1; i < len(resps); i++ {
			mergeAt(merged, strings.Split(resps[i].Path, "."), resps[i].Data)
		}
	}
	if n := nav(merged, ev.Pseq); n != nil && n["t"] == "o" {
		return "defer:nested-group-before-parent"
	}
	// The object never arrives. The known finding is about objects that completed fine and
	// whose ANCESTOR was nulled by a failure elsewhere. A payload for an object that was
	// nulled by a failure inside its own subtree is a different defect (the object's groups
	// must not even start): every error at or under the nulled ancestor lies under the
	// payload's own path.
	x := nulledPrefix(cloneT(resps[0].Data), ev.Pseq)
	own, elsewhere := 0, 0
	for _, e := range resps[0].Errs {
		underX := x == "" || e.P == x || strings.HasPrefix(e.P, x+".")
		underP := strings.HasPrefix(e.P, ev.Path+".")
		if underP {
			own++
		} else if underX {
			elsewhere++
		}
	}
	if own > 0 && elsewhere == 0 {
		return "defer:group-delivered-for-object-nulled-by-its-own-field"
	}
	return "defer:group-delivered-for-nulled-object"
}

// nulledPrefix is the path of the first node on the way to ps that is null or missing.
func nulledPrefix(d map[string]any, ps []string) string {
	for i := 0; i <= len(ps); i++ {
		n := nav(d, ps[:i])
		if n == nil || n["t"] != "o" && n["t"] != "l" {
			return strings.Join(ps[:i], ".")
		}
	}
	return strings.Join(ps, ".")
}

func cloneT(t ur.Tagged) map[string]any {
	b, _ := json.Marshal(t)
	var m map[string]any
	_ = json.Unmarshal(b, &m)
	return m
}

func nav(d map[string]any, ps []string) map[string]any {
	for _, seg := range ps {
		if d == nil {
			return nil
		}
		switch d["t"] {
		case "o":
			var nx map[string]any
			for _, f := range d["f"].([]any) {
				fm := f.(map[string]any)
				if fm["k"] == seg {
					nx, _ = fm["v"].(map[string]any)
				}
			}
			d = nx
		case "l":
			es := d["e"].([]any)
			i := -1
			for j := range es {
				if itoa(j) == seg {
					i = j
				}
			}
			if i < 0 {
				return nil
			}
			d, _ = es[i].(map[string]any)
		default:
			return nil
		}
	}
	return d
}

func itoa(i int) string {
	b, _ := json.Marshal(i)
	return string(b)
}

func mergeAt(d map[string]any, ps []string, data ur.Tagged) {
	tgt := nav(d, ps)
	if tgt == nil || tgt["t"] != "o" || data["t"] != "o" {
		return
	}
	fs := tgt["f"].([]any)
	src := cloneT(data)
	for _, g := range src["f"].([]any) {
		gm := g.(map[string]any)
		found := false
		for i, f := range fs {
			if f.(map[string]any)["k"] == gm["k"] {
				fs[i] = gm
				found = true
			}
		}
		if !found {
			fs = append(fs, gm)
		}
	}
	tgt["f"] = fs
}
