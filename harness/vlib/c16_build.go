package vlib

import (
	"fmt"
	"os"
	"path/filepath"
	"strings"
	"time"
)

// C16BuildProbeEmbedded is BuildProbe with the schema files placed INSIDE the
// directory of the generated executor (graph/*.graphqls), so that the generator
// delivers them with //go:embed (AugmentedSource.Embeddable) instead of inlining
// them as Go raw string literals (templates.rawQuote), which is what the layout
// of BuildProbe (schema files in the project root, executor in graph/) leads to.
// Only what C16 needs: main.go.tmpl and *.graphqls of the probe directory.
func C16BuildProbeEmbedded(probe string, v Variant) (string, error) {
	gen, err := BuildGenerator()
	if err != nil {
		return "", err
	}
	name := GenName(probe + "_" + v.Name)
	dir := filepath.Join(Harness(), "gen", name)
	unlock := lockFile(Work("bin", "."+name+".lock"))
	defer unlock()
	if err := os.RemoveAll(dir); err != nil {
		return "", err
	}
	for _, d := range []string{"cmd", "graph"} {
		if err := os.MkdirAll(filepath.Join(dir, d), 0o755); err != nil {
			return "", err
		}
	}
	src := filepath.Join(Harness(), "probes", probe)
	ents, err := os.ReadDir(src)
	if err != nil {
		return "", err
	}
	mainTmpl := ""
	for _, e := range ents {
		b, err := os.ReadFile(filepath.Join(src, e.Name()))
		if err != nil {
			return "", err
		}
		switch {
		case e.Name() == "main.go.tmpl":
			mainTmpl = string(b)
		case strings.HasSuffix(e.Name(), ".graphqls"):
			if err := os.WriteFile(filepath.Join(dir, "graph", e.Name()), b, 0o644); err != nil {
				return "", err
			}
		}
	}
	yml := v.yaml(probe)
	if !strings.Contains(yml, "schema: [\"*.graphqls\"]\n") {
		return "", fmt.Errorf("c16 embedded layout: unexpected yaml head")
	}
	yml = strings.Replace(yml, "schema: [\"*.graphqls\"]\n", "schema: [\"graph/*.graphqls\"]\n", 1)
	if err := os.WriteFile(filepath.Join(dir, "gqlgen.yml"), []byte(yml), 0o644); err != nil {
		return "", err
	}
	if o, err := RunCmd(dir, GoEnv(), 5*time.Minute, gen, "gqlgen.yml", "graph/stub.go"); err != nil {
		return "", fmt.Errorf("generate %s: %v\n%s", name, err, o)
	}
	if err := os.WriteFile(filepath.Join(dir, "cmd", "main.go"), []byte(strings.ReplaceAll(mainTmpl, "PROBE", name)), 0o644); err != nil {
		return "", err
	}
	bin := Work("bin", probe+"_"+v.ID())
	if o, err := RunCmd(Harness(), GoEnv(), 15*time.Minute, "go", "build", "-tags", "verif", "-o", bin, "./gen/"+name+"/cmd"); err != nil {
		return "", fmt.Errorf("compile %s: %v\n%s", name, err, o)
	}
	return bin, nil
}
