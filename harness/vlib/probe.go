package vlib

import (
	"bufio"
	"encoding/json"
	"fmt"
	"io"
	"os"
	"os/exec"
	"path/filepath"
	"sort"
	"strings"
	"sync"
	"syscall"
	"time"
)

// Variant is one generator configuration of a probe project.
type Variant struct {
	Name         string
	FollowSchema bool
	FuncSyntax   bool
	WorkerLimit  int
	Opts         map[string]bool // extra boolean gqlgen.yml options
	Race         bool
	Extra        string // raw yaml appended
	// CustomRoots renames the root operation types (RootQuery / RootMutation /
	// RootSubscription + a schema definition): nothing may depend on the default names
	CustomRoots bool
}

func (v Variant) ID() string {
	s := v.Name
	if v.Race {
		s += "_race"
	}
	return s
}

// ExecVariants are the configurations of the exec probe. The first three are the quick tier.
func ExecVariants(thorough bool) []Variant {
	vs := []Variant{
		{Name: "v0"},
		{Name: "v1", FollowSchema: true, FuncSyntax: true, WorkerLimit: 2, CustomRoots: true},
		{Name: "v2", WorkerLimit: 1, Opts: map[string]bool{"omit_slice_element_pointers": true, "resolvers_always_return_pointers": true}},
	}
	if thorough {
		vs = append(vs,
			Variant{Name: "v3", FollowSchema: true, WorkerLimit: 8, Opts: map[string]bool{"struct_fields_always_pointers": true}},
			Variant{Name: "v4", FuncSyntax: true, Opts: map[string]bool{"omit_slice_element_pointers": true}},
			Variant{Name: "v5", FollowSchema: true, FuncSyntax: true, WorkerLimit: 1, Opts: map[string]bool{"resolvers_always_return_pointers": true, "omit_getters": true}},
			Variant{Name: "v6", WorkerLimit: 2, Opts: map[string]bool{"omit_complexity": true, "struct_fields_always_pointers": true, "omit_slice_element_pointers": true}},
		)
	}
	return vs
}

func (v Variant) yaml(probe string) string {
	var sb strings.Builder
	sb.WriteString("schema: [\"*.graphqls\"]\n")
	sb.WriteString("exec:\n")
	if v.FollowSchema {
		sb.WriteString("  layout: follow-schema\n  dir: graph\n  package: graph\n")
	} else {
		sb.WriteString("  filename: graph/generated.go\n  package: graph\n")
	}
	if v.WorkerLimit > 0 {
		fmt.Fprintf(&sb, "  worker_limit: %d\n", v.WorkerLimit)
	}
	sb.WriteString("model:\n  filename: graph/model/models_gen.go\n  package: model\n")
	sb.WriteString("skip_mod_tidy: true\nskip_validation: true\nomit_gqlgen_version_in_file_notice: true\n")
	if v.FuncSyntax {
		sb.WriteString("use_function_syntax_for_execution_context: true\n")
	}
	keys := make([]string, 0, len(v.Opts))
	for k := range v.Opts {
		keys = append(keys, k)
	}
	sort.Strings(keys)
	for _, k := range keys {
		fmt.Fprintf(&sb, "%s: %v\n", k, v.Opts[k])
	}
	sb.WriteString(v.Extra)
	return sb.String()
}

// BuildGenerator builds cmd/verifgen against /repo's current tree.
func BuildGenerator() (string, error) {
	out := Work("bin", "verifgen")
	_ = os.MkdirAll(filepath.Dir(out), 0o755)
	unlock := lockFile(Work("bin", ".verifgen.lock"))
	defer unlock()
	o, err := RunCmd(Harness(), GoEnv(), 10*time.Minute, "go", "build", "-o", out, "./cmd/verifgen")
	if err != nil {
		return "", fmt.Errorf("build verifgen: %v\n%s", err, o)
	}
	return out, nil
}

func lockFile(path string) func() {
	_ = os.MkdirAll(filepath.Dir(path), 0o755)
	f, err := os.OpenFile(path, os.O_CREATE|os.O_RDWR, 0o644)
	if err != nil {
		return func() {}
	}
	_ = syscall.Flock(int(f.Fd()), syscall.LOCK_EX)
	return func() {
		_ = syscall.Flock(int(f.Fd()), syscall.LOCK_UN)
		f.Close()
	}
}

// BuildProbe regenerates probe `probe` in configuration v from /repo's current
// templates (api.Generate + stubgen) and compiles the probe server with -tags verif.
// Returns the path of the binary.
func BuildProbe(probe string, v Variant) (string, error) {
	gen, err := BuildGenerator()
	if err != nil {
		return "", err
	}
	name := GenName(probe + "_" + v.Name)
	dir := filepath.Join(Harness(), "gen", name)
	unlock := lockFile(Work("bin", "."+name+".lock"))
	defer unlock()
	if err := os.RemoveAll(dir); err != nil {
		return "", err
	}
	if err := os.MkdirAll(filepath.Join(dir, "cmd"), 0o755); err != nil {
		return "", err
	}
	src := filepath.Join(Harness(), "probes", probe)
	ents, err := os.ReadDir(src)
	if err != nil {
		return "", err
	}
	mainTmpl := ""
	for _, e := range ents {
		b, err := os.ReadFile(filepath.Join(src, e.Name()))
		if err != nil {
			return "", err
		}
		switch {
		case e.Name() == "main.go.tmpl":
			mainTmpl = string(b)
		case strings.HasSuffix(e.Name(), ".graphqls"):
			if v.CustomRoots {
				txt := string(b)
				for _, r := range []string{"Query", "Mutation", "Subscription"} {
					txt = strings.ReplaceAll(txt, "type "+r+" {", "type Root"+r+" {")
				}
				if strings.Contains(string(b), "\ntype Query {") {
					txt += "\nschema { query: RootQuery mutation: RootMutation subscription: RootSubscription }\n"
				}
				b = []byte(txt)
			}
			if err := os.WriteFile(filepath.Join(dir, e.Name()), b, 0o644); err != nil {
				return "", err
			}
		case strings.HasSuffix(e.Name(), ".go.in"):
			// hand-written Go placed in the graph package dir before generation
			_ = os.MkdirAll(filepath.Join(dir, "graph"), 0o755)
			tgt := filepath.Join(dir, "graph", strings.TrimSuffix(e.Name(), ".in"))
			if err := os.WriteFile(tgt, []byte(strings.ReplaceAll(string(b), "PROBE", name)), 0o644); err != nil {
				return "", err
			}
		case e.Name() == "extra.yml":
			v.Extra += strings.ReplaceAll(string(b), "PROBE", name)
		}
	}
	if err := os.WriteFile(filepath.Join(dir, "gqlgen.yml"), []byte(v.yaml(probe)), 0o644); err != nil {
		return "", err
	}
	if o, err := RunCmd(dir, GoEnv(), 5*time.Minute, gen, "gqlgen.yml", "graph/stub.go"); err != nil {
		return "", fmt.Errorf("generate %s: %v\n%s", name, err, o)
	}
	if err := os.WriteFile(filepath.Join(dir, "cmd", "main.go"), []byte(strings.ReplaceAll(mainTmpl, "PROBE", name)), 0o644); err != nil {
		return "", err
	}
	bin := Work("bin", probe+"_"+v.ID())
	args := []string{"build", "-tags", "verif", "-o", bin}
	if v.Race {
		args = append(args, "-race")
	}
	args = append(args, "./gen/"+name+"/cmd")
	if o, err := RunCmd(Harness(), GoEnv(), 15*time.Minute, "go", args...); err != nil {
		return "", fmt.Errorf("compile %s: %v\n%s", name, err, o)
	}
	return bin, nil
}

// BuildProbes builds several variants in parallel.
func BuildProbes(probe string, vs []Variant) (map[string]string, error) {
	if _, err := BuildGenerator(); err != nil {
		return nil, err
	}
	out := map[string]string{}
	var mu sync.Mutex
	var wg sync.WaitGroup
	var firstErr error
	for _, v := range vs {
		wg.Add(1)
		go func(v Variant) {
			defer wg.Done()
			bin, err := BuildProbe(probe, v)
			mu.Lock()
			defer mu.Unlock()
			if err != nil && firstErr == nil {
				firstErr = err
			}
			out[v.ID()] = bin
		}(v)
	}
	wg.Wait()
	return out, firstErr
}

// Proc is a running probe server speaking the ndjson protocol.
type Proc struct {
	Bin    string
	Args   []string
	Env    []string
	cmd    *exec.Cmd
	in     io.WriteCloser
	out    *bufio.Reader
	errb   *tailBuf
	Died   bool
	Stderr string
}

type tailBuf struct {
	mu sync.Mutex
	b  []byte
}

func (t *tailBuf) Write(p []byte) (int, error) {
	t.mu.Lock()
	t.b = append(t.b, p...)
	if len(t.b) > 64<<10 {
		t.b = t.b[len(t.b)-64<<10:]
	}
	t.mu.Unlock()
	return len(p), nil
}

func StartProc(bin string, env []string, args ...string) (*Proc, error) {
	p := &Proc{Bin: bin, Args: args, Env: env}
	return p, p.start()
}

func (p *Proc) start() error {
	p.cmd = exec.Command(p.Bin, p.Args...)
	p.cmd.Env = append(os.Environ(), p.Env...)
	var err error
	if p.in, err = p.cmd.StdinPipe(); err != nil {
		return err
	}
	so, err := p.cmd.StdoutPipe()
	if err != nil {
		return err
	}
	p.out = bufio.NewReaderSize(so, 4<<20)
	p.errb = &tailBuf{}
	p.cmd.Stderr = p.errb
	p.Died = false
	return p.cmd.Start()
}

// Send writes one command.
func (p *Proc) Send(cmd any) error {
	b, err := json.Marshal(cmd)
	if err != nil {
		return err
	}
	b = append(b, '\n')
	_, err = p.in.Write(b)
	return err
}

// Recv reads one result line into v. On EOF the process died (crash or exit).
func (p *Proc) Recv(v any, timeout time.Duration) error {
	type rd struct {
		line []byte
		err  error
	}
	ch := make(chan rd, 1)
	go func() {
		line, err := p.out.ReadBytes('\n')
		ch <- rd{line, err}
	}()
	select {
	case r := <-ch:
		if len(r.line) > 1 {
			return json.Unmarshal(r.line, v)
		}
		p.Died = true
		_ = p.cmd.Wait()
		p.errb.mu.Lock()
		p.Stderr = string(p.errb.b)
		p.errb.mu.Unlock()
		if r.err == nil {
			r.err = io.EOF
		}
		return r.err
	case <-time.After(timeout):
		p.Kill()
		return fmt.Errorf("probe timeout after %s", timeout)
	}
}

func (p *Proc) Kill() {
	if p.cmd != nil && p.cmd.Process != nil {
		_ = p.cmd.Process.Kill()
		_ = p.cmd.Wait()
	}
	p.Died = true
	if p.errb != nil {
		p.errb.mu.Lock()
		p.Stderr = string(p.errb.b)
		p.errb.mu.Unlock()
	}
}

func (p *Proc) Restart() error {
	p.Kill()
	return p.start()
}

func (p *Proc) Close() {
	if p.in != nil {
		_ = p.Send(map[string]string{"cmd": "quit"})
		p.in.Close()
	}
	done := make(chan struct{})
	go func() { _ = p.cmd.Wait(); close(done) }()
	select {
	case <-done:
	case <-time.After(3 * time.Second):
		p.Kill()
	}
}
