package vlib

import (
	"encoding/json"
	"fmt"
	"math/rand"
	"os"
	"sort"
	"strings"

	"verifharness/ur"
)

// DevStep is one deviation-tolerant configuration of the trace specification; Key names the
// violations it explains ("" = classify the last rejection).
type DevStep struct {
	Config string
	Key    string
}

// LeafElemKey is the known finding admitted by LeafElemErrAtList = TRUE (see GqlRef).
const LeafElemKey = "scalar-list-null-element-error-at-list-path"

// ExecMode selects what the executor conformance run varies.
type ExecMode struct {
	Faults         bool     // err / null / list / type outcomes
	Panics         bool     // panic outcomes (C04)
	DirFaults      bool     // directive err/null(/panic)
	Scheds         bool     // gated schedules (C06)
	IntFaults      bool     // field / root-field interceptor err/panic
	ArgFaults      bool     // failing / panicking input unmarshaler in arguments
	Transports     []string // also run every k-th scenario over these real transports ("tp:sse", "tp:mixed", "tp:post") and validate the payloads parsed off the wire like the executor's
	TransportEvery int
	Rogue          bool // abstract positions may get a Go value that is no type of the schema (type resolution fails)
	Sentinel       bool // a third of the planned resolver errors return ONE shared package-level *gqlerror.Error value
	HTTP           bool // run through handler.Server + POST transport; allows marshal-time panics (Boom = "panic")
	Mutations      bool // include mutation operations
	Subs           bool // subscription operations only (GqlSubTrace)
	Defer          bool // @defer in operations (C13 uses its own trace module)
	Module         string
	Config         string
	PlansPer       int
	Procs          int
	Lines          func(*Scenario) [][]byte
	// Classify names the finding class of a rejection (default RejectKey); DevConfig,
	// when set, is a deviation-tolerant config under which rejected scenarios are
	// validated again so that the rest of their trace is still checked.
	Classify  func(Rejection) string
	Devs      []DevStep
	DevConfig string
	// Corpus are extra hand-written scenarios (with Op trees, e.g. from CorpusScenario);
	// those with a Sched/Order are run as given, the others also get derived plans.
	Corpus []*Scenario
	Env    []string // extra environment of the probe processes
}

// derivePlans builds fault plans for an operation from the events of its
// fault-free baseline run (which tell the resolver positions and the Go
// types they return).
func derivePlan(s *SchemaJ, base *ur.Result, r *rand.Rand, m ExecMode, intensity int) (map[string]ur.Outcome, map[string]string) {
	plan := map[string]ur.Outcome{}
	dplan := map[string]string{}
	pick := func() bool { return r.Intn(100) < intensity }
	var ends []ur.Event
	for _, ev := range base.Events {
		if ev.E == "End" {
			ends = append(ends, ev)
		}
		if ev.E == "Dir" && m.DirFaults && pick() {
			opts := []string{"err", "null"}
			if m.Panics {
				opts = append(opts, "panic")
			}
			dplan[ev.P+"@"+ev.T] = opts[r.Intn(len(opts))]
		}
	}
	if m.IntFaults {
		for _, ev := range ends {
			if r.Intn(100) < intensity/3 {
				dplan[ev.P+"@#f"] = []string{"err", "panic"}[r.Intn(2)]
			}
			if !strings.Contains(ev.P, ".") && r.Intn(100) < intensity/8 {
				dplan[ev.P+"@#r"] = "panic"
			}
		}
	}
	for _, ev := range ends {
		desc := ev.A
		kinds, basen := "", desc
		if i := strings.Index(desc, ":"); i >= 0 {
			kinds, basen = desc[:i], desc[i+1:]
		}
		if strings.HasPrefix(kinds, "C") {
			// subscription source: number of events and per-event outcomes
			n := 1 + r.Intn(3)
			plan[ev.P] = ur.Outcome{K: "stream", N: n}
			for i := 0; i < n; i++ {
				ep := fmt.Sprintf("%s~%d", ev.P, i)
				if len(kinds) > 1 && r.Intn(100) < intensity {
					plan[ep] = ur.Outcome{K: "null"}
					continue
				}
				plainFields(s, plan, ep, gqlName(s, basen), r, intensity, 1)
			}
			continue
		}
		if pick() {
			opts := []string{"err"}
			if m.Panics {
				opts = append(opts, "panic", "panic")
			}
			if kinds != "" {
				opts = append(opts, "null", "null")
			}
			if strings.HasPrefix(kinds, "S") {
				opts = append(opts, "list", "list", "list")
			}
			if strings.HasSuffix(kinds, "I") {
				opts = append(opts, "ty", "ty")
			}
			if kinds == "" || kinds == "P" {
				if s.IsLeaf(gqlName(s, basen)) || basen == "string" || basen == "int" || basen == "bool" || basen == "Boom" {
					opts = append(opts, "val")
				}
			}
			switch k := opts[r.Intn(len(opts))]; k {
			case "list":
				n := []int{0, 1, 1, 3}[r.Intn(4)]
				plan[ev.P] = ur.Outcome{K: "list", N: n}
				fillElems(s, plan, ev.P, kinds[1:], basen, n, r, intensity)
			case "ty":
				poss := s.Types[gqlName(s, basen)].Possible
				if rogueOn && r.Intn(4) == 0 {
					plan[ev.P] = ur.Outcome{K: "obj", Ty: "Rogue"}
				} else if len(poss) > 0 {
					plan[ev.P] = ur.Outcome{K: "obj", Ty: poss[r.Intn(len(poss))]}
				}
			case "val":
				vb := basen
				if basen == "Boom" && m.HTTP {
					vb = "Boom!"
				}
				plan[ev.P] = ur.Outcome{K: "val", V: valFor(vb, r)}
			case "err":
				o := ur.Outcome{K: "err"}
				if m.Sentinel && r.Intn(3) == 0 {
					o.V = "sentinel"
				}
				plan[ev.P] = o
			default:
				plan[ev.P] = ur.Outcome{K: k}
			}
		} else if strings.HasPrefix(kinds, "S") && r.Intn(3) == 0 {
			// keep the default length but vary elements
			fillElems(s, plan, ev.P, kinds[1:], basen, 2, r, intensity)
		}
		// struct-bound (plain) fields below an object result
		if o, ok := plan[ev.P]; !ok || o.K == "obj" || o.K == "list" {
			tn := gqlName(s, basen)
			if o.Ty != "" {
				tn = o.Ty
			}
			if strings.Count(kinds, "S") == 0 {
				plainFields(s, plan, ev.P, tn, r, intensity, 2)
			}
		}
	}
	return plan, dplan
}

func gqlName(s *SchemaJ, goName string) string {
	for n := range s.Types {
		if strings.EqualFold(n, goName) {
			return n
		}
	}
	switch goName {
	case "string":
		return "String"
	case "int":
		return "Int"
	case "bool":
		return "Boolean"
	}
	return goName
}

func valFor(base string, r *rand.Rand) string {
	switch base {
	case "int":
		return fmt.Sprint(r.Intn(2000) - 1000)
	case "bool":
		return []string{"true", "false"}[r.Intn(2)]
	case "Color":
		return []string{"RED", "GREEN", "BLUE"}[r.Intn(3)]
	case "Boom!":
		return []string{"ok", "panic", "panic"}[r.Intn(3)]
	case "Boom":
		return "fine"
	}
	return []string{"x", "", "a\"b", "ünï", "line\nbreak", "\\"}[r.Intn(6)]
}

func fillElems(s *SchemaJ, plan map[string]ur.Outcome, p, kinds, base string, n int, r *rand.Rand, intensity int) {
	for i := 0; i < n; i++ {
		ep := fmt.Sprintf("%s.%d", p, i)
		if strings.HasPrefix(kinds, "S") {
			if r.Intn(100) < intensity {
				m := r.Intn(3)
				plan[ep] = ur.Outcome{K: "list", N: m}
				fillElems(s, plan, ep, kinds[1:], base, m, r, intensity)
			} else {
				fillElems(s, plan, ep, kinds[1:], base, 2, r, intensity)
			}
			continue
		}
		if kinds != "" && r.Intn(100) < intensity {
			plan[ep] = ur.Outcome{K: "null"}
			continue
		}
		tn := gqlName(s, base)
		if strings.HasSuffix(kinds, "I") {
			poss := s.Types[tn].Possible
			if rogueOn && r.Intn(6) == 0 {
				plan[ep] = ur.Outcome{K: "obj", Ty: "Rogue"}
				continue
			}
			if len(poss) > 0 && r.Intn(2) == 0 {
				tn = poss[r.Intn(len(poss))]
				plan[ep] = ur.Outcome{K: "obj", Ty: tn}
			} else if len(poss) > 0 {
				tn = poss[0]
			}
		}
		plainFields(s, plan, ep, tn, r, intensity, 1)
	}
}

// rogueOn: plans may put a value that is no type of the schema (probe type Rogue) at abstract positions.
var rogueOn bool

// boomPanics: plans may make the custom scalar Boom panic while being marshalled (HTTP mode only).
var boomPanics bool

// plainFields assigns outcomes to struct-bound fields (value paths) of object type tn.
func plainFields(s *SchemaJ, plan map[string]ur.Outcome, vp, tn string, r *rand.Rand, intensity, depth int) {
	t, ok := s.Types[tn]
	if !ok || t.Kind != "OBJECT" {
		return
	}
	names := make([]string, 0, len(t.Fields))
	for n := range t.Fields {
		names = append(names, n)
	}
	sort.Strings(names)
	for _, fn := range names {
		f := t.Fields[fn]
		if f.Res {
			continue
		}
		fp := vp + "." + fn
		nn := len(f.Wrap) > 0 && f.Wrap[0] == "N"
		if r.Intn(100) >= intensity/2+5 {
			continue
		}
		isList := false
		for _, w := range f.Wrap {
			if w == "L" {
				isList = true
			}
		}
		switch {
		case !nn && r.Intn(2) == 0:
			plan[fp] = ur.Outcome{K: "null"}
		case isList:
			n := r.Intn(4)
			plan[fp] = ur.Outcome{K: "list", N: n}
			for i := 0; i < n; i++ {
				if r.Intn(4) == 0 {
					plan[fmt.Sprintf("%s.%d", fp, i)] = ur.Outcome{K: "null"}
				} else if depth > 0 {
					plainFields(s, plan, fmt.Sprintf("%s.%d", fp, i), f.Name, r, intensity, depth-1)
				}
			}
		case s.IsLeaf(f.Name):
			switch f.Name {
			case "Int":
				plan[fp] = ur.Outcome{K: "val", V: fmt.Sprint(r.Intn(100))}
			case "Boolean":
				plan[fp] = ur.Outcome{K: "val", V: []string{"true", "false"}[r.Intn(2)]}
			case "String", "ID":
				plan[fp] = ur.Outcome{K: "val", V: valFor("string", r)}
			case "Boom":
				if boomPanics {
					plan[fp] = ur.Outcome{K: "val", V: valFor("Boom!", r)}
				}
			default:
				if s.Types[f.Name].Kind == "ENUM" {
					plan[fp] = ur.Outcome{K: "val", V: valFor(f.Name, r)}
				}
			}
		default:
			if depth > 0 {
				plainFields(s, plan, fp, f.Name, r, intensity, depth-1)
			}
		}
	}
}

// Inapplicable reports whether the probe said the plan asked for a value the
// bound Go type cannot express (e.g. null element of []A under
// omit_slice_element_pointers): such a scenario is skipped for that variant.
func Inapplicable(r *ur.Result) bool {
	if r == nil {
		return false
	}
	for _, n := range r.Notes {
		if strings.HasPrefix(n, "inapplicable:") {
			return true
		}
	}
	return false
}

// ExecConformance is the shared pipeline of C01/C04/C06: random operations,
// plans derived from a fault-free baseline, execution on every generated
// variant, TLC trace validation against the property-level module, and
// cross-variant response equality.
func ExecConformance(c *Check, prop string, bins map[string]string, vs []Variant, r *rand.Rand, nOps int, m ExecMode) {
	if c.Violations() >= 20 {
		return // an earlier pass already settled the verdict
	}
	if m.Module == "" {
		m.Module, m.Config = "GqlExecTrace", "GqlExecTrace.cfg"
	}
	if m.Lines == nil {
		m.Lines = TraceLines
	}
	boomPanics = m.HTTP
	rogueOn = m.Rogue
	c.SetDefault("rule", "a case = (operation, outcome plan, directive/interceptor plan, schedule, transport) executed on one generated configuration and validated by TLC as one trace; operations are generated at random from the probe schema (depth 1-3, fragments, type conditions, @skip/@include, aliases, operation-side directives"+
		", @defer where the property is about it) plus the hand-written corpora; plans are derived from the positions the fault-free baseline run visited. distinct_nontrivial counts distinct classes = (operation kind, multiset of outcome kinds in the plan, schedule kind) of cases with a non-empty plan; fault-free cases and repeats of a class are not counted")
	c.SetDefault("trusted_base", []string{"TLC and the Json community module", "the universal resolver (values built by reflection from the plan)", "the JSON -> tagged-tree projection of responses", "error messages are abstracted to classes (err / panic / dir / int / nonnull / ctx)"})
	c.SetDefault("explanation", "cases_* count executed and TLC-validated cases by dimension; every case runs on every generated configuration listed in configurations")
	cfgIDs := []string{}
	for _, v := range vs {
		cfgIDs = append(cfgIDs, fmt.Sprintf("%s(follow_schema=%v,func_syntax=%v,worker_limit=%d,custom_roots=%v,opts=%v)", v.ID(), v.FollowSchema, v.FuncSyntax, v.WorkerLimit, v.CustomRoots, v.Opts))
	}
	c.SetDefault("configurations", cfgIDs)
	if m.PlansPer == 0 {
		m.PlansPer = 4
	}
	if m.Procs == 0 {
		m.Procs = 12
	}
	first := bins[vs[0].ID()]
	schema, schemaRaw, err := FetchSchema(first)
	if err != nil {
		Infra("schema: %v", err)
	}
	if rp := os.Getenv("VERIF_REPLAY"); rp != "" {
		replayOne(c, prop, bins, vs, schemaRaw, m, rp)
		return
	}
	// 1. operations + fault-free baselines
	var base []*Scenario
	for i := 0; i < nOps; i++ {
		kind := "query"
		if m.Mutations && i%4 == 3 {
			kind = "mutation"
		}
		if m.Subs {
			kind = "subscription"
		}
		op := GenOp(schema, r, GenOpts{Depth: 1 + r.Intn(3), MaxFields: 2 + r.Intn(4), Skip: true, Frags: true, Kind: kind, ArgFaults: m.ArgFaults, QDirs: true,
			Defer: m.Defer, Avoid: []string{"withArgs", "argd", "arg", "mat"}})
		q := op.Render()
		base = append(base, &Scenario{ID: fmt.Sprintf("%s-op%d", prop, i), Op: op, Query: q, Vars: op.Vars, Variant: vs[0].ID()})
	}
	var scripted []*Scenario
	for _, cs := range m.Corpus {
		if cs.Sched != "" {
			scripted = append(scripted, cs)
		} else {
			cp := *cs
			cp.Variant = vs[0].ID()
			base = append(base, &cp)
		}
	}
	if m.HTTP {
		for _, b := range base {
			b.Mode = "http"
		}
	}
	if err := RunScenarios(first, base, m.Procs, m.Env); err != nil {
		Infra("run baseline: %v", err)
	}
	// 2. derive plans
	var templ []*Scenario
	for _, b := range base {
		if b.Result == nil && strings.Contains(b.Stderr, "DATA RACE") {
			c.Violate("data-race", "race detector report executing fault-free "+b.Query+"\n"+trunc(b.Stderr, 3000), b)
			continue
		}
		if b.Result == nil {
			c.Violate("crash-baseline", "probe crashed on fault-free operation: "+b.Query+"\n"+tail(b.Stderr, 1500), b)
			continue
		}
		if len(b.Result.GateErrs) > 0 {
			// the generator produced an operation the validator rejects: generator bug, not a finding
			Infra("generated operation rejected by validation: %s: %v", b.Query, b.Result.GateErrs)
		}
		templ = append(templ, b)
		for k := 0; k < m.PlansPer; k++ {
			intensity := []int{10, 25, 50, 15}[k%4]
			if !m.Faults && !m.Panics && !m.DirFaults {
				break
			}
			plan, dplan := derivePlan(schema, b.Result, r, m, intensity)
			sc := &Scenario{ID: fmt.Sprintf("%s-p%d", b.ID, k), Op: b.Op, Query: b.Query, Vars: b.Vars, Plan: plan, DirPlan: dplan}
			if m.HTTP {
				sc.Mode = "http"
			}
			templ = append(templ, sc)
		}
	}
	templ = append(templ, scripted...)
	if m.Scheds {
		var more []*Scenario
		for _, t := range templ {
			if t.Sched != "" {
				continue
			}
			for _, sch := range []string{"lifo", "fifo", fmt.Sprintf("rand:%d", r.Intn(1000))} {
				cp := *t
				cp.ID = t.ID + "-" + strings.ReplaceAll(sch, ":", "")
				cp.Sched = sch
				cp.Result = nil
				more = append(more, &cp)
			}
		}
		templ = append(templ, more...)
	}
	// 3. run on every variant, validate, compare across variants
	type key struct{ id string }
	respOf := map[string]map[string]string{} // scenario id -> variant -> canonical response
	for vi, v := range vs {
		if c.Violations() >= 20 {
			break // the tree is broken beyond doubt; further configurations add nothing to the verdict
		}
		var scs []*Scenario
		for _, t := range templ {
			cp := *t
			cp.Variant = v.ID()
			cp.Result = nil
			scs = append(scs, &cp)
		}
		if len(m.Transports) > 0 {
			every := m.TransportEvery
			if every < 1 {
				every = 1
			}
			n := len(scs)
			for i := 0; i < n; i += every {
				tp := m.Transports[(i/every)%len(m.Transports)]
				cp := *scs[i]
				cp.ID += "-" + strings.ReplaceAll(tp, ":", "")
				cp.Mode, cp.ParseTP = tp, true
				scs = append(scs, &cp)
			}
		}
		if err := RunScenarios(bins[v.ID()], scs, m.Procs, m.Env); err != nil {
			Infra("run %s: %v", v.ID(), err)
		}
		var ok []*Scenario
		for _, s := range scs {
			c.AddEvals(1)
			if s.Crashed && strings.Contains(s.Stderr, "DATA RACE") {
				c.Violate("data-race", fmt.Sprintf("race detector report on %s executing %s sched=%s\n%s", v.ID(), s.Query, s.Sched, trunc(s.Stderr, 3000)), s)
				continue
			}
			if s.Crashed || s.Result == nil {
				c.Violate("process-crash"+faultSuffix(s), fmt.Sprintf("probe server %s died executing %s plan=%v dirplan=%v\n%s", v.ID(), s.Query, s.Plan, s.DirPlan, tail(s.Stderr, 2000)), s)
				continue
			}
			if len(s.Result.Resps) == 0 && !s.Result.Hung {
				c.Violate("no-response"+faultSuffix(s), fmt.Sprintf("operation produced no response on %s (a panic escaped the executor?): %s plan=%v dirplan=%v notes=%v", v.ID(), s.Query, s.Plan, s.DirPlan, s.Result.Notes), s)
				continue
			}
			if s.Result.Hung {
				if c.Violations() >= 6 {
					continue // enough confirmed evidence; each confirmation of a hang costs ~1 min
				}
				if s2 := Confirm(bins[v.ID()], s, m.Env); s2.Result != nil && !s2.Result.Hung {
					continue // slow, not stuck
				}
				c.Violate("hang", fmt.Sprintf("operation did not return on %s: %s\n%s", v.ID(), s.Query, trunc(s.Result.LeakStack, 1500)), s)
				continue
			}
			if Inapplicable(s.Result) {
				continue
			}
			if s.Result.BadJSON != "" {
				c.Violate("invalid-json", "response data is not valid JSON: "+trunc(s.Result.BadJSON, 400), s)
				continue
			}
			ok = append(ok, s)
			if len(s.Plan)+len(s.DirPlan) > 0 {
				c.Class(classOf(s))
			}
			countScenario(c, s)
			if respOf[s.ID] == nil {
				respOf[s.ID] = map[string]string{}
			}
			respOf[s.ID][v.ID()] = canonResp(s.Result)
		}
		// the schema the specification reads is the one of THIS variant (root names may differ)
		vSchemaRaw := schemaRaw
		if v.CustomRoots {
			if _, raw, err := FetchSchema(bins[v.ID()]); err == nil {
				vSchemaRaw = raw
			} else {
				Infra("schema of %s: %v", v.ID(), err)
			}
		}
		rej, err := ValidateBatch(c, m.Module, m.Config, vSchemaRaw, ok, m.Lines, Work(prop, "tlc-"+v.ID()))
		if err != nil {
			Infra("trace validation (%s): %v", v.ID(), err)
		}
		judgeRejections(c, prop, v.ID(), m, vSchemaRaw, rej)
		if len(ok) > 0 {
			start := (len(ok) / 2) + 7*vi
			if start >= len(ok) {
				start = len(ok) / 2
			}
			s := ok[start]
			skip := vi // a different case per configuration
			for _, cand := range ok[start:] {
				if len(cand.Plan) > 0 && len(cand.Query) < 400 {
					s = cand
					if skip == 0 {
						break
					}
					skip--
				}
			}
			c.Sample(map[string]any{"variant": v.ID(), "query": s.Query, "plan": s.Plan, "dirplan": s.DirPlan, "sched": s.Sched, "events": len(s.Result.Events)})
		}
	}
	// the statement's last clause: identical for every layout and code-style option
	ids := make([]string, 0, len(respOf))
	for id := range respOf {
		ids = append(ids, id)
	}
	sort.Strings(ids)
	for _, id := range ids {
		byV := respOf[id]
		var ref, refV string
		for _, v := range vs {
			if s, ok := byV[v.ID()]; ok {
				if ref == "" {
					ref, refV = s, v.ID()
				} else if s != ref {
					c.Violate("variant-divergence", fmt.Sprintf("scenario %s: response of %s differs from %s\n%s\nvs\n%s", id, v.ID(), refV, trunc(s, 600), trunc(ref, 600)), map[string]any{"id": id})
				}
			}
		}
	}
}

// judgeRejections names and records the traces the property-level configuration rejected.
func judgeRejections(c *Check, prop, vid string, m ExecMode, vSchemaRaw []byte, rej []Rejection) {
	// a rejected trace is re-validated under the deviation-tolerant configurations in
	// order: the first one that accepts it NAMES the violation (a known finding's key, or
	// the class of the last rejection); the verdict - rejected by the property - stands
	steps := m.Devs
	if len(steps) == 0 && m.DevConfig != "" {
		steps = []DevStep{{Config: m.DevConfig}}
	}
	classify := func(rj Rejection) string {
		if m.Classify != nil {
			return m.Classify(rj)
		}
		return RejectKey(rj)
	}
	last := map[*Scenario]Rejection{}
	var remaining []*Scenario
	for _, rj := range rej {
		last[rj.Scenario] = rj
		remaining = append(remaining, rj.Scenario)
	}
	for si, st := range steps {
		if len(remaining) == 0 {
			break
		}
		rej2, err := ValidateBatch(c, m.Module, st.Config, vSchemaRaw, remaining, m.Lines, Work(prop, fmt.Sprintf("tlcdev%d-%s", si, vid)))
		if err != nil {
			Infra("trace validation, deviation config %s (%s): %v", st.Config, vid, err)
		}
		still := map[*Scenario]bool{}
		for _, rj := range rej2 {
			still[rj.Scenario] = true
		}
		var next []*Scenario
		for _, sc := range remaining {
			if still[sc] {
				next = append(next, sc)
				continue
			}
			key := st.Key
			if key == "" {
				key = classify(last[sc])
			}
			c.Violate(key, last[sc].Describe()+"\n  (accepted with the named deviation of "+st.Config+")", sc)
		}
		for _, rj := range rej2 {
			last[rj.Scenario] = rj
		}
		remaining = next
	}
	for _, sc := range remaining {
		c.Violate(classify(last[sc]), last[sc].Describe(), sc)
		if len(steps) > 0 {
			c.Violate("beyond-known-deviation:"+RejectKey(last[sc]), last[sc].Describe(), sc)
		}
	}
}

// replayOne re-executes the scenario stored in a replay file (written by
// Check.Violate) on its variant and validates the fresh trace.
func replayOne(c *Check, prop string, bins map[string]string, vs []Variant, schemaRaw []byte, m ExecMode, path string) {
	b, err := os.ReadFile(path)
	if err != nil {
		Infra("replay file: %v", err)
	}
	var rec struct {
		Key      string    `json:"key"`
		Scenario *Scenario `json:"scenario"`
	}
	if err := json.Unmarshal(b, &rec); err != nil || rec.Scenario == nil || rec.Scenario.Query == "" {
		Infra("replay file %s does not hold an executor scenario", path)
	}
	s := rec.Scenario
	s.Result, s.Crashed, s.Stderr = nil, false, ""
	bin, ok := bins[s.Variant]
	if !ok {
		bin, s.Variant = bins[vs[0].ID()], vs[0].ID()
	}
	if err := RunScenarios(bin, []*Scenario{s}, 1, m.Env); err != nil {
		Infra("replay run: %v", err)
	}
	c.AddEvals(1)
	c.Class("replay")
	c.Class("replay:" + rec.Key)
	c.Sample(map[string]any{"replay": path, "query": s.Query, "variant": s.Variant})
	switch {
	case s.Crashed || s.Result == nil:
		c.Violate("process-crash"+faultSuffix(s), "probe died on replay\n"+tail(s.Stderr, 2000), s)
	case s.Result.Hung:
		c.Violate("hang", "operation did not return on replay", s)
	case len(s.Result.Resps) == 0:
		c.Violate("no-response"+faultSuffix(s), "no response on replay", s)
	default:
		rej, err := ValidateBatch(c, m.Module, m.Config, schemaRaw, []*Scenario{s}, m.Lines, Work(prop, "replay"))
		if err != nil {
			Infra("replay validation: %v", err)
		}
		judgeRejections(c, prop, "replay", m, schemaRaw, rej)
	}
}

// MergeCorpus: hand-written operations in which one response key is selected several times
// with different sub-selections through type-conditioned fragments, in lists of mixed
// concrete types - the situations in which sharing (instead of copying) selection slices
// or field sets between list elements shows up. Each comes ungated (plans are derived) and
// gated (the elements collect their fields before any of them resolves the merged key).
func MergeCorpus(prefix string) []*Scenario {
	mixed := map[string]ur.Outcome{
		"nodes": {K: "list", N: 3}, "nodes.0": {K: "obj", Ty: "A"}, "nodes.1": {K: "obj", Ty: "B"}, "nodes.2": {K: "obj", Ty: "A"},
		"us": {K: "list", N: 2}, "us.0": {K: "obj", Ty: "B"}, "us.1": {K: "obj", Ty: "A"},
	}
	qs := []string{
		`{ nodes { peer { id name __typename } ... on A { peer { ... on A { s } ... on B { bs } } } ... on B { peer { ... on B { bsn } ... on A { sn } } } } }`,
		`{ nodes { id peer { id name __typename ... on Named { tag } id2: id } ... on Named { peer { n2: name } } ... on B { peer { bonly: __typename } } ... on A { peer { ... on Node { x: id } } } } }`,
		`{ us { ... on Node { peer { id name tag: __typename } } ... on A { peer { ... on A { kid { id } } } } ... on B { peer { ... on B { a { id } } } } } nodes { peer { id } peer { name } } }`,
		`{ as { kid { id name tag plainn num } kid { s } ... on A { kid { sn } } } asn { kids { id name tag } ... on A { kids { s } } kids { sn } } }`,
	}
	var out []*Scenario
	for i, q := range qs {
		base := CorpusScenario(fmt.Sprintf("%s-merge%d", prefix, i), q, nil)
		base.Plan = mixed
		out = append(out, base)
		for _, sch := range []string{"lifo", "fifo"} {
			g := CorpusScenario(fmt.Sprintf("%s-merge%d-%s", prefix, i, sch), q, nil)
			g.Plan = mixed
			g.Sched = sch
			out = append(out, g)
		}
	}
	return out
}

// StressCorpus: objects (in a list and single) whose many concurrently resolved fields -
// several of them non-null - all fail. Run ungated many times (races between a field
// reporting its error and its siblings doing the same) and gated (the first-selected field
// completes first / last). The reference demands exactly one error per failing field.
func StressCorpus(prefix string, reps int) []*Scenario {
	q := `{ as { sn guardedn kidn { id } s kid { id } b { bsn } } an { sn guardedn kidn { id } s } }`
	plan := map[string]ur.Outcome{"as": {K: "list", N: 3}}
	for _, p := range []string{"as.0", "as.1", "as.2", "an"} {
		for _, f := range []string{"sn", "guardedn", "kidn", "s", "kid"} {
			if p == "an" && f == "kid" {
				continue
			}
			plan[p+"."+f] = ur.Outcome{K: "err"}
		}
	}
	plan["as.1.b"] = ur.Outcome{K: "panic"}
	var out []*Scenario
	for i := 0; i < reps; i++ {
		sc := CorpusScenario(fmt.Sprintf("%s-stress%d", prefix, i), q, nil)
		sc.Plan = plan
		switch i % 8 {
		case 5:
			sc.Sched = "fifo"
		case 6:
			sc.Sched = "lifo"
		case 7:
			sc.Sched = fmt.Sprintf("rand:%d", i)
		default:
			sc.Sched = "free" // ungated, but not subject to plan derivation
		}
		out = append(out, sc)
	}
	return out
}

// faultSuffix names the fault kinds of a plan that known findings are keyed by.
func faultSuffix(s *Scenario) string {
	for k, h := range s.DirPlan {
		if strings.HasSuffix(k, "@#r") && h == "panic" {
			return ":root-field-interceptor-panic"
		}
	}
	return ""
}

func classOf(s *Scenario) string {
	// a case class = the multiset of outcome kinds in the plan + schedule kind
	cnt := map[string]int{}
	for _, o := range s.Plan {
		cnt[o.K]++
	}
	for _, h := range s.DirPlan {
		cnt["dir-"+h]++
	}
	ks := make([]string, 0, len(cnt))
	for k, n := range cnt {
		ks = append(ks, fmt.Sprintf("%s%d", k, n))
	}
	sort.Strings(ks)
	sk := s.Sched
	if strings.HasPrefix(sk, "rand") {
		sk = "rand"
	}
	return s.Op.Kind + "|" + strings.Join(ks, ",") + "|" + sk
}

func canonResp(r *ur.Result) string {
	type cr struct {
		Data any      `json:"d"`
		Errs []string `json:"e"`
	}
	var out []cr
	for _, rs := range r.Resps {
		es := []string{}
		for _, e := range rs.Errs {
			es = append(es, e.P+"/"+e.C)
		}
		sort.Strings(es)
		out = append(out, cr{rs.Data, es})
	}
	// incremental payloads may arrive in any order: compare them as a set
	if len(out) > 2 {
		rest := out[1:]
		keys := make([]string, len(rest))
		for i := range rest {
			kb, _ := json.Marshal(rest[i])
			keys[i] = r.Resps[i+1].Path + "|" + r.Resps[i+1].Label + "|" + string(kb)
		}
		idx := make([]int, len(rest))
		for i := range idx {
			idx[i] = i
		}
		sort.Slice(idx, func(a, b int) bool { return keys[idx[a]] < keys[idx[b]] })
		sorted := make([]cr, len(rest))
		for i, j := range idx {
			sorted[i] = rest[j]
		}
		copy(out[1:], sorted)
	}
	b, _ := json.Marshal(out)
	res := string(b)
	for _, r := range []string{"Query", "Mutation", "Subscription"} {
		res = strings.ReplaceAll(res, `"Root`+r+`"`, `"`+r+`"`)
	}
	return res
}

// RejectKey classifies a rejected trace for known-findings matching.
func RejectKey(rj Rejection) string {
	var ev struct {
		E string `json:"e"`
	}
	_ = json.Unmarshal([]byte(rj.Line), &ev)
	feat := opFeatures(rj.Scenario)
	return "trace-rejected:" + ev.E + ":" + feat
}

// opFeatures names structural features of the operation that known findings are keyed by.
func opFeatures(s *Scenario) string {
	var fs []string
	if s.Op != nil && skippedSpreadThenSpread(s.Op) {
		fs = append(fs, "respread-after-skipped-spread")
	}
	return strings.Join(fs, "+")
}

func skippedSpreadThenSpread(op *Op) bool {
	var walk func(sels []*Sel, seen map[string]bool) bool
	walk = func(sels []*Sel, seen map[string]bool) bool {
		for _, s := range sels {
			switch s.K {
			case "spread":
				if seen[s.Name] {
					return true
				}
				if s.Skip || !s.Incl {
					seen[s.Name] = true
				}
			case "inline":
				if walk(s.Sels, seen) {
					return true
				}
			case "field":
				if walk(s.Sels, map[string]bool{}) {
					return true
				}
			}
		}
		return false
	}
	if walk(op.Sels, map[string]bool{}) {
		return true
	}
	for _, f := range op.Frags {
		if walk(f.Sels, map[string]bool{}) {
			return true
		}
	}
	return false
}

// SkipIncludeCorpus: both @skip and @include on one node (field, inline fragment, fragment
// spread), in both textual orders, for all four truth combinations, as literals and as
// variables: the node is selected iff @include is true AND @skip is false, whatever the order.
func SkipIncludeCorpus(prefix string) []*Scenario {
	lit := func(b bool) string { return fmt.Sprint(b) }
	vr := func(b bool) string {
		if b {
			return "$t"
		}
		return "$f"
	}
	var out []*Scenario
	for si, src := range []func(bool) string{lit, vr} {
		var fields, frags []string
		n := 0
		for _, inc := range []bool{true, false} {
			for _, skp := range []bool{true, false} {
				for _, incFirst := range []bool{true, false} {
					d := fmt.Sprintf("@skip(if: %s) @include(if: %s)", src(skp), src(inc))
					if incFirst {
						d = fmt.Sprintf("@include(if: %s) @skip(if: %s)", src(inc), src(skp))
					}
					n++
					fields = append(fields, fmt.Sprintf("f%d: s %s", n, d))
					fields = append(fields, fmt.Sprintf("... %s { i%d: s }", d, n))
					fields = append(fields, fmt.Sprintf("...F%d %s", n, d))
					frags = append(frags, fmt.Sprintf("fragment F%d on A { s%d: s }", n, n))
				}
			}
		}
		head, vars := "query", map[string]any(nil)
		if si == 1 {
			head, vars = "query($t: Boolean!, $f: Boolean!)", map[string]any{"t": true, "f": false}
		}
		q := head + " { a { id " + strings.Join(fields, " ") + " } } " + strings.Join(frags, " ")
		out = append(out, CorpusScenario(fmt.Sprintf("%s-skipincl%d", prefix, si), q, vars))
	}
	return out
}

// VarShareCorpus: one input-object variable (with a field left to its schema default and a
// nested input object) used by many concurrently resolved fields: the argument maps built
// from it must not alias the operation's variables (a race on OperationContext.Variables).
func VarShareCorpus(prefix string, reps int) []*Scenario {
	q := `query($v: In) { w1: withArgs(in: $v) w2: withArgs(in: $v, y: "y") w3: withArgs(in: $v) w4: withArgs(x: 1, in: $v) w5: withArgs(in: $v) w6: withArgs(in: $v) as { id } }`
	var out []*Scenario
	for i := 0; i < reps; i++ {
		sc := CorpusScenario(fmt.Sprintf("%s-varshare%d", prefix, i), q,
			map[string]any{"v": map[string]any{"n": map[string]any{"n": map[string]any{}}}}) // no numbers: JSON would hand the executor float64
		sc.Sched = "free"
		if i%4 == 3 {
			sc.Sched = "lifo"
		}
		out = append(out, sc)
	}
	return out
}

// countScenario records the dimensions of one executed, validated case in the evidence.
func countScenario(c *Check, s *Scenario) {
	mode := s.Mode
	if mode == "" {
		mode = "executor"
	}
	c.Inc("cases_transport_"+strings.ReplaceAll(mode, ":", "_"), 1)
	sk := s.Sched
	if strings.HasPrefix(sk, "rand") {
		sk = "rand"
	}
	if sk == "" {
		sk = "unscheduled"
	}
	c.Inc("cases_schedule_"+sk, 1)
	if s.Op != nil {
		c.Inc("cases_kind_"+s.Op.Kind, 1)
	}
	if strings.Contains(s.Query, "@defer") {
		c.Inc("cases_with_defer", 1)
	}
	for _, o := range s.Plan {
		k := o.K
		if o.Ty == "Rogue" {
			k = "rogue_type"
		} else if o.K == "err" && o.V == "sentinel" {
			k = "err_shared_sentinel"
		}
		c.Inc("planned_outcomes_"+k, 1)
	}
	for key, h := range s.DirPlan {
		site := "schema_directive"
		switch {
		case strings.HasSuffix(key, "@#f"):
			site = "field_interceptor"
		case strings.HasSuffix(key, "@#r"):
			site = "root_field_interceptor"
		case strings.Contains(key, "@q"):
			site = "operation_directive"
		}
		c.Inc("planned_"+site+"_"+h, 1)
	}
	if s.Result != nil {
		c.Inc("resolver_events_validated", int64(len(s.Result.Events)))
		c.Inc("payloads_validated", int64(len(s.Result.Resps)))
	}
}

// ArgFaultCorpus: the probe's failing input unmarshaler (scalar Boom: "err" fails, "panic"
// panics while the field's arguments are decoded) at root query fields next to concurrent
// siblings, twice in one operation, as a variable, and at the serial root fields of a mutation.
func ArgFaultCorpus(prefix string) []*Scenario {
	qs := []string{
		`{ x: boomArg(b: "panic") s as { id } }`,
		`{ x: boomArg(b: "err") s sn }`,
		`{ x: boomArg(b: "panic") y: boomArg(b: "err") z: boomArg(b: "fine") a { id s } }`,
		`query($b: Boom) { x: boomArg(b: $b) s }`,
		`{ a { id } x: boomArg(b: "panic") y: boomArg(b: "panic") as { s } }`,
	}
	var out []*Scenario
	for i, q := range qs {
		var vars map[string]any
		if strings.Contains(q, "$b") {
			vars = map[string]any{"b": "panic"}
		}
		out = append(out, CorpusScenario(fmt.Sprintf("%s-argfault%d", prefix, i), q, vars))
	}
	return out
}
