package vlib

import (
	"bytes"
	"encoding/json"
	"fmt"
	"os"
	"path/filepath"
	"strings"
	"sync"
	"time"

	"verifharness/ur"
)

// Scenario is one operation + plan (+ schedule) to execute on a probe server.
type Scenario struct {
	ID         string                `json:"id"`
	Variant    string                `json:"variant"`
	Op         *Op                   `json:"op"`
	Query      string                `json:"query"`
	Vars       map[string]any        `json:"vars"`
	Plan       map[string]ur.Outcome `json:"plan"`
	DirPlan    map[string]string     `json:"dirplan"`
	Sched      string                `json:"sched"`
	Order      []string              `json:"order"`
	Cancel     int                   `json:"cancel_at"`
	Mode       string                `json:"mode"`
	Leak       bool                  `json:"leak_check"`
	Note       string                `json:"note"`
	TimeoutMs  int                   `json:"timeout_ms,omitempty"`
	LeakWaitMs int                   `json:"leak_wait_ms,omitempty"`
	ParseTP    bool                  `json:"parse_tp,omitempty"`
	Result     *ur.Result            `json:"result,omitempty"`
	Crashed    bool                  `json:"crashed,omitempty"`
	Stderr     string                `json:"stderr,omitempty"`
}

func (s *Scenario) cmd() *ur.Cmd {
	return &ur.Cmd{Cmd: "exec", ID: s.ID, Query: s.Query, Vars: s.Vars, Plan: s.Plan, DirPlan: s.DirPlan,
		Sched: s.Sched, Order: s.Order, CancelAt: s.Cancel, Mode: s.Mode, LeakCheck: s.Leak,
		TimeoutMs: s.TimeoutMs, LeakWaitMs: s.LeakWaitMs, ParseTP: s.ParseTP}
}

// FetchSchema asks a probe binary for its schema JSON.
func FetchSchema(bin string) (*SchemaJ, []byte, error) {
	p, err := StartProc(bin, nil)
	if err != nil {
		return nil, nil, err
	}
	defer p.Close()
	if err := p.Send(map[string]string{"cmd": "schema"}); err != nil {
		return nil, nil, err
	}
	var raw json.RawMessage
	if err := p.Recv(&raw, 20*time.Second); err != nil {
		return nil, nil, fmt.Errorf("schema: %v (%s)", err, p.Stderr)
	}
	var s SchemaJ
	if err := json.Unmarshal(raw, &s); err != nil {
		return nil, nil, err
	}
	return &s, raw, nil
}

// RunScenarios executes scenarios on `procs` instances of the probe binary,
// one scenario in flight per process (so a crash or hang is attributed
// exactly). Results are stored in the scenarios.
func RunScenarios(bin string, scs []*Scenario, procs int, env []string) error {
	if procs < 1 {
		procs = 1
	}
	ch := make(chan *Scenario, len(scs))
	for _, s := range scs {
		ch <- s
	}
	close(ch)
	var wg sync.WaitGroup
	var mu sync.Mutex
	var firstErr error
	for i := 0; i < procs; i++ {
		wg.Add(1)
		go func() {
			defer wg.Done()
			p, err := StartProc(bin, env)
			if err != nil {
				mu.Lock()
				firstErr = err
				mu.Unlock()
				return
			}
			defer p.Close()
			for s := range ch {
				if p.Died {
					if err := p.Restart(); err != nil {
						mu.Lock()
						firstErr = err
						mu.Unlock()
						return
					}
				}
				if err := p.Send(s.cmd()); err != nil {
					s.Crashed = true
					s.Stderr = p.Stderr
					p.Died = true
					continue
				}
				var r ur.Result
				rt := 30 * time.Second
				if s.TimeoutMs > 0 {
					rt += time.Duration(s.TimeoutMs+s.LeakWaitMs) * time.Millisecond
				}
				if err := p.Recv(&r, rt); err != nil {
					s.Crashed = true
					s.Stderr = p.Stderr
					if !p.Died {
						p.Kill()
					}
					continue
				}
				s.Result = &r
				if r.Hung || r.Dirty {
					// the probe exits by itself after reporting a hang / an escaped panic
					p.Kill()
				}
			}
		}()
	}
	wg.Wait()
	return firstErr
}

// TraceLines renders the GqlExecTrace events of one executed scenario.
// kind selects the payload form: "single" expects exactly one response.
func TraceLines(s *Scenario) [][]byte {
	var out [][]byte
	add := func(v any) {
		b, _ := json.Marshal(v)
		out = append(out, b)
	}
	plan := map[string]ur.Outcome{}
	for k, v := range s.Plan {
		plan[k] = v
	}
	dp := map[string]string{}
	for k, v := range s.DirPlan {
		dp[k] = v
	}
	add(map[string]any{"e": "Scenario", "id": s.ID, "op": s.Op, "plan": plan, "dirplan": dp})
	if s.Result == nil {
		return out
	}
	for _, ev := range s.Result.Events {
		switch ev.E {
		case "Start":
			if len(ev.CF) > 0 {
				add(map[string]any{"e": ev.E, "p": ev.P, "cf": ev.CF})
			} else {
				add(map[string]any{"e": ev.E, "p": ev.P})
			}
		case "End":
			add(map[string]any{"e": ev.E, "p": ev.P})
		case "Err":
			add(map[string]any{"e": "Err", "p": ev.P, "c": ev.T})
		case "Recover":
			add(map[string]any{"e": "Recover", "p": ev.P})
		}
	}
	for _, r := range s.Result.Resps {
		errs := []any{}
		for _, e := range r.Errs {
			errs = append(errs, map[string]any{"p": e.P, "c": e.C})
		}
		pseq := []string{}
		if r.Path != "" {
			pseq = strings.Split(r.Path, ".")
		}
		add(map[string]any{"e": "Respond", "data": r.Data, "errs": errs, "hasnext": r.HasNext, "path": r.Path, "pseq": pseq, "label": r.Label})
	}
	return out
}

// DeferTraceLines is TraceLines plus the end-of-payloads marker GqlDeferTrace expects.
func DeferTraceLines(s *Scenario) [][]byte {
	out := TraceLines(s)
	if s.Result != nil {
		out = append(out, []byte(`{"e":"Done"}`))
	}
	return out
}

// Rejection is a scenario whose trace the specification does not accept.
type Rejection struct {
	Scenario *Scenario
	Line     string // first line TLC could not consume
	LineNo   int
	Prefix   []string
}

// ValidateBatch checks the traces of all scenarios with TLC against
// module/config (a trace specification reading trace.ndjson and schema.json).
// Rejected scenarios are removed and the rest re-validated, so every trace is
// examined. Returns rejections; error = infrastructure failure.
func ValidateBatch(c *Check, module, cfg string, schemaRaw []byte, scs []*Scenario, lines func(*Scenario) [][]byte, scratch string) ([]Rejection, error) {
	return ValidateBatchWith(c, TLCOpts{Module: module, Config: cfg}, schemaRaw, scs, lines, scratch)
}

// ValidateBatchWith is ValidateBatch with explicit TLC options (e.g. CfgEdit for constants).
func ValidateBatchWith(c *Check, base TLCOpts, schemaRaw []byte, scs []*Scenario, lines func(*Scenario) [][]byte, scratch string) ([]Rejection, error) {
	// chunks are validated by parallel TLC processes (each -workers 1)
	const chunk = 160
	type res struct {
		rej []Rejection
		err error
	}
	n := (len(scs) + chunk - 1) / chunk
	out := make([]res, n)
	sem := make(chan struct{}, 6)
	var wg sync.WaitGroup
	for i := 0; i < n; i++ {
		lo, hi := i*chunk, (i+1)*chunk
		if hi > len(scs) {
			hi = len(scs)
		}
		wg.Add(1)
		go func(i int, part []*Scenario) {
			defer wg.Done()
			sem <- struct{}{}
			defer func() { <-sem }()
			r, err := validateChunk(c, base, schemaRaw, part, lines, filepath.Join(scratch, fmt.Sprintf("c%d", i)))
			out[i] = res{r, err}
		}(i, scs[lo:hi])
	}
	wg.Wait()
	var rej []Rejection
	for _, r := range out {
		if r.err != nil {
			return rej, r.err
		}
		rej = append(rej, r.rej...)
	}
	return rej, nil
}

func validateChunk(c *Check, base TLCOpts, schemaRaw []byte, scs []*Scenario, lines func(*Scenario) [][]byte, scratch string) ([]Rejection, error) {
	module := base.Module
	var rej []Rejection
	remaining := scs
	for round := 0; round < 80 && len(remaining) > 0; round++ {
		var buf bytes.Buffer
		owner := []int{} // line -> index in remaining
		var all []string
		for i, s := range remaining {
			for _, ln := range lines(s) {
				buf.Write(ln)
				buf.WriteByte('\n')
				owner = append(owner, i)
				all = append(all, string(ln))
			}
		}
		o := base
		o.Workers, o.DFS = 1, true
		o.Data = map[string][]byte{"trace.ndjson": buf.Bytes()}
		if schemaRaw != nil {
			o.Data["schema.json"] = schemaRaw
		}
		o.Scratch = filepath.Join(scratch, fmt.Sprintf("tv%d", round))
		o.Timeout = 20 * time.Minute
		res, err := RunTLC(o)
		if err != nil {
			return rej, err
		}
		c.AddStates(res.Distinct, res.Generated)
		if res.OK {
			c.AddTraces(int64(len(remaining)))
			return rej, nil
		}
		if res.RejectedAt == 0 || res.RejectedAt > len(owner) {
			return rej, fmt.Errorf("TLC failed without a trace rejection:\n%s", tail(res.Output, 3000))
		}
		idx := owner[res.RejectedAt-1]
		bad := remaining[idx]
		first := res.RejectedAt - 1
		for first > 0 && owner[first-1] == idx {
			first--
		}
		fmt.Fprintf(os.Stderr, "  [tlc] %s: rejected scenario %s at line %d (%d scenarios left)\n", module, bad.ID, res.RejectedAt-first, len(remaining)-idx-1)
		rej = append(rej, Rejection{Scenario: bad, Line: all[res.RejectedAt-1], LineNo: res.RejectedAt - first, Prefix: all[first : res.RejectedAt-1]})
		c.AddTraces(int64(idx))
		// everything before idx was accepted; continue with what follows
		remaining = remaining[idx+1:]
		if len(rej) >= 12 && len(remaining) > 0 {
			// a dozen rejections among 160 traces: the tree is broken beyond doubt; each further
			// rejection costs a TLC run. What is left unexamined is counted, not claimed.
			c.Inc("traces_not_examined_after_12_rejections_in_a_chunk", int64(len(remaining)))
			fmt.Fprintf(os.Stderr, "  [tlc] %s: 12 rejections in this chunk, %d traces left unexamined\n", module, len(remaining))
			break
		}
	}
	return rej, nil
}

func tail(s string, n int) string {
	if len(s) > n {
		return s[len(s)-n:]
	}
	return s
}

// Describe renders a rejection for a VIOLATION detail.
func (r Rejection) Describe() string {
	var sb strings.Builder
	fmt.Fprintf(&sb, "variant=%s query=%s\n", r.Scenario.Variant, r.Scenario.Query)
	pb, _ := json.Marshal(r.Scenario.Plan)
	fmt.Fprintf(&sb, "plan=%s dirplan=%v sched=%s\n", pb, r.Scenario.DirPlan, r.Scenario.Sched)
	fmt.Fprintf(&sb, "spec rejects trace line %d: %s\n", r.LineNo, trunc(r.Line, 1200))
	n := len(r.Prefix)
	if n > 12 {
		n = 12
	}
	fmt.Fprintf(&sb, "last accepted events: %s", strings.Join(truncAll(r.Prefix[len(r.Prefix)-n:], 160), " | "))
	return sb.String()
}

func trunc(s string, n int) string {
	if len(s) > n {
		return s[:n] + "..."
	}
	return s
}

func truncAll(ss []string, n int) []string {
	out := make([]string, len(ss))
	for i, s := range ss {
		out[i] = trunc(s, n)
	}
	return out
}

// Confirm re-runs a scenario whose verdict rests on the ABSENCE of progress
// (hang, surviving goroutines) alone in a fresh process with 10x the waits.
// Only a reproduced observation is reported; a slow machine is not a defect.
func Confirm(bin string, s *Scenario, env []string) *Scenario {
	cp := *s
	cp.Result, cp.Crashed, cp.Stderr = nil, false, ""
	cp.TimeoutMs = 50000
	cp.LeakWaitMs = 15000
	cp.Leak = true
	_ = RunScenarios(bin, []*Scenario{&cp}, 1, env)
	return &cp
}

// BlockedOnly reports whether every goroutine in a dump is parked (not runnable/running).
func BlockedOnly(stack string) bool {
	for _, g := range strings.Split(stack, "\n\n") {
		first := strings.SplitN(g, "\n", 2)[0]
		if strings.Contains(first, "[runnable") || strings.Contains(first, "[running") {
			return false
		}
	}
	return true
}

// SubTraceLines is TraceLines for subscription scenarios: the end-of-stream marker
// carries the number of events the plan prescribes for the root field (default 2).
func SubTraceLines(s *Scenario) [][]byte {
	if s.Result == nil || s.Op == nil || len(s.Op.Sels) == 0 {
		return TraceLines(s)
	}
	// responses are interleaved with the resolver / error events at the point the
	// response function returned them ("Resp" markers in the event log)
	full := TraceLines(s)
	nresp := len(s.Result.Resps)
	head, resp := full[:len(full)-nresp], full[len(full)-nresp:]
	var out [][]byte
	out = append(out, head[0]) // Scenario
	hi := 1
	ri := 0
	for _, ev := range s.Result.Events {
		switch ev.E {
		case "Start", "End", "Err", "Recover":
			if hi < len(head) {
				out = append(out, head[hi])
				hi++
			}
		case "Resp":
			if ri < len(resp) {
				out = append(out, resp[ri])
				ri++
			}
		}
	}
	out = append(out, head[hi:]...)
	out = append(out, resp[ri:]...)
	n := 2
	if o, ok := s.Plan[s.Op.Sels[0].Alias]; ok && o.K == "stream" {
		n = o.N
	}
	b, _ := json.Marshal(map[string]any{"e": "Done", "n": n})
	return append(out, b)
}
