package vlib

import (
	"encoding/json"
	"fmt"
	"math/rand"
	"sort"
	"strings"
)

// Schema JSON as dumped by the probe (ur.SchemaJSON) and read by the TLA+ modules.
type SchemaJ struct {
	Types map[string]TypeJ  `json:"types"`
	Roots map[string]string `json:"roots"`
}
type TypeJ struct {
	Kind     string            `json:"kind"`
	Fields   map[string]FieldJ `json:"fields"`
	Possible []string          `json:"possible"`
	Impl     []string          `json:"impl"`
	Dflt     string            `json:"dflt"`
}
type DirJ struct {
	Name string `json:"name"`
	Tag  string `json:"tag"`
}
type FieldJ struct {
	Name string   `json:"name"`
	Wrap []string `json:"wrap"`
	Res  bool     `json:"res"`
	Dirs []DirJ   `json:"dirs"`
}

func (s *SchemaJ) IsLeaf(tn string) bool {
	k := s.Types[tn].Kind
	return k == "SCALAR" || k == "ENUM"
}

// Sel is a selection; the JSON form is what the TLA+ modules read.
type Sel struct {
	K     string `json:"k"` // field | inline | spread
	Alias string `json:"alias"`
	Name  string `json:"name"`
	On    string `json:"on"`
	Skip  bool   `json:"skip"` // resolved value of @skip(if:) (false when absent)
	Incl  bool   `json:"incl"` // resolved value of @include(if:) (true when absent)
	Dfr   bool   `json:"dfr"`  // resolved: fragment is deferred
	Label string `json:"label"`
	Sels  []*Sel `json:"sels"`
	// argument fault class of this field's arguments ("" | err | panic) and the
	// name of the faulting argument: an input unmarshaler that fails (C04)
	AFault string `json:"afault"`
	AName  string `json:"aname"`
	// tags of the executable (query-side, location FIELD) directives @dfield(tag:) applied
	// to this field in the operation, in document order
	QDirs []string `json:"qdirs"`

	SkipSrc   string `json:"-"` // "" | lit | var
	InclSrc   string `json:"-"`
	InclFirst bool   `json:"-"` // render @include before @skip
	DfrSrc    string `json:"-"` // "" no @defer | "bare" | "lit" | "var"
	Args      string `json:"-"`
	FDir      string `json:"-"` // extra query-side directive text
}

type Frag struct {
	On   string `json:"on"`
	Sels []*Sel `json:"sels"`
}

type Op struct {
	Kind  string           `json:"kind"`
	Sels  []*Sel           `json:"sels"`
	Frags map[string]*Frag `json:"frags"`

	Vars    map[string]any `json:"-"`
	varDefs []string
	nvar    int
	Name    string `json:"-"`
}

func (o *Op) boolVar(v bool) string {
	o.nvar++
	n := fmt.Sprintf("v%d", o.nvar)
	if o.Vars == nil {
		o.Vars = map[string]any{}
	}
	o.Vars[n] = v
	o.varDefs = append(o.varDefs, fmt.Sprintf("$%s: Boolean!", n))
	return n
}

// Render produces the GraphQL document text for the operation.
func (o *Op) Render() string {
	var sb strings.Builder
	body := renderSels(o, o.Sels)
	sb.WriteString(o.Kind)
	if o.Name != "" {
		sb.WriteString(" " + o.Name)
	}
	// variables are allocated while rendering selections; fragments too
	names := make([]string, 0, len(o.Frags))
	for n := range o.Frags {
		names = append(names, n)
	}
	sort.Strings(names)
	fr := ""
	for _, n := range names {
		f := o.Frags[n]
		fr += fmt.Sprintf(" fragment %s on %s %s", n, f.On, renderSels(o, f.Sels))
	}
	if len(o.varDefs) > 0 {
		sb.WriteString("(" + strings.Join(o.varDefs, ", ") + ")")
	}
	sb.WriteString(" " + body + fr)
	return sb.String()
}

func renderSels(o *Op, sels []*Sel) string {
	var sb strings.Builder
	sb.WriteString("{")
	for _, s := range sels {
		sb.WriteString(" ")
		switch s.K {
		case "field":
			if s.Alias != s.Name {
				sb.WriteString(s.Alias + ": ")
			}
			sb.WriteString(s.Name)
			sb.WriteString(s.Args)
		case "inline":
			sb.WriteString("...")
			if s.On != "" {
				sb.WriteString(" on " + s.On)
			}
		case "spread":
			sb.WriteString("..." + s.Name)
		}
		sb.WriteString(dirText(o, s))
		if s.K != "spread" && (len(s.Sels) > 0 || s.K == "inline") {
			sb.WriteString(" " + renderSels(o, s.Sels))
		}
	}
	sb.WriteString(" }")
	return sb.String()
}

func dirText(o *Op, s *Sel) string {
	skip, incl := "", ""
	switch s.SkipSrc {
	case "lit":
		skip = fmt.Sprintf(" @skip(if: %v)", s.Skip)
	case "var":
		skip = fmt.Sprintf(" @skip(if: $%s)", o.boolVar(s.Skip))
	}
	switch s.InclSrc {
	case "lit":
		incl = fmt.Sprintf(" @include(if: %v)", s.Incl)
	case "var":
		incl = fmt.Sprintf(" @include(if: $%s)", o.boolVar(s.Incl))
	}
	out := skip + incl
	if s.InclFirst {
		out = incl + skip
	}
	lab := ""
	if s.Label != "" {
		lab = fmt.Sprintf("label: %q", s.Label)
	}
	switch s.DfrSrc {
	case "bare":
		if lab != "" {
			out += " @defer(" + lab + ")"
		} else {
			out += " @defer"
		}
	case "lit":
		out += fmt.Sprintf(" @defer(if: %v", s.Dfr)
		if lab != "" {
			out += ", " + lab
		}
		out += ")"
	case "var":
		out += fmt.Sprintf(" @defer(if: $%s", o.boolVar(s.Dfr))
		if lab != "" {
			out += ", " + lab
		}
		out += ")"
	}
	for i, t := range s.QDirs {
		// at most two per field: gqlparser's UniqueDirectivesPerLocation ignores `repeatable`
		out += fmt.Sprintf(" @%s(tag: %q)", []string{"dfield", "dfield2"}[i%2], t)
	}
	return out + s.FDir
}

// GenOpts tunes the random operation generator.
type GenOpts struct {
	Depth     int
	MaxFields int
	Defer     bool     // allow @defer on fragments
	Skip      bool     // allow @skip/@include
	Frags     bool     // allow named fragments
	Avoid     []string // field names never selected
	QDirs     bool     // executable @dfield directives on fields
	Kind      string   // query | mutation
	ArgFaults bool     // boomArg(b:) with failing / panicking input unmarshaler
}

type opGen struct {
	s     *SchemaJ
	r     *rand.Rand
	o     GenOpts
	op    *Op
	nfrag int
	nlab  int
	nq    int
}

// GenOp generates a random valid operation against schema s.
func GenOp(s *SchemaJ, r *rand.Rand, o GenOpts) *Op {
	if o.Kind == "" {
		o.Kind = "query"
	}
	if o.MaxFields == 0 {
		o.MaxFields = 4
	}
	g := &opGen{s: s, r: r, o: o, op: &Op{Kind: o.Kind, Frags: map[string]*Frag{}}}
	root := s.Roots[o.Kind]
	if o.Kind == "subscription" {
		// exactly one root field
		var f *Sel
		for f == nil {
			f = g.field(root, o.Depth+1)
		}
		f.Skip, f.Incl, f.SkipSrc, f.InclSrc, f.QDirs = false, true, "", "", nil
		g.op.Sels = []*Sel{f}
		return g.op
	}
	g.op.Sels = g.selSet(root, o.Depth, true)
	if len(g.op.Sels) == 0 || !hasField(g.op.Sels) {
		g.op.Sels = append(g.op.Sels, &Sel{K: "field", Alias: "__typename", Name: "__typename", Incl: true})
	}
	return g.op
}

func hasField(sels []*Sel) bool {
	for _, s := range sels {
		if s.K == "field" && !s.Skip && s.Incl {
			return true
		}
	}
	return false
}

func (g *opGen) avoid(n string) bool {
	for _, a := range g.o.Avoid {
		if a == n {
			return true
		}
	}
	return false
}

func (g *opGen) fieldNames(tn string) []string {
	t := g.s.Types[tn]
	ns := make([]string, 0, len(t.Fields))
	for n := range t.Fields {
		if !g.avoid(n) {
			ns = append(ns, n)
		}
	}
	sort.Strings(ns)
	return ns
}

// selSet generates a selection set valid on type tn (object, interface or union).
func (g *opGen) selSet(tn string, depth int, root bool) []*Sel {
	return g.selSetF(tn, depth, root, 2)
}

func (g *opGen) selSetF(tn string, depth int, root bool, fb int) []*Sel {
	t := g.s.Types[tn]
	var out []*Sel
	n := 1 + g.r.Intn(g.o.MaxFields)
	for i := 0; i < n; i++ {
		c := g.r.Intn(100)
		switch {
		case c < 8:
			out = append(out, g.withSkip(&Sel{K: "field", Alias: g.alias("__typename"), Name: "__typename", Incl: true}))
		case c < 70 && t.Kind != "UNION":
			if f := g.field(tn, depth); f != nil {
				out = append(out, f)
			}
		case c < 88 && !root && fb > 0:
			// inline fragment: on the type itself, on something it implements, on a possible type, or untyped
			on := g.condFor(tn)
			target := on
			if target == "" {
				target = tn
			}
			in := &Sel{K: "inline", On: on, Incl: true, Sels: g.selSetF(target, depth, false, fb-1)}
			g.maybeDefer(in)
			out = append(out, g.withSkip(in))
		case c < 100 && g.o.Frags && !root && fb > 0:
			on := g.condFor(tn)
			if on == "" {
				on = tn
			}
			g.nfrag++
			name := fmt.Sprintf("F%d", g.nfrag)
			g.op.Frags[name] = &Frag{On: on, Sels: g.selSetF(on, depth, false, fb-1)}
			sp := &Sel{K: "spread", Name: name, Incl: true}
			g.maybeDefer(sp)
			out = append(out, g.withSkip(sp))
			if g.r.Intn(6) == 0 {
				// spread the same fragment twice (visited-set behaviour)
				sp2 := &Sel{K: "spread", Name: name, Incl: true}
				out = append(out, g.withSkip(sp2))
			}
		default:
			if t.Kind != "UNION" {
				if f := g.field(tn, depth); f != nil {
					out = append(out, f)
				}
			} else {
				out = append(out, &Sel{K: "field", Alias: "__typename", Name: "__typename", Incl: true})
			}
		}
	}
	if len(out) == 0 {
		out = append(out, &Sel{K: "field", Alias: "__typename", Name: "__typename", Incl: true})
	}
	return out
}

func (g *opGen) alias(name string) string {
	if g.r.Intn(5) == 0 {
		return fmt.Sprintf("%s_%d", name, g.r.Intn(2))
	}
	return name
}

func (g *opGen) maybeDefer(s *Sel) {
	if !g.o.Defer || g.r.Intn(3) != 0 {
		return
	}
	switch g.r.Intn(4) {
	case 0:
		s.DfrSrc, s.Dfr = "bare", true
	case 1:
		s.DfrSrc, s.Dfr = "lit", g.r.Intn(3) != 0
	default:
		s.DfrSrc, s.Dfr = "var", g.r.Intn(3) != 0
	}
	if g.r.Intn(2) == 0 {
		if g.nlab > 0 && g.r.Intn(4) == 0 {
			s.Label = fmt.Sprintf("L%d", 1+g.r.Intn(g.nlab)) // shared label
		} else {
			g.nlab++
			s.Label = fmt.Sprintf("L%d", g.nlab)
		}
	}
}

func (g *opGen) withSkip(s *Sel) *Sel {
	if !g.o.Skip {
		return s
	}
	if g.r.Intn(6) == 0 {
		s.Skip = g.r.Intn(2) == 0
		s.SkipSrc = []string{"lit", "var"}[g.r.Intn(2)]
	}
	if g.r.Intn(8) == 0 || (s.SkipSrc != "" && g.r.Intn(3) == 0) {
		s.Incl = g.r.Intn(3) != 0
		s.InclSrc = []string{"lit", "var"}[g.r.Intn(2)]
		s.InclFirst = g.r.Intn(2) == 0
	}
	return s
}

// condFor picks a type condition that can apply to values of static type tn.
func (g *opGen) condFor(tn string) string {
	t := g.s.Types[tn]
	var cands []string
	cands = append(cands, "")
	cands = append(cands, tn)
	if t.Kind == "OBJECT" {
		cands = append(cands, t.Impl...)
	} else {
		cands = append(cands, t.Possible...)
		// interfaces sharing a possible type
		for n, ot := range g.s.Types {
			if ot.Kind == "INTERFACE" || ot.Kind == "UNION" {
				for _, p := range ot.Possible {
					for _, q := range t.Possible {
						if p == q {
							cands = append(cands, n)
						}
					}
				}
			}
		}
	}
	sort.Strings(cands)
	c := cands[g.r.Intn(len(cands))]
	if t.Kind == "UNION" && c == "" {
		return tn
	}
	return c
}

func (g *opGen) field(tn string, depth int) *Sel {
	ns := g.fieldNames(tn)
	if len(ns) == 0 {
		return nil
	}
	for try := 0; try < 8; try++ {
		n := ns[g.r.Intn(len(ns))]
		fd := g.s.Types[tn].Fields[n]
		leaf := g.s.IsLeaf(fd.Name)
		if !leaf && depth <= 0 {
			continue
		}
		s := &Sel{K: "field", Alias: g.alias(n), Name: n, Incl: true}
		if n == "boomArg" && g.o.ArgFaults {
			switch g.r.Intn(4) {
			case 0:
				s.Alias, s.Args = "boomArg_ok", `(b: "fine")`
			case 1:
				s.Alias, s.Args, s.AFault, s.AName = "boomArg_err", `(b: "err")`, "err", "b"
			case 2:
				s.Alias, s.Args, s.AFault, s.AName = "boomArg_panic", `(b: "panic")`, "panic", "b"
			}
		}
		if !leaf {
			s.Sels = g.selSet(fd.Name, depth-1, false)
		}
		if g.o.QDirs && g.r.Intn(7) == 0 {
			for k := 1 + g.r.Intn(2); k > 0; k-- {
				g.nq++
				s.QDirs = append(s.QDirs, fmt.Sprintf("q%d", g.nq))
			}
		}
		return g.withSkip(s)
	}
	return nil
}

// MarshalJSON never emits null (TLC's Json module rejects it).
func (s *Sel) MarshalJSON() ([]byte, error) {
	type alias Sel
	a := alias(*s)
	if a.Sels == nil {
		a.Sels = []*Sel{}
	}
	if a.QDirs == nil {
		a.QDirs = []string{}
	}
	return json.Marshal(&a)
}

func (f *Frag) MarshalJSON() ([]byte, error) {
	type alias Frag
	a := alias(*f)
	if a.Sels == nil {
		a.Sels = []*Sel{}
	}
	return json.Marshal(&a)
}
