package vlib

import (
	"fmt"
	"os"
	"path/filepath"
	"regexp"
	"strconv"
	"strings"
	"time"
)

// TLCOpts configures one TLC run in a private scratch directory.
type TLCOpts struct {
	Module   string            // module name (file Module.tla in spec dir)
	Config   string            // cfg file name in spec dir
	Files    map[string]string // extra files to place in the scratch dir (name -> path to copy)
	Data     map[string][]byte // extra files to write in the scratch dir
	Workers  int               // 0 = 1
	Timeout  time.Duration
	Simulate string // e.g. "num=100" (adds -simulate)
	Depth    int
	Seed     int64
	DFS      bool // StateDeque queue
	Coverage bool
	Extra    []string
	Scratch  string              // scratch dir (created, removed by caller via Cleanup)
	CfgEdit  func(string) string // optional rewrite of the config file text (constant overrides)
	HeapGB   int
}

// TLCResult is what a TLC run reported.
type TLCResult struct {
	Output      string
	ExitErr     error
	Generated   int64
	Distinct    int64
	Depth       int
	OK          bool // "Model checking completed. No error has been found." or simulation finished w/o error
	Violation   string
	Printed     []string // lines printed by PrintT (raw)
	TimedOut    bool
	Zeros       []string // coverage lines with count 0
	RejectedAt  int      // from TRACE-REJECTED-AT
	WallS       float64
	ActionCount map[string]int64
}

var (
	reStates   = regexp.MustCompile(`(\d+) states generated, (\d+) distinct states found`)
	reDepth    = regexp.MustCompile(`The depth of the complete state graph search is (\d+)`)
	reRejected = regexp.MustCompile(`"TRACE-REJECTED-AT", (\d+)`)
	reCover    = regexp.MustCompile(`^<(\w+) line (\d+), col (\d+) to line (\d+), col (\d+) of module (\w+)>: (\d+):(\d+)`)
)

// RunTLC copies the whole spec dir into a scratch directory and runs TLC there.
func RunTLC(o TLCOpts) (*TLCResult, error) {
	if o.Scratch == "" {
		return nil, fmt.Errorf("scratch dir required")
	}
	if err := os.MkdirAll(o.Scratch, 0o755); err != nil {
		return nil, err
	}
	ents, err := os.ReadDir(SpecDir())
	if err != nil {
		return nil, err
	}
	for _, e := range ents {
		if e.IsDir() {
			continue
		}
		if strings.HasSuffix(e.Name(), ".tla") || strings.HasSuffix(e.Name(), ".cfg") {
			b, err := os.ReadFile(filepath.Join(SpecDir(), e.Name()))
			if err != nil {
				return nil, err
			}
			if err := os.WriteFile(filepath.Join(o.Scratch, e.Name()), b, 0o644); err != nil {
				return nil, err
			}
		}
	}
	for name, src := range o.Files {
		b, err := os.ReadFile(src)
		if err != nil {
			return nil, err
		}
		if err := os.WriteFile(filepath.Join(o.Scratch, name), b, 0o644); err != nil {
			return nil, err
		}
	}
	for name, b := range o.Data {
		if err := os.WriteFile(filepath.Join(o.Scratch, name), b, 0o644); err != nil {
			return nil, err
		}
	}
	if o.CfgEdit != nil {
		cp := filepath.Join(o.Scratch, o.Config)
		b, err := os.ReadFile(cp)
		if err != nil {
			return nil, err
		}
		if err := os.WriteFile(cp, []byte(o.CfgEdit(string(b))), 0o644); err != nil {
			return nil, err
		}
	}
	workers := o.Workers
	if workers <= 0 {
		workers = 1
	}
	heap := o.HeapGB
	if heap <= 0 {
		heap = 6
	}
	args := []string{"-XX:+UseParallelGC", fmt.Sprintf("-Xmx%dg", heap), "-Xss512m"}
	if o.DFS {
		args = append(args, "-Dtlc2.tool.queue.IStateQueue=StateDeque")
	}
	args = append(args, "-cp", "/opt/veriftools/tla/tla2tools.jar:/opt/veriftools/tla/CommunityModules-deps.jar", "tlc2.TLC",
		"-metadir", filepath.Join(o.Scratch, "meta"), "-workers", strconv.Itoa(workers), "-config", o.Config)
	if o.Simulate != "" {
		args = append(args, "-simulate", o.Simulate)
	}
	if o.Depth > 0 {
		args = append(args, "-depth", strconv.Itoa(o.Depth))
	}
	if o.Seed != 0 {
		args = append(args, "-seed", strconv.FormatInt(o.Seed, 10))
	}
	if o.Coverage {
		args = append(args, "-coverage", "1")
	}
	args = append(args, o.Extra...)
	args = append(args, o.Module)
	to := o.Timeout
	if to == 0 {
		to = 10 * time.Minute
	}
	t0 := time.Now()
	out, rerr := RunCmd(o.Scratch, nil, to, "java", args...)
	res := &TLCResult{Output: out, ExitErr: rerr, WallS: time.Since(t0).Seconds(), ActionCount: map[string]int64{}}
	if rerr != nil && strings.Contains(rerr.Error(), "timeout after") {
		res.TimedOut = true
	}
	if m := reStates.FindAllStringSubmatch(out, -1); len(m) > 0 {
		last := m[len(m)-1]
		res.Generated, _ = strconv.ParseInt(last[1], 10, 64)
		res.Distinct, _ = strconv.ParseInt(last[2], 10, 64)
	}
	if m := reDepth.FindStringSubmatch(out); m != nil {
		res.Depth, _ = strconv.Atoi(m[1])
	}
	if m := reRejected.FindStringSubmatch(out); m != nil {
		res.RejectedAt, _ = strconv.Atoi(m[1])
	}
	for _, ln := range strings.Split(out, "\n") {
		if m := reCover.FindStringSubmatch(ln); m != nil {
			n, _ := strconv.ParseInt(m[7], 10, 64)
			res.ActionCount[m[1]] += n
		}
		if strings.HasPrefix(ln, "\"") || strings.HasPrefix(ln, "<<") || strings.HasPrefix(ln, "[") || strings.HasPrefix(ln, "{") {
			res.Printed = append(res.Printed, ln)
		}
	}
	res.OK = strings.Contains(out, "Model checking completed. No error has been found.") ||
		(o.Simulate != "" && rerr == nil && !strings.Contains(out, "Error:"))
	if !res.OK {
		// first "Error:" paragraph
		if i := strings.Index(out, "Error:"); i >= 0 {
			v := out[i:]
			if len(v) > 3000 {
				v = v[:3000]
			}
			res.Violation = v
		}
	}
	return res, nil
}
