package vlib

import (
	"math/rand"

	"verifharness/ur"
)

// C07DerivePlan exposes the fault-plan derivation of the executor conformance
// pipeline (positions and Go types come from the events of a fault-free
// baseline run) to the C07 driver: err / null / list / type / value outcomes,
// no panics, no directive faults.
func C07DerivePlan(s *SchemaJ, base *ur.Result, r *rand.Rand, intensity int) map[string]ur.Outcome {
	plan, _ := derivePlan(s, base, r, ExecMode{Faults: true}, intensity)
	return plan
}
