package vlib

import (
	"crypto/sha256"
	"encoding/hex"
	"encoding/json"
	"fmt"
	"os"
	"path/filepath"
	"sort"
	"strings"
	"sync"
	"time"
)

// Check accumulates what one run of one property check did and found.
type Check struct {
	Prop    string
	Level   string // exploration | model_checking | ...
	t0      time.Time
	mu      sync.Mutex
	cov     map[string]any
	samples []any
	assume  []string
	viol    []Violation
	known   []KnownFinding
	seenKF  map[string]bool
	classes map[string]bool
	evals   int64
	traces  int64
	states  int64
	trans   int64
}

type Violation struct {
	Key    string // finding class key (matched against known_findings.json)
	Detail string
	Replay string
}

type KnownFinding struct {
	Property string `json:"property"`
	Key      string `json:"key"`
	What     string `json:"what"`
	Status   string `json:"status"` // open | fixed
	Commit   string `json:"commit,omitempty"`
}

func NewCheck(prop, level string) *Check {
	c := &Check{Prop: prop, Level: level, t0: time.Now(), cov: map[string]any{}, seenKF: map[string]bool{}, classes: map[string]bool{}, assume: []string{}}
	c.known = LoadKnown(prop)
	return c
}

// LoadKnown reads known_findings.json and known_findings.d/*.json (same format).
func LoadKnown(prop string) []KnownFinding {
	files := []string{filepath.Join(Root(), "known_findings.json")}
	more, _ := filepath.Glob(filepath.Join(Root(), "known_findings.d", "*.json"))
	sort.Strings(more)
	files = append(files, more...)
	var out []KnownFinding
	for _, f := range files {
		b, err := os.ReadFile(f)
		if err != nil {
			continue
		}
		var all struct {
			Findings []KnownFinding `json:"findings"`
		}
		if err := json.Unmarshal(b, &all); err != nil {
			Infra("%s: %v", f, err)
		}
		for _, k := range all.Findings {
			if k.Property == prop {
				out = append(out, k)
			}
		}
	}
	return out
}

func (c *Check) Set(k string, v any) { c.mu.Lock(); c.cov[k] = v; c.mu.Unlock() }

// Inc adds n to the integer counter k of the coverage record.
func (c *Check) Inc(k string, n int64) {
	c.mu.Lock()
	cur, _ := c.cov[k].(int64)
	c.cov[k] = cur + n
	c.mu.Unlock()
}

// SetDefault sets coverage key k unless the driver already did.
func (c *Check) SetDefault(k string, v any) {
	c.mu.Lock()
	if _, ok := c.cov[k]; !ok {
		c.cov[k] = v
	}
	c.mu.Unlock()
}
func (c *Check) Assume(s string)      { c.mu.Lock(); c.assume = append(c.assume, s); c.mu.Unlock() }
func (c *Check) AddEvals(n int64)     { c.mu.Lock(); c.evals += n; c.mu.Unlock() }
func (c *Check) AddTraces(n int64)    { c.mu.Lock(); c.traces += n; c.mu.Unlock() }
func (c *Check) AddStates(s, t int64) { c.mu.Lock(); c.states += s; c.trans += t; c.mu.Unlock() }

// Class records one distinct non-trivial case class (counted for distinct_nontrivial).
func (c *Check) Class(key string) { c.mu.Lock(); c.classes[key] = true; c.mu.Unlock() }

func (c *Check) Sample(v any) {
	c.mu.Lock()
	if len(c.samples) < 6 {
		c.samples = append(c.samples, v)
	}
	c.mu.Unlock()
}

// Violate records a violation observed on the real code. key identifies the
// finding class; if known_findings.json lists (property,key) as open, it is
// reported as KNOWN-FINDING instead.
func (c *Check) Violate(key, detail string, replay any) {
	c.mu.Lock()
	defer c.mu.Unlock()
	for _, k := range c.known {
		if k.Status == "open" && k.Key == key {
			if !c.seenKF[key] {
				c.seenKF[key] = true
				fmt.Printf("KNOWN-FINDING: property=%s %s [%s]\n", c.Prop, k.What, key)
			}
			return
		}
	}
	if len(c.viol) >= 20 {
		return
	}
	path := ""
	if replay != nil {
		b, _ := json.MarshalIndent(map[string]any{"property": c.Prop, "key": key, "detail": detail, "scenario": replay}, "", " ")
		h := sha256.Sum256(b)
		dir := filepath.Join(EvidenceDir(), "replay")
		_ = os.MkdirAll(dir, 0o755)
		path = filepath.Join(dir, fmt.Sprintf("%s-%s.json", c.Prop, hex.EncodeToString(h[:6])))
		_ = os.WriteFile(path, b, 0o644)
	}
	c.viol = append(c.viol, Violation{Key: key, Detail: detail, Replay: path})
	fmt.Printf("VIOLATION property=%s replay=%s\n", c.Prop, path)
	d := detail
	if len(d) > 1500 {
		d = d[:1500] + "..."
	}
	fmt.Printf("  key=%s\n  %s\n", key, strings.ReplaceAll(d, "\n", "\n  "))
}

func (c *Check) Violations() int { c.mu.Lock(); defer c.mu.Unlock(); return len(c.viol) }

// Finish writes the evidence file and exits with the verdict.
func (c *Check) Finish() {
	c.mu.Lock()
	cov := map[string]any{}
	for k, v := range c.cov {
		cov[k] = v
	}
	keys := make([]string, 0, len(c.classes))
	for k := range c.classes {
		keys = append(keys, k)
	}
	sort.Strings(keys)
	cov["evaluations"] = c.evals
	cov["distinct_nontrivial"] = len(c.classes)
	if c.states > 0 {
		cov["states"] = c.states
		cov["transitions"] = c.trans
	}
	cov["traces_validated_against_impl"] = c.traces
	if len(c.samples) == 0 {
		c.samples = append(c.samples, "none")
	}
	cov["samples"] = c.samples
	if _, ok := cov["rule"]; !ok {
		cov["rule"] = "see DESIGN.md"
	}
	kf := []string{}
	for k := range c.seenKF {
		kf = append(kf, k)
	}
	sort.Strings(kf)
	cov["known_findings_reobserved"] = kf
	ev := map[string]any{
		"property_id": c.Prop,
		"tier":        Tier(),
		"seed":        Seed(),
		"level":       c.Level,
		"coverage":    cov,
		"assumptions": c.assume,
		"wall_s":      time.Since(c.t0).Seconds(),
		"violations":  len(c.viol),
	}
	nv := len(c.viol)
	c.mu.Unlock()
	b, _ := json.MarshalIndent(ev, "", " ")
	dir := EvidenceDir()
	_ = os.MkdirAll(dir, 0o755)
	if err := os.WriteFile(filepath.Join(dir, c.Prop+".json"), b, 0o644); err != nil {
		Infra("write evidence: %v", err)
	}
	if nv > 0 {
		os.Exit(1)
	}
	fmt.Printf("OK property=%s tier=%s seed=%d evaluations=%d classes=%d traces=%d states=%d wall=%.1fs\n",
		c.Prop, Tier(), Seed(), c.evals, len(keys), c.traces, c.states, time.Since(c.t0).Seconds())
	os.Exit(0)
}
