package c16lib

import (
	"fmt"
	"regexp"
	"sort"
	"strings"
)

// Entry / Op mirror the gate machine of spec/Introspect.tla.
type Entry struct {
	Pos   string `json:"pos"`
	Key   string `json:"key"`
	Via   string `json:"via"`
	Arg   string `json:"arg"`
	Known string `json:"known"`
}

// Item is one registration on the server, in registration order: K = intro
// (extension.Introspection{}), mut (a user OperationContextMutator extension
// writing DisableIntrospection = (W == "t")), mw (an AroundOperations guard
// writing W before next, or passing when W == "-").
type Item struct {
	K string `json:"k"`
	W string `json:"w"`
}

type Op struct {
	Ext     string  `json:"ext"`
	Chain   []Item  `json:"chain"`
	Entries []Entry `json:"entries"`
}

// ChainSig spells the registration order, e.g. "Wt>I>Mf" ("" = nothing registered).
func (o *Op) ChainSig() string {
	p := []string{}
	for _, it := range o.Chain {
		switch it.K {
		case "intro":
			p = append(p, "I")
		case "mut":
			p = append(p, "M"+it.W)
		case "mw":
			p = append(p, "W"+it.W)
		default:
			p = append(p, "?"+it.K)
		}
	}
	return strings.Join(p, ">")
}

// Disabled: does the gate machine say introspection is disabled when the fields execute?
func (g *GateCase) Disabled() bool {
	if g.Dis != "" {
		return g.Dis == "t"
	}
	return g.Op.Ext == "f" // scenarios recorded before the registration order became part of the operation
}

// GateCase is one line exported by TLC for the gate machine.
type GateCase struct {
	Op       Op                `json:"op"`
	Res      map[string]string `json:"res"` // response key -> typename | value | null_err | null | data
	Dis      string            `json:"dis"` // DisableIntrospection when the fields execute: what the last writer decided
	DataNull string            `json:"datanull"`
}

func (o *Op) Has(pos string) bool {
	for _, e := range o.Entries {
		if e.Pos == pos {
			return true
		}
	}
	return false
}

func (o *Op) Class() string {
	p := []string{}
	for _, e := range o.Entries {
		alias := "plain"
		if !strings.HasPrefix(e.Key, "_") && e.Key != "i" {
			alias = "alias"
		}
		p = append(p, e.Pos+"/"+e.Via+"/"+e.Arg+"/"+alias)
	}
	return "chain=" + o.ChainSig() + ";" + strings.Join(p, "+")
}

// Render concretises the operation. knownType is a type name that exists in
// the served schema; variant picks among equivalent spellings.
func (o *Op) Render(knownType string, variant int) (query string, vars map[string]any) {
	vars = map[string]any{}
	varDefs := []string{}
	seenVar := map[string]bool{}
	addVar := func(name, def string) {
		if !seenVar[name] {
			seenVar[name] = true
			varDefs = append(varDefs, def)
		}
	}
	frags := []string{}
	sels := []string{}
	for i, e := range o.Entries {
		field := e.Pos
		body := ""
		args := ""
		switch e.Pos {
		case "__schema":
			body = " { queryType { name } types { name kind fields { name } } directives { name } }"
			if variant%2 == 1 {
				body = " { types { name description enumValues { name } inputFields { name } } }"
			}
		case "__type":
			body = " { name kind fields { name args { name } type { name } } enumValues { name } }"
			tn := knownType
			if e.Known == "f" {
				tn = "NoSuchTypeZz9"
			}
			vn := "n_" + strings.TrimLeft(e.Key, "_")
			switch e.Arg {
			case "lit":
				args = "(name: " + Quote(tn) + ")"
			case "var":
				addVar(vn, "$"+vn+": String!")
				vars[vn] = tn
				args = "(name: $" + vn + ")"
			case "vardflt":
				addVar(vn, "$"+vn+": String! = "+Quote(tn))
				args = "(name: $" + vn + ")"
			}
		case "_service":
			body = " { sdl }"
		case "__typename":
		case "user":
			field = "i"
		}
		dir := ""
		if e.Via == "include" {
			vn := fmt.Sprintf("on%d", i+1)
			addVar(vn, "$"+vn+": Boolean!")
			vars[vn] = true
			dir = " @include(if: $" + vn + ")"
		}
		sel := field + args + dir + body
		if e.Key != field {
			sel = e.Key + ": " + sel
		}
		switch e.Via {
		case "direct", "include":
			sels = append(sels, sel)
		case "frag":
			fn := fmt.Sprintf("F%d", i+1)
			sels = append(sels, "..."+fn)
			frags = append(frags, "fragment "+fn+" on Query { "+sel+" }")
		case "nested":
			g, h := fmt.Sprintf("G%d", i+1), fmt.Sprintf("H%d", i+1)
			sels = append(sels, "..."+g)
			frags = append(frags, "fragment "+g+" on Query { ..."+h+" }", "fragment "+h+" on Query { ... on Query { "+sel+" } }")
		case "inline":
			sels = append(sels, "... on Query { "+sel+" }")
		case "inlinebare":
			sels = append(sels, "... { "+sel+" }")
		}
	}
	hdr := ""
	switch {
	case len(varDefs) > 0:
		hdr = "query Hidden(" + strings.Join(varDefs, ", ") + ") "
	case variant%3 == 0:
		hdr = "query Hidden "
	case variant%3 == 1:
		hdr = "query "
	}
	query = hdr + "{ " + strings.Join(sels, " ") + " }"
	if len(frags) > 0 {
		query += "\n" + strings.Join(frags, "\n")
	}
	return query, vars
}

var identRe = regexp.MustCompile(`[A-Za-z_][A-Za-z0-9_]*`)

// Tokens is the set of identifiers occurring in a text.
func Tokens(text string) map[string]bool {
	out := map[string]bool{}
	for _, t := range identRe.FindAllString(text, -1) {
		out[t] = true
	}
	return out
}

func pathKey(p []any) string {
	parts := []string{}
	for _, x := range p {
		parts = append(parts, fmt.Sprint(x))
	}
	return strings.Join(parts, "/")
}

// CheckGate compares a response with what the gate machine prescribes.
// secrets are the element names of the served schema (identifier tokens) and,
// for schemas with distinctive names, substrings that must not occur.
func CheckGate(gc *GateCase, r *Response, gateErrs []string, query string, vars map[string]any, secretTokens map[string]bool, secretSubstr []string) []Mismatch {
	var out []Mismatch
	add := func(key, format string, a ...any) {
		out = append(out, Mismatch{Key: key, Where: gc.Op.Class(), Detail: fmt.Sprintf(format, a...)})
	}
	if len(gateErrs) > 0 {
		// The operation did not pass parsing / validation: nothing executed, nothing is revealed.
		// The corpus consists of valid operations (none is rejected on the pristine tree); a server
		// that refuses them while introspection is disabled still satisfies the property, one that
		// refuses them while it is enabled does not answer introspection.
		if !gc.Disabled() {
			add("gate-closed-while-enabled:rejected", "introspection is enabled but the operation was rejected before execution: %v", gateErrs)
		} else if r.Data != nil {
			add("gate-data-shape", "operation rejected (%v) but data is %s", gateErrs, trunc(r.Raw, 300))
		}
		return out
	}
	errAt := map[string]int{}
	for _, e := range r.Errors {
		errAt[pathKey(e.Path)]++
	}
	disabled := gc.Disabled()
	keys := make([]string, 0, len(gc.Res))
	for k := range gc.Res {
		keys = append(keys, k)
	}
	sort.Strings(keys)
	dm, isObj := r.Data.(jm)
	if gc.DataNull == "t" {
		if r.Data != nil {
			add("gate-service-not-null", "_service is non-null and failed: data must be null, observed %s", r.Raw)
		}
	} else if !isObj {
		add("gate-data-shape", "data must be an object, observed %s", r.Raw)
		return out
	}
	expErrs := 0
	for _, k := range keys {
		want := gc.Res[k]
		var got any
		present := false
		if isObj {
			got, present = dm[k]
		}
		pos := ""
		for _, e := range gc.Op.Entries {
			if e.Key == k {
				pos = e.Pos
			}
		}
		switch want {
		case "null_err":
			expErrs++
			if isObj && (!present || got != nil) {
				key := "gate-open-while-disabled:" + pos
				add(key, "introspection is disabled, %q must be null, observed %v", k, trunc(fmt.Sprint(got), 300))
			}
			if errAt[k] == 0 && (gc.DataNull != "t" || pos == "_service") {
				add("gate-null-without-error:"+pos, "%q is null but no error has path [%s]; errors: %v", k, k, r.Errors)
			}
		case "null":
			if !present || got != nil {
				add("gate-unknown-type-not-null", "%q names a type that does not exist: expected null, observed %v", k, trunc(fmt.Sprint(got), 300))
			}
			if errAt[k] != 0 {
				add("gate-unexpected-error", "unexpected error at [%s]: %v", k, r.Errors)
			}
		case "data":
			if m, ok := got.(jm); !ok || m == nil {
				add("gate-closed-while-enabled:"+pos, "introspection is enabled, %q must carry data, observed %v; errors %v", k, got, r.Errors)
			}
			if errAt[k] != 0 {
				add("gate-unexpected-error", "unexpected error at [%s]: %v", k, r.Errors)
			}
		case "typename":
			if gc.DataNull != "t" && got != "Query" {
				add("gate-typename", "%q: expected \"Query\", observed %v", k, got)
			}
		case "value":
			if gc.DataNull != "t" && (!present || got == nil) {
				add("gate-user-field", "%q: expected the resolver's value, observed %v; errors %v", k, got, r.Errors)
			}
		}
	}
	if gc.DataNull != "t" && len(r.Errors) != expErrs {
		add("gate-error-count", "expected %d errors, observed %v", expErrs, r.Errors)
	}
	if isObj && len(dm) != len(keys) {
		add("gate-data-keys", "expected keys %v, observed %s", keys, trunc(r.Raw, 300))
	}
	if disabled {
		// nothing of the schema may occur anywhere in the response (data, error messages, extensions)
		own := Tokens(query)
		for _, v := range vars {
			if s, ok := v.(string); ok {
				own[s] = true
			}
		}
		leaked := []string{}
		for t := range Tokens(r.Raw) {
			if secretTokens[t] && !own[t] && t != "Query" {
				leaked = append(leaked, t)
			}
		}
		for _, s := range secretSubstr {
			if strings.Contains(r.Raw, s) && !strings.Contains(query, s) && !own[s] {
				leaked = append(leaked, s)
			}
		}
		if len(leaked) > 0 {
			sort.Strings(leaked)
			add("gate-leak", "introspection is disabled but the response mentions schema elements %v: %s", leaked, trunc(r.Raw, 400))
		}
	}
	return out
}

func trunc(s string, n int) string {
	if len(s) > n {
		return s[:n] + "..."
	}
	return s
}
