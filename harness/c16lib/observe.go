package c16lib

import (
	"encoding/json"
	"fmt"
	"reflect"
	"strings"

	"github.com/vektah/gqlparser/v2/ast"

	"github.com/99designs/gqlgen/graphql/introspection"
)

// ---- what was observed (concrete) ----

type OStr struct {
	Null bool
	V    string
}

type OInput struct {
	Name        string
	Description OStr
	Type        []Layer
	Default     OStr // GraphQL-formatted text
	IsDep       string
	Reason      OStr
}

type OField struct {
	Name        string
	Description OStr
	Args        []OInput
	Type        []Layer
	IsDep       string
	Reason      OStr
}

type OEnum struct {
	Name        string
	Description OStr
	IsDep       string
	Reason      OStr
}

type OType struct {
	Kind, Name                                                   string
	Description, URL                                             OStr
	FieldsNull, IfacesNull, PossNull, EnumsNull, InputFieldsNull bool
	Fields                                                       []OField
	Interfaces, PossibleTypes                                    [][]Layer
	EnumValues                                                   []OEnum
	InputFields                                                  []OInput
}

type ODir struct {
	Name        string
	Description OStr
	Repeatable  string
	Locations   []string
	Args        []OInput
}

type OView struct {
	Description                OStr
	Query                      string
	Mutation, Subscription     OStr
	Types                      []OType
	Directives                 []ODir
	HasArgFilter, HasInpFilter bool // the observation could apply includeDeprecated to args / inputFields
}

func ostr(p *string) OStr {
	if p == nil {
		return OStr{Null: true}
	}
	return OStr{V: *p}
}

// ---- (a) the runtime introspection package, walked through the Go API the generated code calls ----

func layersOfType(t *introspection.Type) []Layer {
	out := []Layer{}
	for i := 0; t != nil && i < 32; i++ {
		l := Layer{Kind: t.Kind()}
		if n := t.Name(); n != nil {
			l.Name = *n
		}
		out = append(out, l)
		t = t.OfType()
	}
	return out
}

// The package's API for argument lists and input fields has no includeDeprecated
// parameter on the pinned tree (Field.Args / Directive.Args are struct fields,
// Type.InputFields() takes no argument). They are reached reflectively so that
// the check also builds against a tree where they became methods taking the flag.
func inputList(owner any, name string, inc bool) (list []introspection.InputValue, filtered bool) {
	rv := reflect.ValueOf(owner)
	if m := rv.MethodByName(name); m.IsValid() {
		var out []reflect.Value
		if m.Type().NumIn() == 1 && m.Type().In(0).Kind() == reflect.Bool {
			out = m.Call([]reflect.Value{reflect.ValueOf(inc)})
			filtered = true
		} else if m.Type().NumIn() == 0 {
			out = m.Call(nil)
		} else {
			panic("unexpected signature of " + name)
		}
		list, _ = out[0].Interface().([]introspection.InputValue)
		if list == nil && !out[0].IsNil() {
			list = []introspection.InputValue{}
		}
		if out[0].IsNil() {
			return nil, filtered
		}
		return list, filtered
	}
	f := rv.Elem().FieldByName(name)
	if !f.IsValid() {
		panic("introspection API has neither method nor field " + name)
	}
	list, _ = f.Interface().([]introspection.InputValue)
	return list, false
}

func oinput(x introspection.InputValue) OInput {
	return OInput{Name: x.Name, Description: ostr(x.Description()), Type: layersOfType(x.Type),
		Default: ostr(x.DefaultValue), IsDep: b2s(x.IsDeprecated()), Reason: ostr(x.DeprecationReason())}
}

func otype(t *introspection.Type, inc bool, flt *OView) OType {
	o := OType{Kind: t.Kind(), Description: ostr(t.Description()), URL: ostr(t.SpecifiedByURL())}
	if n := t.Name(); n != nil {
		o.Name = *n
	}
	if fs := t.Fields(inc); fs == nil {
		o.FieldsNull = true
	} else {
		for _, f := range fs {
			of := OField{Name: f.Name, Description: ostr(f.Description()), Type: layersOfType(f.Type),
				IsDep: b2s(f.IsDeprecated()), Reason: ostr(f.DeprecationReason())}
			f := f
			al, filtered := inputList(&f, "Args", inc)
			flt.HasArgFilter = filtered
			for _, a := range al {
				of.Args = append(of.Args, oinput(a))
			}
			o.Fields = append(o.Fields, of)
		}
	}
	if is := t.Interfaces(); is == nil {
		o.IfacesNull = true
	} else {
		for i := range is {
			o.Interfaces = append(o.Interfaces, layersOfType(&is[i]))
		}
	}
	if ps := t.PossibleTypes(); ps == nil {
		o.PossNull = true
	} else {
		for i := range ps {
			o.PossibleTypes = append(o.PossibleTypes, layersOfType(&ps[i]))
		}
	}
	if es := t.EnumValues(inc); es == nil {
		o.EnumsNull = true
	} else {
		for _, e := range es {
			o.EnumValues = append(o.EnumValues, OEnum{Name: e.Name, Description: ostr(e.Description()), IsDep: b2s(e.IsDeprecated()), Reason: ostr(e.DeprecationReason())})
		}
	}
	xs, filtered := inputList(t, "InputFields", inc)
	flt.HasInpFilter = filtered
	if xs == nil {
		o.InputFieldsNull = true
	} else {
		for _, x := range xs {
			o.InputFields = append(o.InputFields, oinput(x))
		}
	}
	return o
}

// ObserveRuntime walks introspection.WrapSchema(schema). A panic inside the
// package is returned as an error (it is an observation, not a harness failure).
func ObserveRuntime(schema *ast.Schema, inc bool) (v *OView, err error) {
	defer func() {
		if r := recover(); r != nil {
			err = fmt.Errorf("panic in introspection package: %v", r)
		}
	}()
	w := introspection.WrapSchema(schema)
	v = &OView{Description: ostr(w.Description())}
	if q := w.QueryType(); q != nil && q.Name() != nil {
		v.Query = *q.Name()
	}
	v.Mutation, v.Subscription = OStr{Null: true}, OStr{Null: true}
	if m := w.MutationType(); m != nil {
		v.Mutation = ostr(m.Name())
	}
	if m := w.SubscriptionType(); m != nil {
		v.Subscription = ostr(m.Name())
	}
	for _, t := range w.Types() {
		t := t
		v.Types = append(v.Types, otype(&t, inc, v))
	}
	for _, d := range w.Directives() {
		od := ODir{Name: d.Name, Description: ostr(d.Description()), Repeatable: b2s(d.IsRepeatable), Locations: d.Locations}
		d := d
		al, _ := inputList(&d, "Args", inc)
		for _, a := range al {
			od.Args = append(od.Args, oinput(a))
		}
		v.Directives = append(v.Directives, od)
	}
	return v, nil
}

// ObserveRuntimeType is introspectType's path: WrapTypeFromDef(schema, schema.Types[name]).
func ObserveRuntimeType(schema *ast.Schema, name string, inc bool) (o *OType, flt *OView, err error) {
	defer func() {
		if r := recover(); r != nil {
			err = fmt.Errorf("panic in introspection package: %v", r)
		}
	}()
	flt = &OView{}
	t := introspection.WrapTypeFromDef(schema, schema.Types[name])
	if t == nil {
		return nil, flt, nil
	}
	ot := otype(t, inc, flt)
	return &ot, flt, nil
}

// ---- (b) JSON of a generated server ----

type jm = map[string]any

func jstr(m jm, k string) OStr {
	v, ok := m[k]
	if !ok || v == nil {
		return OStr{Null: true}
	}
	if s, ok := v.(string); ok {
		return OStr{V: s}
	}
	return OStr{V: fmt.Sprintf("<non-string %v>", v)}
}

func jbool(m jm, k string) string {
	v, ok := m[k]
	if !ok {
		return "absent"
	}
	if b, ok := v.(bool); ok {
		return b2s(b)
	}
	return fmt.Sprintf("<non-bool %v>", v)
}

func jlist(m jm, k string) ([]any, bool) {
	v, ok := m[k]
	if !ok || v == nil {
		return nil, true
	}
	l, _ := v.([]any)
	if l == nil {
		l = []any{}
	}
	return l, false
}

func jlayers(v any) []Layer {
	out := []Layer{}
	for i := 0; i < 32; i++ {
		m, ok := v.(jm)
		if !ok || m == nil {
			break
		}
		l := Layer{}
		if s, ok := m["kind"].(string); ok {
			l.Kind = s
		}
		if s, ok := m["name"].(string); ok {
			l.Name = s
		}
		out = append(out, l)
		v = m["ofType"]
	}
	return out
}

func jinput(v any) OInput {
	m, _ := v.(jm)
	return OInput{Name: jstr(m, "name").V, Description: jstr(m, "description"), Type: jlayers(m["type"]),
		Default: jstr(m, "defaultValue"), IsDep: jbool(m, "isDeprecated"), Reason: jstr(m, "deprecationReason")}
}

func JType(v any) OType {
	m, _ := v.(jm)
	o := OType{Kind: jstr(m, "kind").V, Name: jstr(m, "name").V, Description: jstr(m, "description"), URL: jstr(m, "specifiedByURL")}
	var l []any
	if l, o.FieldsNull = jlist(m, "fields"); !o.FieldsNull {
		for _, e := range l {
			fm, _ := e.(jm)
			of := OField{Name: jstr(fm, "name").V, Description: jstr(fm, "description"), Type: jlayers(fm["type"]),
				IsDep: jbool(fm, "isDeprecated"), Reason: jstr(fm, "deprecationReason")}
			al, _ := jlist(fm, "args")
			for _, a := range al {
				of.Args = append(of.Args, jinput(a))
			}
			o.Fields = append(o.Fields, of)
		}
	}
	if l, o.IfacesNull = jlist(m, "interfaces"); !o.IfacesNull {
		for _, e := range l {
			o.Interfaces = append(o.Interfaces, jlayers(e))
		}
	}
	if l, o.PossNull = jlist(m, "possibleTypes"); !o.PossNull {
		for _, e := range l {
			o.PossibleTypes = append(o.PossibleTypes, jlayers(e))
		}
	}
	if l, o.EnumsNull = jlist(m, "enumValues"); !o.EnumsNull {
		for _, e := range l {
			em, _ := e.(jm)
			o.EnumValues = append(o.EnumValues, OEnum{Name: jstr(em, "name").V, Description: jstr(em, "description"),
				IsDep: jbool(em, "isDeprecated"), Reason: jstr(em, "deprecationReason")})
		}
	}
	if l, o.InputFieldsNull = jlist(m, "inputFields"); !o.InputFieldsNull {
		for _, e := range l {
			o.InputFields = append(o.InputFields, jinput(e))
		}
	}
	return o
}

// Response is a decoded GraphQL response.
type Response struct {
	Data   any
	Errors []RespErr
	Raw    string
}

type RespErr struct {
	Message string `json:"message"`
	Path    []any  `json:"path"`
}

func DecodeResponse(raw string) (*Response, error) {
	var r struct {
		Data   any       `json:"data"`
		Errors []RespErr `json:"errors"`
	}
	if err := json.Unmarshal([]byte(raw), &r); err != nil {
		return nil, err
	}
	return &Response{Data: r.Data, Errors: r.Errors, Raw: raw}, nil
}

// ObserveJSON rebuilds the view from the data of the standard introspection query.
func ObserveJSON(data any) (*OView, error) {
	dm, _ := data.(jm)
	sm, _ := dm["__schema"].(jm)
	if sm == nil {
		return nil, fmt.Errorf("no __schema object in data")
	}
	v := &OView{Description: jstr(sm, "description"), HasArgFilter: true, HasInpFilter: true}
	if q, ok := sm["queryType"].(jm); ok {
		v.Query = jstr(q, "name").V
	}
	v.Mutation, v.Subscription = OStr{Null: true}, OStr{Null: true}
	if q, ok := sm["mutationType"].(jm); ok && q != nil {
		v.Mutation = jstr(q, "name")
	}
	if q, ok := sm["subscriptionType"].(jm); ok && q != nil {
		v.Subscription = jstr(q, "name")
	}
	tl, _ := jlist(sm, "types")
	for _, t := range tl {
		v.Types = append(v.Types, JType(t))
	}
	dl, _ := jlist(sm, "directives")
	for _, d := range dl {
		m, _ := d.(jm)
		od := ODir{Name: jstr(m, "name").V, Description: jstr(m, "description"), Repeatable: jbool(m, "isRepeatable")}
		ll, _ := jlist(m, "locations")
		for _, l := range ll {
			s, _ := l.(string)
			od.Locations = append(od.Locations, s)
		}
		al, _ := jlist(m, "args")
		for _, a := range al {
			od.Args = append(od.Args, jinput(a))
		}
		v.Directives = append(v.Directives, od)
	}
	return v, nil
}

// ---- the standard introspection query (the one GraphiQL sends), parameterised by the
// includeDeprecated arguments: "true", "false", "" (argument omitted = default) or "$inc" ----

func incArg(mode string) string {
	if mode == "" {
		return ""
	}
	return "(includeDeprecated: " + mode + ")"
}

const fragTypeRef = `
fragment TypeRef on __Type {
  kind name
  ofType { kind name ofType { kind name ofType { kind name ofType { kind name ofType { kind name
    ofType { kind name ofType { kind name ofType { kind name ofType { kind name } } } } } } } } }
}`

func fragments(mode string) string {
	a := incArg(mode)
	return `
fragment FullType on __Type {
  kind
  name
  description
  specifiedByURL
  fields` + a + ` {
    name
    description
    args` + a + ` { ...InputValue }
    type { ...TypeRef }
    isDeprecated
    deprecationReason
  }
  inputFields` + a + ` { ...InputValue }
  interfaces { ...TypeRef }
  enumValues` + a + ` { name description isDeprecated deprecationReason }
  possibleTypes { ...TypeRef }
}
fragment InputValue on __InputValue {
  name
  description
  type { ...TypeRef }
  defaultValue
  isDeprecated
  deprecationReason
}` + fragTypeRef
}

// SchemaQuery is the full standard introspection query.
func SchemaQuery(mode string) string {
	hdr := "query IntrospectionQuery"
	if strings.HasPrefix(mode, "$") {
		hdr += "(" + mode + ": Boolean)"
	}
	return hdr + ` {
  __schema {
    description
    queryType { name }
    mutationType { name }
    subscriptionType { name }
    types { ...FullType }
    directives {
      name
      description
      isRepeatable
      locations
      args` + incArg(mode) + ` { ...InputValue }
    }
  }
}` + fragments(mode)
}

// TypesQuery asks __type(name:) for every given name (aliases t0, t1, ...), plus a name that does not exist.
func TypesQuery(names []string, mode string) string {
	var sb strings.Builder
	sb.WriteString("query Types {\n")
	for i, n := range names {
		fmt.Fprintf(&sb, "  t%d: __type(name: %s) { ...FullType }\n", i, Quote(n))
	}
	sb.WriteString("  missing: __type(name: \"NoSuchTypeZz9\") { ...FullType }\n}")
	sb.WriteString(fragments(mode))
	return sb.String()
}
