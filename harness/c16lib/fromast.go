package c16lib

import (
	"sort"
	"strings"

	"github.com/vektah/gqlparser/v2/ast"
)

// FromAST abstracts a schema loaded by gqlparser into the abstract schema of
// the specification, with the concrete texts as symbols (Conc{Identity:true}).
// Types and directives are ordered by name; built-in scalars, introspection
// types and built-in directives are left out (as in View).
func FromAST(sch *ast.Schema) *Schema {
	s := &Schema{Desc: sch.Description}
	if sch.Query != nil {
		s.Query = sch.Query.Name
	}
	if sch.Mutation != nil {
		s.Mutation = sch.Mutation.Name
	}
	if sch.Subscription != nil {
		s.Subscription = sch.Subscription.Name
	}
	names := []string{}
	for n := range sch.Types {
		if strings.HasPrefix(n, "__") || BuiltinScalars[n] {
			continue
		}
		names = append(names, n)
	}
	sort.Strings(names)
	for _, n := range names {
		d := sch.Types[n]
		t := TypeDef{Name: d.Name, Kind: string(d.Kind), Desc: d.Description}
		switch d.Kind {
		case ast.Object, ast.Interface:
			for _, f := range d.Fields {
				if strings.HasPrefix(f.Name, "__") {
					continue
				}
				af := Field{Name: f.Name, Desc: f.Description, Type: refOf(f.Type), Dep: depOf(f.Directives)}
				for _, a := range f.Arguments {
					af.Args = append(af.Args, inputOf(a.Name, a.Description, a.Type, a.DefaultValue, a.Directives))
				}
				t.Fields = append(t.Fields, af)
			}
			t.Ifaces = append(t.Ifaces, d.Interfaces...)
		case ast.Union:
			t.Members = append(t.Members, d.Types...)
		case ast.Enum:
			for _, v := range d.EnumValues {
				t.Values = append(t.Values, EnumVal{Name: v.Name, Desc: v.Description, Dep: depOf(v.Directives)})
			}
		case ast.InputObject:
			for _, f := range d.Fields {
				t.Inputs = append(t.Inputs, inputOf(f.Name, f.Description, f.Type, f.DefaultValue, f.Directives))
			}
		case ast.Scalar:
			if sb := d.Directives.ForName("specifiedBy"); sb != nil {
				if u := sb.Arguments.ForName("url"); u != nil {
					t.URL = u.Value.Raw
				}
			}
		}
		s.Types = append(s.Types, t)
	}
	dn := []string{}
	for n := range sch.Directives {
		if !BuiltinDirectives[n] {
			dn = append(dn, n)
		}
	}
	sort.Strings(dn)
	for _, n := range dn {
		d := sch.Directives[n]
		ad := DirDef{Name: d.Name, Desc: d.Description, Rep: b2s(d.IsRepeatable)}
		for _, l := range d.Locations {
			ad.Locs = append(ad.Locs, string(l))
		}
		for _, a := range d.Arguments {
			ad.Args = append(ad.Args, inputOf(a.Name, a.Description, a.Type, a.DefaultValue, a.Directives))
		}
		s.Dirs = append(s.Dirs, ad)
	}
	s.Normalize()
	return s
}

func refOf(t *ast.Type) TRef {
	r := TRef{Wrap: []string{}}
	for t != nil {
		if t.NonNull {
			r.Wrap = append(r.Wrap, "N")
		}
		if t.Elem != nil {
			r.Wrap = append(r.Wrap, "L")
			t = t.Elem
			continue
		}
		r.Name = t.NamedType
		break
	}
	return r
}

func depOf(ds ast.DirectiveList) Dep {
	d := ds.ForName("deprecated")
	if d == nil {
		return NoDep
	}
	out := Dep{On: "t"}
	if a := d.Arguments.ForName("reason"); a != nil && a.Value != nil && a.Value.Kind != ast.NullValue {
		if a.Value.Raw != DefaultReason {
			out.Reason = a.Value.Raw
		}
	}
	return out
}

func inputOf(name, desc string, t *ast.Type, dv *ast.Value, ds ast.DirectiveList) InputVal {
	return InputVal{Name: name, Desc: desc, Type: refOf(t), Dflt: DfltOfValue(dv), Dep: depOf(ds)}
}

// DfltOfValue abstracts a GraphQL const value (string contents stay concrete).
func DfltOfValue(v *ast.Value) Dflt {
	if v == nil {
		return NoDflt
	}
	d := Dflt{E: []DfltEntry{}}
	switch v.Kind {
	case ast.IntValue:
		d.T, d.V = "int", v.Raw
	case ast.FloatValue:
		d.T, d.V = "float", v.Raw
	case ast.StringValue, ast.BlockValue:
		d.T, d.V = "str", v.Raw
	case ast.BooleanValue:
		d.T, d.V = "bool", v.Raw
	case ast.NullValue:
		d.T = "null"
	case ast.EnumValue:
		d.T, d.V = "enum", v.Raw
	case ast.ListValue:
		d.T = "list"
		for _, c := range v.Children {
			d.E = append(d.E, DfltEntry{K: "", X: DfltOfValue(c.Value)})
		}
	case ast.ObjectValue:
		d.T = "obj"
		for _, c := range v.Children {
			d.E = append(d.E, DfltEntry{K: c.Name, X: DfltOfValue(c.Value)})
		}
	default:
		d.T, d.V = "?", v.Raw
	}
	return d
}

// Concretise replaces every symbol of s by its concrete text (the schema that
// gqlparser must load from c.SDL(s), in FromAST's form up to ordering).
func (c *Conc) Concretise(s *Schema) *Schema {
	b := s.JSON()
	var o Schema
	_ = jsonUnmarshal(b, &o)
	o.Desc = c.Desc(o.Desc)
	var cd func(d *Dflt)
	cd = func(d *Dflt) {
		if d.T == "str" {
			d.V = c.Str(d.V)
		}
		for i := range d.E {
			cd(&d.E[i].X)
		}
	}
	ci := func(x *InputVal) {
		x.Desc = c.Desc(x.Desc)
		x.Dep.Reason = c.Reason(x.Dep.Reason)
		cd(&x.Dflt)
	}
	for i := range o.Types {
		t := &o.Types[i]
		t.Desc = c.Desc(t.Desc)
		t.URL = c.URL(t.URL)
		for j := range t.Fields {
			f := &t.Fields[j]
			f.Desc = c.Desc(f.Desc)
			f.Dep.Reason = c.Reason(f.Dep.Reason)
			for k := range f.Args {
				ci(&f.Args[k])
			}
		}
		for j := range t.Values {
			t.Values[j].Desc = c.Desc(t.Values[j].Desc)
			t.Values[j].Dep.Reason = c.Reason(t.Values[j].Dep.Reason)
		}
		for j := range t.Inputs {
			ci(&t.Inputs[j])
		}
	}
	for i := range o.Dirs {
		o.Dirs[i].Desc = c.Desc(o.Dirs[i].Desc)
		for k := range o.Dirs[i].Args {
			ci(&o.Dirs[i].Args[k])
		}
	}
	sort.Slice(o.Types, func(i, j int) bool { return o.Types[i].Name < o.Types[j].Name })
	sort.Slice(o.Dirs, func(i, j int) bool { return o.Dirs[i].Name < o.Dirs[j].Name })
	o.Normalize()
	return &o
}

// Symbolise replaces the concrete texts of a schema abstracted by FromAST by
// fresh symbols (so that arbitrary text never travels through TLC) and returns
// the table-driven concretiser that maps them back.
func Symbolise(s *Schema) (*Schema, *Conc) {
	b := s.JSON()
	var o Schema
	_ = jsonUnmarshal(b, &o)
	c := &Conc{Table: map[string]string{}}
	n := 0
	sym := func(kind, prefix, text string) string {
		if text == "" && kind != "str" {
			return ""
		}
		n++
		k := prefix + itoaN(n)
		c.Table[kind+":"+k] = text
		return k
	}
	var cd func(d *Dflt)
	cd = func(d *Dflt) {
		if d.T == "str" {
			d.V = sym("str", "s", d.V)
		}
		for i := range d.E {
			cd(&d.E[i].X)
		}
	}
	ci := func(x *InputVal) {
		x.Desc = sym("desc", "d", x.Desc)
		x.Dep.Reason = sym("reason", "why", x.Dep.Reason)
		cd(&x.Dflt)
	}
	o.Desc = sym("desc", "d", o.Desc)
	for i := range o.Types {
		t := &o.Types[i]
		t.Desc = sym("desc", "d", t.Desc)
		t.URL = sym("url", "u", t.URL)
		for j := range t.Fields {
			f := &t.Fields[j]
			f.Desc = sym("desc", "d", f.Desc)
			f.Dep.Reason = sym("reason", "why", f.Dep.Reason)
			for k := range f.Args {
				ci(&f.Args[k])
			}
		}
		for j := range t.Values {
			t.Values[j].Desc = sym("desc", "d", t.Values[j].Desc)
			t.Values[j].Dep.Reason = sym("reason", "why", t.Values[j].Dep.Reason)
		}
		for j := range t.Inputs {
			ci(&t.Inputs[j])
		}
	}
	for i := range o.Dirs {
		o.Dirs[i].Desc = sym("desc", "d", o.Dirs[i].Desc)
		for k := range o.Dirs[i].Args {
			ci(&o.Dirs[i].Args[k])
		}
	}
	o.Normalize()
	return &o, c
}
