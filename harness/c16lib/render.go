package c16lib

import (
	"fmt"
	"hash/fnv"
	"strings"

	"github.com/vektah/gqlparser/v2/ast"
	"github.com/vektah/gqlparser/v2/lexer"
)

// Conc maps the abstract symbols of a schema (description "d1", reason
// "why1", url "u1", string classes "s_quote" ...) to concrete texts. The choice
// among several representatives of a class derives from the seed.
type Conc struct {
	Seed     int64
	Identity bool              // symbols are the concrete texts
	Table    map[string]string // "kind:symbol" -> text (schemas abstracted from real SDL by Symbolise)
}

func (c *Conc) lookup(kind, sym string) (string, bool) {
	if c.Identity {
		return sym, true
	}
	if c.Table != nil {
		t, ok := c.Table[kind+":"+sym]
		if ok {
			return t, true
		}
		return sym, true
	}
	return "", false
}

func (c *Conc) pick(sym string, n int) int {
	h := fnv.New64a()
	fmt.Fprintf(h, "%d|%s", c.Seed, sym)
	return int(h.Sum64() % uint64(n))
}

var descPool = []string{
	"plain text %s",
	"with \"quotes\" and \\ backslash %s",
	"two\nlines %s",
	"unicode é \U0001F600 %s",
	"  padded %s  ",
	"tab\there %s {brace} #hash",
}

// TextClassPool: the text classes of spec/MC_Introspect.tla (SliceText): symbols dc_<class> (descriptions),
// wc_<class> (deprecation reasons), sc_<class> (string defaults) are concretised by a representative of the
// class; %s is replaced by the symbol. What the class is about is part of the VALUE (blanks at line ends,
// indentation, blank-only lines, backticks, triple quotes, carriage returns ...), so whatever spelling the
// renderer chooses (quoted / block string / CRLF line ends) the loaded schema has it and introspection must
// return it byte for byte.
var TextClassPool = map[string][]string{
	"trail":  {"hard break  \nnext %s", "%s two  \nthree   \nend"},
	"tabend": {"tab at the end\t\nnext %s", "%s\t\n\t\nx"},
	"lead":   {"first %s\n    indented\nback", "%s\n\tleading tab\nend"},
	"wsline": {"above %s\n   \nbelow", "%s\n\n \t \nend"},
	"tick":   {"`tick` ``` %s ```", "%s `", "`%s`\n`"},
	"tq":     {"three \"\"\" quotes %s", "%s \"\"\"\" four", "x\"\"\"\n\"\"\" %s"},
	"nonbmp": {"\U0001F600 %s \U0001F9D1\u200d\U0001F680", "%s \U00010348\U0001D11E"},
	"long":   {strings.Repeat("long ", 1500) + "%s", "%s\n" + strings.Repeat("x", 9000) + "  \nend"},
	"cr":     {"cr\rinside %s", "%s crlf\r\ninside"},
	"endsp":  {"%s ends with blanks  ", "%s ends with a tab\t"},
	"bs":     {"back\\slash \\n is not an escape %s", "%s \\u0041 \\\"", "ends with a backslash %s\\"},
}

// TextClassNames in a fixed order.
var TextClassNames = []string{"trail", "tabend", "lead", "wsline", "tick", "tq", "nonbmp", "long", "cr", "endsp", "bs"}

var allClassReps = func() []string {
	out := []string{}
	for _, n := range TextClassNames {
		out = append(out, TextClassPool[n]...)
	}
	return out
}()

// classText: the representative of a class symbol (prefix dc_ / wc_ / sc_), "" if sym is not one.
func (c *Conc) classText(prefix, sym string) (string, bool) {
	if !strings.HasPrefix(sym, prefix) {
		return "", false
	}
	p, ok := TextClassPool[strings.TrimPrefix(sym, prefix)]
	if !ok {
		return "", false
	}
	return fmt.Sprintf(p[c.pick("class:"+sym, len(p))], sym), true
}

// free symbols (d7, why3 of the seeded generator) draw from the plain pool and, half of the time, from the classes
func (c *Conc) freeText(kind, sym string, pool []string) string {
	if c.pick(kind+"-classy:"+sym, 2) == 0 {
		return fmt.Sprintf(allClassReps[c.pick(kind+":"+sym, len(allClassReps))], sym)
	}
	return fmt.Sprintf(pool[c.pick(kind+":"+sym, len(pool))], sym)
}

func (c *Conc) Desc(sym string) string {
	if sym == "" {
		return sym
	}
	if t, ok := c.lookup("desc", sym); ok {
		return t
	}
	if t, ok := c.classText("dc_", sym); ok {
		return t
	}
	return c.freeText("desc", sym, descPool)
}

var reasonPool = []string{"use the other one (%s)", "gone \"soon\": %s", "%s\nsee docs", "%s ü"}

func (c *Conc) Reason(sym string) string {
	if sym == "" {
		return sym
	}
	if t, ok := c.lookup("reason", sym); ok {
		return t
	}
	if t, ok := c.classText("wc_", sym); ok {
		return t
	}
	return c.freeText("reason", sym, reasonPool)
}

func (c *Conc) URL(sym string) string {
	if sym == "" {
		return sym
	}
	if t, ok := c.lookup("url", sym); ok {
		return t
	}
	return "https://example.com/spec/" + sym
}

var strPool = map[string][]string{
	"s_plain": {"abc", "hello world", "x"},
	"s_empty": {""},
	"s_quote": {"say \"hi\" \\ there", "\"", "a\\\\b"},
	"s_nl":    {"line1\nline2\ttab", "cr\rlf\n"},
	"s_uni":   {"é\U0001F600ü—", "中文"},
	"s_ctl":   {"bell\u0007del\u007f", "vt\u000bff\u000c", "nul-ish\u0001"},
}

// Str is the concrete string of a string default value.
func (c *Conc) Str(sym string) string {
	if t, ok := c.lookup("str", sym); ok {
		return t
	}
	if t, ok := c.classText("sc_", sym); ok {
		return t
	}
	p, ok := strPool[sym]
	if !ok {
		return sym
	}
	return p[c.pick("str:"+sym, len(p))]
}

// Quote renders a GraphQL string literal (GraphQL escapes only).
func Quote(s string) string {
	var sb strings.Builder
	sb.WriteByte('"')
	for _, r := range s {
		switch {
		case r == '"':
			sb.WriteString(`\"`)
		case r == '\\':
			sb.WriteString(`\\`)
		case r == '\n':
			sb.WriteString(`\n`)
		case r == '\r':
			sb.WriteString(`\r`)
		case r == '\t':
			sb.WriteString(`\t`)
		case r < 0x20 || r == 0x7f:
			fmt.Fprintf(&sb, `\u%04x`, r)
		default:
			sb.WriteRune(r)
		}
	}
	sb.WriteByte('"')
	return sb.String()
}

// blockString spells text as a GraphQL block string (lines indented by indent, terminated by nl) if that
// is possible: the candidate is read back with gqlparser's lexer and used only when it yields exactly text
// (block strings cannot hold carriage returns or control characters, lose common indentation and leading /
// trailing blank lines, and `\"""` is their only escape).
func blockString(text, indent, nl string, oneLine bool) (string, bool) {
	if text == "" {
		return "", false
	}
	for _, r := range text {
		if (r < 0x20 && r != '\n' && r != '\t') || r == 0x7f {
			return "", false
		}
	}
	esc := strings.ReplaceAll(text, `"""`, `\"""`)
	var cand string
	if oneLine && !strings.Contains(esc, "\n") {
		cand = `"""` + esc + `"""`
	} else {
		var sb strings.Builder
		sb.WriteString(`"""` + nl)
		for _, l := range strings.Split(esc, "\n") {
			if l != "" {
				sb.WriteString(indent + l)
			}
			sb.WriteString(nl)
		}
		sb.WriteString(indent + `"""`)
		cand = sb.String()
	}
	lx := lexer.New(&ast.Source{Name: "lit", Input: cand})
	tok, err := lx.ReadToken()
	if err != nil || tok.Kind != lexer.BlockString || tok.Value != text {
		return "", false
	}
	if end, err := lx.ReadToken(); err != nil || end.Kind != lexer.EOF {
		return "", false
	}
	return cand, true
}

// Lit spells a text as a GraphQL string literal: quoted, or one of the block-string spellings.
func (c *Conc) Lit(text, indent string) string {
	switch c.pick("lit:"+text, 5) {
	case 1:
		if b, ok := blockString(text, indent, "\n", true); ok {
			return b
		}
	case 2:
		if b, ok := blockString(text, indent, "\n", false); ok {
			return b
		}
	case 3:
		if b, ok := blockString(text, "", "\n", false); ok {
			return b
		}
	case 4:
		if b, ok := blockString(text, indent, "\r\n", false); ok {
			return b
		}
	}
	return Quote(text)
}

func (c *Conc) descLit(text string, indent string) string {
	if text == "" {
		return ""
	}
	return indent + c.Lit(text, indent) + "\n"
}

func RenderRef(r TRef) string { return renderRef(r.Wrap, r.Name) }

func renderRef(w []string, n string) string {
	if len(w) == 0 {
		return n
	}
	if w[0] == "N" {
		return renderRef(w[1:], n) + "!"
	}
	return "[" + renderRef(w[1:], n) + "]"
}

func (c *Conc) RenderDflt(d Dflt) string {
	switch d.T {
	case "int", "float", "bool", "enum":
		return d.V
	case "null":
		return "null"
	case "str":
		return c.Lit(c.Str(d.V), "      ")
	case "list":
		parts := []string{}
		for _, e := range d.E {
			parts = append(parts, c.RenderDflt(e.X))
		}
		return "[" + strings.Join(parts, ", ") + "]"
	case "obj":
		parts := []string{}
		for _, e := range d.E {
			parts = append(parts, e.K+": "+c.RenderDflt(e.X))
		}
		return "{" + strings.Join(parts, ", ") + "}"
	}
	return "null"
}

func (c *Conc) renderDep(d Dep) string {
	if d.On != "t" {
		return ""
	}
	if d.Reason == "" {
		return " @deprecated"
	}
	return " @deprecated(reason: " + c.Lit(c.Reason(d.Reason), "    ") + ")"
}

func (c *Conc) renderInput(x InputVal, indent string) string {
	s := c.descLit(c.Desc(x.Desc), indent) + indent + x.Name + ": " + RenderRef(x.Type)
	if x.Dflt.T != "none" {
		s += " = " + c.RenderDflt(x.Dflt)
	}
	return s + c.renderDep(x.Dep) + "\n"
}

func (c *Conc) renderArgs(args []InputVal, indent string) string {
	if len(args) == 0 {
		return ""
	}
	s := "(\n"
	for _, a := range args {
		s += c.renderInput(a, indent+"  ")
	}
	return s + indent + ")"
}

// SDL renders the schema as GraphQL SDL.
func (c *Conc) SDL(s *Schema) string {
	var sb strings.Builder
	explicit := s.Desc != "" || s.Mutation != "" || s.Subscription != "" || s.Query != "Query" ||
		s.TypeNamed("Mutation") != nil || s.TypeNamed("Subscription") != nil || c.pick("schemablock", 3) == 0
	if explicit {
		sb.WriteString(c.descLit(c.Desc(s.Desc), ""))
		sb.WriteString("schema {\n  query: " + s.Query + "\n")
		if s.Mutation != "" {
			sb.WriteString("  mutation: " + s.Mutation + "\n")
		}
		if s.Subscription != "" {
			sb.WriteString("  subscription: " + s.Subscription + "\n")
		}
		sb.WriteString("}\n\n")
	}
	for _, d := range s.Dirs {
		sb.WriteString(c.descLit(c.Desc(d.Desc), ""))
		sb.WriteString("directive @" + d.Name + c.renderArgs(d.Args, ""))
		if d.Rep == "t" {
			sb.WriteString(" repeatable")
		}
		sb.WriteString(" on " + strings.Join(d.Locs, " | ") + "\n\n")
	}
	for _, t := range s.Types {
		sb.WriteString(c.descLit(c.Desc(t.Desc), ""))
		switch t.Kind {
		case "SCALAR":
			sb.WriteString("scalar " + t.Name)
			if t.URL != "" {
				sb.WriteString(" @specifiedBy(url: " + Quote(c.URL(t.URL)) + ")")
			}
			sb.WriteString("\n\n")
		case "OBJECT", "INTERFACE":
			kw := "type "
			if t.Kind == "INTERFACE" {
				kw = "interface "
			}
			sb.WriteString(kw + t.Name)
			if len(t.Ifaces) > 0 {
				sb.WriteString(" implements " + strings.Join(t.Ifaces, " & "))
			}
			sb.WriteString(" {\n")
			for _, f := range t.Fields {
				sb.WriteString(c.descLit(c.Desc(f.Desc), "  "))
				sb.WriteString("  " + f.Name + c.renderArgs(f.Args, "  ") + ": " + RenderRef(f.Type) + c.renderDep(f.Dep) + "\n")
			}
			sb.WriteString("}\n\n")
		case "UNION":
			sb.WriteString("union " + t.Name + " = " + strings.Join(t.Members, " | ") + "\n\n")
		case "ENUM":
			sb.WriteString("enum " + t.Name + " {\n")
			for _, v := range t.Values {
				sb.WriteString(c.descLit(c.Desc(v.Desc), "  "))
				sb.WriteString("  " + v.Name + c.renderDep(v.Dep) + "\n")
			}
			sb.WriteString("}\n\n")
		case "INPUT_OBJECT":
			sb.WriteString("input " + t.Name + " {\n")
			for _, x := range t.Inputs {
				sb.WriteString(c.renderInput(x, "  "))
			}
			sb.WriteString("}\n\n")
		}
	}
	return sb.String()
}
