package c16lib

import (
	"fmt"
	"hash/fnv"
	"strings"
)

// Conc maps the abstract symbols of a schema (description "d1", reason
// "why1", url "u1", string classes "s_quote" ...) to concrete texts. The choice
// among several representatives of a class derives from the seed.
type Conc struct {
	Seed     int64
	Identity bool              // symbols are the concrete texts
	Table    map[string]string // "kind:symbol" -> text (schemas abstracted from real SDL by Symbolise)
}

func (c *Conc) lookup(kind, sym string) (string, bool) {
	if c.Identity {
		return sym, true
	}
	if c.Table != nil {
		t, ok := c.Table[kind+":"+sym]
		if ok {
			return t, true
		}
		return sym, true
	}
	return "", false
}

func (c *Conc) pick(sym string, n int) int {
	h := fnv.New64a()
	fmt.Fprintf(h, "%d|%s", c.Seed, sym)
	return int(h.Sum64() % uint64(n))
}

var descPool = []string{
	"plain text %s",
	"with \"quotes\" and \\ backslash %s",
	"two\nlines %s",
	"unicode é \U0001F600 %s",
	"  padded %s  ",
	"tab\there %s {brace} #hash",
}

func (c *Conc) Desc(sym string) string {
	if sym == "" {
		return sym
	}
	if t, ok := c.lookup("desc", sym); ok {
		return t
	}
	return fmt.Sprintf(descPool[c.pick("desc:"+sym, len(descPool))], sym)
}

var reasonPool = []string{"use the other one (%s)", "gone \"soon\": %s", "%s\nsee docs", "%s ü"}

func (c *Conc) Reason(sym string) string {
	if sym == "" {
		return sym
	}
	if t, ok := c.lookup("reason", sym); ok {
		return t
	}
	return fmt.Sprintf(reasonPool[c.pick("reason:"+sym, len(reasonPool))], sym)
}

func (c *Conc) URL(sym string) string {
	if sym == "" {
		return sym
	}
	if t, ok := c.lookup("url", sym); ok {
		return t
	}
	return "https://example.com/spec/" + sym
}

var strPool = map[string][]string{
	"s_plain": {"abc", "hello world", "x"},
	"s_empty": {""},
	"s_quote": {"say \"hi\" \\ there", "\"", "a\\\\b"},
	"s_nl":    {"line1\nline2\ttab", "cr\rlf\n"},
	"s_uni":   {"é\U0001F600ü—", "中文"},
	"s_ctl":   {"bell\u0007del\u007f", "vt\u000bff\u000c", "nul-ish\u0001"},
}

// Str is the concrete string of a string default value.
func (c *Conc) Str(sym string) string {
	if t, ok := c.lookup("str", sym); ok {
		return t
	}
	p, ok := strPool[sym]
	if !ok {
		return sym
	}
	return p[c.pick("str:"+sym, len(p))]
}

// Quote renders a GraphQL string literal (GraphQL escapes only).
func Quote(s string) string {
	var sb strings.Builder
	sb.WriteByte('"')
	for _, r := range s {
		switch {
		case r == '"':
			sb.WriteString(`\"`)
		case r == '\\':
			sb.WriteString(`\\`)
		case r == '\n':
			sb.WriteString(`\n`)
		case r == '\r':
			sb.WriteString(`\r`)
		case r == '\t':
			sb.WriteString(`\t`)
		case r < 0x20 || r == 0x7f:
			fmt.Fprintf(&sb, `\u%04x`, r)
		default:
			sb.WriteRune(r)
		}
	}
	sb.WriteByte('"')
	return sb.String()
}

func (c *Conc) descLit(text string, indent string) string {
	if text == "" {
		return ""
	}
	simple := !strings.ContainsAny(text, "\"\\\n\r\t") && strings.TrimSpace(text) == text
	if simple && c.pick("block:"+text, 2) == 0 {
		return indent + `"""` + text + `"""` + "\n"
	}
	return indent + Quote(text) + "\n"
}

func RenderRef(r TRef) string { return renderRef(r.Wrap, r.Name) }

func renderRef(w []string, n string) string {
	if len(w) == 0 {
		return n
	}
	if w[0] == "N" {
		return renderRef(w[1:], n) + "!"
	}
	return "[" + renderRef(w[1:], n) + "]"
}

func (c *Conc) RenderDflt(d Dflt) string {
	switch d.T {
	case "int", "float", "bool", "enum":
		return d.V
	case "null":
		return "null"
	case "str":
		return Quote(c.Str(d.V))
	case "list":
		parts := []string{}
		for _, e := range d.E {
			parts = append(parts, c.RenderDflt(e.X))
		}
		return "[" + strings.Join(parts, ", ") + "]"
	case "obj":
		parts := []string{}
		for _, e := range d.E {
			parts = append(parts, e.K+": "+c.RenderDflt(e.X))
		}
		return "{" + strings.Join(parts, ", ") + "}"
	}
	return "null"
}

func (c *Conc) renderDep(d Dep) string {
	if d.On != "t" {
		return ""
	}
	if d.Reason == "" {
		return " @deprecated"
	}
	return " @deprecated(reason: " + Quote(c.Reason(d.Reason)) + ")"
}

func (c *Conc) renderInput(x InputVal, indent string) string {
	s := c.descLit(c.Desc(x.Desc), indent) + indent + x.Name + ": " + RenderRef(x.Type)
	if x.Dflt.T != "none" {
		s += " = " + c.RenderDflt(x.Dflt)
	}
	return s + c.renderDep(x.Dep) + "\n"
}

func (c *Conc) renderArgs(args []InputVal, indent string) string {
	if len(args) == 0 {
		return ""
	}
	s := "(\n"
	for _, a := range args {
		s += c.renderInput(a, indent+"  ")
	}
	return s + indent + ")"
}

// SDL renders the schema as GraphQL SDL.
func (c *Conc) SDL(s *Schema) string {
	var sb strings.Builder
	explicit := s.Desc != "" || s.Mutation != "" || s.Subscription != "" || s.Query != "Query" ||
		s.TypeNamed("Mutation") != nil || s.TypeNamed("Subscription") != nil || c.pick("schemablock", 3) == 0
	if explicit {
		sb.WriteString(c.descLit(c.Desc(s.Desc), ""))
		sb.WriteString("schema {\n  query: " + s.Query + "\n")
		if s.Mutation != "" {
			sb.WriteString("  mutation: " + s.Mutation + "\n")
		}
		if s.Subscription != "" {
			sb.WriteString("  subscription: " + s.Subscription + "\n")
		}
		sb.WriteString("}\n\n")
	}
	for _, d := range s.Dirs {
		sb.WriteString(c.descLit(c.Desc(d.Desc), ""))
		sb.WriteString("directive @" + d.Name + c.renderArgs(d.Args, ""))
		if d.Rep == "t" {
			sb.WriteString(" repeatable")
		}
		sb.WriteString(" on " + strings.Join(d.Locs, " | ") + "\n\n")
	}
	for _, t := range s.Types {
		sb.WriteString(c.descLit(c.Desc(t.Desc), ""))
		switch t.Kind {
		case "SCALAR":
			sb.WriteString("scalar " + t.Name)
			if t.URL != "" {
				sb.WriteString(" @specifiedBy(url: " + Quote(c.URL(t.URL)) + ")")
			}
			sb.WriteString("\n\n")
		case "OBJECT", "INTERFACE":
			kw := "type "
			if t.Kind == "INTERFACE" {
				kw = "interface "
			}
			sb.WriteString(kw + t.Name)
			if len(t.Ifaces) > 0 {
				sb.WriteString(" implements " + strings.Join(t.Ifaces, " & "))
			}
			sb.WriteString(" {\n")
			for _, f := range t.Fields {
				sb.WriteString(c.descLit(c.Desc(f.Desc), "  "))
				sb.WriteString("  " + f.Name + c.renderArgs(f.Args, "  ") + ": " + RenderRef(f.Type) + c.renderDep(f.Dep) + "\n")
			}
			sb.WriteString("}\n\n")
		case "UNION":
			sb.WriteString("union " + t.Name + " = " + strings.Join(t.Members, " | ") + "\n\n")
		case "ENUM":
			sb.WriteString("enum " + t.Name + " {\n")
			for _, v := range t.Values {
				sb.WriteString(c.descLit(c.Desc(v.Desc), "  "))
				sb.WriteString("  " + v.Name + c.renderDep(v.Dep) + "\n")
			}
			sb.WriteString("}\n\n")
		case "INPUT_OBJECT":
			sb.WriteString("input " + t.Name + " {\n")
			for _, x := range t.Inputs {
				sb.WriteString(c.renderInput(x, "  "))
			}
			sb.WriteString("}\n\n")
		}
	}
	return sb.String()
}
