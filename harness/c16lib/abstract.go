// Package c16lib binds spec/Introspect.tla to gqlgen's introspection: the Go
// mirror of the abstract schema and of the views TLC exports, the SDL
// renderer, the seeded schema generator (same grammar, validated by TLC), the
// observers (runtime introspection package; JSON of a generated server) and
// the comparator.
package c16lib

import (
	"encoding/json"
	"sort"
	"strings"
)

// ---- abstract schema (record keys of spec/Introspect.tla) ----

type Dep struct {
	On     string `json:"on"` // "t" | "f"
	Reason string `json:"reason"`
}

type Dflt struct {
	T string      `json:"t"` // none int float str bool null enum list obj
	V string      `json:"v"`
	E []DfltEntry `json:"e"`
}

type DfltEntry struct {
	K string `json:"k"`
	X Dflt   `json:"x"`
}

type TRef struct {
	Wrap []string `json:"wrap"`
	Name string   `json:"name"`
}

type InputVal struct {
	Name string `json:"name"`
	Desc string `json:"desc"`
	Type TRef   `json:"type"`
	Dflt Dflt   `json:"dflt"`
	Dep  Dep    `json:"dep"`
}

type Field struct {
	Name string     `json:"name"`
	Desc string     `json:"desc"`
	Type TRef       `json:"type"`
	Args []InputVal `json:"args"`
	Dep  Dep        `json:"dep"`
}

type EnumVal struct {
	Name string `json:"name"`
	Desc string `json:"desc"`
	Dep  Dep    `json:"dep"`
}

type TypeDef struct {
	Name    string     `json:"name"`
	Kind    string     `json:"kind"`
	Desc    string     `json:"desc"`
	Fields  []Field    `json:"fields"`
	Ifaces  []string   `json:"ifaces"`
	Members []string   `json:"members"`
	Values  []EnumVal  `json:"values"`
	Inputs  []InputVal `json:"inputs"`
	URL     string     `json:"url"`
}

type DirDef struct {
	Name string     `json:"name"`
	Desc string     `json:"desc"`
	Rep  string     `json:"rep"`
	Locs []string   `json:"locs"`
	Args []InputVal `json:"args"`
}

type Schema struct {
	Desc         string    `json:"desc"`
	Query        string    `json:"query"`
	Mutation     string    `json:"mutation"`
	Subscription string    `json:"subscription"`
	Types        []TypeDef `json:"types"`
	Dirs         []DirDef  `json:"dirs"`
}

var NoDep = Dep{On: "f"}
var NoDflt = Dflt{T: "none", E: []DfltEntry{}}

// Normalize makes every slice non-nil (TLC's Json module rejects null).
func (s *Schema) Normalize() {
	if s.Types == nil {
		s.Types = []TypeDef{}
	}
	if s.Dirs == nil {
		s.Dirs = []DirDef{}
	}
	for i := range s.Types {
		t := &s.Types[i]
		if t.Fields == nil {
			t.Fields = []Field{}
		}
		if t.Ifaces == nil {
			t.Ifaces = []string{}
		}
		if t.Members == nil {
			t.Members = []string{}
		}
		if t.Values == nil {
			t.Values = []EnumVal{}
		}
		if t.Inputs == nil {
			t.Inputs = []InputVal{}
		}
		for j := range t.Fields {
			f := &t.Fields[j]
			normRef(&f.Type)
			if f.Args == nil {
				f.Args = []InputVal{}
			}
			for k := range f.Args {
				normInput(&f.Args[k])
			}
		}
		for j := range t.Inputs {
			normInput(&t.Inputs[j])
		}
	}
	for i := range s.Dirs {
		d := &s.Dirs[i]
		if d.Locs == nil {
			d.Locs = []string{}
		}
		if d.Args == nil {
			d.Args = []InputVal{}
		}
		for k := range d.Args {
			normInput(&d.Args[k])
		}
	}
}

func normRef(r *TRef) {
	if r.Wrap == nil {
		r.Wrap = []string{}
	}
}

func normInput(x *InputVal) {
	normRef(&x.Type)
	normDflt(&x.Dflt)
}

func normDflt(d *Dflt) {
	if d.T == "" {
		d.T = "none"
	}
	if d.E == nil {
		d.E = []DfltEntry{}
	}
	for i := range d.E {
		normDflt(&d.E[i].X)
	}
}

func (s *Schema) JSON() []byte {
	s.Normalize()
	b, _ := json.Marshal(s)
	return b
}

func (s *Schema) TypeNamed(n string) *TypeDef {
	for i := range s.Types {
		if s.Types[i].Name == n {
			return &s.Types[i]
		}
	}
	return nil
}

var BuiltinScalars = map[string]bool{"Int": true, "Float": true, "String": true, "Boolean": true, "ID": true}
var BuiltinDirectives = map[string]bool{"skip": true, "include": true, "deprecated": true, "specifiedBy": true, "defer": true, "oneOf": true}

const DefaultReason = "No longer supported"

func (s *Schema) KindOf(n string) string {
	if BuiltinScalars[n] {
		return "SCALAR"
	}
	if t := s.TypeNamed(n); t != nil {
		return t.Kind
	}
	return "?"
}

// ---- views exported by TLC (View(S, inc) of the specification) ----

type NStr struct {
	Nul string `json:"nul"`
	V   string `json:"v"`
}

type Layer struct {
	Kind string `json:"kind"`
	Name string `json:"name"`
}

type VDefault struct {
	Nul string `json:"nul"`
	Val Dflt   `json:"val"`
}

type VInput struct {
	Name              string   `json:"name"`
	Description       NStr     `json:"description"`
	Type              []Layer  `json:"type"`
	DefaultValue      VDefault `json:"defaultValue"`
	IsDeprecated      string   `json:"isDeprecated"`
	DeprecationReason NStr     `json:"deprecationReason"`
}

type VField struct {
	Name              string   `json:"name"`
	Description       NStr     `json:"description"`
	Args              []VInput `json:"args"`
	Type              []Layer  `json:"type"`
	IsDeprecated      string   `json:"isDeprecated"`
	DeprecationReason NStr     `json:"deprecationReason"`
}

type VEnum struct {
	Name              string `json:"name"`
	Description       NStr   `json:"description"`
	IsDeprecated      string `json:"isDeprecated"`
	DeprecationReason NStr   `json:"deprecationReason"`
}

type VFieldList struct {
	Nul string   `json:"nul"`
	L   []VField `json:"l"`
}
type VRefList struct {
	Nul string    `json:"nul"`
	L   [][]Layer `json:"l"`
}
type VEnumList struct {
	Nul string  `json:"nul"`
	L   []VEnum `json:"l"`
}
type VInputList struct {
	Nul string   `json:"nul"`
	L   []VInput `json:"l"`
}

type VType struct {
	Kind           string     `json:"kind"`
	Name           string     `json:"name"`
	Description    NStr       `json:"description"`
	SpecifiedByURL NStr       `json:"specifiedByURL"`
	Fields         VFieldList `json:"fields"`
	Interfaces     VRefList   `json:"interfaces"`
	PossibleTypes  VRefList   `json:"possibleTypes"`
	EnumValues     VEnumList  `json:"enumValues"`
	InputFields    VInputList `json:"inputFields"`
}

type VDir struct {
	Name         string   `json:"name"`
	Description  NStr     `json:"description"`
	IsRepeatable string   `json:"isRepeatable"`
	Locations    []string `json:"locations"`
	Args         []VInput `json:"args"`
}

type View struct {
	Description      NStr    `json:"description"`
	QueryType        string  `json:"queryType"`
	MutationType     NStr    `json:"mutationType"`
	SubscriptionType NStr    `json:"subscriptionType"`
	Types            []VType `json:"types"`
	Directives       []VDir  `json:"directives"`
}

// Case is one line exported by TLC: a schema and what the specification prescribes for it.
type Case struct {
	S   Schema `json:"s"`
	All View   `json:"all"` // includeDeprecated: true everywhere
	Cur View   `json:"cur"` // includeDeprecated: false everywhere
	// set by the driver
	Origin string `json:"origin,omitempty"` // mc | gen | own
	Own    bool   `json:"own,omitempty"`    // serve the probe's own schema (no override)
}

// Features returns the feature classes a schema exercises (for distinct_nontrivial).
func (s *Schema) Features() []string {
	set := map[string]bool{}
	dep := func(d Dep) string {
		if d.On == "f" {
			return "no"
		}
		if d.Reason == "" {
			return "default"
		}
		return "reason"
	}
	desc := func(x string) string {
		if x == "" {
			return "nodesc"
		}
		return "desc"
	}
	dk := func(d Dflt) string { return d.T }
	wrap := func(r TRef) string { return strings.Join(r.Wrap, "") + ":" + s.KindOf(r.Name) }
	for _, t := range s.Types {
		set["type:"+t.Kind+","+desc(t.Desc)] = true
		for _, f := range t.Fields {
			set["field@"+t.Kind+":dep="+dep(f.Dep)+","+desc(f.Desc)] = true
			set["fieldtype:"+wrap(f.Type)] = true
			if len(f.Args) == 0 {
				set["field:noargs"] = true
			}
			for _, a := range f.Args {
				set["arg:own="+dep(a.Dep)+"|field="+dep(f.Dep)+","+desc(a.Desc)] = true
				set["argtype:"+wrap(a.Type)] = true
				set["dflt@arg:"+dk(a.Dflt)] = true
			}
		}
		for _, x := range t.Inputs {
			set["inputfield:dep="+dep(x.Dep)+","+desc(x.Desc)] = true
			set["inputtype:"+wrap(x.Type)] = true
			set["dflt@input:"+dk(x.Dflt)] = true
		}
		for _, v := range t.Values {
			set["enumvalue:dep="+dep(v.Dep)+","+desc(v.Desc)] = true
		}
		if t.Kind == "OBJECT" || t.Kind == "INTERFACE" {
			ik := []string{}
			for _, i := range t.Ifaces {
				ik = append(ik, s.KindOf(i))
			}
			set[t.Kind+":implements="+itoa(len(ik))] = true
		}
		if t.Kind == "UNION" {
			set["union:members="+itoa(len(t.Members))] = true
		}
		if t.Kind == "SCALAR" && t.URL != "" {
			set["scalar:specifiedBy"] = true
		}
	}
	for _, d := range s.Dirs {
		set["directive:rep="+d.Rep+","+desc(d.Desc)+",locs="+itoa(len(d.Locs))] = true
		for _, l := range d.Locs {
			set["dirloc:"+l] = true
		}
		for _, a := range d.Args {
			set["dirarg:dep="+dep(a.Dep)+","+desc(a.Desc)] = true
			set["dflt@dirarg:"+dk(a.Dflt)] = true
		}
	}
	set["roots:m="+b2s(s.Mutation != "")+",s="+b2s(s.Subscription != "")+",desc="+b2s(s.Desc != "")] = true
	out := make([]string, 0, len(set))
	for k := range set {
		out = append(out, k)
	}
	sort.Strings(out)
	return out
}

func itoa(n int) string {
	if n > 3 {
		return "3+"
	}
	return string(rune('0' + n))
}

func b2s(b bool) string {
	if b {
		return "t"
	}
	return "f"
}

func jsonUnmarshal(b []byte, v any) error { return json.Unmarshal(b, v) }

func itoaN(n int) string {
	if n == 0 {
		return "0"
	}
	s := ""
	for n > 0 {
		s = string(rune('0'+n%10)) + s
		n /= 10
	}
	return s
}
